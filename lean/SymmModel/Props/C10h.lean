/-
  Property C10, network clause, round 6.

  (3) the MIXED operand orders of the halves of the norm network `{a, b, ā, b̄}` with EVERY contraction
      call in its own mode (`blockwise`, `fused` or `auto`; norms in practice run in `auto` → `fused`).

  `a`, `b` as in C10g: valid fermionic, bonded along `xa`/`xb` (`tdotAdmissibleB`), sorted distinct
  ket labels (`KetLabels`, all labels distinct); commutative scalars (`hmul`), `0·x = 0` (`hz1`),
  `AddCommMonoid`, `NetLaws` (+ `AssocLaws` for the sequential bracketing).  `K` is the BLOCKWISE
  contraction `a·b` (the reference for `normSq`).

  PROVED
  * `cross_guard` — two halves of any mode contracted in opposite operand orders (table frames
    `U ++ V` and `V' ++ U'` with leg-wise opposite entries, both possibly pruned differently:
    `TdotP.SizeLe`) satisfy the weak guard with the crossed leg pairs `crossAx`.
  * `cross_call_any_mode` — a crossed full contraction transfers from the blockwise halves to the
    halves and the final call in any mode (`TdotP.pad_blockwise`, `TdotP.call_w`, `pad_elem_nil`).
  * `network_norm_mixed_any_mode` — the four mixed balanced bracketings
        `(b̄·ā)·(a·b)`, `(a·b)·(b̄·ā)`, `(ā·b̄)·(b·a)`, `(b·a)·(ā·b̄)`
    with the four halves in the modes `mK mKb mK' mKb'` and the four final calls in `md 0 … md 3`:
    every call succeeds; every result has rank 0, no labels, value `normSq K`.
    `network_norm_mixed_auto`: all eight calls in the default mode.
  * `network_norm_mixed_seq_any_mode` — `((ā·b̄)·b)·a` with its three calls in the modes `mKb m1 m2`
    (label hypothesis `netLabelsB` of the swapped roles as in C10g; automatic for at most one label per
    tensor: `network_norm_mixed_seq_any_mode_oneKet`); `tw_cross_any_mode` is the generic step
    `(Xm·q)·p` (half first against its SECOND factor) in any modes from the blockwise route.

  (1) THREE-TENSOR CHAINS `a – b – c` (bond 1: legs `xa` of `a` with `xb1` of `b`; bond 2: legs `xb2` of
      `b` with `xc` of `c`; every other leg dangling; legs of ANY direction; blockwise mode).
  The bra network is built TENSOR BY TENSOR: `ā = braOf a xa`, `b̄ = braOf b (xb1 ++ xb2)`, `c̄ = braOf c xc`
  (`braOf t X = t.conj()` followed by `phase_flip` of the legs of `t` outside `X` that are bra-like).
  Hypotheses are on the INPUT tensors only: valid fermionic, the WEAK contraction guard
  (`AssocP.tdotAdmissibleCommonB`: matched legs opposite, charge tables agreeing on common charges —
  implied by `tdotAdmissibleB`) on both bonds, `xb1`, `xb2` disjoint, sorted ket labels (`KetLabels`), all
  labels of the three tensors distinct.  Scalars: `AddMonoid`, `NetLaws`.

  PROVED
  * `conj_tensordot_spared` — `conj` of a contraction = contraction of conjugates when FURTHER BOND LEGS `y`
    of the second tensor are spared by its flip set (weak guard): `braOf a xa · braOf b (xb ++ y)` is
    observationally (`Lazy.ObsEq`: symmetry, index tables, charge, labels, stored sectors, every value)
    `braOf (a·b) y'`, `y' = AssocP.axesAB …` the images of `y` in `a·b`: the bra tensor of the composite
    in the remaining network.  [`dangOdd_result` replaces `dualOdd_result` in the sign identity
    `bra_pair_sign` of one aligned sector pair; `y = []`, strong guard: `conj_tensordot` of C10c via
    `conj_phase_dual_is_braOf`.]
  * `conj_phase_dual_is_braOf` — `K.conj(phase_dual=True)` is observationally `braOf K x` whenever the
    legs `x` are ket-like (in particular `x = []`).
  * `chain_second_guard` — the second call `(a·b)·c` satisfies the weak guard (from `InterW`).
  * `network_norm_chain3` — the HALVES ROUTE with left-nested halves, both operand orders of the
    final call: `K2 = a·b`, `K3 = K2·c`, `K̄2 = ā·b̄`, `K̄3 = K̄2·c̄` all succeed;
    `K̄2 ≈ braOf K2 x2`, `K̄3 ≈ K3.conj(phase_dual=True)` (the inductive use of `conj_tensordot_spared`);
    `K̄3·K3 = normSq K3 = Σ|K3|²`, `K3·K̄3 = normSq' K3`, rank 0, no labels, no stray sign; the labels of
    `K3` are a permutation of all labels.
  * `network_norm_chain3_strong` — the same under `tdotAdmissibleB` on both bonds.
  * `network_norm_chain3_routes` (scalars additionally `AddCommMonoid`, `AssocLaws`) — EIGHT ROUTES: the
    ket half as `(a·b)·c` or `a·(b·c)`, the bra half as `(ā·b̄)·c̄` or `ā·(b̄·c̄)`, the final call with the
    bra half left (`normSq K3`) or right (`normSq' K3`): all calls succeed, the right-nested halves are
    `Assoc3P.Eqv` (`C04.eqv_def`) to the left-nested ones (S7 for chains under the weak guard, `chain_both`), every final
    result has rank 0, no labels, the value `Σ|K3|²` (`full_congr`: congruence of the full contraction).
  * `network_norm_chain3_any_mode` (scalars `AddCommMonoid`, `0·x = x·0 = 0`) — the halves route with
    EVERY call in its own mode `md 0 … md 5` (`a·b`, `ā·b̄`, `(a·b)·c`, `(ā·b̄)·c̄`, the two final calls): all
    calls succeed, both final results are rank-0 arrays without labels with the value `normSq K3` resp.
    `normSq' K3` of the BLOCKWISE `K3 = (a·b)·c` [`TdotP.Pad` transfer; the weak guards of the later calls
    from the frames of the intermediates: `chain_second_guard`, `full_guard_frames`];
    `network_norm_chain3_auto`: all six calls in the default mode.
  * CHAINS OF ANY LENGTH (`Assoc3P.Seg` = tensor with its left / right bond legs, `Assoc4P.LeafOK`,
    `Assoc4P.Link` = weak guard between neighbours, `Assoc4P.evalL` = left-nested contraction,
    `Assoc4P.STree` = bracketing tree; `braSeg S = ⟨braOf S.arr (S.l ++ S.r), S.l, S.r⟩`):
    `chain_conj` — the induction step/invariant: the left-nested contraction of the bra chain is
    observationally `braOf` (open bond spared) of the left-nested contraction of the ket chain;
    `network_norm_chain` — for a closed chain (first tensor without left bond, last without right bond):
    `(bra chain)·(ket chain) = Σ|K|²` in both operand orders, rank 0, no labels, `K`'s labels a permutation
    of all labels;
    `network_norm_chain_bracketings` (scalars `AddCommMonoid`, `AssocLaws`) — the same with the ket chain
    contracted along ANY bracketing tree `t` and the bra chain along ANY bracketing tree `tb`
    (`C04.chain_bracketing` + `full_congr`);
    `network_norm_chain_any_mode` (scalars `AddCommMonoid`, `0·x = x·0 = 0`) — the left-nested ket chain with
    its `k`-th call in mode `mk k`, the left-nested bra chain with its `k`-th call in mode `mb k`
    (`evalLM`, `compM`), the final calls in modes `m1`, `m2`: all calls succeed and give `normSq K` resp.
    `normSq' K` of the BLOCKWISE chain `K` [joint induction `chain_conj_any_mode` on the blockwise pieces and
    their zero-padded any-mode versions `NormNet.ModeInv`].
  * `chain3_needs_sparing` — negative control: flipping ALSO the bra-like bond leg of `b̄` towards `c`
    (`braOf b xb1` instead of `braOf b (xb1 ++ xb2)`) gives `-106582` instead of `Σ|K3|² = 117734` on a
    concrete chain.

  NOT COVERED (remaining)
  * further routes of the three-tensor network: the nested
    routes that absorb the bra tensors one at a time (`c̄·(b̄·(ā·K3))`: needs the triangle S7 of C04 with
    the frames of NormNet13/18), operand-swapped halves; fused / auto mode for bracketings other than the left-nested one;
  * (2) bracketings of the two-tensor network that first contract a ket with a bra tensor
    (`(ā·a)·(b̄·b)`, `((ā·a)·b̄)·b`): not attempted — these bracketings contain neither `a·b` nor `ā·b̄`, so
    every derivation from the proved routes has to move a ket tensor past a bra tensor it is not bonded
    to: S5 with its Koszul rotation on PRUNED intermediates (`C04.tdotF_swap_eqv` under the weak guard,
    twice) plus two triangle S7 steps and S6 to absorb the rotations into the axes lists;
  * the other sequential bracketings with mixed orders in any mode (same argument as `tw_cross_any_mode`
    with another triangle); `netLabelsB` for more than two labels per tensor.
-/
import SymmModel.Proofs.NetNorm12
import SymmModel.Props.C10g

namespace SymmModel.C10
open SymmModel Lazy Norm NormNet TdotP
set_option linter.unusedSectionVars false

/-! ## (3) mixed operand orders in any mode -/

/-- leg-wise "can be contracted with": same charge table, opposite direction -/
theorem opp_def (i j : Index) : NormNet.Opp i j ↔ (j.cm = i.cm ∧ j.dual = !i.dual) := Iff.rfl

/-- **the weak guard with crossed leg pairs**, for halves of any mode -/
theorem cross_guard {R : Type} {Z X : Arr R} {U V U' V' : List Index}
    (hZ : List.Forall₂ SizeLe Z.indices (V' ++ U')) (hX : List.Forall₂ SizeLe X.indices (U ++ V))
    (hU : List.Forall₂ NormNet.Opp U U') (hV : List.Forall₂ NormNet.Opp V V')
    (hnZ : ∀ ix ∈ Z.indices, (ix.cm.map (·.1)).Nodup)
    (hnF : ∀ ix ∈ U ++ V, (ix.cm.map (·.1)).Nodup) :
    AssocP.contractibleCommonB Z X (crossAx U.length V.length) (List.range (U.length + V.length))
      = true :=
  NormNet.cross_common hZ hX hU hV hnZ hnF

/-- **a crossed full contraction in any mode** from the blockwise one -/
theorem cross_call_any_mode {R : Type} [AddCommMonoid R] [Mul R] [Neg R] [GradedP.SignRing R]
    (hz1 : ∀ x : R, 0 * x = 0) (hz2 : ∀ x : R, x * 0 = 0)
    {Z Zm X Xm : Arr R} {U V U' V' : List Index}
    (HZ : NormNet.Half Z Zm (V' ++ U')) (HX : NormNet.Half X Xm (U ++ V)) (hsym : Z.sym = X.sym)
    (hU : List.Forall₂ NormNet.Opp U U') (hV : List.Forall₂ NormNet.Opp V V')
    (hnF : ∀ ix ∈ U ++ V, (ix.cm.map (·.1)).Nodup) (r : Arr R)
    (hr : Z.tensordotF X (.pair ((crossAx U.length V.length).map Int.ofNat)
        ((List.range (U.length + V.length)).map Int.ofNat)) .blockwise = .ok r)
    (hrn : r.ndim = 0) (mode : TdotMode) :
    ∃ rm, Zm.tensordotF Xm (.pair ((crossAx U.length V.length).map Int.ofNat)
          ((List.range (U.length + V.length)).map Int.ofNat)) mode = .ok rm
      ∧ rm.ndim = 0 ∧ rm.oddpos = r.oddpos ∧ rm.elem [] [] = r.elem [] [] :=
  NormNet.cross_call_any hz1 hz2 HZ HX hsym hU hV hnF r hr hrn mode

section mixed
variable {R : Type} [AddCommMonoid R] [Mul R] [Neg R] [Conj R] [NetLaws R]

/-- **network_norm_mixed_any_mode.**  The four balanced bracketings with the halves in mixed
    operand orders, the four halves and the four final calls each in its own mode: all calls
    succeed; the results are rank-0 arrays without labels with value `normSq K`, `K` the blockwise
    `a·b`. -/
theorem network_norm_mixed_any_mode (hmul : ∀ x y : R, x * y = y * x) (hz1 : ∀ x : R, 0 * x = 0)
    (a b : Arr R) (xa xb : List Nat)
    (ha : a.validB = true) (hb : b.validB = true) (hfa : a.fermi = true) (hfb : b.fermi = true)
    (hadm : ValidP.tdotAdmissibleB a b xa xb = true)
    (hoA : KetLabels a.oddpos) (hoB : KetLabels b.oddpos)
    (hd : (a.oddpos ++ b.oddpos).Pairwise (fun x y => x.1 ≠ y.1))
    (mK mKb mK' mKb' : TdotMode) (md : Nat → TdotMode) :
    ∃ K Km Kbm Km' Kbm',
      a.tensordotF b (.pair (xa.map Int.ofNat) (xb.map Int.ofNat)) .blockwise = .ok K
      ∧ a.tensordotF b (.pair (xa.map Int.ofNat) (xb.map Int.ofNat)) mK = .ok Km
      ∧ (NormNet.braOf a xa).tensordotF (NormNet.braOf b xb)
          (.pair (xa.map Int.ofNat) (xb.map Int.ofNat)) mKb = .ok Kbm
      ∧ b.tensordotF a (.pair (xb.map Int.ofNat) (xa.map Int.ofNat)) mK' = .ok Km'
      ∧ (NormNet.braOf b xb).tensordotF (NormNet.braOf a xa)
          (.pair (xb.map Int.ofNat) (xa.map Int.ofNat)) mKb' = .ok Kbm'
      -- (b̄·ā)·(a·b)
      ∧ (∃ r, Kbm'.tensordotF Km (.pair
            ((crossAx (freeAxes a.ndim xa).length (freeAxes b.ndim xb).length).map Int.ofNat)
            ((List.range K.ndim).map Int.ofNat)) (md 0) = .ok r
          ∧ r.ndim = 0 ∧ r.oddpos = [] ∧ r.elem [] [] = normSq K)
      -- (a·b)·(b̄·ā)
      ∧ (∃ r, Km.tensordotF Kbm' (.pair
            ((crossAx (freeAxes b.ndim xb).length (freeAxes a.ndim xa).length).map Int.ofNat)
            ((List.range K.ndim).map Int.ofNat)) (md 1) = .ok r
          ∧ r.ndim = 0 ∧ r.oddpos = [] ∧ r.elem [] [] = normSq K)
      -- (ā·b̄)·(b·a)
      ∧ (∃ r, Kbm.tensordotF Km' (.pair
            ((crossAx (freeAxes b.ndim xb).length (freeAxes a.ndim xa).length).map Int.ofNat)
            ((List.range K.ndim).map Int.ofNat)) (md 2) = .ok r
          ∧ r.ndim = 0 ∧ r.oddpos = [] ∧ r.elem [] [] = normSq K)
      -- (b·a)·(ā·b̄)
      ∧ (∃ r, Km'.tensordotF Kbm (.pair
            ((crossAx (freeAxes a.ndim xa).length (freeAxes b.ndim xb).length).map Int.ofNat)
            ((List.range K.ndim).map Int.ofNat)) (md 3) = .ok r
          ∧ r.ndim = 0 ∧ r.oddpos = [] ∧ r.elem [] [] = normSq K) :=
  NormNet.network_norm_mixedM hmul hz1 a b xa xb ha hb hfa hfb hadm hoA hoB hd mK mKb mK' mKb' md

/-- the default mode everywhere: all eight calls in `mode = auto`
    (`MixedM` abbreviates the conclusion of `network_norm_mixed_any_mode`) -/
theorem network_norm_mixed_auto (hmul : ∀ x y : R, x * y = y * x) (hz1 : ∀ x : R, 0 * x = 0)
    (a b : Arr R) (xa xb : List Nat)
    (ha : a.validB = true) (hb : b.validB = true) (hfa : a.fermi = true) (hfb : b.fermi = true)
    (hadm : ValidP.tdotAdmissibleB a b xa xb = true)
    (hoA : KetLabels a.oddpos) (hoB : KetLabels b.oddpos)
    (hd : (a.oddpos ++ b.oddpos).Pairwise (fun x y => x.1 ≠ y.1)) :
    MixedM a b xa xb .auto .auto .auto .auto (fun _ => .auto) :=
  NormNet.network_norm_mixedM hmul hz1 a b xa xb ha hb hfa hfb hadm hoA hoB hd _ _ _ _ _

end mixed

section seq
variable {R : Type} [AddCommMonoid R] [Mul R] [Neg R]

/-- the generic step `(Xm·q)·p` in modes `m1`, `m2` from the blockwise `(X·q)·p`: the half `X`
    (frame: conjugated frame of `p·q`) meets first its SECOND factor `q`, then `p` -/
theorem tw_cross_any_mode [GradedP.SignRing R]
    (hz1 : ∀ x : R, 0 * x = 0) (hz2 : ∀ x : R, x * 0 = 0)
    (p q X Xm AB c : Arr R) (xp xq : List Nat)
    (hp : p.validB = true) (hq : q.validB = true) (hfp : p.fermi = true) (hfq : q.fermi = true)
    (hadm : ValidP.tdotAdmissibleB p q xp xq = true) (H : HalfPair X Xm p q xp xq)
    (e1 : X.tensordotF q (.pair
        (((List.range (freeAxes q.ndim xq).length).map ((freeAxes p.ndim xp).length + ·)).map
          Int.ofNat) ((freeAxes q.ndim xq).map Int.ofNat)) .blockwise = .ok AB)
    (e2 : AB.tensordotF p (.pair ((Assoc2P.axesAB
          ((freeAxes p.ndim xp).length + (freeAxes q.ndim xq).length) q.ndim
          ((List.range (freeAxes q.ndim xq).length).map ((freeAxes p.ndim xp).length + ·))
          (List.range (freeAxes p.ndim xp).length) (freeAxes q.ndim xq) xq).map Int.ofNat)
        ((freeAxes p.ndim xp ++ xp).map Int.ofNat)) .blockwise = .ok c)
    (hc : c.ndim = 0) (m1 m2 : TdotMode) :
    ∃ ABm cm, Xm.tensordotF q (.pair
          (((List.range (freeAxes q.ndim xq).length).map ((freeAxes p.ndim xp).length + ·)).map
            Int.ofNat) ((freeAxes q.ndim xq).map Int.ofNat)) m1 = .ok ABm
      ∧ ABm.tensordotF p (.pair ((Assoc2P.axesAB
            ((freeAxes p.ndim xp).length + (freeAxes q.ndim xq).length) q.ndim
            ((List.range (freeAxes q.ndim xq).length).map ((freeAxes p.ndim xp).length + ·))
            (List.range (freeAxes p.ndim xp).length) (freeAxes q.ndim xq) xq).map Int.ofNat)
          ((freeAxes p.ndim xp ++ xp).map Int.ofNat)) m2 = .ok cm
      ∧ cm.ndim = 0 ∧ cm.oddpos = c.oddpos ∧ cm.elem [] [] = c.elem [] [] :=
  NormNet.tw_cross_any hz1 hz2 p q X Xm AB c xp xq hp hq hfp hfq hadm H e1 e2 hc m1 m2

variable [Conj R] [NetLaws R] [AssocP.AssocLaws R]

/-- **network_norm_mixed_seq_any_mode.**  `((ā·b̄)·b)·a = normSq (a·b)` with the bra half in mode `mKb`
    and the two tensor-by-tensor calls in the modes `m1`, `m2` (the rank of the half is written out:
    `(freeAxes a.ndim xa).length + (freeAxes b.ndim xb).length`) -/
theorem network_norm_mixed_seq_any_mode (hmul : ∀ x y : R, x * y = y * x) (a b : Arr R)
    (xa xb : List Nat)
    (ha : a.validB = true) (hb : b.validB = true) (hfa : a.fermi = true) (hfb : b.fermi = true)
    (hadm : ValidP.tdotAdmissibleB a b xa xb = true)
    (hoA : KetLabels a.oddpos) (hoB : KetLabels b.oddpos)
    (hd : (a.oddpos ++ b.oddpos).Pairwise (fun x y => x.1 ≠ y.1))
    (hlab' : netLabelsB b.parity a.parity b.oddpos a.oddpos = true) (mKb m1 m2 : TdotMode) :
    ∃ K Kbm, a.tensordotF b (.pair (xa.map Int.ofNat) (xb.map Int.ofNat)) .blockwise = .ok K
      ∧ (NormNet.braOf a xa).tensordotF (NormNet.braOf b xb)
          (.pair (xa.map Int.ofNat) (xb.map Int.ofNat)) mKb = .ok Kbm
      ∧ ∃ T c, Kbm.tensordotF b (.pair
            (((List.range (freeAxes b.ndim xb).length).map ((freeAxes a.ndim xa).length + ·)).map
              Int.ofNat) ((freeAxes b.ndim xb).map Int.ofNat)) m1 = .ok T
        ∧ T.tensordotF a (.pair ((Assoc2P.axesAB
              ((freeAxes a.ndim xa).length + (freeAxes b.ndim xb).length) b.ndim
              ((List.range (freeAxes b.ndim xb).length).map ((freeAxes a.ndim xa).length + ·))
              (List.range (freeAxes a.ndim xa).length) (freeAxes b.ndim xb) xb).map Int.ofNat)
            ((freeAxes a.ndim xa ++ xa).map Int.ofNat)) m2 = .ok c
        ∧ c.ndim = 0 ∧ c.oddpos = [] ∧ c.elem [] [] = normSq K :=
  NormNet.network_norm_mixed_seqM hmul a b xa xb ha hb hfa hfb hadm hoA hoB hd hlab' mKb m1 m2

/-- at most one ket label per tensor: no label hypothesis -/
theorem network_norm_mixed_seq_any_mode_oneKet (hmul : ∀ x y : R, x * y = y * x) (a b : Arr R)
    (xa xb : List Nat)
    (ha : a.validB = true) (hb : b.validB = true) (hfa : a.fermi = true) (hfb : b.fermi = true)
    (hadm : ValidP.tdotAdmissibleB a b xa xb = true)
    (hoA : OneKet a.oddpos) (hoB : OneKet b.oddpos)
    (hd : (a.oddpos ++ b.oddpos).Pairwise (fun x y => x.1 ≠ y.1)) (mKb m1 m2 : TdotMode) :
    MixedSeqM a b xa xb mKb m1 m2 :=
  NormNet.network_norm_mixed_seqM hmul a b xa xb ha hb hfa hfb hadm hoA.ketLabels hoB.ketLabels hd
    (netLabelsB_of_oneKet hb ha hfb hfa hoB hoA (labels_swap hd)) mKb m1 m2

end seq

/-! ### non-vacuity of (3) -/

open scoped SymmModel.Lazy

/-- the pruned network `gAs`, `gB` of C10d, all eight calls in the default mode -/
example : MixedM gAs C03.gB [2] [0] .auto .auto .auto .auto (fun _ => .auto) :=
  network_norm_mixed_auto Int.mul_comm Int.zero_mul gAs C03.gB [2] [0] (by decide +kernel)
    (by decide +kernel) rfl rfl (by decide +kernel) (OneKet.ketLabels (Or.inr ⟨1, rfl⟩))
    (OneKet.ketLabels (Or.inr ⟨3, rfl⟩)) (by decide)

/-- mixed modes -/
example : MixedM C03.gA C03.gB [2] [0] .fused .blockwise .auto .fused
    (fun i => if i % 2 = 0 then .fused else .auto) :=
  NormNet.network_norm_mixedM Int.mul_comm Int.zero_mul C03.gA C03.gB [2] [0] (by decide +kernel)
    (by decide +kernel) rfl rfl (by decide +kernel) (OneKet.ketLabels (Or.inr ⟨1, rfl⟩))
    (OneKet.ketLabels (Or.inr ⟨3, rfl⟩)) (by decide) _ _ _ _ _

example : MixedSeqM gAs C03.gB [2] [0] .auto .auto .auto :=
  network_norm_mixed_seq_any_mode_oneKet Int.mul_comm gAs C03.gB [2] [0] (by decide +kernel)
    (by decide +kernel) rfl rfl (by decide +kernel) (Or.inr ⟨1, rfl⟩) (Or.inr ⟨3, rfl⟩) (by decide)
    _ _ _

/-- the values of `(b̄·ā)·(a·b)` and `((ā·b̄)·b)·a` of a concrete network with every call in mode `m`,
    and `normSq K` of the blockwise `K` -/
def mixedModeVals (a b : Arr Int) (xa xb : List Nat) (m : TdotMode) : List Int :=
  let fA := freeAxes a.ndim xa
  let fB := freeAxes b.ndim xb
  let sh := (List.range fB.length).map (fA.length + ·)
  let P (x y : List Nat) : AxesArg := .pair (x.map Int.ofNat) (y.map Int.ofNat)
  let val (r : Except Err (Arr Int)) : Int := match r with | .ok c => c.elem [] [] | .error _ => -1
  match a.tensordotF b (P xa xb) .blockwise, a.tensordotF b (P xa xb) m,
      (NormNet.braOf a xa).tensordotF (NormNet.braOf b xb) (P xa xb) m,
      (NormNet.braOf b xb).tensordotF (NormNet.braOf a xa) (P xb xa) m with
  | .ok K, .ok Km, .ok Kbm, .ok Kbm' =>
    [ val (Kbm'.tensordotF Km (P (crossAx fA.length fB.length) (List.range K.ndim)) m),
      val (do let T ← Kbm.tensordotF b (P sh fB) m
              T.tensordotF a (P (Assoc2P.axesAB (fA.length + fB.length) b.ndim sh
                (List.range fA.length) fB xb) (fA ++ xa)) m),
      normSq K ]
  | _, _, _, _ => []

example : mixedModeVals gAs C03.gB [2] [0] .fused = [2174, 2174, 2174] := by decide +kernel

/-! ## (1) three-tensor chains -/

section chain
variable {R : Type} [AddMonoid R] [Mul R] [Neg R] [Conj R] [NetLaws R]

/-- vocabulary: the bra tensor and its flip set; the images of further bond legs in a contraction -/
theorem braOf_def' (a : Arr R) (X : List Nat) :
    NormNet.braOf a X = (a.conjF).phaseFlip (NormNet.dangDual a X)
    ∧ NormNet.dangDual a X
        = (freeAxes a.ndim X).filter (fun ax => (a.indices.getD ax default).dual) := ⟨rfl, rfl⟩

theorem spared_images_def (nA nB : Nat) (xa xb y : List Nat) :
    AssocP.axesAB nA nB xa xb y
      = (RoutesP.positions (freeAxes nB xb) y).map ((freeAxes nA xa).length + ·) := rfl

/-- `K.conj(phase_dual=True)` is the bra tensor `braOf K x` when the legs `x` are ket-like -/
theorem conj_phase_dual_is_braOf (K : Arr R) (x : List Nat) (hv : K.validB = true)
    (hf : K.fermi = true) (hx : ∀ ax ∈ x, (K.indices.getD ax default).dual = false) :
    ObsEq (K.conjF true true) (NormNet.braOf K x) :=
  NormNet.conjF_obs_braOf K x (SignOk.of_valid hv hf) hx

/-- ket-like bond legs are never flipped -/
theorem braOf_spare_ket (a : Arr R) (x y : List Nat)
    (hy : ∀ ax ∈ y, (a.indices.getD ax default).dual = false) :
    NormNet.braOf a (x ++ y) = NormNet.braOf a x := NormNet.braOf_spare a x y hy

/-- **conj_tensordot_spared.**  `conj` of a contraction = contraction of the conjugates, with further
    bond legs `y` of `b` spared, under the weak guard. -/
theorem conj_tensordot_spared (a b : Arr R) (xa xb y : List Nat)
    (ha : a.validB = true) (hb : b.validB = true) (hfa : a.fermi = true) (hfb : b.fermi = true)
    (hadm : AssocP.tdotAdmissibleCommonB a b xa xb = true)
    (hny : (xb ++ y).Nodup) (hy : ∀ i ∈ y, i < b.ndim)
    (hoA : KetLabels a.oddpos) (hoB : KetLabels b.oddpos)
    (hd : (a.oddpos ++ b.oddpos).Pairwise (fun x y => x.1 ≠ y.1)) :
    ∃ K Kb, a.tensordotF b (.pair (xa.map Int.ofNat) (xb.map Int.ofNat)) .blockwise = .ok K
      ∧ (NormNet.braOf a xa).tensordotF (NormNet.braOf b (xb ++ y))
          (.pair (xa.map Int.ofNat) (xb.map Int.ofNat)) .blockwise = .ok Kb
      ∧ ObsEq Kb (NormNet.braOf K (AssocP.axesAB a.ndim b.ndim xa xb y))
      ∧ K.validB = true ∧ K.fermi = true ∧ Kb.validB = true ∧ Kb.fermi = true
      ∧ (∀ x ∈ K.oddpos, x.2 = false)
      ∧ K.oddpos.Pairwise (fun x y => oddLt x y = true)
      ∧ K.oddpos.Pairwise (fun x y => x.1 ≠ y.1)
      ∧ K.oddpos.Perm (a.oddpos ++ b.oddpos) := by
  have W := AssocP.AdmW.of ha hb hfa hfb hadm
  have hM : AssocP.Mid b.ndim xb y := AssocP.Mid.of hny (by
    intro i hi
    rcases List.mem_append.mp hi with h | h
    · exact W.ltB i h
    · exact hy i h)
  obtain ⟨K, Kb, h1, h2, h3, h4, h5, h6, h7, h8, h9, h10, _, h12⟩ :=
    NormNet.conj_tensordot_spared_w a b xa xb y W hM hoA hoB hd
  exact ⟨K, Kb, h1, h2, h3, h4, h5, h6, h7, h8, h9, h10, h12⟩

/-- the second call of the chain satisfies the weak guard -/
theorem chain_second_guard [GradedP.SignRing R] {a b c K2 : Arr R} {xa xb1 xb2 xc : List Nat}
    (I : InterW a b xa xb1 K2) (W1 : AssocP.AdmW a b xa xb1) (W2 : AssocP.AdmW b c xb2 xc)
    (hM : AssocP.Mid b.ndim xb1 xb2) :
    AssocP.AdmW K2 c (AssocP.axesAB a.ndim b.ndim xa xb1 xb2) xc :=
  NormNet.admW_left_chain_w I W1 W2 hM

/-- **network_norm_chain3.**  The three-tensor chain conjugated tensor by tensor, halves route:
    all four contractions succeed, the bra half is observationally `conj(phase_dual=True)` of the ket
    half, and the two full contractions give `Σ|K3|²` — rank 0, no labels, no stray sign. -/
theorem network_norm_chain3 (a b c : Arr R) (xa xb1 xb2 xc : List Nat)
    (ha : a.validB = true) (hb : b.validB = true) (hc : c.validB = true)
    (hfa : a.fermi = true) (hfb : b.fermi = true) (hfc : c.fermi = true)
    (hadm1 : AssocP.tdotAdmissibleCommonB a b xa xb1 = true)
    (hadm2 : AssocP.tdotAdmissibleCommonB b c xb2 xc = true)
    (hnd : (xb1 ++ xb2).Nodup)
    (hoA : KetLabels a.oddpos) (hoB : KetLabels b.oddpos) (hoC : KetLabels c.oddpos)
    (hd : ((a.oddpos ++ b.oddpos) ++ c.oddpos).Pairwise (fun x y => x.1 ≠ y.1)) :
    ∃ K2 Kb2 K3 Kb3,
      a.tensordotF b (.pair (xa.map Int.ofNat) (xb1.map Int.ofNat)) .blockwise = .ok K2
      ∧ (NormNet.braOf a xa).tensordotF (NormNet.braOf b (xb1 ++ xb2))
          (.pair (xa.map Int.ofNat) (xb1.map Int.ofNat)) .blockwise = .ok Kb2
      ∧ K2.tensordotF c (.pair ((AssocP.axesAB a.ndim b.ndim xa xb1 xb2).map Int.ofNat)
          (xc.map Int.ofNat)) .blockwise = .ok K3
      ∧ Kb2.tensordotF (NormNet.braOf c xc)
          (.pair ((AssocP.axesAB a.ndim b.ndim xa xb1 xb2).map Int.ofNat)
          (xc.map Int.ofNat)) .blockwise = .ok Kb3
      ∧ ObsEq Kb2 (NormNet.braOf K2 (AssocP.axesAB a.ndim b.ndim xa xb1 xb2))
      ∧ ObsEq Kb3 (K3.conjF true true)
      ∧ Kb3.ndim = K3.ndim
      ∧ K3.oddpos.Perm ((a.oddpos ++ b.oddpos) ++ c.oddpos)
      ∧ K3.validB = true ∧ K3.fermi = true ∧ Kb3.validB = true ∧ Kb3.fermi = true
      ∧ (∃ r, Kb3.tensordotF K3 (allAxes K3.ndim) .blockwise = .ok r
          ∧ r.ndim = 0 ∧ r.oddpos = [] ∧ r.elem [] [] = normSq K3)
      ∧ (∃ r, K3.tensordotF Kb3 (allAxes K3.ndim) .blockwise = .ok r
          ∧ r.ndim = 0 ∧ r.oddpos = [] ∧ r.elem [] [] = normSq' K3) :=
  NormNet.network_norm_chain3 a b c xa xb1 xb2 xc ha hb hc hfa hfb hfc hadm1 hadm2 hnd hoA hoB hoC hd

/-- the strong guard implies the weak one -/
theorem admissible_weak {a b : Arr R} {xa xb : List Nat}
    (ha : a.validB = true) (hb : b.validB = true) (hfa : a.fermi = true) (hfb : b.fermi = true)
    (hadm : ValidP.tdotAdmissibleB a b xa xb = true) :
    AssocP.tdotAdmissibleCommonB a b xa xb = true := by
  have W := AssocP.AdmW.ofAdm (RoutesP.Adm.of ha hb hfa hfb hadm)
  unfold AssocP.tdotAdmissibleCommonB
  simp only [Bool.and_eq_true, decide_eq_true_eq, ValidP.allDistinct_iff, List.all_eq_true]
  exact ⟨⟨⟨⟨⟨W.sym, W.con⟩, W.nA⟩, W.nB⟩, W.ltA⟩, W.ltB⟩

/-- `network_norm_chain3` under the guard `tdotAdmissibleB` of the implementation on both bonds
    (`Chain3` abbreviates the conclusion of `network_norm_chain3`) -/
theorem network_norm_chain3_strong (a b c : Arr R) (xa xb1 xb2 xc : List Nat)
    (ha : a.validB = true) (hb : b.validB = true) (hc : c.validB = true)
    (hfa : a.fermi = true) (hfb : b.fermi = true) (hfc : c.fermi = true)
    (hadm1 : ValidP.tdotAdmissibleB a b xa xb1 = true)
    (hadm2 : ValidP.tdotAdmissibleB b c xb2 xc = true)
    (hnd : (xb1 ++ xb2).Nodup)
    (hoA : KetLabels a.oddpos) (hoB : KetLabels b.oddpos) (hoC : KetLabels c.oddpos)
    (hd : ((a.oddpos ++ b.oddpos) ++ c.oddpos).Pairwise (fun x y => x.1 ≠ y.1)) :
    Chain3 a b c xa xb1 xb2 xc :=
  NormNet.network_norm_chain3 a b c xa xb1 xb2 xc ha hb hc hfa hfb hfc
    (admissible_weak ha hb hfa hfb hadm1) (admissible_weak hb hc hfb hfc hadm2) hnd hoA hoB hoC hd

end chain

/-! ### non-vacuity of (1) -/

open SymmModel.C03 in
/-- a third tensor `c[j', m]`: ket `j'`, bra `m`; odd; label 5; pending sign -/
def gC : Arr Int :=
  { sym := .Z2, fermi := true, indices := [ixi false, ixk true], charge := (1, 0),
    blocks := [([(1,0),(0,0)], mkB [1,1] 3), ([(0,0),(1,0)], mkB [2,2] (-2))],
    phases := [([(0,0),(1,0)], -1)], oddpos := [(5, false)] }

/-- the chain `gA – gB – gC`: bond 1 = `gA`'s ket leg 2 with `gB`'s bra leg 0; bond 2 = `gB`'s BRA leg 2
    with `gC`'s ket leg 0 (so `b̄`'s flip set really has to spare a bra-like leg) -/
example : Chain3 C03.gA C03.gB gC [2] [0] [2] [0] :=
  network_norm_chain3_strong C03.gA C03.gB gC [2] [0] [2] [0] (by decide +kernel) (by decide +kernel)
    (by decide +kernel) rfl rfl rfl (by decide +kernel) (by decide +kernel) (by decide)
    (OneKet.ketLabels (Or.inr ⟨1, rfl⟩)) (OneKet.ketLabels (Or.inr ⟨3, rfl⟩))
    (OneKet.ketLabels (Or.inr ⟨5, rfl⟩)) (by decide)

/-- value of `((ā·b̄)·c̄)·((a·b)·c)` with `b̄ = braOf b (xb1 ++ xb2)` (`spare = true`) resp. `braOf b xb1`
    (`spare = false`: the bond leg towards `c` flipped as well), and `normSq ((a·b)·c)` -/
def chainVals (a b c : Arr Int) (xa xb1 xb2 xc : List Nat) (spare : Bool) : List Int :=
  let P (x y : List Nat) : AxesArg := .pair (x.map Int.ofNat) (y.map Int.ofNat)
  let x2 := AssocP.axesAB a.ndim b.ndim xa xb1 xb2
  match a.tensordotF b (P xa xb1) .blockwise,
      (NormNet.braOf a xa).tensordotF (NormNet.braOf b (if spare then xb1 ++ xb2 else xb1)) (P xa xb1)
        .blockwise with
  | .ok k2, .ok kb2 =>
    (match kb2.tensordotF (NormNet.braOf c xc) (P x2 xc) .blockwise,
        k2.tensordotF c (P x2 xc) .blockwise with
     | .ok kb3, .ok k3 =>
       (match kb3.tensordotF k3 (allAxes k3.ndim) .blockwise with
        | .ok r => [r.elem [] [], normSq k3, (r.ndim : Int), (r.oddpos.length : Int)]
        | .error _ => [])
     | _, _ => [])
  | _, _ => []

example : chainVals C03.gA C03.gB gC [2] [0] [2] [0] true = [117734, 117734, 0, 0] := by
  decide +kernel

/-- **the flip set of the middle bra tensor has to spare its bond legs** -/
theorem chain3_needs_sparing :
    chainVals C03.gA C03.gB gC [2] [0] [2] [0] false = [-106582, 117734, 0, 0] := by decide +kernel

/-! ### further routes -/

section routes
variable {R : Type} [AddCommMonoid R] [Mul R] [Neg R] [Conj R] [NetLaws R] [AssocP.AssocLaws R]

/-- both bracketings of a chain under the weak guard (S7), with the validity of the right-nested
    result -/
theorem chain_both [GradedP.SignRing R] (A B C : Arr R) (xa xb1 xb2 xc : List Nat)
    (WAB : AssocP.AdmW A B xa xb1) (WBC : AssocP.AdmW B C xb2 xc) (hnB : (xb1 ++ xb2).Nodup)
    (hd : (A.oddpos ++ B.oddpos ++ C.oddpos).Pairwise (fun x y => x.1 ≠ y.1)) :
    ∃ AB BC c1 c2 : Arr R,
      A.tensordotF B (.pair (xa.map Int.ofNat) (xb1.map Int.ofNat)) .blockwise = .ok AB
      ∧ AB.tensordotF C (.pair ((AssocP.axesAB A.ndim B.ndim xa xb1 xb2).map Int.ofNat)
          (xc.map Int.ofNat)) .blockwise = .ok c1
      ∧ B.tensordotF C (.pair (xb2.map Int.ofNat) (xc.map Int.ofNat)) .blockwise = .ok BC
      ∧ A.tensordotF BC (.pair (xa.map Int.ofNat)
          ((AssocP.axesBC B.ndim xb1 xb2).map Int.ofNat)) .blockwise = .ok c2
      ∧ Assoc3P.Eqv c2 c1 ∧ c2.validB = true :=
  NormNet.chain_both A B C xa xb1 xb2 xc WAB WBC hnB hd

/-- the full contraction of `Eqv` copies of two halves -/
theorem full_congr [GradedP.SignRing R] {P Q X Y r : Arr R} (n : Nat)
    (A : AssocP.AdmW P Q (List.range n) (List.range n)) (E1 : Assoc3P.Eqv X P)
    (E2 : Assoc3P.Eqv Y Q) (vX : X.validB = true) (vY : Y.validB = true)
    (e : P.tensordotF Q (allAxes n) .blockwise = .ok r) (hn : r.ndim = 0) :
    ∃ r', X.tensordotF Y (allAxes n) .blockwise = .ok r'
      ∧ r'.ndim = 0 ∧ r'.oddpos = r.oddpos ∧ r'.elem [] [] = r.elem [] [] :=
  NormNet.full_congr n A E1 E2 vX vY e hn

/-- **network_norm_chain3_routes.**  Eight routes of the three-tensor norm network. -/
theorem network_norm_chain3_routes (a b c : Arr R) (xa xb1 xb2 xc : List Nat)
    (ha : a.validB = true) (hb : b.validB = true) (hc : c.validB = true)
    (hfa : a.fermi = true) (hfb : b.fermi = true) (hfc : c.fermi = true)
    (hadm1 : AssocP.tdotAdmissibleCommonB a b xa xb1 = true)
    (hadm2 : AssocP.tdotAdmissibleCommonB b c xb2 xc = true)
    (hnd : (xb1 ++ xb2).Nodup)
    (hoA : KetLabels a.oddpos) (hoB : KetLabels b.oddpos) (hoC : KetLabels c.oddpos)
    (hd : ((a.oddpos ++ b.oddpos) ++ c.oddpos).Pairwise (fun x y => x.1 ≠ y.1)) :
    ∃ K2 Kb2 K3 Kb3 BC BCb K3r Kb3r,
      a.tensordotF b (.pair (xa.map Int.ofNat) (xb1.map Int.ofNat)) .blockwise = .ok K2
      ∧ (NormNet.braOf a xa).tensordotF (NormNet.braOf b (xb1 ++ xb2))
          (.pair (xa.map Int.ofNat) (xb1.map Int.ofNat)) .blockwise = .ok Kb2
      ∧ K2.tensordotF c (.pair ((AssocP.axesAB a.ndim b.ndim xa xb1 xb2).map Int.ofNat)
          (xc.map Int.ofNat)) .blockwise = .ok K3
      ∧ Kb2.tensordotF (NormNet.braOf c xc)
          (.pair ((AssocP.axesAB a.ndim b.ndim xa xb1 xb2).map Int.ofNat)
          (xc.map Int.ofNat)) .blockwise = .ok Kb3
      -- the right-nested halves
      ∧ b.tensordotF c (.pair (xb2.map Int.ofNat) (xc.map Int.ofNat)) .blockwise = .ok BC
      ∧ a.tensordotF BC (.pair (xa.map Int.ofNat)
          ((AssocP.axesBC b.ndim xb1 xb2).map Int.ofNat)) .blockwise = .ok K3r
      ∧ (NormNet.braOf b (xb1 ++ xb2)).tensordotF (NormNet.braOf c xc)
          (.pair (xb2.map Int.ofNat) (xc.map Int.ofNat)) .blockwise = .ok BCb
      ∧ (NormNet.braOf a xa).tensordotF BCb (.pair (xa.map Int.ofNat)
          ((AssocP.axesBC b.ndim xb1 xb2).map Int.ofNat)) .blockwise = .ok Kb3r
      ∧ Assoc3P.Eqv K3r K3 ∧ Assoc3P.Eqv Kb3r Kb3
      -- the eight routes
      ∧ ∀ X Y : Arr R, (X = Kb3 ∨ X = Kb3r) → (Y = K3 ∨ Y = K3r) →
          (∃ r, X.tensordotF Y (allAxes K3.ndim) .blockwise = .ok r
            ∧ r.ndim = 0 ∧ r.oddpos = [] ∧ r.elem [] [] = normSq K3)
          ∧ (∃ r, Y.tensordotF X (allAxes K3.ndim) .blockwise = .ok r
            ∧ r.ndim = 0 ∧ r.oddpos = [] ∧ r.elem [] [] = normSq' K3) :=
  NormNet.network_norm_chain3_routes a b c xa xb1 xb2 xc ha hb hc hfa hfb hfc hadm1 hadm2 hnd
    hoA hoB hoC hd

end routes

/-- the eight routes of the concrete chain `gA – gB – gC`
    (`Chain3Routes` abbreviates the conclusion of `network_norm_chain3_routes`) -/
example : Chain3Routes C03.gA C03.gB gC [2] [0] [2] [0] :=
  network_norm_chain3_routes C03.gA C03.gB gC [2] [0] [2] [0] (by decide +kernel) (by decide +kernel)
    (by decide +kernel) rfl rfl rfl
    (admissible_weak (by decide +kernel) (by decide +kernel) rfl rfl (by decide +kernel))
    (admissible_weak (by decide +kernel) (by decide +kernel) rfl rfl (by decide +kernel))
    (by decide) (OneKet.ketLabels (Or.inr ⟨1, rfl⟩)) (OneKet.ketLabels (Or.inr ⟨3, rfl⟩))
    (OneKet.ketLabels (Or.inr ⟨5, rfl⟩)) (by decide)

/-- the right-nested route `(ā·(b̄·c̄))·(a·(b·c))` of a concrete chain, and `normSq ((a·b)·c)` -/
def chainValsR (a b c : Arr Int) (xa xb1 xb2 xc : List Nat) : List Int :=
  let P (x y : List Nat) : AxesArg := .pair (x.map Int.ofNat) (y.map Int.ofNat)
  let x2 := AssocP.axesAB a.ndim b.ndim xa xb1 xb2
  let y2 := AssocP.axesBC b.ndim xb1 xb2
  match b.tensordotF c (P xb2 xc) .blockwise,
      (NormNet.braOf b (xb1 ++ xb2)).tensordotF (NormNet.braOf c xc) (P xb2 xc) .blockwise,
      a.tensordotF b (P xa xb1) .blockwise with
  | .ok bc, .ok bcb, .ok k2 =>
    (match a.tensordotF bc (P xa y2) .blockwise,
        (NormNet.braOf a xa).tensordotF bcb (P xa y2) .blockwise,
        k2.tensordotF c (P x2 xc) .blockwise with
     | .ok k3r, .ok kb3r, .ok k3 =>
       (match kb3r.tensordotF k3r (allAxes k3.ndim) .blockwise with
        | .ok r => [r.elem [] [], normSq k3, (r.ndim : Int), (r.oddpos.length : Int)]
        | .error _ => [])
     | _, _, _ => [])
  | _, _, _ => []

example : chainValsR C03.gA C03.gB gC [2] [0] [2] [0] = [117734, 117734, 0, 0] := by
  decide +kernel

/-! ### the chain in any mode -/

/-- two arrays (of any mode) whose un-pruned table frames are leg-wise opposite satisfy the weak guard
    over all legs -/
theorem full_guard_frames {R : Type} {Z X : Arr R} {F G : List Index}
    (hZ : List.Forall₂ SizeLe Z.indices G) (hX : List.Forall₂ SizeLe X.indices F)
    (hFG : List.Forall₂ NormNet.Opp F G)
    (hnZ : ∀ ix ∈ Z.indices, (ix.cm.map (·.1)).Nodup)
    (hnF : ∀ ix ∈ F, (ix.cm.map (·.1)).Nodup) :
    AssocP.contractibleCommonB Z X (List.range F.length) (List.range F.length) = true :=
  NormNet.full_common hZ hX hFG hnZ hnF

section chainM
variable {R : Type} [AddCommMonoid R] [Mul R] [Neg R] [Conj R] [NetLaws R]

/-- **network_norm_chain3_any_mode.**  The three-tensor chain conjugated tensor by tensor, halves
    route, each of the six contraction calls in its own mode. -/
theorem network_norm_chain3_any_mode (hz1 : ∀ x : R, 0 * x = 0) (hz2 : ∀ x : R, x * 0 = 0)
    (a b c : Arr R) (xa xb1 xb2 xc : List Nat)
    (ha : a.validB = true) (hb : b.validB = true) (hc : c.validB = true)
    (hfa : a.fermi = true) (hfb : b.fermi = true) (hfc : c.fermi = true)
    (hadm1 : AssocP.tdotAdmissibleCommonB a b xa xb1 = true)
    (hadm2 : AssocP.tdotAdmissibleCommonB b c xb2 xc = true)
    (hnd : (xb1 ++ xb2).Nodup)
    (hoA : KetLabels a.oddpos) (hoB : KetLabels b.oddpos) (hoC : KetLabels c.oddpos)
    (hd : ((a.oddpos ++ b.oddpos) ++ c.oddpos).Pairwise (fun x y => x.1 ≠ y.1))
    (md : Nat → TdotMode) :
    ∃ K2 K3 K2m Kb2m K3m Kb3m,
      a.tensordotF b (.pair (xa.map Int.ofNat) (xb1.map Int.ofNat)) .blockwise = .ok K2
      ∧ K2.tensordotF c (.pair ((AssocP.axesAB a.ndim b.ndim xa xb1 xb2).map Int.ofNat)
          (xc.map Int.ofNat)) .blockwise = .ok K3
      ∧ a.tensordotF b (.pair (xa.map Int.ofNat) (xb1.map Int.ofNat)) (md 0) = .ok K2m
      ∧ (NormNet.braOf a xa).tensordotF (NormNet.braOf b (xb1 ++ xb2))
          (.pair (xa.map Int.ofNat) (xb1.map Int.ofNat)) (md 1) = .ok Kb2m
      ∧ K2m.tensordotF c (.pair ((AssocP.axesAB a.ndim b.ndim xa xb1 xb2).map Int.ofNat)
          (xc.map Int.ofNat)) (md 2) = .ok K3m
      ∧ Kb2m.tensordotF (NormNet.braOf c xc)
          (.pair ((AssocP.axesAB a.ndim b.ndim xa xb1 xb2).map Int.ofNat)
          (xc.map Int.ofNat)) (md 3) = .ok Kb3m
      ∧ (∃ r, Kb3m.tensordotF K3m (allAxes K3.ndim) (md 4) = .ok r
          ∧ r.ndim = 0 ∧ r.oddpos = [] ∧ r.elem [] [] = normSq K3)
      ∧ (∃ r, K3m.tensordotF Kb3m (allAxes K3.ndim) (md 5) = .ok r
          ∧ r.ndim = 0 ∧ r.oddpos = [] ∧ r.elem [] [] = normSq' K3) :=
  NormNet.network_norm_chain3M hz1 hz2 a b c xa xb1 xb2 xc ha hb hc hfa hfb hfc hadm1 hadm2 hnd
    hoA hoB hoC hd md

/-- the default mode everywhere (`Chain3M` abbreviates the conclusion of
    `network_norm_chain3_any_mode`) -/
theorem network_norm_chain3_auto (hz1 : ∀ x : R, 0 * x = 0) (hz2 : ∀ x : R, x * 0 = 0)
    (a b c : Arr R) (xa xb1 xb2 xc : List Nat)
    (ha : a.validB = true) (hb : b.validB = true) (hc : c.validB = true)
    (hfa : a.fermi = true) (hfb : b.fermi = true) (hfc : c.fermi = true)
    (hadm1 : AssocP.tdotAdmissibleCommonB a b xa xb1 = true)
    (hadm2 : AssocP.tdotAdmissibleCommonB b c xb2 xc = true)
    (hnd : (xb1 ++ xb2).Nodup)
    (hoA : KetLabels a.oddpos) (hoB : KetLabels b.oddpos) (hoC : KetLabels c.oddpos)
    (hd : ((a.oddpos ++ b.oddpos) ++ c.oddpos).Pairwise (fun x y => x.1 ≠ y.1)) :
    Chain3M a b c xa xb1 xb2 xc (fun _ => .auto) :=
  NormNet.network_norm_chain3M hz1 hz2 a b c xa xb1 xb2 xc ha hb hc hfa hfb hfc hadm1 hadm2 hnd
    hoA hoB hoC hd _

end chainM

example : Chain3M C03.gA C03.gB gC [2] [0] [2] [0] (fun _ => .auto) :=
  network_norm_chain3_auto Int.zero_mul Int.mul_zero C03.gA C03.gB gC [2] [0] [2] [0]
    (by decide +kernel) (by decide +kernel) (by decide +kernel) rfl rfl rfl
    (admissible_weak (by decide +kernel) (by decide +kernel) rfl rfl (by decide +kernel))
    (admissible_weak (by decide +kernel) (by decide +kernel) rfl rfl (by decide +kernel))
    (by decide) (OneKet.ketLabels (Or.inr ⟨1, rfl⟩)) (OneKet.ketLabels (Or.inr ⟨3, rfl⟩))
    (OneKet.ketLabels (Or.inr ⟨5, rfl⟩)) (by decide)

/-- `((ā·b̄)·c̄)·((a·b)·c)` of a concrete chain with every call in mode `m`, and `normSq` of the
    blockwise `(a·b)·c` -/
def chainValsM (a b c : Arr Int) (xa xb1 xb2 xc : List Nat) (m : TdotMode) : List Int :=
  let P (x y : List Nat) : AxesArg := .pair (x.map Int.ofNat) (y.map Int.ofNat)
  let x2 := AssocP.axesAB a.ndim b.ndim xa xb1 xb2
  match (do let k2 ← a.tensordotF b (P xa xb1) .blockwise; k2.tensordotF c (P x2 xc) .blockwise),
      (do let k2 ← a.tensordotF b (P xa xb1) m; k2.tensordotF c (P x2 xc) m),
      (do let kb2 ← (NormNet.braOf a xa).tensordotF (NormNet.braOf b (xb1 ++ xb2)) (P xa xb1) m
          kb2.tensordotF (NormNet.braOf c xc) (P x2 xc) m) with
  | .ok k3, .ok k3m, .ok kb3m =>
    (match kb3m.tensordotF k3m (allAxes k3.ndim) m with
     | .ok r => [r.elem [] [], normSq k3, (r.ndim : Int), (r.oddpos.length : Int)]
     | .error _ => [])
  | _, _, _ => []

example : chainValsM C03.gA C03.gB gC [2] [0] [2] [0] .fused = [117734, 117734, 0, 0] := by
  decide +kernel

/-! ### chains of any length, any bracketing -/

section nchain
open SymmModel.Assoc3P SymmModel.Assoc4P
variable {R : Type} [AddMonoid R] [Mul R] [Neg R] [Conj R] [NetLaws R]

theorem braSeg_def (S : Seg R) :
    NormNet.braSeg S = ⟨NormNet.braOf S.arr (S.l ++ S.r), S.l, S.r⟩ := rfl

/-- **chain_conj.**  The induction behind the chain theorems: if `Sb` is observationally the bra tensor
    of the ket piece `S` (open right bond spared), then contracting further tensors `ys` onto `S` and
    their bra tensors onto `Sb` keeps this relation. -/
theorem chain_conj (ys : List (Seg R)) (S Sb : Seg R) (H : NormNet.BraInv S Sb) (hlink : linked S ys)
    (hket : ∀ y ∈ ys, KetLabels y.arr.oddpos)
    (hd : (S.arr.oddpos ++ flatL ys).Pairwise (fun x y => x.1 ≠ y.1)) :
    ∃ T Tb, evalL S ys = .ok T ∧ evalL Sb (ys.map NormNet.braSeg) = .ok Tb ∧ NormNet.BraInv T Tb
      ∧ ((lastD S ys).r = [] → T.r = [])
      ∧ T.arr.oddpos.Perm (S.arr.oddpos ++ flatL ys) :=
  NormNet.chain_conj ys S Sb H hlink hket hd

/-- **network_norm_chain.**  A chain of any length conjugated tensor by tensor, left-nested halves. -/
theorem network_norm_chain (S : Seg R) (ys : List (Seg R)) (hS : LeafOK S) (hl : S.l = [])
    (hlink : linked S ys) (hlast : (lastD S ys).r = [])
    (hketS : KetLabels S.arr.oddpos) (hket : ∀ y ∈ ys, KetLabels y.arr.oddpos)
    (hd : (S.arr.oddpos ++ flatL ys).Pairwise (fun x y => x.1 ≠ y.1)) :
    ∃ T Tb, evalL S ys = .ok T ∧ evalL (NormNet.braSeg S) (ys.map NormNet.braSeg) = .ok Tb
      ∧ ObsEq Tb.arr (T.arr.conjF true true)
      ∧ T.arr.validB = true ∧ T.arr.fermi = true ∧ Tb.arr.validB = true ∧ Tb.arr.fermi = true
      ∧ T.arr.oddpos.Perm (S.arr.oddpos ++ flatL ys)
      ∧ Tb.arr.ndim = T.arr.ndim
      ∧ (∃ r, Tb.arr.tensordotF T.arr (allAxes T.arr.ndim) .blockwise = .ok r
          ∧ r.ndim = 0 ∧ r.oddpos = [] ∧ r.elem [] [] = normSq T.arr)
      ∧ (∃ r, T.arr.tensordotF Tb.arr (allAxes T.arr.ndim) .blockwise = .ok r
          ∧ r.ndim = 0 ∧ r.oddpos = [] ∧ r.elem [] [] = normSq' T.arr) :=
  NormNet.network_norm_chain S ys hS hl hlink hlast hketS hket hd

end nchain

section nchainB
open SymmModel.Assoc3P SymmModel.Assoc4P

/-- **network_norm_chain_bracketings.**  Any bracketing `t` of the ket chain and any bracketing `tb` of
    the bra chain. -/
theorem network_norm_chain_bracketings {R : Type} [AddCommMonoid R] [Mul R] [Neg R] [Conj R]
    [NetLaws R] [AssocP.AssocLaws R] (S : Seg R) (ys : List (Seg R)) (t tb : STree R)
    (ht1 : t.first = S) (ht2 : t.rest = ys)
    (hb1 : tb.first = NormNet.braSeg S) (hb2 : tb.rest = ys.map NormNet.braSeg)
    (hS : LeafOK S) (hl : S.l = [])
    (hlink : linked S ys) (hlast : (lastD S ys).r = [])
    (hketS : KetLabels S.arr.oddpos) (hket : ∀ y ∈ ys, KetLabels y.arr.oddpos)
    (hd : (S.arr.oddpos ++ flatL ys).Pairwise (fun x y => x.1 ≠ y.1)) :
    ∃ T Tb T' Tb', evalL S ys = .ok T ∧ evalL (NormNet.braSeg S) (ys.map NormNet.braSeg) = .ok Tb
      ∧ t.eval = .ok T' ∧ tb.eval = .ok Tb'
      ∧ Assoc3P.Eqv T'.arr T.arr ∧ Assoc3P.Eqv Tb'.arr Tb.arr
      ∧ ObsEq Tb.arr (T.arr.conjF true true)
      ∧ (∃ r, Tb'.arr.tensordotF T'.arr (allAxes T.arr.ndim) .blockwise = .ok r
          ∧ r.ndim = 0 ∧ r.oddpos = [] ∧ r.elem [] [] = normSq T.arr)
      ∧ (∃ r, T'.arr.tensordotF Tb'.arr (allAxes T.arr.ndim) .blockwise = .ok r
          ∧ r.ndim = 0 ∧ r.oddpos = [] ∧ r.elem [] [] = normSq' T.arr) :=
  NormNet.network_norm_chain_bracketings S ys t tb ht1 ht2 hb1 hb2 hS hl hlink hlast hketS hket hd

end nchainB

/-- the chain `gA – gB – gC` as segments; the ket chain bracketed `a·(b·c)`, the bra chain `(ā·b̄)·c̄` -/
def segA : Assoc3P.Seg Int := ⟨C03.gA, [], [2]⟩
def segB : Assoc3P.Seg Int := ⟨C03.gB, [0], [2]⟩
def segC : Assoc3P.Seg Int := ⟨gC, [0], []⟩
def ketTree : Assoc4P.STree Int := .node (.leaf segA) (.node (.leaf segB) (.leaf segC))
def braTree : Assoc4P.STree Int :=
  .node (.node (.leaf (NormNet.braSeg segA)) (.leaf (NormNet.braSeg segB)))
    (.leaf (NormNet.braSeg segC))

example : ChainNormB segA [segB, segC] ketTree braTree :=
  network_norm_chain_bracketings segA [segB, segC] ketTree braTree rfl rfl rfl rfl
    ⟨by decide +kernel, rfl, by decide, by decide, by decide⟩ rfl
    ⟨⟨rfl, by decide +kernel⟩, ⟨by decide +kernel, rfl, by decide, by decide, by decide⟩,
      ⟨rfl, by decide +kernel⟩, ⟨by decide +kernel, rfl, by decide, by decide, by decide⟩, trivial⟩
    rfl (OneKet.ketLabels (Or.inr ⟨1, rfl⟩))
    (by
      intro y hy
      rcases List.mem_cons.mp hy with rfl | hy
      · exact OneKet.ketLabels (Or.inr ⟨3, rfl⟩)
      · rcases List.mem_cons.mp hy with rfl | hy
        · exact OneKet.ketLabels (Or.inr ⟨5, rfl⟩)
        · cases hy)
    (by decide)

/-! ### chains of any length in any mode -/

section nchainM
open SymmModel.Assoc3P SymmModel.Assoc4P
variable {R : Type} [AddCommMonoid R] [Mul R] [Neg R] [Conj R] [NetLaws R]

/-- vocabulary: a composition with the call in mode `m`; the left-nested contraction whose `j`-th call
    runs in mode `md (k + j)` -/
theorem evalLM_def (md : Nat → TdotMode) (k : Nat) (S y : Seg R) (ys : List (Seg R)) (m : TdotMode) :
    NormNet.compM m S y
        = (S.arr.tensordotF y.arr (.pair (S.r.map Int.ofNat) (y.l.map Int.ofNat)) m).map (fun z =>
            ⟨z, RoutesP.positions (freeAxes S.arr.ndim S.r) S.l,
              AssocP.axesAB S.arr.ndim y.arr.ndim S.r y.l y.r⟩)
    ∧ NormNet.evalLM md k S [] = .ok S
    ∧ NormNet.evalLM md k S (y :: ys) = (match NormNet.compM (md k) S y with
        | .ok s => NormNet.evalLM md (k + 1) s ys
        | .error e => .error e) := ⟨rfl, rfl, rfl⟩

/-- `compM .blockwise` is `Seg.comp`: `evalLM` in blockwise mode is `evalL` -/
theorem evalLM_blockwise (ys : List (Seg R)) (k : Nat) (S : Seg R) :
    NormNet.evalLM (fun _ => .blockwise) k S ys = evalL S ys := by
  induction ys generalizing k S with
  | nil => rfl
  | cons y ys ih =>
    show (match NormNet.compM .blockwise S y with
      | .ok s => NormNet.evalLM (fun _ => .blockwise) (k + 1) s ys
      | .error e => .error e) = (match S.comp y with
      | .ok s => evalL s ys
      | .error e => .error e)
    have : NormNet.compM .blockwise S y = S.comp y := rfl
    rw [this]
    cases S.comp y with
    | error e => rfl
    | ok s => exact ih (k + 1) s

/-- **chain_conj_any_mode.**  The joint induction: blockwise pieces and their any-mode versions. -/
theorem chain_conj_any_mode (hz1 : ∀ x : R, 0 * x = 0) (hz2 : ∀ x : R, x * 0 = 0)
    (mk mb : Nat → TdotMode) (ys : List (Seg R)) (k : Nat) (S Sb Sm Sbm : Seg R) (F : List Index)
    (H : NormNet.BraInv S Sb) (HM : NormNet.ModeInv S Sm F)
    (HMb : NormNet.ModeInv Sb Sbm (F.map Index.conj))
    (hnF : ∀ ix ∈ F, (ix.cm.map (·.1)).Nodup)
    (h1 : linked S ys) (h2 : linked Sm ys) (h3 : linked Sb (ys.map NormNet.braSeg))
    (h4 : linked Sbm (ys.map NormNet.braSeg))
    (hket : ∀ y ∈ ys, KetLabels y.arr.oddpos)
    (hd : (S.arr.oddpos ++ flatL ys).Pairwise (fun x y => x.1 ≠ y.1)) :
    ∃ T Tb Tm Tbm F', evalL S ys = .ok T ∧ evalL Sb (ys.map NormNet.braSeg) = .ok Tb
      ∧ NormNet.evalLM mk k Sm ys = .ok Tm
      ∧ NormNet.evalLM mb k Sbm (ys.map NormNet.braSeg) = .ok Tbm
      ∧ NormNet.BraInv T Tb ∧ NormNet.ModeInv T Tm F'
      ∧ NormNet.ModeInv Tb Tbm (F'.map Index.conj)
      ∧ (∀ ix ∈ F', (ix.cm.map (·.1)).Nodup)
      ∧ ((lastD S ys).r = [] → T.r = []) :=
  NormNet.chain_conjM hz1 hz2 mk mb ys k S Sb Sm Sbm F H HM HMb hnF h1 h2 h3 h4 hket hd

/-- **network_norm_chain_any_mode.**  A chain of any length conjugated tensor by tensor, left-nested
    halves, every contraction call in its own mode. -/
theorem network_norm_chain_any_mode (hz1 : ∀ x : R, 0 * x = 0) (hz2 : ∀ x : R, x * 0 = 0)
    (mk mb : Nat → TdotMode) (m1 m2 : TdotMode)
    (S : Seg R) (ys : List (Seg R)) (hS : LeafOK S) (hl : S.l = [])
    (hlink : linked S ys) (hlast : (lastD S ys).r = [])
    (hketS : KetLabels S.arr.oddpos) (hket : ∀ y ∈ ys, KetLabels y.arr.oddpos)
    (hd : (S.arr.oddpos ++ flatL ys).Pairwise (fun x y => x.1 ≠ y.1)) :
    ∃ T Tm Tbm, evalL S ys = .ok T ∧ NormNet.evalLM mk 0 S ys = .ok Tm
      ∧ NormNet.evalLM mb 0 (NormNet.braSeg S) (ys.map NormNet.braSeg) = .ok Tbm
      ∧ (∃ r, Tbm.arr.tensordotF Tm.arr (allAxes T.arr.ndim) m1 = .ok r
          ∧ r.ndim = 0 ∧ r.oddpos = [] ∧ r.elem [] [] = normSq T.arr)
      ∧ (∃ r, Tm.arr.tensordotF Tbm.arr (allAxes T.arr.ndim) m2 = .ok r
          ∧ r.ndim = 0 ∧ r.oddpos = [] ∧ r.elem [] [] = normSq' T.arr) :=
  NormNet.network_norm_chainM hz1 hz2 mk mb m1 m2 S ys hS hl hlink hlast hketS hket hd

end nchainM

/-- the chain `gA – gB – gC` with all calls in the default mode
    (`ChainNormM` abbreviates the conclusion of `network_norm_chain_any_mode`) -/
example : ChainNormM segA [segB, segC] (fun _ => .auto) (fun _ => .auto) .auto .auto :=
  network_norm_chain_any_mode Int.zero_mul Int.mul_zero _ _ _ _ segA [segB, segC]
    ⟨by decide +kernel, rfl, by decide, by decide, by decide⟩ rfl
    ⟨⟨rfl, by decide +kernel⟩, ⟨by decide +kernel, rfl, by decide, by decide, by decide⟩,
      ⟨rfl, by decide +kernel⟩, ⟨by decide +kernel, rfl, by decide, by decide, by decide⟩, trivial⟩
    rfl (OneKet.ketLabels (Or.inr ⟨1, rfl⟩))
    (by
      intro y hy
      rcases List.mem_cons.mp hy with rfl | hy
      · exact OneKet.ketLabels (Or.inr ⟨3, rfl⟩)
      · rcases List.mem_cons.mp hy with rfl | hy
        · exact OneKet.ketLabels (Or.inr ⟨5, rfl⟩)
        · cases hy)
    (by decide)

end SymmModel.C10
