/-
  Property C11 (eighth part) — completions of Props/C11g.lean.

  1. The fermionic isometry products AS ARRAYS.  C11g states `q.dagger()·q`, `u.dagger()·u`, `vh·vh.dagger()`
     on the bond sector `(c, c)` of every stored (kept) block.  Here: EVERY in-box address of the table box of
     the product's two indices (`[J.conj, J]` resp. `[J, J.conj]`, `J` the bond index) is either on the bond
     sector of a stored (kept) block — where the product is `± δ(t, t')` with the sign of C11g — or the
     product is ZERO there (`DecompP.GramPair.gradedContract_miss`).  As the diagonal keys of the box are exactly
     the bond sectors and the ranges are the full ranges, the product IS `± identity` as an array — through `@`
     and through `tensordot_fermionic` in EVERY mode (whatever `y` either call returns):
       `qr_isometry_fermionic_everywhere`, `svd_isometry_fermionic_everywhere`,
       `svd_truncated_isometry_fermionic_everywhere`.
     (An address outside the table box belongs to no index table of the product; C01 — validity of the
     product — excludes a stored block there.)
  2. `solve_solves_tensordotF_labelled_all_modes`: `solve_solves_fermionic_labelled` (C11e: `a` carries labels
     of its own) through `tensordot_fermionic(a, x, ([1],[0]), mode)` in every mode, for an EVEN `a` (for an odd
     `a` the solution is not a valid array — known finding "solve-odd-matrix", C11 — and the transfer lemma
     `matmulF_tensordotF_agree` does not apply).
-/
import SymmModel.Props.C11g
import SymmModel.Props.C11e
import SymmModel.Proofs.SmallIso

namespace SymmModel.C11
open SymmModel LinalgLemmas ReconP Recon2P Recon3P DecompP TdotP

variable {R : Type}

/-! ## 1. the isometry products at every address of their table box -/

section iso
variable [CommRing R] [Conj R]

/-- **qr_isometry_fermionic_everywhere.**  Hypotheses of `qr_isometry_fermionic`.  Whatever
    `q.dagger() @ q` or `tensordot_fermionic(q.dagger(), q, ([1],[0]), mode)` (any mode) returns carries no
    label and, at every in-box address `(s, [t, t'])` of the table box of its indices, is
    `isometrySign x s₀ · δ(t, t')` when `s` is the bond sector `(c, c)` of a stored block `s₀ = (r, c)` of
    `x`, and `0` on every other sector. -/
theorem qr_isometry_fermionic_everywhere (conj : R →+* R) (hcj : ∀ v : R, Conj.conj v = conj v)
    (K : Kernels R) (hK : K.ShapeOk) (x : Arr R) (hv : x.validB = true) (h2 : x.ndim = 2)
    (hf : x.fermi = true) (hlab : SortedLabels x.oddpos)
    (hO : ∀ p ∈ x.blocks, K.QIsoBlock conj p.2) :
    ∃ q r, qrA K x = .ok (q, r) ∧
      ∀ y, (q.daggerF.matmulF q = .ok y ∨ ∃ tm, q.daggerF.tensordotF q (.pair [1] [0]) tm = .ok y) →
        y.oddpos = [] ∧
        ∀ s t t', inBox (Arr.blockShapeD [(q.indices.getD 1 default).conj, q.indices.getD 1 default] s)
            [t, t'] = true →
          (∃ p ∈ x.blocks, s = [col p.1, col p.1]
            ∧ y.elem s [t, t'] = Lazy.sgnI (isometrySign x p.1) (if t = t' then 1 else 0))
          ∨ ((∀ p ∈ x.blocks, [col p.1, col p.1] ≠ s) ∧ y.elem s [t, t'] = 0) := by
  have hc0 : Conj.conj (0 : R) = 0 := by rw [hcj]; exact map_zero conj
  have : GradedP.SignRing R := signRing_of_ring
  obtain ⟨i0, i1, hi⟩ := ndim_two h2
  refine ⟨_, _, qrA_eq K hv h2, ?_⟩
  have hE := leftLike_everywhere zero_mul mul_zero hc0 hv h2 hlab
    (leftLike_leftF (L := fun b => (K.qr b).1) (Rt := fun b => (K.qr b).2) hv h2 hf (facShape_qr hK))
    (by
      intro p hp t t' ht ht'
      obtain ⟨r, c, m, n, B⟩ := mat_block hv hi (s := p.1) (b := p.2) hp
      simp only [B.hshape, List.getD_cons_zero, List.getD_cons_succ] at ht ht' ⊢
      simp only [hcj]
      exact hO p hp m n B.hshape t t' ht ht')
  intro y hy
  obtain ⟨h1, h3⟩ := hE y hy
  refine ⟨h1, fun s t t' hb => ?_⟩
  rcases h3 s t t' hb with ⟨p, hp, hs, he⟩ | h
  · exact Or.inl ⟨p, hp, hs, by rw [he, isometrySign_eq]⟩
  · exact Or.inr h

/-- **svd_isometry_fermionic_everywhere.**  Hypotheses of `svd_isometry_fermionic`.  `u.dagger()·u` and
    `vh·vh.dagger()` — through `@` or `tensordot_fermionic` in any mode — carry no label and, at every in-box
    address of their table boxes, are `sign · δ(t, t')` on the bond sector of a stored block of `x`
    (`isometrySign x s₀` resp. `−1` iff `x`'s column index is not dual and the bond charge is odd) and `0`
    on every other sector. -/
theorem svd_isometry_fermionic_everywhere (conj : R →+* R) (hcj : ∀ v : R, Conj.conj v = conj v)
    (K : Kernels R) (hK : K.ShapeOk) (x : Arr R) (hv : x.validB = true) (h2 : x.ndim = 2)
    (hf : x.fermi = true) (hlab : SortedLabels x.oddpos)
    (hO : ∀ p ∈ x.blocks, K.OrthoBlock conj p.2) :
    ∃ u s vh, svdA K x = .ok (u, s, vh)
      ∧ (∀ y, (u.daggerF.matmulF u = .ok y ∨ ∃ tm, u.daggerF.tensordotF u (.pair [1] [0]) tm = .ok y) →
          y.oddpos = [] ∧
          ∀ sec t t', inBox (Arr.blockShapeD [(u.indices.getD 1 default).conj, u.indices.getD 1 default]
              sec) [t, t'] = true →
            (∃ p ∈ x.blocks, sec = [col p.1, col p.1]
              ∧ y.elem sec [t, t'] = Lazy.sgnI (isometrySign x p.1) (if t = t' then 1 else 0))
            ∨ ((∀ p ∈ x.blocks, [col p.1, col p.1] ≠ sec) ∧ y.elem sec [t, t'] = 0))
      ∧ (∀ y, (vh.matmulF vh.daggerF = .ok y ∨ ∃ tm, vh.tensordotF vh.daggerF (.pair [1] [0]) tm = .ok y) →
          y.oddpos = [] ∧
          ∀ sec t t', inBox (Arr.blockShapeD [vh.indices.getD 0 default, (vh.indices.getD 0 default).conj]
              sec) [t, t'] = true →
            (∃ p ∈ x.blocks, sec = [col p.1, col p.1]
              ∧ y.elem sec [t, t']
                = Lazy.sgnI (if !(x.indices.getD 1 default).dual && x.sym.parity (col p.1) then -1 else 1)
                    (if t = t' then 1 else 0))
            ∨ ((∀ p ∈ x.blocks, [col p.1, col p.1] ≠ sec) ∧ y.elem sec [t, t'] = 0)) := by
  have hc0 : Conj.conj (0 : R) = 0 := by rw [hcj]; exact map_zero conj
  have : GradedP.SignRing R := signRing_of_ring
  obtain ⟨i0, i1, hi⟩ := ndim_two h2
  refine ⟨_, _, _, svdA_eq K hv h2, ?_, ?_⟩
  · have hE := leftLike_everywhere zero_mul mul_zero hc0 hv h2 hlab
      (leftLike_leftF (L := fun b => (K.svd b).1) (Rt := fun b => (K.svd b).2.2) hv h2 hf
        (facShape_svd hK))
      (by
        intro p hp t t' ht ht'
        obtain ⟨r, c, m, n, B⟩ := mat_block hv hi (s := p.1) (b := p.2) hp
        simp only [B.hshape, List.getD_cons_zero, List.getD_cons_succ] at ht ht' ⊢
        simp only [hcj]
        exact (hO p hp m n B.hshape t t' ht ht').1)
    intro y hy
    obtain ⟨h1, h3⟩ := hE y hy
    refine ⟨h1, fun s t t' hb => ?_⟩
    rcases h3 s t t' hb with ⟨p, hp, hs, he⟩ | h
    · exact Or.inl ⟨p, hp, hs, by rw [he, isometrySign_eq]⟩
    · exact Or.inr h
  · have hE := rightLike_everywhere zero_mul mul_zero hc0 hv h2
      (rightLike_rightF (L := fun b => (K.svd b).1) (Rt := fun b => (K.svd b).2.2) hv h2 hf
        (facShape_svd hK))
      (by
        intro p hp t t' ht ht'
        obtain ⟨r, c, m, n, B⟩ := mat_block hv hi (s := p.1) (b := p.2) hp
        simp only [B.hshape, List.getD_cons_zero, List.getD_cons_succ] at ht ht' ⊢
        have h' := (hO p hp m n B.hshape t' t ht' ht).2
        have e : (fun acc j => acc + (K.svd p.2).2.2.get [t, j] * Conj.conj ((K.svd p.2).2.2.get [t', j]))
            = (fun acc j => acc + conj ((K.svd p.2).2.2.get [t', j]) * (K.svd p.2).2.2.get [t, j]) := by
          funext acc j
          rw [hcj, mul_comm]
        rw [e, h']
        by_cases e' : t = t'
        · subst e'; rfl
        · have e'' : ¬ t' = t := fun h => e' h.symm
          simp [e', e''])
    intro y hy
    obtain ⟨h1, h3⟩ := hE y hy
    refine ⟨h1, fun s t t' hb => ?_⟩
    rcases h3 s t t' hb with ⟨p, hp, hs, he⟩ | h
    · exact Or.inl ⟨p, hp, hs, by rw [he]; rfl⟩
    · exact Or.inr h

/-- **svd_truncated_isometry_fermionic_everywhere.**  The same for the factors `u'`, `vh'` that
    `svd_truncated` returns (truncation with `counts`, `c ≤ min m n` on every kept block): on the bond sector
    of a KEPT block `sign · δ(t, t')`, zero at every other in-box address of the table box — in particular
    on the bond sectors of the blocks that were dropped, which are no longer in the table. -/
theorem svd_truncated_isometry_fermionic_everywhere (conj : R →+* R)
    (hcj : ∀ v : R, Conj.conj v = conj v)
    (K : Kernels R) (hK : K.ShapeOk) (x : Arr R) (hv : x.validB = true) (h2 : x.ndim = 2)
    (hf : x.fermi = true) (hlab : SortedLabels x.oddpos)
    (u : Arr R) (s : BVec R) (vh : Arr R) (hsvd : svdA K x = .ok (u, s, vh))
    (counts : List Nat) (hlen : counts.length = x.blocks.length)
    (hcnt : ∀ sec b c, ((sec, b), c) ∈ x.blocks.zip counts → ∀ m n, b.shape = [m, n] → c ≤ min m n)
    (hO : ∀ p ∈ x.blocks, K.OrthoBlock conj p.2) :
    let u' := (applyCounts u s vh counts).1
    let vh' := (applyCounts u s vh counts).2.2
    (∀ y, (u'.daggerF.matmulF u' = .ok y ∨ ∃ tm, u'.daggerF.tensordotF u' (.pair [1] [0]) tm = .ok y) →
        y.oddpos = [] ∧
        ∀ sec t t', inBox (Arr.blockShapeD [(u'.indices.getD 1 default).conj, u'.indices.getD 1 default]
            sec) [t, t'] = true →
          (∃ q ∈ x.blocks.zip counts, q.2 ≠ 0 ∧ sec = [col q.1.1, col q.1.1]
            ∧ y.elem sec [t, t'] = Lazy.sgnI (isometrySign x q.1.1) (if t = t' then 1 else 0))
          ∨ ((∀ q ∈ x.blocks.zip counts, q.2 ≠ 0 → [col q.1.1, col q.1.1] ≠ sec)
              ∧ y.elem sec [t, t'] = 0))
    ∧ (∀ y, (vh'.matmulF vh'.daggerF = .ok y
          ∨ ∃ tm, vh'.tensordotF vh'.daggerF (.pair [1] [0]) tm = .ok y) →
        y.oddpos = [] ∧
        ∀ sec t t', inBox (Arr.blockShapeD [vh'.indices.getD 0 default, (vh'.indices.getD 0 default).conj]
            sec) [t, t'] = true →
          (∃ q ∈ x.blocks.zip counts, q.2 ≠ 0 ∧ sec = [col q.1.1, col q.1.1]
            ∧ y.elem sec [t, t']
              = Lazy.sgnI (if !(x.indices.getD 1 default).dual && x.sym.parity (col q.1.1) then -1 else 1)
                  (if t = t' then 1 else 0))
          ∨ ((∀ q ∈ x.blocks.zip counts, q.2 ≠ 0 → [col q.1.1, col q.1.1] ≠ sec)
              ∧ y.elem sec [t, t'] = 0)) := by
  obtain ⟨rfl, rfl, rfl⟩ := svd_factors_eq hv h2 hsvd
  rw [applyCounts_eq (S := fun b => (K.svd b).2.1) hv h2 hlen]
  simp only []
  have hc0 : Conj.conj (0 : R) = 0 := by rw [hcj]; exact map_zero conj
  have : GradedP.SignRing R := signRing_of_ring
  have hkept : ∀ q, q ∈ kept x counts ↔ (q ∈ x.blocks.zip counts ∧ q.2 ≠ 0) := by
    intro q
    unfold kept
    simp [List.mem_filter]
  constructor
  · have hE := leftLike_everywhere zero_mul mul_zero hc0 hv h2 hlab
      (leftLike_truncU (L := fun b => (K.svd b).1) (Rt := fun b => (K.svd b).2.2) (counts := counts)
        hv h2 hf (facShape_svd hK) hlen)
      (by
        intro q hq t t' ht ht'
        obtain ⟨⟨sec, b⟩, c⟩ := q
        obtain ⟨hm, _⟩ := (hkept _).mp hq
        have hmem : (sec, b) ∈ x.blocks := tri_mem hlen hm
        obtain ⟨i0, i1, hi⟩ := ndim_two h2
        obtain ⟨r, c', m, n, B⟩ := mat_block hv hi hmem
        have hc := hcnt sec b c hm m n B.hshape
        obtain ⟨l1, _, _, _⟩ := facShape_svd hK b m n B.hshape B.hwf
        simp only [l1, List.getD_cons_zero] at ht ht' ⊢
        rw [← (hO (sec, b) hmem m n B.hshape t t' (by omega) (by omega)).1]
        apply foldl_ext'
        intro acc i hi'
        have hi'' := List.mem_range.mp hi'
        rw [sliceK00_get _ hi'' ht, sliceK00_get _ hi'' ht', hcj])
    intro y hy
    obtain ⟨h1, h3⟩ := hE y hy
    refine ⟨h1, fun sec t t' hb => ?_⟩
    rcases h3 sec t t' hb with ⟨q, hq, hs, he⟩ | ⟨h, h0⟩
    · obtain ⟨hm, hne⟩ := (hkept q).mp hq
      exact Or.inl ⟨q, hm, hne, hs, by rw [he, isometrySign_eq]⟩
    · exact Or.inr ⟨fun q hm hne => h q ((hkept q).mpr ⟨hm, hne⟩), h0⟩
  · have hE := rightLike_everywhere zero_mul mul_zero hc0 hv h2
      (rightLike_truncV (L := fun b => (K.svd b).1) (Rt := fun b => (K.svd b).2.2) (counts := counts)
        hv h2 hf (facShape_svd hK) hlen)
      (by
        intro q hq t t' ht ht'
        obtain ⟨⟨sec, b⟩, c⟩ := q
        obtain ⟨hm, _⟩ := (hkept _).mp hq
        have hmem : (sec, b) ∈ x.blocks := tri_mem hlen hm
        obtain ⟨i0, i1, hi⟩ := ndim_two h2
        obtain ⟨r, c', m, n, B⟩ := mat_block hv hi hmem
        have hc := hcnt sec b c hm m n B.hshape
        obtain ⟨_, _, l3, _⟩ := facShape_svd hK b m n B.hshape B.hwf
        simp only [l3, List.getD_cons_zero, List.getD_cons_succ] at ht ht' ⊢
        have h' := (hO (sec, b) hmem m n B.hshape t' t (by omega) (by omega)).2
        have e : (if t = t' then (1 : R) else 0) = (if t' = t then 1 else 0) := by
          by_cases e' : t = t'
          · subst e'; rfl
          · have e'' : ¬ t' = t := fun h => e' h.symm
            simp [e', e'']
        rw [e, ← h']
        apply foldl_ext'
        intro acc j hj'
        have hj'' := List.mem_range.mp hj'
        rw [sliceK00_get _ ht hj'', sliceK00_get _ ht' hj'', hcj, mul_comm])
    intro y hy
    obtain ⟨h1, h3⟩ := hE y hy
    refine ⟨h1, fun sec t t' hb => ?_⟩
    rcases h3 sec t t' hb with ⟨q, hq, hs, he⟩ | ⟨h, h0⟩
    · obtain ⟨hm, hne⟩ := (hkept q).mp hq
      exact Or.inl ⟨q, hm, hne, hs, by rw [he]; rfl⟩
    · exact Or.inr ⟨fun q hm hne => h q ((hkept q).mpr ⟨hm, hne⟩), h0⟩

end iso

/-! ## 2. `solve` with a labelled matrix through `tensordot` -/

section solve
variable [AddCommMonoid R] [Mul R] [Neg R] [GradedP.SignRing R]

/-- **solve_solves_tensordotF_labelled_all_modes.**  `a` a valid EVEN fermionic matrix carrying labels of
    its own, `b` a valid fermionic vector over the same symmetry whose index has the direction of `a`'s row
    index, all label names distinct, pending signs anywhere.  In every mode
    `tensordot_fermionic(a, x, ([1],[0]), mode)` succeeds, carries the SORTED MERGE `out` of the labels of
    `a` and `b`, and has `ph · b`'s element at every row of every sector of `b` paired with a block of `a`,
    `(out, ph) = mergeOddpos …` the label sort with its sign — the same as `a @ x`
    (`solve_solves_fermionic_labelled`). -/
theorem solve_solves_tensordotF_labelled_all_modes (hz1 : ∀ x : R, 0 * x = 0) (hz2 : ∀ x : R, x * 0 = 0)
    (K : Kernels R) (hK : K.ShapeOk) (a b x : Arr R) (hva : a.validB = true)
    (hvb : b.validB = true) (hfa : a.fermi = true) (hfb : b.fermi = true) (hsym : a.sym = b.sym)
    (hdir : (b.indices.getD 0 default).dual = (a.indices.getD 0 default).dual)
    (heven : a.parity = false)
    (hd : (a.oddpos ++ b.oddpos).Pairwise (fun p q => p.1 ≠ q.1))
    (hS : K.SolvesOn a.phaseSync b.phaseSync) (h : solveA K a b = .ok x) (tm : TdotMode) :
    ∃ c out ph, a.tensordotF x (.pair [1] [0]) tm = .ok c
      ∧ OddposP.mergeOddpos a.parity a.oddpos b.oddpos = .ok (out, ph)
      ∧ c.oddpos = out ∧ out.Perm (a.oddpos ++ b.oddpos)
      ∧ out.Pairwise (fun p q => oddLt p q = true)
      ∧ c.charge = a.sym.combine [a.charge, x.charge] ∧
      ∀ s arr, (s, arr) ∈ a.blocks → [s.getD 0 (0, 0)] ∈ b.sectors →
        ∀ i, i < arr.shape.getD 0 0 →
          c.elem [s.getD 0 (0, 0)] [i] = Lazy.sgnI ph (b.elem [s.getD 0 (0, 0)] [i]) := by
  obtain ⟨y, out, ph, hm, hmerge, _, hyo, hperm, hsort, hel⟩ :=
    solve_solves_fermionic_labelled K hK a b x hva hvb hfa hfb hd hS h
  obtain ⟨h2, _, hvx, _, hxi, hxs, hxf, _⟩ := C11.solveA_valid K hK a b hva hvb hsym
    (hfa.trans hfb.symm) hdir (fun _ => heven) x h
  obtain ⟨i0, i1, hi⟩ := ndim_two h2
  have hxi' : x.indices = [i1.conj] := by rw [hxi, hi]; rfl
  have hxn : x.ndim = 1 := by simp [Arr.ndim, hxi']
  have hadm : ValidP.tdotAdmissibleB a x [a.ndim - 1] [0] = true := by
    rw [h2]
    unfold ValidP.tdotAdmissibleB ValidP.contractibleB
    rw [h2, hxn, hi, hxi']
    have hs : a.sym = x.sym := hsym.trans hxs.symm
    simp [hs, allDistinct]
  obtain ⟨c, h1, h2', h3, h4⟩ := matmulF_tensordotF_agree hz1 hz2 a x y hva hvx hfa
    (hxf.trans hfb) (Or.inr h2) (Or.inl hxn) hadm hm tm
  rw [h2] at h1 h4
  refine ⟨c, out, ph, h1, hmerge, h2'.trans hyo, hperm, hsort, ?_, ?_⟩
  · obtain ⟨out', ph', _, _, hc, _⟩ := C03.matmulF_refines_graded a x y hva hvx hfa
      (hxf.trans hfb) (Or.inr h2) (Or.inl hxn) hadm hm
    rw [h3, hc]
  · intro s arr hmem hsb i hi'
    obtain ⟨r, c', m, n, B⟩ := mat_block hva hi hmem
    have hr : s.getD 0 (0, 0) = r := by rw [B.hs]; rfl
    rw [hr] at hsb ⊢
    have hidx : without a.indices [2 - 1] ++ without x.indices [0] = [i0] := by
      rw [hi, hxi']; rfl
    have hsh : Arr.blockShapeD [i0] [r] = [m] := by
      unfold Arr.blockShapeD
      rw [(blockShape?_single i0 r [m]).mpr ⟨m, B.hr, rfl⟩]; rfl
    have hbox : inBox (Arr.blockShapeD (without a.indices [2 - 1] ++ without x.indices [0]) [r])
        ([i] ++ []) = true := by
      rw [hidx, hsh]
      have : i < m := by simpa [B.hshape] using hi'
      simp [inBox, this]
    have := h4 [r] [i] [] rfl hbox
    rw [show [i] ++ ([] : List Nat) = [i] from rfl] at this
    rw [this]
    have := hel s arr hmem (by rw [hr]; exact hsb) i hi'
    rw [hr] at this
    exact this

end solve

/-! ## examples -/

open scoped SymmModel.Lazy

/-- `qr_isometry_fermionic_everywhere` and `svd_isometry_fermionic_everywhere` instantiate at `Int` with the
    exact kernel `trivialFactor` on `exT` resp. `exO` (the hypotheses are those of C11g's examples) -/
example :=
  qr_isometry_fermionic_everywhere (R := Int) (RingHom.id Int) (fun _ => rfl) Kernels.trivialFactor
    trivialFactor_shapeOk exT (by decide) rfl rfl sortedLabels_ex (by
      intro p hp
      simp only [exT, List.mem_cons, List.not_mem_nil, or_false] at hp
      rcases hp with rfl | rfl <;>
      · apply qiso_22 _ rfl
        intro t t' ht ht'
        have h1 : t = 0 ∨ t = 1 := by omega
        have h2 : t' = 0 ∨ t' = 1 := by omega
        rcases h1 with rfl | rfl <;> rcases h2 with rfl | rfl <;> decide)

example :=
  svd_isometry_fermionic_everywhere (R := Int) (RingHom.id Int) (fun _ => rfl) Kernels.trivialFactor
    trivialFactor_shapeOk exO (by decide) rfl rfl sortedLabels_ex (by
      intro p hp
      simp only [exO, List.mem_cons, List.not_mem_nil, or_false] at hp
      rcases hp with rfl | rfl <;>
      · apply ortho_22 _ rfl
        intro t t' ht ht'
        have h1 : t = 0 ∨ t = 1 := by omega
        have h2 : t' = 0 ∨ t' = 1 := by omega
        rcases h1 with rfl | rfl <;> rcases h2 with rfl | rfl <;> decide)

/-- … and the model computes it: `q†·q` of `exT` through `@` and the three `tensordot` modes is `∓1` on the two
    bond sectors and ZERO on the two off-diagonal keys of the table box (where no block is stored) -/
example : ((qrA Kernels.trivialFactor exT).toOption.map (fun p =>
      [p.1.daggerF.matmulF p.1, p.1.daggerF.tensordotF p.1 (.pair [1] [0]) .blockwise,
        p.1.daggerF.tensordotF p.1 (.pair [1] [0]) .fused,
        p.1.daggerF.tensordotF p.1 (.pair [1] [0]) .auto].map (fun r =>
          r.toOption.map (fun y =>
            ([y.elem [(1, 0), (1, 0)] [0, 0], y.elem [(2, 0), (2, 0)] [1, 1],
              y.elem [(1, 0), (2, 0)] [0, 0], y.elem [(1, 0), (2, 0)] [1, 1],
              y.elem [(2, 0), (1, 0)] [0, 1]], y.sectors))))
    == some (List.replicate 4 (some ([-1, 1, 0, 0, 0], [[(1, 0), (1, 0)], [(2, 0), (2, 0)]])))) = true := by
  decide +kernel

/-- the truncated theorem instantiates on `exO`, counts `[1, 2]` (both blocks `2 × 2`, so `c ≤ min m n`) -/
example (u : Arr Int) (s : BVec Int) (vh : Arr Int)
    (h : svdA Kernels.trivialFactor exO = .ok (u, s, vh)) :=
  svd_truncated_isometry_fermionic_everywhere (R := Int) (RingHom.id Int) (fun _ => rfl)
    Kernels.trivialFactor trivialFactor_shapeOk exO (by decide) rfl rfl sortedLabels_ex u s vh h [1, 2] rfl
    (by
      intro sec b c hm m n hs
      simp only [exO, List.zip_cons_cons, List.zip_nil_right, List.mem_cons, List.not_mem_nil, or_false,
        Prod.mk.injEq] at hm
      rcases hm with ⟨⟨_, rfl⟩, rfl⟩ | ⟨⟨_, rfl⟩, rfl⟩ <;>
      · obtain ⟨rfl, rfl⟩ : m = 2 ∧ n = 2 := by
          have := hs
          simp only [List.cons.injEq, and_true] at this
          exact ⟨this.1.symm, this.2.symm⟩
        decide)
    (by
      intro p hp
      simp only [exO, List.mem_cons, List.not_mem_nil, or_false] at hp
      rcases hp with rfl | rfl <;>
      · apply ortho_22 _ rfl
        intro t t' ht ht'
        have h1 : t = 0 ∨ t = 1 := by omega
        have h2 : t' = 0 ∨ t' = 1 := by omega
        rcases h1 with rfl | rfl <;> rcases h2 with rfl | rfl <;> decide)

/-- truncation `[1, 0]` drops the second block: its bond sector `((2,0),(2,0))` leaves the table, the product
    stores only the kept one -/
example : ((svdA Kernels.trivialFactor exO).toOption.map (fun p =>
      let t := applyCounts p.1 p.2.1 p.2.2 [1, 0]
      [t.1.daggerF.matmulF t.1, t.1.daggerF.tensordotF t.1 (.pair [1] [0]) .fused].map
        (fun r => r.toOption.map (fun y =>
          (y.sectors, y.elem [(1, 0), (1, 0)] [0, 0], y.elem [(2, 0), (2, 0)] [0, 0],
            (t.1.indices.getD 1 default).cm))))
    == some (List.replicate 2 (some ([[(1, 0), (1, 0)]], -1, 0, [((1, 0), 1)])))) = true := by
  decide +kernel

/-- `solve_solves_tensordotF_labelled_all_modes` instantiates on `exSaL` (even, two labels of its own),
    `exSb` (C11e) -/
example (x : Arr Int) (h : solveA Kernels.solveCopy exSaL exSb = .ok x) (tm : TdotMode) :=
  solve_solves_tensordotF_labelled_all_modes (R := Int) Int.zero_mul Int.mul_zero Kernels.solveCopy
    solveCopy_shapeOk exSaL exSb x (by decide +kernel) (by decide +kernel) rfl rfl rfl rfl (by decide)
    (by decide)
    (by
      apply solveCopy_solvesOn
      intro s arr hm
      rw [phaseSync_blocks_nil _ rfl] at hm
      simp only [exSaL, exSa, List.mem_cons, List.not_mem_nil, or_false, Prod.mk.injEq] at hm
      rcases hm with ⟨_, rfl⟩ | ⟨_, rfl⟩
      · exact ⟨1, rfl⟩
      · exact ⟨2, rfl⟩) h tm

/-- … and computes: all three modes give `-b` (value view) with the three labels `5 7 9` -/
example : ((solveA Kernels.solveCopy exSaL exSb).toOption.map (fun x =>
      [TdotMode.blockwise, TdotMode.fused, TdotMode.auto].map (fun tm =>
        (exSaL.tensordotF x (.pair [1] [0]) tm).toOption.map
          (fun y => (y.elem [(1, 0)] [0], y.elem [(1, 0)] [1], y.oddpos))))
    == some (List.replicate 3 (some (5, 6, [(5, false), (7, false), (9, false)])))) = true := by
  decide +kernel

end SymmModel.C11
