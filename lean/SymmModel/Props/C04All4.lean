/-
  Umbrella for property C04: route-independence theorems (C04All3: S1–S7 incl. triangles) together
  with C06c, which restates S4 (axes order), S5 (operand swap) and S6 (pre-transposition) for the
  fused and auto contraction modes.
-/
import SymmModel.Props.C04All3
import SymmModel.Props.C06All2
