/-
  Property C11 (third part) — fermionic reconstruction for arrays carrying SEVERAL odd-position
  labels, and for every `absorb` option of `svd_truncated`, with and without truncation.

  About `qrA`, `svdA`, `applyCounts`, `eighA`, `solveA` (Model/Linalg.lean), `Arr.matmulF`
  (`FermionicArray.__matmul__`), `multiplyDiagonal`, `Arr.daggerF`, `absorbA` (the absorb loop of
  `svd_truncated`, Proofs/LinalgMore4.lean): every symmetry, every valid fermionic matrix (any
  blocks, charge — even or odd —, index directions, pending signs), arbitrary scalars.

  Labels.  `Arr.validB` only forces "odd number of labels iff odd charge"; every array the library
  builds carries its labels sorted by `FermionicOperator.__lt__` with pairwise distinct names
  (`resolve_combined_oddpos` sorts and annihilates).  That is the hypothesis
  `SortedLabels x.oddpos` (`ReconP.SortedLabels`; dual labels allowed).  The old hypothesis
  `x.oddpos.length ≤ 1` is the special case `sortedLabels_of_short`.
  In `qr`/`svd` the LEFT factor inherits all labels of the input (`copy_with`), the right factor
  is built without labels; `q @ r` merges `labels(q) ++ []`: already sorted, no transposition, so
  sign `+1` and the same list (`ReconP.resolve_sorted_left`).  In `solve` the solution inherits
  the labels of the right-hand side.  In `eigh` both `ev` and `ev†` carry the labels (`ev†` the
  conjugated reversed list): they annihilate pairwise; for non-dual labels without a sign.

  PROVED
  * `qr_reconstructs_fermionic_labels`, `svd_reconstructs_fermionic_labels`,
    `solve_solves_fermionic_labels`, `eigh_reconstructs_fermionic_labels` — C11/C11b's theorems
    with "at most one label" replaced by a sorted list (eigh: of non-dual labels).
  * `svd_absorb_reconstructs_fermionic` — for `absorb ∈ {None, -1, 0, 1}` the product the caller
    forms from the returned factors (`ReconP.svdProduct`) is `x` (labels, sectors, values);
    `svd_reconstructs_fermionic_right` — `U @ (s·VH)`.
  * `absorb_products_agree_fermionic(_truncated)` — any two `absorb` options give fermionic
    products with the same structure and value view (no value contract on the svd kernel), before
    and after truncation.
  * `svd_truncated_product_fermionic` — after truncation, for every `absorb` option: the product
    succeeds, `x`'s labels, no pending sign, exactly the kept sectors, on a kept block the partial
    sum `± Σ_{t<c}`, zero on dropped sectors.
  * `svd_truncated_minus_discarded_fermionic` — value level: `x − product` on a kept block is
    exactly the discarded part `± Σ_{c ≤ t < min m n} (u[i,t]·s[t])·vh[t,j]`.
  * `truncation_error_fermionic` — squared norm of that difference = discarded squared weight.

  Scalars: `NegLaws` (instances `Int`, `GRat`) for qr/svd, `SignLaws` for eigh, a commutative ring
  for the absorb/truncation theorems (as in C11b/C13).
-/
import SymmModel.Proofs.ReconTrunc
import SymmModel.Proofs.ReconSolve
import SymmModel.Proofs.ReconEigh
import SymmModel.Props.C11b

namespace SymmModel.C11
open SymmModel LinalgLemmas ReconP

variable {R : Type}

/-! ## vocabulary -/

theorem sortedLabels_iff (o : List (Int × Bool)) :
    SortedLabels o ↔ (o.Pairwise (fun a b => oddLt a b = true) ∧ o.Pairwise (fun a b => a.1 ≠ b.1)) :=
  Iff.rfl

/-- the hypothesis of C11/C11b ("no label or one label") is a special case -/
theorem sortedLabels_of_short {o : List (Int × Bool)} (h : o.length ≤ 1) : SortedLabels o :=
  ReconP.sortedLabels_of_short h

/-- the label step of `q @ r`: the right factor has no label, the left one a sorted list — the
    product keeps the list and gets no sign -/
theorem label_merge_left (left right new : Arr R) (hr : right.oddpos = [])
    (hl : SortedLabels left.oddpos) :
    resolveCombinedOddpos left right new = .ok { new with oddpos := left.oddpos } :=
  resolve_sorted_left left right new hr hl

theorem svdProduct_def [Zero R] [Add R] [Mul R] [Neg R] (sqrtK : Blk R → Blk R) (u : Arr R)
    (s : BVec R) (vh : Arr R) :
    svdProduct none sqrtK u s vh = Arr.matmulF (multiplyDiagonal u s 1) vh
    ∧ ∀ m, svdProduct (some m) sqrtK u s vh
        = Arr.matmulF (absorbA m sqrtK u s vh).1 (absorbA m sqrtK u s vh).2 :=
  ⟨rfl, fun _ => rfl⟩

/-! ## 1. several labels -/

/-- **qr_reconstructs_fermionic_labels.**  `C11.qr_reconstructs_fermionic` for an input carrying
    any sorted list of labels. -/
theorem qr_reconstructs_fermionic_labels [Zero R] [Add R] [Mul R] [Neg R] [NegLaws R]
    (K : Kernels R) (hK : K.ShapeOk) (hC : K.QRContract) (x : Arr R) (hv : x.validB = true)
    (h2 : x.ndim = 2) (hf : x.fermi = true) (hlab : SortedLabels x.oddpos) :
    ∃ q r y, qrA K x = .ok (q, r) ∧ q.oddpos = x.oddpos ∧ r.oddpos = []
      ∧ Arr.matmulF q r = .ok y ∧ y.oddpos = x.oddpos ∧ y.phases = []
      ∧ ∀ s off, AddrOf x s off → y.elem s off = x.elem s off := by
  obtain ⟨y, h1, h2', h3, h4⟩ := qr_recon_fermi_labels hK hC hv h2 hf hlab
  exact ⟨_, _, y, qrA_eq K hv h2, rfl, rightF_fields.2.2.2.2.2, h1, h2', h3, h4⟩

/-- **svd_reconstructs_fermionic_labels.**  Likewise `(U · diag s) @ VH = x`. -/
theorem svd_reconstructs_fermionic_labels [Zero R] [Add R] [Mul R] [Neg R] [NegLaws R]
    (K : Kernels R) (hK : K.ShapeOk) (hC : K.SVDContract) (x : Arr R) (hv : x.validB = true)
    (h2 : x.ndim = 2) (hf : x.fermi = true) (hlab : SortedLabels x.oddpos) :
    ∃ u s vh y, svdA K x = .ok (u, s, vh) ∧ u.oddpos = x.oddpos ∧ vh.oddpos = []
      ∧ Arr.matmulF (multiplyDiagonal u s 1) vh = .ok y
      ∧ y.oddpos = x.oddpos ∧ y.phases = []
      ∧ ∀ sec off, AddrOf x sec off → y.elem sec off = x.elem sec off := by
  obtain ⟨y, h1, h2', h3, h4⟩ := svd_recon_fermi_labels hK hC hv h2 hf hlab
  exact ⟨_, _, _, y, svdA_eq K hv h2, rfl, rightF_fields.2.2.2.2.2, h1, h2', h3, h4⟩

/-- **solve_solves_fermionic_labels.**  `C11.solve_solves_fermionic` for a right-hand side
    carrying any sorted list of labels (the solution inherits it; `a` even without labels). -/
theorem solve_solves_fermionic_labels [Zero R] [Add R] [Mul R] [Neg R] (hn0 : -(0 : R) = 0)
    (K : Kernels R) (hK : K.ShapeOk) (a b x : Arr R) (hva : a.validB = true)
    (hvb : b.validB = true) (hfa : a.fermi = true) (hfb : b.fermi = true)
    (heven : a.parity = false) (hao : a.oddpos = []) (hbo : SortedLabels b.oddpos)
    (hS : K.SolvesOn a.phaseSync b.phaseSync) (h : solveA K a b = .ok x) :
    ∃ y, Arr.matmulF a x = .ok y ∧ y.oddpos = b.oddpos ∧
      ∀ s arr, (s, arr) ∈ a.blocks → [s.getD 0 (0, 0)] ∈ b.sectors →
        ∀ i, i < arr.shape.getD 0 0 →
          y.elem [s.getD 0 (0, 0)] [i] = b.elem [s.getD 0 (0, 0)] [i] :=
  solve_recon_fermi_labels hn0 hK hva hvb hfa hfb heven hao hbo hS h

/-- **eigh_reconstructs_fermionic_labels.**  `C11.eigh_reconstructs_fermionic` for an input
    carrying a sorted list of NON-DUAL labels (even in number, because the charge is zero):
    `ev` keeps them, `ev†` carries the conjugated reversed list, the product has none and `a`'s
    values.  (With dual labels among them each conjugate pair that meets as ket-then-bra
    contributes `-1`, see the example `exEdual` below: the product is then `-a`; same convention
    as known finding `norm-odd-dual-label`.) -/
theorem eigh_reconstructs_fermionic_labels [Zero R] [Add R] [Mul R] [Neg R] [Conj R] [SignLaws R]
    (hc0 : Conj.conj (0 : R) = 0) (K : Kernels R) (hK : K.ShapeOk) (a : Arr R)
    (hv : a.validB = true) (h2 : a.ndim = 2) (hch : a.charge = a.sym.zero)
    (hopp : (a.indices.getD 1 default).dual = !(a.indices.getD 0 default).dual)
    (hcm : (a.indices.getD 0 default).cm = (a.indices.getD 1 default).cm)
    (hf : a.fermi = true) (hlab : SortedLabels a.oddpos) (hket : ∀ l ∈ a.oddpos, l.2 = false)
    (hE : ∀ p ∈ a.phaseSync.blocks, K.EighBlock p.2) :
    ∃ w ev y, eighA K a = .ok (w, ev)
      ∧ Arr.matmulF (multiplyDiagonal ev w 1) ev.daggerF = .ok y ∧ y.oddpos = []
      ∧ ∀ s off, AddrOf a s off → y.elem s off = a.elem s off :=
  eigh_recon_fermi_labels hc0 hK ⟨hv, h2, hch, hopp, hcm⟩ hf hlab hket hE

/-! ## 2. every `absorb` option, no truncation -/

theorem svd_factors_eq {K : Kernels R} {x : Arr R} (hv : x.validB = true) (h2 : x.ndim = 2)
    {u : Arr R} {s : BVec R} {vh : Arr R} (hsvd : svdA K x = .ok (u, s, vh)) :
    u = leftF x (fun b => (K.svd b).1)
    ∧ s = ⟨x.blocks.map (fun p => (colOf p.1, (K.svd p.2).2.1))⟩
    ∧ vh = rightF x (fun b => (K.svd b).1) (fun b => (K.svd b).2.2) := by
  have h' := Except.ok.inj ((svdA_eq K hv h2).symm.trans hsvd)
  exact ⟨(Prod.mk.inj h').1.symm, (Prod.mk.inj (Prod.mk.inj h').2).1.symm,
    (Prod.mk.inj (Prod.mk.inj h').2).2.symm⟩

theorem sqrtItems_svd [Zero R] [Mul R] {K : Kernels R} (hK : K.ShapeOk) {x : Arr R}
    (hv : x.validB = true) (h2 : x.ndim = 2) {sqrtK : Blk R → Blk R}
    (hsq : SqrtOn sqrtK ⟨x.blocks.map (fun p => (colOf p.1, (K.svd p.2).2.1))⟩) :
    SqrtItems sqrtK x.blocks (fun p => (K.svd p.2).2.1)
      (fun p => min (p.2.shape.getD 0 0) (p.2.shape.getD 1 0)) := by
  intro p hp
  have := hsq (colOf p.1, (K.svd p.2).2.1) (List.mem_map.mpr ⟨p, hp, rfl⟩)
  rw [(svd_itemShape hK hv h2 p hp).2.1] at this
  exact this

/-- **svd_absorb_reconstructs_fermionic.**  `u, s, vh = svd(x)`, `x` a valid fermionic matrix
    with sorted labels and any pending signs.  For every value of `absorb` (`none` = `None`,
    `some .left/.both/.right` = `-1/0/1`; for `0` the backend `sqrt` satisfies
    `sqrtK s * sqrtK s = s` on the stored singular values) the product the caller forms from what
    `svd_truncated` returns — `U.multiply_diagonal(s,1) @ VH`, resp. `U' @ VH'` — succeeds and IS
    `x`: same labels, no pending sign, same sectors, same element at every address. -/
theorem svd_absorb_reconstructs_fermionic [CommRing R] (K : Kernels R) (hK : K.ShapeOk)
    (hC : K.SVDContract) (x : Arr R) (hv : x.validB = true) (h2 : x.ndim = 2)
    (hf : x.fermi = true) (hlab : SortedLabels x.oddpos) (u : Arr R) (s : BVec R) (vh : Arr R)
    (hsvd : svdA K x = .ok (u, s, vh)) (sqrtK : Blk R → Blk R) (mode : Option Absorb)
    (hsq : mode = some .both → SqrtOn sqrtK s) :
    ∃ y, svdProduct mode sqrtK u s vh = .ok y
      ∧ y.oddpos = x.oddpos ∧ y.phases = [] ∧ y.sectors = x.sectors
      ∧ ∀ sec off, AddrOf x sec off → y.elem sec off = x.elem sec off := by
  obtain ⟨rfl, rfl, rfl⟩ := svd_factors_eq hv h2 hsvd
  exact svd_absorb_recon_fermi hK hC hv h2 hf hlab sqrtK mode
    (fun hm => sqrtItems_svd hK hv h2 (hsq hm))

/-- **svd_reconstructs_fermionic_right.**  Multiplying the singular values into `VH` instead:
    `U @ VH.multiply_diagonal(s, 0) = x`. -/
theorem svd_reconstructs_fermionic_right [CommRing R] (K : Kernels R) (hK : K.ShapeOk)
    (hC : K.SVDContract) (x : Arr R) (hv : x.validB = true) (h2 : x.ndim = 2)
    (hf : x.fermi = true) (hlab : SortedLabels x.oddpos) (u : Arr R) (s : BVec R) (vh : Arr R)
    (hsvd : svdA K x = .ok (u, s, vh)) :
    ∃ y, Arr.matmulF u (multiplyDiagonal vh s 0) = .ok y
      ∧ y.oddpos = x.oddpos ∧ y.phases = [] ∧ y.sectors = x.sectors
      ∧ ∀ sec off, AddrOf x sec off → y.elem sec off = x.elem sec off := by
  obtain ⟨rfl, rfl, rfl⟩ := svd_factors_eq hv h2 hsvd
  rw [matmulF_right_diag (aligned_svd (K := K) hv h2) id]
  exact svd_absorb_recon_fermi hK hC hv h2 hf hlab id (some .right) (fun h => by cases h)

/-- **absorb_products_agree_fermionic.**  No value contract on the svd kernel: any two values of
    `absorb` give fermionic products with the same sectors, pending signs (none), labels, index
    tables, charge, and the same element at every address of `x`. -/
theorem absorb_products_agree_fermionic [CommRing R] (K : Kernels R) (hK : K.ShapeOk) (x : Arr R)
    (hv : x.validB = true) (h2 : x.ndim = 2) (hf : x.fermi = true)
    (hlab : SortedLabels x.oddpos) (u : Arr R) (s : BVec R) (vh : Arr R)
    (hsvd : svdA K x = .ok (u, s, vh)) (sqrtK : Blk R → Blk R) (hsq : SqrtOn sqrtK s)
    (m1 m2 : Option Absorb) :
    ∃ y1 y2, svdProduct m1 sqrtK u s vh = .ok y1 ∧ svdProduct m2 sqrtK u s vh = .ok y2
      ∧ y1.sectors = y2.sectors ∧ y1.phases = y2.phases ∧ y1.oddpos = y2.oddpos
      ∧ y1.indices = y2.indices ∧ y1.charge = y2.charge
      ∧ ∀ sec off, AddrOf x sec off → y1.elem sec off = y2.elem sec off := by
  obtain ⟨rfl, rfl, rfl⟩ := svd_factors_eq hv h2 hsvd
  obtain ⟨y1, y2, a1, a2, a3, a4, a5, a6, a7, _, _, a8⟩ := svdProduct_agree hv h2
    (aligned_svd (K := K) hv h2) (fun p hp => List.mem_map.mpr ⟨p, hp, rfl⟩) rfl hlab
    (rightF_rightOf hv h2 hf _ _) sqrtK
    (fun p => (p.2.shape.getD 0 0, min (p.2.shape.getD 0 0) (p.2.shape.getD 1 0), p.2.shape.getD 1 0))
    (svd_itemShape hK hv h2) (sqrtItems_svd hK hv h2 hsq) m1 m2
  refine ⟨y1, y2, a1, a2, a3, a4, a5, a6, a7, fun sec off ha => a8 sec off ?_⟩
  rcases ha with h | ⟨b, hm, hbox⟩
  · exact Or.inl (by simpa [Arr.sectors] using h)
  · refine Or.inr ⟨(sec, b), hm, rfl, ?_⟩
    obtain ⟨i0, i1, hi⟩ := ndim_two h2
    obtain ⟨r, c, m, n, B⟩ := mat_block hv hi hm
    simpa [B.hshape] using hbox

/-! ## 3. after truncation -/

section trunc
variable [CommRing R]

theorem sqrtItems_trunc {K : Kernels R} {x : Arr R} {counts : List Nat} {sqrtK : Blk R → Blk R}
    (hsq : SqrtOn sqrtK (truncS x (fun b => (K.svd b).2.1) counts)) :
    SqrtItems sqrtK (kept x counts) (fun t => ((K.svd t.1.2).2.1).sliceK [0] [t.2]) (fun t => t.2) := by
  intro t ht
  have := hsq (colOf t.1.1, ((K.svd t.1.2).2.1).sliceK [0] [t.2]) (List.mem_map.mpr ⟨t, ht, rfl⟩)
  simpa using this

/-- the sign `x`'s pending-sign table gives to sector `sec` -/
def pend (x : Arr R) (sec : Sector) (v : R) : R :=
  if alookup x.phases sec == some (-1) then -v else v

open Finset in
/-- **svd_truncated_product_fermionic.**  `u, s, vh = svd(x)` truncated with `counts` (aligned
    with the stored blocks).  For every value of `absorb`, the product the caller forms from the
    returned factors succeeds, carries `x`'s labels and no pending sign, stores exactly the sectors
    with a non-zero count, is zero on every other sector, and on a kept block `((sec, b), c)` has
    the entry `± Σ_{t < c} (u[i,t]·s[t])·vh[t,j]` of the kernel factors of `b` (`±` = `x`'s pending
    sign on `sec`). -/
theorem svd_truncated_product_fermionic (K : Kernels R) (hK : K.ShapeOk) (x : Arr R)
    (hv : x.validB = true) (h2 : x.ndim = 2) (hf : x.fermi = true)
    (hlab : SortedLabels x.oddpos) (u : Arr R) (s : BVec R) (vh : Arr R)
    (hsvd : svdA K x = .ok (u, s, vh)) (counts : List Nat)
    (hlen : counts.length = x.blocks.length) (sqrtK : Blk R → Blk R) (mode : Option Absorb)
    (hsq : mode = some .both → SqrtOn sqrtK (applyCounts u s vh counts).2.1) :
    ∃ y, svdProduct mode sqrtK (applyCounts u s vh counts).1 (applyCounts u s vh counts).2.1
        (applyCounts u s vh counts).2.2 = .ok y
      ∧ y.oddpos = x.oddpos ∧ y.phases = []
      ∧ y.sectors = ((x.blocks.zip counts).filter (fun t => t.2 != 0)).map (fun t => t.1.1)
      ∧ (∀ sec b c, ((sec, b), c) ∈ x.blocks.zip counts → c ≠ 0 →
          ∀ m n, b.shape = [m, n] → ∀ i j, i < m → j < n →
            y.elem sec [i, j] = pend x sec (∑ t ∈ range c,
              ((K.svd b).1.get [i, t] * (K.svd b).2.1.get [t]) * (K.svd b).2.2.get [t, j]))
      ∧ (∀ sec b, ((sec, b), 0) ∈ x.blocks.zip counts → ∀ off, y.elem sec off = 0)
      ∧ (∀ sec, sec ∉ x.sectors → ∀ off, y.elem sec off = 0) := by
  obtain ⟨rfl, rfl, rfl⟩ := svd_factors_eq hv h2 hsvd
  rw [applyCounts_eq (S := fun b => (K.svd b).2.1) hv h2 hlen] at hsq ⊢
  obtain ⟨y, hy, hyo, hyp, hys, he, hz⟩ := trunc_absorb_fermi hK hv h2 hf hlab hlen sqrtK mode
    (fun hm => sqrtItems_trunc (hsq hm))
  have hkeys : ((x.blocks.zip counts).map (fun t => t.1.1)).Nodup := by
    have e : (x.blocks.zip counts).map (fun t => t.1.1)
        = ((x.blocks.zip counts).map (·.1)).map (·.1) := by rw [List.map_map]; rfl
    rw [e, tri_map_fst hlen]; exact sectors_nodup hv
  refine ⟨y, hy, hyo, hyp, hys, ?_, ?_, ?_⟩
  · intro sec b c hm hc0 m n hs i j hi hj
    have hk : ((sec, b), c) ∈ kept x counts := List.mem_filter.mpr ⟨hm, by simpa using hc0⟩
    exact he _ hk m n hs i j hi hj
  · intro sec b hm off
    apply hz
    intro hmem
    obtain ⟨t, ht, e⟩ := List.mem_map.mp hmem
    have ht' := List.mem_filter.mp ht
    have := List.inj_on_of_nodup_map hkeys ht'.1 hm e
    rw [this] at ht'
    simp at ht'
  · intro sec hns off
    apply hz
    intro hmem
    obtain ⟨t, ht, e⟩ := List.mem_map.mp hmem
    exact hns (e ▸ List.mem_map.mpr ⟨t.1, (kept_mem hlen ht).1, rfl⟩)

open Finset in
/-- **svd_truncated_minus_discarded_fermionic.**  Under the svd value contract: on a kept block
    the input minus the product of the truncated factors (any `absorb`) is exactly the discarded
    part `± Σ_{c ≤ t < min m n} (u[i,t]·s[t])·vh[t,j]`. -/
theorem svd_truncated_minus_discarded_fermionic (K : Kernels R) (hK : K.ShapeOk)
    (hC : K.SVDContract) (x : Arr R) (hv : x.validB = true) (h2 : x.ndim = 2)
    (hf : x.fermi = true) (hlab : SortedLabels x.oddpos) (u : Arr R) (s : BVec R) (vh : Arr R)
    (hsvd : svdA K x = .ok (u, s, vh)) (counts : List Nat)
    (hlen : counts.length = x.blocks.length) (sqrtK : Blk R → Blk R) (mode : Option Absorb)
    (hsq : mode = some .both → SqrtOn sqrtK (applyCounts u s vh counts).2.1) :
    ∃ y, svdProduct mode sqrtK (applyCounts u s vh counts).1 (applyCounts u s vh counts).2.1
        (applyCounts u s vh counts).2.2 = .ok y
      ∧ ∀ sec b c, ((sec, b), c) ∈ x.blocks.zip counts → c ≠ 0 →
          ∀ m n, b.shape = [m, n] → c ≤ min m n → ∀ i j, i < m → j < n →
            x.elem sec [i, j] - y.elem sec [i, j] = pend x sec (∑ t ∈ Ico c (min m n),
              ((K.svd b).1.get [i, t] * (K.svd b).2.1.get [t]) * (K.svd b).2.2.get [t, j]) := by
  obtain ⟨y, hy, _, _, _, he, _⟩ := svd_truncated_product_fermionic K hK x hv h2 hf hlab u s vh
    hsvd counts hlen sqrtK mode hsq
  refine ⟨y, hy, ?_⟩
  intro sec b c hm hc0 m n hs hc i j hi hj
  have hk : ((sec, b), c) ∈ kept x counts := List.mem_filter.mpr ⟨hm, by simpa using hc0⟩
  exact trunc_diff_fermi hC hv hlen hk hs hc hi hj (he sec b c hm hc0 m n hs i j hi hj)

open Finset in
/-- **truncation_error_fermionic.**  `C11.truncation_error` for the fermionic product and every
    `absorb` option: on a kept block with orthonormal kernel factors, the squared norm of
    `x − product` is the discarded squared weight `Σ_{c ≤ t < min m n} conj(s[t])·s[t]`. -/
theorem truncation_error_fermionic (conj : R →+* R) (K : Kernels R) (hK : K.ShapeOk)
    (hC : K.SVDContract) (x : Arr R) (hv : x.validB = true) (h2 : x.ndim = 2)
    (hf : x.fermi = true) (hlab : SortedLabels x.oddpos) (u : Arr R) (s : BVec R) (vh : Arr R)
    (hsvd : svdA K x = .ok (u, s, vh)) (counts : List Nat)
    (hlen : counts.length = x.blocks.length) (sqrtK : Blk R → Blk R) (mode : Option Absorb)
    (hsq : mode = some .both → SqrtOn sqrtK (applyCounts u s vh counts).2.1) :
    ∃ y, svdProduct mode sqrtK (applyCounts u s vh counts).1 (applyCounts u s vh counts).2.1
        (applyCounts u s vh counts).2.2 = .ok y
      ∧ ∀ sec b c, ((sec, b), c) ∈ x.blocks.zip counts → c ≠ 0 →
          ∀ m n, b.shape = [m, n] → K.OrthoBlock conj b → c ≤ min m n →
            ∑ i ∈ range m, ∑ j ∈ range n,
                conj (x.elem sec [i, j] - y.elem sec [i, j]) * (x.elem sec [i, j] - y.elem sec [i, j])
              = ∑ t ∈ Ico c (min m n), conj ((K.svd b).2.1.get [t]) * (K.svd b).2.1.get [t] := by
  obtain ⟨y, hy, _, _, _, he, _⟩ := svd_truncated_product_fermionic K hK x hv h2 hf hlab u s vh
    hsvd counts hlen sqrtK mode hsq
  refine ⟨y, hy, ?_⟩
  intro sec b c hm hc0 m n hs hO hc
  have hk : ((sec, b), c) ∈ kept x counts := List.mem_filter.mpr ⟨hm, by simpa using hc0⟩
  exact trunc_error_fermi conj hC hv hlen hk hs hO hc
    (fun i j hi hj => he sec b c hm hc0 m n hs i j hi hj)

/-- **absorb_products_agree_fermionic_truncated.**  After truncation any two values of `absorb`
    give fermionic products with the same structure and the same element at every address of `x`
    (no value contract on the svd kernel). -/
theorem absorb_products_agree_fermionic_truncated (K : Kernels R) (hK : K.ShapeOk) (x : Arr R)
    (hv : x.validB = true) (h2 : x.ndim = 2) (hf : x.fermi = true)
    (hlab : SortedLabels x.oddpos) (u : Arr R) (s : BVec R) (vh : Arr R)
    (hsvd : svdA K x = .ok (u, s, vh)) (counts : List Nat)
    (hlen : counts.length = x.blocks.length) (sqrtK : Blk R → Blk R)
    (hsq : SqrtOn sqrtK (applyCounts u s vh counts).2.1) (m1 m2 : Option Absorb) :
    ∃ y1 y2,
      svdProduct m1 sqrtK (applyCounts u s vh counts).1 (applyCounts u s vh counts).2.1
        (applyCounts u s vh counts).2.2 = .ok y1
      ∧ svdProduct m2 sqrtK (applyCounts u s vh counts).1 (applyCounts u s vh counts).2.1
        (applyCounts u s vh counts).2.2 = .ok y2
      ∧ y1.sectors = y2.sectors ∧ y1.phases = y2.phases ∧ y1.oddpos = y2.oddpos
      ∧ y1.indices = y2.indices ∧ y1.charge = y2.charge
      ∧ ∀ sec off, AddrOf x sec off → y1.elem sec off = y2.elem sec off := by
  obtain ⟨rfl, rfl, rfl⟩ := svd_factors_eq hv h2 hsvd
  rw [applyCounts_eq (S := fun b => (K.svd b).2.1) hv h2 hlen] at hsq ⊢
  obtain ⟨y1, y2, a1, a2, a3, a4, a5, a6, a7, _, _, a8⟩ := svdProduct_agree hv h2
    (aligned_trunc (K := K) hv h2 hlen)
    (fun t ht => List.mem_map.mpr ⟨t.1, (kept_mem hlen ht).1, rfl⟩) rfl hlab
    (truncV_rightOf hv h2 hf _ _ counts) sqrtK
    (fun t => (t.1.2.shape.getD 0 0, t.2, t.1.2.shape.getD 1 0))
    (trunc_itemShape hK hv h2 hlen) (sqrtItems_trunc hsq) m1 m2
  refine ⟨y1, y2, a1, a2, a3, a4, a5, a6, a7, fun sec off ha => ?_⟩
  by_cases hk : sec ∈ (kept x counts).map (fun t => t.1.1)
  · obtain ⟨t, ht, rfl⟩ := List.mem_map.mp hk
    apply a8
    rcases ha with h | ⟨b, hm, hbox⟩
    · exact absurd (List.mem_map.mpr ⟨t.1, (kept_mem hlen ht).1, rfl⟩) h
    · refine Or.inr ⟨t, ht, rfl, ?_⟩
      have hb : b = t.1.2 := by
        have h1 := alookup_of_mem_nodup (sectors_nodup hv) hm
        have h2' := alookup_of_mem_nodup (sectors_nodup hv) (kept_mem hlen ht).1
        rw [h1] at h2'
        exact Option.some.inj h2'
      subst hb
      obtain ⟨i0, i1, hi⟩ := ndim_two h2
      obtain ⟨r, c, m, n, B⟩ := mat_block hv hi hm
      simpa [B.hshape] using hbox
  · exact a8 sec off (Or.inl hk)

end trunc

/-! ## examples: the hypotheses are satisfiable, the statements compute on concrete data -/

open scoped SymmModel.Lazy   -- `Conj Int` (trivial conjugation)

/-- `C11.exF` (odd charge, row index incoming, column index outgoing, a pending sign) carrying
    THREE labels, one of them dual: sorted by `__lt__` (dual first), distinct names -/
def exF3 : Arr Int := { exF with oddpos := [(7, true), (2, false), (5, false)] }

theorem sortedLabels_ex : SortedLabels [((7 : Int), true), (2, false), (5, false)] := by
  unfold SortedLabels OddposP.OddSorted OddposP.LabelsDistinct; decide

example : exF3.validB = true ∧ exF3.ndim = 2 ∧ exF3.fermi = true ∧ exF3.parity = true
    ∧ SortedLabels exF3.oddpos := ⟨by decide, rfl, rfl, by decide, sortedLabels_ex⟩

/-- `q` inherits the three labels, `r` none but the pending sign on its odd diagonal sector;
    `q @ r` has `x`'s value view (pending sign multiplied in), no pending sign, the three labels -/
example : ((qrA Kernels.trivialFactor exF3).toOption.bind (fun p =>
      (Arr.matmulF p.1 p.2).toOption.map (fun y =>
        (p.1.oddpos, p.2.oddpos, p.2.phases,
         y.blocks.map (fun q => (q.1, q.2.shape, q.2.data.toList)), y.phases, y.oddpos)))
    == some ([(7, true), (2, false), (5, false)], [], [([(1, 0), (1, 0)], -1)],
        [([(0, 0), (1, 0)], [2, 1], [1, 2]), ([(1, 0), (2, 0)], [1, 3], [-3, -4, -5])], [],
        [(7, true), (2, false), (5, false)])) = true := by decide +kernel

/-- odd fermionic matrix with two `2 × 2` blocks, a pending sign on the second, three labels -/
def exT : Arr Int :=
  { sym := .U1, fermi := true, charge := (1, 0),
    indices := [Index.mk [((0, 0), 2), ((1, 0), 2)] true none,
                Index.mk [((1, 0), 2), ((2, 0), 2)] false none],
    blocks := [([(0, 0), (1, 0)], ⟨[2, 2], #[1, 2, 3, 4]⟩), ([(1, 0), (2, 0)], ⟨[2, 2], #[5, 6, 7, 8]⟩)],
    phases := [([(1, 0), (2, 0)], -1)],
    oddpos := [(7, true), (2, false), (5, false)] }

example : exT.validB = true ∧ exT.ndim = 2 ∧ exT.fermi = true ∧ exT.parity = true
    ∧ SortedLabels exT.oddpos := ⟨by decide, rfl, rfl, by decide, sortedLabels_ex⟩

/-- with `Kernels.trivialFactor` all singular values are `1`, so `sqrt = id` meets `SqrtOn`,
    before … -/
theorem sqrtOn_id_trivial (x : Arr Int) (hv : x.validB = true) (h2 : x.ndim = 2) (u : Arr Int)
    (s : BVec Int) (vh : Arr Int) (h : svdA Kernels.trivialFactor x = .ok (u, s, vh)) :
    SqrtOn id s := by
  obtain ⟨_, rfl, _⟩ := svd_factors_eq hv h2 h
  intro q hq
  obtain ⟨p, hp, rfl⟩ := List.mem_map.mp hq
  obtain ⟨i0, i1, hi⟩ := ndim_two h2
  obtain ⟨r, c, m, n, B⟩ := mat_block hv hi (s := p.1) (b := p.2) hp
  refine ⟨rfl, ?_⟩
  intro t ht
  simp only [id, trivialFactor_s p.2 B.hshape] at ht ⊢
  have ht' : t < min m n := ht
  rw [onesI_get ht']; rfl

/-- … and after truncation (counts within the bond sizes) -/
theorem sqrtOn_id_trivial_trunc (x : Arr Int) (hv : x.validB = true) (h2 : x.ndim = 2)
    (u : Arr Int) (s : BVec Int) (vh : Arr Int)
    (h : svdA Kernels.trivialFactor x = .ok (u, s, vh)) (counts : List Nat)
    (hlen : counts.length = x.blocks.length)
    (hle : ∀ t ∈ x.blocks.zip counts, t.2 ≤ min (t.1.2.shape.getD 0 0) (t.1.2.shape.getD 1 0)) :
    SqrtOn id (applyCounts u s vh counts).2.1 := by
  obtain ⟨rfl, rfl, rfl⟩ := svd_factors_eq hv h2 h
  rw [applyCounts_eq (S := fun b => (Kernels.trivialFactor.svd b).2.1) hv h2 hlen]
  intro q hq
  obtain ⟨t, ht, rfl⟩ := List.mem_map.mp hq
  obtain ⟨hb, _, hz⟩ := kept_mem hlen ht
  obtain ⟨i0, i1, hi⟩ := ndim_two h2
  obtain ⟨r, c, m, n, B⟩ := mat_block hv hi (s := t.1.1) (b := t.1.2) hb
  have hc := hle t hz
  simp only [B.hshape, List.getD_cons_zero, List.getD_cons_succ] at hc
  refine ⟨rfl, ?_⟩
  intro t' ht'
  have ht'' : t' < t.2 := ht'
  simp only [id, trivialFactor_s t.1.2 B.hshape, sliceK0_get _ ht'']
  rw [onesI_get (by omega)]; rfl

/-- every `absorb` option, no truncation: the product is `exT` (values `-5 … -8` = pending sign
    multiplied in), three labels, no pending sign -/
example : ((svdA Kernels.trivialFactor exT).toOption.map (fun p =>
      [none, some Absorb.left, some Absorb.both, some Absorb.right].map (fun mode =>
        (svdProduct mode id p.1 p.2.1 p.2.2).toOption.map (fun y =>
          (y.blocks.map (fun q => (q.1, q.2.data.toList)), y.phases, y.oddpos))))
    == some (List.replicate 4 (some
        ([([(0, 0), (1, 0)], [1, 2, 3, 4]), ([(1, 0), (2, 0)], [-5, -6, -7, -8])], [],
         [(7, true), (2, false), (5, false)])))) = true := by decide +kernel

/-- truncated with counts `[1, 2]`: the first block keeps one of its two unit singular values —
    the product has the first row of the block, the discarded part is the second row `[3, 4]` -/
example : ((svdA Kernels.trivialFactor exT).toOption.map (fun p =>
      let t := applyCounts p.1 p.2.1 p.2.2 [1, 2]
      [none, some Absorb.left, some Absorb.both, some Absorb.right].map (fun mode =>
        (svdProduct mode id t.1 t.2.1 t.2.2).toOption.map (fun y =>
          (y.blocks.map (fun q => (q.1, q.2.data.toList)), y.phases, y.oddpos))))
    == some (List.replicate 4 (some
        ([([(0, 0), (1, 0)], [1, 2, 0, 0]), ([(1, 0), (2, 0)], [-5, -6, -7, -8])], [],
         [(7, true), (2, false), (5, false)])))) = true := by decide +kernel

/-- truncated with counts `[0, 1]`: the first sector is dropped; the truncated `VH` still lists the
    dropped odd sector `(1, 1)` in its sign table (harmless: `ReconP.rightSync_blocks`); the odd
    kept block arrives with its pending sign -/
example : ((svdA Kernels.trivialFactor exT).toOption.map (fun p =>
      let t := applyCounts p.1 p.2.1 p.2.2 [0, 1]
      (t.2.2.sectors, t.2.2.phases,
       [none, some Absorb.left, some Absorb.both, some Absorb.right].map (fun mode =>
        (svdProduct mode id t.1 t.2.1 t.2.2).toOption.map (fun y =>
          (y.blocks.map (fun q => (q.1, q.2.data.toList)), y.phases, y.oddpos)))))
    == some ([[(2, 0), (2, 0)]], [([(1, 0), (1, 0)], -1)], List.replicate 4 (some
        ([([(1, 0), (2, 0)], [-5, -6, 0, 0])], [], [(7, true), (2, false), (5, false)])))) = true := by
  decide +kernel

/-- hypotheses of `truncation_error_fermionic` met together: `exT` with blocks that have
    orthonormal rows (signed permutations), `trivialFactor`, counts `[1, 2]` -/
def exO : Arr Int :=
  { exT with blocks := [([(0, 0), (1, 0)], ⟨[2, 2], #[0, 1, 1, 0]⟩),
                        ([(1, 0), (2, 0)], ⟨[2, 2], #[0, -1, 1, 0]⟩)] }

theorem ortho_22 (b : Blk Int) (hs : b.shape = [2, 2])
    (h : ∀ t t', t < 2 → t' < 2 →
      (List.range 2).foldl (fun acc i => acc + (Kernels.trivialFactor.svd b).1.get [i, t]
          * (Kernels.trivialFactor.svd b).1.get [i, t']) 0 = (if t = t' then 1 else 0)
      ∧ (List.range 2).foldl (fun acc j => acc + (Kernels.trivialFactor.svd b).2.2.get [t, j]
          * (Kernels.trivialFactor.svd b).2.2.get [t', j]) 0 = (if t = t' then 1 else 0)) :
    Kernels.trivialFactor.OrthoBlock (RingHom.id Int) b := by
  intro m n hs' t t' ht ht'
  rw [hs] at hs'
  have hm : m = 2 := (List.cons.inj hs').1.symm
  have hn : n = 2 := (List.cons.inj (List.cons.inj hs').2).1.symm
  subst hm hn
  exact h t t' ht ht'

example : Kernels.trivialFactor.ShapeOk ∧ Kernels.trivialFactor.SVDContract
    ∧ exO.validB = true ∧ exO.ndim = 2 ∧ exO.fermi = true ∧ SortedLabels exO.oddpos
    ∧ ([1, 2] : List Nat).length = exO.blocks.length
    ∧ (∀ p ∈ exO.blocks, Kernels.trivialFactor.OrthoBlock (RingHom.id Int) p.2)
    ∧ (∀ u s vh, svdA Kernels.trivialFactor exO = .ok (u, s, vh) →
        SqrtOn id (applyCounts u s vh [1, 2]).2.1) := by
  refine ⟨trivialFactor_shapeOk, trivialFactor_svd, by decide, rfl, rfl, sortedLabels_ex, rfl, ?_, ?_⟩
  · intro p hp
    simp only [exO, List.mem_cons, List.not_mem_nil, or_false] at hp
    rcases hp with rfl | rfl
    · apply ortho_22 _ rfl
      intro t t' ht ht'
      have h1 : t = 0 ∨ t = 1 := by omega
      have h2 : t' = 0 ∨ t' = 1 := by omega
      rcases h1 with rfl | rfl <;> rcases h2 with rfl | rfl <;> decide
    · apply ortho_22 _ rfl
      intro t t' ht ht'
      have h1 : t = 0 ∨ t = 1 := by omega
      have h2 : t' = 0 ∨ t' = 1 := by omega
      rcases h1 with rfl | rfl <;> rcases h2 with rfl | rfl <;> decide
  · intro u s vh h
    apply sqrtOn_id_trivial_trunc exO (by decide) rfl u s vh h [1, 2] rfl
    decide

/-- … and the squared error on the truncated block of `exO` is the one discarded unit weight -/
example : ((svdA Kernels.trivialFactor exO).toOption.bind (fun p =>
      let t := applyCounts p.1 p.2.1 p.2.2 [1, 2]
      (svdProduct (some .both) id t.1 t.2.1 t.2.2).toOption.map (fun y =>
        (Finset.range 2).sum (fun i => (Finset.range 2).sum (fun j =>
          (exO.elem [(0, 0), (1, 0)] [i, j] - y.elem [(0, 0), (1, 0)] [i, j]) ^ 2)))))
    = some 1 := by decide +kernel

/-- `eigh`: `C11.exEf` (charge zero, pending sign) with TWO non-dual labels -/
def exEf2 : Arr Int := { exEf with oddpos := [(2, false), (5, false)] }

example : exEf2.validB = true ∧ SortedLabels exEf2.oddpos ∧ (∀ l ∈ exEf2.oddpos, l.2 = false) := by
  refine ⟨by decide, ?_, by decide⟩
  unfold SortedLabels OddposP.OddSorted OddposP.LabelsDistinct; decide

/-- `ev` keeps the two labels, `ev†` carries `[5†, 2†]`, the product none; values of `exEf` -/
example : ((eighA Kernels.eighDiag exEf2).toOption.bind (fun p =>
      (Arr.matmulF (multiplyDiagonal p.2 p.1 1) p.2.daggerF).toOption.map (fun y =>
        (p.2.oddpos, p.2.daggerF.oddpos,
         y.blocks.map (fun q => (q.1, q.2.data.toList)), y.phases, y.oddpos)))
    == some ([(2, false), (5, false)], [(5, true), (2, true)],
        [([(0, 0), (0, 0)], [2, 0, 0, 3]), ([(1, 0), (1, 0)], [-5])], [], [])) = true := by
  decide +kernel

/-- the hypothesis "non-dual labels" of `eigh_reconstructs_fermionic_labels` cannot be dropped:
    with one dual and one non-dual label (a valid even array, sorted labels) the conjugate pair
    `2 2†` meets as ket-then-bra and the product is `-a` (a global pending sign) -/
def exEdual : Arr Int := { exEf with oddpos := [(5, true), (2, false)] }

example : exEdual.validB = true
    ∧ ((eighA Kernels.eighDiag exEdual).toOption.bind (fun p =>
      (Arr.matmulF (multiplyDiagonal p.2 p.1 1) p.2.daggerF).toOption.map (fun y =>
        (y.blocks.map (fun q => (q.1, q.2.data.toList)), y.phases, y.oddpos)))
    == some ([([(0, 0), (0, 0)], [2, 0, 0, 3]), ([(1, 0), (1, 0)], [-5])],
        [([(0, 0), (0, 0)], -1), ([(1, 0), (1, 0)], -1)], [])) = true := by
  decide +kernel

/-- `solve`: `C11.exSb` (odd, pending sign) with three labels; the solution and `a @ x` carry them -/
def exSb3 : Arr Int := { exSb with oddpos := [(7, true), (2, false), (5, false)] }

example : exSb3.validB = true ∧ SortedLabels exSb3.oddpos
    ∧ Kernels.solveCopy.SolvesOn exSa.phaseSync exSb3.phaseSync := by
  refine ⟨by decide +kernel, sortedLabels_ex, ?_⟩
  apply solveCopy_solvesOn
  intro s arr hm
  rw [phaseSync_blocks_nil _ rfl] at hm
  simp only [exSa, List.mem_cons, List.not_mem_nil, or_false, Prod.mk.injEq] at hm
  rcases hm with ⟨_, rfl⟩ | ⟨_, rfl⟩
  · exact ⟨1, rfl⟩
  · exact ⟨2, rfl⟩

example : ((solveA Kernels.solveCopy exSa exSb3).toOption.bind (fun x =>
      (Arr.matmulF exSa x).toOption.map (fun y =>
        (x.oddpos, x.phases, y.blocks.map (fun q => (q.1, q.2.data.toList)), y.phases, y.oddpos)))
    == some ([(7, true), (2, false), (5, false)], [([(1, 0)], -1)], [([(1, 0)], [-5, -6])], [],
        [(7, true), (2, false), (5, false)])) = true := by
  decide +kernel

end SymmModel.C11
