/-
  Property C04 (second clause) / C02 — ABELIAN two-step contraction IDENTIFIED WITH `einsumA`.
  Setting and vocabulary of Props/C04k.lean (`tsLhs`, `tsRhs`, `tsSurv`, `tsBox`).

  PROVED, `_partial`:
    `two_step_values_abelian_sorted_partial`  valid abelian `a`, `b`, the guards of `two_step_values`,
        `c = tensordotA a b (xa ~ xb)`, `c' = tensordotA a b (xa ++ ya ~ xb ++ yb)` (blockwise), and `ya`
        STRICTLY INCREASING: `einsumA c tsLhs tsRhs` SUCCEEDS with a result `e` that has
        the sector set of `c'`, the block shape of `c'` at every stored sector of `c'`, and the VALUE of `c'`
        at every key and every address of the un-pruned frame of the free legs (in particular at every
        stored address of `c'`).
    `einsum_form_sorted`  (auxiliary, what it says) the einsum data of the labels `tsLhs -> tsRhs` in their
        NON-canonical position: output permutation `tsRhs`, every traced label exactly twice, sector filter
        = equal charges at `tsPA` / `tsPB`, traced box = sizes of the legs `tsPA`.
  FULL STATEMENT (not proved): the same for EVERY order of `ya` (`einsumA` enumerates the traced labels in
      the order of their first positions `tsPA`, i.e. the traced box is the box of `ya` permuted by the
      sorting permutation of `ya`: needs re-indexing the box sum by that permutation; the generic lemmas of
      Proofs/TwoStepN1.lean are stated for `PA` increasing).
-/
import SymmModel.Props.C04k
import SymmModel.Proofs.TwoStepN2

namespace SymmModel.C04
open SymmModel SymmModel.GradedP SymmModel.TdotP SymmModel.AssocP SymmModel.TwoStepP
open SymmModel.Lazy (sgnI)

variable {R : Type}

/-- **einsum_form_sorted.**  The abelian einsum data of the two-step labels, `ya` strictly increasing. -/
theorem einsum_form_sorted (na nb : Nat) (xa xb ya yb : List Nat)
    (hnA : (xa ++ ya).Nodup) (hA : ∀ i ∈ xa ++ ya, i < na)
    (hnB : (xb ++ yb).Nodup) (hB : ∀ i ∈ xb ++ yb, i < nb) (hly : ya.length = yb.length)
    (hinc : ya.Pairwise (· < ·)) :
    einPerm? (tsLhs na nb xa xb ya yb) (tsRhs na nb xa xb ya yb) = .ok (tsRhs na nb xa xb ya yb)
    ∧ (einTracedPos (tsLhs na nb xa xb ya yb) (tsRhs na nb xa xb ya yb)).any (fun js => js.length != 2) = false
    ∧ (∀ s : Sector, s.length = tsN na nb xa xb →
        einKeep (tsLhs na nb xa xb ya yb) (tsRhs na nb xa xb ya yb) s
          = (permuted s (tsPA na xa ya) == permuted s (tsPB na nb xa xb yb)))
    ∧ (∀ shape : List Nat, shape.length = tsN na nb xa xb →
        (einTraced (tsLhs na nb xa xb ya yb) (tsRhs na nb xa xb ya yb)).map
            (einSize shape (tsLhs na nb xa xb ya yb)) = permuted shape (tsPA na xa ya)) := by
  have G := geo_ts hnA hA hnB hB hly
  have hK1 := tsPA_lt hnA hA
  have hK2 := tsPB_ge na nb xa xb yb
  have hP := tsPA_pairwise hnA hA hinc
  have hKN : (freeAxes na xa).length ≤ tsN na nb xa xb := by unfold tsN; omega
  exact ⟨einPerm?_g G hK1 hK2, einTracedPos_len2 G hK1 hK2 hP hKN,
    fun s hs => einKeep_g G hK1 hK2 hP hKN s hs, fun sh hs => einSize_traced G hK1 hK2 hP hKN sh hs⟩

/-- non-vacuity of `einsum_form_sorted`: ranks 3, 3, first `1 ~ 0`, then `2 ~ 1`; labels `[0, 4, 4, 3] -> [0, 3]`
    (the traced pair in the MIDDLE of the legs, not in front) -/
example : tsLhs 3 3 [1] [0] [2] [1] = [0, 4, 4, 3] ∧ tsRhs 3 3 [1] [0] [2] [1] = [0, 3]
    ∧ einPerm? (tsLhs 3 3 [1] [0] [2] [1]) (tsRhs 3 3 [1] [0] [2] [1]) = .ok (tsRhs 3 3 [1] [0] [2] [1]) :=
  ⟨by decide, by decide,
    (einsum_form_sorted 3 3 [1] [0] [2] [1] (by decide) (by decide) (by decide) (by decide) rfl (by simp)).1⟩

/-- **two_step_values_abelian_sorted_partial.**  Abelian `tensordotA` over part of the bond followed by
    `einsumA` over the remaining pairs = `tensordotA` over all pairs: the einsum succeeds, same sector set,
    same value at every key and every address of the un-pruned frame of the free legs.
    (`_partial`: `ya` strictly increasing — see the header.) -/
theorem two_step_values_abelian_sorted_partial [AddCommMonoid R] [Mul R] [Neg R] [SignRing R]
    (a b c c' : Arr R) (xa xb ya yb : List Nat)
    (ha : a.validB = true) (hb : b.validB = true) (hfa : a.fermi = false) (hfb : b.fermi = false)
    (g1 : tdotAdmissibleCommonB a b xa xb = true)
    (g2 : tdotAdmissibleCommonB a b (xa ++ ya) (xb ++ yb) = true)
    (h1 : tensordotA a b (.pair (xa.map Int.ofNat) (xb.map Int.ofNat)) .blockwise = .ok c)
    (h3 : tensordotA a b (.pair ((xa ++ ya).map Int.ofNat) ((xb ++ yb).map Int.ofNat)) .blockwise = .ok c')
    (hinc : ya.Pairwise (· < ·)) :
    ∃ e, einsumA c (tsLhs a.ndim b.ndim xa xb ya yb) (tsRhs a.ndim b.ndim xa xb ya yb) = .ok e
      ∧ (∀ s, s ∈ e.sectors ↔ s ∈ c'.sectors)
      ∧ (∀ s ∈ c'.sectors, Arr.blockShapeD e.indices s = Arr.blockShapeD c'.indices s)
      ∧ ∀ (s' : Sector) (fL fR : List Nat), fL.length = (freeAxes a.ndim (xa ++ ya)).length →
          inBox (Arr.blockShapeD (without a.indices (xa ++ ya) ++ without b.indices (xb ++ yb)) s')
            (fL ++ fR) = true →
          e.elem s' (fL ++ fR) = c'.elem s' (fL ++ fR) := by
  have W1 : AdmW (fz a) (fz b) xa xb := AdmW.of (fz_valid ha hfa) (fz_valid hb hfb) rfl rfl g1
  have W2 : AdmW (fz a) (fz b) (xa ++ ya) (xb ++ yb) :=
    AdmW.of (fz_valid ha hfa) (fz_valid hb hfb) rfl rfl g2
  have hsA := Arr.shapesOk_of_validB ha
  have hsB := Arr.shapesOk_of_validB hb
  have hA : Mid a.ndim xa ya := Mid.of W2.nA W2.ltA
  have hB : Mid b.ndim xb yb := Mid.of W2.nB W2.ltB
  have hly : ya.length = yb.length := by
    have := W2.len; rw [List.length_append, List.length_append] at this
    have := W1.len; omega
  have G := geo_ts (na := a.ndim) (nb := b.ndim) W2.nA W2.ltA W2.nB W2.ltB hly
  have hK1 := tsPA_lt (na := a.ndim) W2.nA W2.ltA
  have hK2 := tsPB_ge a.ndim b.ndim xa xb yb
  have hP := tsPA_pairwise (na := a.ndim) W2.nA W2.ltA hinc
  have hKN : (freeAxes a.ndim xa).length ≤ tsN a.ndim b.ndim xa xb := by unfold tsN; omega
  have h1' := h1
  have h3' := h3
  rw [C02.tensordotA_blockwise, ValidP.parseAxes_nat a.ndim b.ndim xa xb W1.len W1.ltA W1.ltB] at h1
  have h1c : tensordotBlockwise a b (freeAxes a.ndim xa) xa xb (freeAxes b.ndim xb) = c := Except.ok.inj h1
  subst h1c
  rw [C02.tensordotA_blockwise,
    ValidP.parseAxes_nat a.ndim b.ndim (xa ++ ya) (xb ++ yb) W2.len W2.ltA W2.ltB] at h3
  have h3c : tensordotBlockwise a b (freeAxes a.ndim (xa ++ ya)) (xa ++ ya) (xb ++ yb)
      (freeAxes b.ndim (xb ++ yb)) = c' := Except.ok.inj h3
  have hc := C02.tensordotBlockwise_sectors a b (freeAxes a.ndim xa) xa xb (freeAxes b.ndim xb)
  have lA : ∀ sa ∈ a.sectors, sa.length = a.ndim := fun sa h => (shape_of_mem hsA h).choose_spec.2.2.2
  have lB : ∀ sb ∈ b.sectors, sb.length = b.ndim := fun sb h => (shape_of_mem hsB h).choose_spec.2.2.2
  -- the intermediate is a valid abelian array
  have hv : (tensordotBlockwise a b (freeAxes a.ndim xa) xa xb (freeAxes b.ndim xb)).validB = true := by
    have := (ValidP.validB_iff _).mpr (ValidP.tensordotBlockwise_valid a b xa xb
      ((ValidP.validB_iff a).mp ha) ((ValidP.validB_iff b).mp hb) W1.sym hfa
      (Assoc3P.opposite_of_commonB W1.con) W1.nA W1.nB W1.ltA W1.ltB)
    rw [without_range, without_range] at this
    exact this
  have hpc := phases_of_abelian hv (show a.fermi = false from hfa)
  have hdc := Arr.allDistinct_of_validB hv
  have hsc := Arr.shapesOk_of_validB hv
  have lC : ∀ s ∈ (tensordotBlockwise a b (freeAxes a.ndim xa) xa xb (freeAxes b.ndim xb)).sectors,
      s.length = tsN a.ndim b.ndim xa xb := by
    intro s hs
    obtain ⟨sa, hsa, sb, hsb, _, rfl⟩ := (hc s).mp hs
    rw [List.length_append, TdotP.permuted_length _ _ (by rw [lA sa hsa]; exact hA.flt),
      TdotP.permuted_length _ _ (by rw [lB sb hsb]; exact hB.flt)]
    rfl
  have shL : ∀ s ∈ (tensordotBlockwise a b (freeAxes a.ndim xa) xa xb (freeAxes b.ndim xb)).sectors,
      (Arr.blockShapeD (tensordotBlockwise a b (freeAxes a.ndim xa) xa xb (freeAxes b.ndim xb)).indices
        s).length = tsN a.ndim b.ndim xa xb := by
    intro s hs
    obtain ⟨shp, _, e2, e3, e4⟩ := shape_of_mem hsc hs
    rw [e2, e3, ← e4, lC s hs]
  have shC : ∀ s ∈ (tensordotBlockwise a b (freeAxes a.ndim xa) xa xb (freeAxes b.ndim xb)).sectors,
      Arr.blockShapeD (tensordotBlockwise a b (freeAxes a.ndim xa) xa xb (freeAxes b.ndim xb)).indices s
        = Arr.blockShapeD (without a.indices xa ++ without b.indices xb) s := by
    intro s hs
    obtain ⟨p, hp, rfl⟩ := List.mem_map.mp hs
    have q1 := hsc p hp
    rw [Arr.blockShapeD, q1, ← TdotP.tensordotBlockwise_block_shape hsA hsB (show (p.1, p.2) ∈ _ from hp)]
    rfl
  have hperm : einPerm? (tsLhs a.ndim b.ndim xa xb ya yb) (tsRhs a.ndim b.ndim xa xb ya yb)
      = .ok (tsRhs a.ndim b.ndim xa xb ya yb) := einPerm?_g G hK1 hK2
  have h2 : (einTracedPos (tsLhs a.ndim b.ndim xa xb ya yb) (tsRhs a.ndim b.ndim xa xb ya yb)).any
      (fun js => js.length != 2) = false := einTracedPos_len2 G hK1 hK2 hP hKN
  have hkeep : ∀ s : Sector, s.length = tsN a.ndim b.ndim xa xb →
      einKeep (tsLhs a.ndim b.ndim xa xb ya yb) (tsRhs a.ndim b.ndim xa xb ya yb) s
        = (permuted s (tsPA a.ndim xa ya) == permuted s (tsPB a.ndim b.ndim xa xb yb)) :=
    fun s hs => einKeep_g G hK1 hK2 hP hKN s hs
  have hszT : ∀ shape : List Nat, shape.length = tsN a.ndim b.ndim xa xb →
      (einTraced (tsLhs a.ndim b.ndim xa xb ya yb) (tsRhs a.ndim b.ndim xa xb ya yb)).map
        (einSize shape (tsLhs a.ndim b.ndim xa xb ya yb)) = permuted shape (tsPA a.ndim xa ya) :=
    fun sh hs => einSize_traced G hK1 hK2 hP hKN sh hs
  have hszR : ∀ shape : List Nat, shape.length = tsN a.ndim b.ndim xa xb →
      (tsRhs a.ndim b.ndim xa xb ya yb).map (einSize shape (tsLhs a.ndim b.ndim xa xb ya yb))
        = permuted shape (tsRhs a.ndim b.ndim xa xb ya yb) :=
    fun sh hs => einSize_rhs G hK1 hK2 sh hs
  have hidx : ∀ Z o t : List Nat, Z.length = tsN a.ndim b.ndim xa xb →
      permuted Z (tsPA a.ndim xa ya) = t → permuted Z (tsPB a.ndim b.ndim xa xb yb) = t →
      permuted Z (tsRhs a.ndim b.ndim xa xb ya yb) = o →
      einIdx (tsLhs a.ndim b.ndim xa xb ya yb) (tsRhs a.ndim b.ndim xa xb ya yb) o t = Z :=
    fun Z o t hZ q1 q2 q3 => einIdx_g G hK1 hK2 hP hKN Z o t hZ q1 q2 q3
  have hE := einsumA_eq (tensordotBlockwise a b (freeAxes a.ndim xa) xa xb (freeAxes b.ndim xb))
    (tsLhs a.ndim b.ndim xa xb ya yb) (tsRhs a.ndim b.ndim xa xb ya yb) _ hperm h2
  refine ⟨_, hE, ?_, ?_, ?_⟩
  · intro s
    rw [two_step_sectors_abelian_partial a b _ c' xa xb ya yb ha hb hfa hfb g1 g2 h1' h3' s]
    show s ∈ akeys (accum (Blk.zipWith (· + ·)) (einTerms _ _ _ _)) ↔ _
    rw [einsumA_sectors, List.mem_eraseDups, List.mem_map]
    constructor
    · rintro ⟨s0, hs0, rfl⟩
      obtain ⟨m1, m2⟩ := List.mem_filter.mp hs0
      rw [hkeep s0 (lC s0 m1)] at m2
      exact ⟨s0, List.mem_filter.mpr ⟨m1, by rw [m2]; simp⟩⟩
    · rintro ⟨s0, hs0⟩
      obtain ⟨m1, m2⟩ := List.mem_filter.mp hs0
      simp only [Bool.and_eq_true, beq_iff_eq] at m2
      refine ⟨s0, List.mem_filter.mpr ⟨m1, ?_⟩, m2.2⟩
      rw [hkeep s0 (lC s0 m1), m2.1]; simp
  · intro s hs
    obtain ⟨s0, hs0⟩ := (two_step_sectors_abelian_partial a b _ c' xa xb ya yb ha hb hfa hfb g1 g2 h1' h3' s).mp hs
    obtain ⟨m1, m2⟩ := List.mem_filter.mp hs0
    simp only [Bool.and_eq_true, beq_iff_eq] at m2
    obtain ⟨shp, q1, q2, q3, q4⟩ := shape_of_mem hsc m1
    have hN : (tensordotBlockwise a b (freeAxes a.ndim xa) xa xb (freeAxes b.ndim xb)).indices.length
        = tsN a.ndim b.ndim xa xb := by
      have : (tensordotBlockwise a b (freeAxes a.ndim xa) xa xb (freeAxes b.ndim xb)).ndim
          = tsN a.ndim b.ndim xa xb := by rw [← q4, lC s0 m1]
      exact this
    have p1 := blockShape?_permuted q1 (tsRhs a.ndim b.ndim xa xb ya yb)
      (fun x hx => by rw [hN]; exact tsRhs_lt a.ndim b.ndim xa xb ya yb x hx)
    rw [m2.2] at p1
    have hL : Arr.blockShapeD (permuted (tensordotBlockwise a b (freeAxes a.ndim xa) xa xb
        (freeAxes b.ndim xb)).indices (tsRhs a.ndim b.ndim xa xb ya yb)) s
        = permuted shp (tsRhs a.ndim b.ndim xa xb ya yb) := by
      rw [Arr.blockShapeD, p1]; rfl
    show Arr.blockShapeD (permuted (tensordotBlockwise a b (freeAxes a.ndim xa) xa xb
        (freeAxes b.ndim xb)).indices (tsRhs a.ndim b.ndim xa xb ya yb)) s = _
    rw [hL, ← q2, shC s0 m1]
    obtain ⟨sa, hsa, sb, hsb, halx, rfl⟩ := (hc s0).mp m1
    obtain ⟨shA, _, eA2, eA3, _⟩ := shape_of_mem hsA hsa
    obtain ⟨shB, _, eB2, eB3, _⟩ := shape_of_mem hsB hsb
    have hk := m2.2
    rw [permuted_tsRhs hA hB sa sb (lA sa hsa) (lB sb hsb)] at hk
    rw [free_shape hsA hsB hsa hsb, permuted_tsRhs hA hB _ _ (by rw [eA2, eA3]) (by rw [eB2, eB3]),
      ← free_shape hsA hsB hsa hsb (xa ++ ya) (xb ++ yb), hk]
    subst h3c
    have hv' : (tensordotBlockwise a b (freeAxes a.ndim (xa ++ ya)) (xa ++ ya) (xb ++ yb)
        (freeAxes b.ndim (xb ++ yb))).validB = true := by
      have := (ValidP.validB_iff _).mpr (ValidP.tensordotBlockwise_valid a b (xa ++ ya) (xb ++ yb)
        ((ValidP.validB_iff a).mp ha) ((ValidP.validB_iff b).mp hb) W2.sym hfa
        (Assoc3P.opposite_of_commonB W2.con) W2.nA W2.nB W2.ltA W2.ltB)
      rw [without_range, without_range] at this
      exact this
    obtain ⟨p, hp, rfl⟩ := List.mem_map.mp hs
    have r1 := Arr.shapesOk_of_validB hv' p hp
    have r2 := TdotP.tensordotBlockwise_block_shape hsA hsB (show (p.1, p.2) ∈ _ from hp)
    rw [← r2, Arr.blockShapeD, r1]
    rfl
  · intro s' fL fR hfL hbox
    obtain ⟨e2, he2, _, _, hval⟩ := einsumA_elem'
      (tensordotBlockwise a b (freeAxes a.ndim xa) xa xb (freeAxes b.ndim xb))
      (tsLhs a.ndim b.ndim xa xb ya yb) (tsRhs a.ndim b.ndim xa xb ya yb) _ hperm h2 hpc hdc hsc s' (fL ++ fR)
      (by
        intro s hs _ hk
        rw [hszR _ (shL s hs), shC s hs]
        obtain ⟨sa, hsa, sb, hsb, halx, rfl⟩ := (hc s).mp hs
        obtain ⟨shA, _, eA2, eA3, _⟩ := shape_of_mem hsA hsa
        obtain ⟨shB, _, eB2, eB3, _⟩ := shape_of_mem hsB hsb
        rw [free_shape hsA hsB hsa hsb,
          permuted_tsRhs hA hB _ _ (by rw [eA2, eA3]) (by rw [eB2, eB3])]
        have hk' : permuted (permuted sa (freeAxes a.ndim xa) ++ permuted sb (freeAxes b.ndim xb))
          (tsRhs a.ndim b.ndim xa xb ya yb) = s' := hk
        rw [permuted_tsRhs hA hB sa sb (lA sa hsa) (lB sb hsb)] at hk'
        subst hk'
        rw [free_shape hsA hsB hsa hsb (xa ++ ya) (xb ++ yb)] at hbox
        exact hbox)
    rw [hE] at he2
    cases he2
    rw [hval, ← two_step_values_abelian_partial a b _ c' xa xb ya yb ha hb hfa hfb g1 g2 h1' h3' s' fL fR
      hfL hbox]
    have hfil : (tensordotBlockwise a b (freeAxes a.ndim xa) xa xb (freeAxes b.ndim xb)).sectors.filter
        (fun s => einKeep (tsLhs a.ndim b.ndim xa xb ya yb) (tsRhs a.ndim b.ndim xa xb ya yb) s
          && permuted s (tsRhs a.ndim b.ndim xa xb ya yb) == s')
        = tsSurv (tensordotBlockwise a b (freeAxes a.ndim xa) xa xb (freeAxes b.ndim xb))
            a.ndim b.ndim xa xb ya yb s' := by
      unfold tsSurv
      apply List.filter_congr
      intro s hs
      rw [hkeep s (lC s hs)]
    rw [hfil]
    apply sum_map_congr
    intro s hs
    have hsC := (List.mem_filter.mp hs).1
    rw [hszT _ (shL s hsC), shC s hsC]
    show ((allIdx (tsBox a b xa xb ya s)).map _).sum = _
    apply sum_map_congr
    intro t ht
    congr 1
    obtain ⟨sa, hsa, sb, hsb, halx, rfl⟩ := (hc s).mp hsC
    obtain ⟨hal, hk⟩ := (surv_mem (a := fz a) (b := fz b) W1 W2 hc s' hsa hsb halx.symm).mp hs
    have eB : tsBox a b xa xb ya (permuted sa (freeAxes a.ndim xa) ++ permuted sb (freeAxes b.ndim xb))
        = permuted (Arr.blockShapeD a.indices sa) ya := surv_box (a := fz a) (b := fz b) W2 hsa hsb
    rw [eB] at ht
    obtain ⟨shA, _, eA2, eA3, _⟩ := shape_of_mem hsA hsa
    obtain ⟨shB, _, eB2, eB3, _⟩ := shape_of_mem hsB hsb
    have htl : t.length = ya.length := by
      rw [inBox_length (mem_allIdx_iff.mp ht),
        TdotP.permuted_length _ _ (by rw [eA2, eA3]; exact hA.lt2)]
    have hk' : permuted sa (freeAxes a.ndim (xa ++ ya)) ++ permuted sb (freeAxes b.ndim (xb ++ yb)) = s' := hk
    subst hk'
    rw [free_shape hsA hsB hsa hsb (xa ++ ya) (xb ++ yb)] at hbox
    have hfR : fR.length = (freeAxes b.ndim (xb ++ yb)).length := by
      have q1 := inBox_length hbox
      rw [List.length_append, List.length_append,
        TdotP.permuted_length _ _ (by rw [eA2, eA3]; intro x hx; exact (mem_freeAxes.mp hx).1),
        TdotP.permuted_length _ _ (by rw [eB2, eB3]; intro x hx; exact (mem_freeAxes.mp hx).1)] at q1
      omega
    exact hidx _ _ _
      (by rw [List.length_append, asmSide_length, asmSide_length]; rfl)
      (permuted_asm_tsPA hA t fL _ htl)
      (permuted_asm_tsPB hB t fR _ (asmSide_length _ _ _ _ _) (by rw [htl, hly]))
      (permuted_asm_tsRhs hA hB t fL fR hfL hfR)

/-- non-vacuity: `exA`, `exB` of C02 (first `1 ~ 0`, then `2 ~ 1`; `ya = [2]` is increasing) satisfy the
    hypotheses; evaluation confirms that the einsum of the intermediate succeeds with the stored blocks of the
    one-step contraction (a non-zero value among them) -/
example :
    C02.exA.validB = true ∧ C02.exB.validB = true ∧ C02.exA.fermi = false ∧ C02.exB.fermi = false
    ∧ tdotAdmissibleCommonB C02.exA C02.exB [1] [0] = true
    ∧ tdotAdmissibleCommonB C02.exA C02.exB ([1] ++ [2]) ([0] ++ [1]) = true
    ∧ ([2] : List Nat).Pairwise (· < ·)
    ∧ (match tensordotA C02.exA C02.exB (.pair [1] [0]) .blockwise,
         tensordotA C02.exA C02.exB (.pair [1, 2] [0, 1]) .blockwise with
       | .ok c, .ok c' =>
         (match einsumA c (tsLhs 3 3 [1] [0] [2] [1]) (tsRhs 3 3 [1] [0] [2] [1]) with
          | .ok e => e.sectors == c'.sectors
              && e.blocks.map (fun p => (p.1, p.2.data)) == c'.blocks.map (fun p => (p.1, p.2.data))
              && c'.elem [C02.c0, C02.c0] [1, 0] != 0
          | .error _ => false)
       | _, _ => false) = true :=
  ⟨by decide +kernel, by decide +kernel, rfl, rfl, by decide +kernel, by decide +kernel, by simp,
    by decide +kernel⟩

/-- the theorem applies to this instance -/
example (c c' : Arr Int)
    (h1 : tensordotA C02.exA C02.exB (.pair ([1].map Int.ofNat) ([0].map Int.ofNat)) .blockwise = .ok c)
    (h3 : tensordotA C02.exA C02.exB (.pair (([1] ++ [2]).map Int.ofNat) (([0] ++ [1]).map Int.ofNat))
      .blockwise = .ok c') :
    ∃ e, einsumA c (tsLhs C02.exA.ndim C02.exB.ndim [1] [0] [2] [1])
        (tsRhs C02.exA.ndim C02.exB.ndim [1] [0] [2] [1]) = .ok e
      ∧ (∀ s, s ∈ e.sectors ↔ s ∈ c'.sectors)
      ∧ e.elem [C02.c0, C02.c0] ([1] ++ [0]) = c'.elem [C02.c0, C02.c0] ([1] ++ [0]) := by
  obtain ⟨e, q1, q2, _, q3⟩ := two_step_values_abelian_sorted_partial C02.exA C02.exB c c' [1] [0] [2] [1]
    (by decide +kernel) (by decide +kernel) rfl rfl (by decide +kernel) (by decide +kernel) h1 h3 (by simp)
  exact ⟨e, q1, q2, q3 [C02.c0, C02.c0] [1] [0] (by decide +kernel) (by decide +kernel)⟩

end SymmModel.C04
