/-
  C06 (sixth part) — more forms of "contraction commutes with fusing".

  * `tensordot_fuse_contracted_commute` — C06's FIRST clause as a statement about the public
    operations (abelian): align the operands (`drop_misaligned_sectors`), fuse the contracted legs
    `xa` of the left operand into ONE leg and the contracted legs `xb` of the right operand into
    ONE leg (public `fuse`, either strategy, free legs untouched; `_fuse_core` puts the fused leg at
    the smallest contracted axis, `bondPos`), contract the SINGLE fused pair with the public
    `tensordot` — all calls succeed, and at EVERY address of the free legs' table box (stored or
    not) the result holds the element of `tensordot(a, b, (xa, xb))` over the original pairs.
    The addresses on both sides are literally the same (the free legs keep their order).  Sparse
    operands whose present sectors differ, any number / order of contracted axes, an operand that
    is contracted completely (no free legs) included.
  * `fuse_contracted_aligned` — the same one level down, for any aligned pair (`TdotP.Ctx0`; the
    operands after `dropMisaligned` are such a pair: `aligned_ctx0`).
  * `fuse_group_elem` — the element map of the public `fuse` of ONE group of legs at an ARBITRARY
    position, legs in any order, WITHOUT a preliminary transposition, either strategy: the fused
    array at any address of its table box holds the original's element at the address whose group
    part is what the fused index's own table decodes the fused leg's `(charge, offset)` to and
    whose free part is copied.  (`fuse_elem_any_groups`: the same for any number of groups.)
  * concat strategy: `tensordot_fuse_commute_concat`, `tensordot_fuse_free_commute_concat`,
    `tensordot_fuse_free_commute_fermionic_concat` — C06e's fuse-commute theorems with every
    `fuse` call in `mode = concat` (transfer through `C05.fuseA_concat_eq_insert` /
    `C05.fuseF_concat_eq_insert`).
  * `fuse_contracted_aligned_any_mode` — the contraction of the pre-fused operands over the single
    fused pair in `mode = fused / auto`: succeeds, stores every blockwise sector, and every stored
    entry is the element of the contraction over the original pairs;
    `tensordot_fuse_contracted_commute_any_mode`: the same for the public route from `a`, `b`.
  NOT proved here: fusing a free-leg group at an arbitrary position / trailing legs of the right
  operand BEFORE vs AFTER the contraction without the preliminary transposition (the brick
  `fuse_group_elem` is what each side needs; missing is the renumbering of the contracted axes
  through an arbitrary group position); the fermionic two-sided form and the fermionic version
  of `tensordot_fuse_contracted_commute` (the fermionic fuse signs of the two bond groups and the
  Koszul signs of the two contractions have to be matched).
-/
import SymmModel.Props.C06All4
import SymmModel.Proofs.FuseCommute4

namespace SymmModel.C06
open SymmModel SymmModel.TdotP SymmModel.GradedP SymmModel.RoutesP SymmModel.AssocP
open SymmModel.Assoc3P SymmModel.Assoc4P

variable {R : Type}

/-! ## one group at an arbitrary position: element map of the public `fuse` -/

/-- **fuse_elem_any_groups**: `fuse(X, G)` (any admissible groups, either strategy) at EVERY
    address `(ns, i)` of its table box. -/
theorem fuse_elem_any_groups [Zero R] [Neg R] (X : Arr R) (G : List (List Nat)) (m : FuseMode)
    (hv : X.validB = true) (hf : X.fermi = false) (hg : FuseP.groupsOkB G X.ndim = true) :
    fuseA X G m false = .ok (FuseP.fusedArrM X G)
    ∧ ∀ (ns : Sector) (i shp : List Nat) (s : Sector) (offs : List Nat),
        Arr.blockShape? (FuseP.fusedArrM X G).indices ns = some shp → inBox shp i = true →
        s.length = X.ndim → offs.length = X.ndim →
        (∀ g gaxes, G[g]? = some gaxes →
          decAx X G g (ns.getD ((FuseP.giM X G).position + g) (0, 0)) (i.getD ((FuseP.giM X G).position + g) 0)
            = some (permuted s gaxes, permuted offs gaxes)) →
        (∀ x, x < (FuseP.giM X G).position →
          ns.getD x (0, 0) = s.getD x (0, 0) ∧ i.getD x 0 = offs.getD x 0) →
        (∀ j, j < (FuseP.giM X G).axesAfter.length →
          ns.getD ((FuseP.giM X G).position + G.length + j) (0, 0)
              = s.getD ((FuseP.giM X G).axesAfter.getD j 0) (0, 0)
          ∧ i.getD ((FuseP.giM X G).position + G.length + j) 0
              = offs.getD ((FuseP.giM X G).axesAfter.getD j 0) 0) →
        (FuseP.fusedArrM X G).elem ns i = X.elem s offs := by
  have hok := FuseP.groupsOk_iff.1 hg
  refine ⟨fuseA_any_mode X G m hv hok, ?_⟩
  intro ns i shp s offs hshp hbox hs ho hdec hbef haft
  exact multi_elem (FuseP.validArr_of_validB hv) (phases_nil_of_validB hv hf) hok hshp hbox hs ho hdec
    hbef haft

/-- **fuse_group_elem** (one group `g` of legs anywhere, any order, no preliminary
    transposition).  `p = bondPos X g = min g` is where the fused leg sits; the other legs keep
    their order (`freeAxes`).  At every address `(ns, i)` of the fused array's table box: if the
    fused leg's `(charge, offset)` decodes — through the fused index's own table — to the
    `g`-part of `(s, offs)` and the other entries of `(ns, i)` are the free part of `(s, offs)`,
    the fused array holds `X`'s element at `(s, offs)`. -/
theorem fuse_group_elem [Zero R] [Neg R] (X : Arr R) (g : List Nat) (m : FuseMode)
    (hv : X.validB = true) (hf : X.fermi = false)
    (hne : g ≠ []) (hnd : g.Nodup) (hlt : ∀ x ∈ g, x < X.ndim) :
    fuseA X [g] m false = .ok (FuseP.fusedArrM X [g])
    ∧ bondPos X g ∈ g ∧ (∀ x ∈ g, bondPos X g ≤ x)
    ∧ (FuseP.fusedArrM X [g]).ndim = bondPos X g + 1 + ((freeAxes X.ndim g).length - bondPos X g)
    ∧ ∀ (ns : Sector) (i shp : List Nat) (s : Sector) (offs : List Nat),
        Arr.blockShape? (FuseP.fusedArrM X [g]).indices ns = some shp → inBox shp i = true →
        s.length = X.ndim → offs.length = X.ndim →
        decAx X [g] 0 (ns.getD (bondPos X g) (0, 0)) (i.getD (bondPos X g) 0)
          = some (permuted s g, permuted offs g) →
        permuted ns (freeAxes (FuseP.fusedArrM X [g]).ndim [bondPos X g]) = permuted s (freeAxes X.ndim g) →
        permuted i (freeAxes (FuseP.fusedArrM X [g]).ndim [bondPos X g]) = permuted offs (freeAxes X.ndim g) →
        (FuseP.fusedArrM X [g]).elem ns i = X.elem s offs := by
  have h : OneOk X g := ⟨hne, hnd, hlt⟩
  refine ⟨fuseA_any_mode X [g] m hv h.groupsOk, one_pos_mem h, one_pos_le h, ?_, ?_⟩
  · rw [one_ndim h, one_ndimM h, one_free h]
    simp [bondPos]
  · intro ns i shp s offs hshp hbox hs ho hdec hfS hfO
    rw [one_ndim h] at hfS hfO
    exact one_elem (FuseP.validArr_of_validB hv) (phases_nil_of_validB hv hf) h hshp hbox hs ho hdec hfS hfO

/-! ## C06, first clause: fuse the contracted legs, contract the single fused pair -/

/-- the operands after `dropMisaligned` form an aligned pair (no condition on the free legs) -/
theorem aligned_ctx0 (a b : Arr R) (xa xb : List Nat)
    (ha : a.validB = true) (hb : b.validB = true) (hfa : a.fermi = false) (hfb : b.fermi = false)
    (hsym : a.sym = b.sym) (hc : ValidP.contractibleB a b xa xb = true)
    (hnA : xa.Nodup) (hnB : xb.Nodup) (hA : ∀ x ∈ xa, x < a.ndim) (hB : ∀ x ∈ xb, x < b.ndim) :
    Ctx0 (dropMisaligned a b xa xb).1 (dropMisaligned a b xa xb).2 xa xb :=
  ctx0_of_dropMisaligned a b xa xb ha hb hfa hfb hsym hc hnA hnB hA hB

/-- **fuse_contracted_aligned**: for an aligned pair `A`, `B`: `fuse(A, xa)`, `fuse(B, xb)`
    (either strategy) succeed, the public `tensordot` over the single fused pair is the blockwise
    contraction of the fused operands, and at every address `(Ls ++ Rs, oL ++ oR)` of the free legs'
    table box it holds the element of the contraction of `A`, `B` over the original pairs. -/
theorem fuse_contracted_aligned [AddCommMonoid R] [Mul R] [Neg R]
    (hz1 : ∀ x : R, 0 * x = 0) (hz2 : ∀ x : R, x * 0 = 0) {A B : Arr R} {xa xb : List Nat}
    (h : Ctx0 A B xa xb) (hne : xa ≠ []) (m1 m2 : FuseMode) :
    fuseA A [xa] m1 false = .ok (FuseP.fusedArrM A [xa])
    ∧ fuseA B [xb] m2 false = .ok (FuseP.fusedArrM B [xb])
    ∧ (FuseP.fusedArrM A [xa]).validB = true ∧ (FuseP.fusedArrM B [xb]).validB = true
    ∧ bondPos A xa ∈ xa ∧ bondPos B xb ∈ xb
    ∧ tensordotA (FuseP.fusedArrM A [xa]) (FuseP.fusedArrM B [xb])
        (.pair [Int.ofNat (bondPos A xa)] [Int.ofNat (bondPos B xb)]) .blockwise
        = .ok (tensordotBlockwise (FuseP.fusedArrM A [xa]) (FuseP.fusedArrM B [xb])
            (freeAxes (FuseP.fusedArrM A [xa]).ndim [bondPos A xa]) [bondPos A xa] [bondPos B xb]
            (freeAxes (FuseP.fusedArrM B [xb]).ndim [bondPos B xb]))
    ∧ ∀ (Ls Rs : Sector) (oL oR shpL shpR : List Nat),
        Arr.blockShape? (permuted A.indices (freeAxes A.ndim xa)) Ls = some shpL → inBox shpL oL = true →
        Arr.blockShape? (permuted B.indices (freeAxes B.ndim xb)) Rs = some shpR → inBox shpR oR = true →
        (tensordotBlockwise (FuseP.fusedArrM A [xa]) (FuseP.fusedArrM B [xb])
            (freeAxes (FuseP.fusedArrM A [xa]).ndim [bondPos A xa]) [bondPos A xa] [bondPos B xb]
            (freeAxes (FuseP.fusedArrM B [xb]).ndim [bondPos B xb])).elem (Ls ++ Rs) (oL ++ oR)
          = (tensordotBlockwise A B (freeAxes A.ndim xa) xa xb (freeAxes B.ndim xb)).elem
              (Ls ++ Rs) (oL ++ oR) := by
  have oA := h.oneA hne
  have oB := h.oneB hne
  refine ⟨fuseA_any_mode A [xa] m1 h.vA oA.groupsOk, fuseA_any_mode B [xb] m2 h.vB oB.groupsOk,
    one_validB h.vA h.fA oA, one_validB h.vB h.fB oB, one_pos_mem oA, one_pos_mem oB, ?_, ?_⟩
  · apply tensordotA_blockwise_ok
    have := ValidP.parseAxes_nat (FuseP.fusedArrM A [xa]).ndim (FuseP.fusedArrM B [xb]).ndim
      [bondPos A xa] [bondPos B xb] rfl
      (by intro i hi
          simp only [List.mem_cons, List.not_mem_nil, or_false] at hi
          rw [hi, one_ndim oA]; exact one_pos_lt_ndimM oA)
      (by intro i hi
          simp only [List.mem_cons, List.not_mem_nil, or_false] at hi
          rw [hi, one_ndim oB]; exact one_pos_lt_ndimM oB)
    simpa using this
  · intro Ls Rs oL oR shpL shpR h1 h2 h3 h4
    exact bond_fuse_core hz1 hz2 h hne h1 h2 h3 h4

/-- **tensordot_fuse_contracted_commute** (C06, first clause; abelian; public operations).
    `a`, `b` valid abelian arrays of one symmetry, contracted legs `xa` / `xb` with matching charge
    tables and opposite directions, at least one pair.  With `(a', b') = drop_misaligned_sectors`:
    `fuse(a', xa)` and `fuse(b', xb)` succeed (strategy `m1` / `m2`), `tensordot` of the two fused
    arrays over the single fused pair `(bondPos a' xa, bondPos b' xb)` succeeds, `tensordot(a, b)`
    over the original pairs succeeds, and the two results agree at every address of the free
    legs' table box (tables of the aligned operands; every stored sector of either result lies
    there). -/
theorem tensordot_fuse_contracted_commute [AddCommMonoid R] [Mul R] [Neg R]
    (hz1 : ∀ x : R, 0 * x = 0) (hz2 : ∀ x : R, x * 0 = 0) (a b : Arr R) (xa xb : List Nat)
    (ha : a.validB = true) (hb : b.validB = true) (hfa : a.fermi = false) (hfb : b.fermi = false)
    (hsym : a.sym = b.sym) (hc : ValidP.contractibleB a b xa xb = true)
    (hnA : xa.Nodup) (hnB : xb.Nodup) (hA : ∀ x ∈ xa, x < a.ndim) (hB : ∀ x ∈ xb, x < b.ndim)
    (hne : xa ≠ []) (m1 m2 : FuseMode) :
    ∃ af bf cf c,
      fuseA (dropMisaligned a b xa xb).1 [xa] m1 false = .ok af
      ∧ fuseA (dropMisaligned a b xa xb).2 [xb] m2 false = .ok bf
      ∧ tensordotA af bf (.pair [Int.ofNat (bondPos (dropMisaligned a b xa xb).1 xa)]
            [Int.ofNat (bondPos (dropMisaligned a b xa xb).2 xb)]) .blockwise = .ok cf
      ∧ tensordotA a b (.pair (xa.map Int.ofNat) (xb.map Int.ofNat)) .blockwise = .ok c
      ∧ af.validB = true ∧ bf.validB = true
      ∧ af.ndim + xa.length = a.ndim + 1 ∧ bf.ndim + xb.length = b.ndim + 1
      ∧ ∀ (Ls Rs : Sector) (oL oR shpL shpR : List Nat),
          Arr.blockShape? (permuted (dropMisaligned a b xa xb).1.indices (freeAxes a.ndim xa)) Ls = some shpL →
          inBox shpL oL = true →
          Arr.blockShape? (permuted (dropMisaligned a b xa xb).2.indices (freeAxes b.ndim xb)) Rs = some shpR →
          inBox shpR oR = true →
          cf.elem (Ls ++ Rs) (oL ++ oR) = c.elem (Ls ++ Rs) (oL ++ oR) := by
  obtain ⟨n1, n2⟩ := dropMisaligned_ndim a b xa xb
  have h := aligned_ctx0 a b xa xb ha hb hfa hfb hsym hc hnA hnB hA hB
  obtain ⟨f1, f2, v1, v2, _, _, t1, hel⟩ := fuse_contracted_aligned hz1 hz2 h hne m1 m2
  have hlen : xa.length = xb.length := h.len
  have oA := h.oneA hne
  have oB := h.oneB hne
  refine ⟨_, _, _, _, f1, f2, t1,
    tensordotA_blockwise_ok a b _ xa xb (ValidP.parseAxes_nat a.ndim b.ndim xa xb hlen hA hB),
    v1, v2, ?_, ?_, ?_⟩
  · rw [one_ndim oA, one_ndimM oA, ← n1]
    have e1 : (freeAxes (dropMisaligned a b xa xb).1.ndim xa).length + xa.length
        = (dropMisaligned a b xa xb).1.ndim := by
      have := (ValidP.without_append_perm (n := (dropMisaligned a b xa xb).1.ndim) h.nA h.rA).length_eq
      rw [without_range] at this
      simpa [Nat.add_comm] using this
    have e2 := congrArg List.length (one_free oA)
    simp only [List.length_append, List.length_range] at e2
    omega
  · rw [one_ndim oB, one_ndimM oB, ← n2]
    have e1 : (freeAxes (dropMisaligned a b xa xb).2.ndim xb).length + xb.length
        = (dropMisaligned a b xa xb).2.ndim := by
      have := (ValidP.without_append_perm (n := (dropMisaligned a b xa xb).2.ndim) h.nB h.rB).length_eq
      rw [without_range] at this
      simpa [Nat.add_comm] using this
    have e2 := congrArg List.length (one_free oB)
    simp only [List.length_append, List.length_range] at e2
    omega
  · intro Ls Rs oL oR shpL shpR h1 h2 h3 h4
    rw [← n1] at h1
    rw [← n2] at h3
    rw [hel Ls Rs oL oR shpL shpR h1 h2 h3 h4, n1, n2]
    have hph : a.phases = [] := phases_nil_of_validB ha hfa
    rw [Arr.elem_of_phases_nil (show (tensordotBlockwise (dropMisaligned a b xa xb).1
          (dropMisaligned a b xa xb).2 (freeAxes a.ndim xa) xa xb (freeAxes b.ndim xb)).phases = [] from hph),
      Arr.elem_of_phases_nil (show (tensordotBlockwise a b (freeAxes a.ndim xa) xa xb
          (freeAxes b.ndim xb)).phases = [] from hph),
      tensordotBlockwise_blocks_dropMisaligned]

/-- **fuse_contracted_aligned_any_mode**: the contraction of the two pre-fused operands over the
    single fused pair with the public `tensordot` in `mode = fused` or `auto` succeeds; every sector
    of the blockwise result is stored, and EVERY STORED ENTRY equals the element of the contraction
    of `A`, `B` over the original pairs at that address (so a stored sector the plain result lacks
    is an all-zero block). -/
theorem fuse_contracted_aligned_any_mode [AddCommMonoid R] [Mul R] [Neg R]
    (hz1 : ∀ x : R, 0 * x = 0) (hz2 : ∀ x : R, x * 0 = 0) {A B : Arr R} {xa xb : List Nat}
    (h : Ctx0 A B xa xb) (hne : xa ≠ []) (mode : TdotMode) (hmode : mode = .fused ∨ mode = .auto) :
    ∃ cm, tensordotA (FuseP.fusedArrM A [xa]) (FuseP.fusedArrM B [xb])
        (.pair [Int.ofNat (bondPos A xa)] [Int.ofNat (bondPos B xb)]) mode = .ok cm
      ∧ (∀ s ∈ (tensordotBlockwise (FuseP.fusedArrM A [xa]) (FuseP.fusedArrM B [xb])
            (freeAxes (FuseP.fusedArrM A [xa]).ndim [bondPos A xa]) [bondPos A xa] [bondPos B xb]
            (freeAxes (FuseP.fusedArrM B [xb]).ndim [bondPos B xb])).sectors, s ∈ cm.sectors)
      ∧ ∀ K V, alookup cm.blocks K = some V → ∀ J, inBox V.shape J = true →
          cm.elem K J = (tensordotBlockwise A B (freeAxes A.ndim xa) xa xb (freeAxes B.ndim xb)).elem K J := by
  have oA := h.oneA hne
  have oB := h.oneB hne
  have gA0 : ([xa] : List (List Nat))[0]? = some xa := rfl
  have gB0 : ([xb] : List (List Nat))[0]? = some xb := rfl
  obtain ⟨_, _, v1, v2, _, _, t1, hel⟩ := fuse_contracted_aligned hz1 hz2 h hne .insert .insert
  obtain ⟨bm1, _, bm3⟩ := h.bond_match oA.groupsOk oB.groupsOk gA0 gB0
  have hrA : ∀ x ∈ ([bondPos A xa] : List Nat), x < (FuseP.fusedArrM A [xa]).ndim := by
    intro i hi
    simp only [List.mem_cons, List.not_mem_nil, or_false] at hi
    rw [hi, one_ndim oA]; exact one_pos_lt_ndimM oA
  have hrB : ∀ x ∈ ([bondPos B xb] : List Nat), x < (FuseP.fusedArrM B [xb]).ndim := by
    intro i hi
    simp only [List.mem_cons, List.not_mem_nil, or_false] at hi
    rw [hi, one_ndim oB]; exact one_pos_lt_ndimM oB
  have hparse := ValidP.parseAxes_nat (FuseP.fusedArrM A [xa]).ndim (FuseP.fusedArrM B [xb]).ndim
      [bondPos A xa] [bondPos B xb] rfl hrA hrB
  have hc : ValidP.contractibleB (FuseP.fusedArrM A [xa]) (FuseP.fusedArrM B [xb]) [bondPos A xa] [bondPos B xb]
      = true := by
    have e1 : (FuseP.fusedArrM A [xa]).indices.getD (bondPos A xa) default = FuseP.ixM A [xa] 0 := rfl
    have e2 : (FuseP.fusedArrM B [xb]).indices.getD (bondPos B xb) default = FuseP.ixM B [xb] 0 := rfl
    simp only [ValidP.contractibleB, List.length_cons, List.length_nil, beq_self_eq_true, List.zip_cons_cons,
      List.zip_nil_right, List.all_cons, List.all_nil, Bool.and_true, Bool.true_and, e1, e2, bm1, bm3,
      bne_iff_ne, ne_eq]
    cases (FuseP.ixM B [xb] 0).dual <;> simp
  obtain ⟨c, bw, k1, k2, k3, _, _, _, _, _, _, _, k11, _, k13, k14⟩ :=
    tensordotA_modes_agree_all hz1 hz2 (FuseP.fusedArrM A [xa]) (FuseP.fusedArrM B [xb])
      (.pair ([bondPos A xa].map Int.ofNat) ([bondPos B xb].map Int.ofNat)) [bondPos A xa] [bondPos B xb] hparse
      v1 v2 h.fA h.fB h.sym hc (by simp) (by simp) hrA hrB
  simp only [List.map_cons, List.map_nil] at k1 k2 k3
  rw [t1] at k2
  obtain rfl := Except.ok.inj k2
  have hcall : tensordotA (FuseP.fusedArrM A [xa]) (FuseP.fusedArrM B [xb])
      (.pair [Int.ofNat (bondPos A xa)] [Int.ofNat (bondPos B xb)]) mode = .ok c := by
    rcases hmode with rfl | rfl
    · exact k1
    · exact k3 (by simp)
  refine ⟨c, hcall, k11, ?_⟩
  intro K V hK J hJ
  rw [k13 K V hK J hJ]
  -- the address lies in the free legs' table box
  have hs := k14 K V hK
  have eFA : (FuseP.fusedArrM A [xa]).indices.length = (FuseP.fusedArrM A [xa]).ndim := rfl
  have eFB : (FuseP.fusedArrM B [xb]).indices.length = (FuseP.fusedArrM B [xb]).ndim := rfl
  have ean : A.indices.length = A.ndim := rfl
  have ebn : B.indices.length = B.ndim := rfl
  have iA : permuted (FuseP.fusedArrM A [xa]).indices (freeAxes (FuseP.fusedArrM A [xa]).ndim [bondPos A xa])
      = permuted A.indices (freeAxes A.ndim xa) := by
    rw [one_ndim oA]; exact one_free_indices oA
  have iB : permuted (FuseP.fusedArrM B [xb]).indices (freeAxes (FuseP.fusedArrM B [xb]).ndim [bondPos B xb])
      = permuted B.indices (freeAxes B.ndim xb) := by
    rw [one_ndim oB]; exact one_free_indices oB
  rw [without_eq_permuted_freeAxes, without_eq_permuted_freeAxes, eFA, eFB, iA, iB] at hs
  have hLl : (permuted A.indices (freeAxes A.ndim xa)).length = (freeAxes A.ndim xa).length :=
    permuted_length _ _ (by simpa [ean] using mem_freeAxes_lt)
  have hKl : K.length = (freeAxes A.ndim xa).length + (permuted B.indices (freeAxes B.ndim xb)).length := by
    rw [(blockShape?_length hs).1, List.length_append, hLl]
  rw [← List.take_append_drop (freeAxes A.ndim xa).length K] at hs
  obtain ⟨p, q, hpq, hp, hq⟩ := TdotP.blockShape?_split (by rw [List.length_take, hLl]; omega) hs
  have hpl : p.length = (freeAxes A.ndim xa).length := by rw [(blockShape?_length hp).2, hLl]
  rw [hpq] at hJ
  have hJl : J.length = p.length + q.length := by rw [inBox_length hJ, List.length_append]
  rw [← List.take_append_drop p.length J, inBox_append (by rw [List.length_take]; omega)] at hJ
  simp only [Bool.and_eq_true] at hJ
  have := hel _ _ _ _ _ _ hp hJ.1 hq hJ.2
  rw [List.take_append_drop, List.take_append_drop] at this
  exact this

/-- **tensordot_fuse_contracted_commute_any_mode** (public operations): as
    `tensordot_fuse_contracted_commute`, with the contraction of the pre-fused operands in
    `mode = fused` or `auto` (the default): it succeeds and every stored entry of its result is the
    element of `tensordot(a, b)` over the original pairs (blockwise) at that address. -/
theorem tensordot_fuse_contracted_commute_any_mode [AddCommMonoid R] [Mul R] [Neg R]
    (hz1 : ∀ x : R, 0 * x = 0) (hz2 : ∀ x : R, x * 0 = 0) (a b : Arr R) (xa xb : List Nat)
    (ha : a.validB = true) (hb : b.validB = true) (hfa : a.fermi = false) (hfb : b.fermi = false)
    (hsym : a.sym = b.sym) (hc : ValidP.contractibleB a b xa xb = true)
    (hnA : xa.Nodup) (hnB : xb.Nodup) (hA : ∀ x ∈ xa, x < a.ndim) (hB : ∀ x ∈ xb, x < b.ndim)
    (hne : xa ≠ []) (m1 m2 : FuseMode) (mode : TdotMode) (hmode : mode = .fused ∨ mode = .auto) :
    ∃ af bf cm c,
      fuseA (dropMisaligned a b xa xb).1 [xa] m1 false = .ok af
      ∧ fuseA (dropMisaligned a b xa xb).2 [xb] m2 false = .ok bf
      ∧ tensordotA af bf (.pair [Int.ofNat (bondPos (dropMisaligned a b xa xb).1 xa)]
            [Int.ofNat (bondPos (dropMisaligned a b xa xb).2 xb)]) mode = .ok cm
      ∧ tensordotA a b (.pair (xa.map Int.ofNat) (xb.map Int.ofNat)) .blockwise = .ok c
      ∧ ∀ K V, alookup cm.blocks K = some V → ∀ J, inBox V.shape J = true → cm.elem K J = c.elem K J := by
  obtain ⟨n1, n2⟩ := dropMisaligned_ndim a b xa xb
  have h := aligned_ctx0 a b xa xb ha hb hfa hfb hsym hc hnA hnB hA hB
  obtain ⟨f1, f2, _⟩ := fuse_contracted_aligned hz1 hz2 h hne m1 m2
  obtain ⟨cm, t1, _, hel⟩ := fuse_contracted_aligned_any_mode hz1 hz2 h hne mode hmode
  refine ⟨_, _, cm, _, f1, f2, t1,
    tensordotA_blockwise_ok a b _ xa xb (ValidP.parseAxes_nat a.ndim b.ndim xa xb h.len hA hB), ?_⟩
  intro K V hK J hJ
  rw [hel K V hK J hJ, n1, n2]
  have hph : a.phases = [] := phases_nil_of_validB ha hfa
  rw [Arr.elem_of_phases_nil (show (tensordotBlockwise (dropMisaligned a b xa xb).1
        (dropMisaligned a b xa xb).2 (freeAxes a.ndim xa) xa xb (freeAxes b.ndim xb)).phases = [] from hph),
    Arr.elem_of_phases_nil (show (tensordotBlockwise a b (freeAxes a.ndim xa) xa xb
        (freeAxes b.ndim xb)).phases = [] from hph),
    tensordotBlockwise_blocks_dropMisaligned]

/-! ## the concat strategy -/

/-- **tensordot_fuse_commute_concat**: `tensordot_fuse_commute` (C06e) with all three `fuse`
    calls in `mode = concat`: they succeed with the SAME arrays as with `mode = insert`, so the
    element statement of `tensordot_fuse_commute` is about them verbatim. -/
theorem tensordot_fuse_commute_concat [AddCommMonoid R] [Mul R] [Neg R]
    (hz1 : ∀ x : R, 0 * x = 0) (hz2 : ∀ x : R, x * 0 = 0) {A B : Arr R} {xa xb : List Nat}
    (h : FusedCtx A B xa xb) :
    fuseA A [freeAxes A.ndim xa, xa] .concat false = fuseA A [freeAxes A.ndim xa, xa] .insert false
    ∧ fuseA B [xb, freeAxes B.ndim xb] .concat false = fuseA B [xb, freeAxes B.ndim xb] .insert false
    ∧ fuseA (cPlain A B xa xb) [resL A xa, resR A B xa xb] .concat false
        = fuseA (cPlain A B xa xb) [resL A xa, resR A B xa xb] .insert false
    ∧ fuseA A [freeAxes A.ndim xa, xa] .concat false = .ok (FuseP.fusedArrM A [freeAxes A.ndim xa, xa])
    ∧ fuseA B [xb, freeAxes B.ndim xb] .concat false = .ok (FuseP.fusedArrM B [xb, freeAxes B.ndim xb])
    ∧ fuseA (cPlain A B xa xb) [resL A xa, resR A B xa xb] .concat false
        = .ok (FuseP.fusedArrM (cPlain A B xa xb) [resL A xa, resR A B xa xb]) := by
  have k1 := fuseA_any_mode A _ .concat h.vA h.pairA.groupsOk
  have k2 := fuseA_any_mode B _ .concat h.vB h.pairB.groupsOk
  have k3 := fuseA_any_mode (cPlain A B xa xb) _ .concat h.cPlain_validB h.cPlain_pair.groupsOk
  obtain ⟨i1, i2, i3, _⟩ := tensordot_fuse_commute hz1 hz2 h
  exact ⟨k1.trans i1.symm, k2.trans i2.symm, k3.trans i3.symm, k1, k2, k3⟩

/-- **tensordot_fuse_free_commute_concat**: `tensordot_fuse_free_commute` (C06e; leading free legs
    of the left operand, operands not aligned) with both `fuse` calls in `mode = concat`. -/
theorem tensordot_fuse_free_commute_concat [AddCommMonoid R] [Mul R] [Neg R]
    (hz1 : ∀ x : R, 0 * x = 0) (hz2 : ∀ x : R, x * 0 = 0) (a b : Arr R) (xa xb : List Nat) (k : Nat)
    (ha : a.validB = true) (hb : b.validB = true) (hfa : a.fermi = false) (hfb : b.fermi = false)
    (hsym : a.sym = b.sym) (hopp : ValidP.oppositeDualsB a b xa xb = true)
    (hnA : xa.Nodup) (hnB : xb.Nodup) (hA : ∀ x ∈ xa, x < a.ndim) (hB : ∀ x ∈ xb, x < b.ndim)
    (hk1 : 1 ≤ k) (hk : k ≤ a.ndim) (hxa : ∀ x ∈ xa, k ≤ x) :
    fuseA a [List.range k] .concat false = .ok (FuseP.fusedArrM a [List.range k])
    ∧ fuseA (cPlain a b xa xb) [List.range k] .concat false
        = .ok (FuseP.fusedArrM (cPlain a b xa xb) [List.range k])
    ∧ ∀ (c0 c2 : Charge) (i0 d0 i2 d2 : Nat) (S rest : Sector) (O orest shp : List Nat),
        decAx a [List.range k] 0 c0 i0 = some (S, O) →
        (FuseP.ixM a [List.range k] 0).sizeOf? c0 = some d0 → i0 < d0 →
        decAx (cPlain a b xa xb) [List.range k] 0 c2 i2 = some (S, O) →
        (FuseP.ixM (cPlain a b xa xb) [List.range k] 0).sizeOf? c2 = some d2 → i2 < d2 →
        Arr.blockShape? ((cPlain a b xa xb).indices.drop k) rest = some shp → inBox shp orest = true →
        (tensordotBlockwise (FuseP.fusedArrM a [List.range k]) b
            (freeAxes (1 + (a.ndim - k)) (xa.map (sh k))) (xa.map (sh k)) xb (freeAxes b.ndim xb)).elem
            (c0 :: rest) (i0 :: orest)
          = (FuseP.fusedArrM (cPlain a b xa xb) [List.range k]).elem (c2 :: rest) (i2 :: orest) := by
  obtain ⟨hvc, hkc, _⟩ := lead_commute_result hz1 hz2 a b xa xb k ha hb hfa hfb hsym hopp hnA hnB hA hB
    hk1 hk hxa
  obtain ⟨_, _, hel⟩ := tensordot_fuse_free_commute hz1 hz2 a b xa xb k ha hb hfa hfb hsym hopp hnA hnB
    hA hB hk1 hk hxa
  refine ⟨fuseA_any_mode a _ .concat ha (lead_groupsOk hk1 hk),
    fuseA_any_mode _ _ .concat hvc (lead_groupsOk hk1 hkc), ?_⟩
  intro c0 c2 i0 d0 i2 d2 S rest O orest shp h1 h2 h3 h4 h5 h6 h7 h8
  exact (hel c0 c2 i0 d0 i2 d2 S rest O orest shp h1 h2 h3 h4 h5 h6 h7 h8).1

/-- **tensordot_fuse_free_commute_fermionic_concat**: in `tensordot_fuse_free_commute_fermionic`
    (and `…_any_mode`) the two fermionic `fuse` calls may use `mode = concat`: same results.
    (`hvc`, `hfc`: the contraction result is a valid fermionic array — a hypothesis here, what the
    validity theorems for `tensordotF` provide; see the example at the end.) -/
theorem tensordot_fuse_free_commute_fermionic_concat [AddCommMonoid R] [Mul R] [Neg R] [SignRing R]
    (hz1 : ∀ x : R, 0 * x = 0) (hz2 : ∀ x : R, x * 0 = 0) (a b cm : Arr R) (xa xb : List Nat) (k : Nat)
    (e : Bool) (m1 : TdotMode)
    (ha : a.validB = true) (hb : b.validB = true) (hfa : a.fermi = true) (hfb : b.fermi = true)
    (hadm : tdotAdmissibleCommonB a b xa xb = true)
    (hk1 : 1 ≤ k) (hk : k ≤ a.ndim) (hxa : ∀ x ∈ xa, k ≤ x)
    (hcm : a.tensordotF b (.pair (xa.map Int.ofNat) (xb.map Int.ofNat)) m1 = .ok cm)
    (hvc : cm.validB = true) (hfc : cm.fermi = true) :
    a.fuseF [List.range k] .concat e
        = .ok (FuseP.fusedArrM (FuseP.signAdj a [List.range k]) [List.range k])
    ∧ cm.fuseF [List.range k] .concat e
        = .ok (FuseP.fusedArrM (FuseP.signAdj cm [List.range k]) [List.range k]) := by
  obtain ⟨i1, i2, hkc, _⟩ := tensordot_fuse_free_commute_fermionic_any_mode hz1 hz2 a b cm xa xb k e m1 .blockwise
    ha hb hfa hfb hadm hk1 hk hxa hcm
  have hne : ([List.range k] : List (List Nat)) ≠ [] := by simp
  constructor
  · rw [C05.fuseF_concat_eq_insert a _ e ha hfa (FuseP.groupsOk_iff.2 (lead_groupsOk hk1 hk)) hne]
    exact i1
  · rw [C05.fuseF_concat_eq_insert cm _ e hvc hfc (FuseP.groupsOk_iff.2 (lead_groupsOk hk1 hkc)) hne]
    exact i2

/-! ### non-vacuity and sanity -/

-- `exA[i,j,k]`, `exB[j',k',m]` (C06): two contracted pairs, sparse operands whose present sectors
-- differ (each has a sector without partner)
example : exA.validB = true ∧ exB.validB = true ∧ exA.fermi = false ∧ exB.fermi = false
    ∧ exA.sym = exB.sym ∧ ValidP.contractibleB exA exB [1, 2] [0, 1] = true
    ∧ ([1, 2] : List Nat).Nodup ∧ ([0, 1] : List Nat).Nodup
    ∧ (∀ x ∈ ([1, 2] : List Nat), x < exA.ndim) ∧ (∀ x ∈ ([0, 1] : List Nat), x < exB.ndim)
    ∧ (dropMisaligned exA exB [1, 2] [0, 1]).1.blocks.length = 2
    ∧ bondPos (dropMisaligned exA exB [1, 2] [0, 1]).1 [1, 2] = 1
    ∧ bondPos (dropMisaligned exA exB [1, 2] [0, 1]).2 [0, 1] = 0 := by decide +kernel

example : Ctx0 (dropMisaligned exA exB [1, 2] [0, 1]).1 (dropMisaligned exA exB [1, 2] [0, 1]).2 [1, 2] [0, 1] :=
  aligned_ctx0 exA exB [1, 2] [0, 1] (by decide +kernel) (by decide +kernel) rfl rfl rfl (by decide +kernel)
    (by decide) (by decide) (by decide) (by decide)

-- sanity: the route align → fuse (one with insert, one with concat) → contract the single fused
-- pair gives exactly the blocks of the contraction over the two original pairs here
example :
    (match fuseA (dropMisaligned exA exB [1, 2] [0, 1]).1 [[1, 2]] .insert false,
           fuseA (dropMisaligned exA exB [1, 2] [0, 1]).2 [[0, 1]] .concat false with
     | .ok af, .ok bf =>
        match tensordotA af bf (.pair [1] [0]) .blockwise, tensordotA exA exB (.pair [1, 2] [0, 1]) .blockwise with
        | .ok cf, .ok c =>
          cf.blocks.all (fun p => (alookup c.blocks p.1).map (·.data) == some p.2.data)
          && c.blocks.all (fun p => (alookup cf.blocks p.1).map (·.data) == some p.2.data)
          && cf.blocks.length == c.blocks.length && cf.blocks.length != 0
          && af.ndim == 2 && bf.ndim == 2
        | _, _ => false
     | _, _ => false) = true := by decide +kernel

-- the same route with the contraction of the pre-fused operands in fused / auto mode: every stored
-- non-zero block is a block of the contraction over the original pairs and vice versa
example :
    (match fuseA (dropMisaligned exA exB [1, 2] [0, 1]).1 [[1, 2]] .concat false,
           fuseA (dropMisaligned exA exB [1, 2] [0, 1]).2 [[0, 1]] .insert false with
     | .ok af, .ok bf =>
        match tensordotA af bf (.pair [1] [0]) .fused, tensordotA af bf (.pair [1] [0]) .auto,
              tensordotA exA exB (.pair [1, 2] [0, 1]) .blockwise with
        | .ok cf, .ok ca, .ok c =>
          cf.blocks.all (fun p => p.2.data.all (· == 0) || (alookup c.blocks p.1).map (·.data) == some p.2.data)
          && ca.blocks.all (fun p => p.2.data.all (· == 0) || (alookup c.blocks p.1).map (·.data) == some p.2.data)
          && c.blocks.all (fun p => (alookup cf.blocks p.1).map (·.data) == some p.2.data)
          && c.blocks.length != 0
        | _, _, _ => false
     | _, _ => false) = true := by decide +kernel

-- one group in the middle / at the end, legs in reversed order: `fuse(exA, [2, 1])`
example : exA.validB = true ∧ exA.fermi = false ∧ ([2, 1] : List Nat).Nodup
    ∧ (∀ x ∈ ([2, 1] : List Nat), x < exA.ndim) ∧ bondPos exA [2, 1] = 1
    ∧ FuseP.groupsOkB [[2, 1]] exA.ndim = true := by decide +kernel

-- fermionic concat transfer: the hypotheses on the contraction result hold for C06e's example pair
example : (match C03.gA.tensordotF C04.cB (.pair [2] [0]) .blockwise with
    | .ok c => c.validB && c.fermi
    | _ => false) = true := by decide +kernel

end SymmModel.C06
