/-
  Property C01 — umbrella: Props/C01.lean (structural operations, contraction, decompositions,
  fuse/unfuse in insert mode, `Prog.preserves_valid`) and Props/C01b.lean (constructors, fuse in
  concat mode, einsum, reshape, solve, svd_truncated, align_axes, `Prog.preserves_valid_all`).
-/
import SymmModel.Props.C01
import SymmModel.Props.C01b
import SymmModel.Props.C01c
import SymmModel.Props.C01d
