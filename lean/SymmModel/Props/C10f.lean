/-
  Property C10, network clause, round 4 — the six bracketings B1, B2, S1–S4 of the norm network
  `{a, b, ā, b̄}` with EVERY contraction call in its own mode: `blockwise`, `fused` or `auto` (norms in
  practice run in the default `auto` → `fused` mode).

  `a`, `b` as in C10e: valid fermionic, bonded along `xa`/`xb` (`tdotAdmissibleB`), sorted distinct
  ket labels passing `netLabelsB` (always true for at most one label per tensor:
  `network_norm_bracketings_any_mode_oneKet`).  `K` is the BLOCKWISE contraction `a·b` (the
  reference for `normSq`); `Km = a·b` in mode `mK`, `Kbm = ā·b̄` in mode `mKb`; the remaining ten
  calls run in the modes `md 0 … md 9`.  Scalars: `AddCommMonoid`, `NetLaws`, `AssocLaws`.

  `network_norm_bracketings_any_mode` (the full statement for these six bracketings in any modes):
    B1  (Kbm·Km)            = normSq K      B2  (Km·Kbm)            = normSq' K
    S1  ((Kbm·a)·b)         = normSq K      S2  ā·(b̄·Km)           = normSq K
    S3  ((Km·ā)·b̄)         = normSq' K     S4  a·(b·Kbm)           = normSq' K
  every call succeeds; every final result has rank 0, no labels, no stray sign.
  Proof: a fused / auto result is a zero-padded, differently pruned copy (`TdotP.Pad`) of the
  blockwise result of the same call (`TdotP.call_w`), the blockwise call on padded operands is a
  padded copy of the blockwise call on the plain ones (`TdotP.pad_blockwise`), and a rank-0 padded
  copy has the same scalar (`pad_elem_nil`).  The weak guards of all calls on padded operands:
  `half_any_mode_guard` (a half of any mode against the other half and against the single tensors)
  and `second_call_guard` (the second call of a triangle from the frame `InterW` of an intermediate
  of any mode — `TdotP.admW_left_tri/right_tri` with weak hypotheses).

  NOT COVERED (remaining):
  * mixed operand orders of the halves (`(b̄·ā)·(a·b)`, `((ā·b̄)·b)·a`): the plan is unchanged —
    `Eqv (b̄·ā) (transposeF (ā·b̄) rot)` from `C04.tdotF_swap_weak` with `NormNet.tdot_sectors`,
    `NormNet.keys_swap` (sector sets) and `dropUnused` under the rotation (index tables), then
    `C04.tdotF_congr_eqv` and S6 (`C04.tdotF_pretranspose`) — not done in this round (the budget
    went into the any-mode statement for all six bracketings);
  * `netLabelsB` as a theorem for arbitrary sorted ket lists (decidable hypothesis; proved for at
    most one label per tensor);
  * bracketings that first contract a ket with a bra tensor; three-tensor chains.
-/
import SymmModel.Proofs.NormNet20
import SymmModel.Props.C10e
import SymmModel.Props.C06e

namespace SymmModel.C10
open SymmModel Lazy Norm NormNet TdotP

/-! ## the guards of the calls on operands of any mode -/

/-- a half `X` of any mode (valid; index tables `SizeLe`-prunings of the conjugated frame of `p·q`)
    satisfies the weak guard against `p` and against `q`, in both operand orders -/
theorem half_any_mode_guard {R : Type} (X p q : Arr R) (xp xq : List Nat)
    (hX : List.Forall₂ SizeLe X.indices ((without p.indices xp ++ without q.indices xq).map Index.conj))
    (hv : X.validB = true) (hp : p.validB = true) (hq : q.validB = true) :
    (AssocP.contractibleCommonB X p (List.range (freeAxes p.ndim xp).length) (freeAxes p.ndim xp) = true
      ∧ AssocP.contractibleCommonB p X (freeAxes p.ndim xp) (List.range (freeAxes p.ndim xp).length)
          = true)
    ∧ (AssocP.contractibleCommonB X q
          ((List.range (freeAxes q.ndim xq).length).map ((freeAxes p.ndim xp).length + ·))
          (freeAxes q.ndim xq) = true
      ∧ AssocP.contractibleCommonB q X (freeAxes q.ndim xq)
          ((List.range (freeAxes q.ndim xq).length).map ((freeAxes p.ndim xp).length + ·)) = true) :=
  ⟨commonS_Xp X p q xp xq hX (keys_nodup_of_validB hv) hp,
   commonS_Xq X p q xp xq hX (keys_nodup_of_validB hv) hq⟩

/-- the second calls of a triangle `A–B–C` under weak guards, from the frame (`InterW`) of an
    intermediate result of ANY mode -/
theorem second_call_guard {R : Type} [AddMonoid R] [Mul R] [Neg R] [GradedP.SignRing R]
    {A B C AB BC : Arr R} {xa1 xa3 xb1 xb2 xc2 xc3 : List Nat}
    (T : Assoc3P.TriW A B C xa1 xa3 xb1 xb2 xc2 xc3) :
    (InterW A B xa1 xb1 AB →
      AssocP.AdmW AB C (Assoc2P.axesAB A.ndim B.ndim xa1 xa3 xb1 xb2) (xc3 ++ xc2))
    ∧ (InterW B C xb2 xc2 BC →
      AssocP.AdmW A BC (xa1 ++ xa3) (Assoc2P.axesBC B.ndim C.ndim xb1 xb2 xc2 xc3)) :=
  ⟨fun I => admW_left_tri_w I T, fun I => admW_right_tri_w I T⟩

/-- a rank-0 zero-padded copy has the same scalar -/
theorem pad_elem_nil {R : Type} [Zero R] [Neg R] {P Q : Arr R} (hp : Pad P Q) (hn : P.ndim = 0) :
    P.elem [] [] = Q.elem [] [] := NormNet.pad_elem_nil hp hn

/-! ## the six bracketings in any modes -/

section main
variable {R : Type} [AddCommMonoid R] [Mul R] [Neg R] [Conj R] [NetLaws R] [AssocP.AssocLaws R]

/-- **network_norm_bracketings_any_mode.**  All twelve calls of the six bracketings, each in its
    own mode, succeed; the six results are rank-0 arrays without labels with value `normSq K`
    (bra side left) resp. `normSq' K` (bra side right), `K` the blockwise `a·b`. -/
theorem network_norm_bracketings_any_mode (a b : Arr R) (xa xb : List Nat)
    (ha : a.validB = true) (hb : b.validB = true) (hfa : a.fermi = true) (hfb : b.fermi = true)
    (hadm : ValidP.tdotAdmissibleB a b xa xb = true)
    (hoA : KetLabels a.oddpos) (hoB : KetLabels b.oddpos)
    (hd : (a.oddpos ++ b.oddpos).Pairwise (fun x y => x.1 ≠ y.1))
    (hlab : netLabelsB a.parity b.parity a.oddpos b.oddpos = true)
    (mK mKb : TdotMode) (md : Nat → TdotMode) :
    ∃ K Km Kbm, a.tensordotF b (.pair (xa.map Int.ofNat) (xb.map Int.ofNat)) .blockwise = .ok K
      ∧ a.tensordotF b (.pair (xa.map Int.ofNat) (xb.map Int.ofNat)) mK = .ok Km
      ∧ (NormNet.braOf a xa).tensordotF (NormNet.braOf b xb)
          (.pair (xa.map Int.ofNat) (xb.map Int.ofNat)) mKb = .ok Kbm
      -- B1, B2
      ∧ (∃ r, Kbm.tensordotF Km (allAxes K.ndim) (md 0) = .ok r
          ∧ r.ndim = 0 ∧ r.oddpos = [] ∧ r.elem [] [] = normSq K)
      ∧ (∃ r, Km.tensordotF Kbm (allAxes K.ndim) (md 1) = .ok r
          ∧ r.ndim = 0 ∧ r.oddpos = [] ∧ r.elem [] [] = normSq' K)
      -- S1
      ∧ (∃ T c, Kbm.tensordotF a (.pair ((List.range (freeAxes a.ndim xa).length).map Int.ofNat)
            ((freeAxes a.ndim xa).map Int.ofNat)) (md 2) = .ok T
        ∧ T.tensordotF b (.pair ((axesTW a.ndim b.ndim xa xb).map Int.ofNat)
            ((freeAxes b.ndim xb ++ xb).map Int.ofNat)) (md 3) = .ok c
        ∧ c.ndim = 0 ∧ c.oddpos = [] ∧ c.elem [] [] = normSq K)
      -- S2
      ∧ (∃ T c, (NormNet.braOf b xb).tensordotF Km (.pair ((freeAxes b.ndim xb).map Int.ofNat)
            (((List.range (freeAxes b.ndim xb).length).map ((freeAxes a.ndim xa).length + ·)).map
              Int.ofNat)) (md 4) = .ok T
        ∧ (NormNet.braOf a xa).tensordotF T (.pair ((xa ++ freeAxes a.ndim xa).map Int.ofNat)
            ((axesTWr a.ndim b.ndim xa xb).map Int.ofNat)) (md 5) = .ok c
        ∧ c.ndim = 0 ∧ c.oddpos = [] ∧ c.elem [] [] = normSq K)
      -- S3
      ∧ (∃ T c, Km.tensordotF (NormNet.braOf a xa)
            (.pair ((List.range (freeAxes a.ndim xa).length).map Int.ofNat)
            ((freeAxes a.ndim xa).map Int.ofNat)) (md 6) = .ok T
        ∧ T.tensordotF (NormNet.braOf b xb) (.pair ((axesTW a.ndim b.ndim xa xb).map Int.ofNat)
            ((freeAxes b.ndim xb ++ xb).map Int.ofNat)) (md 7) = .ok c
        ∧ c.ndim = 0 ∧ c.oddpos = [] ∧ c.elem [] [] = normSq' K)
      -- S4
      ∧ (∃ T c, b.tensordotF Kbm (.pair ((freeAxes b.ndim xb).map Int.ofNat)
            (((List.range (freeAxes b.ndim xb).length).map ((freeAxes a.ndim xa).length + ·)).map
              Int.ofNat)) (md 8) = .ok T
        ∧ a.tensordotF T (.pair ((xa ++ freeAxes a.ndim xa).map Int.ofNat)
            ((axesTWr a.ndim b.ndim xa xb).map Int.ofNat)) (md 9) = .ok c
        ∧ c.ndim = 0 ∧ c.oddpos = [] ∧ c.elem [] [] = normSq' K) :=
  network_norm_bracketings6M a b xa xb ha hb hfa hfb hadm hoA hoB hd hlab mK mKb md

/-- at most one ket label per tensor (the case of harness/props/c10.py): no label hypothesis;
    `Bracketings6M` abbreviates the conclusion of `network_norm_bracketings_any_mode` -/
theorem network_norm_bracketings_any_mode_oneKet (a b : Arr R) (xa xb : List Nat)
    (ha : a.validB = true) (hb : b.validB = true) (hfa : a.fermi = true) (hfb : b.fermi = true)
    (hadm : ValidP.tdotAdmissibleB a b xa xb = true)
    (hoA : OneKet a.oddpos) (hoB : OneKet b.oddpos)
    (hd : (a.oddpos ++ b.oddpos).Pairwise (fun x y => x.1 ≠ y.1))
    (mK mKb : TdotMode) (md : Nat → TdotMode) : Bracketings6M a b xa xb mK mKb md :=
  network_norm_bracketings6M a b xa xb ha hb hfa hfb hadm hoA.ketLabels hoB.ketLabels hd
    (netLabelsB_of_oneKet ha hb hfa hfb hoA hoB hd) mK mKb md

/-- the default mode everywhere: all twelve calls in `mode = auto` -/
theorem network_norm_bracketings_auto (a b : Arr R) (xa xb : List Nat)
    (ha : a.validB = true) (hb : b.validB = true) (hfa : a.fermi = true) (hfb : b.fermi = true)
    (hadm : ValidP.tdotAdmissibleB a b xa xb = true)
    (hoA : OneKet a.oddpos) (hoB : OneKet b.oddpos)
    (hd : (a.oddpos ++ b.oddpos).Pairwise (fun x y => x.1 ≠ y.1)) :
    Bracketings6M a b xa xb .auto .auto (fun _ => .auto) :=
  network_norm_bracketings_any_mode_oneKet a b xa xb ha hb hfa hfb hadm hoA hoB hd _ _ _

/-- B1, B2 alone need no label check and no `AssocLaws` beyond `0·x = x·0 = 0` -/
theorem network_norm_halves_any_mode {R : Type} [AddCommMonoid R] [Mul R] [Neg R] [Conj R]
    [NetLaws R] (hz1 : ∀ x : R, 0 * x = 0) (hz2 : ∀ x : R, x * 0 = 0)
    (a b : Arr R) (xa xb : List Nat)
    (ha : a.validB = true) (hb : b.validB = true) (hfa : a.fermi = true) (hfb : b.fermi = true)
    (hadm : ValidP.tdotAdmissibleB a b xa xb = true)
    (hoA : KetLabels a.oddpos) (hoB : KetLabels b.oddpos)
    (hd : (a.oddpos ++ b.oddpos).Pairwise (fun x y => x.1 ≠ y.1)) (m1 m2 m3 m4 : TdotMode) :
    ∃ K Km Kbm r r', a.tensordotF b (.pair (xa.map Int.ofNat) (xb.map Int.ofNat)) .blockwise = .ok K
      ∧ a.tensordotF b (.pair (xa.map Int.ofNat) (xb.map Int.ofNat)) m1 = .ok Km
      ∧ (NormNet.braOf a xa).tensordotF (NormNet.braOf b xb)
          (.pair (xa.map Int.ofNat) (xb.map Int.ofNat)) m2 = .ok Kbm
      ∧ Km.ndim = K.ndim ∧ Kbm.ndim = K.ndim
      ∧ Kbm.tensordotF Km (allAxes K.ndim) m3 = .ok r
      ∧ r.ndim = 0 ∧ r.oddpos = [] ∧ r.elem [] [] = normSq K
      ∧ Km.tensordotF Kbm (allAxes K.ndim) m4 = .ok r'
      ∧ r'.ndim = 0 ∧ r'.oddpos = [] ∧ r'.elem [] [] = normSq' K :=
  NormNet.network_norm_halves_any_mode hz1 hz2 a b xa xb ha hb hfa hfb hadm hoA hoB hd m1 m2 m3 m4

end main

/-! ## non-vacuity -/

open scoped SymmModel.Lazy

/-- the pruned network `gAs`, `gB` of C10d in the default mode everywhere -/
example : Bracketings6M gAs C03.gB [2] [0] .auto .auto (fun _ => .auto) :=
  network_norm_bracketings_auto gAs C03.gB [2] [0] (by decide +kernel) (by decide +kernel) rfl rfl
    (by decide +kernel) (Or.inr ⟨1, rfl⟩) (Or.inr ⟨3, rfl⟩) (by decide)

/-- mixed modes: halves fused / blockwise, the other calls alternating -/
example : Bracketings6M C03.gA C03.gB [1, 2] [1, 0] .fused .blockwise
    (fun i => if i % 2 = 0 then .fused else .auto) :=
  network_norm_bracketings_any_mode_oneKet C03.gA C03.gB [1, 2] [1, 0] (by decide +kernel)
    (by decide +kernel) rfl rfl (by decide +kernel) (Or.inr ⟨1, rfl⟩) (Or.inr ⟨3, rfl⟩) (by decide)
    _ _ _

/-- the values of B1 and S1 of a concrete network with every call in mode `m`, and `normSq K` of the
    blockwise `K` -/
def modeVals (a b : Arr Int) (xa xb : List Nat) (m : TdotMode) : List Int :=
  let fA := freeAxes a.ndim xa
  let fB := freeAxes b.ndim xb
  let P (x y : List Nat) : AxesArg := .pair (x.map Int.ofNat) (y.map Int.ofNat)
  let val (r : Except Err (Arr Int)) : Int := match r with | .ok c => c.elem [] [] | .error _ => -1
  match a.tensordotF b (P xa xb) .blockwise, a.tensordotF b (P xa xb) m,
      (NormNet.braOf a xa).tensordotF (NormNet.braOf b xb) (P xa xb) m with
  | .ok K, .ok Km, .ok Kbm =>
    [ val (Kbm.tensordotF Km (P (List.range K.ndim) (List.range K.ndim)) m),
      val (do let T ← Kbm.tensordotF a (P (List.range fA.length) fA) m
              T.tensordotF b (P (axesTW a.ndim b.ndim xa xb) (fB ++ xb)) m),
      normSq K ]
  | _, _, _ => []

example : modeVals gAs C03.gB [2] [0] .fused = [2174, 2174, 2174] := by decide +kernel

end SymmModel.C10
