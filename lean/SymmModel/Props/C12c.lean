/-
  Property C12, part c — `solve_dense`: for abelian arrays the dense form of `x = solve(a, b)`
  solves the dense linear system, `dense(a) · dense(x) = dense(b)`.

  Composition of C11 `solve_solves` (blockwise `a · x = b` on the paired blocks) with C02
  `tensordotBlockwise_dense_entry` (the blockwise contraction densifies to `np.tensordot`) and the
  bridge `toDenseA_get` (C08).
-/
import SymmModel.Props.C11
import SymmModel.Props.C02b
import SymmModel.Props.C12
import SymmModel.Proofs.DenseMore

namespace SymmModel.C12
open SymmModel

variable {R : Type}

theorem dual_conj (ix : Index) : (Index.conj ix).dual = !ix.dual := by
  cases ix with
  | mk c d s => cases s with
    | none => rfl
    | some se => obtain ⟨subs, ext⟩ := se; rfl

/-- **solve_dense.**  `a` a valid abelian matrix, `b` a valid abelian vector over the same
    symmetry whose index carries `a`'s row table and direction, no empty charge table, the solve
    kernel correct on the block pairs the call forms (`K.SolvesOn a b`), and every stored sector of
    `b` reached by a stored block of `a` (a block of `b` whose row charge no block of `a` has cannot
    be reproduced by any `x`; `solve` ignores it).  Then with `x = solve(a, b)`:
    all three dense forms exist and `Σ_k A[p, k] · X[k] = B[p]` for every row `p`. -/
theorem solve_dense [AddCommMonoid R] [Mul R] [Neg R]
    (hz1 : ∀ x : R, 0 * x = 0) (hz2 : ∀ x : R, x * 0 = 0) (K : Kernels R) (hK : K.ShapeOk)
    (a b x : Arr R) (hva : a.validB = true) (hvb : b.validB = true)
    (hfa : a.fermi = false) (hfb : b.fermi = false) (hsym : a.sym = b.sym)
    (hidx : b.indices.map Index.cm = [(a.indices.getD 0 default).cm])
    (hdir : (b.indices.getD 0 default).dual = (a.indices.getD 0 default).dual)
    (hea : a.indices.any (fun ix => ix.cm.isEmpty) = false)
    (hS : K.SolvesOn a b) (h : solveA K a b = .ok x)
    (hreach : ∀ c bb, alookup b.blocks [c] = some bb → ∃ s ∈ a.sectors, s.getD 0 (0, 0) = c) :
    ∃ dA dX dB, a.toDenseA = .ok dA ∧ x.toDenseA = .ok dX ∧ b.toDenseA = .ok dB
      ∧ dA.shape = a.shape ∧ dX.shape = [a.shape.getD 1 0] ∧ dB.shape = [a.shape.getD 0 0]
      ∧ ∀ p, p < a.shape.getD 0 0 →
          ((List.range (a.shape.getD 1 0)).map (fun k => dA.get [p, k] * dX.get [k])).sum
            = dB.get [p] := by
  -- structure of the operands and of the solution
  obtain ⟨h2, h1, hvx, _, hxi, _, hxf, _⟩ := LinalgLemmas.solveA_spec hK hva hvb hsym (by rw [hfa, hfb]) hdir
    (fun hf => by rw [hfa] at hf; cases hf) h
  obtain ⟨i0, i1, hai⟩ := LinalgLemmas.ndim_two h2
  have hxf' : x.fermi = false := by rw [hxf, hfb]
  have hxi' : x.indices = [i1.conj] := by rw [hxi, hai]; rfl
  have hbp : b.phases = [] := TdotP.phases_nil_of_validB hvb hfb
  have hap : a.phases = [] := TdotP.phases_nil_of_validB hva hfa
  have hcm0 : b.indices.map Index.cm = [i0.cm] := by rw [hidx, hai]; rfl
  simp only [hai, List.any_cons, List.any_nil, Bool.or_false, Bool.or_eq_false_iff] at hea
  have hashape : a.shape = [i0.sizeTotal, i1.sizeTotal] := by simp [Arr.shape, hai]
  have hxshape : x.shape = [i1.sizeTotal] := by
    simp [Arr.shape, hxi', Arr.sizeTotal_eq_of_cm (Arr.cm_conj i1)]
  have hc : ValidP.contractibleB a x [1] [0] = true := by
    simp [ValidP.contractibleB, hai, hxi']
  have hex : x.indices.any (fun ix => ix.cm.isEmpty) = false := by
    simp [hxi', hea.2]
  have heb : b.indices.any (fun ix => ix.cm.isEmpty) = false := by
    have := Arr.noEmpty_congr (idx := [i0]) (idx' := b.indices) (by simpa using hcm0)
    rw [this]; simp [hea.1]
  -- the dense contraction
  obtain ⟨dA, dX, dC, hA, hX, hC, hentry⟩ := C02.tensordotBlockwise_dense_entry hz1 hz2 a x [1] [0]
    hva hvx hfa hxf' hc (by decide) (by decide) (by simp [h2]) (by simp [Arr.ndim, hxi'])
    (by simp [C02.NoEmpty, hai, hea.1, hea.2]) hex
  obtain ⟨dA', hA', hAs, _⟩ := Arr.toDenseA_get a (by simp [hai, hea.1, hea.2])
  rw [hA] at hA'; injection hA' with hA'; subst hA'
  obtain ⟨dX', hX', hXs, _⟩ := Arr.toDenseA_get x hex
  rw [hX] at hX'; injection hX' with hX'; subst hX'
  obtain ⟨dB, hB, hBs, hBg⟩ := Arr.toDenseA_get b heb
  have hbshape : b.shape = [i0.sizeTotal] := by
    have := Arr.shape_congr (idx := [i0]) (idx' := b.indices) (by simpa using hcm0)
    simpa [Arr.shape] using this
  refine ⟨dA, dX, dB, hA, hX, hB, hAs, by rw [hXs, hxshape, hashape]; rfl,
    by rw [hBs, hbshape, hashape]; rfl, ?_⟩
  intro p hp
  rw [hashape] at hp
  simp only [List.getD_cons_zero] at hp
  have hndx : x.ndim = 1 := by simp [Arr.ndim, hxi']
  have hsum : dC.get [p]
      = ((List.range (a.shape.getD 1 0)).map (fun k => dA.get [p, k] * dX.get [k])).sum := by
    have := hentry [p] [] (by
        rw [h2, hashape]
        show inBox [i0.sizeTotal] [p] = true
        simp [inBox, hp]) (by
        rw [hndx, hxshape]; rfl)
    rw [List.append_nil] at this
    rw [this, h2, hndx, hashape]
    show ((allIdx [i1.sizeTotal]).map _).sum = _
    rw [DenseP.allIdx_one, List.map_map]
    rfl
  rw [← hsum]
  -- both sides through the value view at the address of position `p`
  have hci : (TdotP.tensordotUnpruned a x [1] [0]).indices = [i0] := by
    show without a.indices [1] ++ without x.indices [0] = [i0]
    rw [hai, hxi']; rfl
  obtain ⟨dC', hC', _, hCg⟩ := Arr.toDenseA_get (TdotP.tensordotUnpruned a x [1] [0])
    (by rw [hci]; simp [hea.1])
  rw [hC] at hC'; injection hC' with hC'; subst hC'
  have hpbox : inBox [i0.sizeTotal] [p] = true := by simp [inBox, hp]
  obtain ⟨sec, off, hloc, hcv⟩ := hCg [p] (by
    show inBox ((TdotP.tensordotUnpruned a x [1] [0]).indices.map Index.sizeTotal) [p] = true
    rw [hci]; exact hpbox)
  obtain ⟨sec', off', hloc', hbv⟩ := hBg [p] (by rw [hbshape]; exact hpbox)
  rw [hci] at hloc
  rw [Arr.locateAll_congr (idx := [i0]) (idx' := b.indices) (by simpa using hcm0), hloc] at hloc'
  simp only [Option.some.injEq, Prod.mk.injEq] at hloc'
  obtain ⟨rfl, rfl⟩ := hloc'
  rw [hcv, hbv]
  -- the address is `([r], [o])`
  rw [Arr.locateAll_cons] at hloc
  cases hro : Arr.locate (Index.sortCm i0.cm) p with
  | none => simp [hro] at hloc
  | some ro =>
    obtain ⟨r, o⟩ := ro
    simp only [hro, Arr.locateAll_nil_nil, Option.bind_some, Option.map_some, Option.some.injEq,
      Prod.mk.injEq] at hloc
    obtain ⟨rfl, rfl⟩ := hloc
    show (tensordotBlockwise a x (TdotP.freeAxes a.ndim [1]) [1] [0] (TdotP.freeAxes x.ndim [0])).elem [r] [o]
      = b.elem [r] [o]
    rw [h2, hndx]
    show (tensordotBlockwise a x [0] [1] [0] []).elem [r] [o] = b.elem [r] [o]
    cases hbl : alookup b.blocks [r] with
    | some bb =>
      obtain ⟨s, hs, hs0⟩ := hreach r bb hbl
      obtain ⟨⟨s', arr⟩, hm, rfl⟩ := List.mem_map.mp hs
      simp only at hs0
      obtain ⟨r', c, m, n, B⟩ := LinalgLemmas.mat_block hva hai hm
      have hr' : r' = r := by rw [B.hs] at hs0; simpa using hs0
      subst hr'
      have ho : o < arr.shape.getD 0 0 := by
        obtain ⟨d, hd, hod⟩ := Arr.locate_spec hro
        have hnd := (validB_facts a hva).1.1 i0 (by rw [hai]; simp)
        have := alookup_of_mem_nodup hnd (mem_sortCm.mp hd)
        rw [B.hr] at this
        rw [B.hshape]; simp only [List.getD_cons_zero]
        have := Option.some.inj this; omega
      have := C11.solve_solves K hK a b x hva hfa hbp hS h s' arr bb hm (by rw [hs0]; exact hbl) o ho
      rw [hs0] at this
      exact this
    | none =>
      obtain ⟨_, rfl⟩ := LinalgLemmas.solveA_abelian hva hfa h
      have hT := LinalgLemmas.solve_tdot_blocks (K := K) (b := b) hva h2
      have hnone : alookup (tensordotBlockwise a (LinalgLemmas.solveX K a b) [0] [1] [0] []).blocks [r] = none := by
        rw [alookup_eq_none_iff, hT]
        intro hk
        obtain ⟨q, hq, hqk⟩ := List.mem_map.mp hk
        obtain ⟨pb, _, hpb⟩ := List.mem_filterMap.mp hq
        cases hl : alookup b.blocks [pb.1.getD 0 (0, 0)] with
        | none => rw [hl] at hpb; cases hpb
        | some bb =>
          rw [hl] at hpb
          simp only [Option.map_some, Option.some.injEq] at hpb
          rw [← hpb] at hqk
          simp only [List.cons.injEq, and_true] at hqk
          rw [hqk, hbl] at hl; cases hl
      simp only [Arr.elem, hnone, hbl]

/-! ## the hypotheses are satisfiable -/

/-- a kernel whose `solve` copies the right-hand side into a vector of the right length: it meets
    the shape contract, and it is correct on identity blocks -/
def solveCopyK : Kernels Int :=
  { Kernels.shapeOnly with solve := fun a b => Blk.ofFn [a.shape.getD 1 0] (fun i => b.get i) }

theorem solveCopyK_shapeOk : solveCopyK.ShapeOk where
  qr := LinalgLemmas.shapeOnly_shapeOk.qr
  svd := LinalgLemmas.shapeOnly_shapeOk.svd
  eigh := LinalgLemmas.shapeOnly_shapeOk.eigh
  solve := fun a b m n ha _ => ⟨by show [a.shape.getD 1 0] = [n]; rw [ha]; rfl, Blk.wf_ofFn _ _⟩

theorem solveCopyK_solvesOn : solveCopyK.SolvesOn C11.exI C11.exIb := by
  intro s arr bb hm hl i hi
  simp only [C11.exI, List.mem_cons, List.not_mem_nil, or_false, Prod.mk.injEq] at hm
  rcases hm with ⟨rfl, rfl⟩ | ⟨rfl, rfl⟩
  · have : bb = ⟨[1], #[5]⟩ := by
      have : alookup C11.exIb.blocks [(1, 0)] = some bb := hl
      exact (Option.some.inj this).symm
    subst this
    have hi0 : i = 0 := by
      have : i < 1 := hi
      omega
    subst hi0
    decide
  · have h0 : alookup C11.exIb.blocks [(2, 0)] = none := by decide
    have : alookup C11.exIb.blocks [(2, 0)] = some bb := hl
    rw [h0] at this
    cases this

example : ∃ x, solveA solveCopyK C11.exI C11.exIb = .ok x := ⟨_, rfl⟩

/-- `solve_dense` instantiated: identity matrix on two charge sectors, right-hand side stored
    on one of them -/
example := solve_dense (R := Int) Int.zero_mul Int.mul_zero solveCopyK solveCopyK_shapeOk
  C11.exI C11.exIb _ (by decide) (by decide) rfl rfl rfl rfl rfl (by decide) solveCopyK_solvesOn rfl
  (by
    intro c bb hl
    have hc : c = (1, 0) := by
      by_contra hne
      have : alookup C11.exIb.blocks [c] = none := by
        simp only [C11.exIb, alookup]
        have : ([((1 : Int), (0 : Int))] == [c]) = false := by
          simpa using fun e => hne e.symm
        simp [this]
      rw [this] at hl; cases hl
    subst hc
    exact ⟨[(1, 0), (0, 0)], by decide, rfl⟩)

end SymmModel.C12
