/-
  Property C03 (main theorem) — "Fermionic operations follow graded tensor semantics":
  `tensordotF_refines_graded`.

  About the model definition `Arr.tensordotF` (Model/Fermi.lean; = symmray
  `tensordot_fermionic`: transpose both operands, virtual reversal of `b`'s contracted axes,
  ket-bra flip on ONE operand chosen by `a.size ≤ b.size`, `phase_sync`, abelian contraction,
  `resolve_combined_oddpos`) in `mode = blockwise`, for valid fermionic operands of ANY rank,
  symmetry, sparsity pattern, total charge (even or odd), pending signs, labels, and any
  admissible choice of contracted axes (`tdotAdmissibleB`: same symmetry, `contractibleB`,
  distinct in-range axes), over any scalar type `R` with the laws `GradedP.SignRing`
  (instances: `Int`, `GRat`).

  The SPECIFICATION does not mention the sign table (`phases`) nor any of the sign operations
  (vocabulary: `Proofs/Graded.lean`, namespace `SymmModel.GradedP`; `Proofs/TdotLemmas.lean`,
  namespace `SymmModel.TdotP`):
    `storedPairs a b left xa xb right s`  stored sector pairs `(sa, sb)` with equal contracted
                                          parts whose free parts make up `s`            (C02)
    `contractPair a b xa xb oL oR (sa,sb)` `Σ_k a.elem sa (merge k oL) * b.elem sb (merge k oR)`
                                          over the contracted box (value view `Arr.elem`) (C02)
    `gradedSign a b xa xb sa sb`  = koszul (parities sa) (left ++ xa)
                                  · koszul (parities sb) (xb ++ right)
                                  · (-1)^(k(k-1)/2),  k = number of odd contracted charges
                                  · (-1)^(number of odd contracted charges on a KET leg of `a`)
    `gradedContract a b xa xb s oL oR` = Σ_{(sa,sb) ∈ storedPairs} gradedSign · contractPair
    `OddposP.mergeOddpos pa la lb`  the label sort of `resolve_combined_oddpos` (C04), giving the
                                    merged labels and the global label sign `ph`.
  `sgnI σ x` is `σ · x` for a sign `σ = ±1` kept as an integer (`-x` if `σ = -1`, else `x`).

  Complete (no `_partial`): `tensordotF_refines_graded` (+ `_at`, `_GRat`, `_distinct_labels`),
  `ketbra_flip_branch_independent`, `prepared_operands`, and the corollaries
  `matmulF_refines_graded` (`a @ b`, ranks 1 and 2) and `traceF_refines_graded`.
  NOT proved here: `mode = fused` (C05/C06 reduce it to blockwise) and `einsumF`.
-/
import SymmModel.Proofs.Graded
import SymmModel.Props.C02

namespace SymmModel.C03
open SymmModel SymmModel.GradedP SymmModel.TdotP
open SymmModel.Lazy (sgnI)

variable {R : Type}

/-! ## the specification, spelled out -/

theorem gradedSign_def (a b : Arr R) (xa xb : List Nat) (sa sb : Sector) :
    gradedSign a b xa xb sa sb
      = koszul (a.parities sa) (some (freeAxes a.ndim xa ++ xa))
        * koszul (b.parities sb) (some (xb ++ freeAxes b.ndim xb))
        * (-1) ^ (oddContracted a xa sa * (oddContracted a xa sa - 1) / 2)
        * (-1) ^ ketOdd a xa sa
    ∧ oddContracted a xa sa = ((permuted sa xa).filter a.sym.parity).length
    ∧ ketOdd a xa sa = ((xa.filter (fun ax => !(a.indices.getD ax default).dual)).filter
        (fun ax => a.sym.parity (sa.getD ax (0, 0)))).length :=
  ⟨rfl, rfl, rfl⟩

theorem gradedContract_def [AddMonoid R] [Mul R] [Neg R] (a b : Arr R) (xa xb : List Nat)
    (s : Sector) (oL oR : List Nat) :
    gradedContract a b xa xb s oL oR
      = ((storedPairs a b (freeAxes a.ndim xa) xa xb (freeAxes b.ndim xb) s).map (fun p =>
          sgnI (gradedSign a b xa xb p.1 p.2) (contractPair a b xa xb oL oR p))).sum := rfl

/-- the free axes are the complements the model computes (`without (range n) axes`) -/
theorem freeAxes_eq (n : Nat) (axes : List Nat) : without (List.range n) axes = freeAxes n axes :=
  without_range n axes

/-! ## main theorem -/

/-- **tensordotF_refines_graded.**  Valid fermionic operands, admissible contracted axes, blockwise
    mode.  If the model's `tensordot_fermionic` returns `c`, then the label sort succeeds with
    merged labels `out` and sign `ph`, `c` carries `out` and the combined charge, and at every
    address `(L ++ Rr, oL ++ oR)` of the result — `oL` as long as `a`'s free axes, the offsets in
    the box the index tables give to the sector — the value of `c` (stored number times pending
    sign, the global label sign included) is `ph` times the graded contraction of the VALUES of
    `a` and `b` (their own pending signs included). -/
theorem tensordotF_refines_graded [AddMonoid R] [Mul R] [Neg R] [SignRing R] (a b c : Arr R)
    (xa xb : List Nat)
    (ha : a.validB = true) (hb : b.validB = true) (hfa : a.fermi = true) (hfb : b.fermi = true)
    (hadm : ValidP.tdotAdmissibleB a b xa xb = true)
    (h : a.tensordotF b (.pair (xa.map Int.ofNat) (xb.map Int.ofNat)) .blockwise = .ok c) :
    ∃ out ph, OddposP.mergeOddpos a.parity a.oddpos b.oddpos = .ok (out, ph)
      ∧ c.oddpos = out
      ∧ c.charge = a.sym.combine [a.charge, b.charge]
      ∧ ∀ (L Rr : Sector) (oL oR : List Nat), oL.length = (freeAxes a.ndim xa).length →
          inBox (Arr.blockShapeD (without a.indices xa ++ without b.indices xb) (L ++ Rr))
            (oL ++ oR) = true →
          c.elem (L ++ Rr) (oL ++ oR) = sgnI ph (gradedContract a b xa xb (L ++ Rr) oL oR) := by
  obtain ⟨out, ph, h1, h2, h3, h4⟩ := tensordotF_graded a b c xa xb ha hb hfa hfb hadm h
  exact ⟨out, ph, h1, h2, h3, fun L Rr oL oR hoL ho => h4 (L ++ Rr) oL oR hoL ho⟩

/-- the same at an arbitrary sector key `s` (for keys that are not made of two stored free parts
    both sides are `0`) -/
theorem tensordotF_refines_graded_at [AddMonoid R] [Mul R] [Neg R] [SignRing R] (a b c : Arr R)
    (xa xb : List Nat)
    (ha : a.validB = true) (hb : b.validB = true) (hfa : a.fermi = true) (hfb : b.fermi = true)
    (hadm : ValidP.tdotAdmissibleB a b xa xb = true)
    (h : a.tensordotF b (.pair (xa.map Int.ofNat) (xb.map Int.ofNat)) .blockwise = .ok c) :
    ∃ out ph, OddposP.mergeOddpos a.parity a.oddpos b.oddpos = .ok (out, ph)
      ∧ c.oddpos = out
      ∧ c.charge = a.sym.combine [a.charge, b.charge]
      ∧ ∀ (s : Sector) (oL oR : List Nat), oL.length = (freeAxes a.ndim xa).length →
          inBox (Arr.blockShapeD (without a.indices xa ++ without b.indices xb) s) (oL ++ oR) = true →
          c.elem s (oL ++ oR) = sgnI ph (gradedContract a b xa xb s oL oR) :=
  tensordotF_graded a b c xa xb ha hb hfa hfb hadm h

/-- with pairwise-distinct labels on the two operands the label sort cannot fail and its sign is
    explicit: `(-1)^([a odd]·|labels of b| + inversions of (labels a ++ labels b) w.r.t. oddLt)` (C04) -/
theorem tensordotF_refines_graded_distinct_labels [AddMonoid R] [Mul R] [Neg R] [SignRing R]
    (a b c : Arr R) (xa xb : List Nat)
    (ha : a.validB = true) (hb : b.validB = true) (hfa : a.fermi = true) (hfb : b.fermi = true)
    (hadm : ValidP.tdotAdmissibleB a b xa xb = true)
    (hd : (a.oddpos ++ b.oddpos).Pairwise (fun x y => x.1 ≠ y.1))
    (h : a.tensordotF b (.pair (xa.map Int.ofNat) (xb.map Int.ofNat)) .blockwise = .ok c) :
    c.oddpos.Perm (a.oddpos ++ b.oddpos) ∧ c.oddpos.Pairwise (fun x y => oddLt x y = true)
      ∧ ∀ (L Rr : Sector) (oL oR : List Nat), oL.length = (freeAxes a.ndim xa).length →
          inBox (Arr.blockShapeD (without a.indices xa ++ without b.indices xb) (L ++ Rr))
            (oL ++ oR) = true →
          c.elem (L ++ Rr) (oL ++ oR)
            = sgnI ((-1 : Int) ^ (a.parity.toNat * b.oddpos.length
                + KoszulP.invR OddposP.oddR (a.oddpos ++ b.oddpos)))
                (gradedContract a b xa xb (L ++ Rr) oL oR) := by
  obtain ⟨out, ph, h1, h2, _, h4⟩ := tensordotF_refines_graded a b c xa xb ha hb hfa hfb hadm h
  obtain ⟨out', p1, p2, p3⟩ := OddposP.mergeOddpos_spec a.parity a.oddpos b.oddpos hd
  rw [p3] at h1
  simp only [Except.ok.injEq, Prod.mk.injEq] at h1
  obtain ⟨rfl, rfl⟩ := h1
  rw [h2]
  refine ⟨p1, p2, ?_⟩
  intro L Rr oL oR hoL ho
  rw [h4 L Rr oL oR hoL ho, KoszulP.sgn_eq_pow]

/-! ## the sub-lemmas, for the record -/

/-- (i) the ket-bra flip gives the same sign whichever operand receives it: flipping the odd
    charges on `a`'s non-dual contracted legs (branch `a.size ≤ b.size`) equals flipping the odd
    charges on `b`'s dual contracted legs (other branch), because matched legs have opposite
    directions and, in an aligned sector pair, equal charges -/
theorem ketbra_flip_branch_independent (a b : Arr R) (xa xb : List Nat) (hsym : a.sym = b.sym)
    (hc : ValidP.contractibleB a b xa xb = true)
    (hnA : xa.Nodup) (hA : ∀ i ∈ xa, i < a.ndim) (hnB : xb.Nodup) (hB : ∀ i ∈ xb, i < b.ndim)
    (sa sb : Sector) (hsa : sa.length = a.ndim) (hsb : sb.length = b.ndim)
    (hal : permuted sb xb = permuted sa xa) :
    Lazy.flipSign a.sym
        (((List.range a.ndim).drop (a.ndim - xa.length)).filter (fun ax =>
          !((permuted a.indices (freeAxes a.ndim xa ++ xa)).getD ax default).dual))
        (permuted sa (freeAxes a.ndim xa ++ xa))
      = Lazy.flipSign b.sym
        ((List.range xa.length).filter (fun ax =>
          ((permuted b.indices (xb ++ freeAxes b.ndim xb)).getD ax default).dual))
        (permuted sb (xb ++ freeAxes b.ndim xb)) := by
  rw [ket_sign_left a xa hnA hA sa hsa, ket_sign_right a b xa xb hsym hc hA hnB hB sa sb hsa hsb hal]

/-- (ii) the operands handed to the abelian kernel are re-indexed copies of `a`, `b` (free axes
    first resp. last, no pending signs) whose values carry sector signs `τA`, `τB` multiplying,
    on every aligned sector pair, to the sign of the specification — in both branches -/
theorem prepared_operands [AddMonoid R] [Mul R] [Neg R] [SignRing R] (a b : Arr R) (xa xb : List Nat)
    (ha : a.validB = true) (hb : b.validB = true) (hfa : a.fermi = true) (hfb : b.fermi = true)
    (hsym : a.sym = b.sym) (hc : ValidP.contractibleB a b xa xb = true)
    (hnA : xa.Nodup) (hA : ∀ i ∈ xa, i < a.ndim) (hnB : xb.Nodup) (hB : ∀ i ∈ xb, i < b.ndim) :
    ∃ τA τB, Prepared a (ValidP.tdF34 a b xa xb).1.phaseSync (freeAxes a.ndim xa ++ xa) τA
      ∧ Prepared b (ValidP.tdF34 a b xa xb).2.phaseSync (xb ++ freeAxes b.ndim xb) τB
      ∧ ∀ sa ∈ a.sectors, ∀ sb ∈ b.sectors, permuted sb xb = permuted sa xa →
          τA sa * τB sb = gradedSign a b xa xb sa sb :=
  prepared_pair a b xa xb ha hb hfa hfb hsym hc hnA hA hnB hB

/-! ## non-vacuity: two odd Z2 operands with pending signs and labels, two legs contracted -/

def ixk (d : Bool) : Index := Index.mk [((0, 0), 1), ((1, 0), 2)] d none
def ixi (d : Bool) : Index := Index.mk [((0, 0), 2), ((1, 0), 1)] d none
def mkB (s : List Nat) (c : Int) : Blk Int := Blk.ofFn s (fun i => (ravel s i : Int) + c)

/-- `a[i,k,l]`: ket `i`, bra `k`, ket `l`; odd charge; label 1; pending sign on `(1,1,1)` -/
def gA : Arr Int :=
  { sym := .Z2, fermi := true, indices := [ixi false, ixk true, ixk false], charge := (1, 0),
    blocks := [([(1,0),(0,0),(0,0)], mkB [1,1,1] 2), ([(0,0),(1,0),(0,0)], mkB [2,2,1] 1),
               ([(0,0),(0,0),(1,0)], mkB [2,1,2] (-3)), ([(1,0),(1,0),(1,0)], mkB [1,2,2] 4)],
    phases := [([(1,0),(1,0),(1,0)], -1)], oddpos := [(1, false)] }
/-- `b[l',k',j]`: bra `l'`, ket `k'`, bra `j`; odd charge; label 3; pending sign on `(0,1,0)` -/
def gB : Arr Int :=
  { sym := .Z2, fermi := true, indices := [ixk true, ixk false, ixi true], charge := (1, 0),
    blocks := [([(1,0),(0,0),(0,0)], mkB [2,1,2] 1), ([(0,0),(1,0),(0,0)], mkB [1,2,2] (-2)),
               ([(0,0),(0,0),(1,0)], mkB [1,1,1] 5), ([(1,0),(1,0),(1,0)], mkB [2,2,1] 3)],
    phases := [([(0,0),(1,0),(0,0)], -1)], oddpos := [(3, false)] }

/-- the hypotheses hold: `a`'s axes `(k,l) = (1,2)` against `b`'s `(k',l') = (1,0)` -/
example : gA.validB = true ∧ gB.validB = true ∧ gA.fermi = true ∧ gB.fermi = true
    ∧ ValidP.tdotAdmissibleB gA gB [1, 2] [1, 0] = true
    ∧ (gA.oddpos ++ gB.oddpos).Pairwise (fun x y => x.1 ≠ y.1) := by decide +kernel

/-- … the call succeeds; result sectors `(1,1)` and `(0,0)`, labels merged, even charge, and the
    global label sign `-1` stored as a pending sign -/
example : (match gA.tensordotF gB (.pair [1, 2] [1, 0]) .blockwise with
    | .ok c => (c.sectors, c.oddpos, c.charge, c.phases.length,
        c.elem [(1,0),(1,0)] [0,0], c.elem [(0,0),(0,0)] [1,1], c.elem [(0,0),(0,0)] [0,1])
    | .error _ => ([], [], (9, 9), 0, 0, 0, 0))
    = ([[(1,0),(1,0)], [(0,0),(0,0)]], [(1, false), (3, false)], (0, 0), 2, -113, -1, -13) := by
  decide +kernel

/-- … and the specification evaluates to the same numbers: label sign `-1`, pair signs `±1` -/
example : OddposP.mergeOddpos gA.parity gA.oddpos gB.oddpos = .ok ([(1, false), (3, false)], -1)
    ∧ gradedContract gA gB [1, 2] [1, 0] [(1,0),(1,0)] [0] [0] = 113
    ∧ gradedContract gA gB [1, 2] [1, 0] [(0,0),(0,0)] [1] [1] = 1
    ∧ gradedContract gA gB [1, 2] [1, 0] [(0,0),(0,0)] [0] [1] = 13
    ∧ (storedPairs gA gB [0] [1, 2] [1, 0] [2] [(0,0),(0,0)]).map
        (fun p => gradedSign gA gB [1, 2] [1, 0] p.1 p.2) = [1, -1]
    ∧ (storedPairs gA gB [0] [1, 2] [1, 0] [2] [(1,0),(1,0)]).map
        (fun p => gradedSign gA gB [1, 2] [1, 0] p.1 p.2) = [1, -1] := by decide +kernel

/-! ## corollaries: `a @ b` and `trace` -/

/-- **matmulF_refines_graded.**  `FermionicArray.__matmul__` for valid fermionic operands of rank
    1 or 2 (vector·vector, vector·matrix, matrix·vector, matrix·matrix) whose last resp. first
    legs are contractible: the graded contraction of `a`'s last with `b`'s first axis; labels,
    label sign and charge as for `tensordot`. -/
theorem matmulF_refines_graded [AddMonoid R] [Mul R] [Neg R] [SignRing R] (a b c : Arr R)
    (ha : a.validB = true) (hb : b.validB = true) (hfa : a.fermi = true) (hfb : b.fermi = true)
    (hna : a.ndim = 1 ∨ a.ndim = 2) (hnb : b.ndim = 1 ∨ b.ndim = 2)
    (hadm : ValidP.tdotAdmissibleB a b [a.ndim - 1] [0] = true)
    (h : a.matmulF b = .ok c) :
    ∃ out ph, OddposP.mergeOddpos a.parity a.oddpos b.oddpos = .ok (out, ph)
      ∧ c.oddpos = out ∧ c.charge = a.sym.combine [a.charge, b.charge]
      ∧ ∀ (s : Sector) (oL oR : List Nat), oL.length = (freeAxes a.ndim [a.ndim - 1]).length →
          inBox (Arr.blockShapeD (without a.indices [a.ndim - 1] ++ without b.indices [0]) s)
            (oL ++ oR) = true →
          c.elem s (oL ++ oR) = sgnI ph (gradedContract a b [a.ndim - 1] [0] s oL oR) :=
  matmulF_graded a b c ha hb hfa hfb hna hnb hadm h

/-- the specification of the trace, spelled out: over the stored diagonal sectors `(c, c)`, the
    plain trace of the value view, times `-1` when the pair is ket-then-bra (leg 0 not dual) and
    the charge is odd -/
theorem gradedTrace_def [AddMonoid R] [Mul R] [Neg R] (a : Arr R) :
    gradedTrace a
      = ((a.sectors.filter (fun s => s[0]? == s[1]?)).map (fun s =>
          sgnI (if !(a.indices.getD 0 default).dual && a.sym.parity (s.getD 0 (0, 0)) then -1 else 1)
            (((List.range (min ((Arr.blockShapeD a.indices s).getD 0 0)
                ((Arr.blockShapeD a.indices s).getD 1 0))).map (fun i => a.elem s [i, i])).sum))).sum :=
  rfl

/-- **traceF_refines_graded.**  `FermionicArray.trace` of a valid fermionic matrix with one bra and
    one ket leg is the graded trace of its value view (pending signs included). -/
theorem traceF_refines_graded [AddMonoid R] [Mul R] [Neg R] [SignRing R] (a : Arr R) (l r : Index)
    (ha : a.validB = true) (hfa : a.fermi = true) (hidx : a.indices = [l, r])
    (hlr : l.dual = !r.dual) : a.traceF = .ok (gradedTrace a) :=
  traceF_graded a l r ha hfa hidx hlr

/-- `a[i,k]` (bra, ket), `b[k',j]` (bra, ket): the contracted pair is ket-then-bra; both odd -/
def mA : Arr Int :=
  { sym := .Z2, fermi := true, indices := [ixi true, ixk false], charge := (1, 0),
    blocks := [([(1,0),(0,0)], mkB [1,1] 2), ([(0,0),(1,0)], mkB [2,2] 1)],
    phases := [([(0,0),(1,0)], -1)], oddpos := [(1, false)] }
def mB : Arr Int :=
  { sym := .Z2, fermi := true, indices := [ixk true, ixi false], charge := (1, 0),
    blocks := [([(1,0),(0,0)], mkB [2,2] (-1)), ([(0,0),(1,0)], mkB [1,1] 5)],
    phases := [], oddpos := [(3, false)] }
/-- a ket-bra matrix with a pending sign on the odd sector -/
def tA : Arr Int :=
  { sym := .Z2, fermi := true, indices := [ixk false, ixk true], charge := (0, 0),
    blocks := [([(0,0),(0,0)], mkB [1,1] 7), ([(1,0),(1,0)], mkB [2,2] 1)],
    phases := [([(1,0),(1,0)], -1)], oddpos := [] }

example : mA.validB = true ∧ mB.validB = true ∧ mA.fermi = true ∧ mB.fermi = true
    ∧ (mA.ndim = 1 ∨ mA.ndim = 2) ∧ (mB.ndim = 1 ∨ mB.ndim = 2)
    ∧ ValidP.tdotAdmissibleB mA mB [mA.ndim - 1] [0] = true := by decide +kernel

example : (match mA.matmulF mB with
    | .ok c => (c.sectors, c.oddpos, c.charge,
        c.elem [(0,0),(0,0)] [0,1], c.elem [(0,0),(0,0)] [1,0], c.elem [(1,0),(1,0)] [0,0])
    | .error _ => ([], [], (9, 9), 0, 0, 0))
    = ([[(1,0),(1,0)], [(0,0),(0,0)]], [(1, false), (3, false)], (0, 0), -4, -1, -10)
    ∧ OddposP.mergeOddpos mA.parity mA.oddpos mB.oddpos = .ok ([(1, false), (3, false)], -1)
    ∧ gradedContract mA mB [1] [0] [(0,0),(0,0)] [0] [1] = 4
    ∧ gradedContract mA mB [1] [0] [(0,0),(0,0)] [1] [0] = 1
    ∧ gradedContract mA mB [1] [0] [(1,0),(1,0)] [0] [0] = 10 := by decide +kernel

example : tA.validB = true ∧ tA.fermi = true ∧ tA.indices = [ixk false, ixk true]
    ∧ (ixk false).dual = !(ixk true).dual := ⟨by decide +kernel, rfl, rfl, rfl⟩
/-- `7 + (-1)·(-(1 + 4)) = 12`: pending sign and ket-bra sign both act on the odd sector -/
example : tA.traceF = .ok 12 ∧ gradedTrace tA = 12 := by decide +kernel

/-! ## the driver's scalar type is covered -/

attribute [local instance] C02.addCommMonoidGRat in
instance signRingGRat : @SignRing GRat C02.addCommMonoidGRat.toAddMonoid _ _ where
  neg_neg x := Lazy.GRat.ext' (Rat.neg_neg x.re) (Rat.neg_neg x.im)
  neg_zero := by decide +kernel
  neg_add x y := Lazy.GRat.ext' (by show -(x.re + y.re) = -x.re + -y.re; ring)
    (by show -(x.im + y.im) = -x.im + -y.im; ring)
  neg_mul x y := Lazy.GRat.ext'
    (by show (-x.re) * y.re - (-x.im) * y.im = -(x.re * y.re - x.im * y.im); ring)
    (by show (-x.re) * y.im + (-x.im) * y.re = -(x.re * y.im + x.im * y.re); ring)
  mul_neg x y := Lazy.GRat.ext'
    (by show x.re * (-y.re) - x.im * (-y.im) = -(x.re * y.re - x.im * y.im); ring)
    (by show x.re * (-y.im) + x.im * (-y.re) = -(x.re * y.im + x.im * y.re); ring)

/-- the main theorem with exactly the instances the driver is compiled with -/
theorem tensordotF_refines_graded_GRat (a b c : Arr GRat) (xa xb : List Nat)
    (ha : a.validB = true) (hb : b.validB = true) (hfa : a.fermi = true) (hfb : b.fermi = true)
    (hadm : ValidP.tdotAdmissibleB a b xa xb = true)
    (h : @Arr.tensordotF GRat GRat.instZero GRat.instAdd GRat.instMul GRat.instNeg a b
      (.pair (xa.map Int.ofNat) (xb.map Int.ofNat)) .blockwise = .ok c) :
    ∃ out ph, OddposP.mergeOddpos a.parity a.oddpos b.oddpos = .ok (out, ph)
      ∧ c.oddpos = out
      ∧ c.charge = a.sym.combine [a.charge, b.charge]
      ∧ ∀ (L Rr : Sector) (oL oR : List Nat), oL.length = (freeAxes a.ndim xa).length →
          inBox (Arr.blockShapeD (without a.indices xa ++ without b.indices xb) (L ++ Rr))
            (oL ++ oR) = true →
          @Arr.elem GRat GRat.instZero GRat.instNeg c (L ++ Rr) (oL ++ oR)
            = sgnI ph (@gradedContract GRat C02.addCommMonoidGRat.toAddMonoid GRat.instMul GRat.instNeg
                a b xa xb (L ++ Rr) oL oR) :=
  @tensordotF_refines_graded GRat C02.addCommMonoidGRat.toAddMonoid GRat.instMul GRat.instNeg
    signRingGRat a b c xa xb ha hb hfa hfb hadm h

end SymmModel.C03
