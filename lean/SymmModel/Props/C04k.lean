/-
  Property C04, second clause — "several indices contracted at once or one after another": REMAINING FORMS
  of `C04.two_step_values` (Props/C04j.lean).  Setting, vocabulary (`tsLhs`, `tsRhs`, …) and scalars as
  there; additionally `0 * x = 0 = x * 0` (C06 zero-padding reduction; instances `Int`, `GRat`).

  PROVED (no `_partial`):
    `two_step_values_onestep_any_mode`  the ONE-STEP call `c' = a ·_{xa++ya ~ xb++yb} b` in ANY contraction
                               mode (`blockwise` / `fused` / `auto`): the two-step result `e` (blockwise
                               `tensordotF` over `xa ~ xb`, then `einsumF` with the canonical labels) has the
                               labels, charge, symmetry and kind of `c'`, every sector of `e` is stored
                               in `c'`, and `e` and `c'` have the SAME VALUE at every key and
                               every address of the un-pruned frame of the free legs (the statement of
                               `two_step_values_at`; a fused-mode `c'` may store additional blocks: at their
                               addresses too `e` — which does not store them — reads the value of `c'`).
    `einsumF_rename`           `a.einsumF (lhs.map f) (rhs.map f) = a.einsumF lhs rhs` (the same `Except` value: same
                               error or the same array) for EVERY array, every equation and every strictly
                               increasing renaming `f` of the letters;
    `einsumA_rename`           the same for the abelian `einsumA` and every INJECTIVE `f` (C02 readers);
    `two_step_values_renamed`, `two_step_values_at_renamed`  `two_step_values` / `two_step_values_at` with the
                               einsum labels `tsLhs.map f -> tsRhs.map f`, `f` strictly increasing (shifted or spread labels, any
                               order-preserving choice of letters).
  PROVED, `_partial`:
    `two_step_values_abelian_partial`  the ABELIAN analogue (`tensordotA`, no signs; for C02/C06 readers) at
                               element level, from the same Fubini core (`TwoStepP.two_step_core` with all
                               signs `1`, `TwoStepP.two_step_core_abelian`): valid abelian `a`, `b`
                               (`fermi = false`), the guards of `two_step_values`,
                               `c = tensordotA a b (xa ~ xb)`, `c' = tensordotA a b (xa++ya ~ xb++yb)`:
                               the trace of the remaining pairs in `c` — the sum over the sectors of `c`
                               with equal charges on every remaining pair and untraced part `s'`
                               (`tsSurv`), and over the box of the remaining pairs (`tsBox`), of `c`'s
                               elements at the assembled addresses — is `c'.elem s' (fL ++ fR)`, at every
                               key `s'` and every address of the un-pruned frame of the free legs.
    `two_step_sectors_abelian_partial`  `s' ∈ c'.sectors` iff some sector of `c` survives the trace onto `s'`
                               (`tsSurv … s'` non-empty) — the sector-set half, at the same explicit level.
    `two_step_abelian_sum`     (auxiliary, no `_partial`: it is what it says) the value statement for ABSTRACT
                               index sets `S`, `T` with the hypotheses of the core (any operands without
                               pending signs).
      FULL STATEMENT (not proved): additionally `einsumA c tsLhs tsRhs = ok e` and the left-hand side replaced
      by `e.elem s' (fL ++ fR)`; same sector set and block shapes (the statement of `two_step_values`).
      MISSING: the identification of the explicit trace on the left with `(einsumA c tsLhs tsRhs).elem`
      (`C02.einsumA_elem` for the NON-canonical position of the traced labels: `einKeep`, `einTraced` in
      first-appearance order — a permutation of the box of `ya` unless `ya` is increasing —, `einIdx`,
      `einSize` for `tsLhs`).
  NOT proved here: the FIRST call (the intermediate) in fused / auto mode — `einsumF` of a zero-padded
  intermediate needs "einsumF respects `TdotP.Pad`", which does not exist yet (`Net4P.pad_call` gives `PadA`
  of the intermediate, `TwoStepP.Inter.sectors` is an equality that a padded intermediate violates);
  label choices that are NOT an increasing renaming of the canonical one (`einsumF` sorts the traced pairs BY
  LABEL, so such a renaming changes the transposition it performs; one expects equal values but not equal arrays —
  neither is proved).
-/
import SymmModel.Props.C04j
import SymmModel.Props.C06d
import SymmModel.Props.C02
import SymmModel.Proofs.TwoStepM1
import SymmModel.Proofs.TwoStepM2
import SymmModel.Proofs.TwoStepM3

namespace SymmModel.C04
open SymmModel SymmModel.GradedP SymmModel.TdotP SymmModel.AssocP SymmModel.TwoStepP
open SymmModel.Lazy (sgnI)

variable {R : Type}

/-- **two_step_values_onestep_any_mode.** -/
theorem two_step_values_onestep_any_mode [AddCommMonoid R] [Mul R] [Neg R] [SignRing R]
    (hz1 : ∀ x : R, 0 * x = 0) (hz2 : ∀ x : R, x * 0 = 0)
    (a b c e c' : Arr R) (xa xb ya yb : List Nat) (mode : TdotMode)
    (ha : a.validB = true) (hb : b.validB = true) (hfa : a.fermi = true) (hfb : b.fermi = true)
    (g1 : tdotAdmissibleCommonB a b xa xb = true)
    (g2 : tdotAdmissibleCommonB a b (xa ++ ya) (xb ++ yb) = true)
    (h1 : a.tensordotF b (.pair (xa.map Int.ofNat) (xb.map Int.ofNat)) .blockwise = .ok c)
    (h2 : c.einsumF (tsLhs a.ndim b.ndim xa xb ya yb) (tsRhs a.ndim b.ndim xa xb ya yb) = .ok e)
    (h3 : a.tensordotF b (.pair ((xa ++ ya).map Int.ofNat) ((xb ++ yb).map Int.ofNat)) mode = .ok c') :
    e.oddpos = c'.oddpos ∧ e.charge = c'.charge ∧ e.sym = c'.sym ∧ e.fermi = c'.fermi
    ∧ (∀ s ∈ e.sectors, s ∈ c'.sectors)
    ∧ ∀ (s' : Sector) (fL fR : List Nat), fL.length = (freeAxes a.ndim (xa ++ ya)).length →
        inBox (Arr.blockShapeD (without a.indices (xa ++ ya) ++ without b.indices (xb ++ yb)) s')
          (fL ++ fR) = true →
        e.elem s' (fL ++ fR) = c'.elem s' (fL ++ fR) := by
  have hmode : mode = .blockwise ∨ (mode = .fused ∨ mode = .auto) := by
    cases mode <;> simp
  rcases hmode with rfl | hmode
  · obtain ⟨f1, f2, f3, f4, _, f6, _⟩ := two_step_values a b c e c' xa xb ya yb ha hb hfa hfb g1 g2 h1 h2 h3
    exact ⟨f1, f2, f3, f4, fun s hs => (f6 s).mp hs, fun s' fL fR hfL hbox =>
      two_step_values_at a b c e c' xa xb ya yb ha hb hfa hfb g1 g2 h1 h2 h3 s' fL fR hfL hbox⟩
  · obtain ⟨out, ph, m1, _, _, hel⟩ := C06.tensordotF_refines_graded_any_mode_weak hz1 hz2 a b c'
      (xa ++ ya) (xb ++ yb) ha hb hfa hfb g2 mode hmode h3
    obtain ⟨_, hk⟩ := C06.tensordotF_modes_agree_weak hz1 hz2 a b (xa ++ ya) (xb ++ yb)
      (AdmW.of ha hb hfa hfb g2) mode hmode
    obtain ⟨rm, rb, hm, hbw, k1, k2, k3, k4, _, hsec, _⟩ := hk (out, ph) m1
    rw [h3] at hm
    obtain rfl := Except.ok.inj hm
    obtain ⟨out2, ph2, m2, _, _, hel2⟩ :=
      tensordotF_refines_graded_common a b rb (xa ++ ya) (xb ++ yb) ha hb hfa hfb g2 hbw
    rw [m1] at m2
    obtain ⟨rfl, rfl⟩ := Prod.mk.inj (Except.ok.inj m2)
    obtain ⟨f1, f2, f3, f4, _, f6, _⟩ :=
      two_step_values a b c e rb xa xb ya yb ha hb hfa hfb g1 g2 h1 h2 hbw
    refine ⟨f1.trans k1.symm, f2.trans k2.symm, f3.trans k3.symm, f4.trans k4.symm,
      fun s hs => hsec s ((f6 s).mp hs), ?_⟩
    intro s' fL fR hfL hbox
    rw [two_step_values_at a b c e rb xa xb ya yb ha hb hfa hfb g1 g2 h1 h2 hbw s' fL fR hfL hbox,
      hel s' fL fR hfL hbox, hel2 s' fL fR hfL hbox]

/-- **two_step_abelian_sum** (abstract index sets).  Abelian operands (no pending signs, distinct sector keys, block
    shapes given by the index tables).  `S`: the sectors of the intermediate that survive the trace of the
    remaining pairs and land on `s'` (`hmem`); `T s`: the box of the remaining pairs (`hT`).  Every
    assembled address lies in the intermediate's table box (`hboxI`). -/
theorem two_step_abelian_sum [AddCommMonoid R] [Mul R] [Neg R] [SignRing R]
    (a b : Arr R) (xa xb ya yb : List Nat) (S : List Sector) (s' : Sector)
    (T : Sector → List Nat) (fL fR : List Nat)
    (hpa : a.phases = []) (hpb : b.phases = [])
    (hda : allDistinct a.sectors = true) (hdb : allDistinct b.sectors = true)
    (hsa : a.shapesOk) (hsb : b.shapesOk)
    (hS : S.Nodup)
    (hmem : ∀ sa ∈ a.sectors, ∀ sb ∈ b.sectors, permuted sb xb = permuted sa xa →
      ((permuted sa (freeAxes a.ndim xa) ++ permuted sb (freeAxes b.ndim xb)) ∈ S ↔
        (permuted sb (xb ++ yb) = permuted sa (xa ++ ya)
          ∧ permuted sa (freeAxes a.ndim (xa ++ ya)) ++ permuted sb (freeAxes b.ndim (xb ++ yb)) = s')))
    (hal : ∀ sa ∈ a.sectors, ∀ sb ∈ b.sectors, permuted sb (xb ++ yb) = permuted sa (xa ++ ya) →
      permuted sb xb = permuted sa xa)
    (hT : ∀ s ∈ S, ∀ p ∈ storedPairs a b (freeAxes a.ndim xa) xa xb (freeAxes b.ndim xb) s,
      T s = permuted (Arr.blockShapeD a.indices p.1) ya)
    (hxa : ∀ sa ∈ a.sectors, ∀ i ∈ xa, i < (Arr.blockShapeD a.indices sa).length)
    (hlx : xa.length = xb.length)
    (hboxI : ∀ s ∈ S, ∀ t ∈ allIdx (T s),
      inBox (Arr.blockShapeD (without a.indices xa ++ without b.indices xb) s)
        (asmSide (freeAxes a.ndim xa) ya (freeAxes a.ndim (xa ++ ya)) t fL
          ++ asmSide (freeAxes b.ndim xb) yb (freeAxes b.ndim (xb ++ yb)) t fR) = true)
    (hfL : fL.length = (freeAxes a.ndim (xa ++ ya)).length)
    (hbox : inBox (Arr.blockShapeD (without a.indices (xa ++ ya) ++ without b.indices (xb ++ yb)) s')
      (fL ++ fR) = true) :
    (S.map (fun s => ((allIdx (T s)).map (fun t =>
        (tensordotBlockwise a b (freeAxes a.ndim xa) xa xb (freeAxes b.ndim xb)).elem s
          (asmSide (freeAxes a.ndim xa) ya (freeAxes a.ndim (xa ++ ya)) t fL
            ++ asmSide (freeAxes b.ndim xb) yb (freeAxes b.ndim (xb ++ yb)) t fR))).sum)).sum
      = (tensordotBlockwise a b (freeAxes a.ndim (xa ++ ya)) (xa ++ ya) (xb ++ yb)
          (freeAxes b.ndim (xb ++ yb))).elem s' (fL ++ fR) := by
  have e0 := C02.tensordotBlockwise_elem_split a b (xa ++ ya) (xb ++ yb) hpa hpb hda hdb hsa hsb [] s' fL fR
    hfL hbox
  rw [List.nil_append] at e0
  rw [e0, ← two_step_core_abelian a b xa xb ya yb S s' T fL fR hS
    (KoszulP.nodup_of_allDistinct _ hda) (KoszulP.nodup_of_allDistinct _ hdb) hmem hal hT hxa hlx]
  apply sum_map_congr
  intro s hs
  apply sum_map_congr
  intro t ht
  have e1 := C02.tensordotBlockwise_elem_split a b xa xb hpa hpb hda hdb hsa hsb [] s _ _
    (asmSide_length _ _ _ _ _) (hboxI _ hs t ht)
  rw [List.nil_append] at e1
  exact e1

/-- vocabulary of the abelian form: the surviving sectors and the box of the remaining pairs -/
theorem two_step_abelian_defs (a b c : Arr R) (na nb : Nat) (xa xb ya yb : List Nat) (s' s : Sector) :
    tsSurv c na nb xa xb ya yb s' = c.sectors.filter (fun s =>
        permuted s (tsPA na xa ya) == permuted s (tsPB na nb xa xb yb)
        && permuted s (tsRhs na nb xa xb ya yb) == s')
    ∧ tsBox a b xa xb ya s
        = permuted (Arr.blockShapeD (without a.indices xa ++ without b.indices xb) s) (tsPA a.ndim xa ya) :=
  ⟨rfl, rfl⟩

/-- **two_step_values_abelian_partial.**  Valid ABELIAN `a`, `b` (`fermi = false`: no pending signs, no
    labels), the guards of `two_step_values`; `c = tensordotA a b (xa ~ xb)`,
    `c' = tensordotA a b (xa ++ ya ~ xb ++ yb)` (blockwise).  Tracing the remaining pairs in `c` — the sum,
    over the sectors `s` of `c` with equal charges at the positions `tsPA[i]`, `tsPB[i]` of every remaining
    pair and untraced part `s'`, and over the box of the remaining pairs, of `c`'s element at the address
    that puts `t[i]` on both legs of pair `i` and `fL ++ fR` on the untraced legs — gives the element of
    `c'` at `(s', fL ++ fR)`, at every key `s'` and every address of the un-pruned frame of the free legs.
    (`_partial`: the left-hand side is what `einsumA c tsLhs tsRhs` computes, `C02.einsumA_elem`, but that
    identification is not proved; see the header.) -/
theorem two_step_values_abelian_partial [AddCommMonoid R] [Mul R] [Neg R] [SignRing R]
    (a b c c' : Arr R) (xa xb ya yb : List Nat)
    (ha : a.validB = true) (hb : b.validB = true) (hfa : a.fermi = false) (hfb : b.fermi = false)
    (g1 : tdotAdmissibleCommonB a b xa xb = true)
    (g2 : tdotAdmissibleCommonB a b (xa ++ ya) (xb ++ yb) = true)
    (h1 : tensordotA a b (.pair (xa.map Int.ofNat) (xb.map Int.ofNat)) .blockwise = .ok c)
    (h3 : tensordotA a b (.pair ((xa ++ ya).map Int.ofNat) ((xb ++ yb).map Int.ofNat)) .blockwise = .ok c')
    (s' : Sector) (fL fR : List Nat)
    (hfL : fL.length = (freeAxes a.ndim (xa ++ ya)).length)
    (hbox : inBox (Arr.blockShapeD (without a.indices (xa ++ ya) ++ without b.indices (xb ++ yb)) s')
      (fL ++ fR) = true) :
    ((tsSurv c a.ndim b.ndim xa xb ya yb s').map (fun s => ((allIdx (tsBox a b xa xb ya s)).map (fun t =>
        c.elem s
          (asmSide (freeAxes a.ndim xa) ya (freeAxes a.ndim (xa ++ ya)) t fL
            ++ asmSide (freeAxes b.ndim xb) yb (freeAxes b.ndim (xb ++ yb)) t fR))).sum)).sum
      = c'.elem s' (fL ++ fR) := by
  have W1 : AdmW (fz a) (fz b) xa xb := AdmW.of (fz_valid ha hfa) (fz_valid hb hfb) rfl rfl g1
  have W2 : AdmW (fz a) (fz b) (xa ++ ya) (xb ++ yb) :=
    AdmW.of (fz_valid ha hfa) (fz_valid hb hfb) rfl rfl g2
  have hsA := Arr.shapesOk_of_validB ha
  have hsB := Arr.shapesOk_of_validB hb
  rw [C02.tensordotA_blockwise, ValidP.parseAxes_nat a.ndim b.ndim xa xb W1.len W1.ltA W1.ltB] at h1
  rw [C02.tensordotA_blockwise, ValidP.parseAxes_nat a.ndim b.ndim (xa ++ ya) (xb ++ yb) W2.len W2.ltA W2.ltB] at h3
  obtain rfl := Except.ok.inj h1
  obtain rfl := Except.ok.inj h3
  have hc := C02.tensordotBlockwise_sectors a b (freeAxes a.ndim xa) xa xb (freeAxes b.ndim xb)
  have lA : ∀ sa ∈ a.sectors, sa.length = a.ndim := fun sa h => (shape_of_mem hsA h).choose_spec.2.2.2
  have lB : ∀ sb ∈ b.sectors, sb.length = b.ndim := fun sb h => (shape_of_mem hsB h).choose_spec.2.2.2
  refine two_step_abelian_sum a b xa xb ya yb _ s' (tsBox a b xa xb ya) fL fR
    (phases_of_abelian ha hfa) (phases_of_abelian hb hfb)
    (Arr.allDistinct_of_validB ha) (Arr.allDistinct_of_validB hb) hsA hsB
    (List.Nodup.filter _ (KoszulP.nodup_of_allDistinct _
      (C02.tensordotBlockwise_sectors_distinct a b _ xa xb _)))
    (fun sa hsa sb hsb halx => surv_mem (a := fz a) (b := fz b) W1 W2 hc s' hsa hsb halx)
    (fun sa hsa sb hsb h => ((aligned_split sa sb xa ya xb yb (by rw [lA sa hsa]; exact W1.ltA)
      (by rw [lB sb hsb]; exact W1.ltB) W1.len).mp h).1)
    ?_ ?_ W1.len ?_ hfL hbox
  · intro s _ p hp
    obtain ⟨hsa, hsb, _, rfl⟩ := mem_storedPairs.mp hp
    exact surv_box (a := fz a) (b := fz b) W2 hsa hsb
  · intro sa hsa i hi
    obtain ⟨shp, _, e2, e3, _⟩ := shape_of_mem hsA hsa
    rw [e2, e3]; exact W1.ltA i hi
  · intro s hs t ht
    obtain ⟨sa, hsa, sb, hsb, halx, rfl⟩ := (hc s).mp (List.mem_filter.mp hs).1
    obtain ⟨hal, hk⟩ := (surv_mem (a := fz a) (b := fz b) W1 W2 hc s' hsa hsb halx.symm).mp hs
    have eB : tsBox a b xa xb ya (permuted sa (freeAxes a.ndim xa) ++ permuted sb (freeAxes b.ndim xb))
        = permuted (Arr.blockShapeD a.indices sa) ya := surv_box (a := fz a) (b := fz b) W2 hsa hsb
    rw [eB] at ht
    have hk' : permuted sa (freeAxes a.ndim (xa ++ ya)) ++ permuted sb (freeAxes b.ndim (xb ++ yb)) = s' := hk
    subst hk'
    exact surv_inBox (a := fz a) (b := fz b) W1 W2 hsa hsb hal t fL fR ht hfL hbox

/-- **two_step_sectors_abelian_partial.**  The sector set of the one-step abelian contraction is the set of
    untraced parts of the sectors of the intermediate that survive the trace of the remaining pairs (the key
    set `einsumA c tsLhs tsRhs` builds, `C02.einsumA_elem`; that identification is the missing part). -/
theorem two_step_sectors_abelian_partial [AddCommMonoid R] [Mul R] [Neg R] [SignRing R]
    (a b c c' : Arr R) (xa xb ya yb : List Nat)
    (ha : a.validB = true) (hb : b.validB = true) (hfa : a.fermi = false) (hfb : b.fermi = false)
    (g1 : tdotAdmissibleCommonB a b xa xb = true)
    (g2 : tdotAdmissibleCommonB a b (xa ++ ya) (xb ++ yb) = true)
    (h1 : tensordotA a b (.pair (xa.map Int.ofNat) (xb.map Int.ofNat)) .blockwise = .ok c)
    (h3 : tensordotA a b (.pair ((xa ++ ya).map Int.ofNat) ((xb ++ yb).map Int.ofNat)) .blockwise = .ok c')
    (s' : Sector) :
    s' ∈ c'.sectors ↔ ∃ s, s ∈ tsSurv c a.ndim b.ndim xa xb ya yb s' := by
  have W1 : AdmW (fz a) (fz b) xa xb := AdmW.of (fz_valid ha hfa) (fz_valid hb hfb) rfl rfl g1
  have W2 : AdmW (fz a) (fz b) (xa ++ ya) (xb ++ yb) :=
    AdmW.of (fz_valid ha hfa) (fz_valid hb hfb) rfl rfl g2
  have hsA := Arr.shapesOk_of_validB ha
  have hsB := Arr.shapesOk_of_validB hb
  rw [C02.tensordotA_blockwise, ValidP.parseAxes_nat a.ndim b.ndim xa xb W1.len W1.ltA W1.ltB] at h1
  rw [C02.tensordotA_blockwise,
    ValidP.parseAxes_nat a.ndim b.ndim (xa ++ ya) (xb ++ yb) W2.len W2.ltA W2.ltB] at h3
  obtain rfl := Except.ok.inj h1
  obtain rfl := Except.ok.inj h3
  have hc := C02.tensordotBlockwise_sectors a b (freeAxes a.ndim xa) xa xb (freeAxes b.ndim xb)
  have lA : ∀ sa ∈ a.sectors, sa.length = a.ndim := fun sa h => (shape_of_mem hsA h).choose_spec.2.2.2
  have lB : ∀ sb ∈ b.sectors, sb.length = b.ndim := fun sb h => (shape_of_mem hsB h).choose_spec.2.2.2
  rw [C02.tensordotBlockwise_sectors a b (freeAxes a.ndim (xa ++ ya)) (xa ++ ya) (xb ++ yb)
    (freeAxes b.ndim (xb ++ yb))]
  constructor
  · rintro ⟨sa, hsa, sb, hsb, hal, rfl⟩
    have halx := ((aligned_split sa sb xa ya xb yb (by rw [lA sa hsa]; exact W1.ltA)
      (by rw [lB sb hsb]; exact W1.ltB) W1.len).mp hal.symm).1
    exact ⟨_, (surv_mem (a := fz a) (b := fz b) W1 W2 hc _ hsa hsb halx).mpr ⟨hal.symm, rfl⟩⟩
  · rintro ⟨s, hs⟩
    obtain ⟨sa, hsa, sb, hsb, halx, rfl⟩ := (hc s).mp (List.mem_filter.mp hs).1
    obtain ⟨hal, hk⟩ := (surv_mem (a := fz a) (b := fz b) W1 W2 hc s' hsa hsb halx.symm).mp hs
    exact ⟨sa, hsa, sb, hsb, hal.symm, hk.symm⟩

/-- non-vacuity of `two_step_values_abelian_partial`: `exA`, `exB` of C02 satisfy the hypotheses (first
    `1 ~ 0`, then `2 ~ 1`), two intermediate sectors survive onto `(0,0)`, and the theorem applies -/
example :
    C02.exA.validB = true ∧ C02.exB.validB = true ∧ C02.exA.fermi = false ∧ C02.exB.fermi = false
    ∧ tdotAdmissibleCommonB C02.exA C02.exB [1] [0] = true
    ∧ tdotAdmissibleCommonB C02.exA C02.exB ([1] ++ [2]) ([0] ++ [1]) = true
    ∧ (match tensordotA C02.exA C02.exB (.pair [1] [0]) .blockwise with
       | .ok c => (tsSurv c 3 3 [1] [0] [2] [1] [C02.c0, C02.c0]).length == 2
           && (tsSurv c 3 3 [1] [0] [2] [1] [C02.c0, C02.c0]).map (tsBox C02.exA C02.exB [1] [0] [2])
               == [[2], [2]]
       | .error _ => false) = true := by
  decide +kernel

example (c c' : Arr Int)
    (h1 : tensordotA C02.exA C02.exB (.pair ([1].map Int.ofNat) ([0].map Int.ofNat)) .blockwise = .ok c)
    (h3 : tensordotA C02.exA C02.exB (.pair (([1] ++ [2]).map Int.ofNat) (([0] ++ [1]).map Int.ofNat))
      .blockwise = .ok c') :
    ((tsSurv c C02.exA.ndim C02.exB.ndim [1] [0] [2] [1] [C02.c0, C02.c0]).map (fun s =>
        ((allIdx (tsBox C02.exA C02.exB [1] [0] [2] s)).map (fun t =>
          c.elem s (asmSide (freeAxes C02.exA.ndim [1]) [2] (freeAxes C02.exA.ndim ([1] ++ [2])) t [1]
            ++ asmSide (freeAxes C02.exB.ndim [0]) [1] (freeAxes C02.exB.ndim ([0] ++ [1])) t [0]))).sum)).sum
      = c'.elem [C02.c0, C02.c0] ([1] ++ [0]) :=
  two_step_values_abelian_partial C02.exA C02.exB c c' [1] [0] [2] [1] (by decide +kernel) (by decide +kernel)
    rfl rfl (by decide +kernel) (by decide +kernel) h1 h3 [C02.c0, C02.c0] [1] [0] (by decide +kernel)
    (by decide +kernel)

/-- non-vacuity of `two_step_abelian_sum`: the abelian Z2 operands `exA[i,j,k]`, `exB[j,k,m]` of
    C02 (three stored blocks each, a valid sector missing), first `j` (`1 ~ 0`), then `k` (`2 ~ 1`); the
    intermediate has the legs `i k | k m`, traced positions `1 ~ 2`; output sector
    `(0,0)`, address `(1,0)`.  `S`: the intermediate sectors with equal charges at positions 1, 2 whose
    kept part is `(0,0)` (two of them: the sum really runs over several sectors), `T s`: the size of leg
    `1` of the block `s`.  All hypotheses hold, and both sides evaluate to the same number. -/
example :
    let S : List Sector := (tensordotBlockwise C02.exA C02.exB [0, 2] [1] [0] [1, 2]).sectors.filter
      (fun s => permuted s [1] == permuted s [2] && permuted s [0, 3] == [C02.c0, C02.c0])
    let T : Sector → List Nat := fun s =>
      permuted (Arr.blockShapeD (without C02.exA.indices [1] ++ without C02.exB.indices [0]) s) [1]
    freeAxes C02.exA.ndim [1] = [0, 2] ∧ freeAxes C02.exB.ndim [0] = [1, 2] ∧ S.length = 2
    ∧ C02.exA.phases = [] ∧ C02.exB.phases = []
    ∧ allDistinct C02.exA.sectors = true ∧ allDistinct C02.exB.sectors = true ∧ S.Nodup
    ∧ (∀ sa ∈ C02.exA.sectors, ∀ sb ∈ C02.exB.sectors, permuted sb [0] = permuted sa [1] →
      ((permuted sa (freeAxes C02.exA.ndim [1]) ++ permuted sb (freeAxes C02.exB.ndim [0])) ∈ S ↔
        (permuted sb ([0] ++ [1]) = permuted sa ([1] ++ [2])
          ∧ permuted sa (freeAxes C02.exA.ndim ([1] ++ [2])) ++ permuted sb (freeAxes C02.exB.ndim ([0] ++ [1]))
            = [C02.c0, C02.c0])))
    ∧ (∀ sa ∈ C02.exA.sectors, ∀ sb ∈ C02.exB.sectors,
        permuted sb ([0] ++ [1]) = permuted sa ([1] ++ [2]) → permuted sb [0] = permuted sa [1])
    ∧ (∀ s ∈ S, ∀ p ∈ storedPairs C02.exA C02.exB (freeAxes C02.exA.ndim [1]) [1] [0]
          (freeAxes C02.exB.ndim [0]) s, T s = permuted (Arr.blockShapeD C02.exA.indices p.1) [2])
    ∧ (∀ sa ∈ C02.exA.sectors, ∀ i ∈ [1], i < (Arr.blockShapeD C02.exA.indices sa).length)
    ∧ (∀ s ∈ S, ∀ t ∈ allIdx (T s),
      inBox (Arr.blockShapeD (without C02.exA.indices [1] ++ without C02.exB.indices [0]) s)
        (asmSide (freeAxes C02.exA.ndim [1]) [2] (freeAxes C02.exA.ndim ([1] ++ [2])) t [1]
          ++ asmSide (freeAxes C02.exB.ndim [0]) [1] (freeAxes C02.exB.ndim ([0] ++ [1])) t [0]) = true)
    ∧ inBox (Arr.blockShapeD (without C02.exA.indices ([1] ++ [2]) ++ without C02.exB.indices ([0] ++ [1]))
        [C02.c0, C02.c0]) ([1] ++ [0]) = true
    ∧ (S.map (fun s => ((allIdx (T s)).map (fun t =>
        (tensordotBlockwise C02.exA C02.exB [0, 2] [1] [0] [1, 2]).elem s
          (asmSide [0, 2] [2] [0] t [1] ++ asmSide [1, 2] [1] [2] t [0]))).sum)).sum
      = (tensordotBlockwise C02.exA C02.exB [0] [1, 2] [0, 1] [2]).elem [C02.c0, C02.c0] [1, 0]
    ∧ (tensordotBlockwise C02.exA C02.exB [0] [1, 2] [0, 1] [2]).elem [C02.c0, C02.c0] [1, 0] ≠ 0 := by
  decide +kernel

/-! ## renaming the letters of the einsum equation -/

/-- **einsumA_rename.**  The abelian einsum only compares labels for equality. -/
theorem einsumA_rename [Zero R] [Add R] (f : Nat → Nat) (hf : ∀ x y, f x = f y → x = y)
    (a : Arr R) (lhs rhs : List Nat) :
    einsumA a (lhs.map f) (rhs.map f) = einsumA a lhs rhs :=
  TwoStepP.einsumA_rename hf a lhs rhs

/-- **einsumF_rename.**  The fermionic einsum sorts the axes by (output position, label, bra first): a
    strictly increasing renaming changes nothing. -/
theorem einsumF_rename [Zero R] [Add R] [Neg R] (f : Nat → Nat) (hm : ∀ x y, x < y → f x < f y)
    (a : Arr R) (lhs rhs : List Nat) :
    a.einsumF (lhs.map f) (rhs.map f) = a.einsumF lhs rhs :=
  TwoStepP.einsumF_rename hm a lhs rhs

/-- **two_step_values_renamed.** -/
theorem two_step_values_renamed [AddCommMonoid R] [Mul R] [Neg R] [SignRing R]
    (f : Nat → Nat) (hm : ∀ x y, x < y → f x < f y)
    (a b c e c' : Arr R) (xa xb ya yb : List Nat)
    (ha : a.validB = true) (hb : b.validB = true) (hfa : a.fermi = true) (hfb : b.fermi = true)
    (g1 : tdotAdmissibleCommonB a b xa xb = true)
    (g2 : tdotAdmissibleCommonB a b (xa ++ ya) (xb ++ yb) = true)
    (h1 : a.tensordotF b (.pair (xa.map Int.ofNat) (xb.map Int.ofNat)) .blockwise = .ok c)
    (h2 : c.einsumF ((tsLhs a.ndim b.ndim xa xb ya yb).map f) ((tsRhs a.ndim b.ndim xa xb ya yb).map f)
      = .ok e)
    (h3 : a.tensordotF b (.pair ((xa ++ ya).map Int.ofNat) ((xb ++ yb).map Int.ofNat)) .blockwise
      = .ok c') :
    e.oddpos = c'.oddpos ∧ e.charge = c'.charge ∧ e.sym = c'.sym ∧ e.fermi = c'.fermi
    ∧ e.ndim = c'.ndim
    ∧ (∀ s, s ∈ e.sectors ↔ s ∈ c'.sectors)
    ∧ (∀ s ∈ c'.sectors, Arr.blockShapeD e.indices s = Arr.blockShapeD c'.indices s)
    ∧ (∀ s ∈ c'.sectors, ∀ o, inBox (Arr.blockShapeD c'.indices s) o = true → e.elem s o = c'.elem s o)
    ∧ (∀ s, s ∉ c'.sectors → ∀ o, e.elem s o = 0 ∧ c'.elem s o = 0)
    ∧ (∀ j, j < c'.ndim → ∃ ix : Index,
        Pruned (e.indices.getD j default) ix ∧ Pruned (c'.indices.getD j default) ix) := by
  rw [TwoStepP.einsumF_rename hm] at h2
  exact two_step_values a b c e c' xa xb ya yb ha hb hfa hfb g1 g2 h1 h2 h3

/-- **two_step_values_at_renamed.** -/
theorem two_step_values_at_renamed [AddCommMonoid R] [Mul R] [Neg R] [SignRing R]
    (f : Nat → Nat) (hm : ∀ x y, x < y → f x < f y)
    (a b c e c' : Arr R) (xa xb ya yb : List Nat)
    (ha : a.validB = true) (hb : b.validB = true) (hfa : a.fermi = true) (hfb : b.fermi = true)
    (g1 : tdotAdmissibleCommonB a b xa xb = true)
    (g2 : tdotAdmissibleCommonB a b (xa ++ ya) (xb ++ yb) = true)
    (h1 : a.tensordotF b (.pair (xa.map Int.ofNat) (xb.map Int.ofNat)) .blockwise = .ok c)
    (h2 : c.einsumF ((tsLhs a.ndim b.ndim xa xb ya yb).map f) ((tsRhs a.ndim b.ndim xa xb ya yb).map f)
      = .ok e)
    (h3 : a.tensordotF b (.pair ((xa ++ ya).map Int.ofNat) ((xb ++ yb).map Int.ofNat)) .blockwise
      = .ok c')
    (s' : Sector) (fL fR : List Nat)
    (hfL : fL.length = (freeAxes a.ndim (xa ++ ya)).length)
    (hbox : inBox (Arr.blockShapeD (without a.indices (xa ++ ya) ++ without b.indices (xb ++ yb)) s')
      (fL ++ fR) = true) :
    e.elem s' (fL ++ fR) = c'.elem s' (fL ++ fR) := by
  rw [TwoStepP.einsumF_rename hm] at h2
  exact two_step_values_at a b c e c' xa xb ya yb ha hb hfa hfb g1 g2 h1 h2 h3 s' fL fR hfL hbox

/-- non-vacuity: `x ↦ 3 * x + 7` is strictly increasing; the canonical labels `abbc -> ac`
    (`[0,4,4,3] -> [0,3]`) become `[7,19,19,16] -> [7,16]`, and evaluation confirms that the einsum of the
    intermediate of `gA`, `gB` is the same array (labels, tables, pending signs, blocks) -/
example : (∀ x y : Nat, x < y → 3 * x + 7 < 3 * y + 7)
    ∧ (tsLhs 3 3 [1] [1] [2] [0]).map (fun x => 3 * x + 7) = [7, 19, 19, 16]
    ∧ (tsRhs 3 3 [1] [1] [2] [0]).map (fun x => 3 * x + 7) = [7, 16]
    ∧ (match C03.gA.tensordotF C03.gB (.pair [1] [1]) .blockwise with
       | .ok c => (match c.einsumF [7, 19, 19, 16] [7, 16], c.einsumF [0, 4, 4, 3] [0, 3] with
          | .ok e, .ok e' => e.oddpos == e'.oddpos && e.indices == e'.indices && e.phases == e'.phases
              && e.blocks.map (fun p => (p.1, p.2.data)) == e'.blocks.map (fun p => (p.1, p.2.data))
              && e.blocks.length == 2
          | _, _ => false)
       | .error _ => false) = true :=
  ⟨fun x y h => by omega, by decide, by decide, by decide +kernel⟩

/-! ## non-vacuity: `gA`, `gB` of C03 (odd Z2 operands with pending signs and labels) -/

open SymmModel.C03

/-- the hypotheses hold with the one-step call in fused and in auto mode, the calls succeed, and
    evaluation confirms labels, charge and that every block the blockwise result stores is stored with
    the same (synchronised) data -/
example :
    gA.validB = true ∧ gB.validB = true ∧ gA.fermi = true ∧ gB.fermi = true
    ∧ tdotAdmissibleCommonB gA gB [1] [1] = true
    ∧ tdotAdmissibleCommonB gA gB ([1] ++ [2]) ([1] ++ [0]) = true
    ∧ (∀ x : Int, 0 * x = 0) ∧ (∀ x : Int, x * 0 = 0)
    ∧ (match gA.tensordotF gB (.pair [1] [1]) .blockwise, gA.tensordotF gB (.pair [1, 2] [1, 0]) .fused,
         gA.tensordotF gB (.pair [1, 2] [1, 0]) .auto with
       | .ok c, .ok c', .ok c'' =>
         (match c.einsumF (tsLhs gA.ndim gB.ndim [1] [1] [2] [0]) (tsRhs gA.ndim gB.ndim [1] [1] [2] [0]) with
          | .ok e => e.oddpos == c'.oddpos && e.charge == c'.charge && e.oddpos == c''.oddpos
              && e.phaseSync.blocks.all (fun p =>
                  (alookup c'.phaseSync.blocks p.1).map (·.data) == some p.2.data
                  && (alookup c''.phaseSync.blocks p.1).map (·.data) == some p.2.data)
              && e.blocks.length == 2
          | .error _ => false)
       | _, _, _ => false) = true :=
  ⟨by decide +kernel, by decide +kernel, rfl, rfl, by decide +kernel, by decide +kernel,
    Int.zero_mul, Int.mul_zero, by decide +kernel⟩

/-- the theorem applies to this instance, fused mode -/
example (c e c' : Arr Int)
    (h1 : gA.tensordotF gB (.pair ([1].map Int.ofNat) ([1].map Int.ofNat)) .blockwise = .ok c)
    (h2 : c.einsumF (tsLhs gA.ndim gB.ndim [1] [1] [2] [0]) (tsRhs gA.ndim gB.ndim [1] [1] [2] [0]) = .ok e)
    (h3 : gA.tensordotF gB (.pair (([1] ++ [2]).map Int.ofNat) (([1] ++ [0]).map Int.ofNat)) .fused
      = .ok c') :
    e.oddpos = c'.oddpos :=
  (two_step_values_onestep_any_mode Int.zero_mul Int.mul_zero gA gB c e c' [1] [1] [2] [0] .fused
    (by decide +kernel) (by decide +kernel) rfl rfl (by decide +kernel) (by decide +kernel) h1 h2 h3).1

end SymmModel.C04
