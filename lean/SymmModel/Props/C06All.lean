/-
  C06 — Contraction commutes with fusing, and all contraction strategies agree: umbrella module.
  `Props/C06.lean`  : alignment (`dropMisaligned`: what it keeps, idempotence, irrelevance for the
                      blockwise contraction).
  `Props/C06b.lean` : the fused strategy — matching fused bond tables, fused = blockwise (value view,
                      stored sectors, fields, rank), all modes of `tensordot` agree, empty alignment.
-/
import SymmModel.Props.C06
import SymmModel.Props.C06b
