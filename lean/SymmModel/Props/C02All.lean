/-
  C02 — Abelian contraction equals dense contraction: umbrella module.
  `Props/C02.lean`  : blockwise core (charge, sectors, `elem` flagship, dense form over charge
                      tuples, scalar results, `tensordotA` blockwise mode, `parseAxes`).
  `Props/C02b.lean` : dense-level statement (`to_dense` commutes with the contraction), block
                      shapes, trace, single-operand einsum, matrix product, outer product.
-/
import SymmModel.Props.C02
import SymmModel.Props.C02b
