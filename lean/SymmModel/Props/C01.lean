/-
  Property C01 — every result is a valid symmetric array (charge conservation is closed).

  All theorems are about the model's decidable validity predicate `Arr.validB`
  (Model/Valid.lean: index tables `Index.wfB` incl. the fused-index bookkeeping `extentOk`,
  distinct block keys, every stored sector charge-conserving with the shape its tables give,
  for fermionic arrays the pending-sign table and the odd-position parity) and the model
  operations in Model/Arr.lean, Fermi.lean, Tdot.lean, Linalg.lean.  They hold for every
  symmetry (`Sym`: Z2, Z4, U1, Z2Z2, U1U1), every rank, index table, sparsity pattern and any
  scalar type `R` (only the type classes the model functions themselves need).

  Form: `validB operands = true ∧ call admissible → validB result = true`.
  Admissibility hypotheses are decidable (`Arr.isPerm`, `contractibleB`, …) except the SHAPE
  contract of the LAPACK kernels (`QrShapeContract`, `SvdShapeContract`: q : m×k, r : k×n,
  k = min m n), which `Kernels.shapeOnly` satisfies.  Each theorem is followed by an `example`
  showing its hypotheses hold for a concrete non-trivial array.

  Proofs: Proofs/ValidLemmas.lean (lists, tables, `Arr.Valid` = `validB` clause by clause),
  ValidOps.lean, ValidTdot.lean, ValidMore.lean, ValidTdotF.lean, ValidLinalg.lean,
  ValidFuse.lean, ValidFuse2.lean, ValidFuseF.lean, ValidTdotFused.lean, ValidMisc.lean,
  ValidProg.lean.

  Not covered (PLANNED): fuse in `mode="concat"`, einsum, solve (known finding for an odd
  matrix), svd_truncated (`applyCounts`), reshape, align_axes.

  One statement is deliberately NOT of the naive form, with a machine-checked counterexample
  below:
    * `expandDims_some_valid` needs `a.fermi = false ∨ parity c = false`
      (`expandDims_odd_charge_invalid`: known finding "expand-dims-odd-charge").
  `squeeze` used to be the second one (former known finding "stale-phase-key-squeeze": `validB`
  allows a sign-table key whose block was dropped and whose removed charge is non-zero; the old
  `_map_blocks` re-keyed it into a key that does not conserve the charge).  Since the repair of
  `FermionicArray._map_blocks` (only the sign entries of stored blocks are re-keyed)
  `squeeze_valid_any_phases` holds with no hypothesis on the sign table;
  `squeeze_drops_stale_phase_keys` is the regression theorem on the old witness and
  `squeeze_phase_keys_stored` the general statement.
-/
import SymmModel.Proofs.ValidProg

namespace SymmModel.C01
open SymmModel SymmModel.ValidP

variable {R : Type}

instance : Conj Int := ⟨id⟩

/-! ## concrete arrays used by the `example`s -/

def subS1 : Index := .mk [((0, 0), 1), ((1, 0), 1)] true none
def subS2 : Index := .mk [((0, 0), 2), ((1, 0), 1)] false none

/-- U1 index of direction `true` fused from `subS1 ⊗ subS2` (mixed directions inside) -/
def fusedF : Index :=
  .mk [((-1, 0), 1), ((0, 0), 3), ((1, 0), 2)] true
    (some ([subS1, subS2],
      [((-1, 0), [([(0, 0), (1, 0)], 1)]),
       ((0, 0), [([(0, 0), (0, 0)], 2), ([(1, 0), (1, 0)], 1)]),
       ((1, 0), [([(1, 0), (0, 0)], 2)])]))

/-- abelian U1 matrix, mixed directions, second index fused, two blocks -/
def exA : Arr Int :=
  { sym := .U1, fermi := false,
    indices := [.mk [((0, 0), 1), ((1, 0), 2)] false none, fusedF],
    charge := (0, 0),
    blocks := [([(0, 0), (0, 0)], ⟨[1, 3], #[1, 2, 3]⟩), ([(1, 0), (1, 0)], ⟨[2, 2], #[4, 5, 6, 7]⟩)] }

/-- abelian U1 matrix whose first index matches `fusedF` with the opposite direction -/
def exB : Arr Int :=
  { sym := .U1, fermi := false,
    indices := [fusedF.conj, .mk [((0, 0), 2), ((1, 0), 1)] true none],
    charge := (0, 0),
    blocks := [([(0, 0), (0, 0)], ⟨[3, 2], #[1, 2, 3, 4, 5, 6]⟩), ([(1, 0), (1, 0)], ⟨[2, 1], #[7, 8]⟩)] }

/-- fermionic Z2 rank-3 array of odd parity: mixed directions, three blocks, one pending sign,
    one odd-position label -/
def exF : Arr Int :=
  { sym := .Z2, fermi := true,
    indices := [.mk [((0, 0), 1), ((1, 0), 2)] false none,
                .mk [((0, 0), 2), ((1, 0), 1)] true none,
                .mk [((0, 0), 1), ((1, 0), 1)] false none],
    charge := (1, 0),
    blocks := [([(1, 0), (0, 0), (0, 0)], ⟨[2, 2, 1], #[1, 2, 3, 4]⟩),
               ([(0, 0), (1, 0), (0, 0)], ⟨[1, 1, 1], #[5]⟩),
               ([(1, 0), (1, 0), (1, 0)], ⟨[2, 1, 1], #[6, 7]⟩)],
    phases := [([(0, 0), (1, 0), (0, 0)], -1)],
    oddpos := [(7, false)] }

/-- fermionic Z2 matrix of odd parity whose first index matches the last one of `exF` -/
def exG : Arr Int :=
  { sym := .Z2, fermi := true,
    indices := [.mk [((0, 0), 1), ((1, 0), 1)] true none,
                .mk [((0, 0), 2), ((1, 0), 3)] false none],
    charge := (1, 0),
    blocks := [([(0, 0), (1, 0)], ⟨[1, 3], #[1, 2, 3]⟩), ([(1, 0), (0, 0)], ⟨[1, 2], #[4, 5]⟩)],
    phases := [([(1, 0), (0, 0)], -1)],
    oddpos := [(3, true)] }

example : exA.validB = true ∧ exB.validB = true ∧ exF.validB = true ∧ exG.validB = true := by
  decide

/-! ## 1. transpose -/

theorem transposeA_valid [Zero R] (a : Arr R) (axes : List Nat) (hv : a.validB = true)
    (hf : a.fermi = false) (hp : Arr.isPerm axes a.ndim = true) :
    (a.transposeA axes).validB = true :=
  (validB_iff _).mpr (ValidP.transposeA_valid a axes ((validB_iff a).mp hv) hf hp)

example : exA.validB = true ∧ exA.fermi = false ∧ Arr.isPerm [1, 0] exA.ndim = true := by decide

theorem transposeF_valid [Zero R] (a : Arr R) (axes : List Nat) (phase : Bool)
    (hv : a.validB = true) (hf : a.fermi = true) (hp : Arr.isPerm axes a.ndim = true) :
    (a.transposeF axes phase).validB = true :=
  (validB_iff _).mpr (ValidP.transposeF_valid a axes phase ((validB_iff a).mp hv) hf hp)

example : exF.validB = true ∧ exF.fermi = true ∧ Arr.isPerm [2, 0, 1] exF.ndim = true := by decide

/-! ## 2. conj, dagger -/

theorem conjA_valid [Conj R] (a : Arr R) (hv : a.validB = true) (hf : a.fermi = false) :
    a.conjA.validB = true :=
  (validB_iff _).mpr (ValidP.conjA_valid a ((validB_iff a).mp hv) hf)

/-- all four option combinations of `FermionicArray.conj` -/
theorem conjF_valid [Conj R] (a : Arr R) (phasePerm phaseDual : Bool) (hv : a.validB = true)
    (hf : a.fermi = true) : (a.conjF phasePerm phaseDual).validB = true :=
  (validB_iff _).mpr (ValidP.conjF_valid a phasePerm phaseDual ((validB_iff a).mp hv) hf)

theorem daggerF_valid [Zero R] [Conj R] (a : Arr R) (phaseDual : Bool) (hv : a.validB = true)
    (hf : a.fermi = true) : (a.daggerF phaseDual).validB = true :=
  (validB_iff _).mpr (ValidP.daggerF_valid a phaseDual ((validB_iff a).mp hv) hf)

/-- the sector charge of the conjugated array is the negated combination -/
theorem sectorCharge_conj (sym : Sym) (idx : List Index) (s : Sector) (h : s.length = idx.length) :
    Arr.sectorCharge sym ((idx.map Index.conj).map Index.dual) s
      = sym.sign (Arr.sectorCharge sym (idx.map Index.dual) s) true :=
  (secOk_conj (sym := sym) (idx := idx) (ch := Arr.sectorCharge sym (idx.map Index.dual) s)
    ⟨h, rfl⟩).2

/-- `BlockIndex.conj` keeps an index well formed (incl. the fused-index bookkeeping) -/
theorem conj_wfB (sym : Sym) (i : Index) (h : Index.wfB sym i = true) :
    Index.wfB sym i.conj = true := ValidP.conj_wfB sym i h

example : Index.wfB .U1 fusedF = true ∧ Index.wfB .U1 fusedF.conj = true := by decide

/-! ## 3. phase operations -/

theorem phaseFlip_valid (a : Arr R) (axs : List Nat) (hv : a.validB = true) (hf : a.fermi = true) :
    (a.phaseFlip axs).validB = true :=
  (validB_iff _).mpr (ValidP.phaseFlip_valid a axs ((validB_iff a).mp hv) hf)

theorem phaseTranspose_valid (a : Arr R) (axes : Option (List Nat)) (hv : a.validB = true)
    (hf : a.fermi = true) : (a.phaseTranspose axes).validB = true :=
  (validB_iff _).mpr (ValidP.phaseTranspose_valid a axes ((validB_iff a).mp hv) hf)

/-- for a sector that has one charge per index and is charge-conserving -/
theorem phaseSector_valid (a : Arr R) (sector : Sector) (hv : a.validB = true) (hf : a.fermi = true)
    (hl : sector.length = a.ndim) (hs : a.isValidSector sector = true) :
    (a.phaseSector sector).validB = true :=
  (validB_iff _).mpr (ValidP.phaseSector_valid a sector ((validB_iff a).mp hv) hf
    ⟨hl, by simpa [Arr.isValidSector, Arr.duals] using hs⟩)

example : exF.isValidSector [(0, 0), (0, 0), (1, 0)] = true := by decide

theorem phaseGlobal_valid (a : Arr R) (hv : a.validB = true) (hf : a.fermi = true) :
    a.phaseGlobal.validB = true :=
  (validB_iff _).mpr (ValidP.phaseGlobal_valid a ((validB_iff a).mp hv) hf)

/-- abelian and fermionic -/
theorem phaseSync_valid [Neg R] (a : Arr R) (hv : a.validB = true) : a.phaseSync.validB = true :=
  (validB_iff _).mpr (ValidP.phaseSync_valid a ((validB_iff a).mp hv))

/-! ## 4. expand_dims, squeeze -/

theorem expandDims_none_valid (a : Arr R) (axis : Nat) (dual : Option Bool) (hv : a.validB = true) :
    (a.expandDims axis none dual).validB = true :=
  (validB_iff _).mpr (ValidP.expandDims_none_valid a axis dual ((validB_iff a).mp hv))

/-- an extra charge `c`: abelian arrays, or fermionic arrays with an even `c` -/
theorem expandDims_some_valid (a : Arr R) (axis : Nat) (c : Charge) (dual : Option Bool)
    (hv : a.validB = true) (hc : a.sym.valid c = true)
    (hpar : a.fermi = false ∨ a.sym.parity c = false) :
    (a.expandDims axis (some c) dual).validB = true :=
  (validB_iff _).mpr (ValidP.expandDims_some_valid a axis c dual ((validB_iff a).mp hv) hc hpar)

example : exA.sym.valid (3, 0) = true ∧ exA.fermi = false := by decide

/-- known finding "expand-dims-odd-charge": on a fermionic array an odd extra charge makes the
    total charge odd without adding an odd-position label -/
theorem expandDims_odd_charge_invalid :
    exF.validB = true ∧ exF.sym.valid (1, 0) = true
    ∧ (exF.expandDims 1 (some (1, 0)) none).validB = false
    ∧ (exF.expandDims 1 (some (1, 0)) none).invalidReason = "oddpos-parity" := by
  decide

/-- **`squeeze` preserves validity**, whatever the pending-sign table holds (entries whose block
    was dropped earlier — by `multiply_diagonal`, `align_axes`, `drop_missing_blocks` — are
    discarded by `_map_blocks`) -/
theorem squeeze_valid_any_phases (a : Arr R) (axis : Option (List Nat)) (r : Arr R)
    (hv : a.validB = true) (h : a.squeeze axis = .ok r) : r.validB = true :=
  (validB_iff _).mpr (ValidP.squeeze_valid_any_phases a axis r ((validB_iff a).mp hv) h)

/-- the former statement, with the hypothesis the unrepaired `_map_blocks` needed (kept for the
    callers that have it; it is implied by `squeeze_valid_any_phases`) -/
theorem squeeze_valid (a : Arr R) (axis : Option (List Nat)) (r : Arr R) (hv : a.validB = true)
    (_hph : phaseKeysInTablesB a = true) (h : a.squeeze axis = .ok r) : r.validB = true :=
  squeeze_valid_any_phases a axis r hv h

example : phaseKeysInTablesB exF = true ∧ phaseKeysInTablesB exA = true := by decide

/-- after `squeeze` (of any array, valid or not) every key of the pending-sign table of a
    fermionic result is a stored sector: nothing stale survives -/
theorem squeeze_phase_keys_stored (a : Arr R) (axis : Option (List Nat)) (r : Arr R)
    (hf : a.fermi = true) (h : a.squeeze axis = .ok r) :
    ∀ k ∈ r.phases.map (·.1), k ∈ r.sectors :=
  ValidP.squeeze_phase_keys_stored a axis r hf h

/-- a valid fermionic array with a stale sign-table key (no block is stored for it and charge `1`
    is not in the table of the second index): the witness of the former known finding
    "stale-phase-key-squeeze" -/
def exStale : Arr Int :=
  { sym := .U1, fermi := true,
    indices := [.mk [((0, 0), 1), ((1, 0), 1)] false none, .mk [((0, 0), 1)] true none],
    charge := (0, 0),
    blocks := [([(0, 0), (0, 0)], ⟨[1, 1], #[5]⟩)],
    phases := [([(1, 0), (1, 0)], -1)],
    oddpos := [] }

/-- **regression** (replaces `squeeze_needs_phase_keys_in_tables`): on the old witness — valid,
    with a sign-table key outside the index tables — `squeeze` now drops the stale entry and
    returns a valid array holding the same number -/
theorem squeeze_drops_stale_phase_keys :
    exStale.validB = true ∧ phaseKeysInTablesB exStale = false
    ∧ (match exStale.squeeze none with
       | .ok r => r.validB && r.phases == [] && r.elem [(0, 0)] [0] == 5
       | .error _ => false) = true := by
  decide

example : ∀ r, exStale.squeeze none = .ok r → r.validB = true :=
  fun r h => squeeze_valid_any_phases exStale none r (by decide) h

/-! ## 5. contraction -/

/-- flagship: the block-wise contraction of abelian arrays with matching contracted indices
    (`contractibleB`: same charge table, opposite direction) is valid.  `leftAxes/rightAxes` are
    the complements exactly as `tensordot_abelian` computes them. -/
theorem tensordotBlockwise_valid [Zero R] [Add R] [Mul R] (a b : Arr R) (axesA axesB : List Nat)
    (ha : a.validB = true) (hb : b.validB = true) (hsym : a.sym = b.sym) (hfa : a.fermi = false)
    (hc : contractibleB a b axesA axesB = true)
    (hnA : allDistinct axesA = true) (hnB : allDistinct axesB = true)
    (hA : axesA.all (fun i => decide (i < a.ndim)) = true)
    (hB : axesB.all (fun i => decide (i < b.ndim)) = true) :
    (tensordotBlockwise a b (without (List.range a.ndim) axesA) axesA axesB
      (without (List.range b.ndim) axesB)).validB = true :=
  (validB_iff _).mpr (ValidP.tensordotBlockwise_valid a b axesA axesB ((validB_iff a).mp ha)
    ((validB_iff b).mp hb) hsym hfa (contractible_opposite hc)
    ((allDistinct_iff _).mp hnA) ((allDistinct_iff _).mp hnB)
    (by simpa using hA) (by simpa using hB))

example : exA.sym = exB.sym ∧ contractibleB exA exB [1] [0] = true
    ∧ tdotAdmissibleB exA exB [1] [0] = true := by decide

/-- for ANY kind of operands (also fermionic ones with pending signs): the result satisfies
    every clause of `validB` that does not speak about signs, i.e. it is valid as an abelian
    array; `resolve_combined_oddpos` then repairs the odd-position clause, see
    `tensordotF_valid` -/
theorem tensordotBlockwise_valid_abelian_part [Zero R] [Add R] [Mul R] (a b : Arr R)
    (axesA axesB : List Nat)
    (ha : a.validB = true) (hb : b.validB = true) (hsym : a.sym = b.sym)
    (hc : contractibleB a b axesA axesB = true)
    (hnA : allDistinct axesA = true) (hnB : allDistinct axesB = true)
    (hA : axesA.all (fun i => decide (i < a.ndim)) = true)
    (hB : axesB.all (fun i => decide (i < b.ndim)) = true) :
    ({ (tensordotBlockwise a b (without (List.range a.ndim) axesA) axesA axesB
          (without (List.range b.ndim) axesB)) with
        fermi := false, phases := [], oddpos := [] } : Arr R).validB = true := by
  have hcore := ValidP.tensordotBlockwise_core a b axesA axesB ((validB_iff a).mp ha).core
    ((validB_iff b).mp hb).core hsym (contractible_opposite hc)
    ((allDistinct_iff _).mp hnA) ((allDistinct_iff _).mp hnB)
    (by simpa using hA) (by simpa using hB)
  exact (validB_iff _).mpr ⟨hcore.idx, hcore.chg, hcore.nodup, hcore.blk, by
    unfold SignsOk; exact ⟨rfl, rfl⟩⟩

/-- the public entry `tensordot_abelian(a, b, axes, mode)` in EVERY mode: `blockwise`, `fused`
    (drop misaligned sectors, fuse both operands to matrices, contract, unfuse) and `auto` -/
theorem tensordotA_valid [Zero R] [Add R] [Mul R] (mode : TdotMode) (a b r : Arr R)
    (axesA axesB : List Nat)
    (ha : a.validB = true) (hb : b.validB = true) (hfa : a.fermi = false)
    (hadm : tdotAdmissibleB a b axesA axesB = true)
    (h : tensordotA a b (.pair (axesA.map Int.ofNat) (axesB.map Int.ofNat)) mode = .ok r) :
    r.validB = true :=
  (validB_iff _).mpr (tensordotA_valid_all mode a b r axesA axesB ((validB_iff a).mp ha)
    ((validB_iff b).mp hb) hfa hadm h)

/-- the public entry `tensordot_fermionic(a, b, axes, mode)` in every mode: transposes, phase
    bookkeeping, the abelian kernel and `resolve_combined_oddpos` — the result is valid
    including the odd-position parity clause -/
theorem tensordotF_valid [Zero R] [Add R] [Mul R] [Neg R] (mode : TdotMode) (a b r : Arr R)
    (axesA axesB : List Nat)
    (ha : a.validB = true) (hb : b.validB = true) (hfa : a.fermi = true) (hfb : b.fermi = true)
    (hadm : tdotAdmissibleB a b axesA axesB = true)
    (h : Arr.tensordotF a b (.pair (axesA.map Int.ofNat) (axesB.map Int.ofNat)) mode = .ok r) :
    r.validB = true :=
  (validB_iff _).mpr (tensordotF_valid_all mode a b r axesA axesB ((validB_iff a).mp ha)
    ((validB_iff b).mp hb) hfa hfb hadm h)

/-- `a @ b` for ranks 1 and 2, abelian -/
theorem matmulA_valid [Zero R] [Add R] [Mul R] (a b c : Arr R) (ha : a.validB = true)
    (hb : b.validB = true) (hfa : a.fermi = false) (hadm : matmulAdmissibleB a b = true)
    (h : matmulA a b = .ok c) : c.validB = true :=
  (validB_iff _).mpr (ValidP.matmulA_valid a b c ((validB_iff a).mp ha) ((validB_iff b).mp hb)
    hfa hadm h)

/-- `a @ b`, fermionic -/
theorem matmulF_valid [Zero R] [Add R] [Mul R] [Neg R] (a b c : Arr R) (ha : a.validB = true)
    (hb : b.validB = true) (hfa : a.fermi = true) (hfb : b.fermi = true)
    (hadm : matmulAdmissibleB a b = true) (h : Arr.matmulF a b = .ok c) : c.validB = true :=
  (validB_iff _).mpr (ValidP.matmulF_valid a b c ((validB_iff a).mp ha) ((validB_iff b).mp hb)
    hfa hfb hadm h)

example : matmulAdmissibleB exA exB = true := by decide

example : tdotAdmissibleB exF exG [2] [0] = true := by decide

/-- cross-check by evaluation: the example contractions (block-wise and fused mode) succeed, have two blocks each and
    pass `validB` -/
example :
    (match tensordotA exA exB (.pair [1] [0]) .blockwise with
     | .ok r => r.validB && r.blocks.length == 2
     | .error _ => false) = true
    ∧ (match tensordotA exA exB (.pair [1] [0]) .fused with
       | .ok r => r.validB && r.blocks.length == 2
       | .error _ => false) = true
    ∧ (match Arr.tensordotF exF exG (.pair [2] [0]) .blockwise with
       | .ok r => r.validB && decide (2 ≤ r.blocks.length)
       | .error _ => false) = true
    ∧ (match Arr.tensordotF exF exG (.pair [2] [0]) .auto with
       | .ok r => r.validB && decide (2 ≤ r.blocks.length)
       | .error _ => false) = true := by
  decide +kernel

/-! ## 6. drop_misaligned, sync_charges, multiply_diagonal, blockwise arithmetic -/

theorem dropMisaligned_valid (a b : Arr R) (axesA axesB : List Nat) (ha : a.validB = true)
    (hb : b.validB = true) :
    (dropMisaligned a b axesA axesB).1.validB = true ∧ (dropMisaligned a b axesA axesB).2.validB = true :=
  let h := ValidP.dropMisaligned_valid a b axesA axesB ((validB_iff a).mp ha) ((validB_iff b).mp hb)
  ⟨(validB_iff _).mpr h.1, (validB_iff _).mpr h.2⟩

theorem syncCharges_valid (a : Arr R) (hv : a.validB = true) : a.syncCharges.validB = true :=
  (validB_iff _).mpr (ValidP.syncCharges_valid a ((validB_iff a).mp hv))

/-- no hypothesis on the vector is needed: sectors whose charge the vector lacks are dropped and
    `mulAxisK` keeps the block shape -/
theorem multiplyDiagonal_valid [Zero R] [Mul R] (a : Arr R) (v : BVec R) (axis : Nat)
    (hv : a.validB = true) : (multiplyDiagonal a v axis).validB = true :=
  (validB_iff _).mpr (ValidP.multiplyDiagonal_valid a v axis ((validB_iff a).mp hv))

/-- `_binary_blockwise_op` for all three `missing` modes, with a shape-preserving kernel
    (`Blk.zipWith f` is one: `zipWith_shapePreserving`): both operands valid with the same tables
    and charge -/
theorem binaryBlockwise_valid (fn : Blk R → Blk R → Blk R) (hfn : ShapePreserving fn)
    (missing : Missing) (x y : Arr R) (r : List (Sector × Blk R))
    (hx : x.validB = true) (hy : y.validB = true) (hsym : y.sym = x.sym)
    (hidx : y.indices = x.indices) (hch : y.charge = x.charge)
    (h : binaryBlockwise fn missing x.blocks y.blocks = .ok r) :
    ({ x with blocks := r } : Arr R).validB = true :=
  (validB_iff _).mpr (ValidP.binaryBlockwise_valid fn hfn missing x y r ((validB_iff x).mp hx)
    ((validB_iff y).mp hy) hsym hidx hch h)

example : ShapePreserving (Blk.zipWith (fun x y : Int => x + y)) := zipWith_shapePreserving _

/-- weaker, decidable precondition: the second operand's blocks fit the first one's tables -/
theorem binaryBlockwise_valid_fits [Zero R] (f : R → R → R) (missing : Missing) (x y : Arr R)
    (r : List (Sector × Blk R)) (hx : x.validB = true) (hy : fitsB x y = true)
    (h : binaryBlockwise (Blk.zipWith f) missing x.blocks y.blocks = .ok r) :
    ({ x with blocks := r } : Arr R).validB = true :=
  (validB_iff _).mpr (ValidP.binaryBlockwise_valid' _ (zipWith_shapePreserving f) missing x y.blocks r
    ((validB_iff x).mp hx) (fitsB_blockOk hy).1 (fitsB_blockOk hy).2 h)

example : fitsB exA exA = true := by decide

/-! ## 7. qr, svd -/

/-- both factors of `qr` are valid, abelian and fermionic, under the kernel shape contract;
    in particular the new bond index is well formed (sorted, positive sizes) because distinct
    sectors of a valid matrix have distinct column charges (`matrix_sector_injective`) -/
theorem qrA_valid (K : Kernels R) (x q r : Arr R) (hv : x.validB = true) (hK : QrShapeContract K)
    (h : qrA K x = .ok (q, r)) : q.validB = true ∧ r.validB = true :=
  ValidP.qrA_validB K x q r hv hK h

theorem svdA_valid (K : Kernels R) (x u v : Arr R) (s : BVec R) (hv : x.validB = true)
    (hK : SvdShapeContract K) (h : svdA K x = .ok (u, s, v)) :
    u.validB = true ∧ v.validB = true :=
  ValidP.svdA_validB K x u v s hv hK h

/-- the eigenvector array of `eigh` (abelian and fermionic) under the kernel shape contract
    (eigenvectors of a square block: same shape) -/
theorem eighA_valid [Neg R] (K : Kernels R) (a v : Arr R) (w : BVec R) (hv : a.validB = true)
    (hK : EighShapeContract K) (h : eighA K a = .ok (w, v)) : v.validB = true :=
  (validB_iff _).mpr (ValidP.eighA_valid K a v w ((validB_iff a).mp hv) hK h)

example : EighShapeContract (Kernels.shapeOnly : Kernels Int) := shapeOnly_eighContract

/-- in a valid matrix the row charge of a stored sector is determined by its column charge -/
theorem matrix_sector_injective {x : Arr R} (hv : x.validB = true) {i0 i1 : Index}
    (hi : x.indices = [i0, i1]) {c0 c0' c1 : Charge}
    (h1 : [c0, c1] ∈ x.sectors) (h2 : [c0', c1] ∈ x.sectors) : c0 = c0' :=
  (List.cons.inj (ValidP.matrix_sector_injective ((validB_iff x).mp hv) hi h1 h2 rfl)).1

example : QrShapeContract (Kernels.shapeOnly : Kernels Int)
    ∧ SvdShapeContract (Kernels.shapeOnly : Kernels Int) :=
  ⟨shapeOnly_qrContract, shapeOnly_svdContract⟩

example : ∃ q r, qrA Kernels.shapeOnly exA = .ok (q, r) ∧ q.validB = true ∧ r.validB = true :=
  ⟨_, _, rfl, by decide +kernel, by decide +kernel⟩

/-! ## 9. fuse, unfuse (stretch goal; insert mode) -/

/-- the index tables `calc_fuse_block_info` produces are well formed, including the
    sub-index bookkeeping (`extentOk`) of every newly fused index; no hypothesis on `groups` -/
theorem calcFuseBlockInfo_wf (a : Arr R) (groups : List (List Nat)) (fi : FuseInfo)
    (hv : a.validB = true) (h : calcFuseBlockInfo a groups = .ok fi) :
    Index.wfListB a.sym fi.newIndices = true :=
  (wfListB_iff _ _).mpr (ValidP.calcFuseBlockInfo_wf a groups fi ((validB_iff a).mp hv).idx h)

/-- `_fuse_core(mode="insert")`; `fuseAdmissibleB`: grouped axes distinct and in range -/
theorem fuseCore_valid [Zero R] (a r : Arr R) (groups : List (List Nat)) (hv : a.validB = true)
    (hf : a.fermi = false) (hadm : fuseAdmissibleB groups a.ndim = true)
    (h : fuseCore a groups .insert = .ok r) : r.validB = true :=
  ValidP.fuseCore_insert_validB a r groups hv hf hadm h

/-- `AbelianArray.fuse(*groups, expand_empty, mode="insert")`, empty groups included -/
theorem fuseA_valid [Zero R] (a r : Arr R) (groups : List (List Nat)) (expandEmpty : Bool)
    (hv : a.validB = true) (hf : a.fermi = false) (hadm : fuseAdmissibleB groups a.ndim = true)
    (h : fuseA a groups .insert expandEmpty = .ok r) : r.validB = true :=
  (validB_iff _).mpr (ValidP.fuseA_valid a r groups expandEmpty ((validB_iff a).mp hv) hf hadm h)

/-- `FermionicArray.fuse(*groups, expand_empty, mode="insert")`: transpose, the three phase
    operations, `_fuse_core`, `expand_dims` -/
theorem fuseF_valid [Zero R] [Neg R] (a r : Arr R) (groups : List (List Nat)) (expandEmpty : Bool)
    (hv : a.validB = true) (hf : a.fermi = true) (hadm : fuseAdmissibleB groups a.ndim = true)
    (h : Arr.fuseF a groups .insert expandEmpty = .ok r) : r.validB = true :=
  (validB_iff _).mpr (ValidP.fuseF_valid a r groups expandEmpty ((validB_iff a).mp hv) hf hadm h)

example : fuseAdmissibleB [[2, 0], [], [1]] exF.ndim = true := by decide

theorem unfuseA_valid [Zero R] (a r : Arr R) (axis : Nat) (hv : a.validB = true)
    (hf : a.fermi = false) (h : unfuseA a axis = .ok r) : r.validB = true :=
  ValidP.unfuseA_validB a r axis hv hf h

theorem unfuseF_valid [Zero R] [Neg R] (a r : Arr R) (axis : Nat) (hv : a.validB = true)
    (hf : a.fermi = true) (h : Arr.unfuseF a axis = .ok r) : r.validB = true :=
  (validB_iff _).mpr (ValidP.unfuseF_valid a r axis ((validB_iff a).mp hv) hf h)

theorem unfuseAllA_valid [Zero R] (a r : Arr R) (hv : a.validB = true) (hf : a.fermi = false)
    (h : unfuseAllA a = .ok r) : r.validB = true :=
  (validB_iff _).mpr (ValidP.unfuseAllA_valid a r ((validB_iff a).mp hv) hf h)

theorem unfuseAllF_valid [Zero R] [Neg R] (a r : Arr R) (hv : a.validB = true)
    (hf : a.fermi = true) (h : Arr.unfuseAllF a = .ok r) : r.validB = true :=
  (validB_iff _).mpr (ValidP.unfuseAllF_valid a r ((validB_iff a).mp hv) hf h)

/-- cross-check by evaluation: unfusing the fused index of `exA` gives three blocks, fusing two
    axes of the fermionic `exF` (with an empty group) succeeds; both results pass `validB` -/
example :
    (match unfuseA exA 1 with
     | .ok r => r.validB && r.blocks.length == 3 && r.ndim == 3
     | .error _ => false) = true
    ∧ (match Arr.fuseF exF [[2, 0], [], [1]] .insert true with
       | .ok r => r.validB && r.ndim == 3 && decide (2 ≤ r.blocks.length)
       | .error _ => false) = true := by
  decide +kernel

/-! ## 8. programs -/

/-- every finite sequence of operations (`Op`: transpose, conj, dagger, the five phase
    operations, expand_dims, squeeze, sync_charges, multiply_diagonal, drop_misaligned,
    tensordot in every mode and matmul (abelian and fermionic, second operand as parameter),
    blockwise arithmetic, qr / svd / eigh factors, fuse, unfuse, unfuse_all) maps a valid array to a valid array.  `Prog.run` stops with an error at the
    first inadmissible call (`Op.admissible`, decidable) or model error. -/
theorem Prog.preserves_valid [Zero R] [Add R] [Mul R] [Neg R] [Conj R] (p : Prog R) (a r : Arr R)
    (hv : a.validB = true) (hK : ∀ op ∈ p, op.KernelOk) (h : p.run a = .ok r) :
    r.validB = true :=
  (validB_iff _).mpr (ValidP.Prog.run_valid p a r ((validB_iff a).mp hv) hK h)

/-- one step, for reference: an admissible call on a valid array returns a valid array -/
theorem Op.preserves_valid [Zero R] [Add R] [Mul R] [Neg R] [Conj R] (op : Op R) (a r : Arr R)
    (hv : a.validB = true) (hK : op.KernelOk) (hadm : op.admissible a = true)
    (h : op.apply a = .ok r) : r.validB = true :=
  (validB_iff _).mpr (ValidP.Op.apply_valid op a r ((validB_iff a).mp hv) hK hadm h)

/-- a program of length 12 over the abelian example (re-keying, contraction with a fused index,
    arithmetic, decomposition) … -/
def progA : Prog Int :=
  [.transpose [1, 0] true, .conj true false, .transpose [1, 0] true, .conj true false,
   .tensordot exB [1] [0] .auto, .expandDims 1 none (some true), .squeeze (some [1]),
   .syncCharges, .qrQ Kernels.shapeOnly, .fuse [[1, 0]] true, .unfuse 0,
   .expandDims 0 (some (2, 0)) none]

/-- … and one of length 10 over the fermionic example -/
def progF : Prog Int :=
  [.fuse [[1, 2]] true, .unfuse 1,
   .transpose [2, 0, 1] true, .phaseFlip [0, 2], .conj true true, .dagger true,
   .phaseTranspose none, .phaseGlobal, .tensordot exG [2] [0] .fused, .phaseSync]

example : (∀ op ∈ progA, op.KernelOk) ∧ (∀ op ∈ progF, op.KernelOk) := by
  refine ⟨fun op h => ?_, fun op h => ?_⟩
  · simp only [progA, List.mem_cons, List.not_mem_nil, or_false] at h
    rcases h with rfl | rfl | rfl | rfl | rfl | rfl | rfl | rfl | rfl | rfl | rfl | rfl <;>
      first | trivial | exact shapeOnly_qrContract
  · simp only [progF, List.mem_cons, List.not_mem_nil, or_false] at h
    rcases h with rfl | rfl | rfl | rfl | rfl | rfl | rfl | rfl | rfl | rfl <;> trivial

/-- both programs run to completion (every call admissible) with non-trivial results -/
example :
    (match progA.run exA with
     | .ok r => r.validB && decide (2 ≤ r.blocks.length)
     | .error _ => false) = true
    ∧ (match progF.run exF with
       | .ok r => r.validB && decide (2 ≤ r.blocks.length)
       | .error _ => false) = true := by
  decide +kernel

end SymmModel.C01
