/- Umbrella for property C03: C03All2 plus C06d (graded refinement in every contraction mode, no box hypothesis). -/
import SymmModel.Props.C03All2
import SymmModel.Props.C06All3
