/-
  Property C11 (seventh part).

  1. `eigh` and `solve` reconstruction through `tensordot` (EVERY contraction mode: blockwise /
     fused / auto) instead of `@`:
       `matmulF_tensordotF_agree`                 the transfer lemma: for valid fermionic operands of
            rank 1 or 2 with contractible inner legs, if `a @ b` succeeds then
            `tensordot_fermionic(a, b, ([-1],[0]), mode)` succeeds in every mode with the same labels
            and charge and the same element at every address of the table box of the result indices
            (both refine the graded contraction of C03; C06d for fused / auto);
       `eigh_reconstructs_tensordotF_all_modes`   fermionic: `tensordot(ev·diag w, ev†, ([1],[0])) = a`;
       `solve_solves_tensordotF_all_modes`        fermionic: `tensordot(a, x, ([1],[0]))` has `b`'s
            element on every sector of `b` that `a` reaches;
       `eigh_reconstructs_tensordot_all_modes`, `solve_solves_tensordot_all_modes`   abelian
            (`tensordot_abelian`, adjoint `Arr.adjA`), from C06d `tensordotA_modes_agree_all`.
  2. The array-level isometry statement for FERMIONIC factors, exactly, through `dagger()` and
     both `@` and `tensordot` (every mode) — `qr_isometry_fermionic`, `svd_isometry_fermionic`:
       `q.dagger() · q` (and `u.dagger() · u`) carries no label and is, on the bond sector `(c, c)`
       of the stored block of `x` with sector `s = (r, c)`, the identity times
          `isometrySign x s = (−1)^(number of DUAL labels of x) · (−1 if x's ROW index is dual and
                               the row charge r is odd)`;
       `vh · vh.dagger()` is the identity times `−1` iff `x`'s COLUMN index is not dual and the bond
       charge `c` is odd (`+1` otherwise).
     (`r` and `c` differ by the charge of `x`, so for an even `x` "r odd" is "c odd", for an odd `x`
     it is "c even": the examples of C11f — `−1` on the odd bond charge of an odd `x` with dual row
     index and one dual label — are instances, see the examples at the end.)
     Hypothesis: the per-block kernel contract (`K.QIsoBlock`, `K.OrthoBlock`), valid fermionic
     matrix, sorted labels (any number, dual or not), any pending signs, any symmetry.
     `isometrySign_bond_charge`: the same sign in terms of the BOND charge (parity of `c` xor parity
     of `x`).  Abelian arrays, every mode of `tensordot_abelian`: `qr_isometry_array_all_modes`,
     `svd_isometry_array_all_modes` (C11f has the blockwise contraction only).
  3. Structure clauses for `svd_truncated`'s outputs (`applyCounts`) —
     `svd_truncated_structure`: one bond charge per KEPT block with the kept count as its size, the
     same table on both factors, opposite directions (that of `x`'s column index on `u'`), one
     singular-value block per kept block keyed by the bond charge, and every kept singular value
     is the untruncated one at the same position (a prefix) — so any order / sign property the
     kernel promises within each charge (non-negative, non-increasing) is inherited
     (`singular_values_inherit_truncated`);
     `u_vh_blocks_orthonormal_truncated`: the kept columns of `u'` / rows of `vh'` are orthonormal
     (value view, abelian and fermionic);
     `svd_truncated_isometry_fermionic`: the array-level statement of 2. for `u'`, `vh'`
     (`DecompP.LeftLike` / `RightLike`: the isometry theorems are proved for any left- / right-
     factor-like array over a list of items of `x`).
  4. `eigh_reconstructs_fermionic_any_labels`: the fermionic `eigh` reconstruction WITHOUT the
     hypothesis "non-dual labels" of C11c, through `@` and `tensordot` (every mode): the product is
     `eighLabelSign a · a`, `-1` per non-dual (equivalently, per dual) label of `a`
     (`eighLabelSign_of_even`, `eighLabelSign_nondual`); C11c's example `exEdual` (`-a`) is an instance.
-/
import SymmModel.Proofs.DecompIso
import SymmModel.Proofs.DecompIsoA
import SymmModel.Proofs.DecompTrunc
import SymmModel.Proofs.DecompEigh

namespace SymmModel.C11
open SymmModel LinalgLemmas ReconP Recon2P Recon3P DecompP TdotP

variable {R : Type}

/-! ## 1. `tensordot` instead of `@` -/

section tdot
variable [AddCommMonoid R] [Mul R] [Neg R] [GradedP.SignRing R]

/-- **matmulF_tensordotF_agree.**  `a @ b` → `tensordot_fermionic(a, b, ([ndim a − 1],[0]), mode)`,
    every mode: success, same labels, same charge, same element at every sector key and every
    address (`oL` = the free offsets of `a`, `oR` those of `b`) of the table box. -/
theorem matmulF_tensordotF_agree (hz1 : ∀ x : R, 0 * x = 0) (hz2 : ∀ x : R, x * 0 = 0)
    (a b y : Arr R) (ha : a.validB = true) (hb : b.validB = true) (hfa : a.fermi = true)
    (hfb : b.fermi = true) (hna : a.ndim = 1 ∨ a.ndim = 2) (hnb : b.ndim = 1 ∨ b.ndim = 2)
    (hadm : ValidP.tdotAdmissibleB a b [a.ndim - 1] [0] = true)
    (h : a.matmulF b = .ok y) (tm : TdotMode) :
    ∃ c, a.tensordotF b (.pair [Int.ofNat (a.ndim - 1)] [0]) tm = .ok c
      ∧ c.oddpos = y.oddpos ∧ c.charge = y.charge
      ∧ ∀ (s : Sector) (oL oR : List Nat), oL.length = (freeAxes a.ndim [a.ndim - 1]).length →
          inBox (Arr.blockShapeD (without a.indices [a.ndim - 1] ++ without b.indices [0]) s)
            (oL ++ oR) = true →
          c.elem s (oL ++ oR) = y.elem s (oL ++ oR) :=
  matmulF_to_tensordotF hz1 hz2 a b y ha hb hfa hfb hna hnb hadm h tm

/-- **eigh_reconstructs_tensordotF_all_modes** (fermionic).  Hypotheses of
    `eigh_reconstructs_fermionic_labels`.  In every mode
    `tensordot_fermionic(ev.multiply_diagonal(w, 1), ev.dagger(), ([1],[0]), mode)` succeeds, has no
    label, the charge `c_a − c_a`, and `a`'s element (pending signs included) at every address of
    `a`'s index tables. -/
theorem eigh_reconstructs_tensordotF_all_modes [Conj R]
    (hz1 : ∀ x : R, 0 * x = 0) (hz2 : ∀ x : R, x * 0 = 0) (hc0 : Conj.conj (0 : R) = 0)
    (K : Kernels R) (hK : K.ShapeOk) (a : Arr R)
    (hv : a.validB = true) (h2 : a.ndim = 2) (hch : a.charge = a.sym.zero)
    (hopp : (a.indices.getD 1 default).dual = !(a.indices.getD 0 default).dual)
    (hcm : (a.indices.getD 0 default).cm = (a.indices.getD 1 default).cm)
    (hf : a.fermi = true) (hlab : SortedLabels a.oddpos) (hket : ∀ l ∈ a.oddpos, l.2 = false)
    (hE : ∀ p ∈ a.phaseSync.blocks, K.EighBlock p.2) (tm : TdotMode) :
    ∃ w ev c, eighA K a = .ok (w, ev)
      ∧ (multiplyDiagonal ev w 1).tensordotF ev.daggerF (.pair [1] [0]) tm = .ok c
      ∧ c.oddpos = [] ∧ c.charge = a.sym.combine [a.charge, a.sym.sign a.charge true]
      ∧ ∀ s i j, inBox (Arr.blockShapeD a.indices s) [i, j] = true →
          c.elem s [i, j] = a.elem s [i, j] :=
  eigh_tdotF_all_modes hz1 hz2 hc0 hK ⟨hv, h2, hch, hopp, hcm⟩ hf hlab hket hE tm

/-- **solve_solves_tensordotF_all_modes** (fermionic).  Hypotheses of
    `solve_solves_fermionic_labels` and of `solveA_valid` (same symmetry, `b`'s index has the
    direction of `a`'s row index).  In every mode `tensordot_fermionic(a, x, ([1],[0]), mode)`
    succeeds, carries `b`'s labels and has `b`'s element at every row of every sector of `b`
    paired with a block of `a`. -/
theorem solve_solves_tensordotF_all_modes (hz1 : ∀ x : R, 0 * x = 0) (hz2 : ∀ x : R, x * 0 = 0)
    (K : Kernels R) (hK : K.ShapeOk) (a b x : Arr R) (hva : a.validB = true)
    (hvb : b.validB = true) (hfa : a.fermi = true) (hfb : b.fermi = true) (hsym : a.sym = b.sym)
    (hdir : (b.indices.getD 0 default).dual = (a.indices.getD 0 default).dual)
    (heven : a.parity = false) (hao : a.oddpos = []) (hbo : SortedLabels b.oddpos)
    (hS : K.SolvesOn a.phaseSync b.phaseSync) (h : solveA K a b = .ok x) (tm : TdotMode) :
    ∃ c, a.tensordotF x (.pair [1] [0]) tm = .ok c ∧ c.oddpos = b.oddpos
      ∧ c.charge = a.sym.combine [a.charge, x.charge] ∧
      ∀ s arr, (s, arr) ∈ a.blocks → [s.getD 0 (0, 0)] ∈ b.sectors →
        ∀ i, i < arr.shape.getD 0 0 →
          c.elem [s.getD 0 (0, 0)] [i] = b.elem [s.getD 0 (0, 0)] [i] :=
  solve_tdotF_all_modes hz1 hz2 hK hva hvb hfa hfb hsym hdir heven hao hbo hS h tm

end tdot

section tdotA
variable [AddCommMonoid R] [Mul R] [Neg R]

/-- **eigh_reconstructs_tensordot_all_modes** (abelian).  Hypotheses of `eigh_reconstructs`.  In
    every mode `tensordot(ev.multiply_diagonal(w, 1), ev.H, ([1],[0]), mode)` succeeds and has `a`'s
    element at every address of `a`'s index tables (sectors `a` does not store: zero). -/
theorem eigh_reconstructs_tensordot_all_modes [Conj R]
    (hz1 : ∀ x : R, 0 * x = 0) (hz2 : ∀ x : R, x * 0 = 0) (hc0 : Conj.conj (0 : R) = 0)
    (K : Kernels R) (hK : K.ShapeOk) (a : Arr R)
    (hv : a.validB = true) (h2 : a.ndim = 2) (hch : a.charge = a.sym.zero)
    (hopp : (a.indices.getD 1 default).dual = !(a.indices.getD 0 default).dual)
    (hcm : (a.indices.getD 0 default).cm = (a.indices.getD 1 default).cm)
    (hf : a.fermi = false) (hE : ∀ p ∈ a.blocks, K.EighBlock p.2) (tm : TdotMode) :
    ∃ w ev c, eighA K a = .ok (w, ev)
      ∧ tensordotA (multiplyDiagonal ev w 1) ev.adjA (.pair [1] [0]) tm = .ok c
      ∧ ∀ s off, inBox (Arr.blockShapeD a.indices s) off = true → c.elem s off = a.elem s off :=
  eigh_tdotA_all_modes hz1 hz2 hc0 hK ⟨hv, h2, hch, hopp, hcm⟩ hf hE tm

/-- **solve_solves_tensordot_all_modes** (abelian).  Hypotheses of `solve_solves` and of
    `solveA_valid`.  In every mode `tensordot(a, x, ([1],[0]), mode)` succeeds and has `b`'s element
    at every row of every sector of `b` paired with a block of `a`. -/
theorem solve_solves_tensordot_all_modes (hz1 : ∀ x : R, 0 * x = 0) (hz2 : ∀ x : R, x * 0 = 0)
    (K : Kernels R) (hK : K.ShapeOk) (a b x : Arr R) (hva : a.validB = true)
    (hvb : b.validB = true) (hfa : a.fermi = false) (hfb : b.fermi = false) (hsym : a.sym = b.sym)
    (hdir : (b.indices.getD 0 default).dual = (a.indices.getD 0 default).dual)
    (hS : K.SolvesOn a b) (h : solveA K a b = .ok x) (tm : TdotMode) :
    ∃ c, tensordotA a x (.pair [1] [0]) tm = .ok c ∧
      ∀ s arr, (s, arr) ∈ a.blocks → [s.getD 0 (0, 0)] ∈ b.sectors →
        ∀ i, i < arr.shape.getD 0 0 →
          c.elem [s.getD 0 (0, 0)] [i] = b.elem [s.getD 0 (0, 0)] [i] :=
  solve_tdotA_all_modes hz1 hz2 hK hva hvb hfa hfb hsym hdir hS h tm

end tdotA

/-! ### `eigh` with any labels -/

theorem nestSign_eq_pow (w : List (Int × Bool)) :
    NormNet.nestSign w = (-1) ^ (w.filter (fun l => l.2)).length := by
  induction w with
  | nil => rfl
  | cons a w ih =>
    rw [NormNet.nestSign_cons, ih, List.filter_cons]
    cases a.2
    · simp
    · simp [Int.pow_succ]


/-- the sign of `ev · diag(w) · ev†` relative to `a`: `-1` per NON-dual label of `a` -/
def eighLabelSign (a : Arr R) : Int := (-1) ^ (a.oddpos.filter (fun l => !l.2)).length

theorem neg_one_pow_mod (n : Nat) : (-1 : Int) ^ n = if n % 2 = 0 then 1 else -1 := by
  induction n with
  | zero => rfl
  | succ n ih =>
    rw [Int.pow_succ, ih]
    rcases Nat.mod_two_eq_zero_or_one n with h | h <;> simp [h, Nat.add_mod]

theorem dag_filter_length (o : List (Int × Bool)) :
    ((Arr.oddposDag o).filter (fun l => l.2)).length = (o.filter (fun l => !l.2)).length := by
  unfold Arr.oddposDag
  rw [List.filter_map, List.length_map, List.filter_reverse, List.length_reverse]
  rfl

theorem eighLabelSign_eq (a : Arr R) :
    eighLabelSign a = NormNet.nestSign (Arr.oddposDag a.oddpos) := by
  unfold eighLabelSign
  rw [nestSign_eq_pow, dag_filter_length]

/-- no non-dual … no sign; and for an EVEN number of labels (every valid even array) the sign is
    also `-1` per DUAL label -/
theorem eighLabelSign_of_even (a : Arr R) (h : a.oddpos.length % 2 = 0) :
    eighLabelSign a = (-1) ^ (a.oddpos.filter (fun l => l.2)).length := by
  unfold eighLabelSign
  have := List.length_eq_length_filter_add (l := a.oddpos) (fun l => l.2)
  rw [neg_one_pow_mod, neg_one_pow_mod]
  have e : (a.oddpos.filter (fun l => !l.2)).length = (a.oddpos.filter (fun x => !(fun l => l.2) x)).length :=
    rfl
  rw [e]
  split <;> split <;> first | rfl | omega

theorem eighLabelSign_nondual (a : Arr R) (hket : ∀ l ∈ a.oddpos, l.2 = false)
    (h : a.oddpos.length % 2 = 0) : eighLabelSign a = 1 := by
  rw [eighLabelSign_of_even a h]
  have : a.oddpos.filter (fun l => l.2) = [] := by
    rw [List.filter_eq_nil_iff]
    intro l hl
    simp [hket l hl]
  rw [this]; rfl

/-- **eigh_reconstructs_fermionic_any_labels.**  `eigh_reconstructs_fermionic_labels` WITHOUT the
    hypothesis that the labels are non-dual: for a valid fermionic charge-zero matrix with any
    sorted labels (dual ones included) and any pending signs,
    `ev.multiply_diagonal(w, 1) @ ev.dagger()` and the same product through `tensordot_fermionic`
    in EVERY mode succeed, carry no label, and are `eighLabelSign a · a` at every address of `a`'s
    index tables: `-1` per non-dual label (= `-1` per dual label, their total being even). -/
theorem eigh_reconstructs_fermionic_any_labels [AddCommMonoid R] [Mul R] [Neg R]
    [GradedP.SignRing R] [Conj R]
    (hz1 : ∀ x : R, 0 * x = 0) (hz2 : ∀ x : R, x * 0 = 0) (hc0 : Conj.conj (0 : R) = 0)
    (K : Kernels R) (hK : K.ShapeOk) (a : Arr R)
    (hv : a.validB = true) (h2 : a.ndim = 2) (hch : a.charge = a.sym.zero)
    (hopp : (a.indices.getD 1 default).dual = !(a.indices.getD 0 default).dual)
    (hcm : (a.indices.getD 0 default).cm = (a.indices.getD 1 default).cm)
    (hf : a.fermi = true) (hlab : SortedLabels a.oddpos)
    (hE : ∀ p ∈ a.phaseSync.blocks, K.EighBlock p.2) :
    ∃ w ev, eighA K a = .ok (w, ev)
      ∧ (∃ y, (multiplyDiagonal ev w 1).matmulF ev.daggerF = .ok y ∧ y.oddpos = []
          ∧ ∀ s i j, inBox (Arr.blockShapeD a.indices s) [i, j] = true →
              y.elem s [i, j] = Lazy.sgnI (eighLabelSign a) (a.elem s [i, j]))
      ∧ ∀ tm, ∃ c, (multiplyDiagonal ev w 1).tensordotF ev.daggerF (.pair [1] [0]) tm = .ok c
          ∧ c.oddpos = []
          ∧ ∀ s i j, inBox (Arr.blockShapeD a.indices s) [i, j] = true →
              c.elem s [i, j] = Lazy.sgnI (eighLabelSign a) (a.elem s [i, j]) := by
  rw [eighLabelSign_eq]
  exact eigh_fermi_any_labels hz1 hz2 hc0 hK ⟨hv, h2, hch, hopp, hcm⟩ hf hlab hE

/-! ## 2. fermionic isometry, array level -/

/-- the sign of `q.dagger() · q` on the bond sector of the stored block with sector `s = (r, c)`:
    `-1` per DUAL label of `x`, and `-1` when `x`'s row index is dual and the row charge is odd -/
def isometrySign (x : Arr R) (s : Sector) : Int :=
  (-1) ^ (x.oddpos.filter (fun l => l.2)).length
    * (if (x.indices.getD 0 default).dual && x.sym.parity (s.getD 0 (0, 0)) then -1 else 1)

theorem isometrySign_eq (x : Arr R) (s : Sector) : isometrySign x s = isoSignL x s := by
  unfold isometrySign isoSignL
  rw [nestSign_eq_pow]
  rfl

theorem isometrySign_pm (x : Arr R) (s : Sector) : isometrySign x s = 1 ∨ isometrySign x s = -1 := by
  rw [isometrySign_eq]; exact isoSignL_pm x s


/-- on a stored sector `s = (r, c)` of a valid matrix the parity of the row charge is the parity of
    the bond charge `c` plus the parity of `x`: the sign in terms of the BOND charge -/
theorem isometrySign_bond_charge (x : Arr R) (hv : x.validB = true) (h2 : x.ndim = 2)
    (s : Sector) (b : Blk R) (hm : (s, b) ∈ x.blocks) :
    isometrySign x s = (-1) ^ (x.oddpos.filter (fun l => l.2)).length
      * (if (x.indices.getD 0 default).dual && xor (x.sym.parity (col s)) x.parity
          then -1 else 1) := by
  obtain ⟨i0, i1, hi⟩ := ndim_two h2
  obtain ⟨r, c, m, n, B⟩ := mat_block hv hi hm
  have h := congrArg x.sym.parity B.hcharge
  rw [ValidP.parity_combine_pair', ValidP.parity_sign', ValidP.parity_sign'] at h
  have hr : s.getD 0 (0, 0) = r := by rw [B.hs]; rfl
  have hc : col s = c := by rw [B.hs]; rfl
  unfold isometrySign
  rw [hr, hc]
  have : x.sym.parity r = xor (x.sym.parity c) x.parity := by
    show _ = xor _ (x.sym.parity x.charge)
    rw [← h]
    cases x.sym.parity r <;> cases x.sym.parity c <;> rfl
  rw [this]

section iso
variable [CommRing R] [Conj R]

/-- **qr_isometry_fermionic.**  `x` a valid fermionic matrix, sorted labels, any pending signs; the
    QR kernel returns orthonormal columns on every stored block.  Then `q.dagger() @ q` and
    `tensordot_fermionic(q.dagger(), q, ([1],[0]), mode)` in EVERY mode succeed, carry no label, and
    on the bond sector `(c, c)` of every stored block with sector `s = (r, c)` they are
    `isometrySign x s · 1`: entry `[t, t']` is `± 1` if `t = t'` and `0` otherwise. -/
theorem qr_isometry_fermionic (conj : R →+* R) (hcj : ∀ v : R, Conj.conj v = conj v)
    (K : Kernels R) (hK : K.ShapeOk) (x : Arr R) (hv : x.validB = true) (h2 : x.ndim = 2)
    (hf : x.fermi = true) (hlab : SortedLabels x.oddpos)
    (hO : ∀ p ∈ x.blocks, K.QIsoBlock conj p.2) :
    ∃ q r, qrA K x = .ok (q, r)
      ∧ (∃ y, q.daggerF.matmulF q = .ok y ∧ y.oddpos = []
          ∧ ∀ s b, (s, b) ∈ x.blocks → ∀ m n, b.shape = [m, n] → ∀ t t', t < min m n →
              t' < min m n →
              y.elem [col s, col s] [t, t'] = Lazy.sgnI (isometrySign x s) (if t = t' then 1 else 0))
      ∧ ∀ tm, ∃ c, q.daggerF.tensordotF q (.pair [1] [0]) tm = .ok c ∧ c.oddpos = []
          ∧ ∀ s b, (s, b) ∈ x.blocks → ∀ m n, b.shape = [m, n] → ∀ t t', t < min m n →
              t' < min m n →
              c.elem [col s, col s] [t, t'] = Lazy.sgnI (isometrySign x s) (if t = t' then 1 else 0) := by
  have hc0 : Conj.conj (0 : R) = 0 := by rw [hcj]; exact map_zero conj
  have : GradedP.SignRing R := signRing_of_ring
  obtain ⟨⟨y, hy, hyo, hye⟩, hT⟩ := gram_left_fermi (L := fun b => (K.qr b).1)
    (Rt := fun b => (K.qr b).2) zero_mul mul_zero hc0 hv h2 hf hlab (facShape_qr hK)
  refine ⟨_, _, qrA_eq K hv h2, ⟨y, hy, hyo, ?_⟩, ?_⟩
  · intro s b hm m n hs t t' ht ht'
    rw [show [col s, col s] = diagOf s from rfl, hye s b hm m n hs t t' ht ht', isometrySign_eq]
    congr 1
    simp only [hcj]
    exact hO (s, b) hm m n hs t t' ht ht'
  · intro tm
    obtain ⟨c, hc, hco, hce⟩ := hT tm
    refine ⟨c, hc, hco, ?_⟩
    intro s b hm m n hs t t' ht ht'
    rw [show [col s, col s] = diagOf s from rfl, hce s b hm m n hs t t' ht ht', isometrySign_eq]
    congr 1
    simp only [hcj]
    exact hO (s, b) hm m n hs t t' ht ht'

/-- **svd_isometry_fermionic.**  Likewise for `u, s, vh = svd(x)` under `K.OrthoBlock`:
    `u.dagger() · u` is `isometrySign x s · 1` and `vh · vh.dagger()` is `σ · 1` with `σ = -1` iff
    `x`'s column index is NOT dual and the bond charge is odd — through `@` and through
    `tensordot_fermionic` in every mode; no labels on either product. -/
theorem svd_isometry_fermionic (conj : R →+* R) (hcj : ∀ v : R, Conj.conj v = conj v)
    (K : Kernels R) (hK : K.ShapeOk) (x : Arr R) (hv : x.validB = true) (h2 : x.ndim = 2)
    (hf : x.fermi = true) (hlab : SortedLabels x.oddpos)
    (hO : ∀ p ∈ x.blocks, K.OrthoBlock conj p.2) :
    ∃ u s vh, svdA K x = .ok (u, s, vh)
      ∧ (∃ y, u.daggerF.matmulF u = .ok y ∧ y.oddpos = []
          ∧ ∀ sec b, (sec, b) ∈ x.blocks → ∀ m n, b.shape = [m, n] → ∀ t t', t < min m n →
              t' < min m n →
              y.elem [col sec, col sec] [t, t']
                = Lazy.sgnI (isometrySign x sec) (if t = t' then 1 else 0))
      ∧ (∀ tm, ∃ c, u.daggerF.tensordotF u (.pair [1] [0]) tm = .ok c ∧ c.oddpos = []
          ∧ ∀ sec b, (sec, b) ∈ x.blocks → ∀ m n, b.shape = [m, n] → ∀ t t', t < min m n →
              t' < min m n →
              c.elem [col sec, col sec] [t, t']
                = Lazy.sgnI (isometrySign x sec) (if t = t' then 1 else 0))
      ∧ (∃ y, vh.matmulF vh.daggerF = .ok y ∧ y.oddpos = []
          ∧ ∀ sec b, (sec, b) ∈ x.blocks → ∀ m n, b.shape = [m, n] → ∀ t t', t < min m n →
              t' < min m n →
              y.elem [col sec, col sec] [t, t']
                = Lazy.sgnI (if !(x.indices.getD 1 default).dual && x.sym.parity (col sec) then -1 else 1)
                    (if t = t' then 1 else 0))
      ∧ ∀ tm, ∃ c, vh.tensordotF vh.daggerF (.pair [1] [0]) tm = .ok c ∧ c.oddpos = []
          ∧ ∀ sec b, (sec, b) ∈ x.blocks → ∀ m n, b.shape = [m, n] → ∀ t t', t < min m n →
              t' < min m n →
              c.elem [col sec, col sec] [t, t']
                = Lazy.sgnI (if !(x.indices.getD 1 default).dual && x.sym.parity (col sec) then -1 else 1)
                    (if t = t' then 1 else 0) := by
  have hc0 : Conj.conj (0 : R) = 0 := by rw [hcj]; exact map_zero conj
  have : GradedP.SignRing R := signRing_of_ring
  obtain ⟨⟨y, hy, hyo, hye⟩, hT⟩ := gram_left_fermi (L := fun b => (K.svd b).1)
    (Rt := fun b => (K.svd b).2.2) zero_mul mul_zero hc0 hv h2 hf hlab (facShape_svd hK)
  obtain ⟨⟨z, hz, hzo, hze⟩, hU⟩ := gram_right_fermi (L := fun b => (K.svd b).1)
    (Rt := fun b => (K.svd b).2.2) zero_mul mul_zero hc0 hv h2 hf (facShape_svd hK)
  have hrow : ∀ sec b, (sec, b) ∈ x.blocks → ∀ m n, b.shape = [m, n] → ∀ t t', t < min m n →
      t' < min m n →
      (List.range n).foldl (fun acc j =>
          acc + (K.svd b).2.2.get [t, j] * Conj.conj ((K.svd b).2.2.get [t', j])) 0
        = (if t = t' then 1 else 0) := by
    intro sec b hm m n hs t t' ht ht'
    have h' := (hO (sec, b) hm m n hs t' t ht' ht).2
    have e : (fun acc j => acc + (K.svd b).2.2.get [t, j] * Conj.conj ((K.svd b).2.2.get [t', j]))
        = (fun acc j => acc + conj ((K.svd b).2.2.get [t', j]) * (K.svd b).2.2.get [t, j]) := by
      funext acc j
      rw [hcj, mul_comm]
    rw [e]
    show (List.range n).foldl (fun acc j =>
      acc + conj ((K.svd (sec, b).2).2.2.get [t', j]) * (K.svd (sec, b).2).2.2.get [t, j]) 0 = _
    rw [h']
    by_cases e' : t = t'
    · subst e'; rfl
    · have e'' : ¬ t' = t := fun h => e' h.symm
      simp [e', e'']
  refine ⟨_, _, _, svdA_eq K hv h2, ⟨y, hy, hyo, ?_⟩, ?_, ⟨z, hz, hzo, ?_⟩, ?_⟩
  · intro sec b hm m n hs t t' ht ht'
    rw [show [col sec, col sec] = diagOf sec from rfl, hye sec b hm m n hs t t' ht ht',
      isometrySign_eq]
    congr 1
    simp only [hcj]
    exact (hO (sec, b) hm m n hs t t' ht ht').1
  · intro tm
    obtain ⟨c, hc, hco, hce⟩ := hT tm
    refine ⟨c, hc, hco, ?_⟩
    intro sec b hm m n hs t t' ht ht'
    rw [show [col sec, col sec] = diagOf sec from rfl, hce sec b hm m n hs t t' ht ht',
      isometrySign_eq]
    congr 1
    simp only [hcj]
    exact (hO (sec, b) hm m n hs t t' ht ht').1
  · intro sec b hm m n hs t t' ht ht'
    rw [show [col sec, col sec] = diagOf sec from rfl, hze sec b hm m n hs t t' ht ht',
      hrow sec b hm m n hs t t' ht ht']
    rfl
  · intro tm
    obtain ⟨c, hc, hco, hce⟩ := hU tm
    refine ⟨c, hc, hco, ?_⟩
    intro sec b hm m n hs t t' ht ht'
    rw [show [col sec, col sec] = diagOf sec from rfl, hce sec b hm m n hs t t' ht ht',
      hrow sec b hm m n hs t t' ht ht']
    rfl

/-- **qr_isometry_array_all_modes** (abelian).  C11f's `qr_isometry_array` through
    `tensordot_abelian(q.H, q, ([1],[0]), mode)` in EVERY mode: success, and the identity on the bond
    sector of every stored block. -/
theorem qr_isometry_array_all_modes (conj : R →+* R) (hcj : ∀ v : R, Conj.conj v = conj v)
    (K : Kernels R) (hK : K.ShapeOk) (x : Arr R) (hv : x.validB = true) (h2 : x.ndim = 2)
    (hf : x.fermi = false) (hO : ∀ p ∈ x.blocks, K.QIsoBlock conj p.2) (tm : TdotMode) :
    ∃ q r c, qrA K x = .ok (q, r) ∧ tensordotA q.adjA q (.pair [1] [0]) tm = .ok c
      ∧ ∀ s b, (s, b) ∈ x.blocks → ∀ m n, b.shape = [m, n] → ∀ t t', t < min m n → t' < min m n →
          c.elem [col s, col s] [t, t'] = if t = t' then 1 else 0 := by
  obtain ⟨c, h1, h2'⟩ := gram_left_array_modes (L := fun b => (K.qr b).1)
    (Rt := fun b => (K.qr b).2) conj hcj hv h2 hf (facShape_qr hK) tm
  refine ⟨_, _, c, qrA_eq K hv h2, h1, ?_⟩
  intro s b hm m n hs t t' ht ht'
  rw [show [col s, col s] = diagOf s from rfl, h2' s b hm m n hs t t' ht ht']
  exact hO (s, b) hm m n hs t t' ht ht'

/-- **svd_isometry_array_all_modes** (abelian).  `U† · U = 1` and `VH · VH† = 1` on the bond
    index through `tensordot_abelian` in EVERY mode. -/
theorem svd_isometry_array_all_modes (conj : R →+* R) (hcj : ∀ v : R, Conj.conj v = conj v)
    (K : Kernels R) (hK : K.ShapeOk) (x : Arr R) (hv : x.validB = true) (h2 : x.ndim = 2)
    (hf : x.fermi = false) (hO : ∀ p ∈ x.blocks, K.OrthoBlock conj p.2) (tm : TdotMode) :
    ∃ u s vh c d, svdA K x = .ok (u, s, vh)
      ∧ tensordotA u.adjA u (.pair [1] [0]) tm = .ok c
      ∧ tensordotA vh vh.adjA (.pair [1] [0]) tm = .ok d
      ∧ ∀ sec b, (sec, b) ∈ x.blocks → ∀ m n, b.shape = [m, n] → ∀ t t', t < min m n →
          t' < min m n →
          c.elem [col sec, col sec] [t, t'] = (if t = t' then 1 else 0)
          ∧ d.elem [col sec, col sec] [t, t'] = (if t = t' then 1 else 0) := by
  obtain ⟨c, h1, h2'⟩ := gram_left_array_modes (L := fun b => (K.svd b).1)
    (Rt := fun b => (K.svd b).2.2) conj hcj hv h2 hf (facShape_svd hK) tm
  obtain ⟨d, k1, k2⟩ := gram_right_array_modes (L := fun b => (K.svd b).1)
    (Rt := fun b => (K.svd b).2.2) conj hcj hv h2 hf (facShape_svd hK) tm
  refine ⟨_, _, _, c, d, svdA_eq K hv h2, h1, k1, ?_⟩
  intro sec b hm m n hs t t' ht ht'
  have := hO (sec, b) hm m n hs
  refine ⟨?_, ?_⟩
  · rw [show [col sec, col sec] = diagOf sec from rfl, h2' sec b hm m n hs t t' ht ht']
    exact (this t t' ht ht').1
  · rw [show [col sec, col sec] = diagOf sec from rfl, k2 sec b hm m n hs t t' ht ht']
    have h' := (this t' t ht' ht).2
    rw [h']
    by_cases e : t = t'
    · subst e; rfl
    · have e' : ¬ t' = t := fun h => e h.symm
      simp [e, e']

end iso

/-! ## 3. structure of `svd_truncated`'s outputs -/

section trunc
variable [Zero R]

/-- **svd_truncated_structure.**  `u, s, vh = svd(x)` truncated with `counts` (aligned with the
    stored blocks): the kept sectors are those with a non-zero count, in order; the two bond
    indices have opposite directions (`u'`'s that of `x`'s column index) and the SAME charge table,
    which lists exactly one charge per kept block — its column charge, with the kept count as size;
    the singular-value vector has one block per kept block, keyed by that charge, of length the
    kept count, and its entries are the first entries of the untruncated block. -/
theorem svd_truncated_structure (K : Kernels R) (x : Arr R) (hv : x.validB = true)
    (h2 : x.ndim = 2) (u : Arr R) (s : BVec R) (vh : Arr R) (hsvd : svdA K x = .ok (u, s, vh))
    (counts : List Nat) (hlen : counts.length = x.blocks.length) :
    let u' := (applyCounts u s vh counts).1
    let s' := (applyCounts u s vh counts).2.1
    let vh' := (applyCounts u s vh counts).2.2
    u'.sectors = ((x.blocks.zip counts).filter (fun t => t.2 != 0)).map (fun t => t.1.1)
    ∧ vh'.sectors = ((x.blocks.zip counts).filter (fun t => t.2 != 0)).map
        (fun t => [col t.1.1, col t.1.1])
    ∧ s'.blocks.map (·.1) = ((x.blocks.zip counts).filter (fun t => t.2 != 0)).map
        (fun t => col t.1.1)
    ∧ (u'.indices.getD 1 default).dual = (x.indices.getD 1 default).dual
    ∧ (vh'.indices.getD 0 default).dual = !(x.indices.getD 1 default).dual
    ∧ (u'.indices.getD 1 default).cm = (vh'.indices.getD 0 default).cm
    ∧ ((u'.indices.getD 1 default).cm).Perm
        (((x.blocks.zip counts).filter (fun t => t.2 != 0)).map (fun t => (col t.1.1, t.2)))
    ∧ (∀ sec b c, ((sec, b), c) ∈ x.blocks.zip counts → c ≠ 0 →
        alookup (u'.indices.getD 1 default).cm (col sec) = some c
        ∧ alookup s'.blocks (col sec) = some ((K.svd b).2.1.sliceK [0] [c])
        ∧ ∀ t, t < c → ((K.svd b).2.1.sliceK [0] [c]).get [t] = (K.svd b).2.1.get [t]) := by
  obtain ⟨rfl, rfl, rfl⟩ := svd_factors_eq hv h2 hsvd
  rw [applyCounts_eq (S := fun b => (K.svd b).2.1) hv h2 hlen]
  obtain ⟨i0, i1, hi⟩ := ndim_two h2
  obtain ⟨_, hlk, hperm⟩ := newCm_props (counts := counts) hv h2 hlen
  have hUi : (truncU x (fun b => (K.svd b).1) counts).indices.getD 1 default
      = Index.mk (Index.sortCm (Index.sortCm (keptCm x counts))) i1.dual none := by
    simp [truncU, bondIx_eq hi, withCm_mk]
  have hVi : (truncV x (fun b => (K.svd b).1) (fun b => (K.svd b).2.2) counts).indices.getD 0 default
      = Index.mk (Index.sortCm (Index.sortCm (keptCm x counts))) (!i1.dual) none := by
    simp [truncV, bondIx_eq hi, withCm_mk, Index.conj]
  have hi1 : x.indices.getD 1 default = i1 := by rw [hi]; rfl
  simp only []
  rw [hUi, hVi, hi1]
  refine ⟨?_, ?_, ?_, rfl, rfl, rfl, ?_, ?_⟩
  · simp [truncU, Arr.sectors, kept, List.map_map, Function.comp_def]
  · simp [truncV, Arr.sectors, kept, List.map_map, Function.comp_def, colOf, col]
  · simp [truncS, kept, List.map_map, Function.comp_def, colOf, col]
  · exact hperm
  · intro sec b c hm hc0
    have hk : ((sec, b), c) ∈ kept x counts := List.mem_filter.mpr ⟨hm, by simpa using hc0⟩
    refine ⟨?_, ?_, fun t ht => sliceK0_get _ ht⟩
    · show alookup (Index.sortCm (Index.sortCm (keptCm x counts))) (colOf sec) = some c
      rw [hlk]
      exact keptCm_lookup hv h2 hlen hk
    · apply alookup_of_mem_nodup
      · have := keptCm_keys_nodup (counts := counts) hv h2 hlen
        simpa [truncS, keptCm, List.map_map, Function.comp_def] using this
      · exact List.mem_map.mpr ⟨((sec, b), c), hk, rfl⟩

/-- **singular_values_inherit_truncated.**  Any property `P t t' s[t] s[t']` of pairs of entries of
    the singular values of a block (non-negative and non-increasing:
    `P t t' v v' := t ≤ t' → 0 ≤ v' ∧ v' ≤ v`) that the kernel promises for the untruncated block
    holds for the kept block of `svd_truncated`, which is keyed by the block's bond charge and has
    length the kept count. -/
theorem singular_values_inherit_truncated (K : Kernels R) (x : Arr R) (hv : x.validB = true)
    (h2 : x.ndim = 2) (u : Arr R) (s : BVec R) (vh : Arr R) (hsvd : svdA K x = .ok (u, s, vh))
    (counts : List Nat) (hlen : counts.length = x.blocks.length)
    (P : Nat → Nat → R → R → Prop)
    (hP : ∀ p ∈ x.blocks, ∀ m n, p.2.shape = [m, n] → ∀ t t', t < min m n → t' < min m n →
      P t t' ((K.svd p.2).2.1.get [t]) ((K.svd p.2).2.1.get [t'])) :
    ∀ sec b c, ((sec, b), c) ∈ x.blocks.zip counts → c ≠ 0 →
      ∃ sb, alookup (applyCounts u s vh counts).2.1.blocks (col sec) = some sb ∧ sb.shape = [c]
        ∧ ∀ m n, b.shape = [m, n] → c ≤ min m n → ∀ t t', t < c → t' < c →
            P t t' (sb.get [t]) (sb.get [t']) := by
  intro sec b c hm hc0
  obtain ⟨_, _, _, _, _, _, _, h8⟩ := svd_truncated_structure K x hv h2 u s vh hsvd counts hlen
  obtain ⟨_, hl, hg⟩ := h8 sec b c hm hc0
  refine ⟨_, hl, rfl, ?_⟩
  intro m n hs hc t t' ht ht'
  rw [hg t ht, hg t' ht']
  exact hP (sec, b) (tri_mem hlen hm) m n hs t t' (by omega) (by omega)

end trunc

/-- **u_vh_blocks_orthonormal_truncated.**  C11f's `u_vh_blocks_orthonormal` for the outputs of
    `svd_truncated`: on every KEPT block (count `c ≠ 0`, `c ≤ min m n`) the `c` kept columns of
    `u'` and the `c` kept rows of `vh'` are orthonormal — VALUE VIEW (pending signs of a fermionic
    `x` included), abelian and fermionic inputs alike. -/
theorem u_vh_blocks_orthonormal_truncated [CommRing R] (conj : R →+* R) (K : Kernels R)
    (hK : K.ShapeOk) (x : Arr R) (hv : x.validB = true) (h2 : x.ndim = 2)
    (u : Arr R) (s : BVec R) (vh : Arr R) (hsvd : svdA K x = .ok (u, s, vh))
    (counts : List Nat) (hlen : counts.length = x.blocks.length)
    (hO : ∀ p ∈ x.blocks, K.OrthoBlock conj p.2) :
    ∀ sec b c, ((sec, b), c) ∈ x.blocks.zip counts → c ≠ 0 →
      ∀ m n, b.shape = [m, n] → c ≤ min m n → ∀ t t', t < c → t' < c →
        (List.range m).foldl (fun acc i =>
            acc + conj ((applyCounts u s vh counts).1.elem sec [i, t])
              * (applyCounts u s vh counts).1.elem sec [i, t']) 0 = (if t = t' then 1 else 0)
        ∧ (List.range n).foldl (fun acc j =>
            acc + conj ((applyCounts u s vh counts).2.2.elem [col sec, col sec] [t, j])
              * (applyCounts u s vh counts).2.2.elem [col sec, col sec] [t', j]) 0
          = (if t = t' then 1 else 0) := by
  obtain ⟨rfl, rfl, rfl⟩ := svd_factors_eq hv h2 hsvd
  rw [applyCounts_eq (S := fun b => (K.svd b).2.1) hv h2 hlen]
  obtain ⟨i0, i1, hi⟩ := ndim_two h2
  intro sec b c hm hc0 m n hs hc t t' ht ht'
  have hk : ((sec, b), c) ∈ kept x counts := List.mem_filter.mpr ⟨hm, by simpa using hc0⟩
  have hmem : (sec, b) ∈ x.blocks := tri_mem hlen hm
  have hwf : b.wf = true := (((validB_iff x).mp hv).2.2.2.1 sec b hmem).2.2.2
  obtain ⟨l1, _, l3, _⟩ := facShape_svd hK b m n hs hwf
  have hOb := hO (sec, b) hmem m n hs t t' (by omega) (by omega)
  have hUnd := sectors_nodup (truncU_valid (L := fun b => (K.svd b).1)
    (Rt := fun b => (K.svd b).2.2) hv h2 hi (facShape_svd hK) hlen)
  have hVnd := sectors_nodup (truncV_valid (L := fun b => (K.svd b).1)
    (Rt := fun b => (K.svd b).2.2) hv h2 hi (facShape_svd hK) hlen)
  have hUm : (sec, ((K.svd b).1).sliceK [0, 0] [m, c])
      ∈ (truncU x (fun b => (K.svd b).1) counts).blocks := by
    refine List.mem_map.mpr ⟨((sec, b), c), hk, ?_⟩
    simp only [l1, List.getD_cons_zero]
  have hVm : ([col sec, col sec], ((K.svd b).2.2).sliceK [0, 0] [c, n])
      ∈ (truncV x (fun b => (K.svd b).1) (fun b => (K.svd b).2.2) counts).blocks := by
    refine List.mem_map.mpr ⟨((sec, b), c), hk, ?_⟩
    simp only [l3, List.getD_cons_zero, List.getD_cons_succ]
    rfl
  constructor
  · simp only [elem_of_mem hUnd hUm]
    rw [gram_signed conj _ (fun i => (((K.svd b).1).sliceK [0, 0] [m, c]).get [i, t])
      (fun i => (((K.svd b).1).sliceK [0, 0] [m, c]).get [i, t']) m, ← hOb.1]
    apply foldl_ext'
    intro acc i hi'
    have hi'' := List.mem_range.mp hi'
    rw [sliceK00_get _ hi'' ht, sliceK00_get _ hi'' ht']
  · simp only [elem_of_mem hVnd hVm]
    rw [gram_signed conj _ (fun j => (((K.svd b).2.2).sliceK [0, 0] [c, n]).get [t, j])
      (fun j => (((K.svd b).2.2).sliceK [0, 0] [c, n]).get [t', j]) n, ← hOb.2]
    apply foldl_ext'
    intro acc j hj'
    have hj'' := List.mem_range.mp hj'
    rw [sliceK00_get _ ht hj'', sliceK00_get _ ht' hj'']

/-- **svd_truncated_isometry_fermionic.**  `svd_isometry_fermionic` for the factors `u'`, `vh'`
    that `svd_truncated` returns (truncation with `counts`): on the bond sector of every KEPT block
    (count `c ≠ 0`, `c ≤ min m n`) `u'.dagger() · u'` is `isometrySign x s` times the `c × c`
    identity and `vh' · vh'.dagger()` is `σ` times it (`σ = -1` iff `x`'s column index is not dual
    and the bond charge is odd) — through `@` and through `tensordot_fermionic` in every mode. -/
theorem svd_truncated_isometry_fermionic [CommRing R] [Conj R] (conj : R →+* R)
    (hcj : ∀ v : R, Conj.conj v = conj v)
    (K : Kernels R) (hK : K.ShapeOk) (x : Arr R) (hv : x.validB = true) (h2 : x.ndim = 2)
    (hf : x.fermi = true) (hlab : SortedLabels x.oddpos)
    (u : Arr R) (s : BVec R) (vh : Arr R) (hsvd : svdA K x = .ok (u, s, vh))
    (counts : List Nat) (hlen : counts.length = x.blocks.length)
    (hO : ∀ p ∈ x.blocks, K.OrthoBlock conj p.2) :
    let u' := (applyCounts u s vh counts).1
    let vh' := (applyCounts u s vh counts).2.2
    (∃ y, u'.daggerF.matmulF u' = .ok y ∧ y.oddpos = []
        ∧ ∀ sec b c, ((sec, b), c) ∈ x.blocks.zip counts → c ≠ 0 → ∀ m n, b.shape = [m, n] →
            c ≤ min m n → ∀ t t', t < c → t' < c →
            y.elem [col sec, col sec] [t, t']
              = Lazy.sgnI (isometrySign x sec) (if t = t' then 1 else 0))
    ∧ (∀ tm, ∃ y, u'.daggerF.tensordotF u' (.pair [1] [0]) tm = .ok y ∧ y.oddpos = []
        ∧ ∀ sec b c, ((sec, b), c) ∈ x.blocks.zip counts → c ≠ 0 → ∀ m n, b.shape = [m, n] →
            c ≤ min m n → ∀ t t', t < c → t' < c →
            y.elem [col sec, col sec] [t, t']
              = Lazy.sgnI (isometrySign x sec) (if t = t' then 1 else 0))
    ∧ (∃ y, vh'.matmulF vh'.daggerF = .ok y ∧ y.oddpos = []
        ∧ ∀ sec b c, ((sec, b), c) ∈ x.blocks.zip counts → c ≠ 0 → ∀ m n, b.shape = [m, n] →
            c ≤ min m n → ∀ t t', t < c → t' < c →
            y.elem [col sec, col sec] [t, t']
              = Lazy.sgnI (if !(x.indices.getD 1 default).dual && x.sym.parity (col sec) then -1 else 1)
                  (if t = t' then 1 else 0))
    ∧ ∀ tm, ∃ y, vh'.tensordotF vh'.daggerF (.pair [1] [0]) tm = .ok y ∧ y.oddpos = []
        ∧ ∀ sec b c, ((sec, b), c) ∈ x.blocks.zip counts → c ≠ 0 → ∀ m n, b.shape = [m, n] →
            c ≤ min m n → ∀ t t', t < c → t' < c →
            y.elem [col sec, col sec] [t, t']
              = Lazy.sgnI (if !(x.indices.getD 1 default).dual && x.sym.parity (col sec) then -1 else 1)
                  (if t = t' then 1 else 0) := by
  obtain ⟨rfl, rfl, rfl⟩ := svd_factors_eq hv h2 hsvd
  rw [applyCounts_eq (S := fun b => (K.svd b).2.1) hv h2 hlen]
  simp only []
  have hc0 : Conj.conj (0 : R) = 0 := by rw [hcj]; exact map_zero conj
  have : GradedP.SignRing R := signRing_of_ring
  obtain ⟨⟨y, hy, hyo, hye⟩, hT⟩ := gram_left_fermi_items zero_mul mul_zero hc0 hv h2 hlab
    (leftLike_truncU (L := fun b => (K.svd b).1) (Rt := fun b => (K.svd b).2.2) (counts := counts)
      hv h2 hf (facShape_svd hK) hlen)
  obtain ⟨⟨z, hz, hzo, hze⟩, hU⟩ := gram_right_fermi_items zero_mul mul_zero hc0 hv h2
    (rightLike_truncV (L := fun b => (K.svd b).1) (Rt := fun b => (K.svd b).2.2) (counts := counts)
      hv h2 hf (facShape_svd hK) hlen)
  -- the two Gram sums of a kept block
  have hcols : ∀ sec b c, ((sec, b), c) ∈ x.blocks.zip counts → c ≠ 0 → ∀ m n, b.shape = [m, n] →
      c ≤ min m n → ∀ t t', t < c → t' < c →
      (List.range ((K.svd b).1.shape.getD 0 0)).foldl (fun acc i =>
          acc + Conj.conj ((((K.svd b).1).sliceK [0, 0] [(K.svd b).1.shape.getD 0 0, c]).get [i, t])
            * (((K.svd b).1).sliceK [0, 0] [(K.svd b).1.shape.getD 0 0, c]).get [i, t']) 0
        = (if t = t' then 1 else 0) := by
    intro sec b c hm hc0' m n hs hc t t' ht ht'
    have hmem : (sec, b) ∈ x.blocks := tri_mem hlen hm
    have hwf : b.wf = true := (((validB_iff x).mp hv).2.2.2.1 sec b hmem).2.2.2
    obtain ⟨l1, _, _, _⟩ := facShape_svd hK b m n hs hwf
    simp only [l1, List.getD_cons_zero]
    rw [← (hO (sec, b) hmem m n hs t t' (by omega) (by omega)).1]
    apply foldl_ext'
    intro acc i hi'
    have hi'' := List.mem_range.mp hi'
    rw [sliceK00_get _ hi'' ht, sliceK00_get _ hi'' ht', hcj]
  have hrows : ∀ sec b c, ((sec, b), c) ∈ x.blocks.zip counts → c ≠ 0 → ∀ m n, b.shape = [m, n] →
      c ≤ min m n → ∀ t t', t < c → t' < c →
      (List.range ((K.svd b).2.2.shape.getD 1 0)).foldl (fun acc j =>
          acc + (((K.svd b).2.2).sliceK [0, 0] [c, (K.svd b).2.2.shape.getD 1 0]).get [t, j]
            * Conj.conj ((((K.svd b).2.2).sliceK [0, 0] [c, (K.svd b).2.2.shape.getD 1 0]).get [t', j])) 0
        = (if t = t' then 1 else 0) := by
    intro sec b c hm hc0' m n hs hc t t' ht ht'
    have hmem : (sec, b) ∈ x.blocks := tri_mem hlen hm
    have hwf : b.wf = true := (((validB_iff x).mp hv).2.2.2.1 sec b hmem).2.2.2
    obtain ⟨_, _, l3, _⟩ := facShape_svd hK b m n hs hwf
    simp only [l3, List.getD_cons_zero, List.getD_cons_succ]
    have h' := (hO (sec, b) hmem m n hs t' t (by omega) (by omega)).2
    have e : (if t = t' then (1 : R) else 0) = (if t' = t then 1 else 0) := by
      by_cases e' : t = t'
      · subst e'; rfl
      · have e'' : ¬ t' = t := fun h => e' h.symm
        simp [e', e'']
    rw [e, ← h']
    apply foldl_ext'
    intro acc j hj'
    have hj'' := List.mem_range.mp hj'
    rw [sliceK00_get _ ht hj'', sliceK00_get _ ht' hj'', hcj, mul_comm]
  refine ⟨⟨y, hy, hyo, ?_⟩, ?_, ⟨z, hz, hzo, ?_⟩, ?_⟩
  · intro sec b c hm hc0' m n hs hc t t' ht ht'
    have hk : ((sec, b), c) ∈ kept x counts := List.mem_filter.mpr ⟨hm, by simpa using hc0'⟩
    rw [show [col sec, col sec] = diagOf sec from rfl, hye _ hk t t' ht ht', isometrySign_eq,
      hcols sec b c hm hc0' m n hs hc t t' ht ht']
  · intro tm
    obtain ⟨c', hc', hco, hce⟩ := hT tm
    refine ⟨c', hc', hco, ?_⟩
    intro sec b c hm hc0' m n hs hc t t' ht ht'
    have hk : ((sec, b), c) ∈ kept x counts := List.mem_filter.mpr ⟨hm, by simpa using hc0'⟩
    rw [show [col sec, col sec] = diagOf sec from rfl, hce _ hk t t' ht ht', isometrySign_eq,
      hcols sec b c hm hc0' m n hs hc t t' ht ht']
  · intro sec b c hm hc0' m n hs hc t t' ht ht'
    have hk : ((sec, b), c) ∈ kept x counts := List.mem_filter.mpr ⟨hm, by simpa using hc0'⟩
    rw [show [col sec, col sec] = diagOf sec from rfl, hze _ hk t t' ht ht',
      hrows sec b c hm hc0' m n hs hc t t' ht ht']
    rfl
  · intro tm
    obtain ⟨c', hc', hco, hce⟩ := hU tm
    refine ⟨c', hc', hco, ?_⟩
    intro sec b c hm hc0' m n hs hc t t' ht ht'
    have hk : ((sec, b), c) ∈ kept x counts := List.mem_filter.mpr ⟨hm, by simpa using hc0'⟩
    rw [show [col sec, col sec] = diagOf sec from rfl, hce _ hk t t' ht ht',
      hrows sec b c hm hc0' m n hs hc t t' ht ht']
    rfl

/-! ## examples -/

open scoped SymmModel.Lazy

/-- the scalar hypotheses and instances at `Int` -/
example : (∀ x : Int, 0 * x = 0) ∧ (∀ x : Int, x * 0 = 0) ∧ Conj.conj (0 : Int) = 0
    ∧ (∀ v : Int, Conj.conj v = (RingHom.id Int) v) :=
  ⟨Int.zero_mul, Int.mul_zero, rfl, fun _ => rfl⟩

/-- the fermionic `eigh` theorem instantiates on `exEf` (C11b: dual row index, a pending sign on
    the odd block) with the diagonal kernel, every mode -/
example (tm : TdotMode) :=
  eigh_reconstructs_tensordotF_all_modes (R := Int) Int.zero_mul Int.mul_zero rfl Kernels.eighDiag
    eighDiag_shapeOk exEf (by decide) rfl (by decide) (by decide) (by decide) rfl
    (sortedLabels_of_short (by decide)) (fun l hl => by cases hl)
    (fun p hp => by
      obtain ⟨b0, hb0, hor⟩ := phaseSync_mem (s := p.1) (b' := p.2) hp
      have hd : IsDiag b0 := by
        simp only [exEf, List.mem_cons, List.not_mem_nil, or_false, Prod.mk.injEq] at hb0
        rcases hb0 with ⟨_, rfl⟩ | ⟨_, rfl⟩
        · exact isDiag_22 2 3
        · exact isDiag_11 5
      rcases hor with h | h
      · rw [h]; exact eighDiag_block _ hd
      · rw [h]; exact eighDiag_block _ (isDiag_negK hd)) tm

/-- … and computes: all three modes give `exEf`'s value view, no label, no pending sign -/
example : ((eighA Kernels.eighDiag exEf).toOption.map (fun p =>
      [TdotMode.blockwise, TdotMode.fused, TdotMode.auto].map (fun tm =>
        ((multiplyDiagonal p.2 p.1 1).tensordotF p.2.daggerF (.pair [1] [0]) tm).toOption.map
          (fun y => (y.blocks.map (fun q => (q.1, q.2.data.toList)), y.phases, y.oddpos))))
    == some (List.replicate 3 (some
        ([([(0, 0), (0, 0)], [2, 0, 0, 3]), ([(1, 0), (1, 0)], [-5])], [], [])))) = true := by
  decide +kernel

/-- `solve` through `tensordot`, three modes, on `exSa`, `exSb` (C11b): `b`'s values with its
    pending sign, `b`'s label -/
example : ((solveA Kernels.solveCopy exSa exSb).toOption.map (fun x =>
      [TdotMode.blockwise, TdotMode.fused, TdotMode.auto].map (fun tm =>
        (exSa.tensordotF x (.pair [1] [0]) tm).toOption.map
          (fun y => (y.blocks.map (fun q => (q.1, q.2.data.toList)), y.phases, y.oddpos))))
    == some (List.replicate 3 (some ([([(1, 0)], [-5, -6])], [], [(7, false)])))) = true := by
  decide +kernel

/-- hypotheses of `solve_solves_tensordotF_all_modes` that are new w.r.t. C11b's example -/
example : exSa.sym = exSb.sym
    ∧ (exSb.indices.getD 0 default).dual = (exSa.indices.getD 0 default).dual
    ∧ SortedLabels exSb.oddpos := ⟨rfl, rfl, sortedLabels_of_short (by decide)⟩

/-- hypotheses of `qr_isometry_fermionic` for `exT` (odd, dual row index, three labels one of them
    dual, a pending sign) and the kernel `trivialFactor` (`q = 1` on square blocks) -/
example : exT.validB = true ∧ exT.ndim = 2 ∧ exT.fermi = true ∧ SortedLabels exT.oddpos
    ∧ (∀ p ∈ exT.blocks, Kernels.trivialFactor.QIsoBlock (RingHom.id Int) p.2) := by
  refine ⟨by decide, rfl, rfl, sortedLabels_ex, ?_⟩
  intro p hp
  simp only [exT, List.mem_cons, List.not_mem_nil, or_false] at hp
  rcases hp with rfl | rfl <;>
  · apply qiso_22 _ rfl
    intro t t' ht ht'
    have h1 : t = 0 ∨ t = 1 := by omega
    have h2 : t' = 0 ∨ t' = 1 := by omega
    rcases h1 with rfl | rfl <;> rcases h2 with rfl | rfl <;> decide

/-- the sign formula on `exT` and on `exT` with one non-dual label: one dual label and a dual row
    index give `-1` on the block with even row charge `0` (bond charge `1`) and `+1` on the one with
    odd row charge `1` (bond charge `2`); without the dual label the signs are swapped -/
example : isometrySign exT [(0, 0), (1, 0)] = -1 ∧ isometrySign exT [(1, 0), (2, 0)] = 1
    ∧ isometrySign { exT with oddpos := [(3, false)] } [(0, 0), (1, 0)] = 1
    ∧ isometrySign { exT with oddpos := [(3, false)] } [(1, 0), (2, 0)] = -1 := by decide

/-- … which is what the model computes (value view = stored block times pending sign), through
    `@` and through `tensordot` in all three modes -/
example : ([exT, { exT with oddpos := [(3, false)] }].map (fun a =>
      (qrA Kernels.trivialFactor a).toOption.map (fun p =>
        ([p.1.daggerF.matmulF p.1, p.1.daggerF.tensordotF p.1 (.pair [1] [0]) .blockwise,
          p.1.daggerF.tensordotF p.1 (.pair [1] [0]) .fused,
          p.1.daggerF.tensordotF p.1 (.pair [1] [0]) .auto].map (fun r =>
            r.toOption.map (fun y =>
              ([y.elem [(1, 0), (1, 0)] [0, 0], y.elem [(1, 0), (1, 0)] [0, 1],
                y.elem [(2, 0), (2, 0)] [1, 1]], y.oddpos))))))
    == [some (List.replicate 4 (some ([-1, 0, 1], []))),
        some (List.replicate 4 (some ([1, 0, -1], [])))]) = true := by
  decide +kernel

/-- `vh · vh†` for `exT` (column index not dual): `-1` on the odd bond charge `1`, `+1` on `2` -/
example : ((svdA Kernels.trivialFactor exO).toOption.map (fun p =>
      [p.2.2.matmulF p.2.2.daggerF, p.2.2.tensordotF p.2.2.daggerF (.pair [1] [0]) .fused].map
        (fun r => r.toOption.map (fun y =>
          ([y.elem [(1, 0), (1, 0)] [0, 0], y.elem [(1, 0), (1, 0)] [1, 0],
            y.elem [(2, 0), (2, 0)] [1, 1]], y.oddpos))))
    == some (List.replicate 2 (some ([-1, 0, 1], [])))) = true := by
  decide +kernel

/-- truncation structure on `exO` with counts `[1, 2]`: both kept, bond table `{1 ↦ 1, 2 ↦ 2}` on
    both factors, opposite directions -/
example : ((svdA Kernels.trivialFactor exO).toOption.map (fun p =>
      let t := applyCounts p.1 p.2.1 p.2.2 [1, 2]
      ((t.1.indices.getD 1 default).cm, (t.2.2.indices.getD 0 default).cm,
       (t.1.indices.getD 1 default).dual, (t.2.2.indices.getD 0 default).dual,
       t.2.1.blocks.map (fun q => (q.1, q.2.shape))))
    == some ([((1, 0), 1), ((2, 0), 2)], [((1, 0), 1), ((2, 0), 2)], false, true,
        [((1, 0), [1]), ((2, 0), [2])])) = true := by
  decide +kernel

/-- `qr_isometry_fermionic` and `svd_isometry_fermionic` instantiate at `Int` (`CommRing Int`, the
    trivial conjugation) with the exact kernel `trivialFactor` on `exT` resp. `exO` -/
example :=
  qr_isometry_fermionic (R := Int) (RingHom.id Int) (fun _ => rfl) Kernels.trivialFactor
    trivialFactor_shapeOk exT (by decide) rfl rfl sortedLabels_ex (by
      intro p hp
      simp only [exT, List.mem_cons, List.not_mem_nil, or_false] at hp
      rcases hp with rfl | rfl <;>
      · apply qiso_22 _ rfl
        intro t t' ht ht'
        have h1 : t = 0 ∨ t = 1 := by omega
        have h2 : t' = 0 ∨ t' = 1 := by omega
        rcases h1 with rfl | rfl <;> rcases h2 with rfl | rfl <;> decide)

example :=
  svd_isometry_fermionic (R := Int) (RingHom.id Int) (fun _ => rfl) Kernels.trivialFactor
    trivialFactor_shapeOk exO (by decide) rfl rfl sortedLabels_ex (by
      intro p hp
      simp only [exO, List.mem_cons, List.not_mem_nil, or_false] at hp
      rcases hp with rfl | rfl <;>
      · apply ortho_22 _ rfl
        intro t t' ht ht'
        have h1 : t = 0 ∨ t = 1 := by omega
        have h2 : t' = 0 ∨ t' = 1 := by omega
        rcases h1 with rfl | rfl <;> rcases h2 with rfl | rfl <;> decide)

/-- `solve_solves_tensordotF_all_modes` instantiates on `exSa`, `exSb` (C11b) -/
example (x : Arr Int) (h : solveA Kernels.solveCopy exSa exSb = .ok x) (tm : TdotMode) :=
  solve_solves_tensordotF_all_modes (R := Int) Int.zero_mul Int.mul_zero Kernels.solveCopy
    solveCopy_shapeOk exSa exSb x (by decide +kernel) (by decide +kernel) rfl rfl rfl rfl
    (by decide) rfl (sortedLabels_of_short (by decide))
    (by
      apply solveCopy_solvesOn
      intro s arr hm
      rw [phaseSync_blocks_nil _ rfl] at hm
      simp only [exSa, List.mem_cons, List.not_mem_nil, or_false, Prod.mk.injEq] at hm
      rcases hm with ⟨_, rfl⟩ | ⟨_, rfl⟩
      · exact ⟨1, rfl⟩
      · exact ⟨2, rfl⟩) h tm

/-- the abelian `eigh` theorem instantiates on `exEa` (C11b), and the three modes compute `exEa` -/
example (tm : TdotMode) :=
  eigh_reconstructs_tensordot_all_modes (R := Int) Int.zero_mul Int.mul_zero rfl Kernels.eighDiag
    eighDiag_shapeOk exEa (by decide) rfl (by decide) (by decide) (by decide) rfl
    (fun p hp => by
      simp only [exEa, List.mem_cons, List.not_mem_nil, or_false] at hp
      rcases hp with rfl | rfl
      · exact eighDiag_block _ (isDiag_22 2 3)
      · exact eighDiag_block _ (isDiag_11 5)) tm

example : ((eighA Kernels.eighDiag exEa).toOption.map (fun p =>
      [TdotMode.blockwise, TdotMode.fused, TdotMode.auto].map (fun tm =>
        (tensordotA (multiplyDiagonal p.2 p.1 1) p.2.adjA (.pair [1] [0]) tm).toOption.map
          (fun y => y.blocks.map (fun q => (q.1, q.2.data.toList)))))
    == some (List.replicate 3 (some
        [([(0, 0), (0, 0)], [2, 0, 0, 3]), ([(1, 0), (1, 0)], [5])]))) = true := by
  decide +kernel

/-- the abelian `solve` theorem instantiates on the abelian copies of `exSa`, `exSb` -/
example (x : Arr Int)
    (h : solveA Kernels.solveCopy ({ exSa with fermi := false } : Arr Int)
      ({ exSb with fermi := false, phases := [], oddpos := [] } : Arr Int) = .ok x) (tm : TdotMode) :=
  solve_solves_tensordot_all_modes (R := Int) Int.zero_mul Int.mul_zero Kernels.solveCopy
    solveCopy_shapeOk ({ exSa with fermi := false } : Arr Int)
    ({ exSb with fermi := false, phases := [], oddpos := [] } : Arr Int) x
    (by decide +kernel) (by decide +kernel) rfl rfl rfl rfl
    (by
      apply solveCopy_solvesOn
      intro s arr hm
      simp only [exSa, List.mem_cons, List.not_mem_nil, or_false, Prod.mk.injEq] at hm
      rcases hm with ⟨_, rfl⟩ | ⟨_, rfl⟩
      · exact ⟨1, rfl⟩
      · exact ⟨2, rfl⟩) h tm

/-- the truncation theorems instantiate on `exO`, counts `[1, 2]` -/
example (u : Arr Int) (s : BVec Int) (vh : Arr Int)
    (h : svdA Kernels.trivialFactor exO = .ok (u, s, vh)) :=
  svd_truncated_structure Kernels.trivialFactor exO (by decide) rfl u s vh h [1, 2] rfl

/-- abelian: `Q†·Q` of `exUT` (C11f) in all three modes -/
example : ((qrA Kernels.trivialFactor exUT).toOption.map (fun p =>
      [TdotMode.blockwise, TdotMode.fused, TdotMode.auto].map (fun tm =>
        (tensordotA p.1.adjA p.1 (.pair [1] [0]) tm).toOption.map (fun y =>
          y.blocks.map (fun q => (q.1, q.2.data.toList)))))
    == some (List.replicate 3 (some
        [([(1, 0), (1, 0)], [1, 0, 0, 1]), ([(2, 0), (2, 0)], [1, 0, 0, 1])]))) = true := by
  decide +kernel

/-- the truncated isometry on `exO`, counts `[1, 2]`: `u'† @ u'` is `-1` (`1 × 1`) on bond charge
    `1` and `+1` (`2 × 2`) on bond charge `2`; `vh' @ vh'†` likewise `-1`, `+1` -/
example : ((svdA Kernels.trivialFactor exO).toOption.map (fun p =>
      let t := applyCounts p.1 p.2.1 p.2.2 [1, 2]
      [t.1.daggerF.matmulF t.1, t.1.daggerF.tensordotF t.1 (.pair [1] [0]) .fused,
       t.2.2.matmulF t.2.2.daggerF, t.2.2.tensordotF t.2.2.daggerF (.pair [1] [0]) .auto].map
        (fun r => r.toOption.map (fun y =>
          ([y.elem [(1, 0), (1, 0)] [0, 0], y.elem [(2, 0), (2, 0)] [0, 0],
            y.elem [(2, 0), (2, 0)] [0, 1], y.elem [(2, 0), (2, 0)] [1, 1]], y.oddpos))))
    == some (List.replicate 4 (some ([-1, 1, 0, 1], [])))) = true := by
  decide +kernel

/-- `eigh_reconstructs_fermionic_any_labels` on `exEdual` (C11c: one dual and one non-dual label):
    the hypotheses hold, the sign is `-1`, and `@` and the three `tensordot` modes all give `-a`
    in the value view (`a` has `2, 3` on the even and `-5` on the odd sector) -/
example :=
  eigh_reconstructs_fermionic_any_labels (R := Int) Int.zero_mul Int.mul_zero rfl Kernels.eighDiag
    eighDiag_shapeOk exEdual (by decide) rfl (by decide) (by decide) (by decide) rfl
    (by unfold SortedLabels OddposP.OddSorted OddposP.LabelsDistinct; decide)
    (fun p hp => by
      obtain ⟨b0, hb0, hor⟩ := phaseSync_mem (s := p.1) (b' := p.2) hp
      have hd : IsDiag b0 := by
        simp only [exEdual, exEf, List.mem_cons, List.not_mem_nil, or_false, Prod.mk.injEq] at hb0
        rcases hb0 with ⟨_, rfl⟩ | ⟨_, rfl⟩
        · exact isDiag_22 2 3
        · exact isDiag_11 5
      rcases hor with h | h
      · rw [h]; exact eighDiag_block _ hd
      · rw [h]; exact eighDiag_block _ (isDiag_negK hd))

example : eighLabelSign exEdual = -1 ∧ eighLabelSign exEf = 1 := by decide

example : ((eighA Kernels.eighDiag exEdual).toOption.map (fun p =>
      [(multiplyDiagonal p.2 p.1 1).matmulF p.2.daggerF,
       (multiplyDiagonal p.2 p.1 1).tensordotF p.2.daggerF (.pair [1] [0]) .blockwise,
       (multiplyDiagonal p.2 p.1 1).tensordotF p.2.daggerF (.pair [1] [0]) .fused,
       (multiplyDiagonal p.2 p.1 1).tensordotF p.2.daggerF (.pair [1] [0]) .auto].map
        (fun r => r.toOption.map (fun y =>
          ([y.elem [(0, 0), (0, 0)] [0, 0], y.elem [(0, 0), (0, 0)] [1, 1],
            y.elem [(0, 0), (0, 0)] [0, 1], y.elem [(1, 0), (1, 0)] [0, 0]], y.oddpos))))
    == some (List.replicate 4 (some ([-2, -3, 0, 5], [])))) = true := by
  decide +kernel

end SymmModel.C11
