/-
  SymmModel.Props.C18 — "Local fermionic operator arrays reproduce the second-quantised operator".

  The theorems are about `SymmModel.Model.FermiOps`:
    faithful model   `buildElements` (= symmray.build_local_fermionic_elements, loop for loop),
                     `bubbleFrom` / `sortLoop` / `phasedSort`, `groupsOf` / `groupOk` / `nonvanishing`
    specification    Fock space: `applyOp` / `bindOp` (Jordan–Wigner sign on strictly increasing
                     occupation lists), `vev`, `specAt terms bases idx = Σ coeff · vev (bra ++ term ++ ket)`.
  Statement vocabulary defined in `SymmModel.Proofs.FermiOps` (namespace `FermiOpsP`):
    `Sorted s` (strictly increasing), `StSorted st`, `negSt` (−|ψ⟩), `LabelSorted w`
    (labels non-decreasing), `restrictTo l w` (operators of `w` on mode `l`), `SitesDisjoint bases`
    (different sites act on different modes), `siteSign bases i = (−1)^{Σ_{s<t} |i_s||i_t|}`.
  All proofs are complete (no `_partial` theorem in this file).  Coefficients: any additive
  commutative group with decidable equality (`GRat`, the driver's scalars, is an instance: see the
  last section).
-/
import SymmModel.Proofs.FermiOps
import SymmModel.Model.GRat
namespace SymmModel.C18
open SymmModel SymmModel.FermiOpsP

/-! ## canonical anticommutation relations of the specification -/

/-- operators on different modes anticommute on every (signed) basis state -/
theorem applyOp_anticomm (x y : FOp) (hxy : x.label ≠ y.label) (st : FState) (hst : StSorted st) :
    bindOp x (bindOp y st) = negSt (bindOp y (bindOp x st)) :=
  bindOp_anticomm x y hxy st hst

example : StSorted (some (1, [2, 5])) := by
  show List.Pairwise (· < ·) [2, 5]; decide

/-- CAR on one mode `l`: `a a = 0 = a† a†`, and `a a† + a† a = 1` (on a basis state exactly
    one of the two orders vanishes, the other is the identity) -/
theorem applyOp_car (l : Int) :
    (∀ (d : Bool) (st : FState), StSorted st → bindOp ⟨l, d⟩ (bindOp ⟨l, d⟩ st) = none)
    ∧ (∀ (amp : Int) (s : List Int), Sorted s →
        (bindOp ⟨l, false⟩ (bindOp ⟨l, true⟩ (some (amp, s))) = some (amp, s)
          ∧ bindOp ⟨l, true⟩ (bindOp ⟨l, false⟩ (some (amp, s))) = none)
        ∨ (bindOp ⟨l, false⟩ (bindOp ⟨l, true⟩ (some (amp, s))) = none
          ∧ bindOp ⟨l, true⟩ (bindOp ⟨l, false⟩ (some (amp, s))) = some (amp, s))) :=
  ⟨fun d st h => bindOp_sq ⟨l, d⟩ st h, fun amp s hs => bindOp_car l amp s hs⟩

/-- every run of the specification stays on strictly increasing occupation lists -/
theorem applyWord_sorted (w : Word) : StSorted (applyWord w []) := FermiOpsP.applyWord_sorted w

/-- `⟨0|w|0⟩ ∈ {0, 1, −1}` and `⟨0|w†|0⟩ = ⟨0|w|0⟩` -/
theorem vev_dagger (w : Word) : (vev w = 0 ∨ vev w = 1 ∨ vev w = -1) ∧ vev (dagWord w) = vev w :=
  ⟨vev_cases w, vev_dagWord w⟩

/-! ## the phased bubble sort -/

/-- each adjacent swap of operators with different labels flips the sign of the vev -/
theorem adjacent_swap_flips_vev (u v : Word) (x y : FOp) (h : x.label ≠ y.label) :
    vev (u ++ x :: y :: v) = - vev (u ++ y :: x :: v) := vev_swap u v x y h

/-- one sweep of the code's sort (any prefix `u` in front), and the whole `while` loop:
    `phase · vev(sorted word) = vev(word)` with `phase = ±1` -/
theorem bubble_preserves_vev :
    (∀ (cur : FOp) (rest : List FOp) (ph : Int) (mv : Bool) (u : Word),
      (bubbleFrom cur rest ph mv).2.1 * vev (u ++ (bubbleFrom cur rest ph mv).1)
        = ph * vev (u ++ cur :: rest)
      ∧ ((bubbleFrom cur rest ph mv).2.1 = ph ∨ (bubbleFrom cur rest ph mv).2.1 = -ph))
    ∧ (∀ el : List FOp,
      (phasedSort el).2 * vev (phasedSort el).1 = vev el
      ∧ ((phasedSort el).2 = 1 ∨ (phasedSort el).2 = -1)) :=
  ⟨fun cur rest ph mv u => bubbleFrom_vev rest cur ph mv u,
   fun el => ⟨(phasedSort_spec el).2.1, (phasedSort_spec el).2.2⟩⟩

/-- the fuel `inversions + 1` always suffices: the loop ends with a sweep without moves, the
    result is sorted by label and a permutation of the input -/
theorem sortLoop_sorted (el : List FOp) :
    LabelSorted (phasedSort el).1
    ∧ (∀ fuel ph, inversions el < fuel → LabelSorted (sortLoop fuel el ph).1) :=
  ⟨(phasedSort_spec el).1, fun fuel ph h => (sortLoop_spec fuel el ph h).1⟩

/-! ## the vacuum pattern test -/

/-- the code's test `nonvanishing` (every label group has even length, annihilators at the even
    and creators at the odd positions) holds iff the vev is non-zero — for every word; on a
    label-sorted word the vev is then exactly 1, else 0. -/
theorem pattern_iff_vev (w : Word) :
    (nonvanishing w = true ↔ vev w ≠ 0)
    ∧ (nonvanishing w = true ↔ ∀ l, groupOk (restrictTo l w) = true)
    ∧ (LabelSorted w → vev w = if nonvanishing w then 1 else 0) :=
  ⟨nonvanishing_iff_vev w, nonvanishing_iff w, vev_sorted_eq w⟩

example : LabelSorted [⟨0, false⟩, ⟨0, true⟩, ⟨3, false⟩, ⟨3, true⟩] := by
  unfold LabelSorted; decide

/-! ## main theorem -/

section main
variable {α : Type} [AddCommGroup α] [DecidableEq α]

/-- **elements_eq_vev**: for all terms and bases the dict returned by the code, looked up at any
    multi-index (0 where absent), is `Σ coeff · ⟨0| bra(idx) · term · ket(idx) |0⟩` with the
    documented bra convention (per-site dagger, sites not reversed); the only failure of the
    code is the `ValueError` without sites. -/
theorem elements_eq_vev (terms : List (α × Word)) (bases : List (List Word)) :
    (buildElements terms bases = none ↔ bases = [])
    ∧ (∀ es, buildElements terms bases = some es →
        ∀ idx, elemAt es idx = specAt terms bases idx) := by
  constructor
  · unfold buildElements
    cases bases <;> simp
  · intro es h idx
    unfold buildElements at h
    split at h
    · cases h
    · simp only [Option.some.injEq] at h
      rw [← h]; exact elemAt_buildElementsCore terms bases idx

/-- `build_local_fermionic_dense` holds the specified element at every position -/
theorem dense_eq_spec (terms : List (α × Word)) (bases : List (List Word))
    (shape : List Nat) (data : List α) (h : buildDense terms bases = some (shape, data)) :
    shape = bases.map List.length ++ bases.map List.length
    ∧ data = (allIdx shape).map (fun idx => specAt terms bases idx) := by
  unfold buildDense at h
  match hb : buildElements terms bases with
  | none => rw [hb] at h; cases h
  | some es =>
    rw [hb] at h
    simp only [Option.some.injEq, Prod.mk.injEq] at h
    obtain ⟨rfl, rfl⟩ := h
    refine ⟨rfl, ?_⟩
    apply List.map_congr_left
    intro idx _
    exact (elements_eq_vev terms bases).2 es hb idx

/-- **elements_hermitian**: a term set closed under dagger with conjugated coefficients (`cj` any
    additive map, e.g. complex conjugation) on site-disjoint bases gives
    `M[i,j] = τ(i) τ(j) · conj M[j,i]`, `τ = siteSign` the fixed diagonal sign of the bra
    convention (`scaleInt (±1) x = ±x`). -/
theorem elements_hermitian (cj : α → α) (hcj : ∀ a b, cj (a + b) = cj a + cj b)
    (terms : List (α × Word)) (bases : List (List Word)) (hd : SitesDisjoint bases)
    (hclosed : (terms.map (fun ct => (cj ct.1, dagWord ct.2))).Perm terms)
    (es : List (List Nat × α)) (hes : buildElements terms bases = some es)
    (is js : List Nat) (hi : is.length = bases.length) (hj : js.length = bases.length) :
    elemAt es (is ++ js)
      = scaleInt (siteSign bases is * siteSign bases js) (cj (elemAt es (js ++ is))) := by
  rw [(elements_eq_vev terms bases).2 es hes, (elements_eq_vev terms bases).2 es hes]
  exact specAt_hermitian cj hcj terms bases hd hclosed is js hi hj

/-- **chargemap_conserved** (general form): if every term is neutral for a charge assignment
    `q` of the modes, a non-zero element connects basis states of equal `q`-charge; so with index
    maps `k ↦ charge of basis state k` every non-zero element sits in a charge-conserving sector
    of the array with duals `(False…, True…)` and `from_dense` discards nothing. -/
theorem chargemap_conserved (q : Int → Int) (terms : List (α × Word)) (bases : List (List Word))
    (hneutral : ∀ ct ∈ terms, wordCharge q ct.2 = 0)
    (es : List (List Nat × α)) (hes : buildElements terms bases = some es)
    (idx : List Nat) (h : elemAt es idx ≠ 0) :
    wordCharge q (ketOf bases (idx.take bases.length))
      = wordCharge q (ketOf bases (idx.drop bases.length)) := by
  rw [(elements_eq_vev terms bases).2 es hes] at h
  exact specAt_charge q terms bases hneutral idx h

end main

/-- hypotheses of `elements_hermitian` / `chargemap_conserved` are satisfiable:
    the two-site spinful bases are site-disjoint -/
example : SitesDisjoint [spinfulBasis opAu opAd, spinfulBasis opBu opBd] := by
  unfold SitesDisjoint
  rw [List.pairwise_cons]
  refine ⟨?_, by simp⟩
  intro b' hb' w hw w' hw' x hx y hy
  simp only [List.mem_singleton] at hb'
  subst hb'
  simp only [spinfulBasis, List.mem_cons, List.not_mem_nil, or_false] at hw hw'
  rcases hw with rfl | rfl | rfl | rfl <;> rcases hw' with rfl | rfl | rfl | rfl <;>
    simp_all [opAu, opAd, opBu, opBd, FOp.dag] <;>
    (rcases hx with rfl | rfl <;> rcases hy with rfl | rfl <;> decide)

/-- … and a term set closed under dagger with conjugated coefficients exists
    (`2·a†b + 2·b†a` over `ℤ` with trivial conjugation) -/
example : (([((2 : Int), [opA.dag, opB]), (2, [opB.dag, opA])] : List (Int × Word)).map
    (fun ct => (id ct.1, dagWord ct.2))).Perm [(2, [opA.dag, opB]), (2, [opB.dag, opA])] :=
  List.Perm.swap _ _ _

/-! ## the built-in operators -/

def qUp : Int → Int := qSpecies [opAu.label, opBu.label]
def qDown : Int → Int := qSpecies [opAd.label, opBd.label]

/-- every term of the five built-in operators is neutral for the particle number and for the
    number of each spin species, whatever the coefficients -/
theorem builtin_terms_neutral {α : Type} [Neg α] (t uA uB muA muB V one half : α) :
    (∀ q ∈ [qNumber, qUp, qDown],
      (∀ ct ∈ hubbardTerms t uA uB muA muB, wordCharge q ct.2 = 0)
      ∧ (∀ ct ∈ numberSpinfulTerms one, wordCharge q ct.2 = 0)
      ∧ (∀ ct ∈ spinTerms half, wordCharge q ct.2 = 0))
    ∧ (∀ ct ∈ spinlessHubbardTerms t V muA muB, wordCharge qNumber ct.2 = 0)
    ∧ (∀ ct ∈ numberSpinlessTerms one, wordCharge qNumber ct.2 = 0) := by
  refine ⟨?_, ?_, ?_⟩
  · intro q hq
    simp only [List.mem_cons, List.not_mem_nil, or_false] at hq
    refine ⟨?_, ?_, ?_⟩ <;> intro ct hct <;>
      simp only [hubbardTerms, numberSpinfulTerms, spinTerms, List.mem_cons, List.not_mem_nil,
        or_false] at hct <;>
      rcases hq with rfl | rfl | rfl <;>
      (repeat' rcases hct with rfl | hct) <;> (dsimp only; decide)
  · intro ct hct
    simp only [spinlessHubbardTerms, List.mem_cons, List.not_mem_nil, or_false] at hct
    (repeat' rcases hct with rfl | hct) <;> (dsimp only; decide)
  · intro ct hct
    simp only [numberSpinlessTerms, List.mem_cons, List.not_mem_nil, or_false] at hct
    subst hct; dsimp only; decide

/-- the spinless / spinful index maps are exactly the charges of the built-in basis states
    (particle number for U1 / Z2, (n↑, n↓) for U1U1 / Z2Z2, modulo 2 for the Z2 groups) -/
theorem indexmap_is_charge :
    (∀ a ∈ [opA, opB],
      spinlessIndexMap .U1 = some ((spinlessBasis a).map (fun w => (wordCharge qNumber w, 0)))
      ∧ spinlessIndexMap .Z2 = some ((spinlessBasis a).map (fun w => (wordCharge qNumber w % 2, 0))))
    ∧ spinlessIndexMap .Z2Z2 = none ∧ spinlessIndexMap .U1U1 = none
    ∧ (∀ ud ∈ [(opAu, opAd), (opBu, opBd)],
      spinfulIndexMap .U1 = (spinfulBasis ud.1 ud.2).map (fun w => (wordCharge qNumber w, 0))
      ∧ spinfulIndexMap .Z2 = (spinfulBasis ud.1 ud.2).map (fun w => (wordCharge qNumber w % 2, 0))
      ∧ spinfulIndexMap .U1U1
          = (spinfulBasis ud.1 ud.2).map (fun w => (wordCharge qUp w, wordCharge qDown w))
      ∧ spinfulIndexMap .Z2Z2
          = (spinfulBasis ud.1 ud.2).map (fun w => (wordCharge qUp w % 2, wordCharge qDown w % 2))) := by
  decide

/-! ## the driver's scalar type is covered -/

instance instAddCommGroupGRat : AddCommGroup GRat where
  add := (· + ·)
  zero := 0
  neg := Neg.neg
  add_assoc a b c := by
    show GRat.mk _ _ = GRat.mk _ _
    congr 1 <;> exact Rat.add_assoc _ _ _
  zero_add a := by
    show GRat.mk _ _ = a
    cases a; congr 1 <;> exact Rat.zero_add _
  add_zero a := by
    show GRat.mk _ _ = a
    cases a; congr 1 <;> exact Rat.add_zero _
  add_comm a b := by
    show GRat.mk _ _ = GRat.mk _ _
    congr 1 <;> exact Rat.add_comm _ _
  neg_add_cancel a := by
    show GRat.mk _ _ = GRat.mk 0 0
    congr 1 <;> exact Rat.neg_add_cancel _
  sub_eq_add_neg a b := by
    show GRat.mk _ _ = GRat.mk _ _
    congr 1 <;> exact Rat.sub_eq_add_neg _ _
  nsmul := nsmulRec
  zsmul := zsmulRec

/-- the main theorem at the scalar type of the compiled driver, with exactly the instances the
    driver is compiled with (`GRat.instZero`, `GRat.instAdd`, `GRat.instNeg`) -/
theorem elements_eq_vev_GRat (terms : List (GRat × Word)) (bases : List (List Word))
    (es : List (List Nat × GRat))
    (h : @buildElements GRat GRat.instZero GRat.instAdd GRat.instNeg instDecidableEqGRat terms bases
          = some es) (idx : List Nat) :
    @elemAt GRat GRat.instZero es idx
      = @specAt GRat GRat.instZero GRat.instAdd GRat.instNeg terms bases idx :=
  (elements_eq_vev terms bases).2 es h idx

end SymmModel.C18
