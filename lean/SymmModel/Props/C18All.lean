import SymmModel.Props.C18
import SymmModel.Props.C18b
