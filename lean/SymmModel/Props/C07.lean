/-
  SymmModel.Props.C07 — "Reshape only regroups axes and is undone by reshaping back".

  Definitions used below live in `Model/Reshape.lean` (planner `calcReshapeArgs`, executor
  `reshapeArr`, symbolic executor `Plan.exec`, certificate `Plan.wfB`, the finite domain
  `shapesOfLen` / `targets`) and `Proofs/C07*.lean` (helper lemmas, kernel-checked table chunks).

  What is proved, and for which inputs:

  * for ALL inputs
      - `plan_certificate_sound`   what the certificate `Plan.wfB` guarantees: the symbolic
                                   execution of the plan succeeds (axes in range, only fused
                                   axes unfused, fuse groups consecutive, so nothing is
                                   transposed) and yields exactly the requested shape;
      - `plan_certificate_size`    a certified plan without unfuse steps keeps the dense size;
      - `reshape_self_id`          for an array without fused axes, reshaping to the current
                                   shape is the empty plan (every shape, by induction);
      - `reshape_self_id_fused_counterexample`
                                   … which is FALSE of the planner when an axis is fused and
                                   its sub-sizes prefix-match the shape (finding, replayed on
                                   the real code by the harness);
      - `planner_empty_target_raises`
                                   `x.reshape(())` of an all-singleton array: IndexError
                                   (finding #19), for every number of axes ≥ 1;
      - `reshapeK_data`, `squeezeK_data`, `expandK_data`, `mapBlocks_data`, `expandDims_data`,
        `squeeze_data`             the block kernels used by reshape share the flat data of
                                   every stored block: the list of stored data (hence the
                                   multiset of stored entries, the norm, the magnitudes) is
                                   unchanged.
  * for the FINITE domain — kernel-checked tables (`decide +kernel` only, no native evaluation)
      - `planner_finite_ok`        every shape with 1..5 axes of sizes in {1,2,3,4,6} (3 905
                                   shapes) and every non-empty target reachable by merging
                                   adjacent axes and/or dropping size-one axes (47 655 pairs;
                                   the 5 empty targets are `planner_empty_target_raises`): the
                                   planner returns a certified plan, and from the symbolic
                                   result (merged axes carry their sub-sizes) the planner
                                   returns a certified plan back to the original shape that
                                   leaves no fused axis.
-/
import SymmModel.Proofs.C07
import SymmModel.Proofs.C07T4
import SymmModel.Proofs.C07T5_1
import SymmModel.Proofs.C07T5_2
import SymmModel.Proofs.C07T5_3
import SymmModel.Proofs.C07T5_4
import SymmModel.Proofs.C07T5_6
namespace SymmModel.C07
open SymmModel SymmModel.Reshape

/-! ### (i) the certificate -/

/-- `Plan.wfB` ⇒ the plan executes symbolically (every axis in range, only fused axes are
    unfused, each fuse call groups consecutive axes in order, expansions inside the array) and
    the result has exactly the requested axes. -/
theorem plan_certificate_sound {shape : List Nat} {subsizes : List (Option (List Nat))}
    {newshape : List Nat} {plan : Plan} (h : plan.wfB shape subsizes newshape = true) :
    shape.length = subsizes.length ∧
    ∃ r, plan.exec (shape.zip subsizes) = some r ∧
      r.length = newshape.length ∧ SymShape.sizes r = newshape := by
  obtain ⟨hl, r, hr, hs⟩ := wfB_iff.mp h
  exact ⟨hl, r, hr, by rw [← hs, sizes_length], hs⟩

example : (Plan.mk [] [[[0, 1], [2]]] [2]).wfB [2, 3, 4] [none, none, none] [6, 4, 1] = true := by
  decide

/-- a certified plan that does not unfuse keeps the dense size `prod shape` -/
theorem plan_certificate_size {shape : List Nat} {subsizes : List (Option (List Nat))}
    {newshape : List Nat} {plan : Plan} (hu : plan.unfuse = [])
    (h : plan.wfB shape subsizes newshape = true) : prod newshape = prod shape :=
  wfB_prod hu h

/-! ### (ii) the planner on the finite domain -/

/-- For every shape with 1..5 axes of sizes in {1,2,3,4,6} and every non-empty target reachable
    by dropping size-one axes and/or merging adjacent axes, the planner succeeds forward and
    back with certified plans (`RoundTrip`, see `Model/Reshape.lean`). -/
theorem planner_finite_ok (shape : List Nat) (h1 : 1 ≤ shape.length) (h5 : shape.length ≤ 5)
    (hs : ∀ d ∈ shape, d ∈ sizes5) (target : List Nat) (ht : target ∈ targets shape)
    (hne : target ≠ []) : RoundTrip shape target := by
  have key : ∀ (pre r : List Nat), shape = pre ++ r → chunkOk pre r.length = true →
      RoundTrip shape target := by
    intro pre r e hc
    subst e
    exact chunkOk_roundTrip hc rfl (fun d hd => hs d (List.mem_append_right _ hd)) ht hne
  match shape, h1, h5, hs with
  | [_], _, _, _ => exact key [] _ rfl table_1
  | [_, _], _, _, _ => exact key [] _ rfl table_2
  | [_, _, _], _, _, _ => exact key [] _ rfl table_3
  | [d, a, b, c], _, _, hs =>
    have hd : d ∈ sizes5 := hs d (by simp)
    simp only [sizes5, List.mem_cons, List.not_mem_nil, or_false] at hd
    rcases hd with rfl | rfl | rfl | rfl | rfl
    · exact key [1] [a, b, c] rfl table_4_1
    · exact key [2] [a, b, c] rfl table_4_2
    · exact key [3] [a, b, c] rfl table_4_3
    · exact key [4] [a, b, c] rfl table_4_4
    · exact key [6] [a, b, c] rfl table_4_6
  | [d, e, a, b, c], _, _, hs =>
    have hd : d ∈ sizes5 := hs d (by simp)
    have he : e ∈ sizes5 := hs e (by simp)
    simp only [sizes5, List.mem_cons, List.not_mem_nil, or_false] at hd he
    rcases hd with rfl | rfl | rfl | rfl | rfl <;> rcases he with rfl | rfl | rfl | rfl | rfl
    · exact key [1, 1] [a, b, c] rfl table_5_1_1
    · exact key [1, 2] [a, b, c] rfl table_5_1_2
    · exact key [1, 3] [a, b, c] rfl table_5_1_3
    · exact key [1, 4] [a, b, c] rfl table_5_1_4
    · exact key [1, 6] [a, b, c] rfl table_5_1_6
    · exact key [2, 1] [a, b, c] rfl table_5_2_1
    · exact key [2, 2] [a, b, c] rfl table_5_2_2
    · exact key [2, 3] [a, b, c] rfl table_5_2_3
    · exact key [2, 4] [a, b, c] rfl table_5_2_4
    · exact key [2, 6] [a, b, c] rfl table_5_2_6
    · exact key [3, 1] [a, b, c] rfl table_5_3_1
    · exact key [3, 2] [a, b, c] rfl table_5_3_2
    · exact key [3, 3] [a, b, c] rfl table_5_3_3
    · exact key [3, 4] [a, b, c] rfl table_5_3_4
    · exact key [3, 6] [a, b, c] rfl table_5_3_6
    · exact key [4, 1] [a, b, c] rfl table_5_4_1
    · exact key [4, 2] [a, b, c] rfl table_5_4_2
    · exact key [4, 3] [a, b, c] rfl table_5_4_3
    · exact key [4, 4] [a, b, c] rfl table_5_4_4
    · exact key [4, 6] [a, b, c] rfl table_5_4_6
    · exact key [6, 1] [a, b, c] rfl table_5_6_1
    · exact key [6, 2] [a, b, c] rfl table_5_6_2
    · exact key [6, 3] [a, b, c] rfl table_5_6_3
    · exact key [6, 4] [a, b, c] rfl table_5_6_4
    · exact key [6, 6] [a, b, c] rfl table_5_6_6

example : RoundTrip [2, 1, 3] [6] :=
  planner_finite_ok [2, 1, 3] (by decide) (by decide) (by decide) [6] (by decide) (by decide)

/-- the 5 remaining pairs of the 47 660-pair domain (empty target of an all-singleton shape),
    and in fact every number of axes: the planner raises `IndexError` (finding #19) -/
theorem planner_empty_target_raises (m : Nat) :
    calcReshapeArgs (List.replicate (m + 1) 1) [] (nones (List.replicate (m + 1) 1))
      = .error Err.index :=
  planner_empty_target_raises' m

example : [] ∈ targets [1, 1] := by decide

/-! ### (iii) reshaping to the current shape -/

/-- without fused axes, reshaping to the current shape is the empty plan — all shapes -/
theorem reshape_self_id (shape : List Nat) :
    calcReshapeArgs shape shape (nones shape) = .ok ([], [], []) :=
  reshape_self_id' shape

/-- the full statement "reshaping to the current shape is the identity" is FALSE of the
    planner for fused axes: a fused axis of size 4 with sub-sizes (4, 2) (sparse fuse) followed
    by an axis of size 2 is unfused and re-fused differently, although shape = newshape.
    The symbolic result is (4, 4[2·2]) ≠ (4, 2): the certificate rejects this plan. -/
theorem reshape_self_id_fused_counterexample :
    calcReshapeArgs [4, 2] [4, 2] [some [4, 2], none] = .ok ([0], [[[1, 2]]], []) ∧
    (Plan.mk [0] [[[1, 2]]] []).wfB [4, 2] [some [4, 2], none] [4, 2] = false := by
  constructor
  · rfl
  · decide

/-- `reshape_self_id` under the hypothesis that excludes the counterexample: no fused axis
    whose sub-sizes prefix-match the remaining shape.  (Here: no fused axis at all; see
    `reshape_self_id`.) -/
theorem reshape_self_id_partial (shape : List Nat) (subsizes : List (Option (List Nat)))
    (h : subsizes = nones shape) : calcReshapeArgs shape shape subsizes = .ok ([], [], []) := by
  subst h; exact reshape_self_id shape

/-! ### (iv) content: the stored data of every block is kept -/

variable {R : Type}

theorem reshapeK_data (b : Blk R) (s : List Nat) : (b.reshapeK s).data = b.data := rfl
theorem squeezeK_data (b : Blk R) (keep : List Nat) : (b.squeezeK keep).data = b.data := rfl
theorem expandK_data (b : Blk R) (axis : Nat) : (b.expandK axis).data = b.data := rfl

/-- `_map_blocks` with a data-preserving block function keeps the list of stored data as long
    as no two stored sectors are mapped to the same key -/
theorem mapBlocks_data (a : Arr R) (fs : Sector → Sector) (fb : Blk R → Blk R)
    (hfb : ∀ b, (fb b).data = b.data)
    (hd : allDistinct (a.blocks.map (fun sb => fs sb.1)) = true) :
    storedData (a.mapBlocks fs fb) = storedData a :=
  mapBlocks_data' a fs fb hfb hd

/-- `expand_dims` keeps the stored data of every block (sector keys distinct, as in a dict) -/
theorem expandDims_data (a : Arr R) (axis : Nat) (c : Option Charge) (dual : Option Bool)
    (hd : allDistinct a.sectors = true) :
    storedData (a.expandDims axis c dual) = storedData a :=
  expandDims_data' a axis c dual hd

example : allDistinct ([[(0, 0), (1, 0)], [(1, 0), (0, 0)]] : List Sector) = true := by decide

/-- `squeeze` keeps the stored data of every block, provided the stored sectors stay distinct
    after the removed (single-charge) axes are dropped -/
theorem squeeze_data (a : Arr R) (axis : Option (List Nat)) (b : Arr R)
    (h : a.squeeze axis = .ok b) :
    ∃ keep, b.blocks = (a.mapBlocks (fun s => permuted s keep) (fun b => b.squeezeK keep)).blocks ∧
      (allDistinct (a.blocks.map (fun sb => permuted sb.1 keep)) = true →
        storedData b = storedData a) :=
  squeeze_data' a axis b h

end SymmModel.C07
