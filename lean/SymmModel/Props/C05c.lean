/-
  Property C05, part c — the fermionic fuse (`FermionicArray.fuse`, model `Arr.fuseF`).

  `fuseF a groups` is `_fuse_core` applied to the sign-adjusted operand
      signAdj a groups = phaseSync (phaseTranspose? vperm (phaseFlip axesFlip (transposeF a perm)))
  over the positions `newGroupsF` the groups have after the transposition (consecutive runs, so the
  inner permutation is the identity).  Vocabulary (namespace `FuseP`, `Proofs/FuseFermi*.lean`):
    `dualGroupsF a groups`   the (transposed) groups whose first axis is dual
    `axesFlipF a groups`     the non-dual legs of the dual groups
    `vpermF a groups`        the virtual permutation reversing every dual group
    `fuseSignT a groups S`   sign applied to sector `S` of the transposed array
                             = flipSign(axesFlip)(S) · koszul(parities S)(vperm)
    `fuseSignF a groups s`   total sign for the ORIGINAL sector `s`
                             = fuseSignT (permuted s perm) · koszul(parities s)(perm)
    `Lazy.sgnI σ x`          `x` or `-x` according to the sign `σ = ±1`

  Proved (arbitrary lists of groups, insert strategy): `fuseF_struct`, `signAdj_elem`, `fuseF_elem`,
  `fuseSign_formula` (the flip part as a product over the dual groups), and `unfuseF_elem`
  (certificate form for ANY valid fermionic array with a fused axis: value of `unfuseF` = value at
  the joined address times the explicit sign `unfuseSign` — the flip of the non-dual new legs and
  the virtual reversal of the new legs when the fused index is dual, i.e. the same two sign
  sources as in `fuseF`).
  NOT proved: the factorisation of `koszul(parities S)(vperm)` into one reversal sign
  `(-1)^(k(k-1)/2)` per dual group (`KoszulP.koszul_reverse_block` applied group by group), and
  `unfuseF_fuseF` (the inverse signs of `unfuseF`); see the final report.
-/
import SymmModel.Proofs.FuseFermi7
import SymmModel.Props.C05b

namespace SymmModel.C05
open SymmModel FuseP SymmModel.Lazy

variable {R : Type} [Zero R] [Neg R]

/-- the rank-3 example of part a as a fermionic array (charge 0: no odd-position label), and a
    variant with a pending sign -/
def exF : Arr Int := { exA with fermi := true }
def exF' : Arr Int := { exA with fermi := true, phases := [([(0, 0), (1, 0), (1, 0)], -1)] }

example : exF.validB = true ∧ exF.fermi = true ∧ exF'.validB = true
    ∧ groupsOkB [[2, 1]] exF.ndim = true ∧ groupsOkB [[0], [1, 2]] exF.ndim = true := by decide
/-- the dual group (1,2) (first axis dual), sector with odd charges on both legs: flip of the
    non-dual leg 2 gives −1, reversal of two odd charges gives −1, the transposition is trivial:
    total sign +1.  Grouping (2,1) instead (first axis not dual, no flip / reversal) leaves only
    the Koszul sign −1 of exchanging the two odd legs. -/
example : view (Arr.fuseF exF [[0], [1, 2]] .insert true)
    = some [([(0, 0), (0, 0)], [2, 3], [1, 3, 4, 2, 5, 6])]
    ∧ (dualGroupsF exF [[0], [1, 2]] = [[1, 2]]) ∧ axesFlipF exF [[0], [1, 2]] = [2]
    ∧ vpermF exF [[0], [1, 2]] = [0, 2, 1]
    ∧ fuseSignF exF [[0], [1, 2]] [(0, 0), (1, 0), (1, 0)] = 1
    ∧ fuseSignF exF [[2, 1]] [(0, 0), (1, 0), (1, 0)] = -1 := by
  decide +kernel

/-- **structure of the fermionic fuse**: under the guard it is the abelian `_fuse_core` of the
    sign-adjusted, synchronised (no pending signs), valid operand, over consecutive groups at the
    same position, with the identity as inner permutation -/
theorem fuseF_struct (a : Arr R) (groups : List (List Nat)) (mode : FuseMode) (e : Bool)
    (hv : a.validB = true) (hf : a.fermi = true) (hg : groupsOkB groups a.ndim = true) :
    Arr.fuseF a groups mode e = fuseCore (signAdj a groups) (newGroupsF groups a.duals) mode
    ∧ (signAdj a groups).validB = true ∧ (signAdj a groups).phases = []
    ∧ (signAdj a groups).indices = permuted a.indices (calcFuseGroupInfo groups a.duals).perm
    ∧ groupsOkB (newGroupsF groups a.duals) (signAdj a groups).ndim = true
    ∧ (calcFuseGroupInfo (newGroupsF groups a.duals) (signAdj a groups).duals).position
        = (calcFuseGroupInfo groups a.duals).position
    ∧ (calcFuseGroupInfo (newGroupsF groups a.duals) (signAdj a groups).duals).perm = List.range a.ndim := by
  have hok := groupsOk_iff.1 hg
  have hfld := signAdj_fields a groups
  have hnd4 : (signAdj a groups).ndim = a.ndim := by
    show (signAdj a groups).indices.length = a.ndim
    rw [hfld.2.1]; exact permutedM_length hok a.indices rfl
  have hd4 : (signAdj a groups).duals.length = a.duals.length := by
    rw [duals_length, duals_length, hnd4]
  obtain ⟨hpos, hperm, _⟩ := newGroups_plan (hokD hok) hd4
  refine ⟨fuseF_eq a groups mode e hok, (ValidP.validB_iff _).2 (signAdj_valid a groups hv hf hok), hfld.1,
    hfld.2.1, ?_, hpos, by rw [hperm, duals_length]⟩
  rw [groupsOk_iff, hnd4, ← duals_length]
  exact newGroupsF_ok (hokD hok)

/-- **the sign-adjusted operand on the value view**: the transposed value times the flip of the
    non-dual legs of the dual groups times the Koszul sign of the virtual reversal of the dual
    groups -/
theorem signAdj_elem [LawfulNeg R] (a : Arr R) (groups : List (List Nat)) (S : Sector) (J : List Nat) :
    (signAdj a groups).elem S J
      = sgnI (flipSign a.sym (axesFlipF a groups) S
              * (if (dualGroupsF a groups).isEmpty then 1
                 else koszul (S.map a.sym.parity) (some (vpermF a groups))))
          ((a.transposeF (calcFuseGroupInfo groups a.duals).perm).elem S J) :=
  FuseP.signAdj_elem a groups S J

/-- the sign per original sector: Koszul sign of the permutation, one flip factor per dual group
    (`-1` iff an odd number of the group's non-dual legs carry an odd charge), Koszul sign of the
    virtual reversal of the dual groups -/
theorem fuseSign_formula (a : Arr R) (groups : List (List Nat)) (s : Sector) :
    fuseSignF a groups s
      = ((dualGroupsF a groups).map (fun g => flipSign a.sym (g.filter (fun ax =>
            !((a.transposeF (calcFuseGroupInfo groups a.duals).perm).indices.getD ax default).dual))
            (permuted s (calcFuseGroupInfo groups a.duals).perm))).foldr (· * ·) 1
        * (if (dualGroupsF a groups).isEmpty then 1
           else koszul ((permuted s (calcFuseGroupInfo groups a.duals).perm).map a.sym.parity)
             (some (vpermF a groups)))
        * koszul (a.parities s) (some (calcFuseGroupInfo groups a.duals).perm) := by
  unfold fuseSignF fuseSignT
  rw [fuseSignT_flip]

/-- **fuseF_elem.**  Every element of the fermionic fused array is the element of the original at
    the address given by `splitAddr` on every fused axis and un-permuting — as in the abelian
    `fuse_elem`, read from the fused array's own tables — times the explicit sign `fuseSignF` of
    the original sector. -/
theorem fuseF_elem [LawfulNeg R] (a : Arr R) (groups : List (List Nat)) (e : Bool)
    (hv : a.validB = true) (hf : a.fermi = true) (hg : groupsOkB groups a.ndim = true) :
    let gi := calcFuseGroupInfo groups a.duals
    ∃ x, Arr.fuseF a groups .insert e = .ok x ∧
      ∀ ns B, alookup x.blocks ns = some B → ∀ i, inBox B.shape i = true →
        ∃ segs : List (Sector × List Nat), segs.length = groups.length
          ∧ (∀ g gaxes, groups[g]? = some gaxes →
              (gaxes.length = 1 → segs[g]? = some ([ns.getD (gi.position + g) (0, 0)], [i.getD (gi.position + g) 0]))
              ∧ (gaxes.length ≠ 1 →
                  splitAddr (x.indices.getD (gi.position + g) default) (ns.getD (gi.position + g) (0, 0))
                    (i.getD (gi.position + g) 0) = segs[g]?))
          ∧ ∀ s offs, s.length = a.ndim → offs.length = a.ndim →
              permuted s gi.perm = ns.take gi.position ++ (segs.map (·.1)).flatten
                ++ ns.drop (gi.position + groups.length) →
              permuted offs gi.perm = i.take gi.position ++ (segs.map (·.2)).flatten
                ++ i.drop (gi.position + groups.length) →
              x.elem ns i = sgnI (fuseSignF a groups s) (a.elem s offs) := by
  have hok := groupsOk_iff.1 hg
  obtain ⟨h0, hM⟩ := fuseF_elemM a groups e hv hf hok
  obtain ⟨_, hT⟩ := fuseF_elemT a groups e hv hf hok
  have hfld := signAdj_fields a groups
  have hnd4 : (signAdj a groups).ndim = a.ndim := by
    show (signAdj a groups).indices.length = a.ndim
    rw [hfld.2.1]; exact permutedM_length hok a.indices rfl
  have hd4 : (signAdj a groups).duals.length = a.duals.length := by
    rw [duals_length, duals_length, hnd4]
  obtain ⟨hpos, _, _⟩ := newGroups_plan (hokD hok) hd4
  have hlen : (newGroupsF groups a.duals).length = groups.length := newGroupsF_length _ _
  refine ⟨_, h0, ?_⟩
  intro ns B hB i hi
  obtain ⟨h1, _, _, _, _⟩ := hT ns B hB i hi
  refine ⟨(List.range groups.length).map (segM (signAdj a groups) (newGroupsF groups a.duals) ns i), by simp, ?_, ?_⟩
  · intro g gaxes hgg
    have hgl := getElem?_lt hgg
    have hseg : ((List.range groups.length).map (segM (signAdj a groups) (newGroupsF groups a.duals) ns i))[g]?
        = some (segM (signAdj a groups) (newGroupsF groups a.duals) ns i g) := by
      simp [List.getElem?_map, List.getElem?_range hgl]
    constructor
    · intro hl1
      have hm : multiB (newGroupsF groups a.duals) g = false := by
        rw [multiB_newGroupsF]; simp [multiB, hgg, hl1]
      rw [hseg]; simp only [segM, hm, Bool.false_eq_true, if_false]
      show some ([ns.getD ((giM (signAdj a groups) (newGroupsF groups a.duals)).position + g) (0, 0)],
        [i.getD ((giM (signAdj a groups) (newGroupsF groups a.duals)).position + g) 0]) = _
      rw [hpos]
    · intro hl1
      have hm : multiB groups g = true := multiB_iff.2 ⟨_, hgg, hl1⟩
      rw [hseg]
      have := h1 g hgl hm
      show splitAddr ((newIdxM (signAdj a groups) (newGroupsF groups a.duals)).getD _ default) _ _ = _
      have hix : (newIdxM (signAdj a groups) (newGroupsF groups a.duals)).getD
          ((calcFuseGroupInfo groups a.duals).position + g) default
          = ixM (signAdj a groups) (newGroupsF groups a.duals) g := by
        simp only [ixM]; rw [hpos]
      rw [hix]; exact this
  · intro s offs hs ho hK hJ
    apply hM ns B hB i hi s offs hs ho
    · rw [hK]
      simp only [expandK, hpos, hlen, List.map_map]
      rfl
    · rw [hJ]
      simp only [expandJ, hpos, hlen, List.map_map]
      rfl

/-- **unfuseF_elem (certificate form).**  For any valid fermionic array whose index at `axis` is a
    fused index: `unfuseF` succeeds, replaces the index by its sub-indices, and its value at the
    sector `ns` with `ns[axis]` expanded into the sub-sector `ss` of the extent of `ns[axis]` is the
    value of the input at the joined offset (`st + ravel subshape (sub-offsets)` = `joinAddr`)
    times `unfuseSign`: `+1` for a non-dual fused index, otherwise
    `flipSign(non-dual new legs) · koszul(parities)(reversal of the new legs)`.  All other sectors
    of the result have value zero. -/
theorem unfuseF_elem [LawfulNeg R] (a : Arr R) (axis : Nat) (ix : Index) (subs : List Index)
    (exts : Extents) (hv : a.validB = true) (hix : a.indices[axis]? = some ix)
    (hsub : ix.sub = some (subs, exts)) :
    ∃ y, Arr.unfuseF a axis = .ok y ∧ y.indices = replaceWithSeq a.indices axis subs
      ∧ (∀ ns B, (ns, B) ∈ a.blocks → ∀ e ss st d, alookup exts (ns.getD axis (0, 0)) = some e →
          startOf e ss = some (st, d) →
          ∃ subshape, Arr.blockShape? subs ss = some subshape ∧ prod subshape = d
            ∧ ∀ J, inBox (replaceWithSeq B.shape axis subshape) J = true →
                y.elem (replaceWithSeq ns axis ss) J
                  = sgnI (unfuseSign a ix subs axis (replaceWithSeq ns axis ss))
                      (a.elem ns (J.take axis ++ [st + ravel subshape ((J.drop axis).take subshape.length)]
                        ++ J.drop (axis + subshape.length))))
      ∧ (∀ K, (∀ ns B e ss st d, (ns, B) ∈ a.blocks → alookup exts (ns.getD axis (0, 0)) = some e →
            startOf e ss = some (st, d) → K ≠ replaceWithSeq ns axis ss) → ∀ J, y.elem K J = 0) :=
  unfuseF_elemM a axis ix subs exts hv hix hsub

/-- the sign of `unfuseF`, spelled out -/
theorem unfuseSign_def (a : Arr R) (ix : Index) (subs : List Index) (axis : Nat) (K : Sector) :
    unfuseSign a ix subs axis K
      = if ix.dual then
          flipSign a.sym ((subs.zipIdx.filter (fun p => !p.1.dual)).map (fun p => axis + p.2)) K
            * koszul (K.map a.sym.parity) (some ((List.range (a.ndim + subs.length - 1)).map (fun ax =>
                if axis ≤ ax && ax < axis + subs.length then axis + subs.length - (ax - axis) - 1 else ax)))
        else 1 := rfl

/-- fermionic round trip on the example: fuse (1,2) then unfuse axis 1 gives back the array -/
example : view (do let x ← Arr.fuseF exF' [[0], [1, 2]] .insert true; Arr.unfuseF x 1)
    = some [([(0, 0), (0, 0), (0, 0)], [2, 1, 1], [1, 2]), ([(0, 0), (1, 0), (1, 0)], [2, 2, 1], [-3, -4, -5, -6])] := by
  decide +kernel

end SymmModel.C05
