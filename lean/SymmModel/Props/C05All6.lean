import SymmModel.Props.C05All5
import SymmModel.Props.C05h
