/-
  Property C11 — umbrella: C11, C11b (through C11All), C11c (several labels, every `absorb`
  option, truncation, for fermionic arrays) and C11d (abelian reconstruction in fused/auto mode).
-/
import SymmModel.Props.C11All
import SymmModel.Props.C11c
import SymmModel.Props.C11d
