/-
  Property C20 — element type and precision are preserved.

  The dtype content of symmray's operations is: every result block is produced from operand
  blocks by kernels that keep the dtype, by binary kernels that promote, by `zeros` created with
  the dtype of an example block of the same array, or by assignment into such a zero block.
  The theorems below say that on *uniform* inputs (all blocks of one dtype `d`) each of these
  yields `d` again (real part of `d` for spectra), that promotion is a join (so order of
  accumulation is irrelevant), and that assignment into a `zeros` block created with the example
  dtype never drops an imaginary part.  The correspondence check (harness/props/c20.py) ties
  `promote`/`realPart` to numpy exhaustively and checks the dtype of every block of every
  result of every operation on the real code.
-/
import SymmModel.Model.DType
namespace SymmModel.C20
open SymmModel DType

theorem promote_self (d : DType) : promote d d = d := by cases d <;> rfl
theorem promote_comm (a b : DType) : promote a b = promote b a := by cases a <;> cases b <;> rfl
theorem promote_assoc (a b c : DType) : promote (promote a b) c = promote a (promote b c) := by
  cases a <;> cases b <;> cases c <;> rfl
theorem realPart_real (d : DType) : (realPart d).isComplex = false := by cases d <;> rfl
theorem realPart_precision (d : DType) : (realPart d).isDouble = d.isDouble := by cases d <;> rfl
theorem realPart_idem (d : DType) : realPart (realPart d) = realPart d := by cases d <;> rfl

/-- folding `promote` over blocks that all have dtype `d` gives `d` (accumulating aligned block
    products, concatenating sub-blocks) -/
theorem fold_promote_uniform (d : DType) (l : List DType) (h : ∀ x ∈ l, x = d) :
    l.foldl promote d = d := by
  induction l with
  | nil => rfl
  | cons x xs ih =>
    have hx : x = d := h x (by simp)
    subst hx
    simp only [List.foldl_cons, promote_self]
    exact ih (fun y hy => h y (by simp [hy]))

/-- every kernel class preserves a uniform dtype (real part for spectra) -/
theorem dop_uniform (op : DOp) (d : DType) (args : List DType) (h : ∀ x ∈ args, x = d) :
    op.result d args = if op = DOp.real ∧ args ≠ [] then realPart d else d := by
  cases op <;> cases args with
  | nil => simp [DOp.result]
  | cons a rest =>
    have ha : a = d := h a (by simp)
    subst ha
    simp only [DOp.result]
    first
      | rfl
      | (simp; exact fold_promote_uniform a rest (fun y hy => h y (by simp [hy])))
      | simp

/-- zero blocks created with the example dtype join data of the same dtype without any cast,
    hence without dropping an imaginary part -/
theorem insert_no_imag_loss (d : DType) : losesImag (DOp.zerosLike.result d []) d = false := by
  cases d <;> rfl

/-- whereas a default-dtype (`float64`) zero block would drop the imaginary part of complex data
    and widen single precision: this is the failure the property excludes -/
theorem default_zeros_loses_imag : losesImag zerosDefault c64 = true ∧ losesImag zerosDefault c128 = true
    ∧ castInto zerosDefault f32 ≠ f32 := by decide

example : (DOp.binary).result f32 [f32, f32, f32] = f32 := by decide
example : (DOp.real).result c64 [c64] = f32 := by decide

end SymmModel.C20
