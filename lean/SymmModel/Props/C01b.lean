/-
  Property C01, second part — the operations that Props/C01.lean left as PLANNED, so that
  `Prog.preserves_valid_all` covers every public operation named in the property's quantifier:
  construct (all constructors), fuse in `mode="concat"`, einsum, reshape, solve,
  svd_truncated, align_axes.

  Same conventions as Props/C01.lean: every theorem is about the model's decidable predicate
  `Arr.validB`, for all symmetries, ranks, tables, sparsity patterns and any scalar type `R`;
  form "`validB` operands ∧ call admissible → `validB` result"; admissibility hypotheses are
  decidable Booleans except the kernel SHAPE contract (`Kernels.ShapeOk`, satisfied by
  `Kernels.shapeOnly`) and the contract of a user fill function (`FillOk`).

  Proofs: Proofs/ValidMore2Construct.lean, ValidMore2Concat.lean, ValidMore2Einsum.lean,
  ValidMore2Reshape.lean, ValidMore2Cert.lean, ValidMore2Linalg.lean (wrapping
  Props/C11.lean's `solveA_valid`, `applyCounts_valid`), ValidMore2Prog.lean.

  Hypotheses that go beyond "operands valid", each with a machine-checked counterexample in
  the cited file:
    * constructors: the sign labels must match the parity of the charge (`oddposOkB`): the
      model, like `oddpos_parse`, only rejects "odd, no label"
      (`construct_odd_even_labels_invalid`, … in ValidMore2Construct.lean);
    * einsum: an output label must occur once in the input (`exDiag` in ValidMore2Einsum.lean:
      a "diagonal" `aa->a` returns a sector that is not charge-conserving);
    * solve: fermionic matrices must be even (`C11.solve_odd_matrix_invalid`, known finding);
    * reshape: the `fuse` calls of the plan must get distinct in-range axes
      (`reshapeAdmissibleB`, evaluated along the model's execution); this follows from the
      plan certificate `Plan.wfB` that the harness's plan monitor evaluates
      (`reshapeArr_valid_of_certificate`).  An unconditional statement would need the planner's
      correctness for all inputs, which C07 has on its finite table only.
-/
import SymmModel.Props.C01
import SymmModel.Proofs.ValidMore2Prog

namespace SymmModel.C01
open SymmModel SymmModel.ValidP

variable {R : Type}

/-! ## 6. constructors -/

/-- `AbelianArray.__init__` / `FermionicArray.__init__`: well-formed indices, valid charge, every
    given block charge-conserving (for the given or the inferred charge) with the shape its tables
    give, labels matching the parity (`constructOkB`) -/
theorem construct_valid {sym : Sym} {fermi : Bool} {indices : List Index} {charge : Option Charge}
    {blocks : List (Sector × Blk R)} {oddpos : List (Int × Bool)} {a : Arr R}
    (hok : constructOkB sym fermi indices charge blocks oddpos = true)
    (h : construct sym fermi indices charge blocks oddpos = .ok a) : a.validB = true :=
  ValidP.construct_valid hok h

example : constructOkB exA.sym false exA.indices (some (0, 0)) exA.blocks [] = true
    ∧ constructOkB exF.sym true exF.indices none exF.blocks exF.oddpos = true := by decide

/-- `from_blocks`: index tables are inferred from the blocks (`fromBlocksOkB`: charges valid,
    positive sizes, blocks well formed, every sector conserves the charge, labels match) -/
theorem fromBlocks_valid {sym : Sym} {fermi : Bool} {blocks : List (Sector × Blk R)}
    {duals : List Bool} {charge : Option Charge} {oddpos : List (Int × Bool)} {a : Arr R}
    (hok : fromBlocksOkB sym fermi blocks duals charge oddpos = true)
    (h : fromBlocks sym fermi blocks duals charge oddpos = .ok a) : a.validB = true :=
  ValidP.fromBlocks_valid hok h

example : fromBlocksOkB .Z2 true exF.blocks [false, true, false] (some (1, 0)) [(7, false)] = true := by
  decide

/-- `from_dense`: always valid for valid charge labels (`dense` need not even be well formed) -/
theorem fromDense_valid [Zero R] {sym : Sym} {fermi : Bool} {dense : Blk R}
    {maps : List (List Charge)} {duals : List Bool} {charge : Option Charge}
    {oddpos : List (Int × Bool)} {a : Arr R}
    (hok : fromDenseOkB sym fermi maps charge oddpos = true)
    (h : fromDense sym fermi dense maps duals charge oddpos = .ok a) : a.validB = true :=
  ValidP.fromDense_valid hok h

/-- `from_fill_fn` (and the random constructors built on it) -/
theorem fromFillFn_valid {sym : Sym} {fermi : Bool} {indices : List Index} {charge : Option Charge}
    {fill : Sector → List Nat → Blk R} {oddpos : List (Int × Bool)} {a : Arr R}
    (hok : fromFillFnOkB sym fermi indices charge oddpos = true) (hfill : FillOk indices fill)
    (h : fromFillFn sym fermi indices charge fill oddpos = .ok a) : a.validB = true :=
  ValidP.fromFillFn_valid hok hfill h

/-! ## 3. reshape -/

/-- `AbelianArray.reshape` / `FermionicArray.reshape`: unfuse, fuse and expand_dims steps -/
theorem reshapeArr_valid [Zero R] [Neg R] (a r : Arr R) (newshape : List Int)
    (hv : a.validB = true) (hadm : reshapeAdmissibleB a newshape = true)
    (h : reshapeArr a newshape = .ok r) : r.validB = true :=
  (validB_iff _).mpr (ValidP.reshapeArr_valid a r newshape ((validB_iff a).mp hv) hadm h)

/-- … in particular whenever the planner's plan passes the certificate `Plan.wfB` -/
theorem reshapeArr_valid_of_certificate [Zero R] [Neg R] (a r : Arr R) (newshape : List Int)
    (hv : a.validB = true) (hcert : reshapeCertifiedB a newshape = true)
    (h : reshapeArr a newshape = .ok r) : r.validB = true :=
  ValidP.reshapeArr_validB_of_certificate a r newshape hv hcert h

/-- the certificate implies the guard -/
theorem reshapeAdmissible_of_certified [Zero R] [Neg R] (a : Arr R) (newshape : List Int)
    (hcert : reshapeCertifiedB a newshape = true) : reshapeAdmissibleB a newshape = true :=
  ValidP.reshapeAdmissible_of_certified a newshape hcert

/-- any plan executed by `applyPlan` whose fuse calls are admissible -/
theorem applyPlan_valid [Zero R] [Neg R] (a r : Arr R)
    (plan : List Nat × List (List (List Nat)) × List Nat) (hv : a.validB = true)
    (hadm : planAdmissibleB a plan = true) (h : applyPlan a plan = .ok r) : r.validB = true :=
  (validB_iff _).mpr (ValidP.applyPlan_valid a r plan ((validB_iff a).mp hv) hadm h)

example : reshapeCertifiedB exA [3, 2, 3] = true ∧ reshapeAdmissibleB exA [3, 2, 3] = true
    ∧ reshapeCertifiedB exF [6, -1] = true := by decide +kernel

/-! ## 2. einsum -/

/-- `AbelianArray.einsum` (traces and permutations).  `einsumAdmissibleB`: one label per axis,
    output labels distinct and occurring once in the input, every other label occurs exactly
    twice, on two indices of opposite direction with the same charge table -/
theorem einsumA_valid [Zero R] [Add R] (a r : Arr R) (lhs rhs : List Nat) (hv : a.validB = true)
    (hf : a.fermi = false) (hadm : einsumAdmissibleB a lhs rhs = true)
    (h : einsumA a lhs rhs = .ok r) : r.validB = true :=
  ValidP.einsumA_validB a r lhs rhs hv hf hadm h

/-- `FermionicArray.einsum`: sort of the axes, transpose, `phase_sync`, the abelian kernel -/
theorem einsumF_valid [Zero R] [Add R] [Neg R] (a r : Arr R) (lhs rhs : List Nat)
    (hv : a.validB = true) (hf : a.fermi = true) (hadm : einsumAdmissibleB a lhs rhs = true)
    (h : Arr.einsumF a lhs rhs = .ok r) : r.validB = true :=
  ValidP.einsumF_validB a r lhs rhs hv hf hadm h

/-- fermionic Z2 rank-3 array whose first two indices can be traced -/
def exH : Arr Int :=
  { sym := .Z2, fermi := true,
    indices := [.mk [((0, 0), 1), ((1, 0), 2)] false none,
                .mk [((0, 0), 1), ((1, 0), 2)] true none,
                .mk [((0, 0), 1), ((1, 0), 1)] false none],
    charge := (1, 0),
    blocks := [([(0, 0), (0, 0), (1, 0)], ⟨[1, 1, 1], #[1]⟩),
               ([(1, 0), (1, 0), (1, 0)], ⟨[2, 2, 1], #[2, 3, 4, 5]⟩),
               ([(1, 0), (0, 0), (0, 0)], ⟨[2, 1, 1], #[6, 7]⟩)],
    phases := [([(1, 0), (1, 0), (1, 0)], -1)],
    oddpos := [(5, false)] }

example : exH.validB = true ∧ einsumAdmissibleB exH [0, 0, 1] [1] = true
    ∧ einsumAdmissibleB exA [4, 7] [7, 4] = true := by decide

/-! ## 1. fuse, concat mode -/

theorem fuseCore_concat_valid [Zero R] (a r : Arr R) (groups : List (List Nat))
    (hv : a.validB = true) (hf : a.fermi = false) (hadm : fuseAdmissibleB groups a.ndim = true)
    (h : fuseCore a groups .concat = .ok r) : r.validB = true :=
  ValidP.fuseCore_concat_validB a r groups hv hf hadm h

/-- `AbelianArray.fuse(…, mode="concat")`, empty groups included: blocks built by
    `_fuse_blocks_via_concat` (zero blocks for missing sub-sectors) have the shapes of the fused
    tables and distinct keys -/
theorem fuseA_concat_valid [Zero R] (a r : Arr R) (groups : List (List Nat)) (expandEmpty : Bool)
    (hv : a.validB = true) (hf : a.fermi = false) (hadm : fuseAdmissibleB groups a.ndim = true)
    (h : fuseA a groups .concat expandEmpty = .ok r) : r.validB = true :=
  ValidP.fuseA_concat_validB a r groups expandEmpty hv hf hadm h

theorem fuseF_concat_valid [Zero R] [Neg R] (a r : Arr R) (groups : List (List Nat))
    (expandEmpty : Bool) (hv : a.validB = true) (hf : a.fermi = true)
    (hadm : fuseAdmissibleB groups a.ndim = true)
    (h : Arr.fuseF a groups .concat expandEmpty = .ok r) : r.validB = true :=
  ValidP.fuseF_concat_validB a r groups expandEmpty hv hf hadm h

example : fuseAdmissibleB [[2, 0], [], [1]] exH.ndim = true := by decide

/-! ## 4. solve, svd_truncated -/

/-- `solve(a, b)` (abelian, and fermionic with an even matrix), wrapping `C11.solveA_valid` -/
theorem solveA_valid [Neg R] (K : Kernels R) (hK : K.ShapeOk) (a b x : Arr R)
    (hv : a.validB = true) (hadm : solveAdmissibleB a b = true) (h : solveA K a b = .ok x) :
    x.validB = true :=
  ValidP.solve_valid K hK a b x hv hadm h

/-- `svd_truncated` = `svd` followed by the truncation step with ANY counts aligned with the
    sectors and at most the bond sizes (e.g. those `truncCounts` of Model/Trunc.lean selects):
    both truncated factors are valid; wrapping `C11.applyCounts_valid` -/
theorem svdTruncated_valid [Zero R] (K : Kernels R) (hK : K.ShapeOk) (x u vh : Arr R) (s : BVec R)
    (counts : List Nat) (hv : x.validB = true) (hadm : svdTruncAdmissibleB K x counts = true)
    (h : svdA K x = .ok (u, s, vh)) :
    (applyCounts u s vh counts).1.validB = true ∧ (applyCounts u s vh counts).2.2.validB = true :=
  ValidP.svdTrunc_valid K hK x u vh s counts hv hadm h

example : (Kernels.shapeOnly : Kernels Int).ShapeOk := LinalgLemmas.shapeOnly_shapeOk

example : svdTruncAdmissibleB Kernels.shapeOnly exA [1, 2] = true
    ∧ svdTruncAdmissibleB Kernels.shapeOnly exA [0, 1] = true := by decide +kernel

/-! ## 5. align_axes -/

/-- `align_axes(a, b, axes)` is `drop_misaligned_sectors`: both returned arrays are valid -/
theorem alignAxes_valid (a b : Arr R) (axesA axesB : List Nat) (ha : a.validB = true)
    (hb : b.validB = true) :
    (dropMisaligned a b axesA axesB).1.validB = true ∧ (dropMisaligned a b axesA axesB).2.validB = true :=
  dropMisaligned_valid a b axesA axesB ha hb

/-! ## 7. programs over every operation -/

/-- one step of the extended operation set (`OpAll`: every `Op` of Props/C01.lean, plus reshape,
    einsum, fuse in concat mode, solve, the two factors of svd_truncated, both components of
    align_axes) -/
theorem OpAll.preserves_valid [Zero R] [Add R] [Mul R] [Neg R] [Conj R] (op : OpAll R) (a r : Arr R)
    (hv : a.validB = true) (hK : op.KernelOk) (hadm : op.admissible a = true)
    (h : op.apply a = .ok r) : r.validB = true :=
  (validB_iff _).mpr (ValidP.OpAll.apply_valid op a r ((validB_iff a).mp hv) hK hadm h)

/-- every finite sequence of operations maps a valid array to a valid array -/
theorem Prog.preserves_valid_ops [Zero R] [Add R] [Mul R] [Neg R] [Conj R] (ops : List (OpAll R))
    (a r : Arr R) (hv : a.validB = true) (hK : ∀ op ∈ ops, op.KernelOk)
    (h : runOps ops a = .ok r) : r.validB = true :=
  (validB_iff _).mpr (ValidP.runOps_valid ops a r ((validB_iff a).mp hv) hK h)

/-- **all of C01**: a program is a constructor call (`Ctor`: a given valid array, `__init__`,
    `from_blocks`, `from_dense`, `from_fill_fn`) followed by any finite sequence of operations;
    whatever it returns is a valid array.  `ProgAll.run` stops with an error at the first
    inadmissible call or model error. -/
theorem Prog.preserves_valid_all [Zero R] [Add R] [Mul R] [Neg R] [Conj R] (p : ProgAll R)
    (r : Arr R) (hfill : p.ctor.FillOk) (hK : ∀ op ∈ p.ops, op.KernelOk)
    (h : p.run = .ok r) : r.validB = true :=
  (validB_iff _).mpr (ValidP.ProgAll.run_valid p r hfill hK h)

/-- abelian: `__init__`, unfuse, fuse (concat), reshape (unfuses again), einsum (a permutation),
    align_axes, fuse (insert), truncated svd -/
def progAllA : ProgAll Int :=
  { ctor := .construct .U1 false exA.indices (some (0, 0)) exA.blocks [],
    ops := [.base (.unfuse 1), .fuseConcat [[1, 2]] true, .reshape [3, 2, 3],
            .einsum [0, 1, 2] [2, 0, 1], .alignL exA [0] [0], .base (.fuse [[1, 2]] true),
            .svdTruncU Kernels.shapeOnly [1, 1]] }

/-- fermionic: `from_blocks`, a phase operation, fuse (concat, with an empty group), unfuse_all,
    einsum with a trace -/
def progAllF : ProgAll Int :=
  { ctor := .fromBlocks .Z2 true exH.blocks [false, true, false] (some (1, 0)) [(5, false)],
    ops := [.base (.phaseFlip [0]), .fuseConcat [[2, 1], []] true, .base .unfuseAll,
            .einsum [0, 1, 0, 2] [1, 2], .base (.expandDims 0 none none)] }

/-- `from_dense` then `solve` against a fixed vector -/
def progAllS : ProgAll Int :=
  { ctor := .fromDense .U1 false ⟨[2, 2], #[2, 0, 0, 3]⟩ [[(0, 0), (1, 0)], [(0, 0), (1, 0)]]
      [false, true] none [],
    ops := [.solve Kernels.shapeOnly
      { sym := .U1, fermi := false, indices := [.mk [((0, 0), 1), ((1, 0), 1)] false none],
        charge := (0, 0), blocks := [([(0, 0)], ⟨[1], #[4]⟩)] }] }

example : progAllA.ctor.FillOk ∧ progAllF.ctor.FillOk ∧ progAllS.ctor.FillOk :=
  ⟨trivial, trivial, trivial⟩

example : (∀ op ∈ progAllA.ops, op.KernelOk) ∧ (∀ op ∈ progAllF.ops, op.KernelOk)
    ∧ (∀ op ∈ progAllS.ops, op.KernelOk) := by
  refine ⟨fun op h => ?_, fun op h => ?_, fun op h => ?_⟩
  · simp only [progAllA, List.mem_cons, List.not_mem_nil, or_false] at h
    rcases h with rfl | rfl | rfl | rfl | rfl | rfl | rfl <;>
      first | trivial | exact LinalgLemmas.shapeOnly_shapeOk
  · simp only [progAllF, List.mem_cons, List.not_mem_nil, or_false] at h
    rcases h with rfl | rfl | rfl | rfl | rfl <;> trivial
  · simp only [progAllS, List.mem_cons, List.not_mem_nil, or_false] at h
    subst h; exact LinalgLemmas.shapeOnly_shapeOk

/-- the three programs run to completion (every call admissible) and return valid arrays -/
example :
    (match progAllA.run with
     | .ok r => r.validB && decide (2 ≤ r.blocks.length)
     | .error _ => false) = true
    ∧ (match progAllF.run with
       | .ok r => r.validB && r.fermi && decide (1 ≤ r.blocks.length)
       | .error _ => false) = true
    ∧ (match progAllS.run with
       | .ok r => r.validB && decide (1 ≤ r.blocks.length)
       | .error _ => false) = true := by
  decide +kernel

end SymmModel.C01
