/-
  Property C07, sixth part.

  (1) `callsOk_of_runs`: the calls `callsR runs 0 []` of a concatenation of `RunOk` runs always pass
      `callsOkB` — the `_runs` round-trip theorems of C07e need no check any more
      (`reshape_roundtrip_fermionic_shapes` / `_abelian_shapes`: hypotheses on the shapes only).
  (2) EVERY plan the planner returns for an input without fused axes has fuse calls of the form the
      round trip needs (`planner_calls_ok`: clusters of consecutive ranges, every group with at least
      two axes, calls left to right) — flat invariants of the three phases, for all inputs
      (Proofs/Reshape6b.lean), plus the certificate.  Hence
      `reshape_roundtrip_fermionic_general` / `_abelian_general`: for a valid array without fused
      or empty axes, ANY target of the same dense size for which the planner returns a plan without
      expansion — merged runs, squeezed size-one axes inside, before, after or between runs, however
      the planner groups them — `reshape` there and back restores the value view (`VEq`) exactly.
      The only hypotheses about the planner's answer: it is `.ok t` and `t.2.2 = []`.
  (2b/4) PLANNER TOTALITY for merge / squeeze targets (`planner_total_items`): the old shape read as
      the planner reads it — items `K d` (axis kept), `Sq` (size-one axis without counterpart; allowed
      where the next target dimension is not 1, and at the end), `M d0 mid dl` (run `d0, mid…, dl`
      merged into one axis, `d0, dl ≥ 2`, inner sizes ≥ 1 — size-one axes INSIDE runs) — the target
      has the kept sizes and the products and is not empty: the planner returns `.ok t` with no unfuse
      and no expansion.  (Flat success proofs of all phases, Proofs/Reshape6d–e.lean.)  Hence
      `reshape_roundtrip_fermionic_items` / `_abelian_items`: BOTH reshapes succeed and the value
      view is restored — no hypothesis about the planner at all.  Excluded, explicitly: the empty
      target (known finding reshape-empty-target, `targetOf items ≠ []`), zero-size axes (`hpos`).
  (3) Expansions: the clause is FALSE for targets that insert a size-one axis —
      `roundtrip_expansion_counterexample`: (3,3,2) → (3,3,2,1) → (3,3,2) returns an array whose
      last axis is a FUSED index (of the original axis and the inserted one): the way back squeezes
      by grouping, as the docstring of `reshape` says; the values are the same, the indices are not.
-/
import SymmModel.Proofs.Reshape6f
import SymmModel.Props.C07e

namespace SymmModel.C07
open SymmModel SymmModel.Reshape SymmModel.Reshape5 ReshapeP FuseP

/-! ## (1) the calls of runs -/

theorem callsOk_of_runs (runs : List (List Nat)) (hok : ∀ r ∈ runs, RunOk r) :
    callsOkB (callsR runs 0 []) 0 runs.flatten.length = true :=
  callsOk_runs runs hok

/-! ## (2) every plan without expansion -/

/-- **the fuse calls of every certified plan** of an input without fused axes -/
theorem planner_calls_ok (shape newshape : List Nat) (t : List Nat × List (List (List Nat)) × List Nat)
    (h : calcReshapeArgs shape newshape (nones shape) = .ok t)
    (hwf : (Plan.ofTriple t).wfB shape (nones shape) newshape = true) :
    CallsOk t.2.1 0 shape.length :=
  calls_of_planner shape newshape t h hwf

variable {R : Type} [Zero R] [Neg R] [Lazy.LawfulNeg R]

/-- **`reshape` there and back, fermionic, every plan without expansion** -/
theorem reshape_roundtrip_fermionic_general (a y : Arr R) (ns full : List Int) (nsN : List Nat)
    (t : List Nat × List (List (List Nat)) × List Nat)
    (hv : a.validB = true) (hf : a.fermi = true) (hnf : ∀ ix ∈ a.indices, ix.sub = none)
    (hpos : ∀ d ∈ a.shape, 0 < d) (hprod : prod a.shape = prod nsN)
    (h1 : findFullReshape ns a.size = .ok full)
    (h2 : full.mapM (fun (d : Int) => if d < 0 then (throw Err.notimpl : Except Err Nat) else pure d.toNat)
      = .ok nsN)
    (h3 : calcReshapeArgs a.shape nsN a.subsizes = .ok t) (hexp : t.2.2 = [])
    (hy : reshapeArr a ns = .ok y) :
    ∃ z, reshapeArr y (a.shape.map Int.ofNat) = .ok z ∧ z.validB = true ∧ z.fermi = true ∧ VEq z a := by
  obtain ⟨z, hz, g, hvz⟩ := reshape_roundtrip_generic (stepOK_F (R := R)) fuseOK_F hind_F
    (fun x G hx => by simp [fuseDispatch, hx.2]) hdisp_F a y ⟨hv, hf⟩ hnf ns full nsN t hpos hprod h1 h2 h3
    hexp hy
  exact ⟨z, hz, g.1, g.2, hvz⟩

/-- **`reshape` there and back, abelian, every plan without expansion** -/
theorem reshape_roundtrip_abelian_general (a y : Arr R) (ns full : List Int) (nsN : List Nat)
    (t : List Nat × List (List (List Nat)) × List Nat)
    (hv : a.validB = true) (hf : a.fermi = false) (hnf : ∀ ix ∈ a.indices, ix.sub = none)
    (hpos : ∀ d ∈ a.shape, 0 < d) (hprod : prod a.shape = prod nsN)
    (h1 : findFullReshape ns a.size = .ok full)
    (h2 : full.mapM (fun (d : Int) => if d < 0 then (throw Err.notimpl : Except Err Nat) else pure d.toNat)
      = .ok nsN)
    (h3 : calcReshapeArgs a.shape nsN a.subsizes = .ok t) (hexp : t.2.2 = [])
    (hy : reshapeArr a ns = .ok y) :
    ∃ z, reshapeArr y (a.shape.map Int.ofNat) = .ok z ∧ z.validB = true ∧ z.fermi = false ∧ VEq z a := by
  obtain ⟨z, hz, g, hvz⟩ := reshape_roundtrip_generic (stepOK_A (R := R)) fuseOK_A hind_A
    (fun x G hx => by simp [fuseDispatch, hx.2]) hdisp_A a y ⟨hv, hf⟩ hnf ns full nsN t hpos hprod h1 h2 h3
    hexp hy
  exact ⟨z, hz, g.1, g.2, hvz⟩

/-- **hypotheses on the shapes only** (runs with all merged sizes ≥ 2), fermionic -/
theorem reshape_roundtrip_fermionic_shapes (a y : Arr R) (runs : List (List Nat))
    (hv : a.validB = true) (hf : a.fermi = true) (hnf : ∀ ix ∈ a.indices, ix.sub = none)
    (hshape : a.shape = runs.flatten) (hok : ∀ r ∈ runs, RunOk r)
    (hy : reshapeArr a ((runs.map prod).map Int.ofNat) = .ok y) :
    ∃ z, reshapeArr y (a.shape.map Int.ofNat) = .ok z ∧ z.validB = true ∧ z.fermi = true ∧ VEq z a :=
  reshape_roundtrip_fermionic_runs a y runs hv hf hnf hshape hok
    (by
      have : a.ndim = runs.flatten.length := by rw [← hshape]; simp [Arr.shape, Arr.ndim]
      rw [this]; exact callsOk_runs runs hok) hy

/-- … abelian -/
theorem reshape_roundtrip_abelian_shapes (a y : Arr R) (runs : List (List Nat))
    (hv : a.validB = true) (hf : a.fermi = false) (hnf : ∀ ix ∈ a.indices, ix.sub = none)
    (hshape : a.shape = runs.flatten) (hok : ∀ r ∈ runs, RunOk r)
    (hy : reshapeArr a ((runs.map prod).map Int.ofNat) = .ok y) :
    ∃ z, reshapeArr y (a.shape.map Int.ofNat) = .ok z ∧ z.validB = true ∧ z.fermi = false ∧ VEq z a :=
  reshape_roundtrip_abelian_runs a y runs hv hf hnf hshape hok
    (by
      have : a.ndim = runs.flatten.length := by rw [← hshape]; simp [Arr.shape, Arr.ndim]
      rw [this]; exact callsOk_runs runs hok) hy

/-! ## (2b/4) totality, and the unconditional round trip -/

omit [Zero R] [Neg R] [Lazy.LawfulNeg R] in
/-- **planner totality for merge / squeeze targets**: a plan, no unfuse step, no expansion -/
theorem planner_total_items (items : List Item) (hok : ItemsOk items) (hne : targetOf items ≠ []) :
    ∃ t, calcReshapeArgs (shapeOf items) (targetOf items) (nones (shapeOf items)) = .ok t
      ∧ t.1 = [] ∧ t.2.2 = [] :=
  planner_items_total items hok hne

-- size-one axes before, inside and after the merged runs, a kept axis in between
example : shapeOf [.Sq, .M 3 [1] 2, .Sq, .K 7, .M 2 [] 5, .Sq] = [1, 3, 1, 2, 1, 7, 2, 5, 1]
    ∧ targetOf [.Sq, .M 3 [1] 2, .Sq, .K 7, .M 2 [] 5, .Sq] = [6, 7, 10]
    ∧ ItemsOk [.Sq, .M 3 [1] 2, .Sq, .K 7, .M 2 [] 5, .Sq] := by decide
example := planner_total_items [.Sq, .M 3 [1] 2, .Sq, .K 7, .M 2 [] 5, .Sq] (by decide) (by decide)

/-- **`reshape` there and back, fermionic, unconditional** (merge / squeeze targets) -/
theorem reshape_roundtrip_fermionic_items (a : Arr R) (hv : a.validB = true) (hf : a.fermi = true)
    (hnf : ∀ ix ∈ a.indices, ix.sub = none) (items : List Item) (hshape : a.shape = shapeOf items)
    (hok : ItemsOk items) (hne : targetOf items ≠ []) (hpos : ∀ d ∈ a.shape, 0 < d) :
    ∃ y z, reshapeArr a ((targetOf items).map Int.ofNat) = .ok y
      ∧ reshapeArr y (a.shape.map Int.ofNat) = .ok z ∧ z.validB = true ∧ z.fermi = true ∧ VEq z a := by
  obtain ⟨y, z, h1, h2, g, h3⟩ := reshape_roundtrip_items_generic (stepOK_F (R := R)) fuseOK_F hind_F
    (fun x G hx => by simp [fuseDispatch, hx.2]) hdisp_F a ⟨hv, hf⟩ hnf items hshape hok hne hpos
  exact ⟨y, z, h1, h2, g.1, g.2, h3⟩

/-- **`reshape` there and back, abelian, unconditional** (merge / squeeze targets) -/
theorem reshape_roundtrip_abelian_items (a : Arr R) (hv : a.validB = true) (hf : a.fermi = false)
    (hnf : ∀ ix ∈ a.indices, ix.sub = none) (items : List Item) (hshape : a.shape = shapeOf items)
    (hok : ItemsOk items) (hne : targetOf items ≠ []) (hpos : ∀ d ∈ a.shape, 0 < d) :
    ∃ y z, reshapeArr a ((targetOf items).map Int.ofNat) = .ok y
      ∧ reshapeArr y (a.shape.map Int.ofNat) = .ok z ∧ z.validB = true ∧ z.fermi = false ∧ VEq z a := by
  obtain ⟨y, z, h1, h2, g, h3⟩ := reshape_roundtrip_items_generic (stepOK_A (R := R)) fuseOK_A hind_A
    (fun x G hx => by simp [fuseDispatch, hx.2]) hdisp_A a ⟨hv, hf⟩ hnf items hshape hok hne hpos
  exact ⟨y, z, h1, h2, g.1, g.2, h3⟩

/-! ## (3) expansions -/

section Examples
open C05

/-- **inserting a size-one axis and reshaping back does NOT restore the indices**: the way back
    groups the inserted axis with its left neighbour (`fuse((2,3))`), so the result's last axis is a
    fused index with sub-sizes (2,1) instead of the original plain index. -/
theorem roundtrip_expansion_counterexample :
    calcReshapeArgs exA.shape [3, 3, 2, 1] exA.subsizes = .ok ([], [], [3])
    ∧ ∃ x z, reshapeArr exA [3, 3, 2, 1] = .ok x ∧ calcReshapeArgs x.shape [3, 3, 2] x.subsizes = .ok ([], [[[2, 3]]], [])
      ∧ reshapeArr x [3, 3, 2] = .ok z ∧ z.shape = [3, 3, 2] ∧ z.subsizes = [none, none, some [2, 1]]
      ∧ z.indices ≠ exA.indices ∧ exA.subsizes = [none, none, none] := by
  refine ⟨by decide +kernel, _, _, rfl, by decide +kernel, rfl, by decide +kernel, by decide +kernel,
    ?_, by decide +kernel⟩
  intro h
  have h' := congrArg (fun idx : List Index => idx.map (fun ix => ix.sub.map (fun s => s.1.map Index.sizeTotal))) h
  revert h'
  show ¬ (Arr.subsizes _ = exA.subsizes)
  decide +kernel

-- squeezes before, inside, after: plans without expansion, covered by the general theorems
example : calcReshapeArgs [1, 1, 3, 1, 2, 1, 1] [3, 2] (nones [1, 1, 3, 1, 2, 1, 1])
    = .ok ([], [[[0, 1, 2, 3], [4, 5, 6]]], []) := by decide
example := reshape_roundtrip_fermionic_general (R := Int) exG _ [4, 4] [4, 4] [4, 4] _ (by decide) rfl
  (by decide) (by decide) (by decide) rfl rfl rfl rfl rfl
example := reshape_roundtrip_abelian_general (R := Int) exA _ [3, -1] [3, 6] [3, 6] _ (by decide) rfl
  (by decide) (by decide) (by decide) rfl rfl rfl rfl rfl
example := reshape_roundtrip_fermionic_shapes (R := Int) exG _ [[2, 2], [2, 2]] (by decide) rfl (by decide)
  rfl (by decide) rfl
example := reshape_roundtrip_fermionic_items (R := Int) exG (by decide) rfl (by decide)
  [.M 2 [] 2, .K 2, .K 2] (by decide) (by decide) (by decide) (by decide)
example := reshape_roundtrip_abelian_items (R := Int) exA (by decide) rfl (by decide)
  [.K 3, .M 3 [] 2] (by decide) (by decide) (by decide) (by decide)

end Examples

end SymmModel.C07
