/-
  Property C08, fifth part — the position map of `fuse_toDense` is a bijection between the
  positions of stored sectors of the original and their images in the fused dense box.
  (Parts one to four: Props/C08.lean … C08d.lean; umbrella: Props/C08All4.lean.  The dense form of
  the single-operand einsum with traced labels is stated under C02: Props/C02c.lean.)

  `Dense5.FuseRel a x groups s offs ns i` (Proofs/Dense5a.lean) is the relation of `fuse_toDense`
  between an address `(s, offs)` of the original and an address `(ns, i)` of the fused array
  (`splitAddr` on every multi-axis group axis, the entries themselves on single-axis group axes,
  the permuted lists in front / group / back form).
-/
import SymmModel.Proofs.Dense5f
import SymmModel.Props.C07e

namespace SymmModel.C08
open SymmModel Arr DenseP Dense3 Dense4 Dense5 FuseP ReshapeP

variable {R : Type}

/-- the forward half of `fuse_toDense` in terms of `FuseRel`: every position of a stored sector
    has an image, related to it by `FuseRel`, holding the same entry -/
theorem fuse_forward_rel [Zero R] [Neg R] (a : Arr R) (groups : List (List Nat))
    (hv : a.validB = true) (hg : C05.groupsOkB groups a.ndim = true) (hnf : a.fermi = false)
    (hne : NoEmpty a) (x : Arr R) (hx : fuseCore a groups .insert = .ok x) (hnex : NoEmpty x) :
    ∃ dA dX, toDenseA a = .ok dA ∧ toDenseA x = .ok dX ∧
      ∀ p, inBox a.shape p = true → ∀ s offs, locateAll a.indices p = some (s, offs) →
        s ∈ a.sectors →
        ∃ P ns i, inBox x.shape P = true ∧ locateAll x.indices P = some (ns, i)
          ∧ FuseRel a x groups s offs ns i ∧ dX.get P = dA.get p := by
  obtain ⟨dA, dX, h1, h2, _, _, fwd, _⟩ := fuse_toDense a groups hv hg hnf hne x hx hnex
  refine ⟨dA, dX, h1, h2, fun p hp s offs hl hs => ?_⟩
  obtain ⟨P, ns, i, hP, hlP, _, r1, r2, r3, r4, hval⟩ := fwd p hp s offs hl hs
  exact ⟨P, ns, i, hP, hlP, ⟨r1, r2, r3, r4⟩, hval⟩

/-- **injective**: two positions of the original whose addresses are tied (`FuseRel`) to the same
    address of the fused array are the same position -/
theorem fuse_position_injective (a x : Arr R) (groups : List (List Nat))
    (hv : a.validB = true) (hg : C05.groupsOkB groups a.ndim = true)
    (p1 p2 : List Nat) (hp1 : inBox a.shape p1 = true) (hp2 : inBox a.shape p2 = true)
    (s1 s2 : Sector) (offs1 offs2 : List Nat)
    (hl1 : locateAll a.indices p1 = some (s1, offs1)) (hl2 : locateAll a.indices p2 = some (s2, offs2))
    (ns : Sector) (i : List Nat) (h1 : FuseRel a x groups s1 offs1 ns i)
    (h2 : FuseRel a x groups s2 offs2 ns i) : p1 = p2 := by
  have hok := groupsOk_iff.1 hg
  have hpl1 : p1.length = a.indices.length := by simpa [Arr.shape] using inBox_length hp1
  have hpl2 : p2.length = a.indices.length := by simpa [Arr.shape] using inBox_length hp2
  obtain ⟨a1, b1⟩ := locateAll_length hl1 hpl1
  obtain ⟨a2, b2⟩ := locateAll_length hl2 hpl2
  obtain ⟨e1, e2⟩ := fuseRel_injective a x groups hok a1 a2 b1 b2 h1 h2
  subst e1; subst e2
  exact locateAll_inj (validB_facts a hv).1.1 hpl1 hpl2 hl1 hl2

/-- **single-valued**: a position of the original has at most one image -/
theorem fuse_position_functional [Zero R] (a x : Arr R) (groups : List (List Nat))
    (hv : a.validB = true) (hg : C05.groupsOkB groups a.ndim = true) (hnf : a.fermi = false)
    (hx : fuseCore a groups .insert = .ok x)
    (s : Sector) (offs : List Nat)
    (P1 P2 : List Nat) (hP1 : inBox x.shape P1 = true) (hP2 : inBox x.shape P2 = true)
    (ns1 ns2 : Sector) (i1 i2 : List Nat)
    (hl1 : locateAll x.indices P1 = some (ns1, i1)) (hl2 : locateAll x.indices P2 = some (ns2, i2))
    (h1 : FuseRel a x groups s offs ns1 i1) (h2 : FuseRel a x groups s offs ns2 i2) : P1 = P2 := by
  have hva := validArr_of_validB hv
  have hok := groupsOk_iff.1 hg
  have hx' := fuseCore_multi_eq hva hok
  rw [hx] at hx'
  injection hx' with hx'
  subst hx'
  have hadm : ValidP.fuseAdmissibleB groups a.ndim = true := by
    have hg' : FuseP.groupsOkB groups a.ndim = true := hg
    simp only [FuseP.groupsOkB, Bool.and_eq_true] at hg'
    simp only [ValidP.fuseAdmissibleB, Bool.and_eq_true]
    exact ⟨hg'.2, hg'.1.2⟩
  have hxv : (fusedArrM a groups).validB = true :=
    ValidP.fuseCore_insert_validB a _ groups hv hnf hadm hx
  have hxl : (fusedArrM a groups).indices.length = ndimM a groups := newIdxM_length hok
  have hpl1 : P1.length = (fusedArrM a groups).indices.length := by
    simpa [Arr.shape] using inBox_length hP1
  have hpl2 : P2.length = (fusedArrM a groups).indices.length := by
    simpa [Arr.shape] using inBox_length hP2
  obtain ⟨a1, b1⟩ := locateAll_length hl1 hpl1
  obtain ⟨a2, b2⟩ := locateAll_length hl2 hpl2
  obtain ⟨e1, e2⟩ := fuseRel_functional a (fusedArrM a groups) groups a.sym
    (fun g gaxes hgg hlen => ixM_wf hva hok hgg hlen)
    (n := ndimM a groups)
    (by show ndimM a groups = (giM a groups).position + groups.length
          + (ndimM a groups - ((giM a groups).position + groups.length))
        simp only [ndimM]; omega)
    (by rw [a1, hxl]) (by rw [a2, hxl]) (by rw [b1, hxl]) (by rw [b2, hxl]) h1 h2
  subst e1; subst e2
  exact locateAll_inj (validB_facts _ hxv).1.1 hpl1 hpl2 hl1 hl2

/-! ## reshape at position level: plans with several fuse calls

`PosRel a x groups p P` (Proofs/Dense5f.lean) is the position relation of ONE fuse call — the
relation of the backward half of `fuse_toDense`, which the forward half (`FuseRel`) implies;
`PlanRel calls a p P` composes it along the calls (with the intermediate arrays and positions
existentially quantified); `CallsOk calls a`: every call is admissible for the array it is applied
to and produces an array without empty charge table (`callsOkB`: the same, decided by running the
calls).  The row-major reshape is in the tables: on every fused axis `splitAddr` inverts
"start of the sub-sector + row-major `ravel` of the sub-offsets" (C05 `extentStart?_spec`). -/

/-- **dense form along the fuse calls of a plan**: every position of a stored sector of `a` has an
    image in the dense box of the result, related to it by the composed relation, with the same
    entry; every position of the result holds `0` or is such an image -/
theorem calls_toDense [Zero R] [Neg R] (calls : List (List (List Nat))) (a : Arr R)
    (hv : a.validB = true) (hf : a.fermi = false) (hne : NoEmpty a) (hok : CallsOk calls a)
    (y : Arr R) (hy : runCalls calls a = .ok y) :
    ∃ dA dY, toDenseA a = .ok dA ∧ toDenseA y = .ok dY ∧ dA.shape = a.shape ∧ dY.shape = y.shape
      ∧ (∀ p, inBox a.shape p = true → ∀ s offs, locateAll a.indices p = some (s, offs) →
          s ∈ a.sectors →
          ∃ P ns i, inBox y.shape P = true ∧ locateAll y.indices P = some (ns, i) ∧ ns ∈ y.sectors
            ∧ PlanRel calls a p P ∧ dY.get P = dA.get p)
      ∧ (∀ P, inBox y.shape P = true → dY.get P = 0 ∨
          ∃ p s offs, inBox a.shape p = true ∧ locateAll a.indices p = some (s, offs)
            ∧ s ∈ a.sectors ∧ PlanRel calls a p P ∧ dY.get P = dA.get p) :=
  calls_dense_main calls a hv hf hne hok y hy

/-- **reshape_toDense, several calls**: when the planner returns `([], calls, [])` (no unfuse, no
    expand: the target merges runs of adjacent axes), `reshape` runs the calls and its dense form
    is described by `calls_toDense` -/
theorem reshape_toDense_calls [Zero R] [Neg R] (a : Arr R) (ns full : List Int) (nsN : List Nat)
    (calls : List (List (List Nat))) (hv : a.validB = true) (hf : a.fermi = false)
    (h1 : findFullReshape ns a.size = .ok full)
    (h2 : full.mapM (fun (d : Int) => if d < 0 then (throw Err.notimpl : Except Err Nat) else pure d.toNat)
      = .ok nsN)
    (h3 : calcReshapeArgs a.shape nsN a.subsizes = .ok ([], calls, []))
    (hok : CallsOk calls a) (hne : NoEmpty a) (y : Arr R) (hy : reshapeArr a ns = .ok y) :
    runCalls calls a = .ok y
    ∧ ∃ dA dY, toDenseA a = .ok dA ∧ toDenseA y = .ok dY ∧ dA.shape = a.shape ∧ dY.shape = y.shape
      ∧ (∀ p, inBox a.shape p = true → ∀ s offs, locateAll a.indices p = some (s, offs) →
          s ∈ a.sectors →
          ∃ P ns' i, inBox y.shape P = true ∧ locateAll y.indices P = some (ns', i) ∧ ns' ∈ y.sectors
            ∧ PlanRel calls a p P ∧ dY.get P = dA.get p)
      ∧ (∀ P, inBox y.shape P = true → dY.get P = 0 ∨
          ∃ p s offs, inBox a.shape p = true ∧ locateAll a.indices p = some (s, offs)
            ∧ s ∈ a.sectors ∧ PlanRel calls a p P ∧ dY.get P = dA.get p) := by
  have hrun : runCalls calls a = .ok y := by
    rw [← applyPlan_calls calls a hv hf hok, ← reshapeArr_eq a ns full nsN _ h1 h2 h3]; exact hy
  exact ⟨hrun, calls_toDense calls a hv hf hne hok y hrun⟩

/-- the same with the plan computed from the shapes alone (C07e `planner_forward_plan_runs`):
    `a.shape = runs.flatten`, unfused indices, target `runs.map prod` -/
theorem reshape_toDense_runs [Zero R] [Neg R] (a y : Arr R) (runs : List (List Nat))
    (hv : a.validB = true) (hf : a.fermi = false) (hnf : ∀ ix ∈ a.indices, ix.sub = none)
    (hshape : a.shape = runs.flatten) (hrk : ∀ r ∈ runs, Reshape5.RunOk r)
    (hok : CallsOk (Reshape5.callsR runs 0 []) a) (hne : NoEmpty a)
    (hy : reshapeArr a ((runs.map prod).map Int.ofNat) = .ok y) :
    runCalls (Reshape5.callsR runs 0 []) a = .ok y
    ∧ ∃ dA dY, toDenseA a = .ok dA ∧ toDenseA y = .ok dY ∧ dA.shape = a.shape ∧ dY.shape = y.shape
      ∧ (∀ p, inBox a.shape p = true → ∀ s offs, locateAll a.indices p = some (s, offs) →
          s ∈ a.sectors →
          ∃ P ns' i, inBox y.shape P = true ∧ locateAll y.indices P = some (ns', i) ∧ ns' ∈ y.sectors
            ∧ PlanRel (Reshape5.callsR runs 0 []) a p P ∧ dY.get P = dA.get p)
      ∧ (∀ P, inBox y.shape P = true → dY.get P = 0 ∨
          ∃ p s offs, inBox a.shape p = true ∧ locateAll a.indices p = some (s, offs)
            ∧ s ∈ a.sectors ∧ PlanRel (Reshape5.callsR runs 0 []) a p P ∧ dY.get P = dA.get p) :=
  reshape_toDense_calls a _ _ (runs.map prod) _ hv hf (findFullReshape_nat _ _) (mapM_toNat _)
    (by rw [subsizes_nones a hnf, hshape]; exact Reshape5.planner_runs runs hrk) hok hne y hy

/-! ## examples -/

section Examples5
open C08.Ex C08.Ex4

-- position (2,1) of the matrix `x` and position 3 of the fused vector are related
example : FuseRel x xf [[0, 1]] [(1, 0), (1, 0)] [1, 0] [(0, 0)] [3] := by
  refine ⟨?_, ?_, ?_, ?_⟩
  · intro g gaxes hg hlen
    match g, hg with
    | 0, hg =>
      simp only [List.getElem?_cons_zero, Option.some.injEq] at hg
      subst hg
      decide +kernel
  · intro g gaxes hg hlen
    match g, hg with
    | 0, hg =>
      simp only [List.getElem?_cons_zero, Option.some.injEq] at hg
      subst hg
      simp at hlen
  · decide +kernel
  · decide +kernel
example := fuse_forward_rel (R := Int) x [[0, 1]] (by decide) (by decide) rfl (by decide) xf rfl
  (by decide +kernel)
example := fuse_position_injective (R := Int) x xf [[0, 1]] (by decide) (by decide)
example := fuse_position_functional (R := Int) x xf [[0, 1]] (by decide) (by decide) rfl rfl

-- a plan with TWO fuse calls: shape (2,2,2,2,2) → (4,2,4)
namespace Ex5
def i2 (d : Bool) : Index := .mk [((0, 0), 1), ((1, 0), 1)] d none
/-- a rank-5 Z2 array with 16 blocks, two of them removed -/
def w5 : Arr Int :=
  match fromFillFn .Z2 false [i2 false, i2 true, i2 false, i2 true, i2 false] none
      (fun s shp => Blk.ofFn shp (fun _ => (1 : Int) + (s.map (·.1)).foldl (fun acc c => 2 * acc + c) 0)) with
  | .ok b => { b with blocks := b.blocks.drop 2 }
  | .error _ => default
end Ex5
open Ex5

example : w5.validB = true ∧ NoEmpty w5 ∧ w5.blocks.length = 14 := by decide +kernel
example : calcReshapeArgs w5.shape [4, 2, 4] w5.subsizes = .ok ([], [[[0, 1]], [[2, 3]]], [])
    ∧ Reshape5.callsR [[2, 2], [2], [2, 2]] 0 [] = [[[0, 1]], [[2, 3]]] := by decide +kernel
example : callsOkB [[[0, 1]], [[2, 3]]] w5 = true := by decide +kernel
example (y : Arr Int) (hy : reshapeArr w5 [4, 2, 4] = .ok y) :=
  reshape_toDense_runs (R := Int) w5 y [[2, 2], [2], [2, 2]] (by decide +kernel) rfl (by decide +kernel)
    (by decide +kernel) (by decide) (callsOk_of_B _ _ (by decide +kernel)) (by decide +kernel) hy
example : ∃ y, reshapeArr w5 [4, 2, 4] = .ok y ∧ y.shape = [4, 2, 4] := by
  refine ⟨_, rfl, ?_⟩; decide +kernel

end Examples5

end SymmModel.C08
