/-
  Property C04 (route independence, clauses S4–S6) — "A fermionic network's value does not depend
  on how it is contracted", for the MODEL's `Arr.tensordotF` (Model/Fermi.lean) in
  `mode = blockwise`, on valid fermionic operands of any rank, symmetry, sparsity, charge parity,
  pending signs, over any scalar type with the laws `GradedP.SignRing` and commutative addition
  (S5 also: commutative multiplication).  Built on `C03.tensordotF_refines_graded`
  (through `RoutesP.coreT_frame`), `C04.koszul_cocycle`, `C04.block_move_sign`,
  `OddposP.mergeOddpos_spec`.

  Vocabulary (Proofs/Routes.lean, Routes2.lean, Routes3.lean; namespace `SymmModel.RoutesP`):
    `Adm a b xa xb`        the hypotheses of a call: both operands `validB` and fermionic, same
                           symmetry, `contractibleB`, distinct in-range axes (`Adm.of` from
                           `ValidP.tdotAdmissibleB`)
    `PreT n p xa xa' q`    the geometry of a pre-transposition by `p`: `xa'` = positions of the
                           contracted axes `xa` in the transposed array (`permuted p xa' = xa`),
                           `q` = induced permutation of the free axes
                           (`permuted (freeAxes n xa) q = permuted p (freeAxes n xa')`);
                           `PreT.canonical` constructs `xa'`, `q` from `p`, `xa` (`positions`)
    `sgnI σ x`             `σ · x` for a sign kept as an integer.
  Addresses are `(sector, offsets)` in the value view `Arr.elem` (stored number × pending sign).

  Complete (no `_partial`):
    S4 `tdotF_axes_perm`     — EQUALITY of the two results (same `Except` value);
    S6 `tdotF_pretranspose`  — same labels/charge/frame; value at the address with the left free
                               part re-listed along `q` = Koszul sign of `q` × original value
                               (= value of `transposeF c (q ++ id)`), with existence of the result;
    S5 `tdotF_swap`          — same labels/charge/frame; value at the address with the two free
                               parts exchanged = Koszul sign of the rotation × original value
                               (= value of `transposeF c rot`), for pairwise-distinct labels.
  S5/S6 are stated address by address and not as `ObsEq (…) (transposeF c _)`: `ObsEq` compares
  block dictionaries as LISTS, and the swapped call visits the blocks in another order
  (`swap_block_order_differs` below), so `ObsEq` is false for S5 as it stands.
  NOT proved: S7 (associativity of three operands).  Proved towards it: `assoc_sign_identity`
  (the sign part for the middle operand) and `C04.oddpos_assoc` (labels).  Obstacle recorded in
  the report: the intermediate result's index tables are pruned (`dropUnused`), so `(A·B)·C` is
  not `contractibleB` in general; the refinement theorem has to be generalised to tables that
  agree on the charges present before S7 can be stated for the model.
-/
import SymmModel.Proofs.Routes4
import SymmModel.Props.C03b

namespace SymmModel.C04
open SymmModel SymmModel.GradedP SymmModel.TdotP SymmModel.RoutesP
open SymmModel.Lazy (sgnI)

variable {R : Type}

/-- the hypotheses of a contraction call, from the decidable admissibility predicate -/
theorem adm_of_admissible {a b : Arr R} {xa xb : List Nat} (ha : a.validB = true)
    (hb : b.validB = true) (hfa : a.fermi = true) (hfb : b.fermi = true)
    (hadm : ValidP.tdotAdmissibleB a b xa xb = true) : Adm a b xa xb :=
  Adm.of ha hb hfa hfb hadm

/-- success of a call does not depend on the route: blockwise `tensordot_fermionic` is the label
    sort followed by attaching labels and label sign to the core contraction -/
theorem tensordotF_structure [AddMonoid R] [Mul R] [Neg R] [SignRing R] (a b : Arr R)
    (xa xb : List Nat) (h : Adm a b xa xb) :
    a.tensordotF b (.pair (xa.map Int.ofNat) (xb.map Int.ofNat)) .blockwise
      = (OddposP.mergeOddpos a.parity a.oddpos b.oddpos).map (finish (coreT a b xa xb)) :=
  tensordotF_eq_core a b xa xb h

/-! ## S4 -/

/-- **S4 tdotF_axes_perm.**  Listing the contracted axis pairs in another order (`π` a permutation
    of the positions of the pair list) returns the IDENTICAL result: the same blocks in the same
    order, index tables, charge, labels and pending signs (matched axes carry equal parities, so
    the two operand transposes change sign by the same factor; the reversal sign and the ket-bra
    sign are invariant; the contracted box is re-enumerated). -/
theorem tdotF_axes_perm [AddCommMonoid R] [Mul R] [Neg R] [SignRing R] (a b : Arr R)
    (xa xb π : List Nat) (h : Adm a b xa xb) (hπ : π.Perm (List.range xa.length)) :
    a.tensordotF b (.pair ((permuted xa π).map Int.ofNat) ((permuted xb π).map Int.ofNat)) .blockwise
      = a.tensordotF b (.pair (xa.map Int.ofNat) (xb.map Int.ofNat)) .blockwise :=
  tdotF_axes_perm_eq a b xa xb π h hπ

/-- S4 at the level of the specification -/
theorem gradedContract_axes_perm [AddCommMonoid R] [Mul R] [Neg R] [SignRing R] (a b : Arr R)
    (xa xb π : List Nat) (h : Adm a b xa xb) (hπ : π.Perm (List.range xa.length)) (s : Sector)
    (oL oR : List Nat) :
    gradedContract a b (permuted xa π) (permuted xb π) s oL oR = gradedContract a b xa xb s oL oR :=
  gradedContract_relist a b xa xb π h.sym (Arr.shapesOk_of_validB h.va) (Arr.shapesOk_of_validB h.vb)
    h.nA h.ltA h.nB h.ltB h.len hπ s oL oR

/-! ## S6 -/

/-- the canonical renumbering for a pre-transposition by `p` -/
theorem preT_canonical (n : Nat) (p xa : List Nat) (hp : p.Perm (List.range n)) (hn : xa.Nodup)
    (hlt : ∀ i ∈ xa, i < n) :
    PreT n p xa (positions p xa)
      (positions (freeAxes n xa) (permuted p (freeAxes n (positions p xa)))) :=
  PreT.canonical hp hn hlt

/-- **S6 tdotF_pretranspose.**  Transposing the left operand by `p` first and renumbering the
    contracted axes (`xa'`: `permuted p xa' = xa`) succeeds iff the original call does, and gives
    a result with the same labels, charge, symmetry and kind whose value at the address with the
    left free part re-listed along the induced permutation `q` is the original value times the
    Koszul sign of `q` on the parities of the left free charges — the value of
    `transposeF c (q ++ id)` at that address (from the cocycle law). -/
theorem tdotF_pretranspose [AddMonoid R] [Mul R] [Neg R] [SignRing R] (a b c : Arr R)
    (p xa xa' q xb : List Nat) (h : Adm a b xa xb) (hp : Arr.isPerm p a.ndim = true)
    (hT : PreT a.ndim p xa xa' q)
    (hc : a.tensordotF b (.pair (xa.map Int.ofNat) (xb.map Int.ofNat)) .blockwise = .ok c) :
    ∃ c', (a.transposeF p).tensordotF b (.pair (xa'.map Int.ofNat) (xb.map Int.ofNat)) .blockwise = .ok c'
      ∧ c'.oddpos = c.oddpos ∧ c'.charge = c.charge ∧ c'.sym = c.sym ∧ c'.fermi = c.fermi
      ∧ ∀ (L Rr : Sector) (oL oR : List Nat), L.length = (freeAxes a.ndim xa).length →
          oL.length = (freeAxes a.ndim xa).length →
          inBox (Arr.blockShapeD (without a.indices xa ++ without b.indices xb) (L ++ Rr))
            (oL ++ oR) = true →
          c'.elem (permuted L q ++ Rr) (permuted oL q ++ oR)
            = sgnI (koszul (L.map a.sym.parity) (some q)) (c.elem (L ++ Rr) (oL ++ oR)) :=
  RoutesP.tdotF_pretranspose a b c p xa xa' q xb h hp hT hc

/-- the sign in S6 is the Koszul sign of the result transposition `q ++ id` -/
theorem pretranspose_sign_is_transpose_sign (sym : Sym) (L Rr : Sector) (q : List Nat)
    (hq : q.Perm (List.range L.length)) :
    koszul ((L ++ Rr).map sym.parity) (some (q ++ (List.range Rr.length).map (L.length + ·)))
      = koszul (L.map sym.parity) (some q) := by
  have := koszul_id_block_right (L.map sym.parity) (Rr.map sym.parity) q (by rw [List.length_map]; exact hq)
  rw [List.length_map, List.length_map, ← List.map_append] at this
  exact this

/-! ## S5 -/

/-- **S5 tdotF_swap.**  Passing the operands in the other order (pairwise-distinct labels,
    commutative scalars) succeeds iff the original call does, and gives a result with the same
    merged labels, charge, symmetry and kind whose value at the address with the two free parts
    exchanged is the original value times the Koszul sign of the rotation
    `rot = [|L|, …, |L|+|Rr|-1, 0, …, |L|-1]` on the result sector's parities, i.e. `(-1)^(#odd L ·
    #odd Rr)` — the value of `transposeF c rot` at that address.  (Uses `block_move_sign` for
    both operand transposes, the parity of a stored sector = parity of the charge, and the label
    bookkeeping `|labels| ≡ parity`.) -/
theorem tdotF_swap [AddCommMonoid R] [Mul R] [Neg R] [SignRing R] (a b c : Arr R) (xa xb : List Nat)
    (hmul : ∀ x y : R, x * y = y * x) (h : Adm a b xa xb)
    (hd : (a.oddpos ++ b.oddpos).Pairwise (fun x y => x.1 ≠ y.1))
    (hc : a.tensordotF b (.pair (xa.map Int.ofNat) (xb.map Int.ofNat)) .blockwise = .ok c) :
    ∃ c', b.tensordotF a (.pair (xb.map Int.ofNat) (xa.map Int.ofNat)) .blockwise = .ok c'
      ∧ c'.oddpos = c.oddpos ∧ c'.charge = c.charge ∧ c'.sym = c.sym ∧ c'.fermi = c.fermi
      ∧ ∀ (L Rr : Sector) (oL oR : List Nat), L.length = (freeAxes a.ndim xa).length →
          Rr.length = (freeAxes b.ndim xb).length → oL.length = (freeAxes a.ndim xa).length →
          oR.length = (freeAxes b.ndim xb).length →
          inBox (Arr.blockShapeD (without a.indices xa ++ without b.indices xb) (L ++ Rr))
            (oL ++ oR) = true →
          c'.elem (Rr ++ L) (oR ++ oL)
            = sgnI (koszul ((L ++ Rr).map a.sym.parity)
                (some ((List.range Rr.length).map (L.length + ·) ++ List.range L.length)))
                (c.elem (L ++ Rr) (oL ++ oR)) :=
  RoutesP.tdotF_swap a b c xa xb hmul h hd hc

/-- the rotation sign is `(-1)^(#odd L · #odd Rr)` -/
theorem swap_sign_value (sym : Sym) (L Rr : Sector) :
    koszul ((L ++ Rr).map sym.parity)
        (some ((List.range Rr.length).map (L.length + ·) ++ List.range L.length))
      = (-1 : Int) ^ ((L.filter sym.parity).length * (Rr.filter sym.parity).length) := by
  have := koszul_rot (L.map sym.parity) (Rr.map sym.parity)
  rw [List.length_map, List.length_map, oddIn_eq_filter, oddIn_eq_filter, ← List.map_append,
    KoszulP.sgn_eq_pow] at this
  exact this

/-- S5 at the level of the specification and of the labels -/
theorem gradedContract_swap [AddCommMonoid R] [Mul R] [Neg R] [SignRing R] (a b : Arr R)
    (xa xb : List Nat) (hmul : ∀ x y : R, x * y = y * x) (h : Adm a b xa xb) (L Rr : Sector)
    (hL : L.length = (freeAxes a.ndim xa).length) (oL oR : List Nat) :
    gradedContract b a xb xa (Rr ++ L) oR oL
      = sgnI ((-1 : Int) ^ (a.parity.toNat * b.parity.toNat
            + (L.filter a.sym.parity).length * (Rr.filter a.sym.parity).length))
          (gradedContract a b xa xb (L ++ Rr) oL oR) := by
  rw [← KoszulP.sgn_eq_pow]
  exact RoutesP.gradedContract_swap a b xa xb hmul h L Rr hL oL oR

theorem mergeOddpos_swap (pa pb : Bool) (la lb : List (Int × Bool))
    (hd : (la ++ lb).Pairwise (fun x y => x.1 ≠ y.1)) :
    ∃ out sab sba, OddposP.mergeOddpos pa la lb = .ok (out, sab)
      ∧ OddposP.mergeOddpos pb lb la = .ok (out, sba)
      ∧ sba = sab * (-1 : Int) ^ (pa.toNat * lb.length + pb.toNat * la.length + la.length * lb.length) := by
  obtain ⟨out, sab, sba, h1, h2, h3⟩ := RoutesP.mergeOddpos_swap pa pb la lb hd
  exact ⟨out, sab, sba, h1, h2, by rw [h3, KoszulP.sgn_eq_pow]⟩

/-! ## towards S7 -/

/-- **assoc_sign_identity** — the sign part of S7 for the middle operand `B` of a chain `A–B–C`:
    `par` the parities of a sector of `B` (`m` legs), `xb1` its legs bonded to `A`, `xb2` those
    bonded to `C`.  Route `(A·B)·C` first brings `B` to `(xb1, rest)` order, then re-lists the rest
    inside the intermediate result so that `xb2` comes last (`ρ₁`); route `A·(B·C)` first brings
    `B` to `(rest, xb2)` order, then re-lists the rest so that `xb1` comes first (`ρ₂`).  The two
    products of Koszul signs agree: both are the sign of bringing `B` to `(xb1, M, xb2)` order.
    (The signs of `A` and `C`, the reversal signs and the ket-bra signs are literally the same
    factors on the two routes; the labels agree by `oddpos_assoc`.) -/
theorem assoc_sign_identity (par : List Bool) (m : Nat) (hpar : par.length = m) (xb1 xb2 : List Nat)
    (hn : (xb1 ++ xb2).Nodup) (hlt : ∀ i ∈ xb1 ++ xb2, i < m) :
    koszul par (some (xb1 ++ freeAxes m xb1))
        * koszul (permuted par (freeAxes m xb1))
            (some (positions (freeAxes m xb1) (freeAxes m (xb1 ++ xb2) ++ xb2)))
      = koszul par (some (freeAxes m xb2 ++ xb2))
        * koszul (permuted par (freeAxes m xb2))
            (some (positions (freeAxes m xb2) (xb1 ++ freeAxes m (xb1 ++ xb2)))) := by
  obtain ⟨h1, h2⟩ := RoutesP.assoc_sign_identity par m hpar xb1 xb2 hn hlt
  rw [h1, h2]

example : ([3, 0] ++ [1] : List Nat).Nodup ∧ (∀ i ∈ ([3, 0] ++ [1] : List Nat), i < 5) := by decide
example : koszul [true, true, false, true, true] (some ([3, 0] ++ freeAxes 5 [3, 0])) = 1
    ∧ koszul (permuted [true, true, false, true, true] (freeAxes 5 [3, 0]))
        (some (positions (freeAxes 5 [3, 0]) (freeAxes 5 ([3, 0] ++ [1]) ++ [1]))) = -1
    ∧ koszul [true, true, false, true, true] (some (freeAxes 5 [1] ++ [1])) = 1
    ∧ koszul (permuted [true, true, false, true, true] (freeAxes 5 [1]))
        (some (positions (freeAxes 5 [1]) ([3, 0] ++ freeAxes 5 ([3, 0] ++ [1])))) = -1 := by decide

/-! ## non-vacuity: the odd Z2 operands `C03.gA`, `C03.gB` (pending signs, labels 1 and 3) -/

open SymmModel.C03 in
example : Adm gA gB [1, 2] [1, 0] ∧ Adm gA gB [1] [1] :=
  ⟨Adm.of (by decide +kernel) (by decide +kernel) rfl rfl (by decide +kernel),
   Adm.of (by decide +kernel) (by decide +kernel) rfl rfl (by decide +kernel)⟩

example : [1, 0].Perm (List.range [1, 2].length) := by decide

/-- the blocks of a result, in order -/
def blocksOf (r : Except Err (Arr Int)) : List (Sector × List Nat × List Int) :=
  match r with
  | .ok c => c.blocks.map (fun p => (p.1, p.2.shape, p.2.data.toList))
  | .error _ => []

def phasesOf (r : Except Err (Arr Int)) : List (Sector × Int) :=
  match r with
  | .ok c => c.phases
  | .error _ => []

def labelsOf (r : Except Err (Arr Int)) : List (Int × Bool) :=
  match r with
  | .ok c => c.oddpos
  | .error _ => []

def elemOf (r : Except Err (Arr Int)) (s : Sector) (o : List Nat) : Option Int :=
  match r with
  | .ok c => some (c.elem s o)
  | .error _ => none

def sectorsOf (r : Except Err (Arr Int)) : Option (List Sector) :=
  match r with
  | .ok c => some c.sectors
  | .error _ => none

open SymmModel.C03 in
/-- S4: the two listings `(k,l)·(k',l')` and `(l,k)·(l',k')` -/
example : permuted [1, 2] [1, 0] = [2, 1] ∧ permuted [1, 0] [1, 0] = [0, 1]
    ∧ blocksOf (gA.tensordotF gB (.pair [2, 1] [0, 1]) .blockwise)
      = blocksOf (gA.tensordotF gB (.pair [1, 2] [1, 0]) .blockwise)
    ∧ phasesOf (gA.tensordotF gB (.pair [2, 1] [0, 1]) .blockwise)
      = phasesOf (gA.tensordotF gB (.pair [1, 2] [1, 0]) .blockwise)
    ∧ labelsOf (gA.tensordotF gB (.pair [2, 1] [0, 1]) .blockwise) = [(1, false), (3, false)]
    ∧ (blocksOf (gA.tensordotF gB (.pair [1, 2] [1, 0]) .blockwise)).length = 2 := by decide +kernel

open SymmModel.C03 in
/-- S5: sector `(1,1)` picks up `(-1)^(1·1)`, sector `(0,0)` is transposed without sign; the
    blocks come in the other order, so the two results are not `ObsEq` up to `transposeF` -/
theorem swap_block_order_differs :
    sectorsOf (gB.tensordotF gA (.pair [1, 0] [1, 2]) .blockwise) = some [[(0,0),(0,0)], [(1,0),(1,0)]]
    ∧ sectorsOf (gA.tensordotF gB (.pair [1, 2] [1, 0]) .blockwise) = some [[(1,0),(1,0)], [(0,0),(0,0)]]
    ∧ elemOf (gA.tensordotF gB (.pair [1, 2] [1, 0]) .blockwise) [(1,0),(1,0)] [0,0] = some (-113)
    ∧ elemOf (gB.tensordotF gA (.pair [1, 0] [1, 2]) .blockwise) [(1,0),(1,0)] [0,0] = some 113
    ∧ elemOf (gA.tensordotF gB (.pair [1, 2] [1, 0]) .blockwise) [(0,0),(0,0)] [1,0] = some (-7)
    ∧ elemOf (gB.tensordotF gA (.pair [1, 0] [1, 2]) .blockwise) [(0,0),(0,0)] [0,1] = some (-7) := by
  decide +kernel

open SymmModel.C03 in
example : (gA.oddpos ++ gB.oddpos).Pairwise (fun x y => x.1 ≠ y.1) ∧ (∀ x y : Int, x * y = y * x) :=
  ⟨by decide, Int.mul_comm⟩

open SymmModel.C03 in
/-- S6 with a non-trivial induced permutation: `a` transposed by `[2,1,0]`, one contracted leg;
    `xa' = [1]`, `q = [1,0]`; the all-odd sector picks up `-1` -/
example : Arr.isPerm [2, 1, 0] gA.ndim = true
    ∧ positions [2, 1, 0] [1] = [1]
    ∧ positions (freeAxes 3 [1]) (permuted [2, 1, 0] (freeAxes 3 (positions [2, 1, 0] [1]))) = [1, 0]
    ∧ elemOf (gA.tensordotF gB (.pair [1] [1]) .blockwise) [(1,0),(1,0),(1,0),(1,0)] [0,1,1,0] = some 67
    ∧ elemOf ((gA.transposeF [2, 1, 0]).tensordotF gB (.pair [1] [1]) .blockwise)
        [(1,0),(1,0),(1,0),(1,0)] [1,0,1,0] = some (-67)
    ∧ elemOf (gA.tensordotF gB (.pair [1] [1]) .blockwise) [(1,0),(0,0),(1,0),(0,0)] [0,0,1,1] = some (-8)
    ∧ elemOf ((gA.transposeF [2, 1, 0]).tensordotF gB (.pair [1] [1]) .blockwise)
        [(0,0),(1,0),(1,0),(0,0)] [0,0,1,1] = some (-8) := by decide +kernel

end SymmModel.C04
