/-
  Property C12 (second part) — the spectrum of the dense form is the union of the block spectra.
  This replaces the "cited, not proved" item of Props/C12.lean.

  1. Pure linear algebra (commutative ring `R`; eigenvalue multisets over a domain).
     From Mathlib, cited: `Matrix.BlockTriangular.charpoly`, `Matrix.blockTriangular_blockDiagonal'`,
     `Matrix.charpoly_reindex`, `Matrix.charpoly_zero`, `Matrix.charpoly_monic`,
     `Polynomial.roots_prod`, `Polynomial.roots_list_prod`.  Glue proved in Proofs/Spectrum.lean:
     `charpoly_blockDiagonal'`, `charpoly_reindex`, `eigenvalues_blockDiagonal'`.
  2. Bridge from the model, Hermitian-structured matrices (valid, rank 2, charge zero, the two
     indices with opposite directions and equal charge tables): `toDense_block_entries`,
     `toDense_eq_blockDiagonal`, `eigh_charpoly`, `eigh_charpoly_fin`, `eigh_eigenvalues`,
     with `sector_missing` / `sector_stored` describing the diagonal blocks.
  3. Singular values of ANY valid matrix (any charge, rectangular blocks): the Gram matrix
     `Dᴴ D` of the dense form is block diagonal w.r.t. the column charges
     (`gram_blockDiagonal`), its characteristic polynomial is the product over the column charge
     table of those of the per-charge Gram blocks (`gram_charpoly`), which are `Sᴴ S` for the
     stored sector of that column charge and zero otherwise (`gram_block_stored`,
     `gram_block_missing`); hence the multiset statement `squared_singular_values`.

  The matrix view of the model's dense form is `Blk.toMatrix d N N` (`d.get [i, j]`), positions
  are labelled by the charge `locate` assigns them (`Spectrum.chargeAt`), sector matrices are
  `Arr.sectorMatrix a r c m n` (`a.elem [r, c] [i, j]`, pending sign included, zero matrix for a
  missing sector).  `conj` in part 3 is any map with `conj 0 = 0`.

  Still outside: that the roots of the characteristic polynomial of a Hermitian matrix (resp. of
  `Dᴴ D`) are what LAPACK's `eigh` (resp. the squares of what `svd`) returns — numeric, validated
  by the harness.
-/
import SymmModel.Proofs.SpectrumBlock
import SymmModel.Props.C12

namespace SymmModel.C12
open SymmModel Spectrum LinalgLemmas Matrix Polynomial

/-! ## 1. pure linear algebra -/

/-- **charpoly_blockDiagonal'.** -/
theorem charpoly_blockDiagonal' {R : Type} [CommRing R] {o : Type} [Fintype o] [LinearOrder o]
    {n' : o → Type} [∀ i, Fintype (n' i)] [∀ i, DecidableEq (n' i)]
    (M : ∀ i, Matrix (n' i) (n' i) R) :
    (Matrix.blockDiagonal' M).charpoly = ∏ k, (M k).charpoly :=
  Spectrum.charpoly_blockDiagonal' M

/-- **charpoly_reindex** (Mathlib `Matrix.charpoly_reindex`): invariance under simultaneous
    reindexing of rows and columns -/
theorem charpoly_reindex {R : Type} [CommRing R] {n m : Type} [Fintype n] [DecidableEq n]
    [Fintype m] [DecidableEq m] (e : n ≃ m) (M : Matrix n n R) :
    (Matrix.reindex e e M).charpoly = M.charpoly :=
  Matrix.charpoly_reindex e M

/-- eigenvalue multiset of a block-diagonal matrix over a domain = union over the blocks -/
theorem eigenvalues_blockDiagonal' {R : Type} [CommRing R] [IsDomain R] {o : Type} [Fintype o]
    [LinearOrder o] {n' : o → Type} [∀ i, Fintype (n' i)] [∀ i, DecidableEq (n' i)]
    (M : ∀ i, Matrix (n' i) (n' i) R) :
    (Matrix.blockDiagonal' M).charpoly.roots
      = (Finset.univ : Finset o).val.bind (fun k => (M k).charpoly.roots) :=
  roots_charpoly_blockDiagonal' M

/-- labelled form: a matrix vanishing between positions of different labels -/
theorem charpoly_of_blockDiag {R : Type} [CommRing R] {n α : Type} [Fintype n] [DecidableEq n]
    [LinearOrder α] (M : Matrix n n R) (b : n → α) (h : ∀ i j, b i ≠ b j → M i j = 0) :
    M.charpoly = ∏ a ∈ Finset.image b Finset.univ, (M.toSquareBlock b a).charpoly :=
  Spectrum.charpoly_of_blockDiag M b h

variable {R : Type} [CommRing R]

/-! ## 2. Hermitian-structured matrices: the `eigh` clause -/

/-- **toDense_block_entries.**  Every entry of the dense form is the element at the address its
    row and column are located at in the common charge table, and it vanishes unless row and
    column lie in the same charge. -/
theorem toDense_block_entries (a : Arr R) (hv : a.validB = true) (h2 : a.ndim = 2)
    (hch : a.charge = a.sym.zero)
    (hopp : (a.indices.getD 1 default).dual = !(a.indices.getD 0 default).dual)
    (hcm : (a.indices.getD 0 default).cm = (a.indices.getD 1 default).cm)
    (i0 i1 : Index) (hi : a.indices = [i0, i1]) (d : Blk R) (hd : a.toDenseA = .ok d)
    (p q : Nat) (hp : p < total (Index.sortCm i0.cm)) (hq : q < total (Index.sortCm i0.cm)) :
    d.get [p, q]
      = a.elem [ofLex (chargeAt (Index.sortCm i0.cm) p), ofLex (chargeAt (Index.sortCm i0.cm) q)]
          [offsetAt (Index.sortCm i0.cm) p, offsetAt (Index.sortCm i0.cm) q]
    ∧ (chargeAt (Index.sortCm i0.cm) p ≠ chargeAt (Index.sortCm i0.cm) q → d.get [p, q] = 0) :=
  ⟨herm_entry ⟨hv, h2, hch, hopp, hcm⟩ hi hd hp hq,
   fun hne => herm_blockDiag ⟨hv, h2, hch, hopp, hcm⟩ hi hd ⟨p, hp⟩ ⟨q, hq⟩ hne⟩

/-- **toDense_eq_blockDiagonal.**  Renaming positions as (piece of the charge table, offset) —
    `Spectrum.blockEquiv`, the pieces being contiguous and in the same order on both axes — the
    dense form IS `Matrix.blockDiagonal'` of the sector matrices `(c, c)`. -/
theorem toDense_eq_blockDiagonal (a : Arr R) (hv : a.validB = true) (h2 : a.ndim = 2)
    (hch : a.charge = a.sym.zero)
    (hopp : (a.indices.getD 1 default).dual = !(a.indices.getD 0 default).dual)
    (hcm : (a.indices.getD 0 default).cm = (a.indices.getD 1 default).cm)
    (i0 i1 : Index) (hi : a.indices = [i0, i1]) (d : Blk R) (hd : a.toDenseA = .ok d) :
    Matrix.reindex (blockEquiv (Index.sortCm i0.cm)) (blockEquiv (Index.sortCm i0.cm))
      (d.toMatrix (total (Index.sortCm i0.cm)) (total (Index.sortCm i0.cm)))
      = Matrix.blockDiagonal' (fun k : Fin (Index.sortCm i0.cm).length =>
          a.sectorMatrix (Index.sortCm i0.cm)[k.1].1 (Index.sortCm i0.cm)[k.1].1
            (Index.sortCm i0.cm)[k.1].2 (Index.sortCm i0.cm)[k.1].2) :=
  herm_eq_blockDiagonal ⟨hv, h2, hch, hopp, hcm⟩ hi hd

/-- **eigh_charpoly.**  `charpoly (dense a) = ∏_c charpoly (sector matrix (c, c))`, the product
    over the charge table of the (common) index. -/
theorem eigh_charpoly (a : Arr R) (hv : a.validB = true) (h2 : a.ndim = 2)
    (hch : a.charge = a.sym.zero)
    (hopp : (a.indices.getD 1 default).dual = !(a.indices.getD 0 default).dual)
    (hcm : (a.indices.getD 0 default).cm = (a.indices.getD 1 default).cm)
    (i0 i1 : Index) (hi : a.indices = [i0, i1]) (d : Blk R) (hd : a.toDenseA = .ok d) :
    (d.toMatrix (total (Index.sortCm i0.cm)) (total (Index.sortCm i0.cm))).charpoly
      = ((Index.sortCm i0.cm).map (fun cd => (a.sectorMatrix cd.1 cd.1 cd.2 cd.2).charpoly)).prod :=
  herm_charpoly ⟨hv, h2, hch, hopp, hcm⟩ hi hd

/-- the same as a product over `Fin`, via `toDense_eq_blockDiagonal`, `charpoly_reindex` and
    `charpoly_blockDiagonal'` -/
theorem eigh_charpoly_fin (a : Arr R) (hv : a.validB = true) (h2 : a.ndim = 2)
    (hch : a.charge = a.sym.zero)
    (hopp : (a.indices.getD 1 default).dual = !(a.indices.getD 0 default).dual)
    (hcm : (a.indices.getD 0 default).cm = (a.indices.getD 1 default).cm)
    (i0 i1 : Index) (hi : a.indices = [i0, i1]) (d : Blk R) (hd : a.toDenseA = .ok d) :
    (d.toMatrix (total (Index.sortCm i0.cm)) (total (Index.sortCm i0.cm))).charpoly
      = ∏ k : Fin (Index.sortCm i0.cm).length,
          (a.sectorMatrix (Index.sortCm i0.cm)[k.1].1 (Index.sortCm i0.cm)[k.1].1
            (Index.sortCm i0.cm)[k.1].2 (Index.sortCm i0.cm)[k.1].2).charpoly :=
  herm_charpoly_fin ⟨hv, h2, hch, hopp, hcm⟩ hi hd

/-- **eigh_eigenvalues.**  Over a domain: the eigenvalues of the dense form (roots of its
    characteristic polynomial, with multiplicity) are, as a multiset, the union over the charge
    table of the eigenvalues of the sector matrices. -/
theorem eigh_eigenvalues [IsDomain R] (a : Arr R) (hv : a.validB = true) (h2 : a.ndim = 2)
    (hch : a.charge = a.sym.zero)
    (hopp : (a.indices.getD 1 default).dual = !(a.indices.getD 0 default).dual)
    (hcm : (a.indices.getD 0 default).cm = (a.indices.getD 1 default).cm)
    (i0 i1 : Index) (hi : a.indices = [i0, i1]) (d : Blk R) (hd : a.toDenseA = .ok d) :
    (d.toMatrix (total (Index.sortCm i0.cm)) (total (Index.sortCm i0.cm))).charpoly.roots
      = (((Index.sortCm i0.cm).map
          (fun cd => (a.sectorMatrix cd.1 cd.1 cd.2 cd.2).charpoly) : List R[X]) : Multiset R[X]).bind
          Polynomial.roots :=
  herm_roots ⟨hv, h2, hch, hopp, hcm⟩ hi hd

/-- a charge whose sector is not stored contributes the zero block: `X ^ d`, i.e. the eigenvalue
    0 with multiplicity `d` ("on the stored sectors" in the property's text) -/
theorem sector_missing (a : Arr R) (c : Charge) (n : Nat) (h : [c, c] ∉ a.sectors) :
    a.sectorMatrix c c n n = 0 ∧ (a.sectorMatrix c c n n).charpoly = X ^ n :=
  ⟨sectorMatrix_missing a c c n n h, charpoly_sectorMatrix_missing a c n h⟩

/-- for an array without pending signs the sector matrix of a stored sector is the stored block -/
theorem sector_stored (a : Arr R) (hph : a.phases = []) (hnd : a.sectors.Nodup) (r c : Charge)
    (b : Blk R) (hm : ([r, c], b) ∈ a.blocks) (m n : Nat) :
    a.sectorMatrix r c m n = b.toMatrix m n :=
  sectorMatrix_stored a hph hnd hm m n

/-! ## 3. singular values of any valid matrix -/

/-- **gram_blockDiagonal.**  Entry `(j, j')` of `Dᴴ D` vanishes when the columns `j`, `j'` lie
    in different column charges (each row charge pairs with one column charge —
    `matrix_sector_injective`). -/
theorem gram_blockDiagonal (conj : R → R) (hc0 : conj 0 = 0) (a : Arr R) (hv : a.validB = true)
    (h2 : a.ndim = 2) (i0 i1 : Index) (hi : a.indices = [i0, i1]) (d : Blk R)
    (hd : a.toDenseA = .ok d) (j j' : Fin (total (Index.sortCm i1.cm)))
    (hne : chargeAt (Index.sortCm i1.cm) j.1 ≠ chargeAt (Index.sortCm i1.cm) j'.1) :
    gram conj (d.toMatrix (total (Index.sortCm i0.cm)) (total (Index.sortCm i1.cm))) j j' = 0 :=
  gram_blockDiag conj hc0 hv h2 hi hd j j' hne

/-- **gram_charpoly.** -/
theorem gram_charpoly (conj : R → R) (hc0 : conj 0 = 0) (a : Arr R) (hv : a.validB = true)
    (h2 : a.ndim = 2) (i0 i1 : Index) (hi : a.indices = [i0, i1]) (d : Blk R)
    (hd : a.toDenseA = .ok d) :
    (gram conj (d.toMatrix (total (Index.sortCm i0.cm)) (total (Index.sortCm i1.cm)))).charpoly
      = ((Index.sortCm i1.cm).map
          (fun cd => (a.colGram conj (Index.sortCm i0.cm) cd.1 cd.2).charpoly)).prod :=
  Spectrum.gram_charpoly conj hc0 hv h2 hi hd

/-- the Gram block of a column charge `c` whose sector `[r, c]` is stored is `Sᴴ S`, `S` the
    `m × n` sector matrix of `[r, c]` -/
theorem gram_block_stored (conj : R → R) (a : Arr R) (hv : a.validB = true) (h2 : a.ndim = 2)
    (i0 i1 : Index) (hi : a.indices = [i0, i1]) (r c : Charge) (hs : [r, c] ∈ a.sectors)
    (m : Nat) (hr : (r, m) ∈ Index.sortCm i0.cm) (n : Nat) :
    a.colGram conj (Index.sortCm i0.cm) c n
      = fun o o' => ∑ u : Fin m, conj (a.sectorMatrix r c m n u o) * a.sectorMatrix r c m n u o' :=
  colGram_stored conj hv h2 hi hs hr n

/-- … and zero (singular value 0 with the multiplicity of the charge) when no stored sector has
    that column charge -/
theorem gram_block_missing (conj : R → R) (a : Arr R) (rows : List (Charge × Nat)) (c : Charge)
    (n : Nat) (h : ∀ r, [r, c] ∉ a.sectors) :
    a.colGram conj rows c n = 0 ∧ (a.colGram conj rows c n).charpoly = X ^ n := by
  have h0 := colGram_missing conj a rows c n h
  exact ⟨h0, by rw [h0, Matrix.charpoly_zero, Fintype.card_fin]⟩

/-- **squared_singular_values.**  Over a domain: the eigenvalues of `Dᴴ D` (the squared singular
    values of the dense form), as a multiset, are the union over the column charge table of the
    eigenvalues of the per-charge Gram blocks. -/
theorem squared_singular_values [IsDomain R] (conj : R → R) (hc0 : conj 0 = 0) (a : Arr R)
    (hv : a.validB = true) (h2 : a.ndim = 2) (i0 i1 : Index) (hi : a.indices = [i0, i1])
    (d : Blk R) (hd : a.toDenseA = .ok d) :
    (gram conj (d.toMatrix (total (Index.sortCm i0.cm)) (total (Index.sortCm i1.cm)))).charpoly.roots
      = (((Index.sortCm i1.cm).map
          (fun cd => (a.colGram conj (Index.sortCm i0.cm) cd.1 cd.2).charpoly) : List R[X])
            : Multiset R[X]).bind Polynomial.roots :=
  gram_roots conj hc0 hv h2 hi hd

/-! ## examples -/

/-- Hermitian-structured U1 matrix: charge 0, row index outgoing, column index incoming, equal
    tables `{0 ↦ 2, 1 ↦ 1}`; the sector `(0, 0)` is stored, the sector `(1, 1)` is missing -/
def exH : Arr Int :=
  { sym := .U1, fermi := false, charge := (0, 0),
    indices := [Index.mk [((0, 0), 2), ((1, 0), 1)] false none,
                Index.mk [((0, 0), 2), ((1, 0), 1)] true none],
    blocks := [([(0, 0), (0, 0)], ⟨[2, 2], #[2, 1, 1, 2]⟩)] }

/-- the hypotheses of part 2 hold for `exH`, its dense form exists, is `3 × 3` and block
    diagonal with the stored block and a zero block -/
example : exH.validB = true ∧ exH.ndim = 2 ∧ exH.charge = exH.sym.zero
    ∧ (exH.indices.getD 1 default).dual = !(exH.indices.getD 0 default).dual
    ∧ (exH.indices.getD 0 default).cm = (exH.indices.getD 1 default).cm
    ∧ exH.indices = [Index.mk [((0, 0), 2), ((1, 0), 1)] false none,
                     Index.mk [((0, 0), 2), ((1, 0), 1)] true none]
    ∧ total (Index.sortCm [((0, 0), 2), ((1, 0), 1)]) = 3
    ∧ [(1, 0), (1, 0)] ∉ exH.sectors
    ∧ (exH.toDenseA.toOption.map (fun d => (d.shape, d.data.toList))
        == some ([3, 3], [2, 1, 0, 1, 2, 0, 0, 0, 0])) = true := by
  refine ⟨by decide, rfl, by decide, by decide, by decide, rfl, by decide, by decide,
    by decide +kernel⟩

/-- `Int` is a domain, so `eigh_eigenvalues` and `squared_singular_values` apply to it -/
example : IsDomain Int := inferInstance

/-- a charged rectangular matrix (charge 1, blocks `2 × 1` and `1 × 3`): dense form `3 × 4`
    `[[1,0,0,0],[2,0,0,0],[0,3,4,5]]` -/
def exR : Arr Int :=
  { sym := .U1, fermi := false, charge := (1, 0),
    indices := [Index.mk [((0, 0), 2), ((1, 0), 1)] false none,
                Index.mk [((-1, 0), 1), ((0, 0), 3)] true none],
    blocks := [([(0, 0), (-1, 0)], ⟨[2, 1], #[1, 2]⟩), ([(1, 0), (0, 0)], ⟨[1, 3], #[3, 4, 5]⟩)] }

example : exR.validB = true ∧ exR.ndim = 2
    ∧ total (Index.sortCm [((0, 0), 2), ((1, 0), 1)]) = 3
    ∧ total (Index.sortCm [((-1, 0), 1), ((0, 0), 3)]) = 4
    ∧ (exR.toDenseA.toOption.map (fun d => (d.shape, d.data.toList))
        == some ([3, 4], [1, 0, 0, 0, 2, 0, 0, 0, 0, 3, 4, 5])) = true := by
  refine ⟨by decide, rfl, by decide, by decide, by decide +kernel⟩

/-- its Gram matrix `Dᵀ D`: the `1 × 1` block `[5]` of column charge `-1` and the `3 × 3` block
    `[3,4,5]ᵀ [3,4,5]` of column charge `0`, zeros in between -/
example : ∀ d : Blk Int, exR.toDenseA = .ok d →
    (List.ofFn (fun j : Fin 4 => List.ofFn (fun j' : Fin 4 => gram id (d.toMatrix 3 4) j j')))
      = [[5, 0, 0, 0], [0, 9, 12, 15], [0, 12, 16, 20], [0, 15, 20, 25]] := by
  intro d hd
  have : d = Blk.ofFn [3, 4] (fun p =>
      match Arr.locateAll exR.indices p with
      | some (sec, off) => if false then ({ exR with phases := [] } : Arr Int).elem sec off
                           else exR.elem sec off
      | none => 0) := by
    have h := hd
    unfold Arr.toDenseA at h
    simp only [show (exR.indices.any fun ix => ix.cm.isEmpty) = false by decide,
      Bool.false_eq_true, if_false] at h
    exact (Except.ok.inj h).symm
  subst this
  simp only [gram, Fin.sum_univ_three]
  decide +kernel

end SymmModel.C12
