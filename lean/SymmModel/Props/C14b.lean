/-
  SymmModel.Props.C14b — second part of property C14 ("operations never modify their operands unless
  asked to; every in-place form produces, in place, exactly the value of the out-of-place form").

  (1) `inplace_same_value` for the in-place forms with a SECOND operand that `Props/C14.lean` left
      open: `__iadd__/__isub__/__imul__/__itruediv__/__ipow__` with a block array or block vector
      (`Op.binaryA`, `Op.binaryF`) incl. `x += x`, and `drop_misaligned_sectors(inplace=True)`
      (`Op.alignAxes`, two targets); the other operand is untouched (`other_operand_untouched`).
  (2) the frame theorems for the public operations the `Op` table does not list (`Op2` of
      `Model/Heap2.lean`), and for programs of calls mixing both tables (`GCall`).
  (3) the exact aliasing of the internal-use entry points that keep the caller's dict.
-/
import SymmModel.Props.C14
import SymmModel.Proofs.Heap2Inplace
import SymmModel.Proofs.Heap2Lemmas
namespace SymmModel.C14
open SymmModel.Heap

/-! ## (1) in-place arithmetic with a block-array right operand -/

/-- **`x ∘= y` for abelian arrays and block vectors** (`__iadd__`: `.outer`, `__isub__/__itruediv__/
    __ipow__`: `.strict`, `__imul__`: `.inner`).  `x` is any well-formed array object, `y` ANY array
    object with a block dict — another array, an array sharing dicts with `x`, or `x` itself.  The
    in-place call returns `x`, and `x` ends with exactly the content `c` of the object `r` the
    out-of-place call returns from the same heap; both create the same buffers; `c` is the explicit
    function `binPure` of `x`'s content and `y`'s block dict. -/
theorem inplace_same_value_binaryA (m : Missing) {h : Heap} {x y : ObjId} {a ay : ArrObj} {bd ob : Dict}
    {pd : Option Dict} (wx : WFArr h x a bd pd) (hy : h.arrOf y = some ay)
    (hyb : h.get? ay.blocks = some (.dict ob)) :
    ∃ r c, ((Op.binaryA m).run true h [x, y]).2 = [x] ∧ ((Op.binaryA m).run false h [x, y]).2 = [r] ∧
      content ((Op.binaryA m).run true h [x, y]).1 x = some c ∧
      content ((Op.binaryA m).run false h [x, y]).1 r = some c ∧
      ((Op.binaryA m).run true h [x, y]).1.bufs = ((Op.binaryA m).run false h [x, y]).1.bufs ∧
      (c, ((Op.binaryA m).run true h [x, y]).1.bufs) = binPure m (cont a bd pd, h.bufs) ob := by
  obtain ⟨hi, ho, r, q, c, ri, ro, ci, co, hb, hv⟩ := binaryA_runs m wx hy hyb
  refine ⟨r, c, ?_, ?_, ?_, ?_, ?_, ?_⟩ <;>
    simp [Op.run, Op.arity, Op.results, Op.targets, Op.alwaysInplace, Op.neverInplace, ri, ro, envGet, ci, co, hb]
  rw [← hb]; exact hv

/-- the self-aliased case `x += x`, `x *= x`, … is an instance -/
theorem inplace_same_value_binaryA_self (m : Missing) {h : Heap} {x : ObjId} {a : ArrObj} {bd : Dict}
    {pd : Option Dict} (wx : WFArr h x a bd pd) :
    ∃ r c, ((Op.binaryA m).run true h [x, x]).2 = [x] ∧ ((Op.binaryA m).run false h [x, x]).2 = [r] ∧
      content ((Op.binaryA m).run true h [x, x]).1 x = some c ∧
      content ((Op.binaryA m).run false h [x, x]).1 r = some c ∧
      ((Op.binaryA m).run true h [x, x]).1.bufs = ((Op.binaryA m).run false h [x, x]).1.bufs := by
  obtain ⟨r, c, h1, h2, h3, h4, h5, _⟩ :=
    inplace_same_value_binaryA m wx (arrOf_eq_some.mpr wx.arr) wx.blk
  exact ⟨r, c, h1, h2, h3, h4, h5⟩

/-- **`x ∘= y` for fermionic arrays** (`FermionicArray._binary_blockwise_op`: pending signs of `x` are
    multiplied in first, `y` is replaced by a synchronised copy if it has pending signs), `y` sharing no
    object with `x` -/
theorem inplace_same_value_binaryF (m : Missing) {h : Heap} {x y : ObjId} {a ay : ArrObj} {bd bo : Dict}
    {pd po : Option Dict} (wx : WFArr h x a bd pd) (wy : WFArr h y ay bo po) (hne : y ≠ x)
    (hdis : ∀ d ∈ dictsOf h y, d ∉ dictsOf h x) :
    ∃ r c, ((Op.binaryF m).run true h [x, y]).2 = [x] ∧ ((Op.binaryF m).run false h [x, y]).2 = [r] ∧
      content ((Op.binaryF m).run true h [x, y]).1 x = some c ∧
      content ((Op.binaryF m).run false h [x, y]).1 r = some c ∧
      ((Op.binaryF m).run true h [x, y]).1.bufs = ((Op.binaryF m).run false h [x, y]).1.bufs ∧
      (c, ((Op.binaryF m).run true h [x, y]).1.bufs) = bodyFPure m (cont a bd pd) (cont ay bo po) h.bufs := by
  obtain ⟨hi, ho, r, e1, e2, c, ri, ro, ci, co, hb, hv⟩ := binaryF_runs m wx wy hne hdis
  refine ⟨r, c, ?_, ?_, ?_, ?_, ?_, ?_⟩ <;>
    simp [Op.run, Op.arity, Op.results, Op.targets, Op.alwaysInplace, Op.neverInplace, ri, ro, envGet, ci, co, hb]
  rw [← hb]; exact hv

/-- **`x ∘= x` for a fermionic array without pending signs** -/
theorem inplace_same_value_binaryF_self (m : Missing) {h : Heap} {x : ObjId} {a : ArrObj} {bd : Dict}
    {pd : Option Dict} (wx : WFArr h x a bd pd) (hclean : pd.getD [] = []) :
    ∃ r c, ((Op.binaryF m).run true h [x, x]).2 = [x] ∧ ((Op.binaryF m).run false h [x, x]).2 = [r] ∧
      content ((Op.binaryF m).run true h [x, x]).1 x = some c ∧
      content ((Op.binaryF m).run false h [x, x]).1 r = some c ∧
      ((Op.binaryF m).run true h [x, x]).1.bufs = ((Op.binaryF m).run false h [x, x]).1.bufs := by
  obtain ⟨hi, ho, r, e1, e2, c, ri, ro, ci, co, hb, _⟩ := binaryF_runs_self m wx hclean
  refine ⟨r, c, ?_, ?_, ?_, ?_, ?_⟩ <;>
    simp [Op.run, Op.arity, Op.results, Op.targets, Op.alwaysInplace, Op.neverInplace, ri, ro, envGet, ci, co, hb]

/- NOT proved in this generality: `x ∘= x` for a fermionic array WITH pending signs.  There the two runs
   do NOT create the same buffer table — out of place `x.copy().phase_sync()` and `x.phase_sync()` negate
   the same blocks twice, in place once (`binaryF_self_pending_bufs_differ` below) — so the conclusion
   `bufs = bufs` of `inplace_same_value` is false; what holds is equality of the contents with every
   buffer id replaced by its provenance tree (kernel tag applied to the trees of its arguments).  That is
   checked below on a concrete heap (`binaryF_self_pending_same_provenance`) and by the harness on the
   real code (`x += x` etc. with pending signs); the general statement
     theorem inplace_same_value_binaryF_self_pending (m) (wx : WFArr h x a bd pd) :
       ∃ r, … ∧ provContent (run true).1 x = provContent (run false).1 r
   needs a simulation argument (contents related by a buffer renaming) that is not done. -/

/-- provenance of a buffer, as the preorder listing of its tree: `[1, tag, arity, subtrees…]` for a
    kernel result, `[0, b]` for an id outside the table (a prefix-free code of the tree) -/
def bufTree (bufs : Bufs) : Nat → BufId → List Nat
  | 0, b => [0, b]
  | fuel + 1, b =>
    match bufs[b]? with
    | some (tag, args) => 1 :: tag :: args.length :: args.flatMap (bufTree bufs fuel)
    | none => [0, b]

/-- the content of an array with every buffer id replaced by its provenance -/
structure ProvContent where
  indices : Nat
  charge : Int
  blocks : List (Key × List Nat)
  phases : Option Dict
  oddpos : Nat
  deriving DecidableEq

def provContent (h : Heap) (x : ObjId) : Option ProvContent :=
  (content h x).map fun c =>
    ⟨c.indices, c.charge, c.blocks.map (fun e => (e.1, bufTree h.bufs h.bufs.length e.2.toNat)), c.phases, c.oddpos⟩

theorem binaryF_self_pending_bufs_differ :
    ((Op.binaryF .outer).run true h0 [2, 2]).1.bufs ≠ ((Op.binaryF .outer).run false h0 [2, 2]).1.bufs := by
  decide +kernel

def provSame (m : Missing) : Prop :=
  provContent ((Op.binaryF m).run true h0 [2, 2]).1 2 =
    provContent ((Op.binaryF m).run false h0 [2, 2]).1 (((Op.binaryF m).run false h0 [2, 2]).2.getD 0 0) ∧
  (provContent ((Op.binaryF m).run true h0 [2, 2]).1 2).isSome = true

theorem binaryF_self_pending_same_provenance : provSame .outer ∧ provSame .strict ∧ provSame .inner := by
  unfold provSame
  decide +kernel

/-! ### `drop_misaligned_sectors(a, b, axes_a, axes_b, inplace=True)` -/

/-- **both targets end with the values of the two out-of-place results** (`a`, `b` sharing no object) -/
theorem inplace_same_value_align (p : AlignP) {h : Heap} {x y : ObjId} {a ay : ArrObj} {bd bo : Dict}
    {pd po : Option Dict} (wx : WFArr h x a bd pd) (wy : WFArr h y ay bo po) (hne : y ≠ x)
    (hdis : ∀ d ∈ dictsOf h y, d ∉ dictsOf h x) :
    ∃ r1 r2 c1 c2, ((Op.alignAxes p).run true h [x, y]).2 = [x, y] ∧
      ((Op.alignAxes p).run false h [x, y]).2 = [r1, r2] ∧
      content ((Op.alignAxes p).run true h [x, y]).1 x = some c1 ∧
      content ((Op.alignAxes p).run true h [x, y]).1 y = some c2 ∧
      content ((Op.alignAxes p).run false h [x, y]).1 r1 = some c1 ∧
      content ((Op.alignAxes p).run false h [x, y]).1 r2 = some c2 ∧
      ((Op.alignAxes p).run true h [x, y]).1.bufs = ((Op.alignAxes p).run false h [x, y]).1.bufs := by
  obtain ⟨hi, ho, r1, r2, c1, c2, ri, ro, cx, cy, c1', c2', hb, _, _⟩ := align_runs p wx wy hne hdis
  refine ⟨r1, r2, c1, c2, ?_, ?_, ?_, ?_, ?_, ?_, ?_⟩ <;>
    simp [Op.run, Op.arity, Op.results, Op.targets, Op.alwaysInplace, Op.neverInplace, ri, ro, envGet, cx, cy,
      c1', c2', hb]

/-- **the self-aliased call** `drop_misaligned_sectors(a, a, axes_a, axes_b, inplace=True)`: the second
    `modify` overwrites the first, so the one object ends with the value of the SECOND out-of-place
    result (`a` filtered as the right operand); the first result's value is not produced.  (symmray
    never calls the in-place form itself; `align_axes` and `tensordot` use the out-of-place form.) -/
theorem align_inplace_self (p : AlignP) {h : Heap} {x : ObjId} {a : ArrObj} {bd : Dict} {pd : Option Dict}
    (wx : WFArr h x a bd pd) :
    ∃ r1 r2 c2, ((Op.alignAxes p).run true h [x, x]).2 = [x, x] ∧
      ((Op.alignAxes p).run false h [x, x]).2 = [r1, r2] ∧
      content ((Op.alignAxes p).run true h [x, x]).1 x = some c2 ∧
      content ((Op.alignAxes p).run false h [x, x]).1 r2 = some c2 ∧
      ((Op.alignAxes p).run true h [x, x]).1.bufs = ((Op.alignAxes p).run false h [x, x]).1.bufs := by
  obtain ⟨hi, ho, r1, r2, c2, ri, ro, cx, c2', hb⟩ := align_runs_self p wx
  refine ⟨r1, r2, c2, ?_, ?_, ?_, ?_, ?_⟩ <;>
    simp [Op.run, Op.arity, Op.results, Op.targets, Op.alwaysInplace, Op.neverInplace, ri, ro, envGet, cx, c2', hb]

/-! ### the other operand is untouched -/

/-- **frame of the in-place forms**: a well-formed array `y` none of whose objects (itself, its block
    dict, its sign dict) is reachable from the operands the call was asked to modify is, after the
    call, the same array object pointing to the same dict objects with the same ordered items -/
theorem other_operand_untouched (op : Op) (inplace : Bool) (h : Heap) (operands : List ObjId)
    (hn : op.arity ≤ operands.length) (htg : ∀ x ∈ targetObjs op inplace operands, x < h.size)
    {y : ObjId} {ay : ArrObj} {bo : Dict} {po : Option Dict} (wy : WFArr h y ay bo po)
    (hy : ∀ i ∈ reachable h [y], i ∉ reachable h (targetObjs op inplace operands)) :
    WFArr (op.run inplace h operands).1 y ay bo po := by
  have hu := op_frame_inplace op inplace h operands hn htg (reachable h [y]) hy
  have hr : reachable h [y] = y :: dictsOfArr ay := by
    simp [reachable, dictsOf_of_get? wy.arr]
  refine ⟨hu y (by simp [hr]) _ wy.arr, hu _ (by simp [hr, dictsOfArr]) _ wy.blk, ?_, wy.phn⟩
  intro p hp
  obtain ⟨d, e, hd, hne⟩ := wy.ph p hp
  exact ⟨d, e, hu p (by simp [hr, dictsOfArr, hp]) _ hd, hne⟩

/-- for `x ∘= y`, `y` not `x` and sharing no dict with it: `y` keeps its content -/
theorem binary_other_untouched (op : Op) (hop : (∃ m, op = .binaryA m) ∨ (∃ m, op = .binaryF m))
    {h : Heap} {x y : ObjId} {a ay : ArrObj} {bd bo : Dict} {pd po : Option Dict}
    (wx : WFArr h x a bd pd) (wy : WFArr h y ay bo po) (hne : y ≠ x)
    (hdis : ∀ d ∈ dictsOf h y, d ∉ dictsOf h x) :
    WFArr (op.run true h [x, y]).1 y ay bo po ∧ content (op.run true h [x, y]).1 y = content h y := by
  have htg : targetObjs op true [x, y] = [x] := by
    rcases hop with ⟨m, rfl⟩ | ⟨m, rfl⟩ <;>
      simp [targetObjs, Op.targets, Op.alwaysInplace, Op.neverInplace, envGet]
  have har : op.arity = 2 := by rcases hop with ⟨m, rfl⟩ | ⟨m, rfl⟩ <;> rfl
  have w := other_operand_untouched op true h [x, y] (by simp [har])
    (by rw [htg]; intro z hz; simp at hz; subst hz; exact get?_lt wx.arr) wy (by
      rw [htg]
      have hxk : dictsOf h x = dictsOfArr a := dictsOf_of_get? wx.arr
      have hyk : dictsOf h y = dictsOfArr ay := dictsOf_of_get? wy.arr
      intro i hi hi'
      simp only [reachable, List.flatMap_cons, List.flatMap_nil, List.append_nil, List.mem_cons] at hi hi'
      have kindA : ∀ z b q d, WFArr h z b q d → ∀ j ∈ dictsOf h z, ∀ c, h.get? j ≠ some (.arr c) := by
        intro z b q d wz j hj c hc
        rw [dictsOf_of_get? wz.arr] at hj
        simp only [dictsOfArr, List.mem_cons, Option.mem_toList] at hj
        rcases hj with rfl | e
        · rw [wz.blk] at hc; cases hc
        · obtain ⟨d', _, hd', _⟩ := wz.ph _ e
          rw [hd'] at hc; cases hc
      rcases hi with rfl | hi
      · rcases hi' with e | hi'
        · exact hne e
        · exact kindA x a bd pd wx _ hi' _ wy.arr
      · rcases hi' with e | hi'
        · subst e; exact kindA y ay bo po wy _ hi _ wx.arr
        · exact hdis i hi hi')
  exact ⟨w, by rw [w.content, wy.content]⟩

/-! ## (2) the operations of the second table -/

/-- every operation of both tables obeys the ownership discipline -/
theorem op_spec_ok (op : Op) (inplace : Bool) : (op.spec inplace).OK :=
  ⟨op_safe op inplace, targets_lt_arity op inplace⟩

theorem op2_spec_ok (op : Op2) : op.spec.OK := op2_ok op

/-- **`op_frame` for the second table**: every object that existed before the call — in particular
    everything reachable from the operands, whatever they share — is identical after it -/
theorem op2_frame_all (op : Op2) (h : Heap) (operands : List ObjId) (hn : op.arity ≤ operands.length)
    (objs : List ObjId) : Unchanged h (op.run h operands).1 objs := by
  intro i _ o ho
  exact spec_frame_all op.spec (op2_ok op) h operands hn rfl i o ho

theorem op2_frame (op : Op2) (h : Heap) (operands : List ObjId) (hn : op.arity ≤ operands.length) :
    Unchanged h (op.run h operands).1 (reachable h operands) := op2_frame_all op h operands hn _

/-- **`no_shared_dict` for the second table**: every returned object (array, or the bare dict of
    `get_params`) and every dict a returned array points to was allocated by the call … -/
theorem op2_result_objects_new (op : Op2) (h : Heap) (operands : List ObjId) (hn : op.arity ≤ operands.length) :
    ∀ r ∈ (op.run h operands).2, h.size ≤ r ∧ ∀ d ∈ dictsOf (op.run h operands).1 r, h.size ≤ d :=
  spec_result_objects_new op.spec (op2_ok op) h operands hn rfl

/-- … hence shares no mutable object with the operands (or with anything else that existed) -/
theorem op2_no_shared_dict (op : Op2) (h : Heap) (operands : List ObjId) (hn : op.arity ≤ operands.length)
    (hvalid : ∀ d ∈ reachable h operands, d < h.size) :
    ∀ d, d ∈ reachable (op.run h operands).1 (op.run h operands).2 → d ∉ reachable h operands := by
  intro d hd hd'
  simp only [reachable, List.mem_flatMap, List.mem_cons] at hd
  obtain ⟨r, hr, hdr⟩ := hd
  have hnew := op2_result_objects_new op h operands hn r hr
  have h2 : d < h.size := hvalid d hd'
  rcases hdr with rfl | hdr
  · exact absurd h2 (Nat.not_lt.mpr hnew.1)
  · exact absurd h2 (Nat.not_lt.mpr (hnew.2 d hdr))

/-- **programs mixing both tables** (`prog_frame` + `result_mutation_safe` in one): any program of calls
    in which a call is only ever asked to modify results of earlier calls of the program — any
    length, any sharing of operands, the same object passed twice, results of either table abused in
    place — leaves every object that existed before it identical -/
theorem gprog_frame_all (cs : List GCall) (h : Heap) (env : Env)
    (hcs : GCallsOwned (List.replicate env.length false) cs) (objs : List ObjId) :
    Unchanged h (runG cs h env).1 objs := by
  intro i _ o ho
  exact gprog_frame cs h env hcs i o ho

/-- **`result_mutation_safe` for the second table** (and again for the first): run any operation out
    of place, then any program of calls of both tables that is only ever asked to modify the results -/
theorem result_mutation_safe2 (s : OpSpec) (ok : s.OK) (h : Heap) (operands : List ObjId)
    (hn : s.arity ≤ operands.length) (hout : s.targets = []) (cs : List GCall)
    (hcs : GCallsOwned (List.replicate operands.length false ++ List.replicate s.results.length true) cs)
    (objs : List ObjId) :
    Unchanged h (runG cs (s.run h operands).1 (operands ++ (s.run h operands).2)).1 objs := by
  intro i _ o ho
  exact g_result_mutation_safe s ok h operands hn hout cs hcs i o ho

/-! ## (3) the entry points that keep the caller's dict (permitted aliasing, stated exactly) -/

/-- `x.copy_with(blocks=d)` with an EXISTING dict object `d`: nothing that existed changes, the new
    array's block dict IS `d`, its sign dict is new — and a later in-place effect on the result
    (`y.blocks[k] = …`, `y *= 2`, `del y.blocks[k]`) is a mutation of `d` -/
theorem copy_with_caller_blocks_aliases {h : Heap} {x : ObjId} {a : ArrObj} {bd : Dict} {pd : Option Dict}
    (wx : WFArr h x a bd pd) {d : DictId} {l : Dict} (hd : h.get? d = some (.dict l)) :
    let r := copyWithCallerBlocks h x d
    Ext h r.1 ∧ h.size ≤ r.2 ∧
    (∃ ar, r.1.arrOf r.2 = some ar ∧ ar.blocks = d ∧ ∀ p, ar.phases = some p → h.size ≤ p) ∧
    (∀ k, (runAct (.bPop k) r.1 r.2).get? d = some (.dict (l.pop k))) ∧
    (∀ k b, (runAct (.bPut k b) r.1 r.2).get? d = some (.dict (l.set k b))) := by
  intro r
  have hr : r = copyWithCallerBlocks h x d := rfl
  unfold copyWithCallerBlocks at hr
  rw [arrOf_eq_some.mpr wx.arr] at hr
  have s2 := phasesFor_spec h a none
  have e1 : Ext h r.1 := by rw [hr]; exact s2.1.trans (alloc_ext _ _)
  have hid : r.2 = (phasesFor h a none).1.size := by rw [hr]; rfl
  have harr : r.1.arrOf r.2 = some { a with blocks := d, phases := (phasesFor h a none).2 } := by
    rw [arrOf_eq_some, hr]; exact alloc_get?_new _ _
  have hd1 : r.1.get? d = some (.dict l) := by rw [e1.get? (get?_lt hd)]; exact hd
  refine ⟨e1, by rw [hid]; exact s2.1.size, ⟨_, harr, rfl, s2.2⟩, ?_, ?_⟩
  · intro k
    simp only [runAct, harr, dictPop]
    exact get?_updDict_self hd1 _
  · intro k b
    simp only [runAct, harr, dictSet]
    exact get?_updDict_self hd1 _

/-- `x.copy_with(phases=d)` with an existing dict object `d` (fermionic `x`): the new array's sign dict
    IS `d`; `phase_global / phase_sector / phase_sync (inplace=True)` on the result mutate `d` -/
theorem copy_with_caller_phases_aliases {h : Heap} {x : ObjId} {a : ArrObj} {bd pl : Dict}
    (wx : WFArr h x a bd (some pl)) {d : DictId} {l : Dict} (hd : h.get? d = some (.dict l)) :
    let r := copyWithCallerPhases h x d
    Ext h r.1 ∧ h.size ≤ r.2 ∧
    (∃ ar, r.1.arrOf r.2 = some ar ∧ ar.phases = some d ∧ h.size ≤ ar.blocks) ∧
    (∀ k, (runAct (.pPop k) r.1 r.2).get? d = some (.dict (l.pop k))) ∧
    (runAct .pPopItem r.1 r.2).get? d = some (.dict l.popItem) := by
  intro r
  have hr : r = copyWithCallerPhases h x d := rfl
  unfold copyWithCallerPhases at hr
  rw [arrOf_eq_some.mpr wx.arr] at hr
  obtain ⟨p, hp⟩ : ∃ p, a.phases = some p := by
    cases hq : a.phases with
    | none => have := wx.phn hq; cases this
    | some p => exact ⟨p, rfl⟩
  have s1 := blocksFor_spec h a none
  have e1 : Ext h r.1 := by rw [hr]; exact s1.1.trans (alloc_ext _ _)
  have hid : r.2 = (blocksFor h a none).1.size := by rw [hr]; rfl
  have harr : r.1.arrOf r.2 =
      some { a with blocks := (blocksFor h a none).2, phases := a.phases.map fun _ => d } := by
    rw [arrOf_eq_some, hr]; exact alloc_get?_new _ _
  have hd1 : r.1.get? d = some (.dict l) := by rw [e1.get? (get?_lt hd)]; exact hd
  refine ⟨e1, by rw [hid]; exact s1.1.size, ⟨_, harr, by simp [hp], s1.2.ge⟩, ?_, ?_⟩
  · intro k
    simp only [runAct, harr, onPhases, dictPop, hp, Option.map_some]
    exact get?_updDict_self hd1 _
  · simp only [runAct, harr, onPhases, dictPopItem, hp, Option.map_some]
    exact get?_updDict_self hd1 _

/-! ## non-vacuity -/

/-- two fermionic arrays `x = 2`, `y = 5`, each with two blocks and one pending sign, sharing nothing -/
def h2 : Heap :=
  { objs := [.dict [(0, 0), (1, 1)], .dict [(1, -1)],
             .arr { indices := 5, charge := 1, blocks := 0, phases := some 1, oddpos := 3 },
             .dict [(1, 2), (2, 3)], .dict [(2, -1)],
             .arr { indices := 5, charge := 1, blocks := 3, phases := some 4, oddpos := 0 }],
    bufs := [(0, []), (0, []), (0, []), (0, [])] }

theorem wfx2 : WFArr h2 2 { indices := 5, charge := 1, blocks := 0, phases := some 1, oddpos := 3 }
    [(0, 0), (1, 1)] (some [(1, -1)]) :=
  ⟨rfl, rfl, fun p hp => by cases hp; exact ⟨_, rfl, rfl, by decide⟩, fun hn => by cases hn⟩

theorem wfy2 : WFArr h2 5 { indices := 5, charge := 1, blocks := 3, phases := some 4, oddpos := 0 }
    [(1, 2), (2, 3)] (some [(2, -1)]) :=
  ⟨rfl, rfl, fun p hp => by cases hp; exact ⟨_, rfl, rfl, by decide⟩, fun hn => by cases hn⟩

-- the hypotheses of `inplace_same_value_binaryF` / `_align` / `binary_other_untouched` hold for (x, y):
example : (5 : ObjId) ≠ 2 ∧ ∀ d ∈ dictsOf h2 5, d ∉ dictsOf h2 2 := by decide
-- … and the calls really do something: `x += y` in place keeps three blocks, two of them new buffers;
-- `y` is as before; the out-of-place call returns the new object 8 with the same content
example : content ((Op.binaryF .outer).run true h2 [2, 5]).1 2 ≠ content h2 2 ∧
    ((content ((Op.binaryF .outer).run true h2 [2, 5]).1 2).map fun c => c.blocks.keys) = some [0, 1, 2] ∧
    content ((Op.binaryF .outer).run true h2 [2, 5]).1 5 = content h2 5 ∧
    ((Op.binaryF .outer).run false h2 [2, 5]).2 = [8] ∧
    content ((Op.binaryF .outer).run false h2 [2, 5]).1 8 = content ((Op.binaryF .outer).run true h2 [2, 5]).1 2 := by
  decide +kernel
-- `x *= x` (abelian code path on the same object twice): the hypotheses of `inplace_same_value_binaryA`
example : h2.arrOf 2 = some { indices := 5, charge := 1, blocks := 0, phases := some 1, oddpos := 3 } := rfl
example : content ((Op.binaryA .inner).run true h2 [2, 2]).1 2 ≠ content h2 2 := by decide +kernel
-- the hypothesis of `inplace_same_value_binaryF_self` (no pending sign) holds for an array with an empty sign dict
example : (some ([] : Dict)).getD [] = [] := rfl

def alignP0 : AlignP := ⟨fun _ b k => b.has k, fun a _ k => a.has k, fun c _ => c.indices + 1, fun _ c => c.indices + 1⟩
-- in-place alignment drops the unmatched block of each operand
example : ((content ((Op.alignAxes alignP0).run true h2 [2, 5]).1 2).map fun c => c.blocks.keys) = some [1] ∧
    ((content ((Op.alignAxes alignP0).run true h2 [2, 5]).1 5).map fun c => c.blocks.keys) = some [1] := by
  decide +kernel

/-- `drop_misaligned_sectors(a, a, …, inplace=True)` with different keep rules for the two roles: the
    object ends with the SECOND result's value, which differs from the first result's -/
def alignP1 : AlignP := ⟨fun _ _ k => k == 0, fun _ _ k => k == 1, fun c _ => c.indices, fun _ c => c.indices⟩

theorem align_self_loses_first_result :
    let ri := (Op.alignAxes alignP1).run true h2 [2, 2]
    let ro := (Op.alignAxes alignP1).run false h2 [2, 2]
    content ri.1 2 = content ro.1 (ro.2.getD 1 0) ∧ content ri.1 2 ≠ content ro.1 (ro.2.getD 0 0) := by
  decide +kernel

-- second table: a fermionic `x @ y` (with `other.phase_flip(0)`), then abusing the result in place, is a
-- program whose calls are only asked to modify variable 2 = the result
def opM : Op2 := .matmulF (some fun k => k % 2 == 1)
  ⟨fun a b => (a.filter fun e => b.has e.1).map fun e => (e.1, [e.2.toNat, (b.getD e.1 0).toNat]),
   fun a b => a.indices + b.indices, fun a b => a.charge + b.charge⟩
  (fun a _ => a.oddpos % 2 == 1) (fun a b => a.oddpos + b.oddpos) false

example : opM.arity ≤ [2, 5].length ∧ ∀ d ∈ reachable h2 [2, 5], d < h2.size := by decide
example : (opM.run h2 [2, 5]).2 = [18] ∧ dictsOf (opM.run h2 [2, 5]).1 18 = [16, 17] ∧
    ((content (opM.run h2 [2, 5]).1 18).map fun c => c.blocks.keys) = some [1] ∧
    content (opM.run h2 [2, 5]).1 2 = content h2 2 ∧ content (opM.run h2 [2, 5]).1 5 = content h2 5 := by
  decide +kernel
example : GCallsOwned (List.replicate [2, 5].length false ++ List.replicate opM.spec.results.length true)
    [⟨(Op.phaseGlobal).spec true, [2]⟩, ⟨(Op.binaryF .outer).spec true, [2, 0]⟩,
     ⟨(Op2.clipF tFn).spec, [2]⟩, ⟨(Op.phaseSync).spec true, [3]⟩, ⟨Op2.getParams.spec, [0]⟩] := by
  refine ⟨op_spec_ok _ _, by decide, by decide, op_spec_ok _ _, by decide, by decide,
    op2_spec_ok _, by decide, by decide, op_spec_ok _ _, by decide, by decide, op2_spec_ok _, by decide, by decide, trivial⟩
-- `get_params` returns a new bare dict (object 6) holding `x`'s items
example : (Op2.getParams.run h2 [2]).2 = [6] ∧ (Op2.getParams.run h2 [2]).1.dictOf 6 = h2.dictOf 0 := by decide +kernel
-- `copy_with(blocks=d)` with `d` = the block dict of ANOTHER live array `y`: deleting a block of the
-- result deletes it from `y`
example : content (runAct (.bPop 1) (copyWithCallerBlocks h2 2 3).1 (copyWithCallerBlocks h2 2 3).2) 5 ≠ content h2 5 := by
  decide +kernel


end SymmModel.C14
