/-
  Property C16, second part — the dense form of `from_fill_fn` (zeros, constants, any fill
  function), and what `from_dense` does with the contents of non-conserving sectors.

  `from_dense(..., invalid_sectors=…)`: the model's `fromDense` (Model/Construct.lean) has no
  `invalid_sectors` parameter; it behaves as `"ignore"` (and as the default `"warn"`, which only
  emits a warning): entries whose labels do not conserve the charge never influence the result
  (`fromDense_ignores_invalid`, `fromDense_error_indep`).  The mode `"raise"` is not modelled;
  the condition under which it raises in abelian_core.py — some entry of a non-conserving sector
  is non-zero (there: `> 1e-12` in modulus) — is, with exact zero, exactly the condition under
  which dense → blocks → dense loses information (`fromDense_lossless_iff`).
-/
import SymmModel.Proofs.Dense3c
import SymmModel.Props.C16

namespace SymmModel.C16
open SymmModel Arr Dense3

variable {R : Type}

/-! ## 9. `from_fill_fn` and densification -/

/-- **dense form of `from_fill_fn`** (hence of `zeros`, `ones`, `random`, which call it): shape of
    the indices; at a position whose sector conserves the charge the entry of
    `fill sector block_shape` at the position's offsets; zero elsewhere -/
theorem fromFillFn_toDense [Zero R] [Neg R] (sym : Sym) (fermi : Bool) (indices : List Index)
    (charge : Option Charge) (fill : Sector → List Nat → Blk R) (oddpos : List (Int × Bool))
    (hvc : ∀ ix ∈ indices, ∀ c ∈ ix.charges, sym.valid c = true)
    (hch : sym.valid (charge.getD sym.zero) = true)
    (hnd : ∀ ix ∈ indices, (ix.cm.map (·.1)).Nodup)
    (hne : indices.any (fun ix => ix.cm.isEmpty) = false)
    (b : Arr R) (h : fromFillFn sym fermi indices charge fill oddpos = .ok b) :
    ∃ d, toDenseA b = .ok d ∧ d.shape = indices.map Index.sizeTotal ∧
      ∀ p, inBox (indices.map Index.sizeTotal) p = true →
        ∃ sec off shp, locateAll indices p = some (sec, off)
          ∧ blockShape? indices sec = some shp ∧ inBox shp off = true
          ∧ d.get p = if sectorCharge sym (indices.map Index.dual) sec = charge.getD sym.zero
                      then (fill sec shp).get off else 0 :=
  fromFillFn_toDense_main sym fermi indices charge fill oddpos hvc hch hnd hne b h

/-- `zeros(indices, charge)`: the dense form is the zero array of the indices' shape -/
theorem zeros_toDense [Zero R] [Neg R] (sym : Sym) (fermi : Bool) (indices : List Index)
    (charge : Option Charge) (oddpos : List (Int × Bool))
    (hvc : ∀ ix ∈ indices, ∀ c ∈ ix.charges, sym.valid c = true)
    (hch : sym.valid (charge.getD sym.zero) = true)
    (hnd : ∀ ix ∈ indices, (ix.cm.map (·.1)).Nodup)
    (hne : indices.any (fun ix => ix.cm.isEmpty) = false)
    (b : Arr R) (h : fromFillFn sym fermi indices charge (fun _ shp => Blk.zeros shp) oddpos = .ok b) :
    ∃ d, toDenseA b = .ok d ∧ d.shape = indices.map Index.sizeTotal ∧
      ∀ p, inBox (indices.map Index.sizeTotal) p = true → d.get p = 0 := by
  obtain ⟨d, hd, hs, hg⟩ := fromFillFn_toDense sym fermi indices charge _ oddpos hvc hch hnd hne b h
  refine ⟨d, hd, hs, fun p hp => ?_⟩
  obtain ⟨sec, off, shp, _, _, _, hv⟩ := hg p hp
  rw [hv, get_zeros]
  split <;> rfl

/-- a constant fill (`ones`): the dense form is the indicator of the charge-conserving positions
    times the constant -/
theorem const_toDense [Zero R] [Neg R] (k : R) (sym : Sym) (fermi : Bool) (indices : List Index)
    (charge : Option Charge) (oddpos : List (Int × Bool))
    (hvc : ∀ ix ∈ indices, ∀ c ∈ ix.charges, sym.valid c = true)
    (hch : sym.valid (charge.getD sym.zero) = true)
    (hnd : ∀ ix ∈ indices, (ix.cm.map (·.1)).Nodup)
    (hne : indices.any (fun ix => ix.cm.isEmpty) = false)
    (b : Arr R)
    (h : fromFillFn sym fermi indices charge (fun _ shp => Blk.ofFn shp (fun _ => k)) oddpos = .ok b) :
    ∃ d, toDenseA b = .ok d ∧ d.shape = indices.map Index.sizeTotal ∧
      ∀ p, inBox (indices.map Index.sizeTotal) p = true →
        ∃ sec off, locateAll indices p = some (sec, off)
          ∧ d.get p = if sectorCharge sym (indices.map Index.dual) sec = charge.getD sym.zero
                      then k else 0 := by
  obtain ⟨d, hd, hs, hg⟩ := fromFillFn_toDense sym fermi indices charge _ oddpos hvc hch hnd hne b h
  refine ⟨d, hd, hs, fun p hp => ?_⟩
  obtain ⟨sec, off, shp, hl, _, hbox, hv⟩ := hg p hp
  refine ⟨sec, off, hl, ?_⟩
  rw [hv, Blk.get_ofFn _ _ hbox]

/-! ## 10. `from_dense` and the contents of non-conserving sectors -/

/-- whether `from_dense` raises does not depend on the entries of the dense array at all (in
    particular not on non-zero entries in non-conserving sectors): only on its shape -/
theorem fromDense_error_indep [Zero R] (sym : Sym) (fermi : Bool) (dense dense' : Blk R)
    (hshape : dense'.shape = dense.shape) (maps : List (List Charge)) (duals : List Bool)
    (charge : Option Charge) (oddpos : List (Int × Bool)) (e : Err) :
    fromDense sym fermi dense maps duals charge oddpos = .error e
      ↔ fromDense sym fermi dense' maps duals charge oddpos = .error e := by
  rw [fromDense_eq_construct, fromDense_eq_construct, hshape]
  split
  · rfl
  · split
    · rfl
    · rw [construct_spec, construct_spec]
      have : ∀ bl bl' : List (Sector × Blk R),
          resolvedCharge sym (fdIndices maps duals) (some (charge.getD sym.zero)) bl
            = resolvedCharge sym (fdIndices maps duals) (some (charge.getD sym.zero)) bl' :=
        fun _ _ => rfl
      rw [this _ (fdBlocks sym dense' maps duals (charge.getD sym.zero))]
      split
      · rfl
      · constructor <;> (intro h; cases h)

/-- **`invalid_sectors = "ignore"`**: two dense arrays that agree at every position whose labels
    conserve the charge give block arrays with the same dense form -/
theorem fromDense_ignores_invalid [Zero R] [Neg R] (sym : Sym) (fermi : Bool) (dense dense' : Blk R)
    (hshape : dense'.shape = dense.shape)
    (maps : List (List Charge)) (duals : List Bool) (charge : Option Charge)
    (oddpos : List (Int × Bool))
    (hm : maps.length = dense.shape.length) (hd : duals.length = dense.shape.length)
    (hl : (List.zipWith (fun (m : List Charge) d => m.length != d) maps dense.shape).any id = false)
    (hne : ∀ m ∈ maps, m ≠ [])
    (hagree : ∀ p, inBox dense.shape p = true →
      sectorCharge sym duals (labelsAt maps (origAll maps p)) = charge.getD sym.zero →
      dense'.get (origAll maps p) = dense.get (origAll maps p))
    (a a' : Arr R) (ha : fromDense sym fermi dense maps duals charge oddpos = .ok a)
    (ha' : fromDense sym fermi dense' maps duals charge oddpos = .ok a') :
    ∃ d d', toDenseA a = .ok d ∧ toDenseA a' = .ok d' ∧ d.shape = d'.shape
      ∧ ∀ p, inBox dense.shape p = true → d.get p = d'.get p := by
  obtain ⟨d, h1, s1, g1⟩ := toDense_fromDense sym fermi dense maps duals charge oddpos hm hd hl hne a ha
  obtain ⟨d', h2, s2, g2⟩ := toDense_fromDense sym fermi dense' maps duals charge oddpos
    (by rw [hshape]; exact hm) (by rw [hshape]; exact hd) (by rw [hshape]; exact hl) hne a' ha'
  refine ⟨d, d', h1, h2, by rw [s1, s2, hshape], fun p hp => ?_⟩
  rw [g1 p hp, g2 p (by rw [hshape]; exact hp)]
  split
  · rename_i hc
    exact (hagree p hp (by simpa using hc)).symm
  · rfl

/-- **when nothing is lost** (the condition `invalid_sectors = "raise"` tests, with exact zero):
    dense → blocks → dense returns the (charge-sorted) dense array itself iff every entry whose
    labels do not conserve the charge is zero -/
theorem fromDense_lossless_iff [Zero R] [Neg R] (sym : Sym) (fermi : Bool) (dense : Blk R)
    (maps : List (List Charge)) (duals : List Bool) (charge : Option Charge)
    (oddpos : List (Int × Bool))
    (hm : maps.length = dense.shape.length) (hd : duals.length = dense.shape.length)
    (hl : (List.zipWith (fun (m : List Charge) d => m.length != d) maps dense.shape).any id = false)
    (hne : ∀ m ∈ maps, m ≠ [])
    (a : Arr R) (ha : fromDense sym fermi dense maps duals charge oddpos = .ok a)
    (d' : Blk R) (hd' : toDenseA a = .ok d') :
    (∀ p, inBox dense.shape p = true → d'.get p = dense.get (origAll maps p))
      ↔ (∀ p, inBox dense.shape p = true →
          sectorCharge sym duals (labelsAt maps (origAll maps p)) ≠ charge.getD sym.zero →
          dense.get (origAll maps p) = 0) := by
  obtain ⟨d0, h1, _, g⟩ := toDense_fromDense sym fermi dense maps duals charge oddpos hm hd hl hne a ha
  rw [hd'] at h1; injection h1 with h1; subst h1
  constructor
  · intro hall p hp hnc
    have := g p hp
    rw [if_neg (by simpa using hnc), hall p hp] at this
    exact this
  · intro hz p hp
    rw [g p hp]
    split
    · rfl
    · rename_i hc
      exact (hz p hp (by simpa using hc)).symm

/-! ## examples -/

section Examples2
open Ex

/-- a dense 3×3 matrix (labels 1,0,1 on both axes) that is zero on the non-conserving positions -/
def Ex.clean : Blk Int := ⟨[3, 3], #[1, 0, 3, 0, 5, 0, 7, 0, 9]⟩

-- zeros / ones over the indices of `Ex.x`
example : dataOf (fromFillFn .U1 false [ix false, ix true] none
    (fun _ shp => (Blk.zeros shp : Blk Int)) >>= toDenseA) = some ([3, 3], [0, 0, 0, 0, 0, 0, 0, 0, 0]) := by
  decide
example : dataOf (fromFillFn .U1 false [ix false, ix true] none
    (fun _ shp => (Blk.ofFn shp (fun _ => 1) : Blk Int)) >>= toDenseA)
    = some ([3, 3], [1, 0, 0, 0, 1, 1, 0, 1, 1]) := by decide
example : dataOf (fromFillFn .U1 false [ix false, ix true] (some (1, 0))
    (fun _ shp => (Blk.ofFn shp (fun _ => 1) : Blk Int)) >>= toDenseA)
    = some ([3, 3], [0, 0, 0, 1, 0, 0, 1, 0, 0]) := by decide
example : ∃ b, fromFillFn .U1 false [ix false, ix true] none
    (fun _ shp => (Blk.zeros shp : Blk Int)) = .ok b := ⟨_, rfl⟩
example := zeros_toDense (R := Int) .U1 false [ix false, ix true] none [] (by decide) (by decide)
  (by decide) (by decide)
example := const_toDense (R := Int) 7 .U1 false [ix false, ix true] none [] (by decide) (by decide)
  (by decide) (by decide)

-- `dense` has non-zero entries at non-conserving positions: they are dropped silently (no error),
-- and the round trip loses them; `clean` has none and survives
example : errOf (fromDense .U1 false dense maps [false, true] none) = none := by decide
example : dataOf (fromDense .U1 false dense maps [false, true] none >>= toDenseA)
    = some ([3, 3], [5, 0, 0, 0, 1, 3, 0, 7, 9])
    ∧ dataOf (fromDense .U1 false Ex.clean maps [false, true] none >>= toDenseA)
    = some ([3, 3], [5, 0, 0, 0, 1, 3, 0, 7, 9]) := by decide
example := fromDense_ignores_invalid (R := Int) .U1 false dense Ex.clean rfl maps [false, true] none []
  rfl rfl (by decide) (by decide)
example := fromDense_lossless_iff (R := Int) .U1 false Ex.clean maps [false, true] none [] rfl rfl
  (by decide) (by decide)
example := (fromDense_error_indep (R := Int) .U1 false dense Ex.clean rfl maps [false] none []
  Err.index).mp rfl

end Examples2

end SymmModel.C16
