/-
  Property C11 (fourth part) — reconstruction with the library's DEFAULT contraction mode.

  `qr_reconstructs_fused` (abelian): `tensordot(q, r, axes=([1],[0]))` in `mode="fused"` and in
  `mode="auto"` (which is fused whenever something is contracted) reconstructs `x`; corollary of
  `C11.qr_reconstructs` (blockwise) and `C06.tensordotA_modes_agree` (fused = blockwise on the
  value view).  Both factors are fully aligned (`factors_aligned_nonempty`), so the fused strategy
  never takes its empty-alignment shortcut when `x` stores a block.

  NOT proved (PLANNED in harness/props/c11.py): the fermionic version through
  `tensordot_fermionic(…, mode="fused")`.  It needs (i) fused = blockwise for FERMIONIC operands
  (`tensordotA_modes_agree` assumes `fermi = false`; Props/C06c.lean is not in the tree yet) and
  (ii) the blockwise reconstruction through `Arr.tensordotF` instead of `Arr.matmulF` (`@`): the
  two differ in which operand receives the bond flip (`tensordot_fermionic` flips the smaller
  operand), which the theorems of C11/C11c do not cover.
-/
import SymmModel.Props.C11c
import SymmModel.Props.C06b

namespace SymmModel.C11
open SymmModel LinalgLemmas ReconP

variable {R : Type}

/-- every block of both factors survives `drop_misaligned_sectors` -/
theorem factors_aligned_nonempty {x : Arr R} (hv : x.validB = true) (h2 : x.ndim = 2)
    (hne : x.blocks ≠ []) (L Rt : Blk R → Blk R) :
    ((dropMisaligned (leftF x L) (rightF x L Rt) [1] [0]).1.blocks.isEmpty
      || (dropMisaligned (leftF x L) (rightF x L Rt) [1] [0]).2.blocks.isEmpty) = false := by
  obtain ⟨i0, i1, hi⟩ := ndim_two h2
  obtain ⟨p, hp⟩ := List.exists_mem_of_ne_nil _ hne
  obtain ⟨r, c, m, n, B⟩ := mat_block hv hi (s := p.1) (b := p.2) hp
  have hrb : (rightF x L Rt).blocks = x.blocks.map (fun p => ([colOf p.1, colOf p.1], Rt p.2)) :=
    rightF_fields.2.2.2.2.1
  have hcol : colOf p.1 = c := by simp [colOf, B.hs]
  have hsubA : [c] ∈ (leftF x L).sectors.map (fun s => permuted s [1]) := by
    rw [leftF_sectors]
    refine List.mem_map.mpr ⟨p.1, List.mem_map.mpr ⟨p, hp, rfl⟩, ?_⟩
    rw [B.hs]; rfl
  have hsubB : [c] ∈ (rightF x L Rt).sectors.map (fun s => permuted s [0]) := by
    refine List.mem_map.mpr ⟨[c, c], ?_, rfl⟩
    simp only [Arr.sectors, hrb, List.map_map]
    exact List.mem_map.mpr ⟨p, hp, by simp [hcol]⟩
  have hall : [c] ∈ ((leftF x L).sectors.map (fun s => permuted s [1])).filter
      (fun k => ((rightF x L Rt).sectors.map (fun s => permuted s [0])).contains k) :=
    List.mem_filter.mpr ⟨hsubA, by simpa using hsubB⟩
  have h1 : (p.1, L p.2) ∈ (dropMisaligned (leftF x L) (rightF x L Rt) [1] [0]).1.blocks := by
    simp only [dropMisaligned]
    refine List.mem_filter.mpr ⟨List.mem_map.mpr ⟨p, hp, rfl⟩, ?_⟩
    have : permuted p.1 [1] = [c] := by rw [B.hs]; rfl
    simp only [this]
    simpa using hall
  have h2' : ([c, c], Rt p.2) ∈ (dropMisaligned (leftF x L) (rightF x L Rt) [1] [0]).2.blocks := by
    simp only [dropMisaligned]
    refine List.mem_filter.mpr ⟨by rw [hrb]; exact List.mem_map.mpr ⟨p, hp, by simp [hcol]⟩, ?_⟩
    have : permuted [c, c] [0] = [c] := rfl
    simp only [this]
    simpa using hall
  have e1 : (dropMisaligned (leftF x L) (rightF x L Rt) [1] [0]).1.blocks.isEmpty = false := by
    cases h : (dropMisaligned (leftF x L) (rightF x L Rt) [1] [0]).1.blocks with
    | nil => rw [h] at h1; cases h1
    | cons _ _ => rfl
  have e2 : (dropMisaligned (leftF x L) (rightF x L Rt) [1] [0]).2.blocks.isEmpty = false := by
    cases h : (dropMisaligned (leftF x L) (rightF x L Rt) [1] [0]).2.blocks with
    | nil => rw [h] at h2'; cases h2'
    | cons _ _ => rfl
  rw [e1, e2]; rfl

/-- **qr_reconstructs_fused** (abelian).  `C11.qr_reconstructs` with the library's DEFAULT
    contraction: `tensordot(q, r, axes=([1],[0]))` in `mode="fused"` and `mode="auto"` (the same
    result) succeeds for a valid abelian matrix with at least one block; it stores every sector of
    `x`, and at every address of `x` inside a stored block of the result it has `x`'s element. -/
theorem qr_reconstructs_fused [AddCommMonoid R] [Mul R] [Neg R]
    (hz1 : ∀ x : R, 0 * x = 0) (hz2 : ∀ x : R, x * 0 = 0) (K : Kernels R) (hK : K.ShapeOk)
    (hC : K.QRContract) (x : Arr R) (hv : x.validB = true) (h2 : x.ndim = 2)
    (hf : x.fermi = false) (hne : x.blocks ≠ []) :
    ∃ q r c, qrA K x = .ok (q, r)
      ∧ tensordotA q r (.pair [1] [0]) .fused = .ok c ∧ tensordotA q r (.pair [1] [0]) .auto = .ok c
      ∧ (∀ s ∈ x.sectors, s ∈ c.sectors)
      ∧ ∀ s V, alookup c.blocks s = some V → ∀ off, inBox V.shape off = true → AddrOf x s off →
          c.elem s off = x.elem s off := by
  obtain ⟨i0, i1, hi⟩ := ndim_two h2
  have hS := bondSpec_factors hv h2 (facShape_qr hK)
  have hqn : (leftF x (fun b => (K.qr b).1)).ndim = 2 := rfl
  have hrn : (rightF x (fun b => (K.qr b).1) (fun b => (K.qr b).2)).ndim = 2 := by
    simp [Arr.ndim, hS.right_indices]
  have hparse : parseAxes (leftF x (fun b => (K.qr b).1)).ndim
      (rightF x (fun b => (K.qr b).1) (fun b => (K.qr b).2)).ndim (.pair [1] [0])
      = .ok ([1], [0]) := by rw [hqn, hrn]; rfl
  obtain ⟨c, bw, e1, e2, e3, _, _, _, _, _, _, hsec, hval⟩ := C06.tensordotA_modes_agree hz1 hz2
    (leftF x (fun b => (K.qr b).1)) (rightF x (fun b => (K.qr b).1) (fun b => (K.qr b).2))
    (.pair [1] [0]) [1] [0] hparse
    (leftF_valid hv h2 hi (facShape_qr hK)) (rightF_valid hv h2 hi (facShape_qr hK))
    hf (hS.right_rest.2.1.trans hf) hS.right_rest.1.symm
    (by
      unfold ValidP.contractibleB
      rw [hS.left_indices, hS.right_indices]
      simp [hS.opposite.1, hS.opposite.2])
    (by decide) (by decide) (by intro a ha; simp at ha; subst ha; rw [hqn]; decide)
    (by intro a ha; simp at ha; subst ha; rw [hrn]; decide)
    (by decide) (by rw [hqn]; decide) (by rw [hrn]; decide)
    (factors_aligned_nonempty hv h2 hne _ _)
  have hbw : bw = tensordotBlockwise (leftF x (fun b => (K.qr b).1))
      (rightF x (fun b => (K.qr b).1) (fun b => (K.qr b).2)) [0] [1] [0] [1] := by
    have := TdotP.tensordotA_blockwise_ok (leftF x (fun b => (K.qr b).1))
      (rightF x (fun b => (K.qr b).1) (fun b => (K.qr b).2)) (.pair [1] [0]) [1] [0] hparse
    rw [e3] at this
    have h' := Except.ok.inj this
    rw [h', hqn, hrn]
    rfl
  subst hbw
  have hbs : (tensordotBlockwise (leftF x (fun b => (K.qr b).1))
      (rightF x (fun b => (K.qr b).1) (fun b => (K.qr b).2)) [0] [1] [0] [1]).sectors = x.sectors := by
    have := tdot_blocks_aligned hv h2 (fun p => (K.qr p.2).1) (fun p => (K.qr p.2).2)
      (leftF x (fun b => (K.qr b).1)) (rightF x (fun b => (K.qr b).1) (fun b => (K.qr b).2))
      rfl rightF_fields.2.2.2.2.1
    simp [Arr.sectors, this, List.map_map, Function.comp_def]
  refine ⟨_, _, c, qrA_eq K hv h2, e1, e2, fun s hs => hsec s (by rw [hbs]; exact hs), ?_⟩
  intro s V hl off hbox ha
  rw [hval s V hl off hbox]
  exact qr_recon hK hC hv h2 hf s off ha

/-! ## example -/

example : (∀ x : Int, 0 * x = 0) ∧ (∀ x : Int, x * 0 = 0) ∧ Kernels.trivialFactor.ShapeOk
    ∧ Kernels.trivialFactor.QRContract ∧ exM.validB = true ∧ exM.ndim = 2 ∧ exM.fermi = false
    ∧ exM.blocks ≠ [] :=
  ⟨Int.zero_mul, Int.mul_zero, trivialFactor_shapeOk, trivialFactor_qr, by decide, rfl, rfl,
    by decide⟩

/-- fused, auto and blockwise contraction of the qr factors of `exM` all give `exM`'s blocks -/
example : ((qrA Kernels.trivialFactor exM).toOption.map (fun p =>
      [TdotMode.fused, TdotMode.auto, TdotMode.blockwise].map (fun mode =>
        (tensordotA p.1 p.2 (.pair [1] [0]) mode).toOption.map (fun c =>
          c.blocks.map (fun q => (q.1, q.2.shape, q.2.data.toList)))))
    == some (List.replicate 3 (some
        [([(0, 0), (-1, 0)], [2, 1], [1, 2]), ([(1, 0), (0, 0)], [1, 3], [3, 4, 5])]))) = true := by
  decide +kernel

end SymmModel.C11
