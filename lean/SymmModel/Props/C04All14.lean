/- Property C04 — umbrella incl. C04l (abelian two-step contraction identified with einsumA for increasing remaining legs). -/
import SymmModel.Props.C04All13
import SymmModel.Props.C04l
