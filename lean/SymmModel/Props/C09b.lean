/-
  Property C09, second part — "every operation gives equal results on an array and on its
  sign-synchronised copy": the operations not covered by Props/C09.lean.

  1. Reductions and unary maps as the REPAIRED library performs them (`_do_reduction`,
     `_do_unary_op`, `clip` synchronise first; commit 9260944): `Lazy.sumF` (the driver's "sum"
     case), `Lazy.mapF f` (abs, sqrt, clip, …), `Lazy.reduceF g op e` (max, min, …).  Because the
     synchronisation comes first, the results are IDENTICAL on observationally equal arrays for
     ARBITRARY `f`, `g`, `op` — contrast `C09.mapVals_congr_needs_odd` for the unrepaired form.
     The block-data norm `C12.normSq2` is invariant as well.
  2. Decompositions: `eigh` and `solve` synchronise first (exact equalities); the singular values
     of `svd` are the same for every kernel whose singular values ignore the sign of the block
     (`SvdSignInvariant`); `q @ r` and `(u·s) @ vh` reconstruct the same value from an array and
     from its synchronised copy (under the kernel contracts of C11).
  3. `squeeze`, `expand_dims` (same error or observationally equal results) and `fuse` in all cases.
  4. `einsumF_refines_graded`: the element-level form of the single-array fermionic einsum.
  5. `Prog.lazy_unobservable_all`: programs over all these operations, with terminal
     observations.

  Hypotheses are clauses of `Arr.validB` (`Lazy.Full`, `a.fermi`, for `squeeze` also
  `Lazy.SecInTables`: the stored sectors have their charges in the index tables).  Nothing is
  assumed about the KEYS of the pending-sign table: since the repair of
  `FermionicArray._map_blocks` (only the sign entries of stored blocks are re-keyed; former known
  finding "stale-sign-rekeyed-onto-live-block") an entry left behind by a dropped block is
  discarded by `squeeze` / `expand_dims` and cannot reach another block:
  `squeeze_congr_any_phases`, `squeeze_sync_any_phases`, `squeeze_elem_ignores_stale`, regression
  theorem `squeeze_ignores_stale_key` on the old witness.  The former forms with
  `Lazy.InTables` (= `validB` + `ValidP.phaseKeysInTablesB`) are kept; they are implied.
-/
import SymmModel.Proofs.LazyMore
import SymmModel.Props.C09

namespace SymmModel.C09
open SymmModel Lazy
set_option linter.unusedSectionVars false

/-! ## 1. reductions and unary maps (synchronise first) -/
section one
variable {R : Type} [Zero R] [Neg R]

/-- the definitions, spelled out: `sumF` is the driver's "sum" -/
theorem sumF_def [Add R] (a : Arr R) :
    sumF a = (if a.fermi then a.phaseSync else a).blocks.foldl (fun acc (_, b) => acc + b.sumAll) 0 :=
  rfl

theorem mapF_def (f : R → R) (a : Arr R) :
    mapF f a = { (if a.fermi then a.phaseSync else a) with
      blocks := (if a.fermi then a.phaseSync else a).blocks.map (fun (k, b) => (k, b.map f)) } := rfl

theorem reduceF_def {S : Type} (g : Blk R → S) (op : S → S → S) (e : S) (a : Arr R) :
    reduceF g op e a
      = (if a.fermi then a.phaseSync else a).blocks.foldl (fun acc (_, b) => op acc (g b)) e := rfl

/-- on a fermionic array and its synchronised copy: identical, no hypothesis on the array -/
theorem reductions_sync [Add R] (a : Arr R) (hf : a.fermi = true) :
    sumF a.phaseSync = sumF a
    ∧ (∀ f : R → R, mapF f a.phaseSync = mapF f a)
    ∧ (∀ {S : Type} (g : Blk R → S) (op : S → S → S) (e : S),
        reduceF g op e a.phaseSync = reduceF g op e a) :=
  ⟨sumF_sync a hf, fun f => mapF_sync f a hf, fun g op e => reduceF_sync g op e a hf⟩

theorem sumF_congr [Add R] [LawfulNeg R] {a a' : Arr R} (h : ObsEq a a') (fa : Full a)
    (fa' : Full a') (hf : a.fermi = true) : sumF a = sumF a' := Lazy.sumF_congr h fa fa' hf

/-- ARBITRARY `f` -/
theorem mapF_congr [LawfulNeg R] (f : R → R) {a a' : Arr R} (h : ObsEq a a') (fa : Full a)
    (fa' : Full a') (hf : a.fermi = true) : mapF f a = mapF f a' := Lazy.mapF_congr f h fa fa' hf

theorem reduceF_congr [LawfulNeg R] {S : Type} (g : Blk R → S) (op : S → S → S) (e : S)
    {a a' : Arr R} (h : ObsEq a a') (fa : Full a) (fa' : Full a') (hf : a.fermi = true) :
    reduceF g op e a = reduceF g op e a' := Lazy.reduceF_congr g op e h fa fa' hf

/-- every function of the synchronised array -/
theorem syncFirst_congr [LawfulNeg R] {α : Type} (F : Arr R → α) {a a' : Arr R} (h : ObsEq a a')
    (fa : Full a) (fa' : Full a') (hf : a.fermi = true) : F (syncF a) = F (syncF a') :=
  Lazy.syncFirst_congr F h fa fa' hf

/-- the value view of the repaired unary map: `f` of the value, for every `f` with `f 0 = 0` -/
theorem mapF_elem [LawfulNeg R] (f : R → R) (hf0 : f 0 = 0) (a : Arr R) (hf : a.fermi = true)
    (s : Sector) (off : List Nat) : (mapF f a).elem s off = f (a.elem s off) :=
  Lazy.mapF_elem f hf0 a hf s off

/-- the repaired `sum` is the sum of the dense value -/
theorem sumF_dense {R : Type} [AddCommMonoid R] [Neg R] [LawfulNeg R] (a : Arr R)
    (hv : a.validB = true) (hf : a.fermi = true) (hne : C08.NoEmpty a) (d : Blk R)
    (hd : a.toDenseF = .ok d) : sumF a = d.sumAll := Lazy.sumF_dense a hv hf hne d hd

/-- `norm2` (sum of an even `nsq` over the stored data) does not see pending signs -/
theorem normSq2_congr {S : Type} [Zero S] [Add S] [LawfulNeg R] (nsq : R → S)
    (hneg : ∀ x, nsq (-x) = nsq x) {a a' : Arr R} (h : ObsEq a a') (fa : Full a) (fa' : Full a') :
    C12.normSq2 nsq a = C12.normSq2 nsq a' := Lazy.normSq2_congr nsq hneg h fa fa'

end one

/-! ## 2. decompositions -/
section two
variable {R : Type} [Zero R] [Neg R]

theorem eighA_sync (K : Kernels R) (a : Arr R) (hf : a.fermi = true) :
    eighA K a = eighA K a.phaseSync := Lazy.eighA_sync K a hf

theorem eighA_congr [LawfulNeg R] (K : Kernels R) {a a' : Arr R} (h : ObsEq a a') (fa : Full a)
    (fa' : Full a') (hf : a.fermi = true) : eighA K a = eighA K a' :=
  Lazy.eighA_congr K h fa fa' hf

theorem solveA_sync (K : Kernels R) (a b : Arr R) (hfa : a.fermi = true) (hfb : b.fermi = true) :
    solveA K a b = solveA K a.phaseSync b.phaseSync := Lazy.solveA_sync K a b hfa hfb

theorem solveA_congr [LawfulNeg R] (K : Kernels R) {a a' b b' : Arr R} (ha : ObsEq a a')
    (hb : ObsEq b b') (fa : Full a) (fa' : Full a') (fb : Full b) (fb' : Full b')
    (hfa : a.fermi = true) (hfb : b.fermi = true) : solveA K a b = solveA K a' b' :=
  Lazy.solveA_congr K ha hb fa fa' fb fb' hfa hfb

/-- the singular values `svd` returns, for a kernel whose singular values ignore the sign of the
    block (`SvdSignInvariant K : ∀ b, (K.svd b.negK).2.1 = (K.svd b).2.1`): the same BVec on an
    array and on its synchronised copy — any rank-2 array, no validity needed -/
theorem svdVals_sync (K : Kernels R) (hK : SvdSignInvariant K) (x : Arr R) :
    (svdA K x.phaseSync).map (fun r => r.2.1) = (svdA K x).map (fun r => r.2.1) :=
  Lazy.svdVals_sync K hK x

theorem svdVals_congr [LawfulNeg R] (K : Kernels R) (hK : SvdSignInvariant K) {a a' : Arr R}
    (h : ObsEq a a') (fa : Full a) (fa' : Full a') :
    (svdA K a).map (fun r => r.2.1) = (svdA K a').map (fun r => r.2.1) :=
  Lazy.svdVals_congr K hK h fa fa'

/-- the shape-only kernel is sign invariant (non-vacuity of `SvdSignInvariant`) -/
example : SvdSignInvariant (Kernels.shapeOnly : Kernels R) := fun _ => rfl

end two

section two'
variable {R : Type} [Zero R] [Add R] [Mul R] [Neg R] [NegLaws R] [LawfulNeg R]

/-- QR of an array and of its synchronised copy reconstruct the same value (C11 contracts) -/
theorem qr_recon_sync (K : Kernels R) (hK : K.ShapeOk) (hC : K.QRContract) (x : Arr R)
    (hv : x.validB = true) (h2 : x.ndim = 2) (hf : x.fermi = true) (hodd : x.oddpos.length ≤ 1) :
    ∃ q r y q' r' y', qrA K x = .ok (q, r) ∧ Arr.matmulF q r = .ok y
      ∧ qrA K x.phaseSync = .ok (q', r') ∧ Arr.matmulF q' r' = .ok y'
      ∧ y.oddpos = y'.oddpos
      ∧ ∀ s off, LinalgLemmas.AddrOf x s off → y.elem s off = y'.elem s off :=
  Lazy.qr_recon_sync K hK hC x hv h2 hf hodd

theorem svd_recon_sync (K : Kernels R) (hK : K.ShapeOk) (hC : K.SVDContract) (x : Arr R)
    (hv : x.validB = true) (h2 : x.ndim = 2) (hf : x.fermi = true) (hodd : x.oddpos.length ≤ 1) :
    ∃ u s vh y u' s' vh' y', svdA K x = .ok (u, s, vh)
      ∧ Arr.matmulF (multiplyDiagonal u s 1) vh = .ok y
      ∧ svdA K x.phaseSync = .ok (u', s', vh')
      ∧ Arr.matmulF (multiplyDiagonal u' s' 1) vh' = .ok y'
      ∧ y.oddpos = y'.oddpos
      ∧ ∀ sec off, LinalgLemmas.AddrOf x sec off → y.elem sec off = y'.elem sec off :=
  Lazy.svd_recon_sync K hK hC x hv h2 hf hodd

end two'

/-! ## 3. `squeeze`, `expand_dims`, `fuse` -/
section three
variable {R : Type} [Zero R] [Neg R] [LawfulNeg R]

/-- `ExceptRel r x y`: both errors of the same kind, or both values related by `r` -/
theorem exceptRel_iff {α : Type} (r : α → α → Prop) (x y : Except Err α) :
    ExceptRel r x y ↔ (∃ e, x = .error e ∧ y = .error e) ∨ (∃ u v, x = .ok u ∧ y = .ok v ∧ r u v) := by
  cases x <;> cases y <;> simp [ExceptRel, eq_comm]

/-- **`squeeze` is a congruence for observational equality**: same error, or observationally
    equal results — with no hypothesis on the keys of the sign tables -/
theorem squeeze_congr_any_phases {a a' : Arr R} (h : ObsEq a a') (fa : Full a) (fa' : Full a')
    (hf : a.fermi = true) (hT : SecInTables a) (hT' : SecInTables a') (axis : Option (List Nat)) :
    ExceptRel ObsEq (a.squeeze axis) (a'.squeeze axis) :=
  Lazy.squeeze_congr_any_phases h fa fa' hf hT hT' axis

/-- `squeeze` of an array and of its synchronised copy, no hypothesis on the sign-table keys -/
theorem squeeze_sync_any_phases {a : Arr R} (fa : Full a) (hf : a.fermi = true)
    (hT : SecInTables a) (axis : Option (List Nat)) :
    ExceptRel ObsEq (a.squeeze axis) (a.phaseSync.squeeze axis) :=
  Lazy.squeeze_sync_any_phases fa hf hT axis

/-- every hypothesis of the two theorems above is a consequence of `validB` -/
theorem secInTables_of_valid {a : Arr R} (hv : a.validB = true) : SecInTables a :=
  SecInTables.of_valid hv

/-- the same, stated for valid arrays -/
theorem squeeze_congr_of_valid {a a' : Arr R} (h : ObsEq a a') (hv : a.validB = true)
    (hv' : a'.validB = true) (hf : a.fermi = true) (axis : Option (List Nat)) :
    ExceptRel ObsEq (a.squeeze axis) (a'.squeeze axis) :=
  Lazy.squeeze_congr_any_phases h (Full.of_valid hv hf) (Full.of_valid hv' (h.fermi ▸ hf)) hf
    (SecInTables.of_valid hv) (SecInTables.of_valid hv') axis

theorem squeeze_sync_of_valid {a : Arr R} (hv : a.validB = true) (hf : a.fermi = true)
    (axis : Option (List Nat)) : ExceptRel ObsEq (a.squeeze axis) (a.phaseSync.squeeze axis) :=
  Lazy.squeeze_sync_any_phases (Full.of_valid hv hf) hf (SecInTables.of_valid hv) axis

/-- the former forms, with `InTables` (implied by the `_any_phases` forms) -/
theorem squeeze_congr {a a' : Arr R} (h : ObsEq a a') (fa : Full a) (fa' : Full a')
    (hf : a.fermi = true) (hT : InTables a) (hT' : InTables a') (axis : Option (List Nat)) :
    ExceptRel ObsEq (a.squeeze axis) (a'.squeeze axis) :=
  Lazy.squeeze_congr h fa fa' hf hT hT' axis

theorem squeeze_sync {a : Arr R} (fa : Full a) (hf : a.fermi = true) (hT : InTables a)
    (axis : Option (List Nat)) : ExceptRel ObsEq (a.squeeze axis) (a.phaseSync.squeeze axis) :=
  Lazy.squeeze_sync fa hf hT axis

theorem inTables_of_valid {a : Arr R} (hv : a.validB = true)
    (hk : ValidP.phaseKeysInTablesB a = true) : InTables a := InTables.of_valid hv hk

/-- **value view of `squeeze`, any sign table** (the statement behind the former known finding
    "stale-sign-rekeyed-onto-live-block").  For a valid array — whose sign table may hold entries
    for sectors without a block, left behind by `multiply_diagonal`, `align_axes`,
    `drop_missing_blocks` — the squeezed array holds, at the address obtained by dropping the
    removed coordinates, exactly the value the array held: pending sign of the block itself
    included, no sign from any other entry. -/
theorem squeeze_elem_ignores_stale (a : Arr R) (axis : Option (List Nat)) (a' : Arr R)
    (hv : a.validB = true) (h : a.squeeze axis = .ok a') :
    ∃ m, DenseP.squeezeMask a axis = .ok m ∧
      ∀ s shp off, Arr.blockShape? a.indices s = some shp → inBox shp off = true →
        a'.elem (DenseP.dropMask m s) (DenseP.dropMask m off) = a.elem s off := by
  obtain ⟨hsh, hnd, _, hab⟩ := C08.hypotheses_of_validB a hv
  cases hf : a.fermi with
  | false => exact C08.squeeze_elem a axis a' h (hab hf) hsh hnd
  | true =>
    obtain ⟨m, hm, rfl, _⟩ := C08.squeeze_mask_spec a axis a' h
    exact ⟨m, hm, fun s shp off hs ho =>
      squeezed_elem_any_phases hm hf (Full.of_valid hv hf) (SecInTables.of_valid hv) hsh s shp off hs ho⟩

theorem expandDims_congr {a a' : Arr R} (h : ObsEq a a') (fa : Full a) (fa' : Full a')
    (hf : a.fermi = true) (axis : Nat) (c : Option Charge) (dual : Option Bool) :
    ObsEq (a.expandDims axis c dual) (a'.expandDims axis c dual) :=
  Lazy.expandDims_congr h fa fa' hf axis c dual

/-- `fuse`, every case (all groups empty included: then the array itself or the `ValueError` of
    `expand_empty` is returned) -/
theorem fuseF_congr_all {a a' : Arr R} (h : ObsEq a a') (fa : Full a) (fa' : Full a')
    (groups : List (List Nat)) (mode : FuseMode) (expandEmpty : Bool)
    (hg : (groups.filter (fun g => !g.isEmpty)).isEmpty = false →
      Arr.isPerm (calcFuseGroupInfo (groups.filter (fun g => !g.isEmpty)) a.duals).perm a.ndim = true) :
    ExceptRel ObsEq (a.fuseF groups mode expandEmpty) (a'.fuseF groups mode expandEmpty) :=
  Lazy.fuseF_congr_all h fa fa' groups mode expandEmpty hg

end three

/-! ## 4. single-array fermionic einsum (also C03 `einsumF_refines_graded`) -/
section four
variable {R : Type}

/-- `FermionicArray.einsum` is: transpose to `einOrder` (traced pairs adjacent in front as
    (bra, ket)), synchronise, abelian einsum -/
theorem einsumF_eq [Zero R] [Neg R] [Add R] (a : Arr R) (lhs rhs : List Nat) :
    a.einsumF lhs rhs =
      if lhs.length != a.ndim then .error Err.index
      else einsumA ((a.transposeF (einOrder a lhs rhs)).phaseSync)
        (permuted lhs (einOrder a lhs rhs)) rhs :=
  Lazy.einsumF_eq a lhs rhs

/-- **einsumF_refines_graded**, element level: Koszul sign of `einOrder` on the sector's parities
    times the plain traces of the transposed value (`transposedElem`, which for an in-box offset is
    `a.elem s (srcIdx …)`: `transposedElem_inBox`) -/
theorem einsumF_refines_graded [AddMonoid R] [Neg R] [LawfulNeg R]
    (neg_add : ∀ x y : R, -(x + y) = -x + -y) (a : Arr R)
    (lhs rhs perm2 : List Nat) (hv : a.validB = true) (hf : a.fermi = true)
    (hlen : lhs.length = a.ndim)
    (hperm : TdotP.einPerm? (permuted lhs (einOrder a lhs rhs)) rhs = .ok perm2)
    (h2 : (TdotP.einTracedPos (permuted lhs (einOrder a lhs rhs)) rhs).any
      (fun js => js.length != 2) = false)
    (s' : Sector) (o' : List Nat)
    (ho : ∀ s ∈ (einOperand a lhs rhs).sectors,
      TdotP.einKeep (permuted lhs (einOrder a lhs rhs)) rhs s = true → permuted s perm2 = s' →
      inBox (rhs.map (TdotP.einSize (Arr.blockShapeD (einOperand a lhs rhs).indices s)
        (permuted lhs (einOrder a lhs rhs)))) o' = true) :
    ∃ c, a.einsumF lhs rhs = .ok c
      ∧ c.indices = permuted (permuted a.indices (einOrder a lhs rhs)) perm2
      ∧ c.elem s' o' =
        ((a.sectors.filter (fun s =>
            TdotP.einKeep (permuted lhs (einOrder a lhs rhs)) rhs (permuted s (einOrder a lhs rhs))
            && permuted (permuted s (einOrder a lhs rhs)) perm2 == s')).map (fun s =>
          sgnI (koszul (a.parities s) (some (einOrder a lhs rhs)))
            (((allIdx ((TdotP.einTraced (permuted lhs (einOrder a lhs rhs)) rhs).map
                (TdotP.einSize (Arr.blockShapeD (einOperand a lhs rhs).indices
                  (permuted s (einOrder a lhs rhs))) (permuted lhs (einOrder a lhs rhs))))).map
              (fun t => transposedElem a (einOrder a lhs rhs) s
                (TdotP.einIdx (permuted lhs (einOrder a lhs rhs)) rhs o' t))).sum))).sum :=
  Lazy.einsumF_elem neg_add a lhs rhs perm2 hv hf hlen hperm h2 s' o' ho

theorem transposedElem_inBox [Zero R] [Neg R] (a : Arr R) (axes : List Nat) (s : Sector) (b : Blk R)
    (hb : alookup a.blocks s = some b) (off : List Nat)
    (ho : inBox (permuted b.shape axes) off = true) :
    transposedElem a axes s off = a.elem s (srcIdx b.shape.length axes off) :=
  Lazy.transposedElem_inBox a axes s b hb off ho

end four

/-! ## 5. programs over all operations -/
section five
variable {R : Type} [Zero R] [Add R] [Mul R] [Neg R] [Conj R] [LawfulNegConj R] [LawfulMulNeg R]

/-- every operation of the extended language gives the same error or observationally equal
    results on observationally equal valid inputs -/
theorem Op2.congr_obsEq (op : Op2 R) {a a' : Arr R} (h : ObsEq a a') (sa : StOk a) (sa' : StOk a')
    (ho : op.ok a) : ExceptRel ObsEq (op.apply a) (op.apply a') := op.apply_rel h sa sa' ho

/-- **Prog.lazy_unobservable_all.**  Programs over `SOp` (sign operations, neg, conj, dagger,
    transpose) and `squeeze`, `expand_dims`, `multiply_diagonal`, `fuse`, `unfuse`, `tensordot`
    with a fixed partner on either side.  If every state of the lazy run and of the eager run
    (`phase_sync()` after every step) satisfies the state invariant `StOk` (clauses of validity —
    property C01; nothing about the keys of the sign table) and the guards hold, then both runs end with the
    same error or with observationally equal arrays; and every terminal observation computed from
    the synchronised final array (`sum`, `max`, `abs`, `clip`, `to_dense`, `norm`, `eigh`,
    `solve`, singular values, …) is identical. -/
theorem Prog.lazy_unobservable_all (p : List (Op2 R)) (a : Arr R) (hl : runOkE p a)
    (he : runSyncOkE p a) :
    ExceptRel ObsEq (runE p a) (runSyncE p a)
    ∧ ∀ {α : Type} (F : Arr R → α),
        ExceptRel (fun r r' => F (syncF r) = F (syncF r')) (runE p a) (runSyncE p a) :=
  ⟨run_runSyncE p (Lazy.ObsEq.refl a) hl he, fun F => run_observe F p hl he⟩

end five

/-! ## examples -/

open scoped SymmModel.Lazy

/-- `exA` (pending sign on one sector): the repaired sum / abs / max agree on the lazy and the
    synchronised copy — `abs` gives `4`, where the unrepaired form gave `-4` on the lazy copy
    (`mapVals_congr_needs_odd`) -/
example : sumF exA = -1 ∧ sumF exA.phaseSync = -1
    ∧ (mapF (fun t : Int => Int.natAbs t) exA).elem [(1, 0), (0, 0)] [1, 0] = 4
    ∧ (mapF (fun t : Int => Int.natAbs t) exA.phaseSync).elem [(1, 0), (0, 0)] [1, 0] = 4
    ∧ reduceF (fun b : Blk Int => b.data.foldl max (-1000)) max (-1000) exA = 4
    ∧ reduceF (fun b : Blk Int => b.data.foldl max (-1000)) max (-1000) exA.phaseSync = 4 := by
  decide +kernel

/-- rank 3 with a size-one identity-charge axis and a pending sign -/
def exS : Arr Int :=
  { sym := .Z2, fermi := true, charge := (1, 0),
    indices := [Index.mk [((0, 0), 1), ((1, 0), 2)] false none,
                Index.mk [((0, 0), 1)] false none,
                Index.mk [((0, 0), 2), ((1, 0), 1)] true none],
    blocks := [([(0, 0), (0, 0), (1, 0)], ⟨[1, 1, 1], #[3]⟩),
               ([(1, 0), (0, 0), (0, 0)], ⟨[2, 1, 2], #[1, 2, -4, 5]⟩)],
    phases := [([(1, 0), (0, 0), (0, 0)], -1)],
    oddpos := [(7, false)] }

theorem exS_stOk : StOk exS := StOk.of_valid_any_phases (by decide) rfl

example : ExceptRel ObsEq (exS.squeeze none) (exS.phaseSync.squeeze none) :=
  squeeze_sync_any_phases exS_stOk.full rfl exS_stOk.tables none

/-- concretely: the sign stays pending on the squeezed lazy copy and the values agree -/
example :
    (match exS.squeeze none with
      | .ok r => (r.elem [(1, 0), (0, 0)] [1, 0], r.phases) | .error _ => (0, []))
      = (4, [([(1, 0), (0, 0)], -1)])
    ∧ (match exS.phaseSync.squeeze none with
      | .ok r => (r.elem [(1, 0), (0, 0)] [1, 0], r.phases) | .error _ => (0, []))
      = (4, []) := by decide +kernel

/-- the witness of the former known finding "stale-sign-rekeyed-onto-live-block": `exS` with its
    sign entry replaced by a STALE one — no block is stored for `[(1,0),(2,0),(0,0)]` and the
    charge on the removed axis is outside the index table; the unrepaired `squeeze` re-keyed it
    onto the stored sector `[(1,0),(0,0)]` -/
def exStaleS : Arr Int := { exS with phases := [([(1, 0), (2, 0), (0, 0)], -1)] }

/-- **regression** (replaces `squeeze_needs_keys_in_tables`): on the old witness — valid, sign
    table key outside the tables — the squeezed lazy copy and the squeezed synchronised copy now
    hold the same value (`-4`, the stored number: no sign is pending on that block), the stale
    entry is gone and the result is valid -/
theorem squeeze_ignores_stale_key :
    exStaleS.validB = true ∧ ValidP.phaseKeysInTablesB exStaleS = false
    ∧ exStaleS.elem [(1, 0), (0, 0), (0, 0)] [1, 0, 0] = -4
    ∧ (match exStaleS.squeeze none with
        | .ok r => (r.elem [(1, 0), (0, 0)] [1, 0], r.phases, r.validB) | .error _ => (0, [], false))
        = (-4, [], true)
    ∧ (match exStaleS.phaseSync.squeeze none with
        | .ok r => r.elem [(1, 0), (0, 0)] [1, 0] | .error _ => 0) = -4 := by decide +kernel

/-- the general theorems apply to the witness: its only hypothesis is validity -/
example : ExceptRel ObsEq (exStaleS.squeeze none) (exStaleS.phaseSync.squeeze none) :=
  squeeze_sync_of_valid (by decide) rfl none

example : ∀ r, exStaleS.squeeze none = .ok r →
    ∃ m, DenseP.squeezeMask exStaleS none = .ok m ∧
      ∀ s shp off, Arr.blockShape? exStaleS.indices s = some shp → inBox shp off = true →
        r.elem (DenseP.dropMask m s) (DenseP.dropMask m off) = exStaleS.elem s off :=
  fun r h => squeeze_elem_ignores_stale exStaleS none r (by decide) h

/-- a program over the extended language: expand, flip, multiply by a diagonal, conjugate -/
example :
    let v : BVec Int := ⟨[((0, 0), ⟨[2], #[10, 100]⟩), ((1, 0), ⟨[1], #[7]⟩)]⟩
    let p : List (Op2 Int) := [.expandDims 1 none none, .base (.flip [0]), .mdiag v 2]
    runOkE p exA ∧ runSyncOkE p exA := by
  intro v p
  refine ⟨⟨StOk.of_valid (by decide) rfl (by decide), trivial, fun r hr => ?_⟩,
          ⟨StOk.of_valid (by decide) rfl (by decide), fun r hr => ?_⟩⟩
  · cases hr
    refine ⟨StOk.of_valid (by decide +kernel) rfl (by decide +kernel), trivial, fun r hr => ?_⟩
    cases hr
    refine ⟨StOk.of_valid (by decide +kernel) rfl (by decide +kernel), trivial, fun r hr => ?_⟩
    cases hr
    exact StOk.of_valid (by decide +kernel) rfl (by decide +kernel)
  · cases hr
    refine ⟨StOk.of_valid (by decide +kernel) rfl (by decide +kernel), fun r hr => ?_⟩
    cases hr
    refine ⟨StOk.of_valid (by decide +kernel) rfl (by decide +kernel), fun r hr => ?_⟩
    cases hr
    exact StOk.of_valid (by decide +kernel) rfl (by decide +kernel)

/-- the einsum `ijk -> kij` on `exS`: the axis order and the hypotheses of
    `einsumF_refines_graded` -/
example : einOrder exS [0, 1, 2] [2, 0, 1] = [2, 0, 1]
    ∧ TdotP.einPerm? (permuted [0, 1, 2] (einOrder exS [0, 1, 2] [2, 0, 1])) [2, 0, 1] = .ok [0, 1, 2]
    ∧ (TdotP.einTracedPos (permuted [0, 1, 2] (einOrder exS [0, 1, 2] [2, 0, 1])) [2, 0, 1]).any
        (fun js => js.length != 2) = false := by decide +kernel

end SymmModel.C09
