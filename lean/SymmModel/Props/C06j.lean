/-
  C06 (tenth part) — FERMIONIC: free-leg groups fused on the RIGHT operand, and on BOTH operands,
  before the contraction (blockwise mode, weak guard `tdotAdmissibleCommonB`, pending phases and
  labels arbitrary, labels of the two operands pairwise distinct, commutative scalars — the
  hypotheses of C04 S5).

  Route (as planned in C06e's "NOT proved" list): the one-sided theorem
  `tensordot_fuse_free_commute_fermionic` (leading free legs of the LEFT operand) is applied to the
  call with the operands exchanged, and C04 S5 (`tdotF_swap_weak`: exchanging the operands = value at
  the address with the two free parts exchanged times the Koszul sign of the rotation) carries the
  statement to the right operand and back.

  * `tensordot_fuse_free_commute_fermionic_right`: `bF = fuseF(b, [0 … k-1])` (the leading legs of
    `b` are free).  `fuseF(b)`, the exchanged call `c' = tensordotF(b, a)` (S5: labels, charge, kind
    of `c`, elements = Koszul sign × elements of `c` with the free parts exchanged — i.e. `c'` is the
    fermionic transpose of `c` that brings `b`'s free legs to the front), `fuseF(c', [0 … k-1])` and
    `cP = tensordotF(a, bF)` all succeed, and
      `cP[L ++ c0 :: restR] = koszul(exchange of (c0 :: restR) and L) · fuseF(c')[c2 :: restR ++ L]`
    whenever `c0` (table of `bF`) and `c2` (table of `fuseF(c')`) decode to the same `(S, O)`.
    All signs are included: the fuse signs of C05 (`signAdj`) on both sides, the Koszul / nesting /
    label-sort signs and pending phases of the three contractions.
  * `tensordot_fuse_free_commute_fermionic_two_sided`: `aF = fuseF(a, [0 … ka-1])`,
    `bF = fuseF(b, [0 … kb-1])`, `cPP = tensordotF(aF, bF)`.  Everything succeeds;
      (i)  `cPP[c0a :: restL ++ c0b :: restR] = fuseF(cP, [0 … ka-1])[c2a :: restL ++ c0b :: restR]`
           with `cP = tensordotF(a, bF)` (left group fused AFTER the contraction),
      (ii) `cP[Sa ++ restL ++ c0b :: restR] = koszul · fuseF(c', [0 … kb-1])[c2b :: restR ++ Sa ++ restL]`
           (right group fused AFTER the contraction, on the operand-exchanged result `c'`),
      (iii) the closed form: `cPP[…] =` fuse sign of the left group (`fuseSignT cP`) × Koszul sign of
           the exchange × fuse sign of the right group (`fuseSignT c'`) × Koszul sign of the exchange
           back × `c[Sa ++ restL ++ Sb ++ restR]` — the element of the PLAIN result
           `c = tensordotF(a, b)` at the decoded address.
  * `fuseF_leading_fields`: labels, symmetry, kind, charge, rank and index list of
    `fuseF(a, [0 … k-1])`; `fuseF_leading_admissible[_right]`: the pre-fused operand satisfies the
    weak guard again (contracted axes renumbered by `sh k`).

  Address hypotheses of the element statements: every one is a decidable "the address lies inside
  the tables" condition (of `cP` / `c'` via `blockShape?`, of the operands via `blockShapeD` as in
  S5) plus the lengths of the address parts.  They are jointly satisfiable: see the examples (all
  routes computed for `gA`, `jB`).

  * `tensordot_fuse_free_commute_fermionic_two_sided_any_mode`: the closed form (iii) with the
    plain contraction `cm = tensordotF(a, b)` in mode `m1` and the contraction of the two pre-fused
    operands in mode `m2` (each blockwise / fused / auto; padding transfer `TdotP.call_any`,
    `TdotP.pad_elem_big`); one more address hypothesis (inside the tables of the two fused operands).
    The decoders and the two fuse signs are still those of the BLOCKWISE intermediate results
    `cP`, `c'` (which exist).
  * `fuseSignT_leading_result`: the C05 fuse sign of the leading group `[0 … k-1]` of the left
    operand and of the contraction result (any mode) agree (the leading legs keep directions and
    charges); `tensordot_fuse_free_commute_fermionic_two_sided_signs`: the any-mode closed form
    with the two fuse signs those of the OPERANDS `a` (at `Sa`) and `b` (at `Sb`):
      `cPP[c0a :: restL ++ c0b :: restR] = fuseSign_a(Sa) · koszul(exchange) · fuseSign_b(Sb)
          · koszul(exchange back) · c[Sa ++ restL ++ Sb ++ restR]`.

  NOT proved here (PLANNED): (i)/(ii) with the intermediate calls `cP`, `c'` themselves in
  fused / auto mode;
  the post-fused side expressed with ONE call `fuseF(c, [[0 … ka-1], [nL … nL+kb-1]])` on the plain
  result (needs the fermionic fuse of a non-leading group = transposeF ∘ fuse of the leading group,
  C05/C07).
-/
import SymmModel.Props.C06e
import SymmModel.Props.C04g
import SymmModel.Proofs.FuseCommuteJ4

namespace SymmModel.C06
open SymmModel SymmModel.TdotP SymmModel.GradedP SymmModel.RoutesP SymmModel.AssocP
open SymmModel.Assoc3P SymmModel.Assoc4P
open SymmModel.Lazy (sgnI)

variable {R : Type}

/-- **fuseF_leading_fields**: fields of the fermionic fuse of the leading legs. -/
theorem fuseF_leading_fields [AddCommMonoid R] [Mul R] [Neg R] [SignRing R] (a : Arr R) {k : Nat}
    (hv : a.validB = true) (hf : a.fermi = true) (h1 : 1 ≤ k) (h2 : k ≤ a.ndim) :
    (FuseP.fusedArrM (FuseP.signAdj a [List.range k]) [List.range k]).oddpos = a.oddpos
    ∧ (FuseP.fusedArrM (FuseP.signAdj a [List.range k]) [List.range k]).sym = a.sym
    ∧ (FuseP.fusedArrM (FuseP.signAdj a [List.range k]) [List.range k]).fermi = true
    ∧ (FuseP.fusedArrM (FuseP.signAdj a [List.range k]) [List.range k]).charge = a.charge
    ∧ (FuseP.fusedArrM (FuseP.signAdj a [List.range k]) [List.range k]).ndim = 1 + (a.ndim - k)
    ∧ (FuseP.fusedArrM (FuseP.signAdj a [List.range k]) [List.range k]).indices
        = FuseP.ixM (FuseP.signAdj a [List.range k]) [List.range k] 0 :: a.indices.drop k :=
  fuse_lead_fields a hv hf h1 h2

/-- **fuseF_leading_admissible**: the pre-fused LEFT operand passes the weak guard again. -/
theorem fuseF_leading_admissible [AddCommMonoid R] [Mul R] [Neg R] [SignRing R] (a b : Arr R)
    (xa xb : List Nat) (k : Nat)
    (ha : a.validB = true) (hb : b.validB = true) (hfa : a.fermi = true) (hfb : b.fermi = true)
    (hadm : tdotAdmissibleCommonB a b xa xb = true)
    (hk1 : 1 ≤ k) (hk : k ≤ a.ndim) (hxa : ∀ x ∈ xa, k ≤ x) :
    tdotAdmissibleCommonB (FuseP.fusedArrM (FuseP.signAdj a [List.range k]) [List.range k]) b
      (xa.map (sh k)) xb = true :=
  admB_of_admW (admW_fuse_lead (AdmW.of ha hb hfa hfb hadm) k false hk1 hk hxa)

/-- **fuseF_leading_admissible_right**: the pre-fused RIGHT operand passes the weak guard again. -/
theorem fuseF_leading_admissible_right [AddCommMonoid R] [Mul R] [Neg R] [SignRing R] (a b : Arr R)
    (xa xb : List Nat) (k : Nat)
    (ha : a.validB = true) (hb : b.validB = true) (hfa : a.fermi = true) (hfb : b.fermi = true)
    (hadm : tdotAdmissibleCommonB a b xa xb = true)
    (hk1 : 1 ≤ k) (hk : k ≤ b.ndim) (hxb : ∀ x ∈ xb, k ≤ x) :
    tdotAdmissibleCommonB a (FuseP.fusedArrM (FuseP.signAdj b [List.range k]) [List.range k])
      xa (xb.map (sh k)) = true :=
  admB_of_admW (admW_fuse_lead_right (AdmW.of ha hb hfa hfb hadm) k false hk1 hk hxb)

/-- **tensordot_fuse_free_commute_fermionic_right** (see the file header). -/
theorem tensordot_fuse_free_commute_fermionic_right [AddCommMonoid R] [Mul R] [Neg R] [SignRing R]
    (hz1 : ∀ x : R, 0 * x = 0) (hz2 : ∀ x : R, x * 0 = 0) (hmul : ∀ x y : R, x * y = y * x)
    (a b c : Arr R) (xa xb : List Nat) (k : Nat) (e : Bool)
    (ha : a.validB = true) (hb : b.validB = true) (hfa : a.fermi = true) (hfb : b.fermi = true)
    (hadm : tdotAdmissibleCommonB a b xa xb = true)
    (hd : (a.oddpos ++ b.oddpos).Pairwise (fun x y => x.1 ≠ y.1))
    (hk1 : 1 ≤ k) (hk : k ≤ b.ndim) (hxb : ∀ x ∈ xb, k ≤ x)
    (hc : a.tensordotF b (.pair (xa.map Int.ofNat) (xb.map Int.ofNat)) .blockwise = .ok c) :
    b.fuseF [List.range k] .insert e
        = .ok (FuseP.fusedArrM (FuseP.signAdj b [List.range k]) [List.range k])
    ∧ ∃ c', b.tensordotF a (.pair (xb.map Int.ofNat) (xa.map Int.ofNat)) .blockwise = .ok c'
      ∧ c'.oddpos = c.oddpos ∧ c'.charge = c.charge ∧ c'.sym = c.sym ∧ c'.fermi = c.fermi
      ∧ (∀ (L Rr : Sector) (oL oR : List Nat), L.length = (freeAxes a.ndim xa).length →
          Rr.length = (freeAxes b.ndim xb).length → oL.length = (freeAxes a.ndim xa).length →
          oR.length = (freeAxes b.ndim xb).length →
          inBox (Arr.blockShapeD (without a.indices xa ++ without b.indices xb) (L ++ Rr))
            (oL ++ oR) = true →
          c'.elem (Rr ++ L) (oR ++ oL)
            = sgnI (koszul ((L ++ Rr).map a.sym.parity)
                (some ((List.range Rr.length).map (L.length + ·) ++ List.range L.length)))
                (c.elem (L ++ Rr) (oL ++ oR)))
      ∧ c'.fuseF [List.range k] .insert e
          = .ok (FuseP.fusedArrM (FuseP.signAdj c' [List.range k]) [List.range k])
      ∧ k ≤ c'.ndim
      ∧ ∃ cP, a.tensordotF (FuseP.fusedArrM (FuseP.signAdj b [List.range k]) [List.range k])
            (.pair (xa.map Int.ofNat) ((xb.map (sh k)).map Int.ofNat)) .blockwise = .ok cP
        ∧ ∀ (c0 c2 : Charge) (i0 d0 i2 d2 : Nat) (S restR L : Sector) (O orestR oL shp : List Nat),
          decAx (FuseP.signAdj b [List.range k]) [List.range k] 0 c0 i0 = some (S, O) →
          (FuseP.ixM (FuseP.signAdj b [List.range k]) [List.range k] 0).sizeOf? c0 = some d0 → i0 < d0 →
          decAx (FuseP.signAdj c' [List.range k]) [List.range k] 0 c2 i2 = some (S, O) →
          (FuseP.ixM (FuseP.signAdj c' [List.range k]) [List.range k] 0).sizeOf? c2 = some d2 → i2 < d2 →
          Arr.blockShape? (c'.indices.drop k) (restR ++ L) = some shp → inBox shp (orestR ++ oL) = true →
          L.length = (freeAxes a.ndim xa).length → oL.length = (freeAxes a.ndim xa).length →
          restR.length + 1 = (freeAxes (1 + (b.ndim - k)) (xb.map (sh k))).length →
          orestR.length = restR.length →
          inBox (Arr.blockShapeD
              (without (FuseP.fusedArrM (FuseP.signAdj b [List.range k]) [List.range k]).indices
                  (xb.map (sh k)) ++ without a.indices xa) ((c0 :: restR) ++ L))
            ((i0 :: orestR) ++ oL) = true →
          cP.elem (L ++ c0 :: restR) (oL ++ i0 :: orestR)
            = sgnI (koszul (((c0 :: restR) ++ L).map a.sym.parity)
                (some ((List.range L.length).map ((restR.length + 1) + ·)
                  ++ List.range (restR.length + 1))))
                ((FuseP.fusedArrM (FuseP.signAdj c' [List.range k]) [List.range k]).elem
                  (c2 :: (restR ++ L)) (i2 :: (orestR ++ oL))) :=
  lead_commute_fermi_right hz1 hz2 hmul a b c xa xb k e ha hb hfa hfb hadm hd hk1 hk hxb hc

/-- **tensordot_fuse_free_commute_fermionic_two_sided** (see the file header). -/
theorem tensordot_fuse_free_commute_fermionic_two_sided [AddCommMonoid R] [Mul R] [Neg R] [SignRing R]
    (hz1 : ∀ x : R, 0 * x = 0) (hz2 : ∀ x : R, x * 0 = 0) (hmul : ∀ x y : R, x * y = y * x)
    (a b c : Arr R) (xa xb : List Nat) (ka kb : Nat) (e : Bool)
    (ha : a.validB = true) (hb : b.validB = true) (hfa : a.fermi = true) (hfb : b.fermi = true)
    (hadm : tdotAdmissibleCommonB a b xa xb = true)
    (hd : (a.oddpos ++ b.oddpos).Pairwise (fun x y => x.1 ≠ y.1))
    (hka1 : 1 ≤ ka) (hka : ka ≤ a.ndim) (hxa : ∀ x ∈ xa, ka ≤ x)
    (hkb1 : 1 ≤ kb) (hkb : kb ≤ b.ndim) (hxb : ∀ x ∈ xb, kb ≤ x)
    (hc : a.tensordotF b (.pair (xa.map Int.ofNat) (xb.map Int.ofNat)) .blockwise = .ok c) :
    a.fuseF [List.range ka] .insert e
        = .ok (FuseP.fusedArrM (FuseP.signAdj a [List.range ka]) [List.range ka])
    ∧ b.fuseF [List.range kb] .insert e
        = .ok (FuseP.fusedArrM (FuseP.signAdj b [List.range kb]) [List.range kb])
    ∧ ∃ c' cP cPP,
      b.tensordotF a (.pair (xb.map Int.ofNat) (xa.map Int.ofNat)) .blockwise = .ok c'
      ∧ a.tensordotF (FuseP.fusedArrM (FuseP.signAdj b [List.range kb]) [List.range kb])
          (.pair (xa.map Int.ofNat) ((xb.map (sh kb)).map Int.ofNat)) .blockwise = .ok cP
      ∧ (FuseP.fusedArrM (FuseP.signAdj a [List.range ka]) [List.range ka]).tensordotF
          (FuseP.fusedArrM (FuseP.signAdj b [List.range kb]) [List.range kb])
          (.pair ((xa.map (sh ka)).map Int.ofNat) ((xb.map (sh kb)).map Int.ofNat)) .blockwise = .ok cPP
      ∧ c'.fuseF [List.range kb] .insert e
          = .ok (FuseP.fusedArrM (FuseP.signAdj c' [List.range kb]) [List.range kb])
      ∧ cP.fuseF [List.range ka] .insert e
          = .ok (FuseP.fusedArrM (FuseP.signAdj cP [List.range ka]) [List.range ka])
      ∧ kb ≤ c'.ndim ∧ ka ≤ cP.ndim
      ∧ c'.oddpos = c.oddpos ∧ c'.charge = c.charge
      ∧ ∀ (c0a c2a c0b c2b : Charge) (i0a d0a i2a d2a i0b d0b i2b d2b : Nat)
          (Sa Sb restL restR : Sector) (Oa Ob orestL orestR shp1 shp2 : List Nat),
        -- the left fused position
        decAx (FuseP.signAdj a [List.range ka]) [List.range ka] 0 c0a i0a = some (Sa, Oa) →
        (FuseP.ixM (FuseP.signAdj a [List.range ka]) [List.range ka] 0).sizeOf? c0a = some d0a →
        i0a < d0a →
        decAx (FuseP.signAdj cP [List.range ka]) [List.range ka] 0 c2a i2a = some (Sa, Oa) →
        (FuseP.ixM (FuseP.signAdj cP [List.range ka]) [List.range ka] 0).sizeOf? c2a = some d2a →
        i2a < d2a →
        -- the right fused position
        decAx (FuseP.signAdj b [List.range kb]) [List.range kb] 0 c0b i0b = some (Sb, Ob) →
        (FuseP.ixM (FuseP.signAdj b [List.range kb]) [List.range kb] 0).sizeOf? c0b = some d0b →
        i0b < d0b →
        decAx (FuseP.signAdj c' [List.range kb]) [List.range kb] 0 c2b i2b = some (Sb, Ob) →
        (FuseP.ixM (FuseP.signAdj c' [List.range kb]) [List.range kb] 0).sizeOf? c2b = some d2b →
        i2b < d2b →
        -- the rest of the address lies inside the tables of `cP` resp. `c'`
        Arr.blockShape? (cP.indices.drop ka) (restL ++ c0b :: restR) = some shp1 →
        inBox shp1 (orestL ++ i0b :: orestR) = true →
        Arr.blockShape? (c'.indices.drop kb) (restR ++ (Sa ++ restL)) = some shp2 →
        inBox shp2 (orestR ++ (Oa ++ orestL)) = true →
        -- lengths
        (Sa ++ restL).length = (freeAxes a.ndim xa).length →
        (Oa ++ orestL).length = (freeAxes a.ndim xa).length →
        restR.length + 1 = (freeAxes (1 + (b.ndim - kb)) (xb.map (sh kb))).length →
        orestR.length = restR.length →
        (Sb ++ restR).length = (freeAxes b.ndim xb).length →
        (Ob ++ orestR).length = (freeAxes b.ndim xb).length →
        -- the addresses lie inside the operands' tables
        inBox (Arr.blockShapeD
            (without (FuseP.fusedArrM (FuseP.signAdj b [List.range kb]) [List.range kb]).indices
                (xb.map (sh kb)) ++ without a.indices xa) ((c0b :: restR) ++ (Sa ++ restL)))
          ((i0b :: orestR) ++ (Oa ++ orestL)) = true →
        inBox (Arr.blockShapeD (without a.indices xa ++ without b.indices xb)
            ((Sa ++ restL) ++ (Sb ++ restR))) ((Oa ++ orestL) ++ (Ob ++ orestR)) = true →
        cPP.elem (c0a :: (restL ++ c0b :: restR)) (i0a :: (orestL ++ i0b :: orestR))
          = (FuseP.fusedArrM (FuseP.signAdj cP [List.range ka]) [List.range ka]).elem
              (c2a :: (restL ++ c0b :: restR)) (i2a :: (orestL ++ i0b :: orestR))
        ∧ cP.elem ((Sa ++ restL) ++ c0b :: restR) ((Oa ++ orestL) ++ i0b :: orestR)
          = sgnI (koszul (((c0b :: restR) ++ (Sa ++ restL)).map a.sym.parity)
                (some ((List.range (Sa ++ restL).length).map ((restR.length + 1) + ·)
                  ++ List.range (restR.length + 1))))
              ((FuseP.fusedArrM (FuseP.signAdj c' [List.range kb]) [List.range kb]).elem
                (c2b :: (restR ++ (Sa ++ restL))) (i2b :: (orestR ++ (Oa ++ orestL))))
        ∧ cPP.elem (c0a :: (restL ++ c0b :: restR)) (i0a :: (orestL ++ i0b :: orestR))
          = sgnI (FuseP.fuseSignT cP [List.range ka] (Sa ++ (restL ++ c0b :: restR)))
             (sgnI (koszul (((c0b :: restR) ++ (Sa ++ restL)).map a.sym.parity)
                (some ((List.range (Sa ++ restL).length).map ((restR.length + 1) + ·)
                  ++ List.range (restR.length + 1))))
              (sgnI (FuseP.fuseSignT c' [List.range kb] (Sb ++ (restR ++ (Sa ++ restL))))
               (sgnI (koszul (((Sa ++ restL) ++ (Sb ++ restR)).map a.sym.parity)
                  (some ((List.range (Sb ++ restR).length).map ((Sa ++ restL).length + ·)
                    ++ List.range (Sa ++ restL).length)))
                (c.elem ((Sa ++ restL) ++ (Sb ++ restR)) ((Oa ++ orestL) ++ (Ob ++ orestR)))))) :=
  lead_commute_fermi_two hz1 hz2 hmul a b c xa xb ka kb e ha hb hfa hfb hadm hd hka1 hka hxa
    hkb1 hkb hxb hc

/-- **tensordot_fuse_free_commute_fermionic_two_sided_any_mode** (see the file header). -/
theorem tensordot_fuse_free_commute_fermionic_two_sided_any_mode [AddCommMonoid R] [Mul R] [Neg R] [SignRing R]
    (hz1 : ∀ x : R, 0 * x = 0) (hz2 : ∀ x : R, x * 0 = 0) (hmul : ∀ x y : R, x * y = y * x)
    (a b cm : Arr R) (xa xb : List Nat) (ka kb : Nat) (e : Bool) (m1 m2 : TdotMode)
    (ha : a.validB = true) (hb : b.validB = true) (hfa : a.fermi = true) (hfb : b.fermi = true)
    (hadm : tdotAdmissibleCommonB a b xa xb = true)
    (hd : (a.oddpos ++ b.oddpos).Pairwise (fun x y => x.1 ≠ y.1))
    (hka1 : 1 ≤ ka) (hka : ka ≤ a.ndim) (hxa : ∀ x ∈ xa, ka ≤ x)
    (hkb1 : 1 ≤ kb) (hkb : kb ≤ b.ndim) (hxb : ∀ x ∈ xb, kb ≤ x)
    (hcm : a.tensordotF b (.pair (xa.map Int.ofNat) (xb.map Int.ofNat)) m1 = .ok cm) :
    a.fuseF [List.range ka] .insert e
        = .ok (FuseP.fusedArrM (FuseP.signAdj a [List.range ka]) [List.range ka])
    ∧ b.fuseF [List.range kb] .insert e
        = .ok (FuseP.fusedArrM (FuseP.signAdj b [List.range kb]) [List.range kb])
    ∧ ∃ c' cP cPPm,
      b.tensordotF a (.pair (xb.map Int.ofNat) (xa.map Int.ofNat)) .blockwise = .ok c'
      ∧ a.tensordotF (FuseP.fusedArrM (FuseP.signAdj b [List.range kb]) [List.range kb])
          (.pair (xa.map Int.ofNat) ((xb.map (sh kb)).map Int.ofNat)) .blockwise = .ok cP
      ∧ (FuseP.fusedArrM (FuseP.signAdj a [List.range ka]) [List.range ka]).tensordotF
          (FuseP.fusedArrM (FuseP.signAdj b [List.range kb]) [List.range kb])
          (.pair ((xa.map (sh ka)).map Int.ofNat) ((xb.map (sh kb)).map Int.ofNat)) m2 = .ok cPPm
      ∧ c'.fuseF [List.range kb] .insert e
          = .ok (FuseP.fusedArrM (FuseP.signAdj c' [List.range kb]) [List.range kb])
      ∧ cP.fuseF [List.range ka] .insert e
          = .ok (FuseP.fusedArrM (FuseP.signAdj cP [List.range ka]) [List.range ka])
      ∧ kb ≤ c'.ndim ∧ ka ≤ cP.ndim
      ∧ ∀ (c0a c2a c0b c2b : Charge) (i0a d0a i2a d2a i0b d0b i2b d2b : Nat)
          (Sa Sb restL restR : Sector) (Oa Ob orestL orestR shp1 shp2 : List Nat),
        -- the left fused position
        decAx (FuseP.signAdj a [List.range ka]) [List.range ka] 0 c0a i0a = some (Sa, Oa) →
        (FuseP.ixM (FuseP.signAdj a [List.range ka]) [List.range ka] 0).sizeOf? c0a = some d0a →
        i0a < d0a →
        decAx (FuseP.signAdj cP [List.range ka]) [List.range ka] 0 c2a i2a = some (Sa, Oa) →
        (FuseP.ixM (FuseP.signAdj cP [List.range ka]) [List.range ka] 0).sizeOf? c2a = some d2a →
        i2a < d2a →
        -- the right fused position
        decAx (FuseP.signAdj b [List.range kb]) [List.range kb] 0 c0b i0b = some (Sb, Ob) →
        (FuseP.ixM (FuseP.signAdj b [List.range kb]) [List.range kb] 0).sizeOf? c0b = some d0b →
        i0b < d0b →
        decAx (FuseP.signAdj c' [List.range kb]) [List.range kb] 0 c2b i2b = some (Sb, Ob) →
        (FuseP.ixM (FuseP.signAdj c' [List.range kb]) [List.range kb] 0).sizeOf? c2b = some d2b →
        i2b < d2b →
        -- the rest of the address lies inside the tables of `cP` resp. `c'`
        Arr.blockShape? (cP.indices.drop ka) (restL ++ c0b :: restR) = some shp1 →
        inBox shp1 (orestL ++ i0b :: orestR) = true →
        Arr.blockShape? (c'.indices.drop kb) (restR ++ (Sa ++ restL)) = some shp2 →
        inBox shp2 (orestR ++ (Oa ++ orestL)) = true →
        -- lengths
        (Sa ++ restL).length = (freeAxes a.ndim xa).length →
        (Oa ++ orestL).length = (freeAxes a.ndim xa).length →
        restR.length + 1 = (freeAxes (1 + (b.ndim - kb)) (xb.map (sh kb))).length →
        orestR.length = restR.length →
        (Sb ++ restR).length = (freeAxes b.ndim xb).length →
        (Ob ++ orestR).length = (freeAxes b.ndim xb).length →
        -- the addresses lie inside the operands' tables
        inBox (Arr.blockShapeD
            (without (FuseP.fusedArrM (FuseP.signAdj b [List.range kb]) [List.range kb]).indices
                (xb.map (sh kb)) ++ without a.indices xa) ((c0b :: restR) ++ (Sa ++ restL)))
          ((i0b :: orestR) ++ (Oa ++ orestL)) = true →
        inBox (Arr.blockShapeD (without a.indices xa ++ without b.indices xb)
            ((Sa ++ restL) ++ (Sb ++ restR))) ((Oa ++ orestL) ++ (Ob ++ orestR)) = true →
        -- the address of the pre-fused contraction lies inside the tables of the fused operands
        inBox (Arr.blockShapeD
            (without (FuseP.fusedArrM (FuseP.signAdj a [List.range ka]) [List.range ka]).indices
                (xa.map (sh ka))
              ++ without (FuseP.fusedArrM (FuseP.signAdj b [List.range kb]) [List.range kb]).indices
                (xb.map (sh kb))) (c0a :: (restL ++ c0b :: restR)))
          (i0a :: (orestL ++ i0b :: orestR)) = true →
        cPPm.elem (c0a :: (restL ++ c0b :: restR)) (i0a :: (orestL ++ i0b :: orestR))
          = sgnI (FuseP.fuseSignT cP [List.range ka] (Sa ++ (restL ++ c0b :: restR)))
             (sgnI (koszul (((c0b :: restR) ++ (Sa ++ restL)).map a.sym.parity)
                (some ((List.range (Sa ++ restL).length).map ((restR.length + 1) + ·)
                  ++ List.range (restR.length + 1))))
              (sgnI (FuseP.fuseSignT c' [List.range kb] (Sb ++ (restR ++ (Sa ++ restL))))
               (sgnI (koszul (((Sa ++ restL) ++ (Sb ++ restR)).map a.sym.parity)
                  (some ((List.range (Sb ++ restR).length).map ((Sa ++ restL).length + ·)
                    ++ List.range (Sa ++ restL).length)))
                (cm.elem ((Sa ++ restL) ++ (Sb ++ restR)) ((Oa ++ orestL) ++ (Ob ++ orestR)))))) :=
  lead_commute_fermi_two_modes hz1 hz2 hmul a b cm xa xb ka kb e m1 m2 ha hb hfa hfb hadm hd hka1 hka hxa
    hkb1 hkb hxb hcm

/-- **fuseSignT_leading_result**: operand and contraction result (any mode) carry the same fuse
    sign on the leading free legs of the left operand. -/
theorem fuseSignT_leading_result [AddCommMonoid R] [Mul R] [Neg R] [SignRing R]
    (hz1 : ∀ x : R, 0 * x = 0) (hz2 : ∀ x : R, x * 0 = 0) (a b c : Arr R) (xa xb : List Nat)
    (mode : TdotMode) (k : Nat)
    (ha : a.validB = true) (hb : b.validB = true) (hfa : a.fermi = true) (hfb : b.fermi = true)
    (hadm : tdotAdmissibleCommonB a b xa xb = true)
    (hk1 : 1 ≤ k) (hk : k ≤ a.ndim) (hxa : ∀ x ∈ xa, k ≤ x)
    (hc : a.tensordotF b (.pair (xa.map Int.ofNat) (xb.map Int.ofNat)) mode = .ok c)
    (T T' : Sector) (hT : T.take k = T'.take k) :
    FuseP.fuseSignT a [List.range k] T = FuseP.fuseSignT c [List.range k] T' :=
  fuseSignT_lead_result hz1 hz2 (AdmW.of ha hb hfa hfb hadm) mode c k hk1 hk hxa hc hT

/-- **tensordot_fuse_free_commute_fermionic_two_sided_signs** (see the file header). -/
theorem tensordot_fuse_free_commute_fermionic_two_sided_signs [AddCommMonoid R] [Mul R] [Neg R] [SignRing R]
    (hz1 : ∀ x : R, 0 * x = 0) (hz2 : ∀ x : R, x * 0 = 0) (hmul : ∀ x y : R, x * y = y * x)
    (a b cm : Arr R) (xa xb : List Nat) (ka kb : Nat) (e : Bool) (m1 m2 : TdotMode)
    (ha : a.validB = true) (hb : b.validB = true) (hfa : a.fermi = true) (hfb : b.fermi = true)
    (hadm : tdotAdmissibleCommonB a b xa xb = true)
    (hd : (a.oddpos ++ b.oddpos).Pairwise (fun x y => x.1 ≠ y.1))
    (hka1 : 1 ≤ ka) (hka : ka ≤ a.ndim) (hxa : ∀ x ∈ xa, ka ≤ x)
    (hkb1 : 1 ≤ kb) (hkb : kb ≤ b.ndim) (hxb : ∀ x ∈ xb, kb ≤ x)
    (hcm : a.tensordotF b (.pair (xa.map Int.ofNat) (xb.map Int.ofNat)) m1 = .ok cm) :
    a.fuseF [List.range ka] .insert e
        = .ok (FuseP.fusedArrM (FuseP.signAdj a [List.range ka]) [List.range ka])
    ∧ b.fuseF [List.range kb] .insert e
        = .ok (FuseP.fusedArrM (FuseP.signAdj b [List.range kb]) [List.range kb])
    ∧ ∃ c' cP cPPm,
      b.tensordotF a (.pair (xb.map Int.ofNat) (xa.map Int.ofNat)) .blockwise = .ok c'
      ∧ a.tensordotF (FuseP.fusedArrM (FuseP.signAdj b [List.range kb]) [List.range kb])
          (.pair (xa.map Int.ofNat) ((xb.map (sh kb)).map Int.ofNat)) .blockwise = .ok cP
      ∧ (FuseP.fusedArrM (FuseP.signAdj a [List.range ka]) [List.range ka]).tensordotF
          (FuseP.fusedArrM (FuseP.signAdj b [List.range kb]) [List.range kb])
          (.pair ((xa.map (sh ka)).map Int.ofNat) ((xb.map (sh kb)).map Int.ofNat)) m2 = .ok cPPm
      ∧ c'.fuseF [List.range kb] .insert e
          = .ok (FuseP.fusedArrM (FuseP.signAdj c' [List.range kb]) [List.range kb])
      ∧ cP.fuseF [List.range ka] .insert e
          = .ok (FuseP.fusedArrM (FuseP.signAdj cP [List.range ka]) [List.range ka])
      ∧ kb ≤ c'.ndim ∧ ka ≤ cP.ndim
      ∧ ∀ (c0a c2a c0b c2b : Charge) (i0a d0a i2a d2a i0b d0b i2b d2b : Nat)
          (Sa Sb restL restR : Sector) (Oa Ob orestL orestR shp1 shp2 : List Nat),
        -- the left fused position
        decAx (FuseP.signAdj a [List.range ka]) [List.range ka] 0 c0a i0a = some (Sa, Oa) →
        (FuseP.ixM (FuseP.signAdj a [List.range ka]) [List.range ka] 0).sizeOf? c0a = some d0a →
        i0a < d0a →
        decAx (FuseP.signAdj cP [List.range ka]) [List.range ka] 0 c2a i2a = some (Sa, Oa) →
        (FuseP.ixM (FuseP.signAdj cP [List.range ka]) [List.range ka] 0).sizeOf? c2a = some d2a →
        i2a < d2a →
        -- the right fused position
        decAx (FuseP.signAdj b [List.range kb]) [List.range kb] 0 c0b i0b = some (Sb, Ob) →
        (FuseP.ixM (FuseP.signAdj b [List.range kb]) [List.range kb] 0).sizeOf? c0b = some d0b →
        i0b < d0b →
        decAx (FuseP.signAdj c' [List.range kb]) [List.range kb] 0 c2b i2b = some (Sb, Ob) →
        (FuseP.ixM (FuseP.signAdj c' [List.range kb]) [List.range kb] 0).sizeOf? c2b = some d2b →
        i2b < d2b →
        -- the rest of the address lies inside the tables of `cP` resp. `c'`
        Arr.blockShape? (cP.indices.drop ka) (restL ++ c0b :: restR) = some shp1 →
        inBox shp1 (orestL ++ i0b :: orestR) = true →
        Arr.blockShape? (c'.indices.drop kb) (restR ++ (Sa ++ restL)) = some shp2 →
        inBox shp2 (orestR ++ (Oa ++ orestL)) = true →
        -- lengths
        (Sa ++ restL).length = (freeAxes a.ndim xa).length →
        (Oa ++ orestL).length = (freeAxes a.ndim xa).length →
        restR.length + 1 = (freeAxes (1 + (b.ndim - kb)) (xb.map (sh kb))).length →
        orestR.length = restR.length →
        (Sb ++ restR).length = (freeAxes b.ndim xb).length →
        (Ob ++ orestR).length = (freeAxes b.ndim xb).length →
        -- the addresses lie inside the operands' tables
        inBox (Arr.blockShapeD
            (without (FuseP.fusedArrM (FuseP.signAdj b [List.range kb]) [List.range kb]).indices
                (xb.map (sh kb)) ++ without a.indices xa) ((c0b :: restR) ++ (Sa ++ restL)))
          ((i0b :: orestR) ++ (Oa ++ orestL)) = true →
        inBox (Arr.blockShapeD (without a.indices xa ++ without b.indices xb)
            ((Sa ++ restL) ++ (Sb ++ restR))) ((Oa ++ orestL) ++ (Ob ++ orestR)) = true →
        -- the address of the pre-fused contraction lies inside the tables of the fused operands
        inBox (Arr.blockShapeD
            (without (FuseP.fusedArrM (FuseP.signAdj a [List.range ka]) [List.range ka]).indices
                (xa.map (sh ka))
              ++ without (FuseP.fusedArrM (FuseP.signAdj b [List.range kb]) [List.range kb]).indices
                (xb.map (sh kb))) (c0a :: (restL ++ c0b :: restR)))
          (i0a :: (orestL ++ i0b :: orestR)) = true →
        cPPm.elem (c0a :: (restL ++ c0b :: restR)) (i0a :: (orestL ++ i0b :: orestR))
          = sgnI (FuseP.fuseSignT a [List.range ka] (Sa ++ restL))
             (sgnI (koszul (((c0b :: restR) ++ (Sa ++ restL)).map a.sym.parity)
                (some ((List.range (Sa ++ restL).length).map ((restR.length + 1) + ·)
                  ++ List.range (restR.length + 1))))
              (sgnI (FuseP.fuseSignT b [List.range kb] (Sb ++ restR))
               (sgnI (koszul (((Sa ++ restL) ++ (Sb ++ restR)).map a.sym.parity)
                  (some ((List.range (Sb ++ restR).length).map ((Sa ++ restL).length + ·)
                    ++ List.range (Sa ++ restL).length)))
                (cm.elem ((Sa ++ restL) ++ (Sb ++ restR)) ((Oa ++ orestL) ++ (Ob ++ orestR)))))) :=
  lead_commute_fermi_two_signs hz1 hz2 hmul a b cm xa xb ka kb e m1 m2 ha hb hfa hfb hadm hd hka1 hka hxa
    hkb1 hkb hxb hcm

/-! ### non-vacuity and sanity -/

open SymmModel.C03 in
/-- `b[i',k',l']`: the legs of `C03.gA` with the opposite directions; odd charge; label 7 (dual);
    pending sign on `(0,1,0)` -/
def jB : Arr Int :=
  { sym := .Z2, fermi := true, indices := [ixi true, ixk false, ixk true], charge := (1, 0),
    blocks := [([(1,0),(0,0),(0,0)], mkB [1,1,1] 3), ([(0,0),(1,0),(0,0)], mkB [2,2,1] (-1)),
               ([(0,0),(0,0),(1,0)], mkB [2,1,2] 2), ([(1,0),(1,0),(1,0)], mkB [1,2,2] (-5))],
    phases := [([(0,0),(1,0),(0,0)], -1)], oddpos := [(7, true)] }

-- the operand hypotheses of both theorems: `gA[i,k,l]` with `jB[i',k',l']` over `l, l'`; the two
-- leading legs of each operand are free
example : C03.gA.validB = true ∧ jB.validB = true ∧ C03.gA.fermi = true ∧ jB.fermi = true
    ∧ tdotAdmissibleCommonB C03.gA jB [2] [2] = true
    ∧ (2 : Nat) ≤ C03.gA.ndim ∧ (2 : Nat) ≤ jB.ndim ∧ (∀ x ∈ ([2] : List Nat), 2 ≤ x)
    ∧ ([2] : List Nat).map (sh 2) = [1]
    ∧ (C03.gA.tensordotF jB (.pair [2] [2]) .blockwise).toBool = true := by decide +kernel

example : (C03.gA.oddpos ++ jB.oddpos).Pairwise (fun x y => x.1 ≠ y.1) := by
  simp [C03.gA, jB]

example : ∀ x y : Int, x * y = y * x := Int.mul_comm

-- sanity: pre-fusing both operands gives exactly the stored values (pending phases applied) and
-- labels of fusing both groups of the plain result afterwards — in one `fuseF` call and in two
example :
    (match C03.gA.fuseF [[0, 1]] .insert false, jB.fuseF [[0, 1]] .insert false,
        C03.gA.tensordotF jB (.pair [2] [2]) .blockwise with
     | .ok af, .ok bf, .ok c =>
        match af.tensordotF bf (.pair [1] [1]) .blockwise, c.fuseF [[0, 1], [2, 3]] .insert false,
            c.fuseF [[0, 1]] .insert false with
        | .ok cpp, .ok cq, .ok d =>
          (match d.fuseF [[1, 2]] .insert false with
           | .ok cq2 =>
              cpp.phaseSync.blocks.all (fun p =>
                (alookup cq.phaseSync.blocks p.1).map (·.data) == some p.2.data
                && (alookup cq2.phaseSync.blocks p.1).map (·.data) == some p.2.data)
              && cpp.blocks.length == cq.blocks.length && cpp.blocks.length == cq2.blocks.length
              && cpp.blocks.length == 2 && cpp.oddpos == cq.oddpos && cpp.oddpos == cq2.oddpos
           | _ => false)
        | _, _, _ => false
     | _, _, _ => false) = true := by decide +kernel

-- sanity for the right operand alone: `tensordotF(a, fuseF(b))` = `fuseF(c, [[2, 3]])`
example :
    (match jB.fuseF [[0, 1]] .insert false, C03.gA.tensordotF jB (.pair [2] [2]) .blockwise with
     | .ok bf, .ok c =>
        match C03.gA.tensordotF bf (.pair [2] [1]) .blockwise, c.fuseF [[2, 3]] .insert false with
        | .ok cp, .ok cq =>
          cp.phaseSync.blocks.all (fun p => (alookup cq.phaseSync.blocks p.1).map (·.data) == some p.2.data)
          && cp.blocks.length == cq.blocks.length && cp.blocks.length != 0 && cp.oddpos == cq.oddpos
        | _, _ => false
     | _, _ => false) = true := by decide +kernel

-- the ADDRESS hypotheses of `tensordot_fuse_free_commute_fermionic_two_sided` (and of `…_right`) are
-- jointly satisfiable: `ka = kb = 2`, `restL = restR = []`, fused positions `((1,0), 1)` on the left
-- (decoding to `Sa = [(0,0),(1,0)]`, `Oa = [0,1]`) and `((1,0), 4)` on the right (`Sb = [(1,0),(0,0)]`,
-- `Ob = [0,0]`); the element of `cPP` there is not zero
open SymmModel.C03 in
example :
    (let A2 := FuseP.signAdj gA [List.range 2]
     let B2 := FuseP.signAdj jB [List.range 2]
     let aF := FuseP.fusedArrM A2 [List.range 2]
     let bF := FuseP.fusedArrM B2 [List.range 2]
     let Sa : Sector := [(0,0),(1,0)]
     let Sb : Sector := [(1,0),(0,0)]
     match jB.tensordotF gA (.pair [2] [2]) .blockwise, gA.tensordotF bF (.pair [2] [1]) .blockwise,
        aF.tensordotF bF (.pair [1] [1]) .blockwise with
     | .ok c', .ok cP, .ok cPP =>
        decide (decAx A2 [List.range 2] 0 (1,0) 1 = some (Sa, [0,1]))
        && decide ((FuseP.ixM A2 [List.range 2] 0).sizeOf? (1,0) = some 5)
        && decide (decAx (FuseP.signAdj cP [List.range 2]) [List.range 2] 0 (1,0) 1 = some (Sa, [0,1]))
        && decide ((FuseP.ixM (FuseP.signAdj cP [List.range 2]) [List.range 2] 0).sizeOf? (1,0) = some 5)
        && decide (decAx B2 [List.range 2] 0 (1,0) 4 = some (Sb, [0,0]))
        && decide ((FuseP.ixM B2 [List.range 2] 0).sizeOf? (1,0) = some 5)
        && decide (decAx (FuseP.signAdj c' [List.range 2]) [List.range 2] 0 (1,0) 4 = some (Sb, [0,0]))
        && decide ((FuseP.ixM (FuseP.signAdj c' [List.range 2]) [List.range 2] 0).sizeOf? (1,0) = some 5)
        && decide (Arr.blockShape? (cP.indices.drop 2) ([] ++ [(1,0)]) = some [5])
        && inBox [5] ([] ++ [4])
        && decide (Arr.blockShape? (c'.indices.drop 2) ([] ++ (Sa ++ [])) = some [2,2])
        && inBox [2,2] ([] ++ ([0,1] ++ []))
        && decide ((Sa ++ []).length = (freeAxes gA.ndim [2]).length)
        && decide (([] : Sector).length + 1 = (freeAxes (1 + (jB.ndim - 2)) (([2] : List Nat).map (sh 2))).length)
        && decide ((Sb ++ []).length = (freeAxes jB.ndim [2]).length)
        && inBox (Arr.blockShapeD (without bF.indices (([2] : List Nat).map (sh 2)) ++ without gA.indices [2])
              (((1,0) :: []) ++ (Sa ++ []))) ((4 :: []) ++ ([0,1] ++ []))
        && inBox (Arr.blockShapeD (without gA.indices [2] ++ without jB.indices [2])
              ((Sa ++ []) ++ (Sb ++ []))) (([0,1] ++ []) ++ ([0,0] ++ []))
        && cPP.elem [(1,0),(1,0)] [1,4] != 0
     | _, _, _ => false) = true := by decide +kernel

-- the additional address hypothesis of the any-mode theorem at the same address
open SymmModel.C03 in
example :
    inBox (Arr.blockShapeD
        (without (FuseP.fusedArrM (FuseP.signAdj gA [List.range 2]) [List.range 2]).indices
            (([2] : List Nat).map (sh 2))
          ++ without (FuseP.fusedArrM (FuseP.signAdj jB [List.range 2]) [List.range 2]).indices
            (([2] : List Nat).map (sh 2))) ((1,0) :: ([] ++ (1,0) :: [])))
      (1 :: ([] ++ 4 :: [])) = true := by decide +kernel

-- sanity, fused / auto mode: up to all-zero blocks both routes store the same values
example :
    (match C03.gA.fuseF [[0, 1]] .insert false, jB.fuseF [[0, 1]] .insert false,
        C03.gA.tensordotF jB (.pair [2] [2]) .fused with
     | .ok af, .ok bf, .ok c =>
        match af.tensordotF bf (.pair [1] [1]) .auto, c.fuseF [[0, 1], [2, 3]] .insert false with
        | .ok cf, .ok cq =>
          cq.phaseSync.blocks.all (fun p => p.2.data.all (· == 0)
            || (alookup cf.phaseSync.blocks p.1).map (·.data) == some p.2.data)
          && cf.phaseSync.blocks.all (fun p => p.2.data.all (· == 0)
            || (alookup cq.phaseSync.blocks p.1).map (·.data) == some p.2.data)
          && cf.blocks.length != 0
        | _, _ => false
     | _, _, _ => false) = true := by decide +kernel

end SymmModel.C06
