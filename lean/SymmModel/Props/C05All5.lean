import SymmModel.Props.C05All4
import SymmModel.Props.C05g
