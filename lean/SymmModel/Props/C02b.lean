/-
  C02 (second part) — Abelian contraction equals dense contraction: the dense-level statement,
  trace, single-operand einsum, block shapes, matrix product, outer product.

  Theorems about `tensordotBlockwise`, `traceA`, `einsumA`, `matmulA` (`Model/Tdot.lean`) and
  `Arr.toDenseA` (`Model/Arr.lean`), for ABELIAN arrays, every symmetry / rank / sparsity pattern
  and every scalar type `R` (`[AddMonoid R]` for value views that only rewrite the model's left
  folds as sums; `[AddCommMonoid R]` plus `0 * x = 0 = x * 0` where sums are re-indexed from
  stored sectors / dense positions to charge tuples and offsets).

  Vocabulary (namespace `SymmModel.TdotP`, `Proofs/TdotMore.lean`):
  `tensordotUnpruned a b xa xb` = `tensordotBlockwise a b (freeAxes …) xa xb (freeAxes …)` with the
  index tables `without a.indices xa ++ without b.indices xb` (the free indices as they are;
  `tensordotBlockwise` additionally drops the charges that no block uses, which changes the dense
  shape but no stored value: `tensordotUnpruned_elem`).  `Located idx p sec off` = pointwise form
  of `Arr.locateAll`.  `diagSum a s` = `Σ_{i < min(d0,d1)} a.elem s [i,i]`.
  `einTraced/einSize/einIdx/einKeep/einPerm?` = the pieces of `Blk.einsumK` / `einsumA`.
-/
import SymmModel.Props.C02
import SymmModel.Props.C01
import SymmModel.Proofs.TdotMore

namespace SymmModel.C02
open SymmModel SymmModel.TdotP

variable {R : Type}

/-- no index has an empty charge table (`to_dense` raises otherwise; same as `C08.NoEmpty`) -/
abbrev NoEmpty (a : Arr R) : Prop := a.indices.any (fun ix => ix.cm.isEmpty) = false

/-! ## 3. the dense-level statement -/

/-- the stored values do not depend on the pruning of the result tables -/
theorem tensordotUnpruned_same_elem [Zero R] [Add R] [Mul R] [Neg R] (a b : Arr R) (xa xb : List Nat)
    (s : Sector) (o : List Nat) :
    (tensordotUnpruned a b xa xb).elem s o =
      (tensordotBlockwise a b (freeAxes a.ndim xa) xa xb (freeAxes b.ndim xb)).elem s o := rfl

/-- **tensordotBlockwise_toDense.**  For valid abelian operands whose contracted indices match
    (`contractibleB`: same charge table, opposite direction), distinct in-range axes and no empty
    charge table: densifying the blockwise contraction (with the un-pruned result tables, i.e.
    "placed into the charge sectors of the uncontracted indices") gives exactly
    `np.tensordot(a.to_dense(), b.to_dense(), axes)`. -/
theorem tensordotBlockwise_toDense [AddCommMonoid R] [Mul R] [Neg R]
    (hz1 : ∀ x : R, 0 * x = 0) (hz2 : ∀ x : R, x * 0 = 0) (a b : Arr R) (xa xb : List Nat)
    (ha : a.validB = true) (hb : b.validB = true) (hfa : a.fermi = false) (hfb : b.fermi = false)
    (hc : ValidP.contractibleB a b xa xb = true)
    (hnA : allDistinct xa = true) (hnB : allDistinct xb = true)
    (hA : xa.all (fun i => decide (i < a.ndim)) = true)
    (hB : xb.all (fun i => decide (i < b.ndim)) = true)
    (hea : NoEmpty a) (heb : NoEmpty b) :
    ∃ dA dB, a.toDenseA = .ok dA ∧ b.toDenseA = .ok dB ∧ dA.shape = a.shape ∧ dB.shape = b.shape ∧
      (tensordotUnpruned a b xa xb).toDenseA = .ok (dA.tensordotK dB xa xb) := by
  have hxa' : ∀ x ∈ xa, x < a.ndim := by simpa using hA
  have hxb' : ∀ x ∈ xb, x < b.ndim := by simpa using hB
  obtain ⟨hlen, hcm⟩ := cm_eq_of_contractibleB hc hxa' hxb'
  exact tensordotUnpruned_toDense hz1 hz2 a b xa xb (phases_nil_of_validB ha hfa)
    (phases_nil_of_validB hb hfb) (Arr.allDistinct_of_validB ha) (Arr.allDistinct_of_validB hb)
    (Arr.shapesOk_of_validB ha) (Arr.shapesOk_of_validB hb) (keys_nodup_of_validB ha)
    (keys_nodup_of_validB hb) (allDistinct_iff_nodup.mp hnA) hxa' (allDistinct_iff_nodup.mp hnB) hxb'
    hlen hcm hea heb

/-- the same entry by entry: dense entry at `pL ++ pR` = `Σ_{pK} A[merge pK pL] · B[merge pK pR]`
    over the dense positions `pK` of the contracted indices -/
theorem tensordotBlockwise_dense_entry [AddCommMonoid R] [Mul R] [Neg R]
    (hz1 : ∀ x : R, 0 * x = 0) (hz2 : ∀ x : R, x * 0 = 0) (a b : Arr R) (xa xb : List Nat)
    (ha : a.validB = true) (hb : b.validB = true) (hfa : a.fermi = false) (hfb : b.fermi = false)
    (hc : ValidP.contractibleB a b xa xb = true)
    (hnA : allDistinct xa = true) (hnB : allDistinct xb = true)
    (hA : xa.all (fun i => decide (i < a.ndim)) = true)
    (hB : xb.all (fun i => decide (i < b.ndim)) = true)
    (hea : NoEmpty a) (heb : NoEmpty b) :
    ∃ dA dB dC, a.toDenseA = .ok dA ∧ b.toDenseA = .ok dB ∧
      (tensordotUnpruned a b xa xb).toDenseA = .ok dC ∧
      ∀ pL pR, inBox (permuted a.shape (freeAxes a.ndim xa)) pL = true →
        inBox (permuted b.shape (freeAxes b.ndim xb)) pR = true →
        dC.get (pL ++ pR) =
          ((allIdx (permuted a.shape xa)).map (fun pK =>
            dA.get (mergeIdx 0 a.ndim xa (freeAxes a.ndim xa) pK pL) *
            dB.get (mergeIdx 0 b.ndim xb (freeAxes b.ndim xb) pK pR))).sum := by
  obtain ⟨dA, dB, hAok, hBok, hAsh, hBsh, hCok⟩ :=
    tensordotBlockwise_toDense hz1 hz2 a b xa xb ha hb hfa hfb hc hnA hnB hA hB hea heb
  refine ⟨dA, dB, _, hAok, hBok, hCok, ?_⟩
  intro pL pR hpL hpR
  have easl : a.shape.length = a.ndim := by simp [Arr.shape, Arr.ndim]
  have ebsl : b.shape.length = b.ndim := by simp [Arr.shape, Arr.ndim]
  have hl : pL.length = (freeAxes dA.shape.length xa).length := by
    rw [inBox_length hpL, hAsh, easl, permuted_length _ _ (by rw [easl]; exact mem_freeAxes_lt)]
  rw [Blk.tensordotK_get dA dB xa xb hl (by
    rw [Blk.tensordotK_shape, hAsh, hBsh, easl, ebsl,
      inBox_append (by rw [inBox_length hpL]), hpL, hpR]; rfl)]
  simp only [Blk.tdTerm, hAsh, hBsh, easl, ebsl]

example : ValidP.contractibleB exA exB [1, 2] [0, 1] = true ∧ NoEmpty exA ∧ NoEmpty exB
    ∧ exA.fermi = false ∧ exB.fermi = false := by decide
-- sanity: dense shapes 3×3×4 and 3×4×2, result 3×2; both sides computed
example :
    (match exA.toDenseA, exB.toDenseA, (tensordotUnpruned exA exB [1, 2] [0, 1]).toDenseA with
     | .ok dA, .ok dB, .ok dC => dC.data == (dA.tensordotK dB [1, 2] [0, 1]).data
         && dC.shape == [3, 2] && dC.data == #[19, 0, 49, 0, 0, 38]
     | _, _, _ => false) = true := by decide +kernel

/-! ## 4. block shapes of the result -/

/-- **tensordotBlockwise_shapes (un-pruned tables).**  Every stored block of the result has the
    shape that the un-pruned result tables give to its sector: the box in
    `tensordotBlockwise_elem` is the block's own box. -/
theorem tensordotBlockwise_shapes_unpruned [Zero R] [Add R] [Mul R] (a b : Arr R) (xa xb : List Nat)
    (hsa : a.shapesOk) (hsb : b.shapesOk) (s : Sector) (blk : Blk R)
    (h : (s, blk) ∈ (tensordotBlockwise a b (freeAxes a.ndim xa) xa xb (freeAxes b.ndim xb)).blocks) :
    blk.shape = Arr.blockShapeD (without a.indices xa ++ without b.indices xb) s :=
  tensordotBlockwise_block_shape hsa hsb h

/-- **tensordotBlockwise_shapes.**  For valid contractible operands every result block also has the
    shape that the result's own (pruned) index tables assign to its sector (from
    `C01.tensordotBlockwise_valid`), so pruned and un-pruned tables give the same box to every
    stored sector. -/
theorem tensordotBlockwise_shapes [Zero R] [Add R] [Mul R] (a b : Arr R) (xa xb : List Nat)
    (ha : a.validB = true) (hb : b.validB = true) (hsym : a.sym = b.sym) (hfa : a.fermi = false)
    (hc : ValidP.contractibleB a b xa xb = true)
    (hnA : allDistinct xa = true) (hnB : allDistinct xb = true)
    (hA : xa.all (fun i => decide (i < a.ndim)) = true)
    (hB : xb.all (fun i => decide (i < b.ndim)) = true) (s : Sector) (blk : Blk R)
    (h : (s, blk) ∈ (tensordotBlockwise a b (freeAxes a.ndim xa) xa xb (freeAxes b.ndim xb)).blocks) :
    Arr.blockShape? (tensordotBlockwise a b (freeAxes a.ndim xa) xa xb (freeAxes b.ndim xb)).indices s
        = some blk.shape ∧
    Arr.blockShapeD (tensordotBlockwise a b (freeAxes a.ndim xa) xa xb (freeAxes b.ndim xb)).indices s
        = Arr.blockShapeD (without a.indices xa ++ without b.indices xb) s := by
  have hv := C01.tensordotBlockwise_valid a b xa xb ha hb hsym hfa hc hnA hnB hA hB
  rw [without_range, without_range] at hv
  have h1 := Arr.shapesOk_of_validB hv (s, blk) h
  refine ⟨h1, ?_⟩
  rw [Arr.blockShapeD, h1,
    ← tensordotBlockwise_block_shape (Arr.shapesOk_of_validB ha) (Arr.shapesOk_of_validB hb) h]
  rfl

/-! ## 1. trace -/

/-- **traceA_elem.**  `a.trace()` of a rank-2 abelian array with distinct sectors is the sum over
    the stored diagonal sectors `[c, c]` of `Σ_i a.elem [c,c] [i,i]`. -/
theorem traceA_elem [AddMonoid R] [Neg R] (a : Arr R) (h2 : a.ndim = 2) (hpa : a.phases = [])
    (hda : allDistinct a.sectors = true) (hsa : a.shapesOk) :
    traceA a = .ok (((a.sectors.filter (fun s => s[0]? == s[1]?)).map (diagSum a)).sum) :=
  traceA_elem' a h2 hpa hda hsa

/-- **traceA_toDense.**  When the two indices have the same sorted charge table (for a valid array:
    the same `cm`), `a.trace() = np.trace(a.to_dense())`. -/
theorem traceA_toDense [AddCommMonoid R] [Neg R] (a : Arr R) (ix0 ix1 : Index)
    (hidx : a.indices = [ix0, ix1]) (hcm : Index.sortCm ix0.cm = Index.sortCm ix1.cm)
    (ha : a.validB = true) (hfa : a.fermi = false) (hea : NoEmpty a) :
    ∃ dA, a.toDenseA = .ok dA ∧ traceA a = .ok dA.traceK :=
  traceA_toDense' a ix0 ix1 hidx hcm (phases_nil_of_validB ha hfa) (Arr.allDistinct_of_validB ha)
    (Arr.shapesOk_of_validB ha) (keys_nodup_of_validB ha) hea

/-- a 3×3 matrix `m[i,j]` (Z2, charge 0): blocks (0,0) 2×2 and (1,1) 1×1 -/
def exM : Arr Int :=
  { sym := .Z2, fermi := false, indices := [ixI, ixI.conj], charge := c0,
    blocks := [([c0, c0], mkB [2, 2] 1), ([c1, c1], mkB [1, 1] 10)] }
/-- the same with the (1,1) block missing -/
def exM' : Arr Int := { exM with blocks := [([c0, c0], mkB [2, 2] 1)] }

example : exM.validB = true ∧ exM'.validB = true ∧ NoEmpty exM
    ∧ Index.sortCm ixI.cm = Index.sortCm ixI.conj.cm := by decide +kernel
example : traceA exM = .ok 15 ∧ traceA exM' = .ok 5
    ∧ ((exM.sectors.filter (fun s => s[0]? == s[1]?)).map (diagSum exM)).sum = 15
    ∧ (match exM.toDenseA, exM'.toDenseA with
       | .ok d, .ok d' => d.traceK == 15 && d'.traceK == 5
       | _, _ => false) = true := by decide +kernel

/-! ## 2. single-operand einsum -/

/-- **einsumK_get.**  The kernel: `einsumK` is the finite sum over the box of the traced labels. -/
theorem einsumK_get [AddMonoid R] (b : Blk R) (lhs rhs : List Nat) (i : List Nat)
    (h : inBox (b.einsumK lhs rhs).shape i = true) :
    (b.einsumK lhs rhs).get i =
      ((allIdx ((einTraced lhs rhs).map (einSize b.shape lhs))).map
        (fun t => b.get (einIdx lhs rhs i t))).sum :=
  Blk.einsumK_get b lhs rhs h

/-- **einsumA_elem.**  `a.einsum("lhs->rhs")` when every output label occurs in `lhs`
    (`einPerm? = ok perm`) and every traced label occurs exactly twice: the result has the
    permuted indices; its keys are the permuted kept parts of the stored sectors whose traced pairs
    carry equal charges (first-appearance order); and its element at `(s', o')` is the sum over
    those stored sectors `s` with kept part `s'` of the sum over the traced box of
    `a.elem s (offsets assembled from o' and the traced offsets)`. -/
theorem einsumA_elem [AddMonoid R] [Neg R] (a : Arr R) (lhs rhs perm : List Nat)
    (hperm : einPerm? lhs rhs = .ok perm)
    (h2 : (einTracedPos lhs rhs).any (fun js => js.length != 2) = false)
    (hpa : a.phases = []) (hda : allDistinct a.sectors = true) (hsa : a.shapesOk)
    (s' : Sector) (o' : List Nat)
    (ho : ∀ s ∈ a.sectors, einKeep lhs rhs s = true → permuted s perm = s' →
      inBox (rhs.map (einSize (Arr.blockShapeD a.indices s) lhs)) o' = true) :
    ∃ c, einsumA a lhs rhs = .ok c ∧ c.indices = permuted a.indices perm ∧
      c.sectors = ((a.sectors.filter (einKeep lhs rhs)).map (fun s => permuted s perm)).eraseDups ∧
      c.elem s' o' =
        ((a.sectors.filter (fun s => einKeep lhs rhs s && permuted s perm == s')).map (fun s =>
          ((allIdx ((einTraced lhs rhs).map (einSize (Arr.blockShapeD a.indices s) lhs))).map
            (fun t => a.elem s (einIdx lhs rhs o' t))).sum)).sum :=
  einsumA_elem' a lhs rhs perm hperm h2 hpa hda hsa s' o' ho

/-- the permutation exists as soon as every output label occurs on the left -/
theorem einPerm_ok (lhs rhs : List Nat) (h : ∀ q ∈ rhs, q ∈ lhs) :
    einPerm? lhs rhs = .ok (rhs.map (fun q => (indexOf? lhs q).getD 0)) :=
  einPerm?_ok lhs rhs h

-- "ii->" on the matrix (two sectors accumulate into the key []), and "ijk->kij" on `exA`
example : einPerm? [0, 0] [] = .ok [] ∧ (einTracedPos [0, 0] []).any (fun js => js.length != 2) = false
    ∧ einPerm? [0, 1, 2] [2, 0, 1] = .ok [2, 0, 1]
    ∧ (einTracedPos [0, 1, 2] [2, 0, 1]).any (fun js => js.length != 2) = false := by decide
example :
    (match einsumA exM [0, 0] [] with
     | .ok c => c.sectors == [[]] && c.elem [] [] == 15
     | .error _ => false) = true
    ∧ ((exM.sectors.filter (fun s => einKeep [0, 0] [] s && permuted s [] == [])).map (fun s =>
        ((allIdx ((einTraced [0, 0] []).map (einSize (Arr.blockShapeD exM.indices s) [0, 0]))).map
          (fun t => exM.elem s (einIdx [0, 0] [] [] t))).sum)).sum = 15 := by decide +kernel
example :
    (match einsumA exA [0, 1, 2] [2, 0, 1] with
     | .ok c => c.sectors == [[c0, c0, c0], [c1, c0, c1], [c1, c1, c0]]
         && c.elem [c1, c0, c1] [1, 1, 0] == exA.elem [c0, c1, c1] [1, 0, 1]
     | .error _ => false) = true := by decide +kernel

/-! ## 5. matrix product and outer product -/

/-- **matmulA_elem.**  `a @ b` for two matrices: the flagship with axes `[1]`, `[0]`. -/
theorem matmulA_elem [AddMonoid R] [Mul R] [Neg R] (a b : Arr R) (h2a : a.ndim = 2) (h2b : b.ndim = 2)
    (hpa : a.phases = []) (hpb : b.phases = [])
    (hda : allDistinct a.sectors = true) (hdb : allDistinct b.sectors = true)
    (hsa : a.shapesOk) (hsb : b.shapesOk) :
    ∃ c, matmulA a b = .ok c ∧ ∀ (s : Sector) (o : List Nat),
      inBox (Arr.blockShapeD (without a.indices [1] ++ without b.indices [0]) s) o = true →
      c.elem s o =
        ((storedPairs a b (freeAxes a.ndim [1]) [1] [0] (freeAxes b.ndim [0]) s).map
          (contractPair a b [1] [0] (o.take (freeAxes a.ndim [1]).length)
            (o.drop (freeAxes a.ndim [1]).length))).sum :=
  ⟨_, matmulA_matrices a b h2a h2b, fun s o ho =>
    tensordotBlockwise_elem a b [1] [0] hpa hpb hda hdb hsa hsb s o ho⟩

/-- … and at dense level `(a @ b).to_dense() = np.tensordot(A, B, ([1],[0]))` (un-pruned tables) -/
theorem matmulA_toDense [AddCommMonoid R] [Mul R] [Neg R]
    (hz1 : ∀ x : R, 0 * x = 0) (hz2 : ∀ x : R, x * 0 = 0) (a b : Arr R)
    (h2a : a.ndim = 2) (h2b : b.ndim = 2)
    (ha : a.validB = true) (hb : b.validB = true) (hfa : a.fermi = false) (hfb : b.fermi = false)
    (hc : ValidP.contractibleB a b [1] [0] = true) (hea : NoEmpty a) (heb : NoEmpty b) :
    ∃ c dA dB, matmulA a b = .ok c ∧ a.toDenseA = .ok dA ∧ b.toDenseA = .ok dB ∧
      ({ c with indices := without a.indices [1] ++ without b.indices [0] } : Arr R).toDenseA =
        .ok (dA.tensordotK dB [1] [0]) := by
  obtain ⟨dA, dB, hAok, hBok, _, _, hC⟩ := tensordotBlockwise_toDense hz1 hz2 a b [1] [0] ha hb hfa hfb
    hc (by decide) (by decide) (by simp [h2a]) (by simp [h2b]) hea heb
  exact ⟨_, dA, dB, matmulA_matrices a b h2a h2b, hAok, hBok, hC⟩

/-- **tensordot_outer.**  No contracted axes: the element at `(sa ++ sb, oa ++ ob)` is the product
    of the operands' elements (zero when either sector is absent). -/
theorem tensordot_outer [AddCommMonoid R] [Mul R] [Neg R]
    (hz1 : ∀ x : R, 0 * x = 0) (hz2 : ∀ x : R, x * 0 = 0) (a b : Arr R)
    (hpa : a.phases = []) (hpb : b.phases = [])
    (hda : allDistinct a.sectors = true) (hdb : allDistinct b.sectors = true)
    (hsa : a.shapesOk) (hsb : b.shapesOk) (sa sb : Sector) (oa ob : List Nat)
    (hsal : sa.length = a.ndim) (hsbl : sb.length = b.ndim)
    (hoal : oa.length = a.ndim) (hobl : ob.length = b.ndim)
    (ho : inBox (Arr.blockShapeD (a.indices ++ b.indices) (sa ++ sb)) (oa ++ ob) = true) :
    (tensordotBlockwise a b (freeAxes a.ndim []) [] [] (freeAxes b.ndim [])).elem (sa ++ sb) (oa ++ ob) =
      a.elem sa oa * b.elem sb ob :=
  tensordot_outer' hz1 hz2 a b hpa hpb hda hdb hsa hsb sa sb oa ob hsal hsbl hoal hobl ho

example : (tensordotBlockwise exM exM' (freeAxes 2 []) [] [] (freeAxes 2 [])).elem
      [c1, c1, c0, c0] [0, 0, 1, 0] = exM.elem [c1, c1] [0, 0] * exM'.elem [c0, c0] [1, 0]
    ∧ exM.elem [c1, c1] [0, 0] * exM'.elem [c0, c0] [1, 0] = 30
    ∧ (tensordotBlockwise exM exM' (freeAxes 2 []) [] [] (freeAxes 2 [])).elem
      [c0, c0, c1, c1] [0, 0, 0, 0] = 0 := by decide +kernel
example : (match matmulA exM exM' with
    | .ok c => c.sectors == [[c0, c0]] && c.elem [c0, c0] [1, 1] == 3 * 2 + 4 * 4
    | .error _ => false) = true := by decide +kernel

end SymmModel.C02
