/-
  Property C08, sixth part — (A) the structural operations as equalities of dense BLOCKS and
  finite programs of them; (B) reshape at position level for EVERY plan (unfuse calls, fuse calls,
  expand calls) and the dense round trip.
  (Parts one to five: Props/C08.lean … C08e.lean; umbrella: Props/C08All5.lean.)

  Vocabulary (namespace `SymmModel.Dense6`, Proofs/Dense6a-d.lean):
    `SOp`                 transpose / conj / squeeze / expand_dims
    `SOp.step op a`       the model call behind its decidable guard (`SOp.admissible`: a permutation
                          of the axes; insertion position ≤ ndim and a charge of the symmetry)
    `SOp.dense op d`      numpy's call on the dense array `d` — a function of `d` alone:
                          `np.transpose`, `np.conj`, `np.squeeze` (mask `npMask` of the dense shape),
                          `d[..., None, ...]` (kernels of Model/Blk.lean)
    `SProg.run`, `SProg.denseRun`   a list of steps on the block array / on the dense array
    `Good a`              valid, abelian, no empty charge table
    `Img a y Rel`         the dense form of `y` is the `Rel`-image of the dense form of `a`: every
                          NON-ZERO entry of `dense a` has a `Rel`-image in `dense y` with the same
                          entry, and every entry of `dense y` is `0` or such an image
    `PStep`, `stepsOf t`  the steps of a reshape plan `(unfuse axes, fuse calls, expand axes)`
    `runSteps`, `StepsOk` / `stepsOkB`, `stepsRel`   running them, their admissibility (every
                          intermediate array without empty charge table; decided by running), and
                          the composed position relation: per step `UPosRel` (unfuse: `splitAddr`
                          of the fused coordinate), `Dense5.PosRel` (fuse), `P = ins ax 0 p` (expand)
-/
import SymmModel.Proofs.Dense6d

namespace SymmModel.C08
open SymmModel Arr DenseP Dense3 Dense4 Dense5 Dense6 FuseP ReshapeP

variable {R : Type}

/-! ## A. structural operations: equalities of dense blocks -/

/-- `to_dense(transpose(a, axes)) = np.transpose(to_dense(a), axes)` -/
theorem transpose_dense_block [Zero R] [Neg R] (a : Arr R) (axes : List Nat)
    (hperm : isPerm axes a.ndim = true) (hv : a.validB = true) (hf : a.fermi = false)
    (hne : NoEmpty a) (d : Blk R) (hd : toDenseA a = .ok d) :
    toDenseA (transposeA a axes) = .ok (d.transposeK axes) :=
  transposeA_dense a axes hperm hv hf hne d hd

/-- `to_dense(conj(a)) = np.conj(to_dense(a))` -/
theorem conj_dense_block [Zero R] [Neg R] [Conj R] (h0 : Conj.conj (0 : R) = 0) (a : Arr R)
    (hv : a.validB = true) (hf : a.fermi = false) (hne : NoEmpty a) (d : Blk R)
    (hd : toDenseA a = .ok d) : toDenseA (conjA a) = .ok d.conjK :=
  conjA_dense h0 a hv hf hne d hd

/-- `to_dense(expand_dims(a, axis, c)) = to_dense(a)[..., None, ...]` (same flat data) -/
theorem expandDims_dense_block [Zero R] [Neg R] (a : Arr R) (axis : Nat) (c : Option Charge)
    (dual : Option Bool) (ha : axis ≤ a.ndim) (hv : a.validB = true) (hf : a.fermi = false)
    (hne : NoEmpty a) (d : Blk R) (hd : toDenseA a = .ok d) :
    toDenseA (a.expandDims axis c dual) = .ok (d.expandK axis) :=
  expandDims_dense a axis c dual ha hv hf hne d hd

/-- `to_dense(squeeze(a, axis)) = np.squeeze(to_dense(a), axis)` (same flat data; the mask of the
    block `squeeze` is numpy's mask of the dense shape) -/
theorem squeeze_dense_block [Zero R] [Neg R] (a : Arr R) (axis : Option (List Nat)) (a' : Arr R)
    (h : a.squeeze axis = .ok a') (hv : a.validB = true) (hf : a.fermi = false) (hne : NoEmpty a)
    (d : Blk R) (hd : toDenseA a = .ok d) :
    squeezeMask a axis = .ok (npMask axis d.shape)
    ∧ toDenseA a' = .ok (d.squeezeK (keptAxes (npMask axis d.shape) 0)) := by
  obtain ⟨m, hm, hdense⟩ := squeeze_dense a axis a' h hv hf hne d hd
  have hds : d.shape = a.shape := by
    obtain ⟨d0, e0, s0, _⟩ := toDenseA_get a hne
    rw [hd] at e0; injection e0 with e0; subst e0; exact s0
  have := squeezeMask_eq_npMask a axis m hm
  rw [hds, ← this]
  exact ⟨hm, hdense⟩

/-- one structural step: the invariant is kept and the dense form of the result is numpy's call on
    the dense form of the argument -/
theorem SOp_step_toDense [Zero R] [Neg R] [Conj R] (h0 : Conj.conj (0 : R) = 0) (op : SOp)
    (a b : Arr R) (hg : Good a) (hb : op.step a = .ok b) (d : Blk R) (hd : toDenseA a = .ok d) :
    Good b ∧ toDenseA b = .ok (op.dense d) :=
  SOp.step_dense h0 op a b hg hb d hd

/-- **Prog.toDense_commutes**: any finite program of structural operations (transpose, conj,
    squeeze, expand_dims in any order and number) commutes with densification:
    `to_dense(run prog a) = run_numpy prog (to_dense a)`, and the result is again valid, abelian
    and without empty charge table -/
theorem SProg_toDense_commutes [Zero R] [Neg R] [Conj R] (h0 : Conj.conj (0 : R) = 0)
    (prog : List SOp) (a b : Arr R) (hg : Good a) (hb : SProg.run prog a = .ok b) (d : Blk R)
    (hd : toDenseA a = .ok d) :
    Good b ∧ toDenseA b = .ok (SProg.denseRun prog d) :=
  SProg.toDense_commutes_main h0 prog a b hg hb d hd

/-- a program can only fail at a step whose guard fails or at a `squeeze` that raises -/
theorem SProg_run_cons [Zero R] [Conj R] (op : SOp) (rest : List SOp) (a : Arr R) :
    SProg.run (op :: rest) a = (match op.step a with
      | .ok a' => SProg.run rest a'
      | .error e => .error e) := by
  simp only [SProg.run, bind, Except.bind]
  cases op.step a <;> rfl

/-! ## B. reshape: every plan, and the round trip -/

/-- equal value views (C05 `VEq`) have equal dense forms -/
theorem toDenseA_of_VEq [Zero R] [Neg R] [Lazy.LawfulNeg R] {a b : Arr R} (h : VEq a b) :
    toDenseA a = toDenseA b :=
  toDenseA_of_veq h

/-- **dense round trip**: for an unfused valid abelian array and a merge / drop target (C07g),
    `to_dense(reshape(reshape(a, target), a.shape)) = to_dense(a)` -/
theorem reshape_mergeDrop_roundtrip_dense [Zero R] [Neg R] [Lazy.LawfulNeg R] (a : Arr R)
    (hv : a.validB = true) (hf : a.fermi = false) (hnf : ∀ ix ∈ a.indices, ix.sub = none)
    (segs : List Reshape5.MSeg) (hok : ∀ s ∈ segs, Reshape5.MSegOk s)
    (hshape : a.shape = Reshape5.shapeS segs) (hne : Reshape5.targetS segs ≠ []) :
    ∃ y z, reshapeArr a ((Reshape5.targetS segs).map Int.ofNat) = .ok y
      ∧ reshapeArr y (a.shape.map Int.ofNat) = .ok z ∧ toDenseA z = toDenseA a := by
  obtain ⟨y, z, h1, h2, _, _, h3⟩ :=
    C07.reshape_mergeDrop_roundtrip_abelian a hv hf hnf segs hok hshape hne
  exact ⟨y, z, h1, h2, toDenseA_of_VEq h3⟩

/-- the same for merge targets given by runs (C07f) -/
theorem reshape_runs_roundtrip_dense [Zero R] [Neg R] [Lazy.LawfulNeg R] (a y : Arr R)
    (runs : List (List Nat)) (hv : a.validB = true) (hf : a.fermi = false)
    (hnf : ∀ ix ∈ a.indices, ix.sub = none) (hshape : a.shape = runs.flatten)
    (hok : ∀ r ∈ runs, Reshape5.RunOk r)
    (hy : reshapeArr a ((runs.map prod).map Int.ofNat) = .ok y) :
    ∃ z, reshapeArr y (a.shape.map Int.ofNat) = .ok z ∧ toDenseA z = toDenseA a := by
  obtain ⟨z, h1, _, _, h2⟩ := C07.reshape_roundtrip_abelian_shapes a y runs hv hf hnf hshape hok hy
  exact ⟨z, h1, toDenseA_of_VEq h2⟩

/-- the three kinds of plan steps as images -/
theorem fuse_img [Zero R] [Neg R] (a x : Arr R) (g : List (List Nat)) (hv : a.validB = true)
    (hf : a.fermi = false) (hne : NoEmpty a) (hg : C05.groupsOkB g a.ndim = true)
    (hx : fuseCore a g .insert = .ok x) (hnex : NoEmpty x) : Img a x (PosRel a x g) :=
  img_fuse a x g hv hf hne hg hx hnex

theorem unfuse_img [Zero R] [Neg R] (x y : Arr R) (axis : Nat) (ix : Index) (subs : List Index)
    (exts : Extents) (hv : x.validB = true) (hf : x.fermi = false)
    (hix : x.indices[axis]? = some ix) (hsub : ix.sub = some (subs, exts)) (hnex : NoEmpty x)
    (hy : unfuseA x axis = .ok y) (hney : NoEmpty y) : Img x y (UPosRel x y axis) :=
  img_unfuse x y axis ix subs exts hv hf hix hsub hnex hy hney

theorem expand_img [Zero R] [Neg R] (a : Arr R) (axis : Nat) (c : Option Charge)
    (dual : Option Bool) (ha : axis ≤ a.ndim) (hv : a.validB = true) (hf : a.fermi = false)
    (hne : NoEmpty a) : Img a (a.expandDims axis c dual) (fun p P => P = ins axis 0 p) :=
  img_expand a axis c dual ha hv hf hne

/-- images compose -/
theorem img_comp [Zero R] [Neg R] {a x y : Arr R} {R1 R2 : List Nat → List Nat → Prop}
    (h1 : Img a x R1) (h2 : Img x y R2) : Img a y (fun p P => ∃ P1, R1 p P1 ∧ R2 P1 P) :=
  h1.comp h2

/-- **reshape_toDense, every plan**: whatever plan `(unfuse axes, fuse calls, expand axes)` the
    planner returns — merges, the way back of a merge (unfuse calls), inserted size-one axes, and
    their combinations — `reshape` runs its steps, the result is valid and abelian, and its dense
    form is the image of the dense form of `a` under the composed position relation of the steps -/
theorem reshape_toDense_plan [Zero R] [Neg R] (a : Arr R) (ns full : List Int) (nsN : List Nat)
    (t : List Nat × List (List (List Nat)) × List Nat) (hv : a.validB = true) (hf : a.fermi = false)
    (h1 : findFullReshape ns a.size = .ok full)
    (h2 : full.mapM (fun (d : Int) => if d < 0 then (throw Err.notimpl : Except Err Nat) else pure d.toNat)
      = .ok nsN)
    (h3 : calcReshapeArgs a.shape nsN a.subsizes = .ok t)
    (hok : StepsOk (stepsOf t) a) (hne : NoEmpty a) (y : Arr R) (hy : reshapeArr a ns = .ok y) :
    runSteps (stepsOf t) a = .ok y ∧ y.validB = true ∧ y.fermi = false
      ∧ Img a y (stepsRel (stepsOf t) a) := by
  have hrun : runSteps (stepsOf t) a = .ok y := by
    rw [← dispatch_eq_run (stepsOf t) a hv hf hok, ← applyPlan_eq_dispatch,
      ← reshapeArr_eq a ns full nsN t h1 h2 h3]
    exact hy
  exact ⟨hrun, steps_img (stepsOf t) a hv hf hne hok y hrun⟩

/-! ## examples -/

section Examples6
open C08.Ex C08.Ex4

/-- conjugation on the integers is the identity -/
local instance : Conj Int := ⟨id⟩

-- A. a program: transpose, insert an axis, conjugate, transpose, squeeze it again, insert an axis
-- with charge 2
def exProg : List SOp :=
  [.transpose [1, 0], .expandDims 1 none none, .conj, .transpose [2, 0, 1], .squeeze none,
   .expandDims 0 (some (2, 0)) (some true)]

example : Good x := ⟨by decide, rfl, by decide⟩
example : (match SProg.run exProg x with | .ok b => b.validB && b.ndim == 3 | .error _ => false) = true := by
  decide +kernel
example : Ex.dataOf (SProg.run exProg x >>= toDenseA)
    = (Ex.dataOf (toDenseA x)).map (fun sd =>
        ((SProg.denseRun exProg ⟨sd.1, sd.2.toArray⟩).shape, (SProg.denseRun exProg ⟨sd.1, sd.2.toArray⟩).data.toList)) := by
  decide +kernel
example (b : Arr Int) (hb : SProg.run exProg x = .ok b) (d : Blk Int) (hd : toDenseA x = .ok d) :=
  SProg_toDense_commutes (R := Int) rfl exProg x b ⟨by decide, rfl, by decide⟩ hb d hd
example : npMask none [3, 1, 3] = [false, true, false] ∧ npMask (some [1]) [3, 1, 3] = [false, true, false] := by
  decide

-- B. the way back of a merge: `xf` (the fused vector) reshaped to (3,3) is one unfuse call
example : calcReshapeArgs xf.shape [3, 3] xf.subsizes = .ok ([0], [], []) := by decide +kernel
example : stepsOkB (stepsOf ([0], [], [])) xf = true := by decide +kernel
example (y : Arr Int) (hy : reshapeArr xf [3, 3] = .ok y) :=
  reshape_toDense_plan (R := Int) xf [3, 3] [3, 3] [3, 3] ([0], [], []) (by decide +kernel) rfl
    (by decide +kernel) (by decide +kernel) (by decide +kernel)
    (stepsOk_of_B _ _ (by decide +kernel)) (by decide +kernel) y hy
-- an inserted size-one axis: (3,3) → (3,1,3) is one expand call
example : calcReshapeArgs x.shape [3, 1, 3] x.subsizes = .ok ([], [], [1]) := by decide +kernel
example (y : Arr Int) (hy : reshapeArr x [3, 1, 3] = .ok y) :=
  reshape_toDense_plan (R := Int) x [3, 1, 3] [3, 1, 3] [3, 1, 3] ([], [], [1]) (by decide) rfl
    (by decide +kernel) (by decide +kernel) (by decide +kernel)
    (stepsOk_of_B _ _ (by decide +kernel)) (by decide) y hy
-- the dense round trip (3,3) → (9,) → (3,3)
example : Ex.dataOf (reshapeArr x [9] >>= fun y => reshapeArr y [3, 3] >>= toDenseA) = Ex.dataOf (toDenseA x) := by
  decide +kernel

end Examples6

end SymmModel.C08
