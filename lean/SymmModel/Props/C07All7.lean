/-
  Property C07 — umbrella module: all eight parts of the property theorems.
-/
import SymmModel.Props.C07All6
import SymmModel.Props.C07h
