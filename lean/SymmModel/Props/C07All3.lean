/-
  Property C07 — umbrella module: all four parts of the property theorems.
-/
import SymmModel.Props.C07All2
import SymmModel.Props.C07d
