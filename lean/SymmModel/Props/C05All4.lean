import SymmModel.Props.C05All3
import SymmModel.Props.C05f
