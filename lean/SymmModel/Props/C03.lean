/-
  Property C03 — "Fermionic operations follow graded tensor semantics": the SIGN theorems.

  All theorems are about the model definitions
    `isOdd`, `crossed`, `swapsLoop`, `koszulNeg`, `koszul`      (Model/Sym.lean,  = symmray
                                                                 `calc_phase_permutation`)
    `Arr.parities`, `Arr.getPhase`, `Arr.setPhase`, `Arr.transposeF`, `Arr.phaseFlip`,
    `Arr.phaseTranspose`, `Arr.phaseGlobal`, `Arr.elem`         (Model/Fermi.lean, Model/Arr.lean)
  for parity lists, permutations and sector tables of ARBITRARY length.

  Specification vocabulary (defined in `SymmModel.Proofs.Koszul`, namespace `SymmModel.KoszulP`):
    `invOdd par perm`   number of pairs of odd entries whose order `perm` reverses
                        (head `ax` odd: count the later entries `o < ax` that are odd; recurse)
    `oddCount par l`    number of odd entries among the axes listed in `l`
    `flipSign a axs s`      `-1` iff an odd number of the axes `axs` carries an odd charge in `s`
    `applySign σ x`     `-x` if `σ = -1`, else `x`
  "`perm` is a permutation of `range n`" is `perm.Perm (List.range n)`; the model's guard
  `Arr.isPerm perm n = true` implies it (`perm_of_isPerm`) and is implied by it.

  Complete: every theorem below (no `_partial`), including the element-level statement
  `transposeF_koszul` ("transposing multiplies each element by the sign of the permutation
  restricted to its odd indices").  NOT in this file (missing, see the report):
  `tensordotF_refines_graded` and its corollaries for `traceF`, `matmulF`, `einsumF`.
-/
import SymmModel.Proofs.Koszul

namespace SymmModel.C03
open SymmModel SymmModel.KoszulP

/-! ## 1. the loop of `calc_phase_permutation` counts the reversed pairs of odd entries -/

/-- the model's guard of every transposition is exactly "permutation of `range n`" -/
theorem isPerm_iff_perm (axes : List Nat) (n : Nat) :
    Arr.isPerm axes n = true ↔ axes.Perm (List.range n) :=
  ⟨perm_of_isPerm, isPerm_of_perm⟩

/-- for every parity list and every permutation of `range n`, the code's double loop with its
    `moved` set counts exactly the pairs of odd entries put in reversed order; hence the sign is
    `(-1)^invOdd` -/
theorem koszul_eq_invOdd (par : List Bool) (perm : List Nat) (n : Nat)
    (hperm : perm.Perm (List.range n)) :
    swapsLoop par perm [] = invOdd par perm
      ∧ koszul par (some perm) = (-1 : Int) ^ (invOdd par perm) := by
  refine ⟨swapsLoop_eq_invOdd par perm n hperm, ?_⟩
  rw [koszul_some, swapsLoop_eq_invOdd par perm n hperm, sgn_eq_pow]

example : Arr.isPerm [3, 0, 2, 1] 4 = true := by decide
example : [3, 0, 2, 1].Perm (List.range 4) := perm_of_isPerm (by decide)
example : swapsLoop [true, true, false, true] [3, 0, 2, 1] [] = 2
    ∧ invOdd [true, true, false, true] [3, 0, 2, 1] = 2 := by decide
example : koszul [true, true, false, true] [1, 0, 2, 3] = -1 := by decide

/-- the hypothesis is needed: on a list with a repeated axis the loop and the inversion count
    differ -/
theorem koszul_eq_invOdd_needs_perm :
    swapsLoop [true, true] [1, 1] [] ≠ invOdd [true, true] [1, 1] := by decide

/-! ## 2. the `perm = None` shortcut -/

/-- `calc_phase_permutation(parities, None)` (`sum // 2 % 2`) equals the general loop on the full
    reversal `(n-1, …, 0)`: `k` odd entries have `k(k-1)/2` inversions under reversal, whose
    parity is that of `k div 2` -/
theorem koszul_none_eq_reverse (par : List Bool) (n : Nat) (h : par.length = n) :
    koszul par none = koszul par (some (List.range n).reverse) := by
  subst h; exact koszul_none_eq_reverse' par

/-- both sides, as a power of `-1` of `C(k,2)`, `k` = number of odd entries -/
theorem koszul_none_eq_pow (par : List Bool) :
    koszul par none = (-1 : Int) ^ ((par.filter id).length * ((par.filter id).length - 1) / 2) := by
  rw [koszul_none, ← sgn_eq_pow, ← tri_eq, sgn_tri]

example : koszul [true, false, true, true] none = -1
    ∧ koszul [true, false, true, true] (some [3, 2, 1, 0]) = -1 := by decide

/-! ## 3. identity and square -/

theorem koszul_id (par : List Bool) (n : Nat) : koszul par (some (List.range n)) = 1 :=
  koszul_id' par n

/-- Koszul signs are `±1` and square to `1` (any argument) -/
theorem koszul_sq (par : List Bool) (perm : Option (List Nat)) :
    (koszul par perm = 1 ∨ koszul par perm = -1) ∧ koszul par perm * koszul par perm = 1 := by
  unfold koszul; split <;> simp

/-! ## 4. adjacent swaps -/

/-- swapping two adjacent entries of the permutation multiplies the sign by `-1` exactly when
    both entries are odd -/
theorem koszul_swap_adjacent (par : List Bool) (xs : List Nat) (a b : Nat) (ys : List Nat) (n : Nat)
    (h : (xs ++ a :: b :: ys).Perm (List.range n)) :
    koszul par (some (xs ++ b :: a :: ys))
      = koszul par (some (xs ++ a :: b :: ys)) * (if isOdd par a && isOdd par b then -1 else 1) :=
  koszul_swap_adjacent' par xs a b ys n h

example : ([2] ++ 0 :: 3 :: [1]).Perm (List.range 4) := perm_of_isPerm (by decide)
example : koszul [true, true, false, true] (some ([2] ++ 3 :: 0 :: [1])) = 1
    ∧ koszul [true, true, false, true] (some ([2] ++ 0 :: 3 :: [1])) = -1 := by decide

/-! ## 5. the lazily tracked sign table

Hypotheses are clauses of the validity predicate `Arr.validB` (Model/Valid.lean): sector keys
distinct, sign-table keys distinct, sectors of length `ndim`, stored signs `±1`. -/

/-- `FermionicArray.transpose(axes)`: the new table gives the permuted sector the old pending
    sign times the Koszul sign of `axes` restricted to the sector's odd entries -/
theorem transposeF_phase {R : Type} [Zero R] (a : Arr R) (axes : List Nat)
    (hlen : ∀ s ∈ a.sectors, s.length = a.ndim) (hax : Arr.isPerm axes a.ndim = true)
    (s : Sector) (hmem : s ∈ a.sectors) (hpm : a.getPhase s = 1 ∨ a.getPhase s = -1) :
    (a.transposeF axes).getPhase (permuted s axes)
      = a.getPhase s * koszul (a.parities s) (some axes) :=
  transposeF_getPhase a axes hlen hax s hmem hpm

/-- `phase_flip(*axs)`: every stored sector's pending sign is multiplied by `-1` iff an odd number
    of the listed axes is odd in that sector; keys that are not stored sectors are untouched -/
theorem phaseFlip_phase {R : Type} (a : Arr R) (axs : List Nat)
    (hs : allDistinct a.sectors = true) (hph : allDistinct (a.phases.map (·.1)) = true)
    (s : Sector) :
    (a.phaseFlip axs).getPhase s
      = if s ∈ a.sectors then a.getPhase s * flipSign a axs s else a.getPhase s :=
  phaseFlip_getPhase a axs hs hph s

/-- `phase_transpose(axes)` (`axes = none`: virtual full reversal): every stored sector's pending
    sign is multiplied by the Koszul sign of its parities -/
theorem phaseTranspose_phase {R : Type} (a : Arr R) (axes : Option (List Nat))
    (hs : allDistinct a.sectors = true) (hph : allDistinct (a.phases.map (·.1)) = true)
    (s : Sector) :
    (a.phaseTranspose axes).getPhase s
      = if s ∈ a.sectors then a.getPhase s * koszul (a.parities s) axes else a.getPhase s :=
  phaseTranspose_getPhase a axes hs hph s

/-- `phase_global()`: every stored sector's pending sign `±1` is negated -/
theorem phaseGlobal_phase {R : Type} (a : Arr R)
    (hs : allDistinct a.sectors = true) (hph : allDistinct (a.phases.map (·.1)) = true)
    (s : Sector) (hmem : s ∈ a.sectors) (hpm : a.getPhase s = 1 ∨ a.getPhase s = -1) :
    a.phaseGlobal.getPhase s = - a.getPhase s := by
  rw [phaseGlobal_getPhase a hs hph s, if_pos hmem]
  rcases hpm with h | h <;> simp [h]

/-- value view: the three table-only operations multiply every stored element of a stored sector
    by the stated sign (`R` any scalar type with an involutive negation) -/
theorem phase_ops_elem {R : Type} [Zero R] [Neg R] (hneg : ∀ x : R, - -x = x) (a : Arr R)
    (hs : allDistinct a.sectors = true) (hph : allDistinct (a.phases.map (·.1)) = true)
    (s : Sector) (hmem : s ∈ a.sectors) (hpm : a.getPhase s = 1 ∨ a.getPhase s = -1)
    (off : List Nat) :
    (∀ axes, (a.phaseTranspose axes).elem s off
        = applySign (koszul (a.parities s) axes) (a.elem s off))
    ∧ (∀ axs, (a.phaseFlip axs).elem s off = applySign (flipSign a axs s) (a.elem s off))
    ∧ a.phaseGlobal.elem s off = applySign (-1) (a.elem s off) := by
  refine ⟨fun axes => ?_, fun axs => ?_, ?_⟩
  · apply elem_of_getPhase_mul hneg a (a.phaseTranspose axes) rfl s hmem _ (koszul_sq _ _).1 hpm
    rw [phaseTranspose_phase a axes hs hph s, if_pos hmem]
  · have hf : flipSign a axs s = 1 ∨ flipSign a axs s = -1 := by
      unfold flipSign; split <;> simp
    apply elem_of_getPhase_mul hneg a (a.phaseFlip axs) _ s hmem _ hf hpm
    · rw [phaseFlip_phase a axs hs hph s, if_pos hmem]
    · unfold Arr.phaseFlip; split <;> rfl
  · apply elem_of_getPhase_mul hneg a a.phaseGlobal rfl s hmem _ (Or.inr rfl) hpm
    rw [phaseGlobal_phase a hs hph s hmem hpm]; omega

/-- **value view of `FermionicArray.transpose`**: for a stored sector `s` with block `b` and a
    multi-index `off` inside the block, the element of the transposed array at the permuted
    address is the old element times the Koszul sign of `axes` restricted to the sector's odd
    indices — whatever signs were pending before (`R`: any scalar type with involutive negation) -/
theorem transposeF_koszul {R : Type} [Zero R] [Neg R] (hneg : ∀ x : R, - -x = x) (a : Arr R)
    (axes : List Nat) (hs : allDistinct a.sectors = true)
    (hlen : ∀ s ∈ a.sectors, s.length = a.ndim) (hax : Arr.isPerm axes a.ndim = true)
    (s : Sector) (b : Blk R) (hb : alookup a.blocks s = some b) (hbs : b.shape.length = a.ndim)
    (hpm : a.getPhase s = 1 ∨ a.getPhase s = -1)
    (off : List Nat) (hoff : inBox b.shape off = true) :
    (a.transposeF axes).elem (permuted s axes) (permuted off axes)
      = applySign (koszul (a.parities s) (some axes)) (a.elem s off) :=
  transposeF_elem hneg a axes hs hlen hax s b hb hbs hpm off hoff

/-- the hypotheses of the theorems of this section are clauses of the validity predicate
    `Arr.validB` (property C01) for fermionic arrays -/
theorem valid_gives_hyps {R : Type} (a : Arr R) (hv : a.validB = true) (hf : a.fermi = true) :
    allDistinct a.sectors = true ∧ allDistinct (a.phases.map (·.1)) = true
      ∧ (∀ s ∈ a.sectors, s.length = a.ndim)
      ∧ (∀ s, a.getPhase s = 1 ∨ a.getPhase s = -1) :=
  valid_sign_hyps a hv hf

/-! ### a concrete array meeting the hypotheses (Z2, three legs, one pending sign) -/

/-- even total charge, legs ket/bra/ket, all four sectors, pending sign `-1` on `(1,1,0)` -/
def exA : Arr Int :=
  let ix (d : Bool) : Index := Index.mk [((0, 0), 1), ((1, 0), 1)] d none
  { sym := .Z2, fermi := true,
    indices := [ix false, ix true, ix false],
    charge := (0, 0),
    blocks := [([(0, 0), (0, 0), (0, 0)], ⟨[1, 1, 1], #[5]⟩),
               ([(1, 0), (1, 0), (0, 0)], ⟨[1, 1, 1], #[7]⟩),
               ([(0, 0), (1, 0), (1, 0)], ⟨[1, 1, 1], #[9]⟩),
               ([(1, 0), (0, 0), (1, 0)], ⟨[1, 1, 1], #[11]⟩)],
    phases := [([(1, 0), (1, 0), (0, 0)], -1)] }

example : exA.validB = true ∧ exA.fermi = true := by decide

example : allDistinct exA.sectors = true ∧ allDistinct (exA.phases.map (·.1)) = true
    ∧ Arr.isPerm [2, 0, 1] exA.ndim = true ∧ (∀ s ∈ exA.sectors, s.length = exA.ndim)
    ∧ [(1, 0), (1, 0), (0, 0)] ∈ exA.sectors
    ∧ (∀ s ∈ exA.sectors, exA.getPhase s = 1 ∨ exA.getPhase s = -1) := by decide

/-- the conclusions are non-trivial on it: pending `-1` meets Koszul `-1` on `(1,1,0)` under
    `[1,0,2]`; `[2,0,1]` moves an odd leg over one resp. two odd legs -/
example : (exA.transposeF [1, 0, 2]).getPhase [(1, 0), (1, 0), (0, 0)] = 1
    ∧ (exA.transposeF [2, 0, 1]).getPhase (permuted [(1, 0), (1, 0), (0, 0)] [2, 0, 1]) = -1
    ∧ (exA.transposeF [2, 0, 1]).getPhase (permuted [(0, 0), (1, 0), (1, 0)] [2, 0, 1]) = -1
    ∧ (exA.phaseFlip [1, 2]).getPhase [(1, 0), (1, 0), (0, 0)] = 1
    ∧ (exA.phaseFlip [1, 2]).getPhase [(1, 0), (0, 0), (1, 0)] = -1
    ∧ (exA.phaseTranspose none).getPhase [(0, 0), (1, 0), (1, 0)] = -1
    ∧ (exA.phaseTranspose (some [1, 0, 2])).getPhase [(1, 0), (1, 0), (0, 0)] = 1
    ∧ exA.phaseGlobal.getPhase [(0, 0), (0, 0), (0, 0)] = -1
    ∧ exA.phaseGlobal.getPhase [(1, 0), (1, 0), (0, 0)] = 1 := by decide

example : ∀ x : Int, - -x = x := Int.neg_neg

example : alookup exA.blocks [(0, 0), (1, 0), (1, 0)] = some ⟨[1, 1, 1], #[9]⟩
    ∧ inBox [1, 1, 1] [0, 0, 0] = true ∧ ([1, 1, 1] : List Nat).length = exA.ndim :=
  ⟨rfl, by decide, by decide⟩

/-- value view on it: `9` in sector `(0,1,1)` reads `-9` at `(1,0,1)` after `[2,0,1]`; the stored
    `7` with pending `-1` reads `-7` before and after `[2,0,1]`, and `+7` after `[1,0,2]` -/
example : exA.elem [(0, 0), (1, 0), (1, 0)] [0, 0, 0] = 9
    ∧ (exA.transposeF [2, 0, 1]).elem [(1, 0), (0, 0), (1, 0)] [0, 0, 0] = -9
    ∧ exA.elem [(1, 0), (1, 0), (0, 0)] [0, 0, 0] = -7
    ∧ (exA.transposeF [2, 0, 1]).elem [(0, 0), (1, 0), (1, 0)] [0, 0, 0] = -7
    ∧ (exA.transposeF [1, 0, 2]).elem [(1, 0), (1, 0), (0, 0)] [0, 0, 0] = 7 := by decide

/-- the `±1` hypothesis of `phaseGlobal_phase` is needed: a stored `5` is erased, not negated -/
theorem phaseGlobal_phase_needs_pm :
    ({ exA with phases := [([(1, 0), (1, 0), (0, 0)], 5)] } : Arr Int).phaseGlobal.getPhase
        [(1, 0), (1, 0), (0, 0)] ≠ -5 := by decide

/-- distinct table keys are needed: with a duplicated key `pop` exposes the shadowed entry -/
theorem phaseTranspose_phase_needs_distinct_keys :
    (({ exA with phases := [([(1, 0), (1, 0), (0, 0)], -1), ([(1, 0), (1, 0), (0, 0)], -1)] }
        : Arr Int).phaseTranspose (some [1, 0, 2])).getPhase [(1, 0), (1, 0), (0, 0)] ≠ 1 := by
  decide

/-- sectors of the right length are needed for `transposeF_phase`: a too long key collides with
    `(1,1,0)`, whose pending `-1` times Koszul `-1` should give `+1` -/
theorem transposeF_phase_needs_length :
    (({ exA with blocks := [([(1, 0), (1, 0), (0, 0)], ⟨[1, 1, 1], #[7]⟩),
                            ([(1, 0), (1, 0), (0, 0), (1, 0)], ⟨[1, 1, 1], #[7]⟩)] }
        : Arr Int).transposeF [1, 0, 2]).getPhase (permuted [(1, 0), (1, 0), (0, 0)] [1, 0, 2])
      ≠ exA.getPhase [(1, 0), (1, 0), (0, 0)] * koszul [true, true, false] (some [1, 0, 2]) := by
  decide

end SymmModel.C03
