/-
  Property C05, part f.

  * item 1 — two unfuse steps on different axes commute at value level:
      `unfuseF_steps_commute`, `unfuseA_steps_commute`
    (`unfuse q` then `unfuse p` vs `unfuse p` then `unfuse (q - 1 + #subs p)`, `p < q`: both succeed,
    both results valid, equal value views `VEq`).  Mechanism (`Proofs/Fuse6*.lean`): the value view of
    a step is `unfVal` of the value view of its input; on addresses cut in five parts the two
    compositions read the same entry of the input (`unfVal_comm`); the sign of an `unfuseF` step only
    depends on the segment of the sector at its own axis (`unfuseSign_seg`); the address a step reads
    lies in a box of its input (`collapse_box`).
    Consequence, for any number of fused axes: unfusing LEFT TO RIGHT (axis numbers shifted by what
    was expanded before — the order `reshape` back uses) = unfusing last axis first:
      `unfuse_order_irrelevantF`, `unfuse_order_irrelevantA`.
  * `unfuseLeftToRight_fuse` (next to `unfuseF_fuseF`): fermionic array, ANY admissible groups, no
    restriction on the indices: `fuseF`, then `unfuseF` on the fused axes left to right restores the
    value view of `transposeF a perm` exactly (valid, fermionic, `VEq`).  For contiguous in-order
    groups `perm` is the identity.  `unfuseGroupsF_fuseF_veq` is the same for last-group-first, as a
    `VEq` statement.
    `unfuseLeftToRight_fuseA`: abelian array: same value view as `unfuseGroups` (last group first),
    whose result `unfuse_fuse_blocks` describes block by block.

  Not proved (see report): `fuseInsert_eq_fuseConcat` for several groups; the relation between
  `unfuseAllF (conjF (fuseF a g))` and `conjF a`.
-/
import SymmModel.Proofs.Fuse6Fuse2
import SymmModel.Props.C05All3

namespace SymmModel.C05
open SymmModel FuseP SymmModel.Lazy

variable {R : Type} [Zero R] [Neg R] [LawfulNeg R]

/-! ## two steps commute -/

/-- **two `unfuseF` steps on different axes commute** (value views) -/
theorem unfuseF_steps_commute (a : Arr R) (hv : a.validB = true) (hf : a.fermi = true) {p q : Nat} (hpq : p < q)
    {ixP ixQ : Index} {subsP subsQ : List Index} {extsP extsQ : Extents}
    (hixP : a.indices[p]? = some ixP) (hsubP : ixP.sub = some (subsP, extsP))
    (hixQ : a.indices[q]? = some ixQ) (hsubQ : ixQ.sub = some (subsQ, extsQ)) :
    ∃ y1 z1 y2 z2, Arr.unfuseF a q = .ok y1 ∧ Arr.unfuseF y1 p = .ok z1 ∧ Arr.unfuseF a p = .ok y2
      ∧ Arr.unfuseF y2 (q - 1 + subsP.length) = .ok z2
      ∧ z1.validB = true ∧ z2.validB = true ∧ z1.fermi = true ∧ VEq z1 z2 := by
  obtain ⟨y1, z1, y2, z2, h1, h2, h3, h4, _, g1, _, g2, _, _, hv12⟩ :=
    step_comm (stepOK_F (R := R)) a ⟨hv, hf⟩ hpq hixP hsubP hixQ hsubQ
  exact ⟨y1, z1, y2, z2, h1, h2, h3, h4, g1.1, g2.1, g1.2, hv12⟩

/-- **two `unfuse` steps on different axes commute** (abelian arrays, value views) -/
theorem unfuseA_steps_commute (a : Arr R) (hv : a.validB = true) (hf : a.fermi = false) {p q : Nat} (hpq : p < q)
    {ixP ixQ : Index} {subsP subsQ : List Index} {extsP extsQ : Extents}
    (hixP : a.indices[p]? = some ixP) (hsubP : ixP.sub = some (subsP, extsP))
    (hixQ : a.indices[q]? = some ixQ) (hsubQ : ixQ.sub = some (subsQ, extsQ)) :
    ∃ y1 z1 y2 z2, unfuseA a q = .ok y1 ∧ unfuseA y1 p = .ok z1 ∧ unfuseA a p = .ok y2
      ∧ unfuseA y2 (q - 1 + subsP.length) = .ok z2
      ∧ z1.validB = true ∧ z2.validB = true ∧ z1.fermi = false ∧ VEq z1 z2 := by
  obtain ⟨y1, z1, y2, z2, h1, h2, h3, h4, _, g1, _, g2, _, _, hv12⟩ :=
    step_comm (stepOK_A (R := R)) a ⟨hv, hf⟩ hpq hixP hsubP hixQ hsubQ
  exact ⟨y1, z1, y2, z2, h1, h2, h3, h4, g1.1, g2.1, g1.2, hv12⟩

/-! ## any number of fused axes: left to right = right to left -/

/-- `pls` lists (axis, number of sub-indices) of fused axes of `x`, left to right.  Unfusing them
    left to right — at the axis numbers `l2rAxes pls 0`, each shifted by what was expanded before —
    and unfusing them last axis first both succeed and give equal value views. -/
theorem unfuse_order_irrelevantF (x : Arr R) (hv : x.validB = true) (hf : x.fermi = true)
    (pls : List (Nat × Nat)) (hs : (pls.map (·.1)).Pairwise (· < ·))
    (hfused : ∀ pl ∈ pls, 0 < pl.2 ∧ FusedAtL x pl.1 pl.2) :
    ∃ z z', (l2rAxes pls 0).foldlM Arr.unfuseF x = .ok z ∧ (pls.map (·.1)).reverse.foldlM Arr.unfuseF x = .ok z'
      ∧ z.validB = true ∧ z'.validB = true ∧ z.fermi = true ∧ VEq z z' := by
  obtain ⟨z, z', h1, h2, g1, g2, hveq⟩ := l2r_r2l (stepOK_F (R := R)) pls 0 x ⟨hv, hf⟩ hs hfused
  exact ⟨z, z', h1, h2, g1.1, g2.1, g1.2, hveq⟩

theorem unfuse_order_irrelevantA (x : Arr R) (hv : x.validB = true) (hf : x.fermi = false)
    (pls : List (Nat × Nat)) (hs : (pls.map (·.1)).Pairwise (· < ·))
    (hfused : ∀ pl ∈ pls, 0 < pl.2 ∧ FusedAtL x pl.1 pl.2) :
    ∃ z z', (l2rAxes pls 0).foldlM unfuseA x = .ok z ∧ (pls.map (·.1)).reverse.foldlM unfuseA x = .ok z'
      ∧ z.validB = true ∧ z'.validB = true ∧ z.fermi = false ∧ VEq z z' := by
  obtain ⟨z, z', h1, h2, g1, g2, hveq⟩ := l2r_r2l (stepOK_A (R := R)) pls 0 x ⟨hv, hf⟩ hs hfused
  exact ⟨z, z', h1, h2, g1.1, g2.1, g1.2, hveq⟩

/-- three groups of sizes 2, 1, 3 fused at axis 0: the fused axes are 0 and 2; left to right they
    are unfused at axes 0 and 3 (= 2 + (2 - 1)) -/
example : multiPL [[0, 1], [2], [3, 4, 5]] 0 = [(0, 2), (2, 3)]
    ∧ l2rAxes (multiPL [[0, 1], [2], [3, 4, 5]] 0) 0 = [0, 3] := by decide

/-! ## fuse, then unfuse left to right -/

/-- unfuse the axes that `fuseF(*groups)` created at `position`, LEFT TO RIGHT -/
def unfuseLeftToRightF (groups : List (List Nat)) (position : Nat) (x : Arr R) : Except Err (Arr R) :=
  (l2rAxes (multiPL groups position) 0).foldlM Arr.unfuseF x

/-- … the same with `unfuse` of abelian arrays -/
def unfuseLeftToRight (groups : List (List Nat)) (position : Nat) (x : Arr R) : Except Err (Arr R) :=
  (l2rAxes (multiPL groups position) 0).foldlM unfuseA x

/-- `unfuseF_fuseF` as an equality of value views -/
theorem unfuseGroupsF_fuseF_veq (a : Arr R) (groups : List (List Nat)) (e : Bool)
    (hv : a.validB = true) (hf : a.fermi = true) (hg : groupsOkB groups a.ndim = true) :
    let gi := calcFuseGroupInfo groups a.duals
    ∃ y z, Arr.fuseF a groups .insert e = .ok y ∧ unfuseGroupsF groups gi.position y = .ok z
      ∧ z.validB = true ∧ VEq z (a.transposeF gi.perm) := by
  intro gi
  obtain ⟨y, z, h1, h2, hzv, hzf, hzi, hzs, hzc, hzo, hst, hex⟩ := unfuseF_fuseF a groups e hv hf hg
  have hok := groupsOk_iff.1 hg
  have hisp : Arr.isPerm gi.perm a.ndim = true := by
    have := perm_isPerm (hokD hok); rwa [duals_length] at this
  have hTV := ValidP.transposeF_valid a gi.perm true ((ValidP.validB_iff a).1 hv) hf hisp
  have hfull := Full.of_valid hv hf
  have htr := hfull.trOk hisp
  have hsec := transposeF_sectors htr
  have hzva := validArr_of_validB hzv
  refine ⟨y, z, h1, h2, hzv, ⟨?_, ?_, hzi, ?_, ?_, ?_⟩⟩
  · rw [hzs]; rfl
  · rw [hzf]; exact hf.symm
  · rw [hzc]; rfl
  · rw [hzo]; rfl
  apply elem_ext_of_inBox hzva (validArr_of_core hTV.core) hzi
  intro K shp hK J hJ
  cases hl : alookup z.blocks K with
  | some V =>
    have hVs : V.shape = shp := by
      have := (hzva.blk _ (alookup_some_mem hl)).2.1
      rw [hK] at this; simpa using this.symm
    by_cases hmem : ∃ s b, (s, b) ∈ a.blocks ∧ K = permuted s gi.perm
    · obtain ⟨s, b, hsb, rfl⟩ := hmem
      obtain ⟨V', hV', _, hval⟩ := hst s b hsb
      rw [hl] at hV'; simp only [Option.some.injEq] at hV'; subst hV'
      exact hval J (by rw [hVs]; exact hJ)
    · have := hex K V hl (fun s b hsb hK' => hmem ⟨s, b, hsb, hK'⟩) J (by rw [hVs]; exact hJ)
      rw [this.1, this.2]
  | none =>
    rw [elem_eq, hl]
    simp only
    have hnot : K ∉ (a.transposeF gi.perm).blocks.map (·.1) := by
      intro hKm
      have : K ∈ (a.transposeF gi.perm).sectors := hKm
      rw [hsec] at this
      obtain ⟨s, hs, rfl⟩ := List.mem_map.1 this
      obtain ⟨sb, hsb, rfl⟩ := List.mem_map.1 hs
      obtain ⟨V', hV', _⟩ := hst sb.1 sb.2 hsb
      rw [hl] at hV'; cases hV'
    rw [elem_eq, alookup_eq_none_iff.2 hnot]

/-- **fuse, then unfuse LEFT TO RIGHT** (the order `reshape` back uses): for a valid fermionic array
    and any admissible groups, `fuseF` succeeds, unfusing the fused axes left to right with `unfuseF`
    succeeds, the result is valid and fermionic and has exactly the value view of `transposeF a perm`
    (for contiguous in-order groups `perm` is the identity); it also has the value view of the
    last-group-first result of `unfuseF_fuseF`. -/
theorem unfuseLeftToRight_fuse (a : Arr R) (groups : List (List Nat)) (e : Bool)
    (hv : a.validB = true) (hf : a.fermi = true) (hg : groupsOkB groups a.ndim = true) :
    let gi := calcFuseGroupInfo groups a.duals
    ∃ y z z', Arr.fuseF a groups .insert e = .ok y ∧ unfuseLeftToRightF groups gi.position y = .ok z
      ∧ unfuseGroupsF groups gi.position y = .ok z'
      ∧ z.validB = true ∧ z.fermi = true ∧ VEq z z' ∧ VEq z (a.transposeF gi.perm) := by
  intro gi
  obtain ⟨y, z, z', h1, h2, h3, hzv, hzf, hveq⟩ := l2r_fuseF a groups e hv hf (groupsOk_iff.1 hg)
  obtain ⟨y', z'', h1', h3', _, hvT⟩ := unfuseGroupsF_fuseF_veq a groups e hv hf hg
  rw [h1] at h1'
  simp only [Except.ok.injEq] at h1'
  subst h1'
  have h3'' : unfuseGroupsF groups gi.position y = .ok z'' := h3'
  rw [h3] at h3''
  simp only [Except.ok.injEq] at h3''
  subst h3''
  exact ⟨y, z, z', h1, h2, h3, hzv, hzf, hveq, hveq.trans hvT⟩

/-- abelian arrays: fuse, then unfuse left to right = unfuse last group first (whose result
    `unfuse_fuse_blocks` describes block by block), as value views -/
theorem unfuseLeftToRight_fuseA (a : Arr R) (groups : List (List Nat))
    (hv : a.validB = true) (hf : a.fermi = false) (hg : groupsOkB groups a.ndim = true) :
    let gi := calcFuseGroupInfo groups a.duals
    ∃ x z z', fuseCore a groups .insert = .ok x ∧ unfuseLeftToRight groups gi.position x = .ok z
      ∧ unfuseGroups groups gi.position x = .ok z'
      ∧ z.validB = true ∧ z.fermi = false ∧ VEq z z' := by
  intro gi
  have hok := groupsOk_iff.1 hg
  obtain ⟨z, z', h2, h3, hzv, hzf, hveq⟩ := l2r_fuseA a groups hv hf hok
  exact ⟨_, z, z', fuseCore_multi_eq (validArr_of_validB hv) hok, h2, h3, hzv, hzf, hveq⟩

/-! ## examples -/

/-- the rank-4 example as a fermionic array (odd charges on two legs of each stored sector), with a
    pending sign on one sector -/
def exG : Arr Int := { exB with fermi := true, phases := [([(1, 0), (0, 0), (0, 0), (1, 0)], -1)] }
example : exG.validB = true ∧ groupsOkB [[1, 0], [3, 2]] exG.ndim = true := by decide

/-- two fused axes, both directions of unfusing (the left-to-right run unfuses at axes 0 and 2):
    the dict orders differ and both store two additional zero blocks, the values agree with each
    other and with `transposeF` at every sector -/
example : l2rAxes (multiPL [[1, 0], [3, 2]] 0) 0 = [0, 2]
    ∧ ∀ K ∈ [[((0 : Int), (0 : Int)), (1, 0), (0, 0), (1, 0)], [(0, 0), (1, 0), (1, 0), (0, 0)],
             [(1, 0), (0, 0), (0, 0), (1, 0)], [(1, 0), (0, 0), (1, 0), (0, 0)], [(0, 0), (0, 0), (1, 0), (1, 0)]],
        elemAt (do let y ← Arr.fuseF exG [[1, 0], [3, 2]] .insert true; unfuseLeftToRightF [[1, 0], [3, 2]] 0 y)
            K [0, 0, 0, 0]
          = elemAt (do let y ← Arr.fuseF exG [[1, 0], [3, 2]] .insert true; unfuseGroupsF [[1, 0], [3, 2]] 0 y)
            K [0, 0, 0, 0]
        ∧ elemAt (do let y ← Arr.fuseF exG [[1, 0], [3, 2]] .insert true; unfuseLeftToRightF [[1, 0], [3, 2]] 0 y)
            K [0, 0, 0, 0]
          = (exG.transposeF [1, 0, 3, 2]).elem K [0, 0, 0, 0] := by
  decide +kernel

end SymmModel.C05
