/-
  Property C10 — conjugation gives the bra: the involution / adjoint laws.

  (The norm clauses of C10 — `tensordot (conj x) x = Σ|x|²` and the network form — are not
  part of this file; see "what is not proved here" at the end.)

  All theorems are about the model definitions `Arr.conjA` (Model/Arr.lean), `Arr.conjF`,
  `Arr.daggerF`, `Arr.transposeF`, `Arr.oddposDag` (Model/Fermi.lean) and `Index.conj`
  (Model/Index.lean), for EVERY array over an arbitrary scalar type `R` with `[Zero R] [Neg R]
  [Conj R]` and the laws `- - x = x`, `-0 = 0`, `conj (-x) = - conj x`, `conj (conj x) = x`,
  `conj 0 = 0` (`Lazy.LawfulNegConj`; instances: `Int` with the trivial conjugation, `GRat`).

  Equality of fermionic arrays is observational equality `C09.ObsEq` (same symmetry, indices,
  charge, labels, stored sectors with block shapes, same value `elem s off` at every address):
  `conj` and `dagger` keep signs pending, so the stored data of `conj (conj x)` and `x` differ
  while all values agree.  Hypotheses on arrays are clauses of `Arr.validB` (`Lazy.SignOk`,
  `SecLen`, `SecValid`, `BlocksWf`, `ShapeLen`, valid total charge; `hyps_of_valid`).
-/
import SymmModel.Proofs.LazyLemmas
import SymmModel.Props.C09

namespace SymmModel.C10
open SymmModel Lazy

variable {R : Type} [Zero R] [Neg R] [Conj R]

/-! ## 6. labels and indices -/

/-- conjugating the odd-position labels (reverse, flip each direction) is an involution -/
theorem oddposDag_involutive (o : List (Int × Bool)) : Arr.oddposDag (Arr.oddposDag o) = o :=
  Lazy.oddposDag_involutive o

/-- `BlockIndex.conj` is an involution, recursively through all sub-index levels -/
theorem Index.conj_conj (i : Index) : i.conj.conj = i := Lazy.Index.conj_conj i

theorem Index.conjList_conjList (l : List Index) : Index.conjList (Index.conjList l) = l :=
  Lazy.Index.conjList_conjList l

theorem Index.map_conj_conj (l : List Index) : (l.map Index.conj).map Index.conj = l :=
  Lazy.Index.map_conj_conj l

/-- `conj` flips the direction -/
theorem Index.conj_dual (i : Index) : i.conj.dual = !i.dual := Lazy.Index.conj_dual i

/-- a doubly nested fused index -/
example : (Index.mk [((0, 0), 2)] true
    (some ([Index.mk [((0, 0), 1)] false none,
            Index.mk [((0, 0), 2)] true (some ([Index.mk [((0, 0), 2)] false none], []))], []))).conj.conj
    = Index.mk [((0, 0), 2)] true
    (some ([Index.mk [((0, 0), 1)] false none,
            Index.mk [((0, 0), 2)] true (some ([Index.mk [((0, 0), 2)] false none], []))], [])) :=
  Index.conj_conj _

/-! ## 7. `conj ∘ conj` -/

omit [Conj R] in
/-- all hypotheses below follow from `validB` -/
theorem hyps_of_valid {a : Arr R} (h : a.validB = true) (hf : a.fermi = true) :
    SignOk a ∧ SecLen a ∧ SecValid a ∧ BlocksWf a ∧ ShapeLen a ∧ a.sym.valid a.charge = true := by
  refine ⟨SignOk.of_valid h hf, SecLen.of_valid h, SecValid.of_valid h, BlocksWf.of_valid h,
    ShapeLen.of_valid h, ?_⟩
  unfold Arr.validB at h
  simp only [Bool.and_eq_true] at h
  exact h.1.1.1.2

/-- abelian `conj` is an involution (exact equality) for a valid total charge -/
theorem conjA_conjA [LawfulNegConj R] (a : Arr R) (hv : a.sym.valid a.charge = true) :
    a.conjA.conjA = a := Lazy.conjA_conjA a hv

/-- the validity of the charge is needed: `Z4.sign(Z4.sign(5)) = 1` -/
theorem conjA_conjA_needs_valid :
    let a : Arr Int := { sym := .Z4, fermi := false, indices := [], charge := (5, 0), blocks := [] }
    a.conjA.conjA.charge ≠ a.charge := by decide

/-- **`conj ∘ conj = id` for the default options** (`phase_permutation=True`,
    `phase_dual=False`): the reversal sign and the odd-parity global sign each appear twice -/
theorem conjF_conjF [LawfulNegConj R] {a : Arr R} (h : SignOk a) (hl : SecLen a)
    (hv : SecValid a) (hc : a.sym.valid a.charge = true) :
    C09.ObsEq (a.conjF.conjF) a := by
  simpa using Lazy.conjF_conjF (a := a) true false h hl hv hc

/-- **the exact law for every setting of the options**: `conj ∘ conj` is the identity for
    `phase_dual=False`, and for `phase_dual=True` it multiplies by `(-1)^parity` — `-x` for an
    odd-parity `x`, `x` for an even one.  (The dual-leg signs of the two conjugations flip
    complementary sets of legs; together they flip every odd charge of the sector once, and the
    number of odd charges of a valid sector has the parity of the total charge.) -/
theorem conjF_conjF_general [LawfulNegConj R] {a : Arr R} (pp pd : Bool) (h : SignOk a)
    (hl : SecLen a) (hv : SecValid a) (hc : a.sym.valid a.charge = true) :
    C09.ObsEq ((a.conjF pp pd).conjF pp pd)
      (if pd && a.parity then ({ a with blocks := a.blocks.map (fun (k, b) => (k, b.negK)) } : Arr R)
       else a) :=
  Lazy.conjF_conjF pp pd h hl hv hc

/-- value-level form -/
theorem conjF_conjF_elem [LawfulNegConj R] {a : Arr R} (pp pd : Bool) (h : SignOk a) {s : Sector}
    (hl : s.length = a.ndim) (hv : a.isValidSector s = true) (off : List Nat) :
    ((a.conjF pp pd).conjF pp pd).elem s off
      = sgnI (if pd && a.parity then -1 else 1) (a.elem s off) :=
  Lazy.conjF_conjF_elem pp pd h hl hv off

/-! ## 8. `dagger` -/

/-- conjugate-transposing a (well-formed, rank-`n`) block by the full reversal twice is the
    identity -/
theorem conjT_conjT [LawfulNegConj R] (b : Blk R) {n : Nat} (hn : b.shape.length = n)
    (hw : b.wf = true) :
    (((b.conjK).transposeK (Arr.reversedAxes n)).conjK).transposeK (Arr.reversedAxes n) = b :=
  Lazy.conjT_conjT b hn hw

/-- the sign of the virtual reversal (`perm=None` in `calc_phase_permutation`) is the sign of
    the explicit reversal permutation -/
theorem koszul_none_eq_reverse (par : List Bool) :
    koszul par none = koszul par (some (List.range par.length).reverse) :=
  Lazy.koszul_none_eq_reverse par

/-- **the adjoint equals the conjugate followed by the fermionic reversal of the axes**, for
    both values of `phase_dual` -/
theorem dagger_eq_conj_rev [LawfulNegConj R] {a : Arr R} (pd : Bool) (h : SignOk a) (hl : SecLen a) :
    C09.ObsEq (a.daggerF pd) ((a.conjF true pd).transposeF (Arr.reversedAxes a.ndim)) :=
  Lazy.dagger_eq_conj_rev pd h hl

/-- **`dagger ∘ dagger = id` for the default option** -/
theorem daggerF_daggerF [LawfulNegConj R] {a : Arr R} (h : SignOk a) (hl : SecLen a)
    (hv : SecValid a) (hw : BlocksWf a) (hs : ShapeLen a) (hc : a.sym.valid a.charge = true) :
    C09.ObsEq (a.daggerF.daggerF) a := by
  simpa using Lazy.daggerF_daggerF (a := a) false h hl hv hw hs hc

/-- the exact law for both values of `phase_dual`: `(-1)^parity` for `phase_dual=True`.  The
    stored blocks of `dagger (dagger a)` are *equal* to those of `a` (`conjT_conjT`); only the
    pending-sign table differs. -/
theorem daggerF_daggerF_general [LawfulNegConj R] {a : Arr R} (pd : Bool) (h : SignOk a)
    (hl : SecLen a) (hv : SecValid a) (hw : BlocksWf a) (hs : ShapeLen a)
    (hc : a.sym.valid a.charge = true) :
    C09.ObsEq ((a.daggerF pd).daggerF pd)
      (if pd && a.parity then ({ a with blocks := a.blocks.map (fun (k, b) => (k, b.negK)) } : Arr R)
       else a) :=
  Lazy.daggerF_daggerF pd h hl hv hw hs hc

theorem daggerF_daggerF_blocks [LawfulNegConj R] {a : Arr R} (pd pd' : Bool) (hw : BlocksWf a)
    (hs : ShapeLen a) : ((a.daggerF pd).daggerF pd').blocks = a.blocks :=
  Lazy.daggerF_daggerF_blocks pd pd' hw hs

/-! ## non-vacuity: odd Z2 fermionic arrays over `Int` and `GRat` with pending signs -/

open scoped SymmModel.Lazy

example : C09.exA.validB = true ∧ C09.exA.parity = true ∧ C09.exA.phases ≠ [] := by decide

/-- `conj ∘ conj` on the odd array `exA` (pending sign on one sector): identity by default … -/
example : C09.ObsEq (C09.exA.conjF.conjF) C09.exA :=
  let h := hyps_of_valid (a := C09.exA) (by decide) rfl
  conjF_conjF h.1 h.2.1 h.2.2.1 h.2.2.2.2.2

/-- … and `-x` with the dual-leg option; concretely on the value view -/
example : ((C09.exA.conjF true true).conjF true true).elem [(1, 0), (0, 0)] [1, 0] = -4
    ∧ C09.exA.elem [(1, 0), (0, 0)] [1, 0] = 4
    ∧ (C09.exA.conjF.conjF).elem [(1, 0), (0, 0)] [1, 0] = 4
    ∧ ((C09.exA.conjF true true).conjF true true).phases ≠ C09.exA.phases := by decide +kernel

example : C09.ObsEq (C09.exA.daggerF.daggerF) C09.exA :=
  let h := hyps_of_valid (a := C09.exA) (by decide) rfl
  daggerF_daggerF h.1 h.2.1 h.2.2.1 h.2.2.2.1 h.2.2.2.2.1 h.2.2.2.2.2

example : (C09.exA.daggerF true).elem [(0, 0), (1, 0)] [0, 1]
      = ((C09.exA.conjF true true).transposeF [1, 0]).elem [(0, 0), (1, 0)] [0, 1]
    ∧ (C09.exA.daggerF true).elem [(0, 0), (1, 0)] [0, 1] = -4 := by decide +kernel

/-- a complex (Gaussian-rational) instance: the law class is inhabited by `GRat` -/
def exG : Arr GRat :=
  { sym := .Z2, fermi := true, charge := (1, 0),
    indices := [Index.mk [((0, 0), 1), ((1, 0), 1)] false none,
                Index.mk [((0, 0), 1), ((1, 0), 1)] true none],
    blocks := [([(0, 0), (1, 0)], ⟨[1, 1], #[⟨1, 2⟩]⟩), ([(1, 0), (0, 0)], ⟨[1, 1], #[⟨0, -3⟩]⟩)],
    phases := [([(0, 0), (1, 0)], -1)],
    oddpos := [(2, true)] }

example : C09.ObsEq ((exG.daggerF true).daggerF true)
    ({ exG with blocks := exG.blocks.map (fun (k, b) => (k, b.negK)) } : Arr GRat) := by
  have h := hyps_of_valid (a := exG) (by decide +kernel) rfl
  have := daggerF_daggerF_general (a := exG) true h.1 h.2.1 h.2.2.1 h.2.2.2.1 h.2.2.2.2.1 h.2.2.2.2.2
  have hp : (true && exG.parity) = true := by decide
  rwa [if_pos hp] at this

/-
  What is not proved here (the remaining clauses of C10, PLANNED):
  * `norm_conj` : `tensordotF (conjF x pd) x` over all axes is `Σ |x|²` when every index is
    ket-like or `pd = true`, for even and odd parity, both operand orders;
  * the network form (conjugating a 2–3 tensor network tensor by tensor).
  They need the value-level law of `tensordotF` (C04/C06), which is another property's subject.
-/

end SymmModel.C10
