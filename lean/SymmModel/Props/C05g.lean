/-
  Property C05, part g — the concat strategy for SEVERAL groups.

  Proved:
  * `fuseConcat_multi`: for a valid array and any admissible, non-empty list of groups,
    `fuseCore a groups .concat` succeeds and is the explicit array `fusedArrCM`: the reshaped blocks
    grouped by (new sector, sub-sectors) — `groupedM`, a dict of dicts in insertion order — and, per
    new sector, the NESTED CONCATENATION `nest` over the levels of the groups (`lvFrom`): a
    single-axis group contributes its charge to the key, a multi-axis group concatenates along its
    axis over the extent of the fused charge, in extent order; a missing sub-block is a block of
    zeros of shape `zsM` (the closure `zero_shape_of`, evaluated: `zeroShape_ok`).
  * `concat_sectors_eq_insert`: both strategies store exactly the same sectors, each once.
  * `nest_get` (get-characterisation of the nested concatenation, abstract levels): when the leaves
    have the piece shapes, the result has the full shape and its entry at every in-box address `i` is
    the entry of the leaf chosen by `i` (`decQ`: on every multi level the extent entry whose range
    contains the coordinate) at the address with the in-piece offsets (`decOff`).
  * `pieceShape_explicit`: the piece shape of a list of choices is the fused shape with the chosen
    sub-sector sizes on the multi-axis group axes.

  Partial (`insert_eq_concat_multi_partial`, statement in the comment there): the block-by-block
  equality with the insert strategy for several groups.  What remains is the instantiation of
  `nest_get` (levels fit the fused shape; stored leaves have the piece shape) and the link between
  `decQ` / `decOff` and the insert regions `regionM`.  The one-group theorem
  `fuseInsert_eq_fuseConcat` (part a) is unaffected.  The examples compare both strategies on two
  and three groups, dict order included.
-/
import SymmModel.Proofs.Fuse7Concat
import SymmModel.Props.C05All4

namespace SymmModel.C05
open SymmModel FuseP

variable {R : Type} [Zero R]

/-- the fused array of the concat strategy -/
def fusedArrCM (a : Arr R) (groups : List (List Nat)) : Arr R :=
  { a with indices := newIdxM a groups, blocks := concatBlocksM a groups }

/-- **the concat strategy, several groups**: succeeds, explicit result -/
theorem fuseConcat_multi (a : Arr R) (groups : List (List Nat)) (hv : a.validB = true)
    (hg : groupsOkB groups a.ndim = true) (hne : groups ≠ []) :
    fuseCore a groups .concat = .ok (fusedArrCM a groups)
    ∧ (fusedArrCM a groups).indices = (fusedArrM a groups).indices
    ∧ (fusedArrCM a groups).blocks
        = (groupedM a groups).map (fun p =>
            (p.1, nest (leafM p.2 (zsM a groups p.1)) (lvFrom a groups p.1 0 groups.length) [])) := by
  have hva := validArr_of_validB hv
  have hok := groupsOk_iff.1 hg
  refine ⟨?_, rfl, rfl⟩
  unfold fuseCore
  rw [calcFuseBlockInfo_eq hva hok]
  simp only [bind, Except.bind, fuseConcat_multi_eq hva hok hne, pure, Except.pure]
  rfl

/-- both strategies store the same sectors, each once -/
theorem concat_sectors_eq_insert (a : Arr R) (groups : List (List Nat)) (hv : a.validB = true)
    (hg : groupsOkB groups a.ndim = true) :
    (∀ ns, ns ∈ (fusedArrCM a groups).sectors ↔ ns ∈ (fusedArrM a groups).sectors)
    ∧ (fusedArrCM a groups).sectors.Nodup ∧ (fusedArrM a groups).sectors.Nodup := by
  have hva := validArr_of_validB hv
  have hok := groupsOk_iff.1 hg
  have hG := groupedM_inv hva hok
  have hI := fusedBlocksM_inv hva hok
  have hkeys : (fusedArrCM a groups).sectors = (groupedM a groups).map (·.1) := by
    simp [fusedArrCM, Arr.sectors, concatBlocksM, List.map_map, Function.comp]
  refine ⟨fun ns => ?_, by rw [hkeys]; exact hG.nodup, hI.nodup⟩
  rw [hkeys, hG.keys]
  show _ ↔ ns ∈ (fusedBlocksM a groups).map (·.1)
  rw [hI.keys]
  simp only [List.map_map]
  rfl

/-- **entries of a nested concatenation** (abstract levels) -/
theorem nest_get (leaf : List Sector → Blk R) (lv : List Lvl) (key : List Sector) (base : List Nat)
    (hok : LvOk lv base)
    (hleaf : ∀ qs, Choice lv qs → (leaf (key ++ qs.map (·.1))).shape = pieceShape lv base qs) :
    (nest leaf lv key).shape = base
    ∧ ∀ i, inBox base i = true →
        Choice lv (decQ lv i) ∧ inBox (pieceShape lv base (decQ lv i)) (decOff lv i) = true
        ∧ (nest leaf lv key).get i = (leaf (key ++ (decQ lv i).map (·.1))).get (decOff lv i) :=
  nest_spec leaf lv key base hok hleaf

/-- the piece shape of a list of choices for the levels of the groups -/
theorem pieceShape_explicit (a : Arr R) (groups : List (List Nat)) (ns : Sector) (b : List Nat)
    (qs : List (Sector × Nat)) (hb : b.length = ndimM a groups) (hq : qs.length = groups.length) :
    pieceShape (lvFrom a groups ns 0 groups.length) b qs
      = (List.range (ndimM a groups)).map (fun ax =>
          if axMulti a groups ax then (qs.getD (ax - (giM a groups).position) ([], 0)).2 else b.getD ax 0) := by
  rw [pieceShape_lvFrom ns (ndimM a groups) groups.length 0 b qs hb hq (by simp only [ndimM]; omega)]
  apply List.map_congr_left
  intro ax _
  simp only [axMulti, Nat.add_zero, Nat.sub_zero]
  rfl

/-  `insert_eq_concat_multi_partial` — NOT proved.  Full statement:
      ∀ ns, (alookup (fusedArrM a groups).blocks ns = none ∧ alookup (fusedArrCM a groups).blocks ns = none)
        ∨ ∃ B C, alookup (fusedArrM a groups).blocks ns = some B ∧ alookup (fusedArrCM a groups).blocks ns = some C
            ∧ B = C
    for `a.validB`, `groupsOkB groups a.ndim`, `groups ≠ []`.  Proved for one group in part a
    (`fuseInsert_eq_fuseConcat`); for several groups the sector sets agree (`concat_sectors_eq_insert`)
    and the examples below agree block by block, in dict order. -/

/-! ## examples -/

set_option synthInstance.maxSize 1024 in
/-- two multi-axis groups (rank 4, two of six sectors stored — the sub-blocks missing in the fused
    block are zeros): both strategies give the same dict, in the same order -/
example : view (fuseCore exB [[1, 0], [3, 2]] .concat) = view (fuseCore exB [[1, 0], [3, 2]] .insert)
    ∧ view (fuseCore exB [[0, 1], [2, 3]] .concat) = view (fuseCore exB [[0, 1], [2, 3]] .insert)
    ∧ (view (fuseCore exB [[0, 1], [2, 3]] .concat)).isSome = true := by
  decide +kernel

set_option synthInstance.maxSize 1024 in
/-- a single-axis group between two multi-axis groups, and a group of three axes -/
example : view (fuseCore exB [[0, 1], [2], [3]] .concat) = view (fuseCore exB [[0, 1], [2], [3]] .insert)
    ∧ view (fuseCore exB [[3], [0, 1, 2]] .concat) = view (fuseCore exB [[3], [0, 1, 2]] .insert)
    ∧ view (fuseCore exA [[2, 0], [1]] .concat) = view (fuseCore exA [[2, 0], [1]] .insert) := by
  decide +kernel

/-! ## conj of a fused fermionic array — observations (NOT a theorem)

  Conjectured relation, consistent with every case evaluated (and with the sign factorisation of part
  d: the reversal factors of `fuseF`, of `conjF` on the fused array and of `unfuseF` on the conjugate
  cancel in pairs, the flip factors do not):
      unfuseAllF (conjF (fuseF a groups)) = ± conjF (transposeF a perm)   per sector `s`, with
      sign = (-1)^#{ legs `ax` of a group with odd charge `s[ax]` whose direction differs from the
                     direction of the group's first leg }
  In particular the two agree when every group consists of legs of one direction, or has no odd leg
  among those that differ from its first leg.  The examples check the formula on stored numbers
  (pending signs multiplied in) for identity permutations. -/

/-- number of odd legs whose direction differs from their group's -/
def mismatchOdd (a : Arr Int) (groups : List (List Nat)) (s : Sector) : Nat :=
  ((groups.map (fun g => g.filter (fun ax =>
    (a.duals.getD ax false != a.duals.getD (g.headD 0) false) && a.sym.parity (s.getD ax (0, 0))))).flatten).length

/-- observed = predicted, sector by sector -/
def conjFuseObs (a : Arr Int) (groups : List (List Nat)) : Bool :=
  match (do let y ← Arr.fuseF a groups .insert true; Arr.unfuseAllF y.conjF) with
  | .ok z => a.conjF.phaseSync.blocks.all (fun sb =>
      match alookup z.phaseSync.blocks sb.1 with
      | some b => b.data.toList == (if mismatchOdd a groups sb.1 % 2 == 1 then sb.2.data.toList.map (fun x => -x)
                                     else sb.2.data.toList)
      | none => false)
  | .error _ => false

example : conjFuseObs exF' [[0], [1, 2]] = true ∧ conjFuseObs exF' [[0, 1], [2]] = true
    ∧ conjFuseObs exF' [[0, 1, 2]] = true ∧ conjFuseObs exG [[0, 1], [2, 3]] = true
    ∧ conjFuseObs exG [[0, 1, 2, 3]] = true
    ∧ mismatchOdd exF' [[0], [1, 2]] [(0, 0), (1, 0), (1, 0)] = 1 ∧ mismatchOdd exG [[0, 1], [2, 3]] [(1, 0), (0, 0), (0, 0), (1, 0)] = 0 := by
  decide +kernel

end SymmModel.C05
