/-
  SymmModel.Props.C01d — property C01, anchor "debug-mode audit", completions of Props/C01c.lean.

  * `matchesE_symm`          FULL symmetry of `BlockIndex.matches` WITH sub-index information (answers and
                             raised AttributeErrors alike), under the recursive dict invariant
                             `SmallCheck.dictInvB` (distinct keys in every chargemap, extents table and
                             extent, through all sub-indices — what being a Python dict means).
  * `matchesE_symm_wf`       … in particular for the raw image of any two well-formed indices
                             (`Index.wfB`, a clause of `Arr.validB`): `dictInv_of_wfB`.
  * `checkWith_symm`         `a.check_with(b, axes_a, axes_b)` = `b.check_with(a, axes_b, axes_a)`
                             (same verdict, same exception class) for arrays of dicts.
  * `checkWith_implies_tdotAdmissibleCommon`
                             `check_with` accepting (possibly NEGATIVE axes, in range, as many on both sides,
                             distinct after normalisation) ⇒ the model's weak contraction guard
                             `AssocP.tdotAdmissibleCommonB` on the normalised axes.
  * `checkWith_tensordotF_no_raise`, `checkWith_tensordotA_no_raise`
                             `check_with` accepting ⇒ `tensordot` over those axes does not raise, in EVERY
                             mode (blockwise / fused / auto): for valid fermionic operands the only exception
                             left is the odd-label clash of `resolve_combined_oddpos` (and then exactly that
                             error is raised); for valid operands without pending signs (every valid abelian
                             array) there is none.

  Remaining gap: `check_with` does not compare the number of axes nor their distinctness
  (`C01.checkWith_ignores_axes_length`); both are hypotheses here, as is the range of the axes
  (`tensordot` reduces any integer modulo `ndim`, `check_with` raises IndexError outside `[-ndim, ndim)`).
-/
import SymmModel.Props.C01c
import SymmModel.Proofs.SmallCheck
import SymmModel.Proofs.TdotFusedW2

namespace SymmModel.C01
open SymmModel SymmModel.Check SymmModel.ValidP SymmModel.CheckP SymmModel.SmallCheck

variable {R : Type}

/-! ## 1. symmetry of `matches` -/

/-- **`BlockIndex.matches` is symmetric**, sub-index information included: the same answer, and the same
    AttributeError when exactly one side is fused — for raw indices all of whose tables are dicts -/
theorem matchesE_symm (a b : RIndex) (ha : dictInvB a = true) (hb : dictInvB b = true) :
    RIndex.matchesE a b = RIndex.matchesE b a :=
  SmallCheck.matchesE_symm a b ha hb

/-- the zipped sub-index comparison is symmetric as well -/
theorem matchesAll_symm (l1 l2 : List RIndex) (h1 : dictInvListB l1 = true) (h2 : dictInvListB l2 = true) :
    RIndex.matchesAll l1 l2 = RIndex.matchesAll l2 l1 :=
  SmallCheck.matchesAll_symm l1 l2 h1 h2

/-- every well-formed index satisfies the invariant (so every index of a valid array does) -/
theorem dictInv_of_wfB (sym : Sym) (ix : Index) (h : Index.wfB sym ix = true) :
    dictInvB (indexToRaw ix) = true :=
  SmallCheck.dictInv_of_wfB sym ix h

/-- symmetry of `matches` on well-formed indices (fused or not, any nesting depth) -/
theorem matchesE_symm_wf (sym : Sym) (ia ib : Index) (ha : Index.wfB sym ia = true)
    (hb : Index.wfB sym ib = true) :
    RIndex.matchesE (indexToRaw ia) (indexToRaw ib) = RIndex.matchesE (indexToRaw ib) (indexToRaw ia) :=
  matchesE_symm _ _ (dictInv_of_wfB sym ia ha) (dictInv_of_wfB sym ib hb)

theorem dictInv_of_validB (a : Arr R) (h : a.validB = true) :
    ∀ ix ∈ (arrToRaw a).indices, dictInvB ix = true := by
  intro rx hrx
  have hidx : (arrToRaw a).indices = a.indices.map indexToRaw := by
    simp [arrToRaw, indexListToRaw_eq_map]
  rw [hidx] at hrx
  obtain ⟨ix, hix, rfl⟩ := List.mem_map.mp hrx
  exact dictInv_of_wfB a.sym ix (((validB_iff a).mp h).idx ix hix)

/-- the invariant is satisfiable by a fused index; `matches` of it with its conjugate answers `True` both
    ways, with a differently fused index `False` both ways -/
example :
    let f := ckFusedWith [ckSub, ckSub] ckExts
    let g := ckFusedWith [ckSub, ckSub]
      [((0, 0), [([(0, 0), (0, 0)], 1)]),
       ((1, 0), [([(0, 0), (1, 0)], 2)]),
       ((2, 0), [([(1, 0), (1, 0)], 1)])]
    Index.wfB .U1 f = true ∧ dictInvB (indexToRaw f) = true
    ∧ RIndex.matchesE (indexToRaw f) (indexToRaw f.conj) = .ok true
    ∧ RIndex.matchesE (indexToRaw f.conj) (indexToRaw f) = .ok true
    ∧ RIndex.matchesE (indexToRaw f) (indexToRaw g.conj) = .ok false
    ∧ RIndex.matchesE (indexToRaw g.conj) (indexToRaw f) = .ok false := by decide

/-- without the dict invariant on an EXTENT the model's `matches` is not symmetric (such a state is not a
    Python dict; this is why the hypothesis is there) -/
example :
    let x : RIndex := .mk [((0, 0), 2)] false (some ([], [((0, 0), [([], 1), ([], 1)])]))
    let y : RIndex := .mk [((0, 0), 2)] true (some ([], [((0, 0), [([], 1), ([(0, 0)], 5)])]))
    RIndex.matchesE x y ≠ RIndex.matchesE y x := by decide

/-! ## 2. symmetry of `check_with` -/

theorem forE_map {α β : Type} (f : β → Except Err Unit) (g : α → β) (l : List α) :
    forE f (l.map g) = forE (fun x => f (g x)) l := by
  induction l with
  | nil => rfl
  | cons x xs ih => simp only [List.map_cons, forE, ih]

theorem forE_congr {α : Type} (f g : α → Except Err Unit) (l : List α) (h : ∀ x ∈ l, f x = g x) :
    forE f l = forE g l := by
  induction l with
  | nil => rfl
  | cons x xs ih =>
    simp only [forE]
    rw [h x List.mem_cons_self, ih (fun y hy => h y (List.mem_cons_of_mem _ hy))]

theorem pyIdx_mem {α : Type} {l : List α} {i : Int} {x : α} (h : pyIdx l i = some x) : x ∈ l := by
  unfold pyIdx at h
  split at h
  · exact List.mem_of_getElem? h
  · split at h
    · exact List.mem_of_getElem? h
    · cases h

theorem zip_swap {α β : Type} (l1 : List α) (l2 : List β) :
    l2.zip l1 = (l1.zip l2).map (fun p => (p.2, p.1)) := by
  induction l1 generalizing l2 with
  | nil => cases l2 <;> rfl
  | cons x xs ih =>
    cases l2 with
    | nil => rfl
    | cons y ys => simp [List.zip_cons_cons, ih ys]

/-- **`check_with` is symmetric**: `a.check_with(b, axes_a, axes_b)` and `b.check_with(a, axes_b, axes_a)`
    accept together and raise the same class of exception together (raw arrays whose index tables are
    dicts; any axes, negative and out of range included) -/
theorem checkWith_symm (a b : RArr) (ha : ∀ ix ∈ a.indices, dictInvB ix = true)
    (hb : ∀ ix ∈ b.indices, dictInvB ix = true) (xa xb : List Int) :
    a.checkWith b xa xb = b.checkWith a xb xa := by
  unfold RArr.checkWith
  by_cases hs : a.sym = b.sym
  · have hs' : b.sym = a.sym := hs.symm
    rw [decide_eq_true hs, decide_eq_true hs']
    simp only [Bool.not_true, Bool.false_eq_true, if_false]
    rw [zip_swap xa xb, forE_map]
    apply forE_congr
    intro p _
    simp only
    cases h1 : pyIdx a.indices p.1 with
    | none => cases h2 : pyIdx b.indices p.2 <;> rfl
    | some ia =>
      cases h2 : pyIdx b.indices p.2 with
      | none => rfl
      | some ib =>
        simp only
        rw [matchesE_symm ia ib (ha ia (pyIdx_mem h1)) (hb ib (pyIdx_mem h2))]
  · have hs' : ¬ b.sym = a.sym := fun e => hs e.symm
    rw [decide_eq_false hs, decide_eq_false hs']
    rfl

/-! ## 3. `check_with` accepting ⇒ the weak contraction guard, negative axes included -/

/-- `a.check_with(b, axes_a, axes_b)` accepting, for axes in `[-ndim, ndim)` and as many on both sides
    (the audit compares neither), implies equal symmetries and that the pair is contractible in the
    model's weak sense along the NORMALISED axes `x % ndim` (the axes `tensordot` really uses) -/
theorem checkWith_implies_contractibleCommon_int (a b : Arr R) (xa xb : List Int)
    (hlen : xa.length = xb.length)
    (hra : ∀ x ∈ xa, -(a.ndim : Int) ≤ x ∧ x < (a.ndim : Int))
    (hrb : ∀ x ∈ xb, -(b.ndim : Int) ≤ x ∧ x < (b.ndim : Int))
    (h : (arrToRaw a).checkWith (arrToRaw b) xa xb = .ok ()) :
    a.sym = b.sym
    ∧ AssocP.contractibleCommonB a b (xa.map (TdotP.normAxis a.ndim)) (xb.map (TdotP.normAxis b.ndim))
        = true := by
  unfold RArr.checkWith at h
  split at h
  · cases h
  · rename_i hsym
    have hs : a.sym = b.sym := by
      have h' := hsym
      simp [arrToRaw] at h'
      exact of_decide_eq_true h'
    rw [forE_ok_iff] at h
    refine ⟨hs, ?_⟩
    unfold AssocP.contractibleCommonB
    simp only [Bool.and_eq_true, beq_iff_eq, List.all_eq_true, List.length_map]
    refine ⟨hlen, ?_⟩
    intro p hp
    rw [List.zip_map] at hp
    obtain ⟨q, hq, rfl⟩ := List.mem_map.mp hp
    have hh := h q hq
    obtain ⟨hq1, hq2⟩ := List.of_mem_zip hq
    have hia : (arrToRaw a).indices = a.indices.map indexToRaw := by
      simp [arrToRaw, indexListToRaw_eq_map]
    have hib : (arrToRaw b).indices = b.indices.map indexToRaw := by
      simp [arrToRaw, indexListToRaw_eq_map]
    have hla : (a.indices.map indexToRaw).length = a.ndim := by simp [Arr.ndim]
    have hlb : (b.indices.map indexToRaw).length = b.ndim := by simp [Arr.ndim]
    rw [hia, hib, pyIdx_norm _ _ (by rw [hla]; exact (hra _ hq1).1) (by rw [hla]; exact (hra _ hq1).2),
      pyIdx_norm _ _ (by rw [hlb]; exact (hrb _ hq2).1) (by rw [hlb]; exact (hrb _ hq2).2),
      hla, hlb] at hh
    simp only [List.getElem?_map, Prod.map_fst, Prod.map_snd] at hh ⊢
    cases h1 : a.indices[TdotP.normAxis a.ndim q.1]? with
    | none => rw [h1] at hh; simp at hh
    | some ia =>
      cases h2 : b.indices[TdotP.normAxis b.ndim q.2]? with
      | none => rw [h1, h2] at hh; simp at hh
      | some ib =>
        rw [h1, h2] at hh
        simp only [Option.map_some] at hh
        have hm : RIndex.matchesE (indexToRaw ia) (indexToRaw ib) = .ok true := by
          cases hme : RIndex.matchesE (indexToRaw ia) (indexToRaw ib) with
          | error e => rw [hme] at hh; cases hh
          | ok v => cases v with
            | true => rfl
            | false => rw [hme] at hh; cases hh
        have hg1 : a.indices.getD (TdotP.normAxis a.ndim q.1) default = ia := by
          rw [List.getD_eq_getElem?_getD, h1]; rfl
        have hg2 : b.indices.getD (TdotP.normAxis b.ndim q.2) default = ib := by
          rw [List.getD_eq_getElem?_getD, h2]; rfl
        rw [hg1, hg2]
        exact matches_implies_agree ia ib hm

theorem normAxis_mem_lt {n : Nat} {xs : List Int} (hr : ∀ x ∈ xs, -(n : Int) ≤ x ∧ x < (n : Int)) :
    ∀ i ∈ xs.map (TdotP.normAxis n), i < n := by
  intro i hi
  obtain ⟨x, hx, rfl⟩ := List.mem_map.mp hi
  have := hr x hx
  exact TdotP.normAxis_lt (by omega) x

/-- **`check_with` accepting ⇒ the guard of a contraction call** (`AssocP.tdotAdmissibleCommonB`: same
    symmetry, matched legs of opposite direction whose tables agree on the common charges, axes distinct
    and in range) for the normalised axes.  The two hypotheses `hlen`, `hna`/`hnb` are exactly what
    `check_with` does not look at. -/
theorem checkWith_implies_tdotAdmissibleCommon (a b : Arr R) (xa xb : List Int)
    (hlen : xa.length = xb.length)
    (hra : ∀ x ∈ xa, -(a.ndim : Int) ≤ x ∧ x < (a.ndim : Int))
    (hrb : ∀ x ∈ xb, -(b.ndim : Int) ≤ x ∧ x < (b.ndim : Int))
    (hna : (xa.map (TdotP.normAxis a.ndim)).Nodup) (hnb : (xb.map (TdotP.normAxis b.ndim)).Nodup)
    (h : (arrToRaw a).checkWith (arrToRaw b) xa xb = .ok ()) :
    AssocP.tdotAdmissibleCommonB a b (xa.map (TdotP.normAxis a.ndim)) (xb.map (TdotP.normAxis b.ndim))
      = true := by
  obtain ⟨hs, hc⟩ := checkWith_implies_contractibleCommon_int a b xa xb hlen hra hrb h
  unfold AssocP.tdotAdmissibleCommonB
  simp only [Bool.and_eq_true, decide_eq_true_eq, allDistinct_iff, List.all_eq_true]
  exact ⟨⟨⟨⟨⟨hs, hc⟩, hna⟩, hnb⟩, normAxis_mem_lt hra⟩, normAxis_mem_lt hrb⟩

/-! ## 4. `check_with` accepting ⇒ `tensordot` does not raise -/

theorem parseAxes_in_range (a b : Arr R) (xa xb : List Int) (hlen : xa.length = xb.length)
    (hra : ∀ x ∈ xa, -(a.ndim : Int) ≤ x ∧ x < (a.ndim : Int))
    (hrb : ∀ x ∈ xb, -(b.ndim : Int) ≤ x ∧ x < (b.ndim : Int)) :
    parseAxes a.ndim b.ndim (.pair xa xb)
      = .ok (xa.map (TdotP.normAxis a.ndim), xb.map (TdotP.normAxis b.ndim)) := by
  apply TdotP.parseAxes_pair hlen
  · cases xa with
    | nil => exact Or.inr rfl
    | cons x xs => have := hra x List.mem_cons_self; exact Or.inl (by omega)
  · cases xb with
    | nil => exact Or.inr rfl
    | cons x xs => have := hrb x List.mem_cons_self; exact Or.inl (by omega)

theorem tensordotF_congr_parse [Zero R] [Add R] [Mul R] [Neg R] (a b : Arr R) (ax1 ax2 : AxesArg)
    (h : parseAxes a.ndim b.ndim ax1 = parseAxes a.ndim b.ndim ax2) (mode : TdotMode) :
    a.tensordotF b ax1 mode = a.tensordotF b ax2 mode := by
  unfold Arr.tensordotF
  rw [h]

/-- **fermionic operands**: when `a.check_with(b, axes_a, axes_b)` accepts (axes in range, as many on
    both sides, distinct), `tensordot(a, b, (axes_a, axes_b))` of two valid fermionic arrays does not raise
    in any mode — unless the odd-position labels clash in `resolve_combined_oddpos`, and then exactly that
    error is raised.  (`0 * x = 0`, `x * 0 = 0` and the sign laws are the usual ring facts; `Int`, `GRat`.) -/
theorem checkWith_tensordotF_no_raise [AddCommMonoid R] [Mul R] [Neg R] [GradedP.SignRing R]
    (hz1 : ∀ x : R, 0 * x = 0) (hz2 : ∀ x : R, x * 0 = 0) (a b : Arr R) (xa xb : List Int)
    (ha : a.validB = true) (hb : b.validB = true) (hfa : a.fermi = true) (hfb : b.fermi = true)
    (hlen : xa.length = xb.length)
    (hra : ∀ x ∈ xa, -(a.ndim : Int) ≤ x ∧ x < (a.ndim : Int))
    (hrb : ∀ x ∈ xb, -(b.ndim : Int) ≤ x ∧ x < (b.ndim : Int))
    (hna : (xa.map (TdotP.normAxis a.ndim)).Nodup) (hnb : (xb.map (TdotP.normAxis b.ndim)).Nodup)
    (h : (arrToRaw a).checkWith (arrToRaw b) xa xb = .ok ()) (mode : TdotMode) :
    (∀ r, OddposP.mergeOddpos a.parity a.oddpos b.oddpos = .ok r →
        ∃ c, a.tensordotF b (.pair xa xb) mode = .ok c)
    ∧ (∀ e, OddposP.mergeOddpos a.parity a.oddpos b.oddpos = .error e →
        a.tensordotF b (.pair xa xb) mode = .error e) := by
  have hadm := checkWith_implies_tdotAdmissibleCommon a b xa xb hlen hra hrb hna hnb h
  have W := AssocP.AdmW.of ha hb hfa hfb hadm
  have hp : parseAxes a.ndim b.ndim (.pair xa xb)
      = parseAxes a.ndim b.ndim (.pair ((xa.map (TdotP.normAxis a.ndim)).map Int.ofNat)
          ((xb.map (TdotP.normAxis b.ndim)).map Int.ofNat)) := by
    rw [parseAxes_in_range a b xa xb hlen hra hrb,
      ValidP.parseAxes_nat _ _ _ _ (by simpa using hlen) W.ltA W.ltB]
  rw [tensordotF_congr_parse a b _ _ hp mode]
  obtain ⟨he, hk⟩ := TdotP.tensordotF_modes_all_w hz1 hz2 a b _ _ W .fused (Or.inl rfl)
  obtain ⟨he', hk'⟩ := TdotP.tensordotF_modes_all_w hz1 hz2 a b _ _ W .auto (Or.inr rfl)
  cases mode with
  | fused =>
    exact ⟨fun r hr => by obtain ⟨rm, _, h1, _⟩ := hk r hr; exact ⟨rm, h1⟩, fun e hm => (he e hm).1⟩
  | auto =>
    exact ⟨fun r hr => by obtain ⟨rm, _, h1, _⟩ := hk' r hr; exact ⟨rm, h1⟩, fun e hm => (he' e hm).1⟩
  | blockwise =>
    exact ⟨fun r hr => by obtain ⟨_, rb, _, h2, _⟩ := hk r hr; exact ⟨rb, h2⟩, fun e hm => (he e hm).2⟩

/-- **operands without pending signs** (every valid abelian array; also synchronised fermionic ones at
    the level of `tensordot_abelian`): when `check_with` accepts, `tensordot_abelian` does not raise in
    any mode — the fused strategy's `fuse`/`unfuse` included -/
theorem checkWith_tensordotA_no_raise [AddCommMonoid R] [Mul R] [Neg R]
    (hz1 : ∀ x : R, 0 * x = 0) (hz2 : ∀ x : R, x * 0 = 0) (a b : Arr R) (xa xb : List Int)
    (ha : a.validB = true) (hb : b.validB = true) (hpa : a.phases = []) (hpb : b.phases = [])
    (hlen : xa.length = xb.length)
    (hra : ∀ x ∈ xa, -(a.ndim : Int) ≤ x ∧ x < (a.ndim : Int))
    (hrb : ∀ x ∈ xb, -(b.ndim : Int) ≤ x ∧ x < (b.ndim : Int))
    (hna : (xa.map (TdotP.normAxis a.ndim)).Nodup) (hnb : (xb.map (TdotP.normAxis b.ndim)).Nodup)
    (h : (arrToRaw a).checkWith (arrToRaw b) xa xb = .ok ()) (mode : TdotMode) :
    ∃ c, tensordotA a b (.pair xa xb) mode = .ok c := by
  obtain ⟨hs, hc⟩ := checkWith_implies_contractibleCommon_int a b xa xb hlen hra hrb h
  have hp := parseAxes_in_range a b xa xb hlen hra hrb
  have K := TdotP.kernelOk_all_w hz1 hz2 a b _ _ ((validB_iff a).mp ha) ((validB_iff b).mp hb) hpa hpb
    hs hc hna hnb (normAxis_mem_lt hra) (normAxis_mem_lt hrb)
  obtain ⟨c, hcok, _⟩ := K
  cases mode with
  | blockwise => exact ⟨_, TdotP.tensordotA_blockwise_ok a b _ _ _ hp⟩
  | fused => exact ⟨c, by rw [TdotP.tensordotA_fused' a b _ _ _ hp]; exact hcok⟩
  | auto =>
    by_cases hne : xa.map (TdotP.normAxis a.ndim) = []
    · rw [hne] at hp
      exact ⟨_, TdotP.tensordotA_auto_outer a b _ _ hp⟩
    · exact ⟨c, by rw [TdotP.tensordotA_auto_fused a b _ _ _ hp hne]; exact hcok⟩

/-! ## 5. the hypotheses are satisfiable -/

/-- a valid fermionic vector and its (dual) partner; `check_with` accepts the pair along axis `-1` / `0` -/
def ckFermiDual : Arr Int :=
  { sym := .U1, fermi := true, indices := [.mk [((0, 0), 1), ((1, 0), 2)] true none], charge := (-1, 0),
    blocks := [([(1, 0)], ⟨[2], #[3, 4]⟩)], oddpos := [(4, true)] }

example : ckFermi.validB = true ∧ ckFermiDual.validB = true
    ∧ (arrToRaw ckFermi).checkWith (arrToRaw ckFermiDual) [-1] [0] = .ok ()
    ∧ (arrToRaw ckFermiDual).checkWith (arrToRaw ckFermi) [0] [-1] = .ok ()
    ∧ ([(-1 : Int)].map (TdotP.normAxis ckFermi.ndim)) = [0]
    ∧ (OddposP.mergeOddpos ckFermi.parity ckFermi.oddpos ckFermiDual.oddpos).toOption.isSome = true := by
  refine ⟨by decide, by decide, by decide, by decide, by decide, by decide +kernel⟩

/-- abelian: the pair of `C01.matches_not_contractibleB` (a table with a dropped charge) is accepted by
    `check_with`, is not `contractibleB`, and `tensordot` does not raise on it by the theorem above -/
example :
    let a : Arr Int := { sym := .U1, fermi := false, indices := [ckIx2], charge := (0, 0), blocks := [] }
    let b : Arr Int := { sym := .U1, fermi := false, indices := [.mk [((0, 0), 1)] true none],
                         charge := (0, 0), blocks := [] }
    ∀ mode, ∃ c, tensordotA a b (.pair [-1] [0]) mode = .ok c := by
  intro a b mode
  exact checkWith_tensordotA_no_raise (by intro x; exact Int.zero_mul x) (by intro x; exact Int.mul_zero x)
    a b [-1] [0] (by decide) (by decide) rfl rfl rfl (by decide) (by decide) (by decide) (by decide)
    (by decide) mode

end SymmModel.C01
