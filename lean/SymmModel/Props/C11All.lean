/-
  Property C11 — umbrella: structure and reconstruction of qr / svd / solve (Props/C11.lean) and
  eigh, fermionic solve, absorb options and truncation error (Props/C11b.lean).
-/
import SymmModel.Props.C11
import SymmModel.Props.C11b
