/-
  C06 (seventh part) — the FIRST clause of the property for FERMIONIC operands (general: contracted
  legs at any positions, in any order, no preliminary transposition), and the abelian first clause
  with both contractions in any mode.

  Abelian:
  * `tensordot_fuse_contracted_commute_both_modes` — C06f's `tensordot_fuse_contracted_commute`
    with the contraction of the two pre-fused operands in mode `mode1` AND `tensordot(a, b)` over
    the original pairs in mode `mode2` (each of blockwise / fused / auto): every stored entry of the
    first result is the element of the second at that address.
    (`fuse_contracted_aligned_every_mode`: the aligned-pair level, with the stored blocks' shapes.)

  Fermionic (`tensordot_fermionic`, `FermionicArray.fuse`; even and odd parity, pending signs,
  labels, any directions; weak guard `tdotAdmissibleCommonB`):
  * `tensordot_fuse_contracted_commute_fermionic` — the public route from `a`, `b`: align
    (`drop_misaligned_sectors`), `fuse` (either strategy, any `expand_empty`) the contracted legs
    `xa` / `xb` of each operand (ARBITRARY distinct axes, any order; `fuse` transposes by
    `before ++ group ++ after` itself), `tensordot_fermionic` over the single fused pair
    `(min xa, min xb)` — against `tensordot_fermionic(a, b, (xa, xb))` (blockwise): same (label)
    error, or both succeed with the same labels, charge, symmetry, kind, rank and the SAME ELEMENT at
    every address of the free legs' table box (tables of the aligned operands; every stored sector
    of the plain result lies there).
  * `tensordot_fuse_contracted_commute_fermionic_any_mode` — the same with the contraction over the
    original pairs in mode `m1` and the contraction of the fused operands in mode `m2` (each of
    blockwise / fused / auto): every stored entry of the fused-route result is the element of the
    plain result at that address.
  * `fuse_contracted_aligned_fermionic` — the same one level down, for an aligned fermionic pair
    (`TdotP.FCtxG`, spelled out by `fctxG_iff`; the operands after `dropMisaligned` are such a
    pair: `aligned_fctxG`).
  * `fuse_signs_contraction_compatible` — THE SIGN IDENTITY ("fermionic fuse signs chosen to be
    contraction-compatible", fermionic_core.py:596-680): for every pair of sectors with equal
    contracted charges, the graded sign of the contraction over the original pairs (two Koszul
    signs, nesting sign `(-1)^(m(m-1)/2)`, `-1` per odd ket-then-bra pair; `gradedSign`, C03) is
    the graded sign of the contraction over the SINGLE fused pair (`bondSign`; it depends only on
    the free charges, the direction of the fused leg and the parity of the fused charge:
    `gradedSign_single_pair`) times the two fermionic fuse signs (C05's `fuseSignF`, the
    transposition sign of the fuse included: `fuseF_group_sign`).  Arbitrary groups: the
    transposition sign of each fuse cancels against the Koszul sign of the contraction
    (`KoszulP.koszul_block_move`).
  * `fuseF_group_operand` — the operand of `_fuse_core` inside the fermionic fuse of one arbitrary
    group: layout `before ++ group ++ after`, every sector multiplied by `fuseSignF`, no pending
    signs; the fused leg sits at the consecutive positions `newG`.
  * the special case of contracted legs ADJACENT AND IN ORDER (`TdotP.AdjOk`, `adjacent_consecutive`,
    `adjOk_iff`): the fuse does not transpose, `fuseF_adjacent_operand`, `fuseF_adjacent_sign`,
    `fuse_signs_contraction_compatible_adjacent`, `fuse_contracted_aligned_fermionic_adjacent`.
  How: `gradedContract` of the fused operands = `bondSign` · (abelian contraction of the fused
  operands) [the graded sign is constant on the pairs of one result sector, by charge conservation]
  = `bondSign` · (abelian contraction of the two `_fuse_core` operands over the new positions)
  [C06f's abelian theorem `bond_fuse_core`] = pair sum over the original operands twisted by the two
  fuse signs [`TdotP.contract_transport_gen`: `GradedP.contract_transport` for an arbitrary layout]
  = `gradedContract` of the originals [sign identity]; `tensordot_fermionic` refines `gradedContract`
  (C03), aligning does not change it (`TdotP.gradedContract_dropMisaligned`).
  NOT proved here: equality of the results' pruned index tables (false in general: the fused-route
  result may store an additional all-zero sector, as in the abelian case); the concat/insert
  strategies and the `expand_empty` flag are covered, empty contracted lists (`xa = []`) are not
  (nothing to fuse).
-/
import SymmModel.Props.C06All5
import SymmModel.Proofs.FuseCommuteFM
import SymmModel.Proofs.FuseCommuteF8
import SymmModel.Proofs.FuseCommuteG5

namespace SymmModel.C06
open SymmModel SymmModel.TdotP SymmModel.GradedP SymmModel.RoutesP SymmModel.AssocP SymmModel.KoszulP
open SymmModel.Assoc3P SymmModel.Assoc4P

variable {R : Type}

/-! ## abelian: both contractions in any mode -/

/-- **fuse_contracted_aligned_every_mode** (aligned abelian pair): the contraction of the two
    pre-fused operands over the single fused pair in ANY mode succeeds; every stored block
    `(K, V)` has the shape the free legs' tables give to `K`, and every stored entry is the element
    of the blockwise contraction of `A`, `B` over the original pairs. -/
theorem fuse_contracted_aligned_every_mode [AddCommMonoid R] [Mul R] [Neg R]
    (hz1 : ∀ x : R, 0 * x = 0) (hz2 : ∀ x : R, x * 0 = 0) {A B : Arr R} {xa xb : List Nat}
    (h : Ctx0 A B xa xb) (hne : xa ≠ []) (mode : TdotMode) :
    ∃ cm, tensordotA (FuseP.fusedArrM A [xa]) (FuseP.fusedArrM B [xb])
        (.pair [Int.ofNat (bondPos A xa)] [Int.ofNat (bondPos B xb)]) mode = .ok cm
      ∧ ∀ K V, alookup cm.blocks K = some V →
          Arr.blockShape? (permuted A.indices (freeAxes A.ndim xa) ++ permuted B.indices (freeAxes B.ndim xb)) K
            = some V.shape
          ∧ ∀ J, inBox V.shape J = true →
            cm.elem K J = (tensordotBlockwise A B (freeAxes A.ndim xa) xa xb (freeAxes B.ndim xb)).elem K J :=
  bond_fuse_every_mode hz1 hz2 h hne mode

/-- **tensordot_fuse_contracted_commute_both_modes** (abelian, public operations): align, fuse
    the contracted legs of each operand into one (strategy `m1` / `m2`), contract the single fused
    pair in mode `mode1` — against `tensordot(a, b)` over the original pairs in mode `mode2`:
    all calls succeed and every stored entry of the first result is the element of the second at
    that address. -/
theorem tensordot_fuse_contracted_commute_both_modes [AddCommMonoid R] [Mul R] [Neg R]
    (hz1 : ∀ x : R, 0 * x = 0) (hz2 : ∀ x : R, x * 0 = 0) (a b : Arr R) (xa xb : List Nat)
    (ha : a.validB = true) (hb : b.validB = true) (hfa : a.fermi = false) (hfb : b.fermi = false)
    (hsym : a.sym = b.sym) (hc : ValidP.contractibleB a b xa xb = true)
    (hnA : xa.Nodup) (hnB : xb.Nodup) (hA : ∀ x ∈ xa, x < a.ndim) (hB : ∀ x ∈ xb, x < b.ndim)
    (hne : xa ≠ []) (m1 m2 : FuseMode) (mode1 mode2 : TdotMode) :
    ∃ af bf cm c,
      fuseA (dropMisaligned a b xa xb).1 [xa] m1 false = .ok af
      ∧ fuseA (dropMisaligned a b xa xb).2 [xb] m2 false = .ok bf
      ∧ tensordotA af bf (.pair [Int.ofNat (bondPos (dropMisaligned a b xa xb).1 xa)]
            [Int.ofNat (bondPos (dropMisaligned a b xa xb).2 xb)]) mode1 = .ok cm
      ∧ tensordotA a b (.pair (xa.map Int.ofNat) (xb.map Int.ofNat)) mode2 = .ok c
      ∧ ∀ K V, alookup cm.blocks K = some V → ∀ J, inBox V.shape J = true → cm.elem K J = c.elem K J :=
  bond_fuse_both_modes hz1 hz2 a b xa xb ha hb hfa hfb hsym hc hnA hnB hA hB hne m1 m2 mode1 mode2

/-! ## fermionic: the signs -/

/-- the consecutive positions of the group after the fuse's transposition -/
theorem newG_def (X : Arr R) (g : List Nat) :
    newG X g = (List.range g.length).map (fun t => bondPos X g + t) := rfl

/-- **fuseF_group_sign**: the sign the fermionic fuse of ONE arbitrary group `g` applies to the
    sector `s` of the original array (C05's `fuseSignF`): for a dual group (first leg dual)
    `(-1)^(odd non-dual legs of g) · (-1)^(m(m-1)/2)`, `m` the number of odd charges of the group,
    `+1` for a non-dual group — times the Koszul sign of the transposition `before ++ g ++ after`. -/
theorem fuseF_group_sign [Zero R] [Neg R] {X : Arr R} {g : List Nat}
    (hne : g ≠ []) (hnd : g.Nodup) (hlt : ∀ x ∈ g, x < X.ndim) (s : Sector) (hs : s.length = X.ndim) :
    FuseP.fuseSignF X [g] s
      = (if (X.indices.getD (g.headD 0) default).dual
          then sgn (ketOdd X g s) * sgn (oddContracted X g s * (oddContracted X g s - 1) / 2)
          else 1)
        * koszul (X.parities s) (some (calcFuseGroupInfo [g] X.duals).perm) :=
  one_fuseSignF ⟨hne, hnd, hlt⟩ s hs

/-- **fuseF_group_operand**: `fuseF(a, [g])` for one arbitrary group: it is `_fuse_core` of the
    operand `signAdj a [g]` over the consecutive positions `newG a g`; that operand has no pending
    signs, the index tables / stored sectors of `a` re-listed along `perm = before ++ g ++ after`,
    and at every stored address the value of `a` times `fuseSignF`. -/
theorem fuseF_group_operand [AddMonoid R] [Mul R] [Neg R] [SignRing R] (a : Arr R) {g : List Nat}
    (hv : a.validB = true) (hf : a.fermi = true)
    (hne : g ≠ []) (hnd : g.Nodup) (hlt : ∀ x ∈ g, x < a.ndim) (e : Bool) :
    a.fuseF [g] .insert e = .ok (FuseP.fusedArrM (FuseP.signAdj a [g]) [newG a g])
    ∧ (FuseP.signAdj a [g]).phases = []
    ∧ (FuseP.signAdj a [g]).validB = true
    ∧ (FuseP.signAdj a [g]).indices = permuted a.indices (calcFuseGroupInfo [g] a.duals).perm
    ∧ (FuseP.signAdj a [g]).sectors = a.sectors.map (fun s => permuted s (calcFuseGroupInfo [g] a.duals).perm)
    ∧ ∀ s ∈ a.sectors, ∀ off, inBox (Arr.blockShapeD a.indices s) off = true →
        (FuseP.signAdj a [g]).elem (permuted s (calcFuseGroupInfo [g] a.duals).perm)
            (permuted off (calcFuseGroupInfo [g] a.duals).perm)
          = Lazy.sgnI (FuseP.fuseSignF a [g] s) (a.elem s off) := by
  have h : OneOk a g := ⟨hne, hnd, hlt⟩
  have P := prepared_signAdj a hv hf h
  have hfuse := (FuseP.fuseF_elemT a [g] e hv hf h.groupsOk).1
  rw [one_newGroupsF h] at hfuse
  exact ⟨hfuse, P.phases, (ValidP.validB_iff _).mpr (FuseP.signAdj_valid a [g] hv hf h.groupsOk),
    P.indices, P.sectors, P.elem⟩

/-- the graded sign of a contraction over one pair of legs at positions `pA`, `pB` -/
theorem bondSign_def (sym : Sym) (dualA : Bool) (pA pB : Nat) (Ls Rs : Sector) (m : Nat) :
    bondSign sym dualA pA pB Ls Rs m
      = sgn (m * oddIn sym (Ls.drop pA)) * sgn (oddIn sym (Rs.take pB) * m) * (if dualA then 1 else sgn m) :=
  rfl

/-- **gradedSign_single_pair**: the graded sign (C03) of a contraction over a SINGLE pair of legs
    (`pA` of `AF`, `pB` of `BF`) is `bondSign` of the free charges, the direction of the left leg
    and any `m` with the parity of the contracted charge. -/
theorem gradedSign_single_pair (AF BF : Arr R) (pA mA pB mB : Nat) (hnA : AF.ndim = pA + 1 + mA)
    (hnB : BF.ndim = pB + 1 + mB) (hsym : AF.sym = BF.sym) (sa' sb' : Sector)
    (hla : sa'.length = AF.ndim) (hlb : sb'.length = BF.ndim)
    (hK : permuted sb' [pB] = permuted sa' [pA]) (m : Nat)
    (hm : oddIn AF.sym (permuted sa' [pA]) % 2 = m % 2) :
    gradedSign AF BF [pA] [pB] sa' sb'
      = bondSign AF.sym (AF.indices.getD pA default).dual pA pB
          (permuted sa' (freeAxes AF.ndim [pA])) (permuted sb' (freeAxes BF.ndim [pB])) m :=
  gradedSign_fusedpair AF BF pA mA pB mB hnA hnB hsym sa' sb' hla hlb hK m hm

/-- **fuse_signs_contraction_compatible.**  `A`, `B` any arrays of one symmetry, contracted groups
    `xa`, `xb` (ARBITRARY non-empty lists of distinct axes) with opposite directions; `sa`, `sb`
    sectors of full length with equal contracted charges.  Then
      gradedSign(A, B; xa, xb)(sa, sb)
        = bondSign(free charges of sa, sb; number of odd contracted charges)
          · fuseSignF(A, xa)(sa) · fuseSignF(B, xb)(sb). -/
theorem fuse_signs_contraction_compatible [Zero R] [Neg R] (A B : Arr R) {xa xb : List Nat}
    (hneA : xa ≠ []) (hndA : xa.Nodup) (hltA : ∀ x ∈ xa, x < A.ndim)
    (hndB : xb.Nodup) (hltB : ∀ x ∈ xb, x < B.ndim)
    (hsym : A.sym = B.sym) (hlen : xa.length = xb.length)
    (hdual : (xb.map (fun ax => B.indices.getD ax default)).map Index.dual
      = (xa.map (fun ax => A.indices.getD ax default)).map (fun ix => !ix.dual))
    (sa sb : Sector) (hla : sa.length = A.ndim) (hlb : sb.length = B.ndim)
    (hK : permuted sb xb = permuted sa xa) :
    gradedSign A B xa xb sa sb
      = bondSign A.sym (A.indices.getD (xa.headD 0) default).dual (bondPos A xa) (bondPos B xb)
          (permuted sa (freeAxes A.ndim xa)) (permuted sb (freeAxes B.ndim xb)) (oddContracted A xa sa)
        * FuseP.fuseSignF A [xa] sa * FuseP.fuseSignF B [xb] sb :=
  fuse_signs_compatible_gen A B ⟨hneA, hndA, hltA⟩
    ⟨by intro e; rw [e] at hlen; exact hneA (List.eq_nil_of_length_eq_zero hlen), hndB, hltB⟩
    hsym hlen hdual sa sb hla hlb hK

/-! ### contracted legs adjacent and in order: the fuse does not transpose -/

/-- consecutive legs `p, p+1, …, p+k-1` (any position) are a group of adjacent legs in order -/
theorem adjacent_consecutive (X : Arr R) (p k : Nat) (hk : 1 ≤ k) (hpk : p + k ≤ X.ndim) :
    AdjOk X ((List.range k).map (fun j => p + j)) :=
  adjOk_consecutive X p k hk hpk

/-- what `AdjOk` says: a non-empty group of distinct legs whose `_fuse_core` permutation
    `before ++ group ++ after` is the identity -/
theorem adjOk_iff (X : Arr R) (g : List Nat) :
    AdjOk X g ↔ (g ≠ [] ∧ g.Nodup ∧ (∀ x ∈ g, x < X.ndim))
      ∧ (calcFuseGroupInfo [g] X.duals).perm = List.range X.ndim :=
  ⟨fun h => ⟨⟨h.one.ne, h.one.nd, h.one.lt⟩, h.idp⟩, fun h => ⟨⟨h.1.1, h.1.2.1, h.1.2.2⟩, h.2⟩⟩

/-- **fuseF_adjacent_operand**: the operand of `_fuse_core` inside the fermionic fuse of a group
    of adjacent legs in order is the array itself (same tables, same stored sectors, no pending
    signs) with every sector multiplied by the fuse sign `fuseSignT` (C05). -/
theorem fuseF_adjacent_operand [Zero R] [Neg R] [Lazy.LawfulNeg R] (a : Arr R) {g : List Nat}
    (hv : a.validB = true) (hf : a.fermi = true) (h : AdjOk a g) (e : Bool) :
    a.fuseF [g] .insert e = .ok (FuseP.fusedArrM (FuseP.signAdj a [g]) [g])
    ∧ (FuseP.signAdj a [g]).indices = a.indices
    ∧ (FuseP.signAdj a [g]).sectors = a.sectors
    ∧ (FuseP.signAdj a [g]).phases = []
    ∧ (FuseP.signAdj a [g]).validB = true
    ∧ ∀ S J, (FuseP.signAdj a [g]).elem S J = Lazy.sgnI (FuseP.fuseSignT a [g] S) (a.elem S J) := by
  obtain ⟨h1, _, h3, h4, h5, _, _, _, h9⟩ := signAdj_adj a hv hf h
  have hfuse := (FuseP.fuseF_elemT a [g] e hv hf h.one.groupsOk).1
  rw [adj_newGroupsF h] at hfuse
  exact ⟨hfuse, h1, h3, h4, h5, h9⟩

/-- **fuseF_adjacent_sign**: the fermionic fuse sign of a group of adjacent legs in order. -/
theorem fuseF_adjacent_sign [Zero R] [Neg R] {X : Arr R} {g : List Nat} (h : AdjOk X g) (S : Sector) :
    FuseP.fuseSignT X [g] S
      = if (X.indices.getD (g.headD 0) default).dual
        then sgn (ketOdd X g S)
          * sgn (oddCount (S.map X.sym.parity) g * (oddCount (S.map X.sym.parity) g - 1) / 2)
        else 1 :=
  adj_fuseSignT h S

/-- the sign identity for groups of adjacent legs in order (no transposition signs) -/
theorem fuse_signs_contraction_compatible_adjacent [Zero R] [Neg R] (A B : Arr R) {xa xb : List Nat}
    (hA : AdjOk A xa) (hB : AdjOk B xb) (hsym : A.sym = B.sym) (hlen : xa.length = xb.length)
    (hdual : (xb.map (fun ax => B.indices.getD ax default)).map Index.dual
      = (xa.map (fun ax => A.indices.getD ax default)).map (fun ix => !ix.dual))
    (sa sb : Sector) (hla : sa.length = A.ndim) (hlb : sb.length = B.ndim)
    (hK : permuted sb xb = permuted sa xa) :
    gradedSign A B xa xb sa sb
      = bondSign A.sym (A.indices.getD (xa.headD 0) default).dual (bondPos A xa) (bondPos B xb)
          (permuted sa (freeAxes A.ndim xa)) (permuted sb (freeAxes B.ndim xb)) (oddContracted A xa sa)
        * FuseP.fuseSignT A [xa] sa * FuseP.fuseSignT B [xb] sb :=
  fuse_signs_compatible A B hA hB hsym hlen hdual sa sb hla hlb hK

/-- aligned fermionic pair, contracted legs adjacent and in order: the fused operands are
    `_fuse_core` of the sign-adjusted operands over the ORIGINAL axes (see
    `fuse_contracted_aligned_fermionic` for the statement) -/
theorem fuse_contracted_aligned_fermionic_adjacent [AddCommMonoid R] [Mul R] [Neg R] [SignRing R]
    (hz1 : ∀ x : R, 0 * x = 0) (hz2 : ∀ x : R, x * 0 = 0) {A B : Arr R} {xa xb : List Nat}
    (h : FCtx A B xa xb) (e1 e2 : Bool) :
    A.fuseF [xa] .insert e1 = .ok (FuseP.fusedArrM (FuseP.signAdj A [xa]) [xa])
    ∧ B.fuseF [xb] .insert e2 = .ok (FuseP.fusedArrM (FuseP.signAdj B [xb]) [xb])
    ∧ ∀ c, A.tensordotF B (.pair (xa.map Int.ofNat) (xb.map Int.ofNat)) .blockwise = .ok c →
      ∃ cf, (FuseP.fusedArrM (FuseP.signAdj A [xa]) [xa]).tensordotF
            (FuseP.fusedArrM (FuseP.signAdj B [xb]) [xb])
            (.pair [Int.ofNat (bondPos A xa)] [Int.ofNat (bondPos B xb)]) .blockwise = .ok cf
        ∧ cf.oddpos = c.oddpos ∧ cf.charge = c.charge
        ∧ ∀ (Ls Rs : Sector) (oL oR shpL shpR : List Nat),
            Arr.blockShape? (permuted A.indices (freeAxes A.ndim xa)) Ls = some shpL → inBox shpL oL = true →
            Arr.blockShape? (permuted B.indices (freeAxes B.ndim xb)) Rs = some shpR → inBox shpR oR = true →
            cf.elem (Ls ++ Rs) (oL ++ oR) = c.elem (Ls ++ Rs) (oL ++ oR) := by
  obtain ⟨f1, f2, _, _, hok⟩ := bond_fuse_fermi hz1 hz2 h e1 e2
  refine ⟨f1, f2, ?_⟩
  intro c hc
  obtain ⟨cf, k1, k2, k3, _, _, _, kE⟩ := hok c hc
  exact ⟨cf, k1, k2, k3, kE⟩

/-! ## fermionic: fuse the contracted legs, contract the single fused pair -/

/-- what an aligned fermionic pair is -/
theorem fctxG_iff [AddCommMonoid R] [Mul R] [Neg R] [SignRing R] (A B : Arr R) (xa xb : List Nat) :
    FCtxG A B xa xb ↔
      (A.validB = true ∧ B.validB = true ∧ A.fermi = true ∧ B.fermi = true ∧ A.sym = B.sym
        ∧ contractibleCommonB A B xa xb = true ∧ xa.Nodup ∧ xb.Nodup
        ∧ (∀ i ∈ xa, i < A.ndim) ∧ (∀ i ∈ xb, i < B.ndim))
      ∧ xa ≠ []
      ∧ (xa.map (fun ax => A.indices.getD ax default)).map Index.cm
          = (xb.map (fun ax => B.indices.getD ax default)).map Index.cm
      ∧ (xb.map (fun ax => B.indices.getD ax default)).map Index.dual
          = (xa.map (fun ax => A.indices.getD ax default)).map (fun ix => !ix.dual)
      ∧ ∀ K, K ∈ A.blocks.map (fun sb => xa.map (fun ax => sb.1.getD ax (0, 0))) ↔
          K ∈ B.blocks.map (fun sb => xb.map (fun ax => sb.1.getD ax (0, 0))) :=
  ⟨fun h => ⟨⟨h.W.va, h.W.vb, h.W.fa, h.W.fb, h.W.sym, h.W.con, h.W.nA, h.W.nB, h.W.ltA, h.W.ltB⟩,
      h.ne, h.cm, h.dual, h.keys⟩,
   fun h => ⟨⟨h.1.1, h.1.2.1, h.1.2.2.1, h.1.2.2.2.1, h.1.2.2.2.2.1, h.1.2.2.2.2.2.1, h.1.2.2.2.2.2.2.1,
      h.1.2.2.2.2.2.2.2.1, h.1.2.2.2.2.2.2.2.2.1, h.1.2.2.2.2.2.2.2.2.2⟩, h.2.1, h.2.2.1, h.2.2.2.1, h.2.2.2.2⟩⟩

/-- the operands after `dropMisaligned` of a fermionic pair satisfying the weak guard form an
    aligned fermionic pair -/
theorem aligned_fctxG [AddCommMonoid R] [Mul R] [Neg R] [SignRing R] (a b : Arr R) (xa xb : List Nat)
    (ha : a.validB = true) (hb : b.validB = true) (hfa : a.fermi = true) (hfb : b.fermi = true)
    (hadm : tdotAdmissibleCommonB a b xa xb = true) (hne : xa ≠ []) :
    FCtxG (dropMisaligned a b xa xb).1 (dropMisaligned a b xa xb).2 xa xb :=
  fctxG_of_dropMisaligned a b xa xb (AdmW.of ha hb hfa hfb hadm) hne

/-- **fuse_contracted_aligned_fermionic**: for an aligned fermionic pair `A`, `B` (ARBITRARY
    contracted legs): `fuseF(A, xa)`, `fuseF(B, xb)` succeed, the fused operands satisfy the weak
    guard for the single pair `(bondPos A xa, bondPos B xb)` and have one leg for the contracted
    group, and `tensordot_fermionic` over that pair (blockwise) fails with the error of the
    contraction over the original pairs or succeeds with the same labels, charge, symmetry, kind,
    rank and the same element at every address `(Ls ++ Rs, oL ++ oR)` of the free legs' table box. -/
theorem fuse_contracted_aligned_fermionic [AddCommMonoid R] [Mul R] [Neg R] [SignRing R]
    (hz1 : ∀ x : R, 0 * x = 0) (hz2 : ∀ x : R, x * 0 = 0) {A B : Arr R} {xa xb : List Nat}
    (h : FCtxG A B xa xb) (e1 e2 : Bool) :
    A.fuseF [xa] .insert e1 = .ok (FuseP.fusedArrM (FuseP.signAdj A [xa]) [newG A xa])
    ∧ B.fuseF [xb] .insert e2 = .ok (FuseP.fusedArrM (FuseP.signAdj B [xb]) [newG B xb])
    ∧ AdmW (FuseP.fusedArrM (FuseP.signAdj A [xa]) [newG A xa])
        (FuseP.fusedArrM (FuseP.signAdj B [xb]) [newG B xb]) [bondPos A xa] [bondPos B xb]
    ∧ (FuseP.fusedArrM (FuseP.signAdj A [xa]) [newG A xa]).ndim + xa.length = A.ndim + 1
    ∧ (FuseP.fusedArrM (FuseP.signAdj B [xb]) [newG B xb]).ndim + xb.length = B.ndim + 1
    ∧ (∀ e, A.tensordotF B (.pair (xa.map Int.ofNat) (xb.map Int.ofNat)) .blockwise = .error e →
        (FuseP.fusedArrM (FuseP.signAdj A [xa]) [newG A xa]).tensordotF
          (FuseP.fusedArrM (FuseP.signAdj B [xb]) [newG B xb])
          (.pair [Int.ofNat (bondPos A xa)] [Int.ofNat (bondPos B xb)]) .blockwise = .error e)
    ∧ ∀ c, A.tensordotF B (.pair (xa.map Int.ofNat) (xb.map Int.ofNat)) .blockwise = .ok c →
      ∃ cf, (FuseP.fusedArrM (FuseP.signAdj A [xa]) [newG A xa]).tensordotF
            (FuseP.fusedArrM (FuseP.signAdj B [xb]) [newG B xb])
            (.pair [Int.ofNat (bondPos A xa)] [Int.ofNat (bondPos B xb)]) .blockwise = .ok cf
        ∧ cf.oddpos = c.oddpos ∧ cf.charge = c.charge ∧ cf.sym = c.sym ∧ cf.fermi = c.fermi
        ∧ cf.ndim = c.ndim
        ∧ ∀ (Ls Rs : Sector) (oL oR shpL shpR : List Nat),
            Arr.blockShape? (permuted A.indices (freeAxes A.ndim xa)) Ls = some shpL → inBox shpL oL = true →
            Arr.blockShape? (permuted B.indices (freeAxes B.ndim xb)) Rs = some shpR → inBox shpR oR = true →
            cf.elem (Ls ++ Rs) (oL ++ oR) = c.elem (Ls ++ Rs) (oL ++ oR) :=
  bond_fuse_fermi_gen hz1 hz2 h e1 e2

/-- the strategy of the fermionic fuse does not matter for the aligned operands -/
theorem fuseF_mode_aligned [AddCommMonoid R] [Mul R] [Neg R] [SignRing R] {A B : Arr R} {xa xb : List Nat}
    (h : FCtxG A B xa xb) (fm : FuseMode) (e : Bool) :
    A.fuseF [xa] fm e = A.fuseF [xa] .insert e ∧ B.fuseF [xb] fm e = B.fuseF [xb] .insert e := by
  cases fm
  · exact ⟨rfl, rfl⟩
  · exact ⟨C05.fuseF_concat_eq_insert A _ e h.W.va h.W.fa (FuseP.groupsOk_iff.2 h.oneA.groupsOk) (by simp),
      C05.fuseF_concat_eq_insert B _ e h.W.vb h.W.fb (FuseP.groupsOk_iff.2 h.oneB.groupsOk) (by simp)⟩

/-- **tensordot_fuse_contracted_commute_fermionic** (C06, first clause, FERMIONIC, public
    operations, blockwise).  `a`, `b` valid fermionic arrays (any parity, pending signs, labels)
    satisfying the weak guard; `xa`, `xb` ARBITRARY (non-empty) lists of distinct contracted axes.
    With `(a', b') = drop_misaligned_sectors(a, b)`: `fuse(a', xa)` and `fuse(b', xb)` (strategies
    `fm1`, `fm2`, any `expand_empty`) succeed, are valid fermionic arrays with one leg (at
    `bondPos = min`) for the contracted group; `tensordot_fermionic` of the fused operands over the
    single fused pair fails with the error of `tensordot_fermionic(a, b, (xa, xb))` (clashing
    labels) when that fails, and otherwise succeeds with the same labels, charge, symmetry, kind and
    rank and the same element at every address of the free legs' table box (tables of the aligned
    operands; every stored sector of the plain result lies there). -/
theorem tensordot_fuse_contracted_commute_fermionic [AddCommMonoid R] [Mul R] [Neg R] [SignRing R]
    (hz1 : ∀ x : R, 0 * x = 0) (hz2 : ∀ x : R, x * 0 = 0) (a b : Arr R) (xa xb : List Nat)
    (ha : a.validB = true) (hb : b.validB = true) (hfa : a.fermi = true) (hfb : b.fermi = true)
    (hadm : tdotAdmissibleCommonB a b xa xb = true) (hne : xa ≠ [])
    (fm1 fm2 : FuseMode) (e1 e2 : Bool) :
    ∃ af bf, (dropMisaligned a b xa xb).1.fuseF [xa] fm1 e1 = .ok af
      ∧ (dropMisaligned a b xa xb).2.fuseF [xb] fm2 e2 = .ok bf
      ∧ af.validB = true ∧ bf.validB = true ∧ af.fermi = true ∧ bf.fermi = true
      ∧ af.ndim + xa.length = a.ndim + 1 ∧ bf.ndim + xb.length = b.ndim + 1
      ∧ (∀ e, a.tensordotF b (.pair (xa.map Int.ofNat) (xb.map Int.ofNat)) .blockwise = .error e →
          af.tensordotF bf (.pair [Int.ofNat (bondPos a xa)] [Int.ofNat (bondPos b xb)]) .blockwise = .error e)
      ∧ ∀ c, a.tensordotF b (.pair (xa.map Int.ofNat) (xb.map Int.ofNat)) .blockwise = .ok c →
        ∃ cf, af.tensordotF bf (.pair [Int.ofNat (bondPos a xa)] [Int.ofNat (bondPos b xb)]) .blockwise = .ok cf
          ∧ cf.oddpos = c.oddpos ∧ cf.charge = c.charge ∧ cf.sym = c.sym ∧ cf.fermi = c.fermi
          ∧ cf.ndim = c.ndim
          ∧ ∀ (Ls Rs : Sector) (oL oR shpL shpR : List Nat),
              Arr.blockShape? (permuted (dropMisaligned a b xa xb).1.indices (freeAxes a.ndim xa)) Ls = some shpL →
              inBox shpL oL = true →
              Arr.blockShape? (permuted (dropMisaligned a b xa xb).2.indices (freeAxes b.ndim xb)) Rs = some shpR →
              inBox shpR oR = true →
              cf.elem (Ls ++ Rs) (oL ++ oR) = c.elem (Ls ++ Rs) (oL ++ oR) := by
  have W := AdmW.of ha hb hfa hfb hadm
  have h := fctxG_of_dropMisaligned a b xa xb W hne
  obtain ⟨af, bf, f1, f2, W', n1, n2, herr, hok⟩ := fuse_contracted_fermi_gen hz1 hz2 a b xa xb W hne e1 e2
  refine ⟨af, bf, ?_, ?_, W'.va, W'.vb, W'.fa, W'.fb, n1, n2, herr, hok⟩
  · rw [(fuseF_mode_aligned h fm1 e1).1]; exact f1
  · rw [(fuseF_mode_aligned h fm2 e2).2]; exact f2

/-- **tensordot_fuse_contracted_commute_fermionic_any_mode**: as
    `tensordot_fuse_contracted_commute_fermionic`, with `tensordot_fermionic(a, b, (xa, xb))` in mode
    `m1` and the contraction of the fused operands over the single fused pair in mode `m2` (each of
    blockwise / fused / auto): same error, or both succeed with the same labels, charge, symmetry,
    kind and rank, and EVERY STORED ENTRY of the fused-route result is the element of the plain
    result at that address (a stored sector the plain result lacks is an all-zero block). -/
theorem tensordot_fuse_contracted_commute_fermionic_any_mode
    [AddCommMonoid R] [Mul R] [Neg R] [SignRing R]
    (hz1 : ∀ x : R, 0 * x = 0) (hz2 : ∀ x : R, x * 0 = 0) (a b : Arr R) (xa xb : List Nat)
    (ha : a.validB = true) (hb : b.validB = true) (hfa : a.fermi = true) (hfb : b.fermi = true)
    (hadm : tdotAdmissibleCommonB a b xa xb = true) (hne : xa ≠ [])
    (fm1 fm2 : FuseMode) (e1 e2 : Bool) (m1 m2 : TdotMode) :
    ∃ af bf, (dropMisaligned a b xa xb).1.fuseF [xa] fm1 e1 = .ok af
      ∧ (dropMisaligned a b xa xb).2.fuseF [xb] fm2 e2 = .ok bf
      ∧ (∀ e, a.tensordotF b (.pair (xa.map Int.ofNat) (xb.map Int.ofNat)) m1 = .error e →
          af.tensordotF bf (.pair [Int.ofNat (bondPos a xa)] [Int.ofNat (bondPos b xb)]) m2 = .error e)
      ∧ ∀ c, a.tensordotF b (.pair (xa.map Int.ofNat) (xb.map Int.ofNat)) m1 = .ok c →
        ∃ cf, af.tensordotF bf (.pair [Int.ofNat (bondPos a xa)] [Int.ofNat (bondPos b xb)]) m2 = .ok cf
          ∧ cf.oddpos = c.oddpos ∧ cf.charge = c.charge ∧ cf.sym = c.sym ∧ cf.fermi = c.fermi
          ∧ cf.ndim = c.ndim
          ∧ ∀ K V, alookup cf.blocks K = some V → ∀ J, inBox V.shape J = true → cf.elem K J = c.elem K J := by
  have W := AdmW.of ha hb hfa hfb hadm
  have h := fctxG_of_dropMisaligned a b xa xb W hne
  obtain ⟨af, bf, f1, f2, rest⟩ := fuse_contracted_fermi_gen_modes hz1 hz2 a b xa xb W hne e1 e2 m1 m2
  refine ⟨af, bf, ?_, ?_, rest⟩
  · rw [(fuseF_mode_aligned h fm1 e1).1]; exact f1
  · rw [(fuseF_mode_aligned h fm2 e2).2]; exact f2

/-- the fused leg sits at the smallest contracted axis -/
theorem bondPos_spec (X : Arr R) (g : List Nat) (hne : g ≠ []) (hnd : g.Nodup) (hlt : ∀ x ∈ g, x < X.ndim) :
    bondPos X g ∈ g ∧ ∀ x ∈ g, bondPos X g ≤ x :=
  ⟨one_pos_mem ⟨hne, hnd, hlt⟩, one_pos_le ⟨hne, hnd, hlt⟩⟩

/-! ### non-vacuity and sanity -/

/-- `c[k',l',j]` (partner of C03's `gA[i,k,l]` over `(k,l)`): ket `k'`, bra `l'`, bra `j`; odd
    charge; label 3; a pending sign; sparse: `gA`'s sector `(1,1,1)` has no partner -/
def fC : Arr Int :=
  { sym := .Z2, fermi := true, indices := [C03.ixk false, C03.ixk true, C03.ixi true], charge := (1, 0),
    blocks := [([(0,0),(1,0),(0,0)], C03.mkB [1,2,2] 1), ([(1,0),(0,0),(0,0)], C03.mkB [2,1,2] (-2)),
               ([(0,0),(0,0),(1,0)], C03.mkB [1,1,1] 5)],
    phases := [([(1,0),(0,0),(0,0)], -1)], oddpos := [(3, false)] }

-- hypotheses of the fermionic theorems: odd operands with pending signs and labels.
-- (i) two contracted legs at positions (1,2) of `gA` (a DUAL group) and (0,1) of `fC` (adjacent, in order);
-- (ii) legs (0,2) of `gA` (NOT adjacent) against (2,1) of `fC` (reversed order);
-- (iii) C03's pair: legs (1,2) of `gA` against (1,0) of `gB` (reversed order)
example : C03.gA.validB = true ∧ fC.validB = true ∧ C03.gB.validB = true
    ∧ C03.gA.fermi = true ∧ fC.fermi = true ∧ C03.gB.fermi = true
    ∧ tdotAdmissibleCommonB C03.gA fC [1, 2] [0, 1] = true
    ∧ tdotAdmissibleCommonB C03.gA fC [0, 2] [2, 1] = true
    ∧ tdotAdmissibleCommonB C03.gA C03.gB [1, 2] [1, 0] = true
    ∧ (dropMisaligned C03.gA fC [1, 2] [0, 1]).1.blocks.length = 3
    ∧ bondPos C03.gA [1, 2] = 1 ∧ bondPos fC [0, 1] = 0 ∧ bondPos C03.gA [0, 2] = 0 ∧ bondPos fC [2, 1] = 1
    ∧ newG C03.gA [0, 2] = [0, 1] ∧ newG fC [2, 1] = [1, 2]
    ∧ (C03.gA.indices.getD 1 default).dual = true := by decide +kernel

example : AdjOk C03.gA [1, 2] := adjacent_consecutive C03.gA 1 2 (by decide) (by decide)
example : AdjOk fC [0, 1] := adjacent_consecutive fC 0 2 (by decide) (by decide)

example : FCtx (dropMisaligned C03.gA fC [1, 2] [0, 1]).1 (dropMisaligned C03.gA fC [1, 2] [0, 1]).2 [1, 2] [0, 1] :=
  fctx_of_dropMisaligned C03.gA fC [1, 2] [0, 1]
    (AdmW.of (by decide +kernel) (by decide +kernel) rfl rfl (by decide +kernel))
    (adjacent_consecutive C03.gA 1 2 (by decide) (by decide)) (adjacent_consecutive fC 0 2 (by decide) (by decide))

example : FCtxG (dropMisaligned C03.gA fC [0, 2] [2, 1]).1 (dropMisaligned C03.gA fC [0, 2] [2, 1]).2 [0, 2] [2, 1] :=
  aligned_fctxG C03.gA fC [0, 2] [2, 1] (by decide +kernel) (by decide +kernel) rfl rfl (by decide +kernel)
    (by decide)

/-- the route align → fermionic fuse → tensordot_fermionic over the single fused pair against
    tensordot_fermionic over the original pairs, on concrete operands: same synchronised blocks
    (up to all-zero blocks in fused / auto mode), same labels, same charge -/
def routeAgrees (a b : Arr Int) (xa xb : List Nat) (fm1 fm2 : FuseMode) (m1 m2 : TdotMode) : Bool :=
  match (dropMisaligned a b xa xb).1.fuseF [xa] fm1 false, (dropMisaligned a b xa xb).2.fuseF [xb] fm2 true with
  | .ok af, .ok bf =>
    match af.tensordotF bf (.pair [Int.ofNat (bondPos a xa)] [Int.ofNat (bondPos b xb)]) m2,
          a.tensordotF b (.pair (xa.map Int.ofNat) (xb.map Int.ofNat)) m1 with
    | .ok cf, .ok c =>
      cf.phaseSync.blocks.all (fun p => p.2.data.all (· == 0)
        || (alookup c.phaseSync.blocks p.1).map (·.data) == some p.2.data)
      && c.phaseSync.blocks.all (fun p => p.2.data.all (· == 0)
        || (alookup cf.phaseSync.blocks p.1).map (·.data) == some p.2.data)
      && cf.oddpos == c.oddpos && cf.charge == c.charge && c.blocks.length != 0
      && af.ndim + xa.length == a.ndim + 1 && bf.ndim + xb.length == b.ndim + 1
    | _, _ => false
  | _, _ => false

-- sanity (i): adjacent groups; (ii) non-adjacent / reversed groups; (iii) reversed group on the right;
-- insert / concat, blockwise / fused / auto
example : routeAgrees C03.gA fC [1, 2] [0, 1] .insert .concat .blockwise .blockwise = true
    ∧ routeAgrees C03.gA fC [1, 2] [0, 1] .concat .insert .fused .auto = true
    ∧ routeAgrees C03.gA fC [0, 2] [2, 1] .insert .insert .blockwise .blockwise = true
    ∧ routeAgrees C03.gA fC [0, 2] [2, 1] .concat .concat .auto .fused = true
    ∧ routeAgrees C03.gA C03.gB [1, 2] [1, 0] .insert .concat .blockwise .blockwise = true
    ∧ routeAgrees C03.gA C03.gB [2, 1] [0, 1] .insert .insert .blockwise .auto = true := by
  decide +kernel

-- the sign identity on the examples: all aligned sector pairs of (ii)
example :
    ([([(1,0),(0,0),(0,0)], [(0,0),(0,0),(1,0)]), ([(0,0),(1,0),(0,0)], [(1,0),(0,0),(0,0)]),
      ([(0,0),(0,0),(1,0)], [(0,0),(1,0),(0,0)])] : List (Sector × Sector)).all (fun p =>
      gradedSign C03.gA fC [0, 2] [2, 1] p.1 p.2
        == bondSign .Z2 false 0 1 (permuted p.1 [1]) (permuted p.2 [0]) (oddContracted C03.gA [0, 2] p.1)
            * FuseP.fuseSignF C03.gA [[0, 2]] p.1 * FuseP.fuseSignF fC [[2, 1]] p.2) = true := by
  decide +kernel

end SymmModel.C06
