/-
  C06 (seventh part) — the FIRST clause of the property for FERMIONIC operands, and the abelian
  first clause with both contractions in any mode.

  Abelian:
  * `tensordot_fuse_contracted_commute_both_modes` — C06f's `tensordot_fuse_contracted_commute`
    with the contraction of the two pre-fused operands in mode `mode1` AND `tensordot(a, b)` over
    the original pairs in mode `mode2` (each of blockwise / fused / auto): every stored entry of the
    first result is the element of the second at that address.
    (`fuse_contracted_aligned_every_mode`: the aligned-pair level, with the stored blocks' shapes.)

  Fermionic (`tensordot_fermionic`, `FermionicArray.fuse`; even and odd parity, pending signs,
  labels, any directions; weak guard `tdotAdmissibleCommonB`):
  * `fuse_signs_contraction_compatible` — THE SIGN IDENTITY ("fermionic fuse signs chosen to be
    contraction-compatible", fermionic_core.py:596-680): for every pair of sectors with equal
    contracted charges, the graded sign of the contraction over the original pairs (two Koszul
    signs, nesting sign `(-1)^(m(m-1)/2)`, `-1` per odd ket-then-bra pair; `gradedSign`, C03) is
    the graded sign of the contraction over the SINGLE fused pair (`bondSign`; it depends only on
    the free charges, the direction of the fused leg and the parity of the fused charge:
    `gradedSign_single_pair`) times the two fermionic fuse signs (C05's `fuseSignT`:
    `fuseF_adjacent_sign`).
  * `fuse_contracted_aligned_fermionic` — for an aligned fermionic pair (`TdotP.FCtx`; the
    operands after `dropMisaligned` are such a pair: `aligned_fctx`): both fermionic fuses of the
    contracted legs succeed, the fused operands satisfy the guard, `tensordot_fermionic` over the
    single fused pair fails with the same (label) error as over the original pairs or succeeds
    with the same labels, charge, symmetry, kind, rank and the SAME ELEMENT at every address of the
    free legs' table box.
  * `tensordot_fuse_contracted_commute_fermionic_partial` — the public route from `a`, `b`:
    align, `fuse` (either strategy, any `expand_empty`) the contracted legs of each operand,
    `tensordot_fermionic` over the single fused pair = `tensordot_fermionic(a, b, (xa, xb))`
    (blockwise), same error or same labels / charge / rank / element at every address of the
    aligned free legs' table box.
  * `tensordot_fuse_contracted_commute_fermionic_any_mode_partial` — the same with the contraction
    over the original pairs in mode `m1` and the contraction of the fused operands in mode `m2`
    (each of blockwise / fused / auto): every stored entry of the fused-route result is the
    element of the plain result at that address.
  `_partial`: the contracted legs of each operand have to be ADJACENT AND IN INCREASING ORDER
  (`TdotP.AdjOk`: the permutation `before ++ group ++ after` of `_fuse_core` is the identity;
  `adjacent_consecutive`: legs `p, p+1, …, p+k-1`, at ANY position `p` of each operand — the
  Koszul signs of moving the group / the fused leg past the free legs are part of the statement).
  FULL STATEMENT (not proved): the same for arbitrary `xa`, `xb` (any positions, any order), where
  `FermionicArray.fuse` first transposes by `before ++ group ++ after`.  What is missing is not a
  sign: `fuse_signs_contraction_compatible`'s Koszul bookkeeping (`TdotP.koszul_left_one`,
  `koszul_right_one`) already holds for an arbitrary group (the transposition sign of the fuse
  cancels against the Koszul sign of the contraction, `KoszulP.koszul_block_move`); missing is the
  value-level transport through the fuse's own transposition — that the fused operand
  `fusedArrM (signAdj a [xa]) (newGroupsF …)` (built from the TRANSPOSED sign-adjusted array) and
  the pair sum over the untransposed operands match term by term, i.e. `GradedP.pair_transport`
  for the layout `before ++ group ++ after` instead of `free ++ group`, or equivalently
  `fuseF a [xa] = fuseF (transposeF a perm) [consecutive group]` as arrays plus a RIGHT-operand
  version of `tdotF_pretranspose`.
-/
import SymmModel.Props.C06All5
import SymmModel.Proofs.FuseCommuteFM
import SymmModel.Proofs.FuseCommuteF8

namespace SymmModel.C06
open SymmModel SymmModel.TdotP SymmModel.GradedP SymmModel.RoutesP SymmModel.AssocP SymmModel.KoszulP
open SymmModel.Assoc3P SymmModel.Assoc4P

variable {R : Type}

/-! ## abelian: both contractions in any mode -/

/-- **fuse_contracted_aligned_every_mode** (aligned abelian pair): the contraction of the two
    pre-fused operands over the single fused pair in ANY mode succeeds; every stored block
    `(K, V)` has the shape the free legs' tables give to `K`, and every stored entry is the element
    of the blockwise contraction of `A`, `B` over the original pairs. -/
theorem fuse_contracted_aligned_every_mode [AddCommMonoid R] [Mul R] [Neg R]
    (hz1 : ∀ x : R, 0 * x = 0) (hz2 : ∀ x : R, x * 0 = 0) {A B : Arr R} {xa xb : List Nat}
    (h : Ctx0 A B xa xb) (hne : xa ≠ []) (mode : TdotMode) :
    ∃ cm, tensordotA (FuseP.fusedArrM A [xa]) (FuseP.fusedArrM B [xb])
        (.pair [Int.ofNat (bondPos A xa)] [Int.ofNat (bondPos B xb)]) mode = .ok cm
      ∧ ∀ K V, alookup cm.blocks K = some V →
          Arr.blockShape? (permuted A.indices (freeAxes A.ndim xa) ++ permuted B.indices (freeAxes B.ndim xb)) K
            = some V.shape
          ∧ ∀ J, inBox V.shape J = true →
            cm.elem K J = (tensordotBlockwise A B (freeAxes A.ndim xa) xa xb (freeAxes B.ndim xb)).elem K J :=
  bond_fuse_every_mode hz1 hz2 h hne mode

/-- **tensordot_fuse_contracted_commute_both_modes** (abelian, public operations): align, fuse
    the contracted legs of each operand into one (strategy `m1` / `m2`), contract the single fused
    pair in mode `mode1` — against `tensordot(a, b)` over the original pairs in mode `mode2`:
    all calls succeed and every stored entry of the first result is the element of the second at
    that address. -/
theorem tensordot_fuse_contracted_commute_both_modes [AddCommMonoid R] [Mul R] [Neg R]
    (hz1 : ∀ x : R, 0 * x = 0) (hz2 : ∀ x : R, x * 0 = 0) (a b : Arr R) (xa xb : List Nat)
    (ha : a.validB = true) (hb : b.validB = true) (hfa : a.fermi = false) (hfb : b.fermi = false)
    (hsym : a.sym = b.sym) (hc : ValidP.contractibleB a b xa xb = true)
    (hnA : xa.Nodup) (hnB : xb.Nodup) (hA : ∀ x ∈ xa, x < a.ndim) (hB : ∀ x ∈ xb, x < b.ndim)
    (hne : xa ≠ []) (m1 m2 : FuseMode) (mode1 mode2 : TdotMode) :
    ∃ af bf cm c,
      fuseA (dropMisaligned a b xa xb).1 [xa] m1 false = .ok af
      ∧ fuseA (dropMisaligned a b xa xb).2 [xb] m2 false = .ok bf
      ∧ tensordotA af bf (.pair [Int.ofNat (bondPos (dropMisaligned a b xa xb).1 xa)]
            [Int.ofNat (bondPos (dropMisaligned a b xa xb).2 xb)]) mode1 = .ok cm
      ∧ tensordotA a b (.pair (xa.map Int.ofNat) (xb.map Int.ofNat)) mode2 = .ok c
      ∧ ∀ K V, alookup cm.blocks K = some V → ∀ J, inBox V.shape J = true → cm.elem K J = c.elem K J :=
  bond_fuse_both_modes hz1 hz2 a b xa xb ha hb hfa hfb hsym hc hnA hnB hA hB hne m1 m2 mode1 mode2

/-! ## fermionic: the signs -/

/-- consecutive legs `p, p+1, …, p+k-1` (any position) are a group of adjacent legs in order -/
theorem adjacent_consecutive (X : Arr R) (p k : Nat) (hk : 1 ≤ k) (hpk : p + k ≤ X.ndim) :
    AdjOk X ((List.range k).map (fun j => p + j)) :=
  adjOk_consecutive X p k hk hpk

/-- what `AdjOk` says: a non-empty group of distinct legs whose `_fuse_core` permutation
    `before ++ group ++ after` is the identity -/
theorem adjOk_iff (X : Arr R) (g : List Nat) :
    AdjOk X g ↔ (g ≠ [] ∧ g.Nodup ∧ (∀ x ∈ g, x < X.ndim))
      ∧ (calcFuseGroupInfo [g] X.duals).perm = List.range X.ndim :=
  ⟨fun h => ⟨⟨h.one.ne, h.one.nd, h.one.lt⟩, h.idp⟩, fun h => ⟨⟨h.1.1, h.1.2.1, h.1.2.2⟩, h.2⟩⟩

/-- **fuseF_adjacent_operand**: the operand of `_fuse_core` inside the fermionic fuse of a group
    of adjacent legs in order is the array itself (same tables, same stored sectors, no pending
    signs) with every sector multiplied by the fuse sign `fuseSignT` (C05). -/
theorem fuseF_adjacent_operand [Zero R] [Neg R] [Lazy.LawfulNeg R] (a : Arr R) {g : List Nat}
    (hv : a.validB = true) (hf : a.fermi = true) (h : AdjOk a g) (e : Bool) :
    a.fuseF [g] .insert e = .ok (FuseP.fusedArrM (FuseP.signAdj a [g]) [g])
    ∧ (FuseP.signAdj a [g]).indices = a.indices
    ∧ (FuseP.signAdj a [g]).sectors = a.sectors
    ∧ (FuseP.signAdj a [g]).phases = []
    ∧ (FuseP.signAdj a [g]).validB = true
    ∧ ∀ S J, (FuseP.signAdj a [g]).elem S J = Lazy.sgnI (FuseP.fuseSignT a [g] S) (a.elem S J) := by
  obtain ⟨h1, _, h3, h4, h5, _, _, _, h9⟩ := signAdj_adj a hv hf h
  have hfuse := (FuseP.fuseF_elemT a [g] e hv hf h.one.groupsOk).1
  rw [adj_newGroupsF h] at hfuse
  exact ⟨hfuse, h1, h3, h4, h5, h9⟩

/-- **fuseF_adjacent_sign**: the fermionic fuse sign of a group of adjacent legs in order: for a
    dual group (first leg dual) `(-1)^(odd non-dual legs) · (-1)^(m(m-1)/2)`, `m` the number of odd
    charges of the group; `+1` for a non-dual group. -/
theorem fuseF_adjacent_sign [Zero R] [Neg R] {X : Arr R} {g : List Nat} (h : AdjOk X g) (S : Sector) :
    FuseP.fuseSignT X [g] S
      = if (X.indices.getD (g.headD 0) default).dual
        then sgn (ketOdd X g S)
          * sgn (oddCount (S.map X.sym.parity) g * (oddCount (S.map X.sym.parity) g - 1) / 2)
        else 1 :=
  adj_fuseSignT h S

/-- the graded sign of a contraction over one pair of legs at positions `pA`, `pB` -/
theorem bondSign_def (sym : Sym) (dualA : Bool) (pA pB : Nat) (Ls Rs : Sector) (m : Nat) :
    bondSign sym dualA pA pB Ls Rs m
      = sgn (m * oddIn sym (Ls.drop pA)) * sgn (oddIn sym (Rs.take pB) * m) * (if dualA then 1 else sgn m) :=
  rfl

/-- **gradedSign_single_pair**: the graded sign (C03) of a contraction over a SINGLE pair of legs
    (`pA` of `AF`, `pB` of `BF`) is `bondSign` of the free charges, the direction of the left leg
    and any `m` with the parity of the contracted charge. -/
theorem gradedSign_single_pair (AF BF : Arr R) (pA mA pB mB : Nat) (hnA : AF.ndim = pA + 1 + mA)
    (hnB : BF.ndim = pB + 1 + mB) (hsym : AF.sym = BF.sym) (sa' sb' : Sector)
    (hla : sa'.length = AF.ndim) (hlb : sb'.length = BF.ndim)
    (hK : permuted sb' [pB] = permuted sa' [pA]) (m : Nat)
    (hm : oddIn AF.sym (permuted sa' [pA]) % 2 = m % 2) :
    gradedSign AF BF [pA] [pB] sa' sb'
      = bondSign AF.sym (AF.indices.getD pA default).dual pA pB
          (permuted sa' (freeAxes AF.ndim [pA])) (permuted sb' (freeAxes BF.ndim [pB])) m :=
  gradedSign_fusedpair AF BF pA mA pB mB hnA hnB hsym sa' sb' hla hlb hK m hm

/-- **fuse_signs_contraction_compatible.**  `A`, `B` any arrays of one symmetry, contracted groups
    `xa`, `xb` of adjacent legs in order with opposite directions; `sa`, `sb` sectors of full length
    with equal contracted charges.  Then
      gradedSign(A, B; xa, xb)(sa, sb)
        = bondSign(free charges of sa, sb; number of odd contracted charges)
          · fuseSign(A, xa)(sa) · fuseSign(B, xb)(sb). -/
theorem fuse_signs_contraction_compatible [Zero R] [Neg R] (A B : Arr R) {xa xb : List Nat}
    (hA : AdjOk A xa) (hB : AdjOk B xb) (hsym : A.sym = B.sym) (hlen : xa.length = xb.length)
    (hdual : (xb.map (fun ax => B.indices.getD ax default)).map Index.dual
      = (xa.map (fun ax => A.indices.getD ax default)).map (fun ix => !ix.dual))
    (sa sb : Sector) (hla : sa.length = A.ndim) (hlb : sb.length = B.ndim)
    (hK : permuted sb xb = permuted sa xa) :
    gradedSign A B xa xb sa sb
      = bondSign A.sym (A.indices.getD (xa.headD 0) default).dual (bondPos A xa) (bondPos B xb)
          (permuted sa (freeAxes A.ndim xa)) (permuted sb (freeAxes B.ndim xb)) (oddContracted A xa sa)
        * FuseP.fuseSignT A [xa] sa * FuseP.fuseSignT B [xb] sb :=
  fuse_signs_compatible A B hA hB hsym hlen hdual sa sb hla hlb hK

/-! ## fermionic: fuse the contracted legs, contract the single fused pair -/

/-- the operands after `dropMisaligned` of a fermionic pair satisfying the weak guard (contracted
    legs adjacent and in order) form an aligned fermionic pair -/
theorem aligned_fctx [AddCommMonoid R] [Mul R] [Neg R] [SignRing R] (a b : Arr R) (xa xb : List Nat)
    (ha : a.validB = true) (hb : b.validB = true) (hfa : a.fermi = true) (hfb : b.fermi = true)
    (hadm : tdotAdmissibleCommonB a b xa xb = true) (hadjA : AdjOk a xa) (hadjB : AdjOk b xb) :
    FCtx (dropMisaligned a b xa xb).1 (dropMisaligned a b xa xb).2 xa xb :=
  fctx_of_dropMisaligned a b xa xb (AdmW.of ha hb hfa hfb hadm) hadjA hadjB

/-- **fuse_contracted_aligned_fermionic**: for an aligned fermionic pair `A`, `B` (contracted legs
    adjacent and in order): `fuseF(A, xa)`, `fuseF(B, xb)` succeed, the fused operands satisfy the
    weak guard for the single pair `(bondPos A xa, bondPos B xb)`, and `tensordot_fermionic` over
    that pair (blockwise) fails with the error of the contraction over the original pairs or
    succeeds with the same labels, charge, symmetry, kind, rank and the same element at every
    address `(Ls ++ Rs, oL ++ oR)` of the free legs' table box. -/
theorem fuse_contracted_aligned_fermionic [AddCommMonoid R] [Mul R] [Neg R] [SignRing R]
    (hz1 : ∀ x : R, 0 * x = 0) (hz2 : ∀ x : R, x * 0 = 0) {A B : Arr R} {xa xb : List Nat}
    (h : FCtx A B xa xb) (e1 e2 : Bool) :
    A.fuseF [xa] .insert e1 = .ok (FuseP.fusedArrM (FuseP.signAdj A [xa]) [xa])
    ∧ B.fuseF [xb] .insert e2 = .ok (FuseP.fusedArrM (FuseP.signAdj B [xb]) [xb])
    ∧ AdmW (FuseP.fusedArrM (FuseP.signAdj A [xa]) [xa]) (FuseP.fusedArrM (FuseP.signAdj B [xb]) [xb])
        [bondPos A xa] [bondPos B xb]
    ∧ (∀ e, A.tensordotF B (.pair (xa.map Int.ofNat) (xb.map Int.ofNat)) .blockwise = .error e →
        (FuseP.fusedArrM (FuseP.signAdj A [xa]) [xa]).tensordotF (FuseP.fusedArrM (FuseP.signAdj B [xb]) [xb])
          (.pair [Int.ofNat (bondPos A xa)] [Int.ofNat (bondPos B xb)]) .blockwise = .error e)
    ∧ ∀ c, A.tensordotF B (.pair (xa.map Int.ofNat) (xb.map Int.ofNat)) .blockwise = .ok c →
      ∃ cf, (FuseP.fusedArrM (FuseP.signAdj A [xa]) [xa]).tensordotF
            (FuseP.fusedArrM (FuseP.signAdj B [xb]) [xb])
            (.pair [Int.ofNat (bondPos A xa)] [Int.ofNat (bondPos B xb)]) .blockwise = .ok cf
        ∧ cf.oddpos = c.oddpos ∧ cf.charge = c.charge ∧ cf.sym = c.sym ∧ cf.fermi = c.fermi
        ∧ cf.ndim = c.ndim
        ∧ ∀ (Ls Rs : Sector) (oL oR shpL shpR : List Nat),
            Arr.blockShape? (permuted A.indices (freeAxes A.ndim xa)) Ls = some shpL → inBox shpL oL = true →
            Arr.blockShape? (permuted B.indices (freeAxes B.ndim xb)) Rs = some shpR → inBox shpR oR = true →
            cf.elem (Ls ++ Rs) (oL ++ oR) = c.elem (Ls ++ Rs) (oL ++ oR) :=
  bond_fuse_fermi hz1 hz2 h e1 e2

/-- the mode of the fermionic fuse does not matter for the aligned operands -/
theorem fuseF_mode_aligned [AddCommMonoid R] [Mul R] [Neg R] [SignRing R] {A B : Arr R} {xa xb : List Nat}
    (h : FCtx A B xa xb) (fm : FuseMode) (e : Bool) :
    A.fuseF [xa] fm e = A.fuseF [xa] .insert e ∧ B.fuseF [xb] fm e = B.fuseF [xb] .insert e := by
  cases fm
  · exact ⟨rfl, rfl⟩
  · exact ⟨C05.fuseF_concat_eq_insert A _ e h.W.va h.W.fa (FuseP.groupsOk_iff.2 h.adjA.one.groupsOk) (by simp),
      C05.fuseF_concat_eq_insert B _ e h.W.vb h.W.fb (FuseP.groupsOk_iff.2 h.adjB.one.groupsOk) (by simp)⟩

/-- **tensordot_fuse_contracted_commute_fermionic_partial** (C06, first clause, FERMIONIC, public
    operations, blockwise; contracted legs of each operand adjacent and in order — see the file
    header for the full statement and what is missing).  `a`, `b` valid fermionic arrays (any
    parity, pending signs, labels) satisfying the weak guard.  With `(a', b') =
    drop_misaligned_sectors(a, b)`: `fuse(a', xa)` and `fuse(b', xb)` (strategies `fm1`, `fm2`,
    any `expand_empty`) succeed; the fused operands have one leg for the contracted group;
    `tensordot_fermionic` of the fused operands over the single fused pair fails with the error of
    `tensordot_fermionic(a, b, (xa, xb))` (clashing labels) when that fails, and otherwise succeeds
    with the same labels, charge, symmetry, kind and rank and the same element at every address of
    the free legs' table box (tables of the aligned operands; every stored sector of the plain
    result lies there). -/
theorem tensordot_fuse_contracted_commute_fermionic_partial [AddCommMonoid R] [Mul R] [Neg R] [SignRing R]
    (hz1 : ∀ x : R, 0 * x = 0) (hz2 : ∀ x : R, x * 0 = 0) (a b : Arr R) (xa xb : List Nat)
    (ha : a.validB = true) (hb : b.validB = true) (hfa : a.fermi = true) (hfb : b.fermi = true)
    (hadm : tdotAdmissibleCommonB a b xa xb = true) (hadjA : AdjOk a xa) (hadjB : AdjOk b xb)
    (fm1 fm2 : FuseMode) (e1 e2 : Bool) :
    ∃ af bf, (dropMisaligned a b xa xb).1.fuseF [xa] fm1 e1 = .ok af
      ∧ (dropMisaligned a b xa xb).2.fuseF [xb] fm2 e2 = .ok bf
      ∧ af.validB = true ∧ bf.validB = true ∧ af.fermi = true ∧ bf.fermi = true
      ∧ af.ndim + xa.length = a.ndim + 1 ∧ bf.ndim + xb.length = b.ndim + 1
      ∧ (∀ e, a.tensordotF b (.pair (xa.map Int.ofNat) (xb.map Int.ofNat)) .blockwise = .error e →
          af.tensordotF bf (.pair [Int.ofNat (bondPos a xa)] [Int.ofNat (bondPos b xb)]) .blockwise = .error e)
      ∧ ∀ c, a.tensordotF b (.pair (xa.map Int.ofNat) (xb.map Int.ofNat)) .blockwise = .ok c →
        ∃ cf, af.tensordotF bf (.pair [Int.ofNat (bondPos a xa)] [Int.ofNat (bondPos b xb)]) .blockwise = .ok cf
          ∧ cf.oddpos = c.oddpos ∧ cf.charge = c.charge ∧ cf.sym = c.sym ∧ cf.fermi = c.fermi
          ∧ cf.ndim = c.ndim
          ∧ ∀ (Ls Rs : Sector) (oL oR shpL shpR : List Nat),
              Arr.blockShape? (permuted (dropMisaligned a b xa xb).1.indices (freeAxes a.ndim xa)) Ls = some shpL →
              inBox shpL oL = true →
              Arr.blockShape? (permuted (dropMisaligned a b xa xb).2.indices (freeAxes b.ndim xb)) Rs = some shpR →
              inBox shpR oR = true →
              cf.elem (Ls ++ Rs) (oL ++ oR) = c.elem (Ls ++ Rs) (oL ++ oR) := by
  have W := AdmW.of ha hb hfa hfb hadm
  have h := fctx_of_dropMisaligned a b xa xb W hadjA hadjB
  obtain ⟨af, bf, f1, f2, W', n1, n2, herr, hok⟩ := fuse_contracted_fermi hz1 hz2 a b xa xb W hadjA hadjB e1 e2
  refine ⟨af, bf, ?_, ?_, W'.va, W'.vb, W'.fa, W'.fb, n1, n2, herr, hok⟩
  · rw [(fuseF_mode_aligned h fm1 e1).1]; exact f1
  · rw [(fuseF_mode_aligned h fm2 e2).2]; exact f2

/-- **tensordot_fuse_contracted_commute_fermionic_any_mode_partial**: as
    `tensordot_fuse_contracted_commute_fermionic_partial`, with `tensordot_fermionic(a, b, (xa, xb))`
    in mode `m1` and the contraction of the fused operands over the single fused pair in mode `m2`
    (each of blockwise / fused / auto): same error, or both succeed with the same labels, charge,
    symmetry, kind and rank, and EVERY STORED ENTRY of the fused-route result is the element of the
    plain result at that address (a stored sector the plain result lacks is an all-zero block). -/
theorem tensordot_fuse_contracted_commute_fermionic_any_mode_partial
    [AddCommMonoid R] [Mul R] [Neg R] [SignRing R]
    (hz1 : ∀ x : R, 0 * x = 0) (hz2 : ∀ x : R, x * 0 = 0) (a b : Arr R) (xa xb : List Nat)
    (ha : a.validB = true) (hb : b.validB = true) (hfa : a.fermi = true) (hfb : b.fermi = true)
    (hadm : tdotAdmissibleCommonB a b xa xb = true) (hadjA : AdjOk a xa) (hadjB : AdjOk b xb)
    (fm1 fm2 : FuseMode) (e1 e2 : Bool) (m1 m2 : TdotMode) :
    ∃ af bf, (dropMisaligned a b xa xb).1.fuseF [xa] fm1 e1 = .ok af
      ∧ (dropMisaligned a b xa xb).2.fuseF [xb] fm2 e2 = .ok bf
      ∧ (∀ e, a.tensordotF b (.pair (xa.map Int.ofNat) (xb.map Int.ofNat)) m1 = .error e →
          af.tensordotF bf (.pair [Int.ofNat (bondPos a xa)] [Int.ofNat (bondPos b xb)]) m2 = .error e)
      ∧ ∀ c, a.tensordotF b (.pair (xa.map Int.ofNat) (xb.map Int.ofNat)) m1 = .ok c →
        ∃ cf, af.tensordotF bf (.pair [Int.ofNat (bondPos a xa)] [Int.ofNat (bondPos b xb)]) m2 = .ok cf
          ∧ cf.oddpos = c.oddpos ∧ cf.charge = c.charge ∧ cf.sym = c.sym ∧ cf.fermi = c.fermi
          ∧ cf.ndim = c.ndim
          ∧ ∀ K V, alookup cf.blocks K = some V → ∀ J, inBox V.shape J = true → cf.elem K J = c.elem K J := by
  have W := AdmW.of ha hb hfa hfb hadm
  have h := fctx_of_dropMisaligned a b xa xb W hadjA hadjB
  obtain ⟨af, bf, f1, f2, rest⟩ := fuse_contracted_fermi_modes hz1 hz2 a b xa xb W hadjA hadjB e1 e2 m1 m2
  refine ⟨af, bf, ?_, ?_, rest⟩
  · rw [(fuseF_mode_aligned h fm1 e1).1]; exact f1
  · rw [(fuseF_mode_aligned h fm2 e2).2]; exact f2

/-! ### non-vacuity and sanity -/

/-- `c[k',l',j]` (partner of C03's `gA[i,k,l]` over `(k,l)`): ket `k'`, bra `l'`, bra `j`; odd
    charge; label 3; a pending sign; sparse: `gA`'s sector `(1,1,1)` has no partner -/
def fC : Arr Int :=
  { sym := .Z2, fermi := true, indices := [C03.ixk false, C03.ixk true, C03.ixi true], charge := (1, 0),
    blocks := [([(0,0),(1,0),(0,0)], C03.mkB [1,2,2] 1), ([(1,0),(0,0),(0,0)], C03.mkB [2,1,2] (-2)),
               ([(0,0),(0,0),(1,0)], C03.mkB [1,1,1] 5)],
    phases := [([(1,0),(0,0),(0,0)], -1)], oddpos := [(3, false)] }

-- hypotheses of the fermionic theorems: odd operands with pending signs and labels, two contracted
-- legs at positions (1,2) of `gA` (a DUAL group: fuse signs at work) and (0,1) of `fC`
example : C03.gA.validB = true ∧ fC.validB = true ∧ C03.gA.fermi = true ∧ fC.fermi = true
    ∧ tdotAdmissibleCommonB C03.gA fC [1, 2] [0, 1] = true
    ∧ (dropMisaligned C03.gA fC [1, 2] [0, 1]).1.blocks.length = 3
    ∧ bondPos C03.gA [1, 2] = 1 ∧ bondPos fC [0, 1] = 0
    ∧ (C03.gA.indices.getD 1 default).dual = true := by decide +kernel

example : AdjOk C03.gA [1, 2] := adjacent_consecutive C03.gA 1 2 (by decide) (by decide)
example : AdjOk fC [0, 1] := adjacent_consecutive fC 0 2 (by decide) (by decide)

example : FCtx (dropMisaligned C03.gA fC [1, 2] [0, 1]).1 (dropMisaligned C03.gA fC [1, 2] [0, 1]).2 [1, 2] [0, 1] :=
  aligned_fctx C03.gA fC [1, 2] [0, 1] (by decide +kernel) (by decide +kernel) rfl rfl (by decide +kernel)
    (adjacent_consecutive C03.gA 1 2 (by decide) (by decide)) (adjacent_consecutive fC 0 2 (by decide) (by decide))

-- sanity: the route align → fermionic fuse (insert / concat) → tensordot_fermionic over the single
-- fused pair gives exactly the synchronised blocks and labels of tensordot_fermionic over the two
-- original pairs (two result sectors; `(0,0)` accumulates two signed pairs)
example :
    (match (dropMisaligned C03.gA fC [1, 2] [0, 1]).1.fuseF [[1, 2]] .insert false,
           (dropMisaligned C03.gA fC [1, 2] [0, 1]).2.fuseF [[0, 1]] .concat true with
     | .ok af, .ok bf =>
        match af.tensordotF bf (.pair [1] [0]) .blockwise,
              C03.gA.tensordotF fC (.pair [1, 2] [0, 1]) .blockwise with
        | .ok cf, .ok c =>
          cf.phaseSync.blocks.all (fun p => (alookup c.phaseSync.blocks p.1).map (·.data) == some p.2.data)
          && c.phaseSync.blocks.all (fun p => (alookup cf.phaseSync.blocks p.1).map (·.data) == some p.2.data)
          && cf.oddpos == c.oddpos && cf.charge == c.charge
          && cf.blocks.length == 2 && af.ndim == 2 && bf.ndim == 2
        | _, _ => false
     | _, _ => false) = true := by decide +kernel

-- the same with the plain contraction in fused mode and the contraction of the fused operands in
-- auto mode: every stored non-zero block of either is a block of the other
example :
    (match (dropMisaligned C03.gA fC [1, 2] [0, 1]).1.fuseF [[1, 2]] .concat true,
           (dropMisaligned C03.gA fC [1, 2] [0, 1]).2.fuseF [[0, 1]] .insert false with
     | .ok af, .ok bf =>
        match af.tensordotF bf (.pair [1] [0]) .auto,
              C03.gA.tensordotF fC (.pair [1, 2] [0, 1]) .fused with
        | .ok cf, .ok c =>
          cf.phaseSync.blocks.all (fun p => p.2.data.all (· == 0)
            || (alookup c.phaseSync.blocks p.1).map (·.data) == some p.2.data)
          && c.phaseSync.blocks.all (fun p => p.2.data.all (· == 0)
            || (alookup cf.phaseSync.blocks p.1).map (·.data) == some p.2.data)
          && cf.oddpos == c.oddpos && cf.blocks.length != 0
        | _, _ => false
     | _, _ => false) = true := by decide +kernel

-- the sign identity on the example: all four aligned sector pairs
example :
    ([([(1,0),(0,0),(0,0)], [(0,0),(0,0),(1,0)]), ([(0,0),(1,0),(0,0)], [(1,0),(0,0),(0,0)]),
      ([(0,0),(0,0),(1,0)], [(0,0),(1,0),(0,0)]), ([(1,0),(1,0),(1,0)], [(1,0),(1,0),(1,0)])] :
        List (Sector × Sector)).all (fun p =>
      gradedSign C03.gA fC [1, 2] [0, 1] p.1 p.2
        == bondSign .Z2 true 1 0 (permuted p.1 [0]) (permuted p.2 [2]) (oddContracted C03.gA [1, 2] p.1)
            * FuseP.fuseSignT C03.gA [[1, 2]] p.1 * FuseP.fuseSignT fC [[0, 1]] p.2) = true := by
  decide +kernel

end SymmModel.C06
