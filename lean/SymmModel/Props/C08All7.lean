/- Property C08 — umbrella incl. C08h (item / scalar conversions, allclose ⇔ equal dense forms). -/
import SymmModel.Props.C08All6
import SymmModel.Props.C08h
