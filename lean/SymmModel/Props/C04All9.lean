import SymmModel.Props.C04All8
import SymmModel.Props.C04g
