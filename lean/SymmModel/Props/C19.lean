/-
  Property C19 — edge-wise Hamiltonians add up to the lattice Hamiltonian, each term once.
  Theorems about SymmModel/Model/Ham.lean, for all edge lists (no size bound).
-/
import SymmModel.Proofs.HamLemmas
namespace SymmModel.C19
open SymmModel SymmModel.HamLemmas

/-- `coordinations[v]` is the number of edge ends at `v`; it is absent exactly when no edge
    mentions `v` (so every site mentioned has coordination ≥ 1). -/
theorem coordination_eq_degree (edges : List Edge) (v : Site) :
    coordination edges v = if degree edges v = 0 then none else some (degree edges v) :=
  coordination_eq edges v

/-- every endpoint of every edge has a coordination, and it is ≥ 1 -/
theorem coordination_pos (edges : List Edge) (e : Edge) (he : e ∈ edges) :
    (∃ n, coordination edges e.1 = some n ∧ 1 ≤ n) ∧ (∃ n, coordination edges e.2 = some n ∧ 1 ≤ n) := by
  have h1 : degree edges e.1 ≠ 0 := (degree_ne_zero_iff edges e.1).mpr ⟨e, he, Or.inl rfl⟩
  have h2 : degree edges e.2 ≠ 0 := (degree_ne_zero_iff edges e.2).mpr ⟨e, he, Or.inr rfl⟩
  constructor
  · exact ⟨degree edges e.1, by simp [coordination_eq, h1], by omega⟩
  · exact ⟨degree edges e.2, by simp [coordination_eq, h2], by omega⟩

/-- **onsite_total** (arithmetic form).  For every edge list and every site `v` that occurs in
    it, adding `c / coordination v` once for every edge end at `v` gives `c`. -/
theorem onsite_total (edges : List Edge) (v : Site) (n : Nat) (c : Rat)
    (hn : coordination edges v = some n) :
    (edges.map (fun e => (if e.1 = v then c / (n : Rat) else 0)
        + (if e.2 = v then c / (n : Rat) else 0))).sum = c := by
  obtain ⟨hn1, hn2⟩ := coord_some edges v n hn
  subst hn1
  rw [sum_ends]
  have : (degree edges v : Rat) ≠ 0 := by exact_mod_cast hn2
  field_simp

example : coordination [(0, 1), (2, 1)] 1 = some 2 := by decide

/-! ### the sum of all edge terms is the lattice Hamiltonian -/

/-- **ham_sum_eq_lattice** (spinful Fermi–Hubbard).  If the builder returns, then as formal
    operator polynomials (coefficient of every monomial `(kind, sites)`) the sum of all returned
    two-site terms is  Σ_bonds −t (hopping both ways, both spins) + Σ_sites (U n↑n↓ − mu n↑ − mu n↓),
    every bond once and every site once. -/
theorem ham_sum_eq_lattice (edges : List Edge) (t : EdgeCoef) (U mu : NodeCoef)
    (H : List (Edge × LocalArgs × List Term)) (hnd : edges.Nodup)
    (hH : hamHubbard edges t U mu = some H) (k : Kind) (s : List Site) :
    coefAt (allTerms H) k s
      = coefAt (latticeHubbard edges (fun a b => (t.get a b).getD 0)
          (fun v => (U.get v).getD 0) (fun v => (mu.get v).getD 0)) k s := by
  apply edgewise_eq_lattice (hubbardArgs edges t U mu) hubbardLocalTerms
    (fun e => hubBondTerms ((t.get e.1 e.2).getD 0) e.1 e.2)
    (fun v => hubSiteTerms ((U.get v).getD 0) ((mu.get v).getD 0) v) edges H hnd hH k s
  · intro v hv; exact hubSite_support _ _ v k s hv
  · intro e _ g hg
    obtain ⟨h1, h2, h3, h4, h5, h6, h7⟩ := hubbardArgs_some edges t U mu e g hg
    rw [hubbard_local_decomp, h1, h2, h3, h4, h5, (coord_some _ _ _ h6).1, (coord_some _ _ _ h7).1]
    simp only [Option.getD_some]


/-- **ham_sum_eq_lattice**, spinless t–V model:  Σ_bonds (−t hopping both ways + V n n) − Σ_sites mu n. -/
theorem ham_sum_eq_lattice_spinless (edges : List Edge) (t V : EdgeCoef) (mu : NodeCoef)
    (H : List (Edge × LocalArgs × List Term)) (hnd : edges.Nodup)
    (hH : hamSpinless edges t V mu = some H) (k : Kind) (s : List Site) :
    coefAt (allTerms H) k s
      = coefAt (latticeSpinless edges (fun a b => (t.get a b).getD 0)
          (fun a b => (V.get a b).getD 0) (fun v => (mu.get v).getD 0)) k s := by
  apply edgewise_eq_lattice (spinlessArgs edges t V mu) spinlessLocalTerms
    (fun e => slBondTerms ((t.get e.1 e.2).getD 0) ((V.get e.1 e.2).getD 0) e.1 e.2)
    (fun v => slSiteTerms ((mu.get v).getD 0) v) edges H hnd hH k s
  · intro v hv; exact slSite_support _ v k s hv
  · intro e _ g hg
    obtain ⟨h1, h2, h3, h4, h5, h6⟩ := spinlessArgs_some edges t V mu e g hg
    rw [spinless_local_decomp, h1, h2, h3, h4, (coord_some _ _ _ h5).1, (coord_some _ _ _ h6).1]
    simp only [Option.getD_some]

/-- **ham_sum_eq_lattice**, transverse-field Ising:  Σ_bonds jx X X + Σ_sites hz Z. -/
theorem ham_sum_eq_lattice_tfim (edges : List Edge) (jx : EdgeCoef) (hz : NodeCoef)
    (H : List (Edge × LocalArgs × List Term)) (hnd : edges.Nodup)
    (hH : hamTfim edges jx hz = some H) (k : Kind) (s : List Site) :
    coefAt (allTerms H) k s
      = coefAt (latticeTfim edges (fun a b => (jx.get a b).getD 0) (fun v => (hz.get v).getD 0)) k s := by
  apply edgewise_eq_lattice (tfimArgs edges jx hz) tfimLocalTerms
    (fun e => tfBondTerms ((jx.get e.1 e.2).getD 0) e.1 e.2)
    (fun v => tfSiteTerms ((hz.get v).getD 0) v) edges H hnd hH k s
  · intro v hv; exact tfSite_support _ v k s hv
  · intro e _ g hg
    obtain ⟨h1, h2, h3, h4, h5⟩ := tfimArgs_some edges jx hz e g hg
    rw [tfim_local_decomp, h1, h2, h3, (coord_some _ _ _ h4).1, (coord_some _ _ _ h5).1]
    simp only [Option.getD_some]

example : simpleB [(0, 1), (2, 1), (0, 2)] = true ∧ [(0, 1), (2, 1), (0, 2)].Nodup := by decide
example : (hamHubbard [(0, 1), (2, 1)] (.dict [((1, 0), 60), ((2, 1), 120)]) (.scalar 60)
    (.fn (fun v => 60 * v))).isSome = true := by decide

/-! ### on-site totals on the builders' output -/

/-- **onsite_total**, spinful: over all edges touching a site `v` of the graph, the
    double-occupancy coefficients total exactly `U(v)`, and the number-operator coefficients of
    either spin total exactly `−mu(v)` — whatever the degree of `v`. -/
theorem onsite_total_hubbard (edges : List Edge) (t : EdgeCoef) (U mu : NodeCoef)
    (H : List (Edge × LocalArgs × List Term)) (hnd : edges.Nodup)
    (hH : hamHubbard edges t U mu = some H) (v : Site) (hv : v ∈ sitesOf edges) :
    ∃ u m, U.get v = some u ∧ mu.get v = some m
      ∧ coefAt (allTerms H) .dbl [v] = u
      ∧ coefAt (allTerms H) (.num .up) [v] = -m
      ∧ coefAt (allTerms H) (.num .dn) [v] = -m := by
  obtain ⟨_, hsome⟩ := edgeDict_closed _ _ edges H hnd hH
  obtain ⟨e, he, hev⟩ := (mem_sitesOf edges v).mp hv
  obtain ⟨g, hg⟩ := Option.isSome_iff_exists.mp (hsome e he)
  obtain ⟨_, h2, h3, h4, h5, _, _⟩ := hubbardArgs_some edges t U mu e g hg
  have hU : ∃ u, U.get v = some u := by
    rcases hev with rfl | rfl
    · exact ⟨_, h2⟩
    · exact ⟨_, h3⟩
  have hM : ∃ m, mu.get v = some m := by
    rcases hev with rfl | rfl
    · exact ⟨_, h4⟩
    · exact ⟨_, h5⟩
  obtain ⟨u, hu⟩ := hU
  obtain ⟨m, hm⟩ := hM
  refine ⟨u, m, hu, hm, ?_, ?_, ?_⟩
  all_goals
    rw [ham_sum_eq_lattice edges t U mu H hnd hH]
    refine (lattice_site_eval (fun e => hubBondTerms ((t.get e.1 e.2).getD 0) e.1 e.2)
      (fun v => hubSiteTerms ((U.get v).getD 0) ((mu.get v).getD 0) v) edges _ v
      (by intro e; simp [coefAt, hubBondTerms])
      (by intro u' hu'; exact hubSite_support _ _ u' _ [v] (by simpa using (Ne.symm hu')))).trans ?_
    simp [hv, coefAt, hubSiteTerms, hu, hm]


/-- **onsite_total**, spinless: the number-operator coefficients at `v` total exactly `−mu(v)`. -/
theorem onsite_total_spinless (edges : List Edge) (t V : EdgeCoef) (mu : NodeCoef)
    (H : List (Edge × LocalArgs × List Term)) (hnd : edges.Nodup)
    (hH : hamSpinless edges t V mu = some H) (v : Site) (hv : v ∈ sitesOf edges) :
    ∃ m, mu.get v = some m ∧ coefAt (allTerms H) (.num .none) [v] = -m := by
  obtain ⟨_, hsome⟩ := edgeDict_closed _ _ edges H hnd hH
  obtain ⟨e, he, hev⟩ := (mem_sitesOf edges v).mp hv
  obtain ⟨g, hg⟩ := Option.isSome_iff_exists.mp (hsome e he)
  obtain ⟨_, _, h3, h4, _, _⟩ := spinlessArgs_some edges t V mu e g hg
  have hM : ∃ m, mu.get v = some m := by
    rcases hev with rfl | rfl
    · exact ⟨_, h3⟩
    · exact ⟨_, h4⟩
  obtain ⟨m, hm⟩ := hM
  refine ⟨m, hm, ?_⟩
  rw [ham_sum_eq_lattice_spinless edges t V mu H hnd hH]
  refine (lattice_site_eval
    (fun e => slBondTerms ((t.get e.1 e.2).getD 0) ((V.get e.1 e.2).getD 0) e.1 e.2)
    (fun v => slSiteTerms ((mu.get v).getD 0) v) edges _ v
    (by intro e; simp [coefAt, slBondTerms])
    (by intro u' hu'; exact slSite_support _ u' _ [v] (by simpa using (Ne.symm hu')))).trans ?_
  simp [hv, coefAt, slSiteTerms, hm]

/-- **onsite_total**, TFIM: the field coefficients at `v` total exactly `hz(v)`. -/
theorem onsite_total_tfim (edges : List Edge) (jx : EdgeCoef) (hz : NodeCoef)
    (H : List (Edge × LocalArgs × List Term)) (hnd : edges.Nodup)
    (hH : hamTfim edges jx hz = some H) (v : Site) (hv : v ∈ sitesOf edges) :
    ∃ h, hz.get v = some h ∧ coefAt (allTerms H) .zf [v] = h := by
  obtain ⟨_, hsome⟩ := edgeDict_closed _ _ edges H hnd hH
  obtain ⟨e, he, hev⟩ := (mem_sitesOf edges v).mp hv
  obtain ⟨g, hg⟩ := Option.isSome_iff_exists.mp (hsome e he)
  obtain ⟨_, h2, h3, _, _⟩ := tfimArgs_some edges jx hz e g hg
  have hM : ∃ m, hz.get v = some m := by
    rcases hev with rfl | rfl
    · exact ⟨_, h2⟩
    · exact ⟨_, h3⟩
  obtain ⟨m, hm⟩ := hM
  refine ⟨m, hm, ?_⟩
  rw [ham_sum_eq_lattice_tfim edges jx hz H hnd hH]
  refine (lattice_site_eval
    (fun e => tfBondTerms ((jx.get e.1 e.2).getD 0) e.1 e.2)
    (fun v => tfSiteTerms ((hz.get v).getD 0) v) edges _ v
    (by intro e; simp [coefAt, tfBondTerms])
    (by intro u' hu'; exact tfSite_support _ u' _ [v] (by simpa using (Ne.symm hu')))).trans ?_
  simp [hv, coefAt, tfSiteTerms, hm]

/-! ### coefficient look-up under either orientation -/

/-- the value `c` is what a dict specifies for the bond {a, b}: at least one of the two keys
    is present and every present key carries `c` -/
def BondSpec (d : List (Edge × Rat)) (a b : Site) (c : Rat) : Prop :=
  (alookup d (a, b) = some c ∧ (alookup d (b, a) = some c ∨ alookup d (b, a) = none))
  ∨ (alookup d (a, b) = none ∧ alookup d (b, a) = some c)

/-- **edge_coef_either_orientation**: a dict coefficient is found whichever way round the key
    was written, and whichever way round the edge is given. -/
theorem edge_coef_either_orientation (d : List (Edge × Rat)) (a b : Site) (c : Rat)
    (h : BondSpec d a b c) :
    (EdgeCoef.dict d).get a b = some c ∧ (EdgeCoef.dict d).get b a = some c := by
  rcases h with ⟨h1, h2 | h2⟩ | ⟨h1, h2⟩ <;> simp [EdgeCoef.get, h1, h2]

example : BondSpec [((1, 0), 60)] 0 1 60 := by
  right; decide

theorem edge_coef_scalar (c : Rat) (a b : Site) : (EdgeCoef.scalar c).get a b = some c := rfl
theorem edge_coef_fn (f : Site → Site → Rat) (a b : Site) : (EdgeCoef.fn f).get a b = some (f a b) := rfl
theorem node_coef_dict (d : List (Site × Rat)) (v : Site) : (NodeCoef.dict d).get v = alookup d v := rfl
theorem node_coef_scalar (c : Rat) (v : Site) : (NodeCoef.scalar c).get v = some c := rfl
theorem node_coef_fn (f : Site → Rat) (v : Site) : (NodeCoef.fn f).get v = some (f v) := rfl

/-! ### every bond term exactly once -/

/-- **hopping_once** (spinful).  On a simple graph, for every edge (a,b) as given and each spin,
    among *all* returned terms there is exactly one hopping term a←b and exactly one b←a, and
    both carry −t where t is what the hopping specification yields for this edge. -/
theorem hopping_once (edges : List Edge) (t : EdgeCoef) (U mu : NodeCoef)
    (H : List (Edge × LocalArgs × List Term)) (hs : simpleB edges = true)
    (hH : hamHubbard edges t U mu = some H) (a b : Site) (hab : (a, b) ∈ edges)
    (σ : Spin) (hσ : σ ≠ .none) :
    ∃ c, t.get a b = some c
      ∧ (allTerms H).filter (fun x => decide (x.kind = .hop σ ∧ x.sites = [a, b]))
          = [⟨-c, .hop σ, [a, b]⟩]
      ∧ (allTerms H).filter (fun x => decide (x.kind = .hop σ ∧ x.sites = [b, a]))
          = [⟨-c, .hop σ, [b, a]⟩] := by
  have hne : a ≠ b := simple_noloop edges hs (a, b) hab
  have hne' : ¬ b = a := fun h => hne h.symm
  obtain ⟨g, hg, h1⟩ := bond_filter (hubbardArgs edges t U mu) hubbardLocalTerms edges H hs hH a b hab
    (fun x => decide (x.kind = .hop σ ∧ x.sites = [a, b]))
    (by intro e _ g x hx hp
        simp only [decide_eq_true_eq] at hp
        exact hub_two_site e.1 e.2 g x hx σ hp.1)
    (by intro x hp
        simp only [decide_eq_true_eq] at hp
        exact Or.inl hp.2)
  obtain ⟨g', hg', h2⟩ := bond_filter (hubbardArgs edges t U mu) hubbardLocalTerms edges H hs hH a b hab
    (fun x => decide (x.kind = .hop σ ∧ x.sites = [b, a]))
    (by intro e _ g x hx hp
        simp only [decide_eq_true_eq] at hp
        exact hub_two_site e.1 e.2 g x hx σ hp.1)
    (by intro x hp
        simp only [decide_eq_true_eq] at hp
        exact Or.inr hp.2)
  have : g' = g := by rw [hg] at hg'; exact (Option.some.inj hg').symm
  subst this
  obtain ⟨ht, _⟩ := hubbardArgs_some edges t U mu (a, b) g' hg
  refine ⟨g'.t, ht, ?_, ?_⟩
  · rw [h1]
    cases σ <;> simp_all [hubbardLocalTerms, List.filter]
  · rw [h2]
    cases σ <;> simp_all [hubbardLocalTerms, List.filter]


/-- **hopping_once** (spinless). -/
theorem hopping_once_spinless (edges : List Edge) (t V : EdgeCoef) (mu : NodeCoef)
    (H : List (Edge × LocalArgs × List Term)) (hs : simpleB edges = true)
    (hH : hamSpinless edges t V mu = some H) (a b : Site) (hab : (a, b) ∈ edges) :
    ∃ c, t.get a b = some c
      ∧ (allTerms H).filter (fun x => decide (x.kind = .hop .none ∧ x.sites = [a, b]))
          = [⟨-c, .hop .none, [a, b]⟩]
      ∧ (allTerms H).filter (fun x => decide (x.kind = .hop .none ∧ x.sites = [b, a]))
          = [⟨-c, .hop .none, [b, a]⟩] := by
  have hne : a ≠ b := simple_noloop edges hs (a, b) hab
  have hne' : ¬ b = a := fun h => hne h.symm
  obtain ⟨g, hg, h1⟩ := bond_filter (spinlessArgs edges t V mu) spinlessLocalTerms edges H hs hH a b hab
    (fun x => decide (x.kind = .hop .none ∧ x.sites = [a, b]))
    (by intro e _ g x hx hp
        simp only [decide_eq_true_eq] at hp
        exact sl_two_site e.1 e.2 g x hx (Or.inl ⟨_, hp.1⟩))
    (by intro x hp
        simp only [decide_eq_true_eq] at hp
        exact Or.inl hp.2)
  obtain ⟨g', hg', h2⟩ := bond_filter (spinlessArgs edges t V mu) spinlessLocalTerms edges H hs hH a b hab
    (fun x => decide (x.kind = .hop .none ∧ x.sites = [b, a]))
    (by intro e _ g x hx hp
        simp only [decide_eq_true_eq] at hp
        exact sl_two_site e.1 e.2 g x hx (Or.inl ⟨_, hp.1⟩))
    (by intro x hp
        simp only [decide_eq_true_eq] at hp
        exact Or.inr hp.2)
  have : g' = g := by rw [hg] at hg'; exact (Option.some.inj hg').symm
  subst this
  obtain ⟨ht, _⟩ := spinlessArgs_some edges t V mu (a, b) g' hg
  refine ⟨g'.t, ht, ?_, ?_⟩
  · rw [h1]; simp_all [spinlessLocalTerms, List.filter]
  · rw [h2]; simp_all [spinlessLocalTerms, List.filter]

/-- **interaction_once** (spinless).  On a simple graph the nearest-neighbour interaction of the
    bond {a,b} occurs exactly once among all returned terms (under either order of the two
    sites), with the coefficient V that the specification yields for this edge — not divided
    by anything and not doubled. -/
theorem interaction_once (edges : List Edge) (t V : EdgeCoef) (mu : NodeCoef)
    (H : List (Edge × LocalArgs × List Term)) (hs : simpleB edges = true)
    (hH : hamSpinless edges t V mu = some H) (a b : Site) (hab : (a, b) ∈ edges) :
    ∃ c, V.get a b = some c
      ∧ (allTerms H).filter (fun x => decide (x.kind = .nn ∧ (x.sites = [a, b] ∨ x.sites = [b, a])))
          = [⟨c, .nn, [a, b]⟩] := by
  have hne : a ≠ b := simple_noloop edges hs (a, b) hab
  obtain ⟨g, hg, h1⟩ := bond_filter (spinlessArgs edges t V mu) spinlessLocalTerms edges H hs hH a b hab
    (fun x => decide (x.kind = .nn ∧ (x.sites = [a, b] ∨ x.sites = [b, a])))
    (by intro e _ g x hx hp
        simp only [decide_eq_true_eq] at hp
        exact sl_two_site e.1 e.2 g x hx (Or.inr hp.1))
    (by intro x hp
        simp only [decide_eq_true_eq] at hp
        exact hp.2)
  obtain ⟨_, hv, _⟩ := spinlessArgs_some edges t V mu (a, b) g hg
  refine ⟨g.v, hv, ?_⟩
  rw [h1]; simp [spinlessLocalTerms, List.filter]

/-- **hopping_once** with a dict specification: whichever way round the key of the bond {a,b} was
    written in the dict, the single hopping term a←b (and b←a) carries exactly −(that value). -/
theorem hopping_once_dict (edges : List Edge) (d : List (Edge × Rat)) (U mu : NodeCoef)
    (H : List (Edge × LocalArgs × List Term)) (hs : simpleB edges = true)
    (hH : hamHubbard edges (.dict d) U mu = some H) (a b : Site) (hab : (a, b) ∈ edges)
    (c : Rat) (hc : BondSpec d a b c) (σ : Spin) (hσ : σ ≠ .none) :
    (allTerms H).filter (fun x => decide (x.kind = .hop σ ∧ x.sites = [a, b])) = [⟨-c, .hop σ, [a, b]⟩]
      ∧ (allTerms H).filter (fun x => decide (x.kind = .hop σ ∧ x.sites = [b, a])) = [⟨-c, .hop σ, [b, a]⟩] := by
  obtain ⟨c', hc', h1, h2⟩ := hopping_once edges (.dict d) U mu H hs hH a b hab σ hσ
  have : c' = c := by
    have := (edge_coef_either_orientation d a b c hc).1
    rw [hc'] at this
    exact Option.some.inj this
  subst this
  exact ⟨h1, h2⟩

/-- **interaction_once** with a dict specification in either orientation. -/
theorem interaction_once_dict (edges : List Edge) (t : EdgeCoef) (d : List (Edge × Rat)) (mu : NodeCoef)
    (H : List (Edge × LocalArgs × List Term)) (hs : simpleB edges = true)
    (hH : hamSpinless edges t (.dict d) mu = some H) (a b : Site) (hab : (a, b) ∈ edges)
    (c : Rat) (hc : BondSpec d a b c) :
    (allTerms H).filter (fun x => decide (x.kind = .nn ∧ (x.sites = [a, b] ∨ x.sites = [b, a])))
      = [⟨c, .nn, [a, b]⟩] := by
  obtain ⟨c', hc', h1⟩ := interaction_once edges t (.dict d) mu H hs hH a b hab
  have : c' = c := by
    have := (edge_coef_either_orientation d a b c hc).1
    rw [hc'] at this
    exact Option.some.inj this
  subst this
  exact h1

/-- **coupling_once** (TFIM): the X X coupling of each bond occurs exactly once with its jx. -/
theorem coupling_once (edges : List Edge) (jx : EdgeCoef) (hz : NodeCoef)
    (H : List (Edge × LocalArgs × List Term)) (hs : simpleB edges = true)
    (hH : hamTfim edges jx hz = some H) (a b : Site) (hab : (a, b) ∈ edges) :
    ∃ c, jx.get a b = some c
      ∧ (allTerms H).filter (fun x => decide (x.kind = .xx ∧ (x.sites = [a, b] ∨ x.sites = [b, a])))
          = [⟨c, .xx, [a, b]⟩] := by
  obtain ⟨g, hg, h1⟩ := bond_filter (tfimArgs edges jx hz) tfimLocalTerms edges H hs hH a b hab
    (fun x => decide (x.kind = .xx ∧ (x.sites = [a, b] ∨ x.sites = [b, a])))
    (by intro e _ g x hx hp
        simp only [decide_eq_true_eq] at hp
        exact tf_two_site e.1 e.2 g x hx hp.1)
    (by intro x hp
        simp only [decide_eq_true_eq] at hp
        exact hp.2)
  obtain ⟨hv, _⟩ := tfimArgs_some edges jx hz (a, b) g hg
  refine ⟨g.t, hv, ?_⟩
  rw [h1]; simp [tfimLocalTerms, List.filter]

/-- the returned dict has exactly the given edges as keys, in the given order, when no edge is
    repeated -/
theorem ham_keys (args : Edge → Option LocalArgs) (terms : Site → Site → LocalArgs → List Term)
    (edges : List Edge) (H : List (Edge × LocalArgs × List Term)) (hnd : edges.Nodup)
    (hH : edgeDict args terms edges = some H) : H.map (·.1) = edges := by
  obtain ⟨hcl, _⟩ := edgeDict_closed args terms edges H hnd hH
  rw [hcl, List.map_map]; simp [Function.comp_def]


/-! ### the site description derived from the edges -/

/-- the sites described are exactly the sites that occur in some edge, each once -/
theorem siteinfo_keys (edges : List Edge) (D : Nat) (phys : Option Nat) (v : Site) :
    ((alookup (parseEdges edges D phys) v).isSome = true ↔ v ∈ sitesOf edges)
      ∧ ((parseEdges edges D phys).map (·.1)).Nodup := by
  constructor
  · unfold parseEdges
    rw [alookup_map_snd, Option.isSome_map, parseBonds, parseFold_keys, mem_sitesOf]
    simp only [alookup, Option.isSome_none, Bool.false_eq_true, false_or]
    constructor
    · rintro ⟨e, he, h⟩; exact ⟨e, (isort_perm edgeLt edges).mem_iff.mp he, h⟩
    · rintro ⟨e, he, h⟩; exact ⟨e, (isort_perm edgeLt edges).mem_iff.mpr he, h⟩
  · have : (parseEdges edges D phys).map (·.1) = (parseBonds D edges).map (·.1) := by
      unfold parseEdges
      rw [List.map_map]
      rfl
    rw [this]
    exact parseFold_nodup D _ [] (by simp)

/-- **siteinfo_legs**: the exact leg list of every described site — the bonds of the incident
    edges in the order of `sorted(edges)`, each named after its ends in increasing order, with
    direction 0 at the smaller end and 1 at the larger end and dimension `bond_dim`; then, if a
    physical dimension is given, the physical index last, with direction 0.  The coordination
    entry is the degree and the tag is the site. -/
theorem siteinfo_legs (edges : List Edge) (D : Nat) (phys : Option Nat) (v : Site) (i : SiteInfo)
    (h : alookup (parseEdges edges D phys) v = some i) :
    i.legs = (isort edgeLt edges).flatMap (bondContrib D v)
        ++ physLegs phys v
      ∧ i.coordination = degree edges v ∧ i.tag = v := by
  unfold parseEdges at h
  rw [alookup_map_snd] at h
  cases hb : alookup (parseBonds D edges) v with
  | none => simp [hb] at h
  | some legs =>
    simp only [hb, Option.map_some, Option.some.injEq] at h
    have hl : legs = (isort edgeLt edges).flatMap (bondContrib D v) := by
      have := parseFold_legs D (isort edgeLt edges) [] v
      simp only [legsOf, alookup, Option.getD_none, List.nil_append] at this
      unfold parseBonds at hb
      rw [hb] at this
      simpa using this
    subst h
    refine ⟨?_, ?_, rfl⟩
    · simp [hl]
    · simp only
      rw [hl, contrib_length, degree_perm _ _ (isort_perm edgeLt edges)]

/-- **siteinfo_count** (any edge list, also multigraphs): at site `v` the number of legs that are
    named after the bond (x,y) and have direction δ is the multiplicity of the bond {x,y} in the
    edge list if (δ = 0 and v = x) or (δ = 1 and v = y), and 0 otherwise. -/
theorem siteinfo_count (edges : List Edge) (D : Nat) (phys : Option Nat) (v x y δ : Nat) :
    (legsAt (parseEdges edges D phys) v).countP (fun l => l.name == .bond x y && l.dual == δ)
      = if v ∈ sitesOf edges ∧ ((δ = 0 ∧ v = x) ∨ (δ = 1 ∧ v = y)) then bondMult edges x y else 0 := by
  unfold legsAt
  cases hi : alookup (parseEdges edges D phys) v with
  | none =>
    have : v ∉ sitesOf edges := by
      intro hm
      have := ((siteinfo_keys edges D phys v).1).mpr hm
      simp [hi] at this
    simp [this]
  | some i =>
    have hm : v ∈ sitesOf edges := ((siteinfo_keys edges D phys v).1).mp (by simp [hi])
    obtain ⟨hl, _, _⟩ := siteinfo_legs edges D phys v i hi
    simp only [hl, List.countP_append, hm, true_and]
    have hp : (physLegs phys v).countP
        (fun (l : Leg) => l.name == IndName.bond x y && l.dual == δ) = 0 := by
      cases phys <;> simp [physLegs]
    rw [hp, Nat.add_zero]
    have hperm := (isort_perm edgeLt edges)
    rw [(hperm.flatMap_right (bondContrib D v)).countP_eq, contrib_count]

/-- **siteinfo_spec**.  For a simple graph and any of its edges (a,b), with lo/hi the smaller/larger
    of a and b:  both ends are described; the bond's index name `bond lo hi` occurs exactly once
    at `lo` with direction 0, exactly once at `hi` with direction 1, and nowhere else in any
    direction (so the two ends share one name with opposite directions, the larger end being the
    dual one); each site's coordination entry equals its degree; and the physical index, when
    requested, is the last leg, non-dual. -/
theorem siteinfo_spec (edges : List Edge) (hs : simpleB edges = true) (D : Nat) (phys : Option Nat)
    (e : Edge) (he : e ∈ edges) :
    let lo := (normEdge e).1
    let hi := (normEdge e).2
    let info := parseEdges edges D phys
    (lo < hi)
    ∧ (legsAt info lo).countP (fun l => l.name == .bond lo hi && l.dual == 0) = 1
    ∧ (legsAt info hi).countP (fun l => l.name == .bond lo hi && l.dual == 1) = 1
    ∧ (∀ v δ, ¬ ((δ = 0 ∧ v = lo) ∨ (δ = 1 ∧ v = hi)) →
        (legsAt info v).countP (fun l => l.name == .bond lo hi && l.dual == δ) = 0)
    ∧ (∀ v i, alookup info v = some i →
        i.coordination = degree edges v ∧ 1 ≤ i.coordination
        ∧ i.legs.length = degree edges v + (if phys.isSome then 1 else 0)
        ∧ (∀ d, phys = some d → i.legs.getLast? = some ⟨.phys v, 0, d⟩)) := by
  intro lo hi info
  have hne : e.1 ≠ e.2 := simple_noloop edges hs e he
  have hlohi : lo < hi := by
    simp only [lo, hi, normEdge]
    by_cases h : e.1 > e.2
    · simp only [h, if_true]
    · simp only [h, if_false]; exact Nat.lt_of_le_of_ne (Nat.le_of_not_gt h) hne
  have hlo : lo ∈ sitesOf edges := by
    rw [mem_sitesOf]; refine ⟨e, he, ?_⟩
    simp only [lo, normEdge]; by_cases h : e.1 > e.2 <;> simp [h]
  have hhi : hi ∈ sitesOf edges := by
    rw [mem_sitesOf]; refine ⟨e, he, ?_⟩
    simp only [hi, normEdge]; by_cases h : e.1 > e.2 <;> simp [h]
  have hm := bondMult_simple edges hs e he
  refine ⟨hlohi, ?_, ?_, ?_, ?_⟩
  · rw [siteinfo_count]; simp [hlo, hm, lo, hi]
  · rw [siteinfo_count]; simp [hhi, hm, lo, hi]
  · intro v δ hn
    rw [siteinfo_count]; simp [hn]
  · intro v i hi'
    obtain ⟨hl, hc, _⟩ := siteinfo_legs edges D phys v i hi'
    have hv : v ∈ sitesOf edges := ((siteinfo_keys edges D phys v).1).mp (by simp [info] at hi'; simp [hi'])
    have hd : degree edges v ≠ 0 := (degree_ne_zero_iff_mem edges v).mpr hv
    refine ⟨hc, by omega, ?_, ?_⟩
    · rw [hl, List.length_append, contrib_length, degree_perm _ _ (isort_perm edgeLt edges)]
      cases phys <;> simp [physLegs]
    · intro d hd'
      subst hd'
      rw [hl]; simp [physLegs]

example : simpleB [(2, 1), (0, 2), (1, 0)] = true := by decide


/-- the hypothesis `edges.Nodup` of the sum theorems cannot be dropped: a repeated edge is counted
    twice in the coordinations but occupies one dict key, so half of U is lost (witness; the
    property is stated for simple graphs only) -/
theorem nodup_needed :
    (hamHubbard [(0, 1), (0, 1)] (.scalar 1) (.scalar 8) (.scalar 0)).map
      (fun H => coefAt (allTerms H) .dbl [0]) = some 4 := by
  decide +kernel

end SymmModel.C19
