/-
  C06 (fifth part) — contraction commutes with fusing, and chains of `n` tensors in fused / auto
  mode.

  * `tensordot_fuse_commute` (C06's third clause, abelian): for the aligned operands `A`, `B`
    (`TdotP.FusedCtx`; `fuse_commute_aligned`: the operands after `dropMisaligned` are such a pair
    and their plain contraction has the blocks and index tables of the contraction of the
    originals): fuse the free legs of each operand and the contracted legs BEFORE the contraction
    (`fuse(A, [left, contracted])`, `fuse(B, [contracted, right])`, contract the one bond) — or
    contract first and fuse the corresponding legs of the result AFTERWARDS
    (`fuse(C, [left legs, right legs])`).  All three `fuse` calls succeed, and whenever a position
    of the first matrix and a position of the second decode — each through the index tables of
    its own array only — to the same sub-charges and sub-offsets, both hold the element of the
    plain result `C` there.  (The two fused index tables are built from different stored sets, so
    the positions themselves differ in general; equality is at decoded addresses.)
  * `chain_bracketing_any_mode`: `C04.chain_bracketing` with EVERY contraction of the bracketing in
    `mode = fused / auto` (`TdotP.evalM`): the contraction along any bracketing `t` succeeds, has
    the open-bond positions, labels, charge, symmetry and rank of the blockwise contraction along
    `t`, stores every sector of the blockwise result with the blockwise values, and every other
    stored block is zero.
  * `chain_bracketings_agree_any_mode`: two bracketings of the same leaf sequence, each in its own
    mode (fused / auto), give results with the same labels, charge, open bonds and the same values
    on every block of the blockwise result; all other blocks of either are zero.
  Scalars / guards as in C04f (`STree.OK`: valid fermionic leaves, weak guard between consecutive
  leaves, pairwise-distinct labels).
  * `tensordot_fuse_free_commute` (abelian, operands NOT aligned, contracted legs left alone):
    fusing the LEADING free legs `0 … k-1` of the left operand before the contraction versus fusing
    the first `k` legs of the result afterwards — same elements at decoded addresses.  (Any group of
    free legs can be brought to the front by an abelian transposition, which does not change
    values; the statement is for that normal form.)
  * `tensordot_fuse_free_commute_fermionic` (FERMIONIC, blockwise mode, weak guard, operands with
    arbitrary pending phases and labels): the same statement for `fuseF` / `tensordotF`.  The
    fermionic fuse signs of C05 (`FuseP.signAdj`: the `-1` per odd non-dual leg of a dual group and
    the reversal sign of the group) are part of both sides; they coincide because the leading legs
    of operand and result have the same directions and carry the same charges, and the Koszul /
    nesting signs of the contraction (`gradedSign`) do not see the leading block, which stays in
    place (`TdotP.lead_commute_graded`, `TdotP.gradedSign_lead`).
  * `tensordot_fuse_free_commute_fermionic_any_mode`: the same with the plain contraction in mode
    `m1` and the contraction of the pre-fused operand in mode `m2` (each blockwise / fused / auto):
    results of fused / auto calls are paddings (`TdotP.Pad`) of the blockwise results, whose
    elements agree at every address inside the operands' tables (`TdotP.pad_elem_big`).
  * `fuseF_leading_elem`: `fuseF(Z, [0 … k-1])` of any valid fermionic array at decoded addresses:
    the C05 fuse sign times the element of `Z`.
  NOT proved: the fermionic two-sided form (fusing the contracted legs of fermionic operands);
  a group of free legs at an arbitrary position WITHOUT the preliminary transposition (for
  fermions the transposition contributes its Koszul sign on both sides); free legs of the RIGHT
  operand alone (the two-sided `tensordot_fuse_commute` covers both sides together);
  equality of `to_dense()` for fused-mode chain results (false in general: fused-mode results keep
  the charges of all-zero blocks in their index tables, so the dense shapes differ).
-/
import SymmModel.Props.C06All3
import SymmModel.Props.C04f
import SymmModel.Proofs.TdotChain2
import SymmModel.Proofs.TdotFuseC3
import SymmModel.Proofs.TdotFuseC6
import SymmModel.Proofs.TdotFuseC7

namespace SymmModel.C06
open SymmModel SymmModel.TdotP SymmModel.GradedP SymmModel.RoutesP SymmModel.AssocP
open SymmModel.Assoc3P SymmModel.Assoc4P

variable {R : Type}

/-! ## contraction commutes with fusing -/

/-- the operands after `dropMisaligned` form an aligned pair; their plain contraction has the
    blocks of the contraction of the original operands -/
theorem fuse_commute_aligned [Zero R] [Add R] [Mul R] (a b : Arr R) (xa xb : List Nat)
    (ha : a.validB = true) (hb : b.validB = true) (hfa : a.fermi = false) (hfb : b.fermi = false)
    (hsym : a.sym = b.sym) (hc : ValidP.contractibleB a b xa xb = true)
    (hnA : xa.Nodup) (hnB : xb.Nodup) (hA : ∀ x ∈ xa, x < a.ndim) (hB : ∀ x ∈ xb, x < b.ndim)
    (hneK : xa ≠ []) (hneL : freeAxes a.ndim xa ≠ []) (hneR : freeAxes b.ndim xb ≠ []) :
    FusedCtx (dropMisaligned a b xa xb).1 (dropMisaligned a b xa xb).2 xa xb
    ∧ (cPlain (dropMisaligned a b xa xb).1 (dropMisaligned a b xa xb).2 xa xb).blocks
        = (tensordotBlockwise a b (freeAxes a.ndim xa) xa xb (freeAxes b.ndim xb)).blocks := by
  obtain ⟨n1, n2⟩ := dropMisaligned_ndim a b xa xb
  refine ⟨ctx_of_dropMisaligned a b xa xb ha hb hfa hfb hsym hc hnA hnB hA hB hneK hneL hneR, ?_⟩
  unfold cPlain
  rw [n1, n2]
  exact tensordotBlockwise_blocks_dropMisaligned a b _ xa xb _

/-- **tensordot_fuse_commute** (abelian). -/
theorem tensordot_fuse_commute [AddCommMonoid R] [Mul R] [Neg R]
    (hz1 : ∀ x : R, 0 * x = 0) (hz2 : ∀ x : R, x * 0 = 0) {A B : Arr R} {xa xb : List Nat}
    (h : FusedCtx A B xa xb) :
    fuseA A [freeAxes A.ndim xa, xa] .insert false = .ok (FuseP.fusedArrM A [freeAxes A.ndim xa, xa])
    ∧ fuseA B [xb, freeAxes B.ndim xb] .insert false = .ok (FuseP.fusedArrM B [xb, freeAxes B.ndim xb])
    ∧ fuseA (cPlain A B xa xb) [resL A xa, resR A B xa xb] .insert false
        = .ok (FuseP.fusedArrM (cPlain A B xa xb) [resL A xa, resR A B xa xb])
    ∧ (cPlain A B xa xb).validB = true
    ∧ ∀ (cL cR c1 c2 : Charge) (iL iR dL dR i1 i2 d1 d2 : Nat) (Ls Rs : Sector) (oL oR : List Nat),
        decAx A [freeAxes A.ndim xa, xa] 0 cL iL = some (Ls, oL) →
        decAx B [xb, freeAxes B.ndim xb] 1 cR iR = some (Rs, oR) →
        (FuseP.ixM A [freeAxes A.ndim xa, xa] 0).sizeOf? cL = some dL → iL < dL →
        (FuseP.ixM B [xb, freeAxes B.ndim xb] 1).sizeOf? cR = some dR → iR < dR →
        decAx (cPlain A B xa xb) [resL A xa, resR A B xa xb] 0 c1 i1 = some (Ls, oL) →
        decAx (cPlain A B xa xb) [resL A xa, resR A B xa xb] 1 c2 i2 = some (Rs, oR) →
        (FuseP.ixM (cPlain A B xa xb) [resL A xa, resR A B xa xb] 0).sizeOf? c1 = some d1 → i1 < d1 →
        (FuseP.ixM (cPlain A B xa xb) [resL A xa, resR A B xa xb] 1).sizeOf? c2 = some d2 → i2 < d2 →
        (tensordotBlockwise (FuseP.fusedArrM A [freeAxes A.ndim xa, xa])
            (FuseP.fusedArrM B [xb, freeAxes B.ndim xb]) [0] [1] [0] [1]).elem [cL, cR] [iL, iR]
          = (FuseP.fusedArrM (cPlain A B xa xb) [resL A xa, resR A B xa xb]).elem [c1, c2] [i1, i2]
        ∧ (FuseP.fusedArrM (cPlain A B xa xb) [resL A xa, resR A B xa xb]).elem [c1, c2] [i1, i2]
          = (cPlain A B xa xb).elem (Ls ++ Rs) (oL ++ oR) := by
  have key : ∀ (X : Arr R) (g1 g2 : List Nat), X.validB = true → PairOk X g1 g2 →
      fuseA X [g1, g2] .insert false = .ok (FuseP.fusedArrM X [g1, g2]) := by
    intro X g1 g2 hv hp
    rw [C05.fuseA_noexpand]
    have hf : [g1, g2].filter (fun g => !g.isEmpty) = [g1, g2] := by
      have := hp.ne1; have := hp.ne2
      cases g1 <;> cases g2 <;> simp_all
    rw [hf]
    simp only [List.isEmpty_cons, Bool.false_eq_true, if_false]
    exact FuseP.fuseCore_multi_eq (FuseP.validArr_of_validB hv) hp.groupsOk
  refine ⟨key A _ _ h.vA h.pairA, key B _ _ h.vB h.pairB, key _ _ _ h.cPlain_validB h.cPlain_pair,
    h.cPlain_validB, ?_⟩
  intro cL cR c1 c2 iL iR dL dR i1 i2 d1 d2 Ls Rs oL oR hdL hdR hzL hiL hzR hiR hd1 hd2 hz1' hi1 hz2' hi2
  obtain ⟨e1, e2⟩ := h.fuse_commute hz1 hz2 hdL hdR hzL hiL hzR hiR hd1 hd2 hz1' hi1 hz2' hi2
  exact ⟨e1.trans e2.symm, e2⟩

/-- **tensordot_fuse_free_commute** (abelian, operands NOT aligned, contracted legs untouched).
    The axes `0 … k-1` of `a` are free (every contracted axis of `a` is `≥ k`).  Fusing them into
    one leg BEFORE the contraction (`fuse(a, [0 … k-1])`, contracted axes renumbered by `sh k`), or
    fusing the first `k` legs of the contraction result AFTERWARDS: both `fuse` calls succeed, and
    at positions `(c0, i0)` / `(c2, i2)` of the two fused legs that decode — each through its own
    fused index table — to the same `(S, O)`, with the same remaining sector `rest` and offsets
    `orest` (inside the result's tables), both arrays hold the plain result's element at
    `(S ++ rest, O ++ orest)`. -/
theorem tensordot_fuse_free_commute [AddCommMonoid R] [Mul R] [Neg R]
    (hz1 : ∀ x : R, 0 * x = 0) (hz2 : ∀ x : R, x * 0 = 0) (a b : Arr R) (xa xb : List Nat) (k : Nat)
    (ha : a.validB = true) (hb : b.validB = true) (hfa : a.fermi = false) (hfb : b.fermi = false)
    (hsym : a.sym = b.sym) (hopp : ValidP.oppositeDualsB a b xa xb = true)
    (hnA : xa.Nodup) (hnB : xb.Nodup) (hA : ∀ x ∈ xa, x < a.ndim) (hB : ∀ x ∈ xb, x < b.ndim)
    (hk1 : 1 ≤ k) (hk : k ≤ a.ndim) (hxa : ∀ x ∈ xa, k ≤ x) :
    fuseA a [List.range k] .insert false = .ok (FuseP.fusedArrM a [List.range k])
    ∧ fuseA (cPlain a b xa xb) [List.range k] .insert false
        = .ok (FuseP.fusedArrM (cPlain a b xa xb) [List.range k])
    ∧ ∀ (c0 c2 : Charge) (i0 d0 i2 d2 : Nat) (S rest : Sector) (O orest shp : List Nat),
        decAx a [List.range k] 0 c0 i0 = some (S, O) →
        (FuseP.ixM a [List.range k] 0).sizeOf? c0 = some d0 → i0 < d0 →
        decAx (cPlain a b xa xb) [List.range k] 0 c2 i2 = some (S, O) →
        (FuseP.ixM (cPlain a b xa xb) [List.range k] 0).sizeOf? c2 = some d2 → i2 < d2 →
        Arr.blockShape? ((cPlain a b xa xb).indices.drop k) rest = some shp → inBox shp orest = true →
        (tensordotBlockwise (FuseP.fusedArrM a [List.range k]) b
            (freeAxes (1 + (a.ndim - k)) (xa.map (sh k))) (xa.map (sh k)) xb (freeAxes b.ndim xb)).elem
            (c0 :: rest) (i0 :: orest)
          = (FuseP.fusedArrM (cPlain a b xa xb) [List.range k]).elem (c2 :: rest) (i2 :: orest)
        ∧ (FuseP.fusedArrM (cPlain a b xa xb) [List.range k]).elem (c2 :: rest) (i2 :: orest)
          = (cPlain a b xa xb).elem (S ++ rest) (O ++ orest) := by
  obtain ⟨hvc, hkc, hel⟩ := lead_commute_result hz1 hz2 a b xa xb k ha hb hfa hfb hsym hopp hnA hnB hA hB
    hk1 hk hxa
  have key : ∀ (X : Arr R), X.validB = true → k ≤ X.ndim →
      fuseA X [List.range k] .insert false = .ok (FuseP.fusedArrM X [List.range k]) := by
    intro X hv hkX
    rw [C05.fuseA_noexpand]
    have hne : List.range k ≠ [] := by
      intro e; have := congrArg List.length e; simp at this; omega
    have hf : [List.range k].filter (fun g => !g.isEmpty) = [List.range k] := by
      simp [List.isEmpty_iff, hne]
    rw [hf]
    simp only [List.isEmpty_cons, Bool.false_eq_true, if_false]
    exact FuseP.fuseCore_multi_eq (FuseP.validArr_of_validB hv) (lead_groupsOk hk1 hkX)
  refine ⟨key a ha hk, key _ hvc hkc, ?_⟩
  intro c0 c2 i0 d0 i2 d2 S rest O orest shp h1 h2 h3 h4 h5 h6 h7 h8
  obtain ⟨e1, e2⟩ := hel c0 c2 i0 d0 i2 d2 S rest O orest shp h1 h2 h3 h4 h5 h6 h7 h8
  exact ⟨e1.trans e2.symm, e2⟩

/-- **tensordot_fuse_free_commute_fermionic** (fermionic arrays, blockwise mode, weak guard
    `tdotAdmissibleCommonB`; pending phases and labels arbitrary).  The axes `0 … k-1` of `a` are
    free.  `fuseF(a, [0 … k-1])` and `fuseF(c, [0 … k-1])` of the result `c = tensordotF(a, b)`
    both succeed (their values: the `_fuse_core` of the sign-adjusted operand `signAdj`, C05), the
    contraction of the pre-fused operand with `b` (contracted axes renumbered by `sh k`) succeeds,
    and at positions `(c0, i0)` / `(c2, i2)` of the two fused legs that decode — each through its
    own fused index table — to the same `(S, O)`, with the same remaining sector `rest` and
    offsets `orest` inside the result's tables, the two arrays hold the same element
    (all signs included: fuse signs, Koszul and nesting signs of the contraction, label-sort sign,
    pending phases). -/
theorem tensordot_fuse_free_commute_fermionic [AddCommMonoid R] [Mul R] [Neg R] [SignRing R]
    (hz1 : ∀ x : R, 0 * x = 0) (hz2 : ∀ x : R, x * 0 = 0) (a b c : Arr R) (xa xb : List Nat) (k : Nat)
    (e : Bool)
    (ha : a.validB = true) (hb : b.validB = true) (hfa : a.fermi = true) (hfb : b.fermi = true)
    (hadm : tdotAdmissibleCommonB a b xa xb = true)
    (hk1 : 1 ≤ k) (hk : k ≤ a.ndim) (hxa : ∀ x ∈ xa, k ≤ x)
    (hc : a.tensordotF b (.pair (xa.map Int.ofNat) (xb.map Int.ofNat)) .blockwise = .ok c) :
    a.fuseF [List.range k] .insert e
        = .ok (FuseP.fusedArrM (FuseP.signAdj a [List.range k]) [List.range k])
    ∧ c.fuseF [List.range k] .insert e
        = .ok (FuseP.fusedArrM (FuseP.signAdj c [List.range k]) [List.range k])
    ∧ k ≤ c.ndim
    ∧ ∃ cP, (FuseP.fusedArrM (FuseP.signAdj a [List.range k]) [List.range k]).tensordotF b
          (.pair ((xa.map (sh k)).map Int.ofNat) (xb.map Int.ofNat)) .blockwise = .ok cP
      ∧ ∀ (c0 c2 : Charge) (i0 d0 i2 d2 : Nat) (S rest : Sector) (O orest shp : List Nat),
        decAx (FuseP.signAdj a [List.range k]) [List.range k] 0 c0 i0 = some (S, O) →
        (FuseP.ixM (FuseP.signAdj a [List.range k]) [List.range k] 0).sizeOf? c0 = some d0 → i0 < d0 →
        decAx (FuseP.signAdj c [List.range k]) [List.range k] 0 c2 i2 = some (S, O) →
        (FuseP.ixM (FuseP.signAdj c [List.range k]) [List.range k] 0).sizeOf? c2 = some d2 → i2 < d2 →
        Arr.blockShape? (c.indices.drop k) rest = some shp → inBox shp orest = true →
        cP.elem (c0 :: rest) (i0 :: orest)
          = (FuseP.fusedArrM (FuseP.signAdj c [List.range k]) [List.range k]).elem
              (c2 :: rest) (i2 :: orest) :=
  lead_commute_fermi hz1 hz2 a b c xa xb k e ha hb hfa hfb hadm hk1 hk hxa hc

/-- **tensordot_fuse_free_commute_fermionic_any_mode**: `tensordot_fuse_free_commute_fermionic`
    with the plain contraction in mode `m1` and the contraction of the pre-fused operand in mode
    `m2` (each of blockwise / fused / auto); `cm` is the result of the plain contraction in mode
    `m1`, the decoders and the tail tables are those of `cm`. -/
theorem tensordot_fuse_free_commute_fermionic_any_mode [AddCommMonoid R] [Mul R] [Neg R] [SignRing R]
    (hz1 : ∀ x : R, 0 * x = 0) (hz2 : ∀ x : R, x * 0 = 0) (a b cm : Arr R) (xa xb : List Nat) (k : Nat)
    (e : Bool) (m1 m2 : TdotMode)
    (ha : a.validB = true) (hb : b.validB = true) (hfa : a.fermi = true) (hfb : b.fermi = true)
    (hadm : tdotAdmissibleCommonB a b xa xb = true)
    (hk1 : 1 ≤ k) (hk : k ≤ a.ndim) (hxa : ∀ x ∈ xa, k ≤ x)
    (hcm : a.tensordotF b (.pair (xa.map Int.ofNat) (xb.map Int.ofNat)) m1 = .ok cm) :
    a.fuseF [List.range k] .insert e
        = .ok (FuseP.fusedArrM (FuseP.signAdj a [List.range k]) [List.range k])
    ∧ cm.fuseF [List.range k] .insert e
        = .ok (FuseP.fusedArrM (FuseP.signAdj cm [List.range k]) [List.range k])
    ∧ k ≤ cm.ndim
    ∧ ∃ cPm, (FuseP.fusedArrM (FuseP.signAdj a [List.range k]) [List.range k]).tensordotF b
          (.pair ((xa.map (sh k)).map Int.ofNat) (xb.map Int.ofNat)) m2 = .ok cPm
      ∧ ∀ (c0 c2 : Charge) (i0 d0 i2 d2 : Nat) (S rest : Sector) (O orest shp : List Nat),
        decAx (FuseP.signAdj a [List.range k]) [List.range k] 0 c0 i0 = some (S, O) →
        (FuseP.ixM (FuseP.signAdj a [List.range k]) [List.range k] 0).sizeOf? c0 = some d0 → i0 < d0 →
        decAx (FuseP.signAdj cm [List.range k]) [List.range k] 0 c2 i2 = some (S, O) →
        (FuseP.ixM (FuseP.signAdj cm [List.range k]) [List.range k] 0).sizeOf? c2 = some d2 → i2 < d2 →
        Arr.blockShape? (cm.indices.drop k) rest = some shp → inBox shp orest = true →
        cPm.elem (c0 :: rest) (i0 :: orest)
          = (FuseP.fusedArrM (FuseP.signAdj cm [List.range k]) [List.range k]).elem
              (c2 :: rest) (i2 :: orest) :=
  lead_commute_fermi_modes hz1 hz2 a b cm xa xb k e m1 m2 ha hb hfa hfb hadm hk1 hk hxa hcm

/-- **fuseF_leading_elem**: the fermionic fuse of the leading legs `0 … k-1` of any valid fermionic
    array `Z` (pending phases arbitrary) succeeds, is valid, and at a position `(c2, i2)` of the
    fused leg that its own table decodes to `(S, O)` — the rest of the address inside `Z`'s tables —
    holds the C05 fuse sign `fuseSignT` times `Z`'s element at `(S ++ rest, O ++ orest)`. -/
theorem fuseF_leading_elem [AddCommMonoid R] [Mul R] [Neg R] [SignRing R] (Z : Arr R) (k : Nat) (e : Bool)
    (hv : Z.validB = true) (hf : Z.fermi = true) (hk1 : 1 ≤ k) (hk : k ≤ Z.ndim) :
    Z.fuseF [List.range k] .insert e
        = .ok (FuseP.fusedArrM (FuseP.signAdj Z [List.range k]) [List.range k])
    ∧ (FuseP.fusedArrM (FuseP.signAdj Z [List.range k]) [List.range k]).validB = true
    ∧ ∀ (c2 : Charge) (i2 d2 : Nat) (S rest : Sector) (O orest shp : List Nat),
        decAx (FuseP.signAdj Z [List.range k]) [List.range k] 0 c2 i2 = some (S, O) →
        (FuseP.ixM (FuseP.signAdj Z [List.range k]) [List.range k] 0).sizeOf? c2 = some d2 → i2 < d2 →
        Arr.blockShape? (Z.indices.drop k) rest = some shp → inBox shp orest = true →
        (FuseP.fusedArrM (FuseP.signAdj Z [List.range k]) [List.range k]).elem (c2 :: rest) (i2 :: orest)
          = Lazy.sgnI (FuseP.fuseSignT Z [List.range k] (S ++ rest)) (Z.elem (S ++ rest) (O ++ orest)) :=
  fuseF_lead Z k e hv hf hk1 hk

/-- the sign-adjusted operand of the fermionic fuse of the leading group is `a` itself with every
    sector multiplied by the C05 fuse sign `fuseSignT` (same index tables, same stored sectors, no
    pending phases) — this is what the decoders of `tensordot_fuse_free_commute_fermionic` read -/
theorem signAdj_leading [AddCommMonoid R] [Mul R] [Neg R] [SignRing R] (a : Arr R) {k : Nat}
    (hv : a.validB = true) (hf : a.fermi = true) (h1 : 1 ≤ k) (h2 : k ≤ a.ndim) :
    (FuseP.signAdj a [List.range k]).indices = a.indices
    ∧ (FuseP.signAdj a [List.range k]).sectors = a.sectors
    ∧ (FuseP.signAdj a [List.range k]).phases = []
    ∧ ∀ S J, (FuseP.signAdj a [List.range k]).elem S J
        = Lazy.sgnI (FuseP.fuseSignT a [List.range k] S) (a.elem S J) := by
  obtain ⟨h1', _, h3, h4, _, _, _, _, h9⟩ := signAdj_lead a hv hf h1 h2
  exact ⟨h1', h3, h4, h9⟩

/-! ## chains of `n` tensors in fused / auto mode -/

/-- **chain_bracketing_any_mode.** -/
theorem chain_bracketing_any_mode [AddCommMonoid R] [Mul R] [Neg R] [SignRing R] [AssocLaws R]
    (hz1 : ∀ x : R, 0 * x = 0) (hz2 : ∀ x : R, x * 0 = 0)
    (t : STree R) (hok : t.OK) (hd : t.labels.Pairwise (fun x y => x.1 ≠ y.1))
    (mode : TdotMode) (hmode : mode = .fused ∨ mode = .auto) :
    ∃ Tm T, evalM mode t = .ok Tm ∧ t.eval = .ok T
      ∧ Tm.l = T.l ∧ Tm.r = T.r ∧ Tm.arr.validB = true ∧ T.arr.validB = true
      ∧ Tm.arr.oddpos = T.arr.oddpos ∧ Tm.arr.charge = T.arr.charge ∧ Tm.arr.sym = T.arr.sym
      ∧ Tm.arr.ndim = T.arr.ndim
      ∧ (∀ s ∈ T.arr.sectors, s ∈ Tm.arr.sectors)
      ∧ (∀ s ∈ T.arr.sectors, ∀ o, inBox (Arr.blockShapeD T.arr.indices s) o = true →
          Tm.arr.elem s o = T.arr.elem s o)
      ∧ (∀ s, s ∉ T.arr.sectors → ∀ o, inBox (Arr.blockShapeD Tm.arr.indices s) o = true →
          Tm.arr.elem s o = 0) := by
  obtain ⟨Tm, T, e1, e2, g, p⟩ := tree_pad hz1 hz2 t hok hd mode hmode
  refine ⟨Tm, T, e1, e2, p.l, p.r, p.valid, g.ok.valid, p.oddpos, p.charge, p.pad.sym, p.pad.ndim,
    p.pad.sub, ?_, ?_⟩
  · intro s hs o ho
    exact p.pad.elem s (p.pad.sub s hs) o (by rw [p.pad.shape s hs]; exact ho)
  · intro s hs o ho
    by_cases hm : s ∈ Tm.arr.sectors
    · rw [p.pad.elem s hm o ho, Arr.elem_of_not_mem hs]
    · exact Arr.elem_of_not_mem hm o

/-- **chain_bracketings_agree_any_mode.**  Two bracketings of the same leaf sequence, each with
    its own mode. -/
theorem chain_bracketings_agree_any_mode [AddCommMonoid R] [Mul R] [Neg R] [SignRing R] [AssocLaws R]
    (hz1 : ∀ x : R, 0 * x = 0) (hz2 : ∀ x : R, x * 0 = 0)
    (t t' : STree R) (hok : t.OK) (hd : t.labels.Pairwise (fun x y => x.1 ≠ y.1))
    (h1 : t'.first = t.first) (h2 : t'.rest = t.rest)
    (mode mode' : TdotMode) (hmode : mode = .fused ∨ mode = .auto) (hmode' : mode' = .fused ∨ mode' = .auto) :
    ∃ Tm Tm' T, evalM mode t = .ok Tm ∧ evalM mode' t' = .ok Tm' ∧ t.eval = .ok T
      ∧ Tm'.l = Tm.l ∧ Tm'.r = Tm.r ∧ Tm'.arr.oddpos = Tm.arr.oddpos ∧ Tm'.arr.charge = Tm.arr.charge
      ∧ (∀ s ∈ T.arr.sectors, s ∈ Tm.arr.sectors ∧ s ∈ Tm'.arr.sectors)
      ∧ (∀ s ∈ T.arr.sectors, ∀ o, inBox (Arr.blockShapeD T.arr.indices s) o = true →
          Tm'.arr.elem s o = Tm.arr.elem s o ∧ Tm.arr.elem s o = T.arr.elem s o)
      ∧ (∀ s, s ∉ T.arr.sectors → ∀ o, inBox (Arr.blockShapeD Tm.arr.indices s) o = true →
          Tm.arr.elem s o = 0)
      ∧ (∀ s, s ∉ T.arr.sectors → ∀ o, inBox (Arr.blockShapeD Tm'.arr.indices s) o = true →
          Tm'.arr.elem s o = 0) := by
  have hok' : t'.OK := by
    rw [C04.ok_iff_leaves, h1, h2]; exact (C04.ok_iff_leaves t).mp hok
  have hd' : t'.labels.Pairwise (fun x y => x.1 ≠ y.1) := by
    rw [STree.labels_eq, h1, h2, ← STree.labels_eq]; exact hd
  obtain ⟨Tm, T, e1, e2, a1, a2, _, _, a5, a6, _, _, a9, a10, a11⟩ :=
    chain_bracketing_any_mode hz1 hz2 t hok hd mode hmode
  obtain ⟨Tm', T', e1', e2', b1, b2, _, _, b5, b6, _, _, b9, b10, b11⟩ :=
    chain_bracketing_any_mode hz1 hz2 t' hok' hd' mode' hmode'
  obtain ⟨U, U', d, d', hE, _, _⟩ := C04.chain_bracketings_agree t t' hok hd h1 h2
  rw [e2] at d
  obtain rfl := Except.ok.inj d
  rw [e2'] at d'
  obtain rfl := Except.ok.inj d'
  -- `hE : SegEqv T' T`
  have hsec : ∀ s, s ∈ T'.arr.sectors ↔ s ∈ T.arr.sectors := hE.1.sectors
  refine ⟨Tm, Tm', T, e1, e1', e2, by rw [b1, a1, hE.2.1], by rw [b2, a2, hE.2.2],
    by rw [b5, a5, hE.1.oddpos], by rw [b6, a6, hE.1.charge],
    fun s hs => ⟨a9 s hs, b9 s ((hsec s).mpr hs)⟩, ?_, a11, ?_⟩
  · intro s hs o ho
    have hs' := (hsec s).mpr hs
    have ho' : inBox (Arr.blockShapeD T'.arr.indices s) o = true := by rw [hE.1.indices]; exact ho
    refine ⟨?_, a10 s hs o ho⟩
    rw [b10 s hs' o ho', a10 s hs o ho]
    exact hE.1.elem s o (fun _ => ho')
  · intro s hs o ho
    exact b11 s (fun h => hs ((hsec s).mp h)) o ho

/-! ### non-vacuity and sanity -/

-- the chain `gA – cB – cC – cD` of C04f: both bracketings in auto AND in fused mode give the labels,
-- open bonds and values of the blockwise contraction
example :
    ([C04.segOf (evalM .auto C04.exTree), C04.segOf (evalM .fused C04.exTree'),
      C04.segOf (evalM .auto C04.exTree'), C04.segOf C04.exTree.eval].map (fun s =>
      (s.arr.oddpos, s.l, s.r, s.arr.elem [(1,0),(0,0),(0,0),(1,0)] [0,0,0,0],
        s.arr.elem [(0,0),(1,0),(0,0),(1,0)] [1,1,0,0])))
      = List.replicate 4 ([(5, true), (1, false), (3, false), (7, false)], [], [], 140, 280) := by
  decide +kernel

example : C04.exTree.OK ∧ C04.exTree.labels.Pairwise (fun x y => x.1 ≠ y.1) :=
  ⟨C04.exTree_ok.1, C04.exTree_ok.2.1⟩

-- fuse-commute: an aligned pair (C06b's `exA`, `exG`: two free legs on each side)
example : FusedCtx (dropMisaligned exA exG [2] [0]).1 (dropMisaligned exA exG [2] [0]).2 [2] [0] :=
  (fuse_commute_aligned exA exG [2] [0] (by decide +kernel) (by decide +kernel) rfl rfl rfl
    (by decide +kernel) (by decide) (by decide) (by decide) (by decide) (by decide) (by decide +kernel)
    (by decide +kernel)).1

-- fuse-free-commute: `exA[i,j,k]` with `exG[k',m,n]` over `k`: the two leading legs `i, j` are free
example : exA.validB = true ∧ exG.validB = true ∧ exA.sym = exG.sym
    ∧ ValidP.oppositeDualsB exA exG [2] [0] = true ∧ (2 : Nat) ≤ exA.ndim ∧ (∀ x ∈ ([2] : List Nat), 2 ≤ x)
    ∧ ([2] : List Nat).map (sh 2) = [1] := by decide +kernel

-- sanity: contracting the pre-fused `exA` gives exactly the blocks of the post-fused result here
example :
    (match fuseA exA [[0, 1]] .insert false, fuseA (cPlain exA exG [2] [0]) [[0, 1]] .insert false with
     | .ok af, .ok cq =>
        let cf := tensordotBlockwise af exG [0] [1] [0] [1, 2]
        cf.blocks.all (fun p => (alookup cq.blocks p.1).map (·.data) == some p.2.data)
        && cq.blocks.all (fun p => (alookup cf.blocks p.1).map (·.data) == some p.2.data)
        && cf.blocks.length == cq.blocks.length && cf.blocks.length != 0
     | _, _ => false) = true := by decide +kernel

-- fermionic fuse-free-commute: `gA[i,j,l]` (C03) with `cB[l',…]` (C04) over `l`; `i, j` are free
example : C03.gA.validB = true ∧ C04.cB.validB = true ∧ C03.gA.fermi = true ∧ C04.cB.fermi = true
    ∧ tdotAdmissibleCommonB C03.gA C04.cB [2] [0] = true ∧ (2 : Nat) ≤ C03.gA.ndim
    ∧ (∀ x ∈ ([2] : List Nat), 2 ≤ x) ∧ ([2] : List Nat).map (sh 2) = [1]
    ∧ (C03.gA.tensordotF C04.cB (.pair [2] [0]) .blockwise).toBool = true := by decide +kernel

-- sanity: here the two routes give exactly the same stored values (pending phases applied)
example :
    (match C03.gA.fuseF [[0, 1]] .insert false, C03.gA.tensordotF C04.cB (.pair [2] [0]) .blockwise with
     | .ok af, .ok c =>
        match af.tensordotF C04.cB (.pair [1] [0]) .blockwise, c.fuseF [[0, 1]] .insert false with
        | .ok cf, .ok cq =>
          cf.phaseSync.blocks.all (fun p => (alookup cq.phaseSync.blocks p.1).map (·.data) == some p.2.data)
          && cf.blocks.length == cq.blocks.length && cf.blocks.length == 3
        | _, _ => false
     | _, _ => false) = true := by decide +kernel

-- the same in fused / auto mode
example :
    (match C03.gA.fuseF [[0, 1]] .insert false, C03.gA.tensordotF C04.cB (.pair [2] [0]) .fused with
     | .ok af, .ok c =>
        match af.tensordotF C04.cB (.pair [1] [0]) .auto, c.fuseF [[0, 1]] .insert false with
        | .ok cf, .ok cq =>
          cq.phaseSync.blocks.all (fun p => p.2.data.all (· == 0)
            || (alookup cf.phaseSync.blocks p.1).map (·.data) == some p.2.data)
          && cf.phaseSync.blocks.all (fun p => p.2.data.all (· == 0)
            || (alookup cq.phaseSync.blocks p.1).map (·.data) == some p.2.data)
        | _, _ => false
     | _, _ => false) = true := by decide +kernel

end SymmModel.C06
