/- Property C06 — umbrella incl. C06i (right-operand group, any contraction mode, layout of the two results). -/
import SymmModel.Props.C06All7
import SymmModel.Props.C06i
