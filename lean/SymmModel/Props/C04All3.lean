import SymmModel.Props.C04All2
import SymmModel.Props.C04d
