/-
  C02 — Abelian contraction equals dense contraction (blockwise core).

  Theorems about `SymmModel.tensordotBlockwise` / `tensordotA` / `parseAxes` (`Model/Tdot.lean`,
  the model of `symmray.abelian_core._tensordot_blockwise` and `tensordot_abelian`), for every
  symmetry, number of axes, sparsity pattern and every scalar type `R`:

  * `[AddMonoid R] [Mul R] [Neg R]` for the value theorems (only associativity of `+` and
    `0 + x = x = x + 0` are used: the model's left folds are rewritten as `List.sum`);
  * `[AddCommMonoid R]` and the two hypotheses `0 * x = 0`, `x * 0 = 0` for the dense form, where
    the sum over stored sector pairs is re-indexed by the charge tuples of the contracted indices.

  The value view is `Arr.elem` (DESIGN §3.4): the stored element at an address
  `(sector, offsets)`, zero when the sector is absent.  Arrays are ABELIAN here (`phases = []`).

  Vocabulary (namespace `SymmModel.TdotP`; `Proofs/BlkLemmas.lean`, `Proofs/TdotLemmas.lean`,
  `Proofs/TdotDense.lean`):
  `freeAxes n axes` = the axes `< n` not in `axes`, ascending (= `without (range n) axes`, lemma
  `without_range`); `mergeIdx d n axes free k f` = the length-`n` list with `k[j]` at position
  `axes[j]` and `f[j]` at position `free[j]` — exactly the operand index `Blk.tensordotK` builds
  (`permuted_mergeIdx_axes`, `permuted_mergeIdx_free`, `mergeIdx_permuted`: it is the bijection
  (contracted part, free part) ↔ multi-index; `inBox_mergeIdx`); `mergeSec` = `mergeIdx` on
  sectors; `storedPairs a b l xa xb r s` = the stored sector pairs `(sa, sb)` with equal
  contracted parts and `permuted sa l ++ permuted sb r = s` (`mem_storedPairs`);
  `contractPair a b xa xb oL oR (sa, sb)` = `Σ_{k ∈ box of sa's contracted sizes}
  a.elem sa (merge k oL) * b.elem sb (merge k oR)`; `Arr.shapesOk` = every stored block has the
  shape its index tables prescribe (a clause of `Arr.validB`).

  Outside these theorems: `mode = "fused"` (C05/C06), `trace`, `einsum`, `to_dense` transport
  (`toDense_get`), fermionic signs (C03).
-/
import SymmModel.Proofs.TdotDense
import SymmModel.Model.GRat

namespace SymmModel.C02
open SymmModel SymmModel.TdotP

variable {R : Type}

/-! ## example operands (Z2, integer entries, 3 stored blocks each, one valid sector missing) -/

def c0 : Charge := (0, 0)
def c1 : Charge := (1, 0)
def ixI : Index := Index.plain [(c0, 2), (c1, 1)] false
def ixJ : Index := Index.plain [(c0, 1), (c1, 2)] false
def ixK : Index := Index.plain [(c0, 2), (c1, 2)] true
def ixM : Index := Index.plain [(c0, 1), (c1, 1)] true
/-- block with entries `c, c+1, c+2, …` in C order -/
def mkB (s : List Nat) (c : Int) : Blk Int := Blk.ofFn s (fun i => (ravel s i : Int) + c)

/-- `a[i,j,k]`, charge 0; the valid sector `(1,1,0)` is not stored -/
def exA : Arr Int :=
  { sym := .Z2, fermi := false, indices := [ixI, ixJ, ixK], charge := c0,
    blocks := [([c0, c0, c0], mkB [2, 1, 2] 1), ([c0, c1, c1], mkB [2, 2, 2] (-3)),
               ([c1, c0, c1], mkB [1, 1, 2] 2)] }
/-- `b[j,k,m]`, charge 0; the valid sector `(1,0,1)` is not stored -/
def exB : Arr Int :=
  { sym := .Z2, fermi := false, indices := [ixJ.conj, ixK.conj, ixM], charge := c0,
    blocks := [([c0, c0, c0], mkB [1, 2, 1] 5), ([c1, c1, c0], mkB [2, 2, 1] (-1)),
               ([c0, c1, c1], mkB [1, 2, 1] 7)] }

example : exA.validB = true ∧ exB.validB = true := by decide +kernel
theorem exA_shapesOk : exA.shapesOk := Arr.shapesOk_of_validB (by decide +kernel)
theorem exB_shapesOk : exB.shapesOk := Arr.shapesOk_of_validB (by decide +kernel)

/-! ## 1. charge -/

/-- **tensordotBlockwise_charge.** -/
theorem tensordotBlockwise_charge [Zero R] [Add R] [Mul R] (a b : Arr R) (l xa xb r : List Nat) :
    (tensordotBlockwise a b l xa xb r).charge = a.sym.combine [a.charge, b.charge] := rfl

/-! ## 2. sectors -/

/-- **tensordotBlockwise_sectors.**  `s` is a key of the result iff it is made of the free parts
    of two stored sectors with equal contracted parts. -/
theorem tensordotBlockwise_sectors [Zero R] [Add R] [Mul R] (a b : Arr R) (l xa xb r : List Nat)
    (s : Sector) :
    s ∈ (tensordotBlockwise a b l xa xb r).sectors ↔
      ∃ sa ∈ a.sectors, ∃ sb ∈ b.sectors, permuted sa xa = permuted sb xb ∧
        s = permuted sa l ++ permuted sb r := by
  rw [tensordotBlockwise_sectors_eq, List.mem_eraseDups]; exact mem_tdKeys

/-- the keys of the result are distinct -/
theorem tensordotBlockwise_sectors_distinct [Zero R] [Add R] [Mul R] (a b : Arr R)
    (l xa xb r : List Nat) : allDistinct (tensordotBlockwise a b l xa xb r).sectors = true := by
  rw [tensordotBlockwise_sectors_eq, allDistinct_iff_nodup]; exact nodup_eraseDups _

/-- … and appear in the order in which the loop (a's blocks outer, b's blocks inner) first meets
    them -/
theorem tensordotBlockwise_sectors_order [Zero R] [Add R] [Mul R] (a b : Arr R)
    (l xa xb r : List Nat) :
    (tensordotBlockwise a b l xa xb r).sectors =
      ((alignedPairs a b xa xb).map (fun p => permuted p.1 l ++ permuted p.2 r)).eraseDups := by
  rw [tensordotBlockwise_sectors_eq, tdKeys_eq_map_alignedPairs]

example : (tensordotBlockwise exA exB [0] [1, 2] [0, 1] [2]).sectors = [[c0, c0], [c1, c1]] := by
  decide +kernel

/-! ## 3. values -/

/-- **tensordotBlockwise_elem (flagship).**  Abelian operands with distinct sector keys and block
    shapes given by their index tables; `l`, `r` the free axes.  At every address `(s, o)` of
    the result — `o` in the box that the (un-pruned) result index tables give to `s` — the
    stored element is the sum over the stored sector pairs `(sa, sb)` with equal contracted
    parts and free parts making up `s`, of `Σ_{k ∈ contracted box} a.elem sa (merge k oL) *
    b.elem sb (merge k oR)`, where `oL`/`oR` are the first `l.length` / the remaining entries
    of `o` and `merge` is the index assembly of `Blk.tensordotK` (`mergeIdx`).
    When no pair contributes, both sides are 0 (the sector is absent). -/
theorem tensordotBlockwise_elem [AddMonoid R] [Mul R] [Neg R] (a b : Arr R) (xa xb : List Nat)
    (hpa : a.phases = []) (hpb : b.phases = [])
    (hda : allDistinct a.sectors = true) (hdb : allDistinct b.sectors = true)
    (hsa : a.shapesOk) (hsb : b.shapesOk) (s : Sector) (o : List Nat)
    (ho : inBox (Arr.blockShapeD (without a.indices xa ++ without b.indices xb) s) o = true) :
    (tensordotBlockwise a b (freeAxes a.ndim xa) xa xb (freeAxes b.ndim xb)).elem s o =
      ((storedPairs a b (freeAxes a.ndim xa) xa xb (freeAxes b.ndim xb) s).map
        (contractPair a b xa xb (o.take (freeAxes a.ndim xa).length)
          (o.drop (freeAxes a.ndim xa).length))).sum :=
  tensordotBlockwise_elem_pairs a b xa xb hpa hpb hda hdb hsa hsb s o ho

/-- the same at an address written `(L ++ Rr, oL ++ oR)` -/
theorem tensordotBlockwise_elem_split [AddMonoid R] [Mul R] [Neg R] (a b : Arr R) (xa xb : List Nat)
    (hpa : a.phases = []) (hpb : b.phases = [])
    (hda : allDistinct a.sectors = true) (hdb : allDistinct b.sectors = true)
    (hsa : a.shapesOk) (hsb : b.shapesOk) (L Rr : Sector) (oL oR : List Nat)
    (hoL : oL.length = (freeAxes a.ndim xa).length)
    (ho : inBox (Arr.blockShapeD (without a.indices xa ++ without b.indices xb) (L ++ Rr))
      (oL ++ oR) = true) :
    (tensordotBlockwise a b (freeAxes a.ndim xa) xa xb (freeAxes b.ndim xb)).elem (L ++ Rr) (oL ++ oR) =
      ((storedPairs a b (freeAxes a.ndim xa) xa xb (freeAxes b.ndim xb) (L ++ Rr)).map
        (contractPair a b xa xb oL oR)).sum := by
  rw [tensordotBlockwise_elem a b xa xb hpa hpb hda hdb hsa hsb _ _ ho, ← hoL]
  simp

/-- **dense form.**  The same element is the sum over *all* charge tuples `K` of the contracted
    index tables of `a` (not only those for which both sectors are stored) of the contraction of
    the sector pair `(merge K L, merge K Rr)`: absent sectors are zero.  This is the dense
    contraction `Σ_{K, k} A[(L,oL),(K,k)] · B[(K,k),(Rr,oR)]` written over addresses. -/
theorem tensordotBlockwise_elem_dense [AddCommMonoid R] [Mul R] [Neg R]
    (hz1 : ∀ x : R, 0 * x = 0) (hz2 : ∀ x : R, x * 0 = 0) (a b : Arr R) (xa xb : List Nat)
    (hpa : a.phases = []) (hpb : b.phases = [])
    (hda : allDistinct a.sectors = true) (hdb : allDistinct b.sectors = true)
    (hsa : a.shapesOk) (hsb : b.shapesOk) (hca : ∀ ix ∈ a.indices, ix.charges.Nodup)
    (hxa : xa.Nodup) (hxa' : ∀ x ∈ xa, x < a.ndim) (hxb : xb.Nodup) (hxb' : ∀ x ∈ xb, x < b.ndim)
    (hlen : xa.length = xb.length)
    (L Rr : Sector) (hL : L.length = (freeAxes a.ndim xa).length)
    (hR : Rr.length = (freeAxes b.ndim xb).length) (oL oR : List Nat)
    (hoL : oL.length = (freeAxes a.ndim xa).length)
    (ho : inBox (Arr.blockShapeD (without a.indices xa ++ without b.indices xb) (L ++ Rr))
      (oL ++ oR) = true) :
    (tensordotBlockwise a b (freeAxes a.ndim xa) xa xb (freeAxes b.ndim xb)).elem (L ++ Rr) (oL ++ oR) =
      ((contractedTuples a xa).map (fun K =>
        contractPair a b xa xb oL oR (mergeSec a.ndim xa K L, mergeSec b.ndim xb K Rr))).sum := by
  rw [tensordotBlockwise_elem_tuples hz1 hz2 a b xa xb hpa hpb hda hdb hsa hsb hca hxa hxa' hxb hxb'
    hlen L Rr hL hR _ ho, ← hoL]
  simp

-- sanity: both sides of the flagship and of the dense form on the example, at every address of
-- the two result blocks (shapes [2,1] and [1,1]); (0,0) accumulates two pairs
example : (tensordotBlockwise exA exB [0] [1, 2] [0, 1] [2]).blocks.map (fun p => (p.1, p.2.shape, p.2.data))
    = [([c0, c0], [2, 1], #[19, 49]), ([c1, c1], [1, 1], #[38])] := by decide +kernel
example : freeAxes exA.ndim [1, 2] = [0] ∧ freeAxes exB.ndim [0, 1] = [2] := by decide
example : storedPairs exA exB [0] [1, 2] [0, 1] [2] [c0, c0] =
    [([c0, c0, c0], [c0, c0, c0]), ([c0, c1, c1], [c1, c1, c0])] := by decide +kernel
example : ∀ so ∈ [([c0, c0], [0, 0]), ([c0, c0], [1, 0]), ([c1, c1], [0, 0]), ([c0, c1], [0, 0])],
    (tensordotBlockwise exA exB (freeAxes exA.ndim [1, 2]) [1, 2] [0, 1] (freeAxes exB.ndim [0, 1])).elem so.1 so.2 =
      ((storedPairs exA exB (freeAxes exA.ndim [1, 2]) [1, 2] [0, 1] (freeAxes exB.ndim [0, 1]) so.1).map
        (contractPair exA exB [1, 2] [0, 1] (so.2.take 1) (so.2.drop 1))).sum := by
  decide +kernel
example : contractedTuples exA [1, 2] = [[c0, c0], [c0, c1], [c1, c0], [c1, c1]] := by decide +kernel
example : ∀ so ∈ [(c0, c0, 0, 0, (19 : Int)), (c0, c0, 1, 0, 49), (c1, c1, 0, 0, 38), (c0, c1, 0, 0, 0)],
    (tensordotBlockwise exA exB [0] [1, 2] [0, 1] [2]).elem [so.1, so.2.1] [so.2.2.1, so.2.2.2.1] = so.2.2.2.2 ∧
    ((contractedTuples exA [1, 2]).map (fun K => contractPair exA exB [1, 2] [0, 1] [so.2.2.1] [so.2.2.2.1]
      (mergeSec 3 [1, 2] K [so.1], mergeSec 3 [0, 1] K [so.2.1]))).sum = so.2.2.2.2 := by
  decide +kernel
-- the hypotheses of the flagship / dense form hold for the example
example : exA.phases = [] ∧ exB.phases = [] ∧ allDistinct exA.sectors = true ∧ allDistinct exB.sectors = true
    ∧ (∀ ix ∈ exA.indices, ix.charges.Nodup) ∧ [1, 2].Nodup ∧ (∀ x ∈ [1, 2], x < exA.ndim)
    ∧ [0, 1].Nodup ∧ (∀ x ∈ [0, 1], x < exB.ndim)
    ∧ inBox (Arr.blockShapeD (without exA.indices [1, 2] ++ without exB.indices [0, 1]) [c0, c0]) [1, 0] = true := by
  decide +kernel

/-! ## 4. scalar results -/

/-- **tensordot_scalar.**  For a full contraction (no free axes on either side) the result has the
    single key `[]` — or no block at all when no stored sectors align — and its only element is
    the double sum over the aligned stored sector pairs and over the contracted box. -/
theorem tensordot_scalar [AddMonoid R] [Mul R] [Neg R] (a b : Arr R) (xa xb : List Nat)
    (hpa : a.phases = []) (hpb : b.phases = [])
    (hda : allDistinct a.sectors = true) (hdb : allDistinct b.sectors = true)
    (hsa : a.shapesOk) (hsb : b.shapesOk)
    (hfa : freeAxes a.ndim xa = []) (hfb : freeAxes b.ndim xb = []) :
    (tensordotBlockwise a b [] xa xb []).sectors =
        (if (alignedPairs a b xa xb).isEmpty then [] else [[]]) ∧
    (tensordotBlockwise a b [] xa xb []).elem [] [] =
        ((alignedPairs a b xa xb).map (contractPair a b xa xb [] [])).sum := by
  refine ⟨tensordotBlockwise_sectors_scalar a b xa xb, ?_⟩
  have ho : inBox (Arr.blockShapeD (without a.indices xa ++ without b.indices xb) []) [] = true := by
    rw [without_eq_permuted_freeAxes, without_eq_permuted_freeAxes]
    show inBox (Arr.blockShapeD (permuted a.indices (freeAxes a.ndim xa) ++
      permuted b.indices (freeAxes b.ndim xb)) []) [] = true
    rw [hfa, hfb]; rfl
  have := tensordotBlockwise_elem a b xa xb hpa hpb hda hdb hsa hsb [] [] ho
  rw [hfa, hfb, storedPairs_nil_nil] at this
  exact this

/-- `exA` against a conjugate-index operand with sectors (0,0,0), (0,1,1), (1,1,0): two pairs align -/
def exC : Arr Int :=
  { sym := .Z2, fermi := false, indices := [ixI.conj, ixJ.conj, ixK.conj], charge := c0,
    blocks := [([c0, c0, c0], mkB [2, 1, 2] 2), ([c0, c1, c1], mkB [2, 2, 2] 0),
               ([c1, c1, c0], mkB [1, 2, 2] 1)] }
/-- … and one whose only sector is the one `exA` lacks: nothing aligns -/
def exD : Arr Int :=
  { exC with blocks := [([c1, c1, c0], mkB [1, 2, 2] 1)] }

example : exC.validB = true ∧ exD.validB = true
    ∧ freeAxes exA.ndim [0, 1, 2] = [] ∧ freeAxes exC.ndim [0, 1, 2] = [] := by decide +kernel
example : (tensordotBlockwise exA exC [] [0, 1, 2] [0, 1, 2] []).sectors = [[]]
    ∧ (tensordotBlockwise exA exC [] [0, 1, 2] [0, 1, 2] []).elem [] [] = 96
    ∧ ((alignedPairs exA exC [0, 1, 2] [0, 1, 2]).map (contractPair exA exC [0, 1, 2] [0, 1, 2] [] [])).sum = 96
    ∧ (tensordotBlockwise exA exD [] [0, 1, 2] [0, 1, 2] []).sectors = []
    ∧ (tensordotBlockwise exA exD [] [0, 1, 2] [0, 1, 2] []).elem [] [] = 0 := by decide +kernel

/-! ## 5. `tensordot(a, b, axes, mode="blockwise")` -/

/-- **tensordotA_blockwise.**  Blockwise mode parses (and normalises) the axes, takes the
    complements in increasing order as free axes and runs `tensordotBlockwise`. -/
theorem tensordotA_blockwise [Zero R] [Add R] [Mul R] (a b : Arr R) (axes : AxesArg) :
    tensordotA a b axes .blockwise =
      (parseAxes a.ndim b.ndim axes).map (fun x =>
        tensordotBlockwise a b (freeAxes a.ndim x.1) x.1 x.2 (freeAxes b.ndim x.2)) :=
  tensordotA_blockwise' a b axes

/-- the free axes are the complement: `without (range n) axes` -/
theorem freeAxes_eq_without (n : Nat) (axes : List Nat) : without (List.range n) axes = freeAxes n axes :=
  without_range n axes

/-- **parseAxes.**  A pair of axis lists of equal length (and no `x % 0`) is normalised entrywise
    by `x ↦ x % ndim`; … -/
theorem parseAxes_pair_ok {na nb : Nat} {xa xb : List Int} (hl : xa.length = xb.length)
    (ha : 0 < na ∨ xa = []) (hb : 0 < nb ∨ xb = []) :
    parseAxes na nb (.pair xa xb) = .ok (xa.map (normAxis na), xb.map (normAxis nb)) :=
  parseAxes_pair hl ha hb

/-- … the normalised axis is in range, is the axis itself when that is in range, and counts from
    the end when it is negative; … -/
theorem normAxis_spec {n : Nat} (hn : 0 < n) (x : Int) :
    normAxis n x < n ∧ (0 ≤ x → x < n → normAxis n x = x.toNat) ∧
      (x < 0 → -(n : Int) ≤ x → normAxis n x = (x + n).toNat) :=
  ⟨normAxis_lt hn x, normAxis_of_nonneg, normAxis_of_neg⟩

/-- … and an integer `n` means the last `n` axes of `a` against the first `n` of `b`. -/
theorem parseAxes_int_ok (na nb n : Nat) :
    parseAxes na nb (.int n) = .ok ((List.range na).drop (na - n), List.range n) := rfl

example : tensordotA exA exB (.pair [-2, -1] [0, -2]) .blockwise
    = .ok (tensordotBlockwise exA exB [0] [1, 2] [0, 1] [2]) := by
  rw [tensordotA_blockwise, parseAxes_pair_ok (xa := [-2, -1]) (xb := [0, -2]) rfl (Or.inl (by decide)) (Or.inl (by decide))]; rfl
example : tensordotA exA exB (.int 2) .blockwise
    = .ok (tensordotBlockwise exA exB [0] [1, 2] [0, 1] [2]) := by
  rw [tensordotA_blockwise]; rfl

/-- `a @ b` for two matrices is the blockwise contraction of axis 1 with axis 0 -/
theorem matmulA_matrices [Zero R] [Add R] [Mul R] (a b : Arr R) (ha : a.ndim = 2) (hb : b.ndim = 2) :
    matmulA a b = .ok (tensordotBlockwise a b (freeAxes a.ndim [1]) [1] [0] (freeAxes b.ndim [0])) :=
  matmulA_22 a b ha hb

/-! ## the driver's scalar type is covered -/

/-- additive laws of `GRat` (kept a `def`: `Props/C18` registers a group instance already) -/
@[reducible] def addCommMonoidGRat : AddCommMonoid GRat where
  add := (· + ·)
  zero := 0
  add_assoc a b c := by
    show GRat.mk _ _ = GRat.mk _ _
    congr 1 <;> exact Rat.add_assoc _ _ _
  zero_add a := by
    show GRat.mk _ _ = a
    cases a; congr 1 <;> exact Rat.zero_add _
  add_zero a := by
    show GRat.mk _ _ = a
    cases a; congr 1 <;> exact Rat.add_zero _
  add_comm a b := by
    show GRat.mk _ _ = GRat.mk _ _
    congr 1 <;> exact Rat.add_comm _ _
  nsmul := nsmulRec

theorem GRat_zero_mul (x : GRat) : (0 : GRat) * x = 0 := by
  show GRat.mk _ _ = GRat.mk 0 0
  have h0 : (0 : GRat).re = 0 := rfl
  have h1 : (0 : GRat).im = 0 := rfl
  rw [h0, h1]; simp only [Rat.zero_mul]; congr 1 <;> decide +kernel

theorem GRat_mul_zero (x : GRat) : x * (0 : GRat) = 0 := by
  show GRat.mk _ _ = GRat.mk 0 0
  have h0 : (0 : GRat).re = 0 := rfl
  have h1 : (0 : GRat).im = 0 := rfl
  rw [h0, h1]; simp only [Rat.mul_zero]; congr 1 <;> decide +kernel

/-- the flagship with exactly the instances the driver is compiled with -/
theorem tensordotBlockwise_elem_GRat (a b : Arr GRat) (xa xb : List Nat)
    (hpa : a.phases = []) (hpb : b.phases = [])
    (hda : allDistinct a.sectors = true) (hdb : allDistinct b.sectors = true)
    (hsa : a.shapesOk) (hsb : b.shapesOk) (s : Sector) (o : List Nat)
    (ho : inBox (Arr.blockShapeD (without a.indices xa ++ without b.indices xb) s) o = true) :
    @Arr.elem GRat GRat.instZero GRat.instNeg
      (@tensordotBlockwise GRat GRat.instZero GRat.instAdd GRat.instMul a b
        (freeAxes a.ndim xa) xa xb (freeAxes b.ndim xb)) s o =
      ((storedPairs a b (freeAxes a.ndim xa) xa xb (freeAxes b.ndim xb) s).map
        (@contractPair GRat addCommMonoidGRat.toAddMonoid GRat.instNeg GRat.instMul a b xa xb
          (o.take (freeAxes a.ndim xa).length) (o.drop (freeAxes a.ndim xa).length))).sum :=
  @tensordotBlockwise_elem GRat addCommMonoidGRat.toAddMonoid GRat.instMul GRat.instNeg a b xa xb
    hpa hpb hda hdb hsa hsb s o ho

end SymmModel.C02
