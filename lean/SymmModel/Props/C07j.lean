/-
  Property C07, tenth part: the forward clause for ABELIAN arrays as an element bijection, both fuse
  strategies, and the "only if" half left open in C07i.

  (1) THE FORWARD CLAUSE, ELEMENT BY ELEMENT, TOTAL (abelian; fused inputs allowed).  For a valid
      abelian array `a` and a plan of fuse calls (`CallsOk`), resp. `reshape(a, target)` for a merge /
      drop target, the plan succeeds with EITHER fuse strategy (`insert` — what `reshape` uses on numpy
      — and `concat`, any `expand_empty`) with the SAME result `y`, a valid abelian array, and
      `ElemBijA a calls y` holds (Proofs/ReshapeJb.lean).  `Stored`, `Pulled`, `ZeroAt` are those of
      C07h / C07i (the sign component `σ` of `Pulled`, the product of `fuseSignT`, plays no role for
      abelian arrays: the values are EQUAL):
        total   every stored address `(ns, i)` of `y`:  EITHER  it pulls back to a STORED address `(s, o)`
                of `a` and `y.elem ns i = a.elem s o`,  OR  `ZeroAt` and `y.elem ns i = 0`
        onto    every stored address `(s, o)` of `a` is the pull-back of a stored address of `y`
                (which then carries `a.elem s o`)
        inj     … of exactly one
        func    the pull-back `(s, o)` is determined by `(ns, i)`
        excl    the two cases of `total` exclude each other
        `reshape_forward_elem_abelian_calls` / `_items` / `_mergeDrop`
  (2) THE "ONLY IF" HALF ("fuse stores a sector only if some stored source sector combines to it"), in
      block form, for any number of calls and both strategies:
        blockFrom  every stored block `(ns, B)` of `y` contains a WHOLE stored block `(s, b)` of `a`:
                   every address `o` of `b` is the pull-back of an address `i` of `B`
        blockInto  every stored block `(s, b)` of `a` lies as a whole in ONE stored block of `y`
        `reshape_stored_sector_has_source_abelian`   (blockFrom for a plan of calls)
        `fuse_stored_sector_has_source_abelian`      one `fuse` call, either strategy
        `reshape_block_not_all_zero_filled_abelian`  hence: if the source blocks have no zero extent, every
                                                     stored block of `y` has an address that is NOT
                                                     zero-filled (first case of `total`)
      and for FERMIONIC arrays (values up to the sign `σ`, both strategies of `fuseF`):
        `reshape_stored_sector_has_source_fermionic`, `fuse_stored_sector_has_source_fermionic`,
        `reshape_block_not_all_zero_filled_fermionic`
-/
import SymmModel.Proofs.ReshapeJc
import SymmModel.Props.C07i

namespace SymmModel.C07
open SymmModel SymmModel.Reshape SymmModel.Reshape3 SymmModel.Reshape5 SymmModel.ReshapeH SymmModel.ReshapeI
open SymmModel.ReshapeJ ReshapeP FuseP

variable {R : Type} [Zero R] [Neg R] [Lazy.LawfulNeg R]

/-- **abelian plan of several fuse calls, element by element, TOTAL**: the plan succeeds — with either
    fuse strategy, same result —, the result is a valid abelian array and the pull-back of addresses
    is a value-exact bijection from the stored, not zero-filled addresses of the result onto the stored
    addresses of the input; the zero-filled addresses hold 0 -/
theorem reshape_forward_elem_abelian_calls (a : Arr R) (calls : List (List (List Nat)))
    (hv : a.validB = true) (hf : a.fermi = false) (hc : CallsOk calls 0 a.ndim) :
    ∃ y, applyPlan a ([], calls, []) = .ok y
      ∧ (∀ (m : FuseMode) (e : Bool), calls.foldlM (fun x G => fuseA x G m e) a = .ok y)
      ∧ y.validB = true ∧ y.fermi = false
      ∧ (∀ ns i, Stored y ns i →
          (∃ s o σ, Pulled a calls 0 y ns i s o σ ∧ Stored a s o ∧ y.elem ns i = a.elem s o)
          ∨ (ZeroAt a calls 0 y ns i ∧ y.elem ns i = 0))
      ∧ (∀ s o, Stored a s o →
          ∃ ns i σ, Stored y ns i ∧ Pulled a calls 0 y ns i s o σ ∧ y.elem ns i = a.elem s o)
      ∧ (∀ ns i ns' i' s o σ σ', Stored y ns i → Stored y ns' i' → Pulled a calls 0 y ns i s o σ →
          Pulled a calls 0 y ns' i' s o σ' → ns = ns' ∧ i = i')
      ∧ (∀ ns i s o σ s' o' σ', Pulled a calls 0 y ns i s o σ → Pulled a calls 0 y ns i s' o' σ' →
          s = s' ∧ o = o' ∧ σ = σ')
      ∧ (∀ ns i, ZeroAt a calls 0 y ns i → ∀ s o σ, Pulled a calls 0 y ns i s o σ → ¬ Stored a s o) := by
  obtain ⟨y, hy, hym, hvy, hfy, hb⟩ := elemBijA_calls a calls hv hf hc
  exact ⟨y, by rw [applyPlan_calls]; exact hy, hym, hvy, hfy, hb.total, hb.onto, hb.inj, hb.func, hb.excl⟩

/-- **abelian `reshape` to a merge / squeeze target, element by element, TOTAL** — any number of fuse
    calls, fused axes allowed, under the exact window condition; either strategy -/
theorem reshape_forward_elem_abelian_items (a : Arr R) (hv : a.validB = true)
    (hf : a.fermi = false) (items : List Item) (hshape : a.shape = shapeOf items) (hok : ItemsOk items)
    (hne : targetOf items ≠ []) (hpos : ∀ d ∈ a.shape, 0 < d)
    (hnw1 : noWinVisB a.shape (targetOf items) a.subsizes = true) :
    ∃ t y, calcReshapeArgs a.shape (targetOf items) a.subsizes = .ok t ∧ t.1 = [] ∧ t.2.2 = []
      ∧ reshapeArr a ((targetOf items).map Int.ofNat) = .ok y
      ∧ (∀ (m : FuseMode) (e : Bool), t.2.1.foldlM (fun x G => fuseA x G m e) a = .ok y)
      ∧ y.validB = true ∧ y.fermi = false ∧ ElemBijA a t.2.1 y :=
  forward_items_bij_A a hv hf items hshape hok hne hpos hnw1

/-- **the forward clause for abelian arrays**: `reshape(a, target)` for a target obtained by merging
    adjacent axes and/or dropping size-one axes has at every stored address either the value of
    exactly the source element that the fused index tables prescribe, or zero; every stored source
    element appears exactly once; every stored block of the result contains a whole stored source
    block (`ElemBijA`) -/
theorem reshape_forward_elem_abelian_mergeDrop (a : Arr R) (hv : a.validB = true) (hf : a.fermi = false)
    (segs : List MSeg) (hok : ∀ s ∈ segs, MSegOk s) (hshape : a.shape = shapeS segs)
    (hne : targetS segs ≠ []) (hnw1 : noWinVisB a.shape (targetS segs) a.subsizes = true) :
    ∃ t y, calcReshapeArgs a.shape (targetS segs) a.subsizes = .ok t ∧ t.1 = [] ∧ t.2.2 = []
      ∧ reshapeArr a ((targetS segs).map Int.ofNat) = .ok y
      ∧ (∀ (m : FuseMode) (e : Bool), t.2.1.foldlM (fun x G => fuseA x G m e) a = .ok y)
      ∧ y.validB = true ∧ y.fermi = false ∧ ElemBijA a t.2.1 y := by
  obtain ⟨items, h1, h2, h3⟩ := normalise segs hok
  rw [← h3] at hne hnw1 ⊢
  exact reshape_forward_elem_abelian_items a hv hf items (by rw [hshape, h2]) h1 hne
    (by rw [hshape]; exact shapeS_pos segs hok) hnw1

/-! ## the "only if" half -/

/-- **every stored sector of the result of a plan of fuse calls has a stored source sector**: the
    stored block `(ns, B)` contains the whole of a stored block `(s, b)` of the input — every address
    `o` of `b` is the pull-back of an address `i` of `B` (where `y` then holds `a.elem s o`) -/
theorem reshape_stored_sector_has_source_abelian (a : Arr R) (calls : List (List (List Nat)))
    (hv : a.validB = true) (hf : a.fermi = false) (hc : CallsOk calls 0 a.ndim) :
    ∃ y, applyPlan a ([], calls, []) = .ok y
      ∧ (∀ (m : FuseMode) (e : Bool), calls.foldlM (fun x G => fuseA x G m e) a = .ok y)
      ∧ ∀ ns B, alookup y.blocks ns = some B →
          ∃ s b, alookup a.blocks s = some b ∧ ∀ o, inBox b.shape o = true →
            ∃ i σ, inBox B.shape i = true ∧ Pulled a calls 0 y ns i s o σ ∧ y.elem ns i = a.elem s o := by
  obtain ⟨y, hy, hym, _, _, hb⟩ := elemBijA_calls a calls hv hf hc
  refine ⟨y, by rw [applyPlan_calls]; exact hy, hym, ?_⟩
  intro ns B hB
  obtain ⟨s, b, hsb, hall⟩ := hb.blockFrom ns B hB
  refine ⟨s, b, hsb, ?_⟩
  intro o ho
  obtain ⟨i, σ, hi, hp⟩ := hall o ho
  refine ⟨i, σ, hi, hp, ?_⟩
  rcases hb.total ns i ⟨B, hB, hi⟩ with ⟨s', o', σ', hp', _, hval⟩ | ⟨hz, _⟩
  · obtain ⟨rfl, rfl, _⟩ := hb.func ns i s o σ s' o' σ' hp hp'
    exact hval
  · exact (hb.excl ns i hz s o σ hp ⟨b, hsb, ho⟩).elim

/-- **one `fuse` call (either strategy, any `expand_empty`) stores a sector ONLY IF a stored source
    sector combines to it**, and then the whole source block lies in the fused block: every address of
    the source block is the split address (`splitAddr` on the fused axes `P, P+1, …`) of an address of
    the fused block -/
theorem fuse_stored_sector_has_source_abelian (a : Arr R) (G : List (List Nat)) (P : Nat) (m : FuseMode)
    (e : Bool) (hv : a.validB = true) (hf : a.fermi = false) (hc : CallOk G P 0 a.ndim) :
    ∃ y, fuseA a G m e = .ok y ∧ ∀ ns B, alookup y.blocks ns = some B →
      ∃ s b, alookup a.blocks s = some b ∧ ∀ offs, inBox b.shape offs = true →
        ∃ i, ∃ segs : List (Sector × List Nat), inBox B.shape i = true
          ∧ segs.length = G.length
          ∧ (∀ g gaxes, G[g]? = some gaxes →
              splitAddr (y.indices.getD (P + g) default) (ns.getD (P + g) (0, 0)) (i.getD (P + g) 0) = segs[g]?)
          ∧ s = ns.take P ++ (segs.map (·.1)).flatten ++ ns.drop (P + G.length)
          ∧ offs = i.take P ++ (segs.map (·.2)).flatten ++ i.drop (P + G.length)
          ∧ y.elem ns i = a.elem s offs := by
  obtain ⟨_, hall, _, _, _⟩ := fuse_call_A a G P 0 hv hf hc
  refine ⟨_, hall m e, ?_⟩
  intro ns B hB
  obtain ⟨s, b, hsb, hsrc⟩ := src_call_A a G P 0 hv hc ns B hB
  refine ⟨s, b, hsb, ?_⟩
  intro offs ho
  obtain ⟨i, segs, hi, hsl, hsp, hs, hoe⟩ := hsrc offs ho
  refine ⟨i, segs, hi, hsl, hsp, hs, hoe, ?_⟩
  obtain ⟨segs', hsl', hsp', _, _, hval, _⟩ := elem_call_A a G P 0 hv hf hc ns B hB i hi
  have : segs = segs' := splitAddr_segs_unique (f := fun g =>
    splitAddr ((fusedArrM a G).indices.getD (P + g) default) (ns.getD (P + g) (0, 0)) (i.getD (P + g) 0))
    hsl hsl' hsp hsp'
  subst this
  rw [hval, ← hs, ← hoe]

/-- the all-zero offsets lie in a box without a zero extent -/
theorem inBox_zeroOffsets : ∀ (sh : List Nat), (∀ d ∈ sh, 0 < d) → inBox sh (sh.map (fun _ => 0)) = true
  | [], _ => rfl
  | d :: ds, h => by
    simp only [List.map_cons, inBox, Bool.and_eq_true, decide_eq_true_eq]
    exact ⟨h d (by simp), inBox_zeroOffsets ds (fun d' hd' => h d' (by simp [hd']))⟩

/-- **no stored block of the result is entirely zero-filled** (source blocks without a zero extent):
    every stored block of `y` has an address in the first case of `total` -/
theorem reshape_block_not_all_zero_filled_abelian (a : Arr R) (calls : List (List (List Nat)))
    (hv : a.validB = true) (hf : a.fermi = false) (hc : CallsOk calls 0 a.ndim)
    (hpos : ∀ sb ∈ a.blocks, ∀ d ∈ sb.2.shape, 0 < d) :
    ∃ y, applyPlan a ([], calls, []) = .ok y ∧ ∀ ns B, alookup y.blocks ns = some B →
      ∃ i s o σ, Stored y ns i ∧ Pulled a calls 0 y ns i s o σ ∧ Stored a s o ∧ y.elem ns i = a.elem s o
        ∧ ¬ ZeroAt a calls 0 y ns i := by
  obtain ⟨y, hy, hym, _, _, hb⟩ := elemBijA_calls a calls hv hf hc
  obtain ⟨y', hy', _, hsrc⟩ := reshape_stored_sector_has_source_abelian a calls hv hf hc
  have : y' = y := by
    rw [applyPlan_calls, hy] at hy'; injection hy' with hy'; exact hy'.symm
  subst this
  refine ⟨y', hy', ?_⟩
  intro ns B hB
  obtain ⟨s, b, hsb, hall⟩ := hsrc ns B hB
  have ho : inBox b.shape (b.shape.map (fun _ => 0)) = true := inBox_zeroOffsets b.shape (hpos (s, b) (Lazy.alookup_mem hsb))
  obtain ⟨i, σ, hi, hp, hval⟩ := hall _ ho
  exact ⟨i, s, _, σ, ⟨B, hB, hi⟩, hp, ⟨b, hsb, ho⟩, hval,
    fun hz => hb.excl ns i hz s _ σ hp ⟨b, hsb, ho⟩⟩

/-! ### the "only if" half, fermionic -/

/-- **fermionic: every stored sector of the result of a plan of fuse calls has a stored source sector**
    whose whole block lies in it (values up to the product `σ` of the fuse signs); the plan gives the
    same result with either strategy of the fermionic `fuse` -/
theorem reshape_stored_sector_has_source_fermionic (a : Arr R) (calls : List (List (List Nat)))
    (hv : a.validB = true) (hf : a.fermi = true) (hc : CallsOk calls 0 a.ndim) :
    ∃ y, applyPlan a ([], calls, []) = .ok y
      ∧ (∀ (m : FuseMode) (e : Bool), calls.foldlM (fun x G => Arr.fuseF x G m e) a = .ok y)
      ∧ ∀ ns B, alookup y.blocks ns = some B →
          ∃ s b, alookup a.blocks s = some b ∧ ∀ o, inBox b.shape o = true →
            ∃ i σ, inBox B.shape i = true ∧ Pulled a calls 0 y ns i s o σ
              ∧ y.elem ns i = Lazy.sgnI σ (a.elem s o) := by
  obtain ⟨y, hy, _, _, hb⟩ := elemBij_calls a calls hv hf hc
  obtain ⟨hm, hsrc⟩ := src_chain_F calls a 0 hv hf hc y hy
  refine ⟨y, by rw [applyPlan_calls]; exact hy, hm, ?_⟩
  intro ns B hB
  obtain ⟨s, b, hsb, hall⟩ := hsrc ns B hB
  refine ⟨s, b, hsb, ?_⟩
  intro o ho
  obtain ⟨i, σ, hi, hp⟩ := hall o ho
  refine ⟨i, σ, hi, hp, ?_⟩
  rcases hb.total ns i ⟨B, hB, hi⟩ with ⟨s', o', σ', hp', _, hval⟩ | ⟨hz, _⟩
  · obtain ⟨rfl, rfl, rfl⟩ := hb.func ns i s o σ s' o' σ' hp hp'
    exact hval
  · exact (hb.excl ns i hz s o σ hp ⟨b, hsb, ho⟩).elim

/-- **one fermionic `fuse` call (either strategy, any `expand_empty`) stores a sector ONLY IF a stored
    source sector combines to it**; the whole source block lies in the fused block -/
theorem fuse_stored_sector_has_source_fermionic (a : Arr R) (G : List (List Nat)) (P : Nat) (m : FuseMode)
    (e : Bool) (hv : a.validB = true) (hf : a.fermi = true) (hc : CallOk G P 0 a.ndim) :
    ∃ y, Arr.fuseF a G m e = .ok y ∧ ∀ ns B, alookup y.blocks ns = some B →
      ∃ s b, alookup a.blocks s = some b ∧ ∀ offs, inBox b.shape offs = true →
        ∃ i, ∃ segs : List (Sector × List Nat), inBox B.shape i = true
          ∧ segs.length = G.length
          ∧ (∀ g gaxes, G[g]? = some gaxes →
              splitAddr (y.indices.getD (P + g) default) (ns.getD (P + g) (0, 0)) (i.getD (P + g) 0) = segs[g]?)
          ∧ s = ns.take P ++ (segs.map (·.1)).flatten ++ ns.drop (P + G.length)
          ∧ offs = i.take P ++ (segs.map (·.2)).flatten ++ i.drop (P + G.length)
          ∧ y.elem ns i = Lazy.sgnI (fuseSignT a G s) (a.elem s offs) := by
  obtain ⟨y, hy, hsrc⟩ := src_call_F a G P 0 hv hf hc
  obtain ⟨y', hy', hel⟩ := forward_elem_call_box a G P 0 hv hf hc
  rw [hy] at hy'; injection hy' with hy'; subst hy'
  refine ⟨y, fuseF_call_modes a G P 0 hv hf hc y hy m e, ?_⟩
  intro ns B hB
  obtain ⟨s, b, hsb, hall⟩ := hsrc ns B hB
  refine ⟨s, b, hsb, ?_⟩
  intro offs ho
  obtain ⟨i, segs, hi, hsl, hsp, hs, hoe⟩ := hall offs ho
  refine ⟨i, segs, hi, hsl, hsp, hs, hoe, ?_⟩
  obtain ⟨segs', hsl', hsp', _, _, hval, _⟩ := hel ns B hB i hi
  have : segs = segs' := splitAddr_segs_unique (f := fun g =>
    splitAddr (y.indices.getD (P + g) default) (ns.getD (P + g) (0, 0)) (i.getD (P + g) 0))
    hsl hsl' hsp hsp'
  subst this
  rw [hval, ← hs, ← hoe]

/-- **fermionic: no stored block of the result is entirely zero-filled** (source blocks without a zero
    extent) -/
theorem reshape_block_not_all_zero_filled_fermionic (a : Arr R) (calls : List (List (List Nat)))
    (hv : a.validB = true) (hf : a.fermi = true) (hc : CallsOk calls 0 a.ndim)
    (hpos : ∀ sb ∈ a.blocks, ∀ d ∈ sb.2.shape, 0 < d) :
    ∃ y, applyPlan a ([], calls, []) = .ok y ∧ ∀ ns B, alookup y.blocks ns = some B →
      ∃ i s o σ, Stored y ns i ∧ Pulled a calls 0 y ns i s o σ ∧ Stored a s o
        ∧ y.elem ns i = Lazy.sgnI σ (a.elem s o) ∧ ¬ ZeroAt a calls 0 y ns i := by
  obtain ⟨y, hy, _, _, hb⟩ := elemBij_calls a calls hv hf hc
  obtain ⟨y', hy', _, hsrc⟩ := reshape_stored_sector_has_source_fermionic a calls hv hf hc
  have : y' = y := by
    rw [applyPlan_calls, hy] at hy'; injection hy' with hy'; exact hy'.symm
  subst this
  refine ⟨y', hy', ?_⟩
  intro ns B hB
  obtain ⟨s, b, hsb, hall⟩ := hsrc ns B hB
  have ho : inBox b.shape (b.shape.map (fun _ => 0)) = true :=
    inBox_zeroOffsets b.shape (hpos (s, b) (Lazy.alookup_mem hsb))
  obtain ⟨i, σ, hi, hp, hval⟩ := hall _ ho
  exact ⟨i, s, _, σ, ⟨B, hB, hi⟩, hp, ⟨b, hsb, ho⟩, hval,
    fun hz => hb.excl ns i hz s _ σ hp ⟨b, hsb, ho⟩⟩

/-! ## examples -/

section Examples
open C05

-- two fuse calls on the sparse rank-4 `exB`: (2,2,2,2) → (4,2,2) → (4,4)
example := reshape_forward_elem_abelian_calls (R := Int) exB [[[0, 1]], [[1, 2]]]
  (by decide +kernel) (by decide +kernel) (callsOk_of_B _ _ _ (by decide +kernel))
example := reshape_stored_sector_has_source_abelian (R := Int) exB [[[0, 1]], [[1, 2]]]
  (by decide +kernel) (by decide +kernel) (callsOk_of_B _ _ _ (by decide +kernel))
example := reshape_block_not_all_zero_filled_abelian (R := Int) exB [[[0, 1]], [[1, 2]]]
  (by decide +kernel) (by decide +kernel) (callsOk_of_B _ _ _ (by decide +kernel)) (by decide +kernel)
example := fuse_stored_sector_has_source_abelian (R := Int) exB [[0, 1], [2, 3]] 0 .concat false
  (by decide +kernel) (by decide +kernel) ⟨by decide, by decide, by decide, by decide, by decide⟩
example := reshape_forward_elem_abelian_items (R := Int) exB (by decide +kernel) (by decide +kernel)
  [.M 2 [] 2, .M 2 [] 2] (by decide +kernel) (by decide) (by decide) (by decide +kernel)
  (by decide +kernel)
example := reshape_forward_elem_abelian_mergeDrop (R := Int) exB (by decide +kernel) (by decide +kernel)
  [.run [2, 2], .run [2, 2]] (by decide) (by decide +kernel) (by decide) (by decide +kernel)
-- an abelian input that already carries a (sparsely) fused axis: (3, 3⟨3,2⟩) → (9)
example := reshape_forward_elem_abelian_mergeDrop (R := Int) exAfused (by decide +kernel) (by decide +kernel)
  [.run [3, 3]] (by decide) (by decide +kernel) (by decide) (by decide +kernel)

/-- the intermediate and the final array of `exB` (2,2,2,2) → (4,2,2) → (4,4); the result has ONE stored
    block, sector (1,1), shape (2,2), data [0, 7, 9, 0] -/
def exBy1 : Arr Int := match fuseDispatch exB [[0, 1]] with | .ok x => x | .error _ => exB
def exBy2 : Arr Int := match fuseDispatch exBy1 [[1, 2]] with | .ok x => x | .error _ => exB

example : C05.view (applyPlan exB ([], [[[0, 1]], [[1, 2]]], [])) = some [([(1, 0), (1, 0)], [2, 2], [0, 7, 9, 0])] := by
  decide +kernel
example : C05.view (.ok exBy2) = some [([(1, 0), (1, 0)], [2, 2], [0, 7, 9, 0])] := by decide +kernel

-- the FIRST case of `total` is inhabited: offset (0,1) of the block holds 7 = the element of `exB` in
-- sector (0,1,1,0)
example : Stored exBy2 [(1, 0), (1, 0)] [0, 1]
    ∧ exBy2.elem [(1, 0), (1, 0)] [0, 1] = exB.elem [(0, 0), (1, 0), (1, 0), (0, 0)] [0, 0, 0, 0]
    ∧ Stored exB [(0, 0), (1, 0), (1, 0), (0, 0)] [0, 0, 0, 0] :=
  ⟨⟨(alookup exBy2.blocks [(1, 0), (1, 0)]).getD default, some_of_isSome default (by decide +kernel),
      by decide +kernel⟩, by decide +kernel,
    ⟨(alookup exB.blocks [(0, 0), (1, 0), (1, 0), (0, 0)]).getD default, some_of_isSome default (by decide +kernel),
      by decide +kernel⟩⟩

-- the SECOND case of `total` is inhabited too: offset (0,0) of the same block pulls back (through both
-- calls, intermediate address stored) to the sector (0,1,0,1), which `exB` does not store
example : ZeroAt exB [[[0, 1]], [[1, 2]]] 0 exBy2 [(1, 0), (1, 0)] [0, 0]
    ∧ exBy2.elem [(1, 0), (1, 0)] [0, 0] = 0 := by
  refine ⟨⟨0, exBy1, ⟨by decide, by decide, by decide, by decide, by decide +kernel⟩,
    ok_of_isOk exB (by decide +kernel),
    Or.inr ⟨[(0, 0), (1, 0), (0, 0), (1, 0)], [0, 0, 0, 0],
      1 * fuseSignT exBy1 [[1, 2]] [(1, 0), (0, 0), (1, 0)]
        * fuseSignT exB [[0, 1]] [(0, 0), (1, 0), (0, 0), (1, 0)], ?_, by decide +kernel⟩⟩,
    by decide +kernel⟩
  refine ⟨0, exBy1, [(1, 0), (0, 0), (1, 0)], [0, 0, 0], 1 * fuseSignT exBy1 [[1, 2]] [(1, 0), (0, 0), (1, 0)],
    (alookup exBy1.blocks [(1, 0), (0, 0), (1, 0)]).getD default, [([(0, 0), (1, 0)], [0, 0])],
    ⟨by decide, by decide, by decide, by decide, by decide +kernel⟩, ok_of_isOk exB (by decide +kernel),
    ?_, ?_⟩
  · refine ⟨1, exBy2, [(1, 0), (1, 0)], [0, 0], 1,
      (alookup exBy2.blocks [(1, 0), (1, 0)]).getD default, [([(0, 0), (1, 0)], [0, 0])],
      ⟨by decide, by decide, by decide, by decide, by decide +kernel⟩, ok_of_isOk exB (by decide +kernel),
      ⟨rfl, rfl, rfl⟩, ?_⟩
    refine ⟨some_of_isSome default (by decide +kernel), by decide +kernel, rfl, ?_, by decide +kernel,
      by decide +kernel, rfl, rfl, rfl⟩
    intro g gaxes hg
    match g with
    | 0 => decide +kernel
    | g + 1 => simp at hg
  · refine ⟨some_of_isSome default (by decide +kernel), by decide +kernel, rfl, ?_, by decide +kernel,
      by decide +kernel, rfl, rfl, rfl⟩
    intro g gaxes hg
    match g with
    | 0 => decide +kernel
    | g + 1 => simp at hg

-- fermionic: two fuse calls, (2,2,1,2,2) → (4,1,4)
example := reshape_stored_sector_has_source_fermionic (R := Int) exG5 [[[0, 1]], [[2, 3]]]
  (by decide +kernel) (by decide +kernel) (callsOk_of_B _ _ _ (by decide +kernel))
example := reshape_block_not_all_zero_filled_fermionic (R := Int) exG5 [[[0, 1]], [[2, 3]]]
  (by decide +kernel) (by decide +kernel) (callsOk_of_B _ _ _ (by decide +kernel)) (by decide +kernel)
example := fuse_stored_sector_has_source_fermionic (R := Int) exG5 [[0, 1]] 0 .concat false
  (by decide +kernel) (by decide +kernel) ⟨by decide, by decide, by decide, by decide, by decide +kernel⟩
-- both strategies give the stored blocks of the (4,4) result; `exB` stores 2 of its 6 sectors, so the
-- fused blocks have zero-filled parts
example : C05.view ([[[0, 1]], [[1, 2]]].foldlM (fun x G => fuseA x G .concat true) exB)
    = C05.view (applyPlan exB ([], [[[0, 1]], [[1, 2]]], [])) := by decide +kernel

end Examples

end SymmModel.C07
