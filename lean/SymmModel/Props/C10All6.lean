/- umbrella for property C10: involutions / adjoint laws (C10), single-array norm (C10b), network
   norm of two tensors: halves first (C10c), sequential bracketings under a guard (C10d), the six
   bracketings without guard (C10e), in any mode (C10f), mixed operand orders of the halves (C10g) -/
import SymmModel.Props.C10All5
import SymmModel.Props.C10g
