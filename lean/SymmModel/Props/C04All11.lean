/- Property C04 — umbrella incl. C04i (four-tensor networks with a contraction mode per call; label routes <= 4 labels). -/
import SymmModel.Props.C04All10
import SymmModel.Props.C04i
