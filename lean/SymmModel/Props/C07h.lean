/-
  Property C07, eighth part: inputs that ALREADY carry fused axes (densely or sparsely fused).

  The planner reads the sub-size table of the input through one question only — "do the sub-sizes
  of this fused axis equal the window of the requested shape that starts at the current target
  position?" (`Reshape.unfuseMatch`).  `noWinB newshape subsizes`: no fused axis' sub-sizes equal ANY
  window of the requested shape — the decidable hypothesis that excludes the known finding
  reshape-fused-window-match (its input (4,2) with sub-sizes (4,2): `noWinB = false`,
  `window_match_not_noWin`).

  (0) `planner_subs_congr`      two sub-size tables that answer all window questions alike give the
                                same plan (all shapes, all targets).
      `planner_nowin_unfused`   `noWinB` ⇒ the plan is the plan of the same shape without fused axes.
  (1) THE ROUND-TRIP CLAUSE for arrays with fused axes — valid array, ANY fused axes (nested, dense or
      sparse), positive sizes, `noWinB target a.subsizes` (way out) and `noWinB a.shape a.subsizes`
      (way back: the fused axes that are kept must not be taken for merged ones):
        `reshape_mergeDrop_roundtrip_fermionic_fused` / `_abelian_fused`
              merge adjacent axes and/or drop size-one axes (`MSeg`, as in C07g): BOTH reshapes
              succeed, the result is valid and has exactly the value view of the original (`VEq`:
              symmetry, kind, indices WITH their fused structure, charge, labels, every value).
        `reshape_roundtrip_fermionic_fused_items` / `_abelian_fused_items`   the planner's reading.
        `reshape_roundtrip_fermionic_fused_general` / `_abelian_fused_general`
              every target for which the planner returns a plan without expansion.
      The fuse calls of the way out may group fused axes (nested fusion); the way back unfuses
      exactly the axes the way out created (marked invariant, Proofs/ReshapeHb.lean).
      `noWinB a.shape a.subsizes` is needed: `roundtrip_fused_window_counterexample`.
  (2) THE FIRST CLAUSE for fused inputs without the density hypothesis of C07c:
        `planner_wf_nowin`              `noWinB`, positive sizes, equal products ⇒ whatever plan the
                                        planner returns is certified (`Plan.wfB`), has no unfuse step
        `reshape_content_fused`         abelian or fermionic: content up to signs (norm, multiset of
                                        magnitudes), valid, requested number of axes, same kind
        `reshape_content_abelian_fused` abelian: exact content, every axis ≤ requested
      (densely fused inputs WITH window matches are covered by `reshape_contentF` of C07c).
  (3) ELEMENT BY ELEMENT, SEVERAL FUSE CALLS (fermionic; fused inputs allowed):
        `reshape_forward_elem_fermionic_calls_partial` / `reshape_forward_elem_fermionic_items_partial`
      the plan succeeds, every intermediate array is a valid fermionic array and every call satisfies
      the one-call statement of C07g with respect to the array it is applied to (`ElemChain`); and
      end to end: `y.elem ns i = sgnI σ (a.elem s o)` whenever `(s, o, σ)` is the address of `(ns, i)`
      pulled back through all calls (`Pulled`: split the fused axes of each call, last call first;
      `σ` = product of the fuse signs `fuseSignT` of the source sectors) — along intermediate
      addresses that lie in STORED blocks.
      `_partial`: the full statement would say this for EVERY stored element of the result.  Missing:
      an intermediate address may fall into a sector the intermediate array does not store (a fused
      block is zero-filled where the source has no block); there the value is 0 on both sides, which
      needs "fuse stores a sector iff some source sector combining to it is stored" — not available
      as a lemma.
-/
import SymmModel.Proofs.ReshapeHd
import SymmModel.Props.C07g

namespace SymmModel.C07
open SymmModel SymmModel.Reshape SymmModel.Reshape3 SymmModel.Reshape5 SymmModel.ReshapeH ReshapeP FuseP

/-! ## (0) the planner and the sub-size table -/

/-- **the plan depends on the sub-sizes only through the window questions** -/
theorem planner_subs_congr (shape newshape : List Nat) (A B : List (Option (List Nat)))
    (hlen : A.length = B.length)
    (h : ∀ (i : Nat) (sa sb : Option (List Nat)), A[i]? = some sa → B[i]? = some sb →
      ∀ j, j < newshape.length → unfuseMatch newshape j sa = unfuseMatch newshape j sb) :
    calcReshapeArgs shape newshape A = calcReshapeArgs shape newshape B :=
  calcReshapeArgs_congr shape newshape A B ⟨hlen, h⟩

/-- **no window match ⇒ the planner treats the input as unfused** -/
theorem planner_nowin_unfused (shape newshape : List Nat) (subsizes : List (Option (List Nat)))
    (hlen : shape.length = subsizes.length) (h : noWinB newshape subsizes = true) :
    calcReshapeArgs shape newshape subsizes = calcReshapeArgs shape newshape (nones shape) :=
  planner_nowin_nones shape newshape subsizes hlen h

/-- the known finding's input is excluded by `noWinB`; densely and sparsely fused axes whose
    sub-sizes do not occur in the requested shape are not -/
theorem window_match_not_noWin :
    noWinB [4, 2] [some [4, 2], none] = false
    ∧ noWinB [8, 2] [some [4, 2], none] = true ∧ noWinB [16] [some [4, 2], none] = true
    ∧ noWinB [3, 3] [none, some [3, 2]] = true ∧ noWinB [9] [none, some [3, 2]] = true := by decide

/-! ## (1) there and back -/

variable {R : Type} [Zero R] [Neg R] [Lazy.LawfulNeg R]

/-- **`reshape` there and back, fermionic, fused axes allowed, every plan without expansion** -/
theorem reshape_roundtrip_fermionic_fused_general (a y : Arr R) (ns full : List Int) (nsN : List Nat)
    (t : List Nat × List (List (List Nat)) × List Nat)
    (hv : a.validB = true) (hf : a.fermi = true)
    (hpos : ∀ d ∈ a.shape, 0 < d) (hprod : prod a.shape = prod nsN)
    (hnw1 : noWinB nsN a.subsizes = true) (hnw2 : noWinB a.shape a.subsizes = true)
    (h1 : findFullReshape ns a.size = .ok full)
    (h2 : full.mapM (fun (d : Int) => if d < 0 then (throw Err.notimpl : Except Err Nat) else pure d.toNat)
      = .ok nsN)
    (h3 : calcReshapeArgs a.shape nsN a.subsizes = .ok t) (hexp : t.2.2 = [])
    (hy : reshapeArr a ns = .ok y) :
    ∃ z, reshapeArr y (a.shape.map Int.ofNat) = .ok z ∧ z.validB = true ∧ z.fermi = true ∧ VEq z a := by
  obtain ⟨z, hz, g, hvz⟩ := reshape_roundtrip_fused_generic (stepOK_F (R := R)) fuseOK_F hind_F
    (fun x G hx => by simp [fuseDispatch, hx.2]) hdisp_F a y ⟨hv, hf⟩ ns full nsN t hpos hprod hnw1 hnw2
    h1 h2 h3 hexp hy
  exact ⟨z, hz, g.1, g.2, hvz⟩

/-- … abelian -/
theorem reshape_roundtrip_abelian_fused_general (a y : Arr R) (ns full : List Int) (nsN : List Nat)
    (t : List Nat × List (List (List Nat)) × List Nat)
    (hv : a.validB = true) (hf : a.fermi = false)
    (hpos : ∀ d ∈ a.shape, 0 < d) (hprod : prod a.shape = prod nsN)
    (hnw1 : noWinB nsN a.subsizes = true) (hnw2 : noWinB a.shape a.subsizes = true)
    (h1 : findFullReshape ns a.size = .ok full)
    (h2 : full.mapM (fun (d : Int) => if d < 0 then (throw Err.notimpl : Except Err Nat) else pure d.toNat)
      = .ok nsN)
    (h3 : calcReshapeArgs a.shape nsN a.subsizes = .ok t) (hexp : t.2.2 = [])
    (hy : reshapeArr a ns = .ok y) :
    ∃ z, reshapeArr y (a.shape.map Int.ofNat) = .ok z ∧ z.validB = true ∧ z.fermi = false ∧ VEq z a := by
  obtain ⟨z, hz, g, hvz⟩ := reshape_roundtrip_fused_generic (stepOK_A (R := R)) fuseOK_A hind_A
    (fun x G hx => by simp [fuseDispatch, hx.2]) hdisp_A a y ⟨hv, hf⟩ ns full nsN t hpos hprod hnw1 hnw2
    h1 h2 h3 hexp hy
  exact ⟨z, hz, g.1, g.2, hvz⟩

/-- **`reshape` there and back, fermionic, fused axes allowed, unconditional** (merge / squeeze
    targets in the planner's reading): both reshapes succeed -/
theorem reshape_roundtrip_fermionic_fused_items (a : Arr R) (hv : a.validB = true) (hf : a.fermi = true)
    (items : List Item) (hshape : a.shape = shapeOf items) (hok : ItemsOk items)
    (hne : targetOf items ≠ []) (hpos : ∀ d ∈ a.shape, 0 < d)
    (hnw1 : noWinB (targetOf items) a.subsizes = true) (hnw2 : noWinB a.shape a.subsizes = true) :
    ∃ y z, reshapeArr a ((targetOf items).map Int.ofNat) = .ok y
      ∧ reshapeArr y (a.shape.map Int.ofNat) = .ok z ∧ z.validB = true ∧ z.fermi = true ∧ VEq z a := by
  obtain ⟨y, z, h1, h2, g, h3⟩ := reshape_roundtrip_items_fused_generic (stepOK_F (R := R)) fuseOK_F hind_F
    (fun x G hx => by simp [fuseDispatch, hx.2]) hdisp_F a ⟨hv, hf⟩ items hshape hok hne hpos hnw1 hnw2
  exact ⟨y, z, h1, h2, g.1, g.2, h3⟩

/-- … abelian -/
theorem reshape_roundtrip_abelian_fused_items (a : Arr R) (hv : a.validB = true) (hf : a.fermi = false)
    (items : List Item) (hshape : a.shape = shapeOf items) (hok : ItemsOk items)
    (hne : targetOf items ≠ []) (hpos : ∀ d ∈ a.shape, 0 < d)
    (hnw1 : noWinB (targetOf items) a.subsizes = true) (hnw2 : noWinB a.shape a.subsizes = true) :
    ∃ y z, reshapeArr a ((targetOf items).map Int.ofNat) = .ok y
      ∧ reshapeArr y (a.shape.map Int.ofNat) = .ok z ∧ z.validB = true ∧ z.fermi = false ∧ VEq z a := by
  obtain ⟨y, z, h1, h2, g, h3⟩ := reshape_roundtrip_items_fused_generic (stepOK_A (R := R)) fuseOK_A hind_A
    (fun x G hx => by simp [fuseDispatch, hx.2]) hdisp_A a ⟨hv, hf⟩ items hshape hok hne hpos hnw1 hnw2
  exact ⟨y, z, h1, h2, g.1, g.2, h3⟩

/-- **the round-trip clause, fermionic arrays with fused axes**: merging adjacent axes and/or
    dropping size-one axes, and back -/
theorem reshape_mergeDrop_roundtrip_fermionic_fused (a : Arr R) (hv : a.validB = true) (hf : a.fermi = true)
    (segs : List MSeg) (hok : ∀ s ∈ segs, MSegOk s) (hshape : a.shape = shapeS segs)
    (hne : targetS segs ≠ [])
    (hnw1 : noWinB (targetS segs) a.subsizes = true) (hnw2 : noWinB a.shape a.subsizes = true) :
    ∃ y z, reshapeArr a ((targetS segs).map Int.ofNat) = .ok y
      ∧ reshapeArr y (a.shape.map Int.ofNat) = .ok z ∧ z.validB = true ∧ z.fermi = true ∧ VEq z a := by
  obtain ⟨items, h1, h2, h3⟩ := normalise segs hok
  rw [← h3] at hne hnw1 ⊢
  exact reshape_roundtrip_fermionic_fused_items a hv hf items (by rw [hshape, h2]) h1 hne
    (by rw [hshape]; exact shapeS_pos segs hok) hnw1 hnw2

/-- **the round-trip clause, abelian arrays with fused axes** -/
theorem reshape_mergeDrop_roundtrip_abelian_fused (a : Arr R) (hv : a.validB = true) (hf : a.fermi = false)
    (segs : List MSeg) (hok : ∀ s ∈ segs, MSegOk s) (hshape : a.shape = shapeS segs)
    (hne : targetS segs ≠ [])
    (hnw1 : noWinB (targetS segs) a.subsizes = true) (hnw2 : noWinB a.shape a.subsizes = true) :
    ∃ y z, reshapeArr a ((targetS segs).map Int.ofNat) = .ok y
      ∧ reshapeArr y (a.shape.map Int.ofNat) = .ok z ∧ z.validB = true ∧ z.fermi = false ∧ VEq z a := by
  obtain ⟨items, h1, h2, h3⟩ := normalise segs hok
  rw [← h3] at hne hnw1 ⊢
  exact reshape_roundtrip_abelian_fused_items a hv hf items (by rw [hshape, h2]) h1 hne
    (by rw [hshape]; exact shapeS_pos segs hok) hnw1 hnw2

omit [Zero R] [Neg R] [Lazy.LawfulNeg R] in
/-- **the hypothesis on the way back is needed** (known finding reshape-fused-window-match): shape
    (4,2,3) whose first axis is sparsely fused from sizes (4,2).  The way out to (4,6) has no window
    match and merges axes (1,2); on the way back the planner takes the OLD fused axis for a merged
    one (its sub-sizes (4,2) are a window of (4,2,3)) and raises. -/
theorem roundtrip_fused_window_counterexample :
    noWinB [4, 6] [some [4, 2], none, none] = true ∧ noWinB [4, 2, 3] [some [4, 2], none, none] = false
    ∧ calcReshapeArgs [4, 2, 3] [4, 6] [some [4, 2], none, none] = .ok ([], [[[1, 2]]], [])
    ∧ calcReshapeArgs [4, 6] [4, 2, 3] [some [4, 2], some [2, 3]] = .error Err.value := by decide

/-! ## (2) the first clause, fused inputs without the density hypothesis -/

omit [Zero R] [Neg R] [Lazy.LawfulNeg R] in
/-- **the planner's plan is certified** for every fused input without a window match: positive
    sizes and equal products suffice (no `denseB`); the plan has no unfuse step and is the plan of
    the unfused shape -/
theorem planner_wf_nowin (shape newshape : List Nat) (subsizes : List (Option (List Nat)))
    (hlen : shape.length = subsizes.length) (hnw : noWinB newshape subsizes = true)
    (hpos : ∀ d ∈ shape, 0 < d) (hprod : prod shape = prod newshape)
    (t : List Nat × List (List (List Nat)) × List Nat)
    (h : calcReshapeArgs shape newshape subsizes = .ok t) :
    (Plan.ofTriple t).wfB shape subsizes newshape = true ∧ t.1 = []
      ∧ calcReshapeArgs shape newshape (nones shape) = .ok t :=
  ReshapeH.planner_wf_nowin shape newshape subsizes hlen hnw hpos hprod t h

omit [Lazy.LawfulNeg R] in
/-- **the first clause, any valid array with fused axes** (abelian or fermionic, dense or sparse):
    content up to signs, valid, requested number of axes, same kind -/
theorem reshape_content_fused (a r : Arr R) (ns full : List Int) (nsN : List Nat)
    (t : List Nat × List (List (List Nat)) × List Nat) (hv : a.validB = true)
    (hnw : noWinB nsN a.subsizes = true) (hpos : ∀ d ∈ a.shape, 0 < d)
    (hprod : prod a.shape = prod nsN)
    (h1 : findFullReshape ns a.size = .ok full)
    (h2 : full.mapM (fun (d : Int) => if d < 0 then (throw Err.notimpl : Except Err Nat) else pure d.toNat)
      = .ok nsN)
    (h3 : calcReshapeArgs a.shape nsN a.subsizes = .ok t)
    (h : reshapeArr a ns = .ok r) :
    SameAbs a r ∧ r.validB = true ∧ r.ndim = nsN.length ∧ r.fermi = a.fermi :=
  reshapeArr_abs a r ns full nsN t hv h1 h2 h3
    (ReshapeH.planner_wf_nowin a.shape nsN a.subsizes (shape_subsizes_length a) hnw hpos hprod t h3).1 h

omit [Lazy.LawfulNeg R] in
/-- **the first clause, abelian arrays with fused axes**: exact content, valid, requested number of
    axes, no axis larger than requested -/
theorem reshape_content_abelian_fused (a r : Arr R) (ns full : List Int) (nsN : List Nat)
    (t : List Nat × List (List (List Nat)) × List Nat) (hv : a.validB = true) (hf : a.fermi = false)
    (hnw : noWinB nsN a.subsizes = true) (hpos : ∀ d ∈ a.shape, 0 < d)
    (hprod : prod a.shape = prod nsN)
    (h1 : findFullReshape ns a.size = .ok full)
    (h2 : full.mapM (fun (d : Int) => if d < 0 then (throw Err.notimpl : Except Err Nat) else pure d.toNat)
      = .ok nsN)
    (h3 : calcReshapeArgs a.shape nsN a.subsizes = .ok t)
    (h : reshapeArr a ns = .ok r) :
    SameContent a r ∧ r.validB = true ∧ r.ndim = nsN.length
      ∧ List.Forall₂ (fun (d' d : Nat) => d' ≤ d) r.shape nsN :=
  reshape_axes_count a r ns full nsN t hv hf h1 h2 h3
    (ReshapeH.planner_wf_nowin a.shape nsN a.subsizes (shape_subsizes_length a) hnw hpos hprod t h3).1 h

/-! ## (3) element by element, several fuse calls -/

/-- **fermionic plan of several fuse calls, element by element** (`_partial`: along stored
    intermediate addresses, see the header).
    Full statement: for every stored block `ns` of `y` and every `i` in its box there is a pulled-back
    address `(s, o, σ)` with `y.elem ns i = sgnI σ (a.elem s o)`. -/
theorem reshape_forward_elem_fermionic_calls_partial (a : Arr R) (calls : List (List (List Nat)))
    (hv : a.validB = true) (hf : a.fermi = true) (hc : CallsOk calls 0 a.ndim) :
    ∃ y, applyPlan a ([], calls, []) = .ok y ∧ y.validB = true ∧ y.fermi = true
      ∧ ElemChain a calls 0 y
      ∧ ∀ ns i s o σ, Pulled a calls 0 y ns i s o σ → y.elem ns i = Lazy.sgnI σ (a.elem s o) := by
  obtain ⟨y, hy, hvy, hfy, hch⟩ := elem_chain calls a 0 hv hf hc
  exact ⟨y, by rw [applyPlan_calls]; exact hy, hvy, hfy, hch, elemChain_value calls a y 0 hch⟩

/-- **fermionic `reshape` to a merge / squeeze target, element by element** — any number of fuse
    calls, fused axes allowed (`_partial` as above) -/
theorem reshape_forward_elem_fermionic_items_partial (a : Arr R) (hv : a.validB = true)
    (hf : a.fermi = true) (items : List Item) (hshape : a.shape = shapeOf items) (hok : ItemsOk items)
    (hne : targetOf items ≠ []) (hpos : ∀ d ∈ a.shape, 0 < d)
    (hnw1 : noWinB (targetOf items) a.subsizes = true) :
    ∃ t y, calcReshapeArgs a.shape (targetOf items) a.subsizes = .ok t ∧ t.1 = [] ∧ t.2.2 = []
      ∧ reshapeArr a ((targetOf items).map Int.ofNat) = .ok y ∧ y.validB = true ∧ y.fermi = true
      ∧ ElemChain a t.2.1 0 y
      ∧ ∀ ns i s o σ, Pulled a t.2.1 0 y ns i s o σ → y.elem ns i = Lazy.sgnI σ (a.elem s o) :=
  forward_elem_items a hv hf items hshape hok hne hpos hnw1

/-! ## examples -/

section Examples
open C05

/-- `exA` (3,3,2) with axes (1,2) fused SPARSELY: shape (3,3), sub-sizes (3,2) -/
def exAfused : Arr Int := match fuseA exA [[1, 2]] with
  | .ok x => x
  | .error _ => exA

/-- the fermionic `exF` (3,3,2) with axes (1,2) fused sparsely -/
def exFfused : Arr Int := match Arr.fuseF exF [[1, 2]] .insert true with
  | .ok x => x
  | .error _ => exF

/-- `exA` with axes (0,1) fused and a size-one axis appended: (d,2,1), the fused axis is KEPT by the
    reshape to (d,2) -/
def exAkept : Arr Int := match fuseA exA [[0, 1]] with
  | .ok x => x.expandDims 2 none none
  | .error _ => exA

example : exAfused.shape = [3, 3] ∧ exAfused.subsizes = [none, some [3, 2]] ∧ exAfused.validB = true
    ∧ exAfused.fermi = false := by decide +kernel
example : exFfused.shape = [3, 3] ∧ exFfused.subsizes = [none, some [3, 2]] ∧ exFfused.validB = true
    ∧ exFfused.fermi = true := by decide +kernel

-- (3, 3⟨3,2⟩) → (9) → (3, 3⟨3,2⟩): the fused axis is merged (nested fusion) and comes back fused
example := reshape_mergeDrop_roundtrip_abelian_fused (R := Int) exAfused (by decide +kernel) (by decide +kernel)
  [.run [3, 3]] (by decide) (by decide +kernel) (by decide) (by decide +kernel) (by decide +kernel)
example := reshape_mergeDrop_roundtrip_fermionic_fused (R := Int) exFfused (by decide +kernel) (by decide +kernel)
  [.run [3, 3]] (by decide) (by decide +kernel) (by decide) (by decide +kernel) (by decide +kernel)

-- (6⟨3,3⟩, 2, 1) → (6⟨3,3⟩, 2) → back: the sparsely fused axis is KEPT on both ways
example : exAkept.shape = [6, 2, 1] ∧ exAkept.subsizes = [some [3, 3], none, none]
    ∧ shapeOf [.K 6, .K 2, .Sq] = [6, 2, 1] ∧ targetOf [.K 6, .K 2, .Sq] = [6, 2] := by decide +kernel
example := reshape_roundtrip_abelian_fused_items (R := Int) exAkept (by decide +kernel) (by decide +kernel)
  [.K 6, .K 2, .Sq] (by decide +kernel) (by decide) (by decide) (by decide +kernel) (by decide +kernel)
  (by decide +kernel)
-- the first clause on a sparsely fused input (`denseB` fails, `noWinB` holds)
example : denseB exAfused.shape exAfused.subsizes = false := by decide +kernel
example := reshape_content_abelian_fused (R := Int) exAfused _ [9] [9] [9] _ (by decide +kernel)
  (by decide +kernel) (by decide +kernel) (by decide +kernel) (by decide +kernel) rfl rfl rfl rfl
example := reshape_content_fused (R := Int) exFfused _ [-1] [9] [9] _ (by decide +kernel)
  (by decide +kernel) (by decide +kernel) (by decide +kernel) (by decide +kernel) (by decide +kernel)
  rfl rfl
example := planner_wf_nowin [6, 2, 1] [6, 2] [some [3, 3], none, none] rfl (by decide) (by decide)
  (by decide) _ rfl

/-- `exG` (2,2,2,2) with a size-one axis in the middle: (2,2,1,2,2) → (4,1,4) needs TWO fuse calls -/
def exG5 : Arr Int := exG.expandDims 2 none none

example : exG5.shape = [2, 2, 1, 2, 2] ∧ exG5.validB = true ∧ exG5.fermi = true
    ∧ calcReshapeArgs exG5.shape [4, 1, 4] exG5.subsizes = .ok ([], [[[0, 1]], [[2, 3]]], []) := by
  decide +kernel
example := reshape_forward_elem_fermionic_items_partial (R := Int) exG5 (by decide +kernel) (by decide +kernel)
  [.M 2 [] 2, .K 1, .M 2 [] 2] (by decide +kernel) (by decide) (by decide) (by decide +kernel)
  (by decide +kernel)
example := reshape_forward_elem_fermionic_calls_partial (R := Int) exG5 [[[0, 1]], [[2, 3]]]
  (by decide +kernel) (by decide +kernel)
  (callsOk_of_B _ _ _ (by decide +kernel))

-- a pulled-back address through BOTH calls (the `Pulled` hypothesis is satisfiable): the element of
-- the result at sector (1,0,1), offset (1,0,0) is the element of `exG5` at sector (1,0,0,0,1),
-- offset 0, sign +1; both are -9
theorem ok_of_isOk {α : Type} {e : Except Err α} (d : α)
    (h : (match e with | .ok _ => true | .error _ => false) = true) :
    e = .ok (match e with | .ok x => x | .error _ => d) := by
  cases e with
  | ok x => rfl
  | error _ => cases h

theorem some_of_isSome {α : Type} {o : Option α} (d : α) (h : o.isSome = true) : o = some (o.getD d) := by
  cases o with
  | some x => rfl
  | none => cases h

def exG5y1 : Arr Int := match fuseDispatch exG5 [[0, 1]] with | .ok x => x | .error _ => exG5
def exG5y2 : Arr Int := match fuseDispatch exG5y1 [[2, 3]] with | .ok x => x | .error _ => exG5

example : Pulled exG5 [[[0, 1]], [[2, 3]]] 0 exG5y2 [(1, 0), (0, 0), (1, 0)] [1, 0, 0]
      [(1, 0), (0, 0), (0, 0), (0, 0), (1, 0)] [0, 0, 0, 0, 0] 1
    ∧ exG5y2.elem [(1, 0), (0, 0), (1, 0)] [1, 0, 0] = -9
    ∧ exG5.elem [(1, 0), (0, 0), (0, 0), (0, 0), (1, 0)] [0, 0, 0, 0, 0] = -9 := by
  refine ⟨?_, by decide +kernel, by decide +kernel⟩
  refine ⟨0, exG5y1, [(1, 0), (0, 0), (0, 0), (1, 0)], [1, 0, 0, 0], 1,
    (alookup exG5y1.blocks [(1, 0), (0, 0), (0, 0), (1, 0)]).getD default, [([(1, 0), (0, 0)], [0, 0])],
    ⟨by decide, by decide, by decide, by decide, by decide +kernel⟩, ok_of_isOk exG5 (by decide +kernel),
    ?_, ?_⟩
  · refine ⟨2, exG5y2, [(1, 0), (0, 0), (1, 0)], [1, 0, 0], 1,
      (alookup exG5y2.blocks [(1, 0), (0, 0), (1, 0)]).getD default, [([(0, 0), (1, 0)], [0, 0])],
      ⟨by decide, by decide, by decide, by decide, by decide +kernel⟩, ok_of_isOk exG5 (by decide +kernel),
      ⟨rfl, rfl, rfl⟩, ?_⟩
    refine ⟨some_of_isSome default (by decide +kernel), by decide +kernel, rfl, ?_, by decide +kernel,
      by decide +kernel, rfl, rfl, by decide +kernel⟩
    intro g gaxes hg
    match g with
    | 0 => decide +kernel
    | g + 1 => simp at hg
  · refine ⟨some_of_isSome default (by decide +kernel), by decide +kernel, rfl, ?_, by decide +kernel,
      by decide +kernel, rfl, rfl, by decide +kernel⟩
    intro g gaxes hg
    match g with
    | 0 => decide +kernel
    | g + 1 => simp at hg

end Examples

end SymmModel.C07
