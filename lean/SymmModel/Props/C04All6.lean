import SymmModel.Props.C04All5
import SymmModel.Props.C04f
