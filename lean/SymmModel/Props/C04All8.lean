/- Umbrella for property C04: C04All7 plus C06e (every bracketing of an n-tensor chain in every contraction mode). -/
import SymmModel.Props.C04All7
import SymmModel.Props.C06All4
