/-
  Property C11 — umbrella: everything in C11All3 plus C11f (truncated / absorbed factors through
  `tensordot` in every mode; orthonormality / triangularity of the factors' blocks).
-/
import SymmModel.Props.C11All3
import SymmModel.Props.C11f
