import SymmModel.Props.C05All6
import SymmModel.Props.C05i
