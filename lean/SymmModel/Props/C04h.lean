/-
  Property C04 (route independence) — four-tensor networks that are NOT chains: the 4-cycle
  (square), the star, the triangle with a pendant tensor and the complete graph K4, all at once; and
  S4 (order in which the contracted axis pairs are listed) under the weak guard.
  MODEL: `Arr.tensordotF` (Model/Fermi.lean), `mode = blockwise`; valid fermionic tensors of any
  rank, symmetry, sparsity, parity, pending signs; scalars as in C04c–g (`AddCommMonoid`, `SignRing`,
  `AssocP.AssocLaws`; instances `Int`, `GRat`).

  SETTING.  Four tensors `A, B, C, D` and, for EVERY pair, a (possibly empty) list of bonded legs:
  `ab ~ ba` (legs of `A` bonded to legs of `B`, matched in order), `ac ~ ca`, `ad ~ da`, `bc ~ cb`,
  `bd ~ db`, `cd ~ dc`; the three lists of one tensor are disjoint, arbitrary positions, arbitrary
  dangling legs.  Every pair satisfies the weak guard `tdotAdmissibleCommonB` (for an empty bond
  this only says "same symmetry", `adm_nil`).  Special cases: square `ac = ca = bd = db = []`; star
  with centre `B`: only `ab, bc, bd`; triangle `A, B, C` with pendant `D`: `ad = bd = []`; chain.
  When two sub-networks meet, ALL bonds between them are contracted in that one call.

  PROVED (no `_partial`):
    `tdotF_axes_perm_weak`   S4 (`C04.tdotF_axes_perm`) under the weak guard, i.e. for intermediate
                             results: re-listing the axis pairs along a permutation gives the
                             IDENTICAL result (same `Except` value);
    `tdotF_axes_pairs_weak`  S4 in its general form: any two listings with the same multiset of
                             axis PAIRS give the identical result;
    `net4_bracketings`       the five bracketings `((AB)C)D`, `(A(BC))D`, `(AB)(CD)`, `A((BC)D)`,
                             `A(B(CD))` (`route1 … route5`, each a program of three calls) all
                             succeed and their results are pairwise `Eqv` (C04e: same labels, charge,
                             index tables, sector set, values); `T1` valid;
    `net4_dense`             for GIVEN results of the five routes: same `to_dense()`, labels,
                             charge, index tables;
    `net4_GRat`              with the driver's instances;
    `square4_bracketings`, `star4_bracketings`, `pendant4_bracketings`   the named special cases
                             (non-bonded pairs need no hypothesis: equal symmetry follows from the
                             bonded ones);
    `net4_flagged`           OPERAND ORDER at any of the calls (commutative scalars): each of the
                             fifteen calls of the five routes carries a Boolean flag; a flagged call
                             is made with the operands exchanged and followed by the `transposeF`
                             that rotates the two free blocks back (`callS`, C04g `compS`); for ANY
                             assignment of flags the five routes succeed and are `Eqv` to the
                             unflagged `route1`.
  Since `A, B, C, D` and the twelve lists are arbitrary, the theorems apply to every ordering of
  four given tensors (e.g. to `A, C, B, D`: bracketings `(AC)(BD)`, `((AC)B)D`, …).
  NOT proved: that the results for two different ORDERINGS of the four tensors agree up to the
  block transposition of the result legs (e.g. `(AC)(BD)` against `(AB)(CD)`).  With S7, S5
  (`tdotF_swap_eqv`) and congruence this reduces to ONE missing lemma: S6 (pre-transposition of an
  operand, `tdotF_pretranspose_weak`, today address-wise) as an `Eqv` statement
  `(X.transposeF p)·Y  Eqv  (X·Y).transposeF (q ++ id)` together with `Eqv`-congruence of
  `transposeF`; then `(X·Y)·Z → X·(Y·Z) → X·(Z·Y)ᵗ → (X·Z)·Y` exchanges two neighbours.  Also not
  proved: `n > 4` tensors with arbitrary graphs (the induction of C04f over bracketing trees with
  multi-bond pieces), and `LabelRoutes` for more than two labels per tensor.
-/
import SymmModel.Proofs.Net4Flag
import SymmModel.Props.C04g

namespace SymmModel.C04
open SymmModel SymmModel.GradedP SymmModel.TdotP SymmModel.RoutesP SymmModel.AssocP SymmModel.Assoc3P
  SymmModel.Assoc5P SymmModel.Net4P

variable {R : Type}

/-! ## S4 under the weak guard -/

/-- **S4 under the weak guard** -/
theorem tdotF_axes_perm_weak [AddCommMonoid R] [Mul R] [Neg R] [SignRing R] (a b : Arr R)
    (xa xb π : List Nat)
    (ha : a.validB = true) (hb : b.validB = true) (hfa : a.fermi = true) (hfb : b.fermi = true)
    (hadm : tdotAdmissibleCommonB a b xa xb = true) (hπ : π.Perm (List.range xa.length)) :
    tdF a b (permuted xa π) (permuted xb π) = tdF a b xa xb :=
  tdotF_axes_perm_w a b xa xb π (AdmW.of ha hb hfa hfb hadm) hπ

/-- **S4, general form**: the same axis pairs in any order -/
theorem tdotF_axes_pairs_weak [AddCommMonoid R] [Mul R] [Neg R] [SignRing R] (a b : Arr R)
    (xa xb xa' xb' : List Nat)
    (ha : a.validB = true) (hb : b.validB = true) (hfa : a.fermi = true) (hfb : b.fermi = true)
    (hadm : tdotAdmissibleCommonB a b xa xb = true) (hl : xa'.length = xb'.length)
    (hp : (xa'.zip xb').Perm (xa.zip xb)) :
    tdF a b xa' xb' = tdF a b xa xb :=
  tdotF_axes_pairs_w a b xa xb xa' xb' (AdmW.of ha hb hfa hfb hadm) hl hp

example : ([2, 0].zip [1, 3]).Perm ([0, 2].zip [3, 1]) ∧ ([2, 0] : List Nat).length = [1, 3].length :=
  ⟨List.Perm.swap _ _ _, rfl⟩

/-- an empty bond is admissible between tensors of the same symmetry -/
theorem adm_nil (a b : Arr R) (h : a.sym = b.sym) : tdotAdmissibleCommonB a b [] [] = true := by
  unfold tdotAdmissibleCommonB contractibleCommonB
  simp [h, allDistinct]

/-- the guard contains the equality of the symmetries -/
theorem adm_sym {a b : Arr R} {xa xb : List Nat} (h : tdotAdmissibleCommonB a b xa xb = true) :
    a.sym = b.sym := by
  unfold tdotAdmissibleCommonB at h
  simp only [Bool.and_eq_true, decide_eq_true_eq] at h
  exact h.1.1.1.1.1

/-! ## the five routes -/

section routes
variable [Zero R] [Add R] [Mul R] [Neg R]
variable (A B C D : Arr R) (ab ac ad ba bc bd ca cb cd da db dc : List Nat)

/-- `((A·B)·C)·D` -/
def route1 : Except Err (Arr R) := routeS1 A B C D ab ac ad ba bc bd ca cb cd da db dc false false false
/-- `(A·(B·C))·D` -/
def route2 : Except Err (Arr R) := routeS2 A B C D ab ac ad ba bc bd ca cb cd da db dc false false false
/-- `(A·B)·(C·D)` -/
def route3 : Except Err (Arr R) := routeS3 A B C D ab ac ad ba bc bd ca cb cd da db dc false false false
/-- `A·((B·C)·D)` -/
def route4 : Except Err (Arr R) := routeS4 A B C D ab ac ad ba bc bd ca cb cd da db dc false false false
/-- `A·(B·(C·D))` -/
def route5 : Except Err (Arr R) := routeS5 A B C D ab ac ad ba bc bd ca cb cd da db dc false false false

/-- a (possibly flagged) call -/
theorem callS_def (X Y : Arr R) (xa xb : List Nat) :
    callS false X Y xa xb = tdF X Y xa xb
    ∧ callS true X Y xa xb = (tdF Y X xb xa).map (fun z =>
        z.transposeF (rotB (freeAxes Y.ndim xb).length (freeAxes X.ndim xa).length)) := ⟨rfl, rfl⟩

/-- the five routes as programs of three calls; the axis lists of the later calls are the images
    of the bonded legs in the intermediate results (`Assoc2P.axesAB/axesBC`, C04d) -/
theorem routeS_defs (f1 f2 f3 : Bool) :
    routeS1 A B C D ab ac ad ba bc bd ca cb cd da db dc f1 f2 f3
      = ((callS f1 A B ab ba).bind fun AB =>
        (callS f2 AB C (Assoc2P.axesAB A.ndim B.ndim ab ac ba bc) (ca ++ cb)).bind fun ABC =>
        callS f3 ABC D (axesABC_D A B C ab ac ad ba bc bd ca cb cd) ((da ++ db) ++ dc))
    ∧ routeS2 A B C D ab ac ad ba bc bd ca cb cd da db dc f1 f2 f3
      = ((callS f1 B C bc cb).bind fun BC =>
        (callS f2 A BC (ab ++ ac) (Assoc2P.axesBC B.ndim C.ndim ba bc cb ca)).bind fun ABC =>
        callS f3 ABC D (axesABC_D A B C ab ac ad ba bc bd ca cb cd) ((da ++ db) ++ dc))
    ∧ routeS3 A B C D ab ac ad ba bc bd ca cb cd da db dc f1 f2 f3
      = ((callS f1 A B ab ba).bind fun AB =>
        (callS f2 C D cd dc).bind fun CD =>
        callS f3 AB CD
          (Assoc2P.axesAB A.ndim B.ndim ab ac ba bc ++ Assoc2P.axesAB A.ndim B.ndim ab ad ba bd)
          (Assoc2P.axesBC C.ndim D.ndim (ca ++ cb) cd dc (da ++ db)))
    ∧ routeS4 A B C D ab ac ad ba bc bd ca cb cd da db dc f1 f2 f3
      = ((callS f1 B C bc cb).bind fun BC =>
        (callS f2 BC D (Assoc2P.axesAB B.ndim C.ndim bc bd cb cd) (db ++ dc)).bind fun BCD =>
        callS f3 A BCD (ab ++ (ac ++ ad)) (axesBCD_A B C D ba bc bd ca cb cd da db dc))
    ∧ routeS5 A B C D ab ac ad ba bc bd ca cb cd da db dc f1 f2 f3
      = ((callS f1 C D cd dc).bind fun CD =>
        (callS f2 B CD (bc ++ bd) (Assoc2P.axesBC C.ndim D.ndim cb cd dc db)).bind fun BCD =>
        callS f3 A BCD (ab ++ (ac ++ ad)) (axesBCD_A B C D ba bc bd ca cb cd da db dc)) :=
  ⟨rfl, rfl, rfl, rfl, rfl⟩

omit [Zero R] [Add R] [Mul R] [Neg R] in
theorem axes_defs :
    axesABC_D A B C ab ac ad ba bc bd ca cb cd
      = Assoc2P.axesAB ((freeAxes A.ndim ab).length + (freeAxes B.ndim ba).length) C.ndim
          (Assoc2P.axesAB A.ndim B.ndim ab ac ba bc) (Assoc2P.axesAB A.ndim B.ndim ab ad ba bd)
          (ca ++ cb) cd
    ∧ axesBCD_A B C D ba bc bd ca cb cd da db dc
      = Assoc2P.axesBC B.ndim ((freeAxes C.ndim cd).length + (freeAxes D.ndim dc).length) ba (bc ++ bd)
          (Assoc2P.axesBC C.ndim D.ndim cb cd dc db) (Assoc2P.axesBC C.ndim D.ndim ca cd dc da) :=
  ⟨rfl, rfl⟩

end routes

/-- **net4_bracketings.**  Four valid fermionic tensors with pairwise-distinct labels, a bond
    (possibly empty) between every pair under the weak guard, the three bonds of each tensor
    disjoint: the five bracketings succeed and agree. -/
theorem net4_bracketings [AddCommMonoid R] [Mul R] [Neg R] [SignRing R] [AssocLaws R]
    (A B C D : Arr R) (ab ac ad ba bc bd ca cb cd da db dc : List Nat)
    (hA : A.validB = true) (hB : B.validB = true) (hC : C.validB = true) (hD : D.validB = true)
    (hfA : A.fermi = true) (hfB : B.fermi = true) (hfC : C.fermi = true) (hfD : D.fermi = true)
    (gAB : tdotAdmissibleCommonB A B ab ba = true) (gAC : tdotAdmissibleCommonB A C ac ca = true)
    (gAD : tdotAdmissibleCommonB A D ad da = true) (gBC : tdotAdmissibleCommonB B C bc cb = true)
    (gBD : tdotAdmissibleCommonB B D bd db = true) (gCD : tdotAdmissibleCommonB C D cd dc = true)
    (hnA : (ab ++ ac ++ ad).Nodup) (hnB : (ba ++ bc ++ bd).Nodup)
    (hnC : (ca ++ cb ++ cd).Nodup) (hnD : (da ++ db ++ dc).Nodup)
    (hd : (A.oddpos ++ B.oddpos ++ C.oddpos ++ D.oddpos).Pairwise (fun x y => x.1 ≠ y.1)) :
    ∃ T1 T2 T3 T4 T5 : Arr R,
      route1 A B C D ab ac ad ba bc bd ca cb cd da db dc = .ok T1
      ∧ route2 A B C D ab ac ad ba bc bd ca cb cd da db dc = .ok T2
      ∧ route3 A B C D ab ac ad ba bc bd ca cb cd da db dc = .ok T3
      ∧ route4 A B C D ab ac ad ba bc bd ca cb cd da db dc = .ok T4
      ∧ route5 A B C D ab ac ad ba bc bd ca cb cd da db dc = .ok T5
      ∧ Eqv T2 T1 ∧ Eqv T3 T1 ∧ Eqv T4 T1 ∧ Eqv T5 T1 ∧ T1.validB = true := by
  obtain ⟨AB, BC, CD, ABC1, ABC2, BCD1, BCD2, T1, T2, T3, T4, T5, e1, e2, e3, e4, e5, e6, e7, e8, e9,
    e10, e11, e12, q2, q3, q4, q5, hv⟩ :=
    k4 A B C D ab ac ad ba bc bd ca cb cd da db dc (AdmW.of hA hB hfA hfB gAB)
      (AdmW.of hA hC hfA hfC gAC) (AdmW.of hA hD hfA hfD gAD) (AdmW.of hB hC hfB hfC gBC)
      (AdmW.of hB hD hfB hfD gBD) (AdmW.of hC hD hfC hfD gCD) hnA hnB hnC hnD hd
  refine ⟨T1, T2, T3, T4, T5, ?_, ?_, ?_, ?_, ?_, q2, q3, q4, q5, hv⟩
  · unfold route1 routeS1 callS axesABC_D; simp only []
    rw [e1]; simp only [Except.bind]; rw [e4]; exact e8
  · unfold route2 routeS2 callS axesABC_D; simp only []
    rw [e2]; simp only [Except.bind]; rw [e5]; exact e9
  · unfold route3 routeS3 callS; simp only []
    rw [e1]; simp only [Except.bind]; rw [e3]; exact e10
  · unfold route4 routeS4 callS axesBCD_A; simp only []
    rw [e2]; simp only [Except.bind]; rw [e6]; exact e11
  · unfold route5 routeS5 callS axesBCD_A; simp only []
    rw [e3]; simp only [Except.bind]; rw [e7]; exact e12

/-- **net4_dense.**  For GIVEN results of the five routes: the same `to_dense()`, labels, charge,
    index tables. -/
theorem net4_dense [AddCommMonoid R] [Mul R] [Neg R] [SignRing R] [AssocLaws R]
    (A B C D T1 T2 T3 T4 T5 : Arr R) (ab ac ad ba bc bd ca cb cd da db dc : List Nat)
    (hA : A.validB = true) (hB : B.validB = true) (hC : C.validB = true) (hD : D.validB = true)
    (hfA : A.fermi = true) (hfB : B.fermi = true) (hfC : C.fermi = true) (hfD : D.fermi = true)
    (gAB : tdotAdmissibleCommonB A B ab ba = true) (gAC : tdotAdmissibleCommonB A C ac ca = true)
    (gAD : tdotAdmissibleCommonB A D ad da = true) (gBC : tdotAdmissibleCommonB B C bc cb = true)
    (gBD : tdotAdmissibleCommonB B D bd db = true) (gCD : tdotAdmissibleCommonB C D cd dc = true)
    (hnA : (ab ++ ac ++ ad).Nodup) (hnB : (ba ++ bc ++ bd).Nodup)
    (hnC : (ca ++ cb ++ cd).Nodup) (hnD : (da ++ db ++ dc).Nodup)
    (hd : (A.oddpos ++ B.oddpos ++ C.oddpos ++ D.oddpos).Pairwise (fun x y => x.1 ≠ y.1))
    (r1 : route1 A B C D ab ac ad ba bc bd ca cb cd da db dc = .ok T1)
    (r2 : route2 A B C D ab ac ad ba bc bd ca cb cd da db dc = .ok T2)
    (r3 : route3 A B C D ab ac ad ba bc bd ca cb cd da db dc = .ok T3)
    (r4 : route4 A B C D ab ac ad ba bc bd ca cb cd da db dc = .ok T4)
    (r5 : route5 A B C D ab ac ad ba bc bd ca cb cd da db dc = .ok T5) :
    (∀ T ∈ [T2, T3, T4, T5], T.toDenseF = T1.toDenseF ∧ T.oddpos = T1.oddpos ∧ T.charge = T1.charge
      ∧ T.indices = T1.indices) := by
  obtain ⟨U1, U2, U3, U4, U5, d1, d2, d3, d4, d5, q2, q3, q4, q5, hv⟩ :=
    net4_bracketings A B C D ab ac ad ba bc bd ca cb cd da db dc hA hB hC hD hfA hfB hfC hfD
      gAB gAC gAD gBC gBD gCD hnA hnB hnC hnD hd
  rw [r1] at d1; obtain rfl := Except.ok.inj d1
  rw [r2] at d2; obtain rfl := Except.ok.inj d2
  rw [r3] at d3; obtain rfl := Except.ok.inj d3
  rw [r4] at d4; obtain rfl := Except.ok.inj d4
  rw [r5] at d5; obtain rfl := Except.ok.inj d5
  have key : ∀ T : Arr R, Eqv T T1 → T.toDenseF = T1.toDenseF ∧ T.oddpos = T1.oddpos
      ∧ T.charge = T1.charge ∧ T.indices = T1.indices :=
    fun T q => ⟨(q.symm.toDenseF hv).symm, q.oddpos, q.charge, q.indices⟩
  intro T hT
  simp only [List.mem_cons, List.not_mem_nil, or_false] at hT
  rcases hT with rfl | rfl | rfl | rfl
  · exact key _ q2
  · exact key _ q3
  · exact key _ q4
  · exact key _ q5

/-- `net4_bracketings` with exactly the instances the driver is compiled with (outermost routes) -/
theorem net4_GRat (A B C D : Arr GRat) (ab ac ad ba bc bd ca cb cd da db dc : List Nat)
    (hA : A.validB = true) (hB : B.validB = true) (hC : C.validB = true) (hD : D.validB = true)
    (hfA : A.fermi = true) (hfB : B.fermi = true) (hfC : C.fermi = true) (hfD : D.fermi = true)
    (gAB : tdotAdmissibleCommonB A B ab ba = true) (gAC : tdotAdmissibleCommonB A C ac ca = true)
    (gAD : tdotAdmissibleCommonB A D ad da = true) (gBC : tdotAdmissibleCommonB B C bc cb = true)
    (gBD : tdotAdmissibleCommonB B D bd db = true) (gCD : tdotAdmissibleCommonB C D cd dc = true)
    (hnA : (ab ++ ac ++ ad).Nodup) (hnB : (ba ++ bc ++ bd).Nodup)
    (hnC : (ca ++ cb ++ cd).Nodup) (hnD : (da ++ db ++ dc).Nodup)
    (hd : (A.oddpos ++ B.oddpos ++ C.oddpos ++ D.oddpos).Pairwise (fun x y => x.1 ≠ y.1)) :
    ∃ T1 T3 T5 : Arr GRat,
      @route1 GRat GRat.instZero GRat.instAdd GRat.instMul GRat.instNeg A B C D
          ab ac ad ba bc bd ca cb cd da db dc = .ok T1
      ∧ @route3 GRat GRat.instZero GRat.instAdd GRat.instMul GRat.instNeg A B C D
          ab ac ad ba bc bd ca cb cd da db dc = .ok T3
      ∧ @route5 GRat GRat.instZero GRat.instAdd GRat.instMul GRat.instNeg A B C D
          ab ac ad ba bc bd ca cb cd da db dc = .ok T5
      ∧ @Eqv GRat GRat.instZero GRat.instNeg T3 T1 ∧ @Eqv GRat GRat.instZero GRat.instNeg T5 T1
      ∧ @Arr.toDenseF GRat GRat.instZero GRat.instNeg T5
          = @Arr.toDenseF GRat GRat.instZero GRat.instNeg T1 := by
  obtain ⟨T1, T2, T3, T4, T5, d1, d2, d3, d4, d5, q2, q3, q4, q5, hv⟩ :=
    @net4_bracketings GRat C02.addCommMonoidGRat GRat.instMul GRat.instNeg C03.signRingGRat
      assocLawsGRat A B C D ab ac ad ba bc bd ca cb cd da db dc hA hB hC hD hfA hfB hfC hfD
      gAB gAC gAD gBC gBD gCD hnA hnB hnC hnD hd
  exact ⟨T1, T3, T5, d1, d3, d5, q3, q5,
    (@Eqv.toDenseF GRat C02.addCommMonoidGRat GRat.instMul GRat.instNeg C03.signRingGRat _ _ q5.symm
      hv).symm⟩

/-! ## operand order at any call -/

/-- **net4_flagged.**  Commutative scalars.  Each of the fifteen calls of the five routes may be made
    with the operands exchanged and rotated back (`callS true`): for every assignment `f` of the
    flags all five routes succeed, give valid arrays, and are `Eqv` to the plain left-nested
    result `T1`. -/
theorem net4_flagged [AddCommMonoid R] [Mul R] [Neg R] [SignRing R] [AssocLaws R]
    (hmul : ∀ x y : R, x * y = y * x)
    (A B C D : Arr R) (ab ac ad ba bc bd ca cb cd da db dc : List Nat)
    (hA : A.validB = true) (hB : B.validB = true) (hC : C.validB = true) (hD : D.validB = true)
    (hfA : A.fermi = true) (hfB : B.fermi = true) (hfC : C.fermi = true) (hfD : D.fermi = true)
    (gAB : tdotAdmissibleCommonB A B ab ba = true) (gAC : tdotAdmissibleCommonB A C ac ca = true)
    (gAD : tdotAdmissibleCommonB A D ad da = true) (gBC : tdotAdmissibleCommonB B C bc cb = true)
    (gBD : tdotAdmissibleCommonB B D bd db = true) (gCD : tdotAdmissibleCommonB C D cd dc = true)
    (hnA : (ab ++ ac ++ ad).Nodup) (hnB : (ba ++ bc ++ bd).Nodup)
    (hnC : (ca ++ cb ++ cd).Nodup) (hnD : (da ++ db ++ dc).Nodup)
    (hd : (A.oddpos ++ B.oddpos ++ C.oddpos ++ D.oddpos).Pairwise (fun x y => x.1 ≠ y.1)) :
    ∃ T1 : Arr R, route1 A B C D ab ac ad ba bc bd ca cb cd da db dc = .ok T1 ∧ T1.validB = true
      ∧ ∀ f : Fin 15 → Bool, ∃ U1 U2 U3 U4 U5 : Arr R,
        routeS1 A B C D ab ac ad ba bc bd ca cb cd da db dc (f 0) (f 1) (f 2) = .ok U1
        ∧ routeS2 A B C D ab ac ad ba bc bd ca cb cd da db dc (f 3) (f 4) (f 5) = .ok U2
        ∧ routeS3 A B C D ab ac ad ba bc bd ca cb cd da db dc (f 6) (f 7) (f 8) = .ok U3
        ∧ routeS4 A B C D ab ac ad ba bc bd ca cb cd da db dc (f 9) (f 10) (f 11) = .ok U4
        ∧ routeS5 A B C D ab ac ad ba bc bd ca cb cd da db dc (f 12) (f 13) (f 14) = .ok U5
        ∧ Eqv U1 T1 ∧ Eqv U2 T1 ∧ Eqv U3 T1 ∧ Eqv U4 T1 ∧ Eqv U5 T1
        ∧ U1.validB = true ∧ U2.validB = true ∧ U3.validB = true ∧ U4.validB = true
        ∧ U5.validB = true :=
  k4_flagged hmul A B C D ab ac ad ba bc bd ca cb cd da db dc (AdmW.of hA hB hfA hfB gAB)
    (AdmW.of hA hC hfA hfC gAC) (AdmW.of hA hD hfA hfD gAD) (AdmW.of hB hC hfB hfC gBC)
    (AdmW.of hB hD hfB hfD gBD) (AdmW.of hC hD hfC hfD gCD) hnA hnB hnC hnD hd

/-! ## the named special cases -/

/-- the conclusion of `net4_bracketings` for five given programs -/
def Agree5 [Zero R] [Neg R] (r1 r2 r3 r4 r5 : Except Err (Arr R)) : Prop :=
  ∃ T1 T2 T3 T4 T5 : Arr R, r1 = .ok T1 ∧ r2 = .ok T2 ∧ r3 = .ok T3 ∧ r4 = .ok T4 ∧ r5 = .ok T5
    ∧ Eqv T2 T1 ∧ Eqv T3 T1 ∧ Eqv T4 T1 ∧ Eqv T5 T1 ∧ T1.validB = true

theorem agree5_def [Zero R] [Neg R] (r1 r2 r3 r4 r5 : Except Err (Arr R)) :
    Agree5 r1 r2 r3 r4 r5 ↔ ∃ T1 T2 T3 T4 T5 : Arr R, r1 = .ok T1 ∧ r2 = .ok T2 ∧ r3 = .ok T3
      ∧ r4 = .ok T4 ∧ r5 = .ok T5 ∧ Eqv T2 T1 ∧ Eqv T3 T1 ∧ Eqv T4 T1 ∧ Eqv T5 T1
      ∧ T1.validB = true := Iff.rfl

/-- **the 4-cycle** `A–B–C–D–A` (no bonds `A–C`, `B–D`) -/
theorem square4_bracketings [AddCommMonoid R] [Mul R] [Neg R] [SignRing R] [AssocLaws R]
    (A B C D : Arr R) (ab ad ba bc cb cd da dc : List Nat)
    (hA : A.validB = true) (hB : B.validB = true) (hC : C.validB = true) (hD : D.validB = true)
    (hfA : A.fermi = true) (hfB : B.fermi = true) (hfC : C.fermi = true) (hfD : D.fermi = true)
    (gAB : tdotAdmissibleCommonB A B ab ba = true) (gBC : tdotAdmissibleCommonB B C bc cb = true)
    (gCD : tdotAdmissibleCommonB C D cd dc = true) (gAD : tdotAdmissibleCommonB A D ad da = true)
    (hnA : (ab ++ ad).Nodup) (hnB : (ba ++ bc).Nodup) (hnC : (cb ++ cd).Nodup) (hnD : (da ++ dc).Nodup)
    (hd : (A.oddpos ++ B.oddpos ++ C.oddpos ++ D.oddpos).Pairwise (fun x y => x.1 ≠ y.1)) :
    Agree5 (route1 A B C D ab [] ad ba bc [] [] cb cd da [] dc)
      (route2 A B C D ab [] ad ba bc [] [] cb cd da [] dc)
      (route3 A B C D ab [] ad ba bc [] [] cb cd da [] dc)
      (route4 A B C D ab [] ad ba bc [] [] cb cd da [] dc)
      (route5 A B C D ab [] ad ba bc [] [] cb cd da [] dc) :=
  net4_bracketings A B C D ab [] ad ba bc [] [] cb cd da [] dc hA hB hC hD hfA hfB hfC hfD gAB
    (adm_nil A C ((adm_sym gAB).trans (adm_sym gBC))) gAD gBC
    (adm_nil B D ((adm_sym gBC).trans (adm_sym gCD))) gCD
    (by simpa using hnA) (by simpa using hnB) (by simpa using hnC) (by simpa using hnD) hd

/-- **the star** with centre `B` (bonds `A–B`, `B–C`, `B–D` only): `(A·B)·C` contracts the centre
    with `A` first, `A·(B·C)` with `C` first; `C·D`, `A·(…)` may be outer products -/
theorem star4_bracketings [AddCommMonoid R] [Mul R] [Neg R] [SignRing R] [AssocLaws R]
    (A B C D : Arr R) (ab ba bc bd cb db : List Nat)
    (hA : A.validB = true) (hB : B.validB = true) (hC : C.validB = true) (hD : D.validB = true)
    (hfA : A.fermi = true) (hfB : B.fermi = true) (hfC : C.fermi = true) (hfD : D.fermi = true)
    (gAB : tdotAdmissibleCommonB A B ab ba = true) (gBC : tdotAdmissibleCommonB B C bc cb = true)
    (gBD : tdotAdmissibleCommonB B D bd db = true)
    (hnB : (ba ++ bc ++ bd).Nodup)
    (hd : (A.oddpos ++ B.oddpos ++ C.oddpos ++ D.oddpos).Pairwise (fun x y => x.1 ≠ y.1)) :
    Agree5 (route1 A B C D ab [] [] ba bc bd [] cb [] [] db [])
      (route2 A B C D ab [] [] ba bc bd [] cb [] [] db [])
      (route3 A B C D ab [] [] ba bc bd [] cb [] [] db [])
      (route4 A B C D ab [] [] ba bc bd [] cb [] [] db [])
      (route5 A B C D ab [] [] ba bc bd [] cb [] [] db []) := by
  have nA : ab.Nodup := by
    have := gAB; unfold tdotAdmissibleCommonB at this
    simp only [Bool.and_eq_true, ValidP.allDistinct_iff] at this; exact this.1.1.1.2
  have nC : cb.Nodup := by
    have := gBC; unfold tdotAdmissibleCommonB at this
    simp only [Bool.and_eq_true, ValidP.allDistinct_iff] at this; exact this.1.1.2
  have nD : db.Nodup := by
    have := gBD; unfold tdotAdmissibleCommonB at this
    simp only [Bool.and_eq_true, ValidP.allDistinct_iff] at this; exact this.1.1.2
  exact net4_bracketings A B C D ab [] [] ba bc bd [] cb [] [] db [] hA hB hC hD hfA hfB hfC hfD gAB
    (adm_nil A C ((adm_sym gAB).trans (adm_sym gBC)))
    (adm_nil A D ((adm_sym gAB).trans (adm_sym gBD))) gBC gBD
    (adm_nil C D ((adm_sym gBC).symm.trans (adm_sym gBD)))
    (by simpa using nA) hnB (by simpa using nC) (by simpa using nD) hd

/-- **the triangle `A, B, C` with the pendant tensor `D` attached to `C`** -/
theorem pendant4_bracketings [AddCommMonoid R] [Mul R] [Neg R] [SignRing R] [AssocLaws R]
    (A B C D : Arr R) (ab ac ba bc ca cb cd dc : List Nat)
    (hA : A.validB = true) (hB : B.validB = true) (hC : C.validB = true) (hD : D.validB = true)
    (hfA : A.fermi = true) (hfB : B.fermi = true) (hfC : C.fermi = true) (hfD : D.fermi = true)
    (gAB : tdotAdmissibleCommonB A B ab ba = true) (gAC : tdotAdmissibleCommonB A C ac ca = true)
    (gBC : tdotAdmissibleCommonB B C bc cb = true) (gCD : tdotAdmissibleCommonB C D cd dc = true)
    (hnA : (ab ++ ac).Nodup) (hnB : (ba ++ bc).Nodup) (hnC : (ca ++ cb ++ cd).Nodup)
    (hd : (A.oddpos ++ B.oddpos ++ C.oddpos ++ D.oddpos).Pairwise (fun x y => x.1 ≠ y.1)) :
    Agree5 (route1 A B C D ab ac [] ba bc [] ca cb cd [] [] dc)
      (route2 A B C D ab ac [] ba bc [] ca cb cd [] [] dc)
      (route3 A B C D ab ac [] ba bc [] ca cb cd [] [] dc)
      (route4 A B C D ab ac [] ba bc [] ca cb cd [] [] dc)
      (route5 A B C D ab ac [] ba bc [] ca cb cd [] [] dc) := by
  have nD : dc.Nodup := by
    have := gCD; unfold tdotAdmissibleCommonB at this
    simp only [Bool.and_eq_true, ValidP.allDistinct_iff] at this; exact this.1.1.2
  exact net4_bracketings A B C D ab ac [] ba bc [] ca cb cd [] [] dc hA hB hC hD hfA hfB hfC hfD gAB gAC
    (adm_nil A D ((adm_sym gAC).trans (adm_sym gCD))) gBC
    (adm_nil B D ((adm_sym gBC).trans (adm_sym gCD))) gCD
    (by simpa using hnA) (by simpa using hnB) hnC (by simpa using nD) hd

/-! ## non-vacuity: the SQUARE `gA – cB – cC – cD – gA`

The chain of C04e closed by the bond `gA.i ~ cD.n` (axis 0 of `gA`, axis 1 of `cD`): all four
tensors odd, pending signs, labels `1`, `3`, `5†`, `7`; the legs `k` of `gA` and `k'` of `cB` dangle. -/

open SymmModel.C03 in
example : gA.validB = true ∧ cB.validB = true ∧ cC.validB = true ∧ cD.validB = true
    ∧ gA.fermi = true ∧ cB.fermi = true ∧ cC.fermi = true ∧ cD.fermi = true
    ∧ tdotAdmissibleCommonB gA cB [2] [0] = true ∧ tdotAdmissibleCommonB cB cC [2] [0] = true
    ∧ tdotAdmissibleCommonB cC cD [1] [0] = true ∧ tdotAdmissibleCommonB gA cD [0] [1] = true
    ∧ tdotAdmissibleCommonB gA cC [] [] = true ∧ tdotAdmissibleCommonB cB cD [] [] = true
    ∧ ([2] ++ [0] : List Nat).Nodup ∧ ([0] ++ [2] : List Nat).Nodup ∧ ([0] ++ [1] : List Nat).Nodup
    ∧ ([1] ++ [0] : List Nat).Nodup
    ∧ (gA.oddpos ++ cB.oddpos ++ cC.oddpos ++ cD.oddpos).Pairwise (fun x y => x.1 ≠ y.1)
    ∧ (∀ x y : Int, x * y = y * x) := by
  refine ⟨by decide +kernel, by decide +kernel, by decide +kernel, by decide +kernel, by decide +kernel,
    by decide +kernel, by decide +kernel, by decide +kernel, by decide +kernel, by decide +kernel,
    by decide +kernel, by decide +kernel, by decide +kernel, by decide +kernel, by decide, by decide,
    by decide, by decide, by decide +kernel, Int.mul_comm⟩

/-- a flag assignment with seven of the fifteen calls exchanged -/
def exFlags : Fin 15 → Bool := fun i => i.val % 2 == 0

open SymmModel.C03 in
/-- sanity instance of the conclusions on the square: the five plain routes and the five flagged
    ones give the same labels, rank, number of sectors and value (legs `k`, `k'` open; the pending signs
    differ between the routes) -/
example :
    ([route1 gA cB cC cD [2] [] [0] [0] [2] [] [] [0] [1] [1] [] [0],
      route2 gA cB cC cD [2] [] [0] [0] [2] [] [] [0] [1] [1] [] [0],
      route3 gA cB cC cD [2] [] [0] [0] [2] [] [] [0] [1] [1] [] [0],
      route4 gA cB cC cD [2] [] [0] [0] [2] [] [] [0] [1] [1] [] [0],
      route5 gA cB cC cD [2] [] [0] [0] [2] [] [] [0] [1] [1] [] [0],
      routeS1 gA cB cC cD [2] [] [0] [0] [2] [] [] [0] [1] [1] [] [0] (exFlags 0) (exFlags 1) (exFlags 2),
      routeS2 gA cB cC cD [2] [] [0] [0] [2] [] [] [0] [1] [1] [] [0] (exFlags 3) (exFlags 4) (exFlags 5),
      routeS3 gA cB cC cD [2] [] [0] [0] [2] [] [] [0] [1] [1] [] [0] (exFlags 6) (exFlags 7) (exFlags 8),
      routeS4 gA cB cC cD [2] [] [0] [0] [2] [] [] [0] [1] [1] [] [0] (exFlags 9) (exFlags 10) (exFlags 11),
      routeS5 gA cB cC cD [2] [] [0] [0] [2] [] [] [0] [1] [1] [] [0] (exFlags 12) (exFlags 13) (exFlags 14)].map
      (fun (t : Except Err (Arr Int)) => (C04.labelsOf t, (resOf t).indices.length, (resOf t).sectors.length,
        elemOf t [(0,0),(0,0)] [0,0])))
      = List.replicate 10 ([(5, true), (1, false), (3, false), (7, false)], 2, 1,
          some (-140)) := by
  decide +kernel

end SymmModel.C04
