/-
  Property C04 (route independence) — four-tensor networks that are NOT chains: the 4-cycle
  (square), the star, the triangle with a pendant tensor and the complete graph K4, all at once; and
  S4 (order in which the contracted axis pairs are listed) under the weak guard.
  MODEL: `Arr.tensordotF` (Model/Fermi.lean), `mode = blockwise`; valid fermionic tensors of any
  rank, symmetry, sparsity, parity, pending signs; scalars as in C04c–g (`AddCommMonoid`, `SignRing`,
  `AssocP.AssocLaws`; instances `Int`, `GRat`).

  SETTING.  Four tensors `A, B, C, D` and, for EVERY pair, a (possibly empty) list of bonded legs:
  `ab ~ ba` (legs of `A` bonded to legs of `B`, matched in order), `ac ~ ca`, `ad ~ da`, `bc ~ cb`,
  `bd ~ db`, `cd ~ dc`; the three lists of one tensor are disjoint, arbitrary positions, arbitrary
  dangling legs.  Every pair satisfies the weak guard `tdotAdmissibleCommonB` (for an empty bond
  this only says "same symmetry", `adm_nil`).  Special cases: square `ac = ca = bd = db = []`; star
  with centre `B`: only `ab, bc, bd`; triangle `A, B, C` with pendant `D`: `ad = bd = []`; chain.
  When two sub-networks meet, ALL bonds between them are contracted in that one call.

  PROVED (no `_partial`):
    `tdotF_axes_perm_weak`   S4 (`C04.tdotF_axes_perm`) under the weak guard, i.e. for intermediate
                             results: re-listing the axis pairs along a permutation gives the
                             IDENTICAL result (same `Except` value);
    `tdotF_axes_pairs_weak`  S4 in its general form: any two listings with the same multiset of
                             axis PAIRS give the identical result;
    `net4_bracketings`       the five bracketings `((AB)C)D`, `(A(BC))D`, `(AB)(CD)`, `A((BC)D)`,
                             `A(B(CD))` (`route1 … route5`, each a program of three calls) all
                             succeed and their results are pairwise `Eqv` (C04e: same labels, charge,
                             index tables, sector set, values); `T1` valid;
    `net4_dense`             for GIVEN results of the five routes: same `to_dense()`, labels,
                             charge, index tables;
    `net4_GRat`              with the driver's instances;
    `square4_bracketings`, `star4_bracketings`, `pendant4_bracketings`   the named special cases
                             (non-bonded pairs need no hypothesis: equal symmetry follows from the
                             bonded ones);
    `net4_flagged`           OPERAND ORDER at any of the calls (commutative scalars): each of the
                             fifteen calls of the five routes carries a Boolean flag; a flagged call
                             is made with the operands exchanged and followed by the `transposeF`
                             that rotates the two free blocks back (`callS`, C04g `compS`); for ANY
                             assignment of flags the five routes succeed and are `Eqv` to the
                             unflagged `route1`.
  ORDERINGS (second part of the file).  `Net4`: four tensors `T 0 … T 3` and for every ordered pair
  `(i, j)` the legs `b i j` of `T i` bonded to `T j`; `Net4.OK` the symmetric hypotheses.
  `TEq T T'` ("`T'` is a fermionic transpose of `T`"): for some permutation `P` of the legs,
  `T.transposeF P` is `Eqv` to `T'` (`teq_def`; `transposeF` multiplies every sector by the Koszul
  sign of `P`, C01/C04b), hence `to_dense()`, labels and charge of `T.transposeF P` and `T'` agree
  (`teq_dense`).
    `tdotF_pretranspose_eqv`  S6 as an EQUIVALENCE under the weak guard:
                              `(a.transposeF p)·b  Eqv  (a·b).transposeF (q ⊕ id)`;
    `transposeF_congr_eqv`, `transposeF_comp_eqv`, `teq_of_eqv`, `teq_trans`
                              `transposeF` respects `Eqv`, composes (`compose P Q`), `TEq` is
                              reflexive on `Eqv` and transitive;
    `exchange3`               EXCHANGE of two neighbours: for three pieces `X, Y, Z` (a bond between
                              every pair) `((X·Z)·Y).transposeF (exchP …)  Eqv  (X·Y)·Z` with the
                              explicit permutation `exchP` (`exchP_def`); from S5, S7, S6, S4;
    `net4_all_orders`         for EVERY ordering `i, j, k, l` of the four tensors the left-nested
                              contraction `((Tᵢ·Tⱼ)·Tₖ)·Tₗ` succeeds and is a fermionic transpose of
                              `((T₀·T₁)·T₂)·T₃`;
    `net4_every_route`        ANY ordering (24) × ANY of the five bracketings × ANY assignment of
                              operand-order flags: the result is a fermionic transpose of the
                              reference `((T₀·T₁)·T₂)·T₃` — in particular the three pairings
                              `(AB)(CD)`, `(AC)(BD)`, `(AD)(BC)` and the twelve sequential orders;
    `net4_every_route_ref`, `net4_routes_agree`   the same with validity, and the symmetric form: the
                              results `U`, `U'` of ANY two routes, each brought to the reference leg
                              order by a fermionic transpose, are `Eqv` — same `to_dense()`,
                              labels, charge, index tables (this is the comparison the harness makes).
  The 24 orderings are connected by three moves (Proofs/Net4Moves): exchange of the last two
  tensors, exchange of the two halves of `(AB)(CD)`, and `(A(BC))D ↔ (AD)(BC)`; the last one
  needs that the legs of `A·B·C` bonded to `D` have the same positions in the layouts of `(A·B)·C`
  and `A·(B·C)` (`Net4P.axes_star`).
  NOT proved: in `net4_all_orders/net4_every_route` the permutation `P` is existentially
  quantified (it is the composite of the explicit permutations of the moves; it satisfies
  `permuted T.indices P = T0.indices`, which determines it when the open legs have different
  tables; for a fully contracted network it is `[]`) — a closed formula for `P` as the block
  permutation of the ordering is not proved.  Also not proved: `n > 4` tensors with arbitrary
  graphs (the induction of C04f over bracketing trees with multi-bond pieces), the fused/auto
  mode versions of the theorems of this file (C06d/e do this for chains), and `LabelRoutes` for
  more than two labels per tensor.
-/
import SymmModel.Proofs.Net4Orders
import SymmModel.Props.C04g

namespace SymmModel.C04
open SymmModel SymmModel.GradedP SymmModel.TdotP SymmModel.RoutesP SymmModel.AssocP SymmModel.Assoc3P
  SymmModel.Assoc5P SymmModel.Net4P

variable {R : Type}

/-! ## S4 under the weak guard -/

/-- **S4 under the weak guard** -/
theorem tdotF_axes_perm_weak [AddCommMonoid R] [Mul R] [Neg R] [SignRing R] (a b : Arr R)
    (xa xb π : List Nat)
    (ha : a.validB = true) (hb : b.validB = true) (hfa : a.fermi = true) (hfb : b.fermi = true)
    (hadm : tdotAdmissibleCommonB a b xa xb = true) (hπ : π.Perm (List.range xa.length)) :
    tdF a b (permuted xa π) (permuted xb π) = tdF a b xa xb :=
  tdotF_axes_perm_w a b xa xb π (AdmW.of ha hb hfa hfb hadm) hπ

/-- **S4, general form**: the same axis pairs in any order -/
theorem tdotF_axes_pairs_weak [AddCommMonoid R] [Mul R] [Neg R] [SignRing R] (a b : Arr R)
    (xa xb xa' xb' : List Nat)
    (ha : a.validB = true) (hb : b.validB = true) (hfa : a.fermi = true) (hfb : b.fermi = true)
    (hadm : tdotAdmissibleCommonB a b xa xb = true) (hl : xa'.length = xb'.length)
    (hp : (xa'.zip xb').Perm (xa.zip xb)) :
    tdF a b xa' xb' = tdF a b xa xb :=
  tdotF_axes_pairs_w a b xa xb xa' xb' (AdmW.of ha hb hfa hfb hadm) hl hp

example : ([2, 0].zip [1, 3]).Perm ([0, 2].zip [3, 1]) ∧ ([2, 0] : List Nat).length = [1, 3].length :=
  ⟨List.Perm.swap _ _ _, rfl⟩

/-- an empty bond is admissible between tensors of the same symmetry -/
theorem adm_nil (a b : Arr R) (h : a.sym = b.sym) : tdotAdmissibleCommonB a b [] [] = true := by
  unfold tdotAdmissibleCommonB contractibleCommonB
  simp [h, allDistinct]

/-- the guard contains the equality of the symmetries -/
theorem adm_sym {a b : Arr R} {xa xb : List Nat} (h : tdotAdmissibleCommonB a b xa xb = true) :
    a.sym = b.sym := by
  unfold tdotAdmissibleCommonB at h
  simp only [Bool.and_eq_true, decide_eq_true_eq] at h
  exact h.1.1.1.1.1

/-! ## the five routes -/

section routes
variable [Zero R] [Add R] [Mul R] [Neg R]
variable (A B C D : Arr R) (ab ac ad ba bc bd ca cb cd da db dc : List Nat)

/-- `((A·B)·C)·D` -/
def route1 : Except Err (Arr R) := routeS1 A B C D ab ac ad ba bc bd ca cb cd da db dc false false false
/-- `(A·(B·C))·D` -/
def route2 : Except Err (Arr R) := routeS2 A B C D ab ac ad ba bc bd ca cb cd da db dc false false false
/-- `(A·B)·(C·D)` -/
def route3 : Except Err (Arr R) := routeS3 A B C D ab ac ad ba bc bd ca cb cd da db dc false false false
/-- `A·((B·C)·D)` -/
def route4 : Except Err (Arr R) := routeS4 A B C D ab ac ad ba bc bd ca cb cd da db dc false false false
/-- `A·(B·(C·D))` -/
def route5 : Except Err (Arr R) := routeS5 A B C D ab ac ad ba bc bd ca cb cd da db dc false false false

/-- a (possibly flagged) call -/
theorem callS_def (X Y : Arr R) (xa xb : List Nat) :
    callS false X Y xa xb = tdF X Y xa xb
    ∧ callS true X Y xa xb = (tdF Y X xb xa).map (fun z =>
        z.transposeF (rotB (freeAxes Y.ndim xb).length (freeAxes X.ndim xa).length)) := ⟨rfl, rfl⟩

/-- the five routes as programs of three calls; the axis lists of the later calls are the images
    of the bonded legs in the intermediate results (`Assoc2P.axesAB/axesBC`, C04d) -/
theorem routeS_defs (f1 f2 f3 : Bool) :
    routeS1 A B C D ab ac ad ba bc bd ca cb cd da db dc f1 f2 f3
      = ((callS f1 A B ab ba).bind fun AB =>
        (callS f2 AB C (Assoc2P.axesAB A.ndim B.ndim ab ac ba bc) (ca ++ cb)).bind fun ABC =>
        callS f3 ABC D (axesABC_D A B C ab ac ad ba bc bd ca cb cd) ((da ++ db) ++ dc))
    ∧ routeS2 A B C D ab ac ad ba bc bd ca cb cd da db dc f1 f2 f3
      = ((callS f1 B C bc cb).bind fun BC =>
        (callS f2 A BC (ab ++ ac) (Assoc2P.axesBC B.ndim C.ndim ba bc cb ca)).bind fun ABC =>
        callS f3 ABC D (axesABC_D A B C ab ac ad ba bc bd ca cb cd) ((da ++ db) ++ dc))
    ∧ routeS3 A B C D ab ac ad ba bc bd ca cb cd da db dc f1 f2 f3
      = ((callS f1 A B ab ba).bind fun AB =>
        (callS f2 C D cd dc).bind fun CD =>
        callS f3 AB CD
          (Assoc2P.axesAB A.ndim B.ndim ab ac ba bc ++ Assoc2P.axesAB A.ndim B.ndim ab ad ba bd)
          (Assoc2P.axesBC C.ndim D.ndim (ca ++ cb) cd dc (da ++ db)))
    ∧ routeS4 A B C D ab ac ad ba bc bd ca cb cd da db dc f1 f2 f3
      = ((callS f1 B C bc cb).bind fun BC =>
        (callS f2 BC D (Assoc2P.axesAB B.ndim C.ndim bc bd cb cd) (db ++ dc)).bind fun BCD =>
        callS f3 A BCD (ab ++ (ac ++ ad)) (axesBCD_A B C D ba bc bd ca cb cd da db dc))
    ∧ routeS5 A B C D ab ac ad ba bc bd ca cb cd da db dc f1 f2 f3
      = ((callS f1 C D cd dc).bind fun CD =>
        (callS f2 B CD (bc ++ bd) (Assoc2P.axesBC C.ndim D.ndim cb cd dc db)).bind fun BCD =>
        callS f3 A BCD (ab ++ (ac ++ ad)) (axesBCD_A B C D ba bc bd ca cb cd da db dc)) :=
  ⟨rfl, rfl, rfl, rfl, rfl⟩

omit [Zero R] [Add R] [Mul R] [Neg R] in
theorem axes_defs :
    axesABC_D A B C ab ac ad ba bc bd ca cb cd
      = Assoc2P.axesAB ((freeAxes A.ndim ab).length + (freeAxes B.ndim ba).length) C.ndim
          (Assoc2P.axesAB A.ndim B.ndim ab ac ba bc) (Assoc2P.axesAB A.ndim B.ndim ab ad ba bd)
          (ca ++ cb) cd
    ∧ axesBCD_A B C D ba bc bd ca cb cd da db dc
      = Assoc2P.axesBC B.ndim ((freeAxes C.ndim cd).length + (freeAxes D.ndim dc).length) ba (bc ++ bd)
          (Assoc2P.axesBC C.ndim D.ndim cb cd dc db) (Assoc2P.axesBC C.ndim D.ndim ca cd dc da) :=
  ⟨rfl, rfl⟩

end routes

/-- **net4_bracketings.**  Four valid fermionic tensors with pairwise-distinct labels, a bond
    (possibly empty) between every pair under the weak guard, the three bonds of each tensor
    disjoint: the five bracketings succeed and agree. -/
theorem net4_bracketings [AddCommMonoid R] [Mul R] [Neg R] [SignRing R] [AssocLaws R]
    (A B C D : Arr R) (ab ac ad ba bc bd ca cb cd da db dc : List Nat)
    (hA : A.validB = true) (hB : B.validB = true) (hC : C.validB = true) (hD : D.validB = true)
    (hfA : A.fermi = true) (hfB : B.fermi = true) (hfC : C.fermi = true) (hfD : D.fermi = true)
    (gAB : tdotAdmissibleCommonB A B ab ba = true) (gAC : tdotAdmissibleCommonB A C ac ca = true)
    (gAD : tdotAdmissibleCommonB A D ad da = true) (gBC : tdotAdmissibleCommonB B C bc cb = true)
    (gBD : tdotAdmissibleCommonB B D bd db = true) (gCD : tdotAdmissibleCommonB C D cd dc = true)
    (hnA : (ab ++ ac ++ ad).Nodup) (hnB : (ba ++ bc ++ bd).Nodup)
    (hnC : (ca ++ cb ++ cd).Nodup) (hnD : (da ++ db ++ dc).Nodup)
    (hd : (A.oddpos ++ B.oddpos ++ C.oddpos ++ D.oddpos).Pairwise (fun x y => x.1 ≠ y.1)) :
    ∃ T1 T2 T3 T4 T5 : Arr R,
      route1 A B C D ab ac ad ba bc bd ca cb cd da db dc = .ok T1
      ∧ route2 A B C D ab ac ad ba bc bd ca cb cd da db dc = .ok T2
      ∧ route3 A B C D ab ac ad ba bc bd ca cb cd da db dc = .ok T3
      ∧ route4 A B C D ab ac ad ba bc bd ca cb cd da db dc = .ok T4
      ∧ route5 A B C D ab ac ad ba bc bd ca cb cd da db dc = .ok T5
      ∧ Eqv T2 T1 ∧ Eqv T3 T1 ∧ Eqv T4 T1 ∧ Eqv T5 T1 ∧ T1.validB = true := by
  obtain ⟨AB, BC, CD, ABC1, ABC2, BCD1, BCD2, T1, T2, T3, T4, T5, e1, e2, e3, e4, e5, e6, e7, e8, e9,
    e10, e11, e12, q2, q3, q4, q5, hv⟩ :=
    k4 A B C D ab ac ad ba bc bd ca cb cd da db dc (AdmW.of hA hB hfA hfB gAB)
      (AdmW.of hA hC hfA hfC gAC) (AdmW.of hA hD hfA hfD gAD) (AdmW.of hB hC hfB hfC gBC)
      (AdmW.of hB hD hfB hfD gBD) (AdmW.of hC hD hfC hfD gCD) hnA hnB hnC hnD hd
  refine ⟨T1, T2, T3, T4, T5, ?_, ?_, ?_, ?_, ?_, q2, q3, q4, q5, hv⟩
  · unfold route1 routeS1 callS axesABC_D; simp only []
    rw [e1]; simp only [Except.bind]; rw [e4]; exact e8
  · unfold route2 routeS2 callS axesABC_D; simp only []
    rw [e2]; simp only [Except.bind]; rw [e5]; exact e9
  · unfold route3 routeS3 callS; simp only []
    rw [e1]; simp only [Except.bind]; rw [e3]; exact e10
  · unfold route4 routeS4 callS axesBCD_A; simp only []
    rw [e2]; simp only [Except.bind]; rw [e6]; exact e11
  · unfold route5 routeS5 callS axesBCD_A; simp only []
    rw [e3]; simp only [Except.bind]; rw [e7]; exact e12

/-- **net4_dense.**  For GIVEN results of the five routes: the same `to_dense()`, labels, charge,
    index tables. -/
theorem net4_dense [AddCommMonoid R] [Mul R] [Neg R] [SignRing R] [AssocLaws R]
    (A B C D T1 T2 T3 T4 T5 : Arr R) (ab ac ad ba bc bd ca cb cd da db dc : List Nat)
    (hA : A.validB = true) (hB : B.validB = true) (hC : C.validB = true) (hD : D.validB = true)
    (hfA : A.fermi = true) (hfB : B.fermi = true) (hfC : C.fermi = true) (hfD : D.fermi = true)
    (gAB : tdotAdmissibleCommonB A B ab ba = true) (gAC : tdotAdmissibleCommonB A C ac ca = true)
    (gAD : tdotAdmissibleCommonB A D ad da = true) (gBC : tdotAdmissibleCommonB B C bc cb = true)
    (gBD : tdotAdmissibleCommonB B D bd db = true) (gCD : tdotAdmissibleCommonB C D cd dc = true)
    (hnA : (ab ++ ac ++ ad).Nodup) (hnB : (ba ++ bc ++ bd).Nodup)
    (hnC : (ca ++ cb ++ cd).Nodup) (hnD : (da ++ db ++ dc).Nodup)
    (hd : (A.oddpos ++ B.oddpos ++ C.oddpos ++ D.oddpos).Pairwise (fun x y => x.1 ≠ y.1))
    (r1 : route1 A B C D ab ac ad ba bc bd ca cb cd da db dc = .ok T1)
    (r2 : route2 A B C D ab ac ad ba bc bd ca cb cd da db dc = .ok T2)
    (r3 : route3 A B C D ab ac ad ba bc bd ca cb cd da db dc = .ok T3)
    (r4 : route4 A B C D ab ac ad ba bc bd ca cb cd da db dc = .ok T4)
    (r5 : route5 A B C D ab ac ad ba bc bd ca cb cd da db dc = .ok T5) :
    (∀ T ∈ [T2, T3, T4, T5], T.toDenseF = T1.toDenseF ∧ T.oddpos = T1.oddpos ∧ T.charge = T1.charge
      ∧ T.indices = T1.indices) := by
  obtain ⟨U1, U2, U3, U4, U5, d1, d2, d3, d4, d5, q2, q3, q4, q5, hv⟩ :=
    net4_bracketings A B C D ab ac ad ba bc bd ca cb cd da db dc hA hB hC hD hfA hfB hfC hfD
      gAB gAC gAD gBC gBD gCD hnA hnB hnC hnD hd
  rw [r1] at d1; obtain rfl := Except.ok.inj d1
  rw [r2] at d2; obtain rfl := Except.ok.inj d2
  rw [r3] at d3; obtain rfl := Except.ok.inj d3
  rw [r4] at d4; obtain rfl := Except.ok.inj d4
  rw [r5] at d5; obtain rfl := Except.ok.inj d5
  have key : ∀ T : Arr R, Eqv T T1 → T.toDenseF = T1.toDenseF ∧ T.oddpos = T1.oddpos
      ∧ T.charge = T1.charge ∧ T.indices = T1.indices :=
    fun T q => ⟨(q.symm.toDenseF hv).symm, q.oddpos, q.charge, q.indices⟩
  intro T hT
  simp only [List.mem_cons, List.not_mem_nil, or_false] at hT
  rcases hT with rfl | rfl | rfl | rfl
  · exact key _ q2
  · exact key _ q3
  · exact key _ q4
  · exact key _ q5

/-- `net4_bracketings` with exactly the instances the driver is compiled with (outermost routes) -/
theorem net4_GRat (A B C D : Arr GRat) (ab ac ad ba bc bd ca cb cd da db dc : List Nat)
    (hA : A.validB = true) (hB : B.validB = true) (hC : C.validB = true) (hD : D.validB = true)
    (hfA : A.fermi = true) (hfB : B.fermi = true) (hfC : C.fermi = true) (hfD : D.fermi = true)
    (gAB : tdotAdmissibleCommonB A B ab ba = true) (gAC : tdotAdmissibleCommonB A C ac ca = true)
    (gAD : tdotAdmissibleCommonB A D ad da = true) (gBC : tdotAdmissibleCommonB B C bc cb = true)
    (gBD : tdotAdmissibleCommonB B D bd db = true) (gCD : tdotAdmissibleCommonB C D cd dc = true)
    (hnA : (ab ++ ac ++ ad).Nodup) (hnB : (ba ++ bc ++ bd).Nodup)
    (hnC : (ca ++ cb ++ cd).Nodup) (hnD : (da ++ db ++ dc).Nodup)
    (hd : (A.oddpos ++ B.oddpos ++ C.oddpos ++ D.oddpos).Pairwise (fun x y => x.1 ≠ y.1)) :
    ∃ T1 T3 T5 : Arr GRat,
      @route1 GRat GRat.instZero GRat.instAdd GRat.instMul GRat.instNeg A B C D
          ab ac ad ba bc bd ca cb cd da db dc = .ok T1
      ∧ @route3 GRat GRat.instZero GRat.instAdd GRat.instMul GRat.instNeg A B C D
          ab ac ad ba bc bd ca cb cd da db dc = .ok T3
      ∧ @route5 GRat GRat.instZero GRat.instAdd GRat.instMul GRat.instNeg A B C D
          ab ac ad ba bc bd ca cb cd da db dc = .ok T5
      ∧ @Eqv GRat GRat.instZero GRat.instNeg T3 T1 ∧ @Eqv GRat GRat.instZero GRat.instNeg T5 T1
      ∧ @Arr.toDenseF GRat GRat.instZero GRat.instNeg T5
          = @Arr.toDenseF GRat GRat.instZero GRat.instNeg T1 := by
  obtain ⟨T1, T2, T3, T4, T5, d1, d2, d3, d4, d5, q2, q3, q4, q5, hv⟩ :=
    @net4_bracketings GRat C02.addCommMonoidGRat GRat.instMul GRat.instNeg C03.signRingGRat
      assocLawsGRat A B C D ab ac ad ba bc bd ca cb cd da db dc hA hB hC hD hfA hfB hfC hfD
      gAB gAC gAD gBC gBD gCD hnA hnB hnC hnD hd
  exact ⟨T1, T3, T5, d1, d3, d5, q3, q5,
    (@Eqv.toDenseF GRat C02.addCommMonoidGRat GRat.instMul GRat.instNeg C03.signRingGRat _ _ q5.symm
      hv).symm⟩

/-! ## operand order at any call -/

/-- **net4_flagged.**  Commutative scalars.  Each of the fifteen calls of the five routes may be made
    with the operands exchanged and rotated back (`callS true`): for every assignment `f` of the
    flags all five routes succeed, give valid arrays, and are `Eqv` to the plain left-nested
    result `T1`. -/
theorem net4_flagged [AddCommMonoid R] [Mul R] [Neg R] [SignRing R] [AssocLaws R]
    (hmul : ∀ x y : R, x * y = y * x)
    (A B C D : Arr R) (ab ac ad ba bc bd ca cb cd da db dc : List Nat)
    (hA : A.validB = true) (hB : B.validB = true) (hC : C.validB = true) (hD : D.validB = true)
    (hfA : A.fermi = true) (hfB : B.fermi = true) (hfC : C.fermi = true) (hfD : D.fermi = true)
    (gAB : tdotAdmissibleCommonB A B ab ba = true) (gAC : tdotAdmissibleCommonB A C ac ca = true)
    (gAD : tdotAdmissibleCommonB A D ad da = true) (gBC : tdotAdmissibleCommonB B C bc cb = true)
    (gBD : tdotAdmissibleCommonB B D bd db = true) (gCD : tdotAdmissibleCommonB C D cd dc = true)
    (hnA : (ab ++ ac ++ ad).Nodup) (hnB : (ba ++ bc ++ bd).Nodup)
    (hnC : (ca ++ cb ++ cd).Nodup) (hnD : (da ++ db ++ dc).Nodup)
    (hd : (A.oddpos ++ B.oddpos ++ C.oddpos ++ D.oddpos).Pairwise (fun x y => x.1 ≠ y.1)) :
    ∃ T1 : Arr R, route1 A B C D ab ac ad ba bc bd ca cb cd da db dc = .ok T1 ∧ T1.validB = true
      ∧ ∀ f : Fin 15 → Bool, ∃ U1 U2 U3 U4 U5 : Arr R,
        routeS1 A B C D ab ac ad ba bc bd ca cb cd da db dc (f 0) (f 1) (f 2) = .ok U1
        ∧ routeS2 A B C D ab ac ad ba bc bd ca cb cd da db dc (f 3) (f 4) (f 5) = .ok U2
        ∧ routeS3 A B C D ab ac ad ba bc bd ca cb cd da db dc (f 6) (f 7) (f 8) = .ok U3
        ∧ routeS4 A B C D ab ac ad ba bc bd ca cb cd da db dc (f 9) (f 10) (f 11) = .ok U4
        ∧ routeS5 A B C D ab ac ad ba bc bd ca cb cd da db dc (f 12) (f 13) (f 14) = .ok U5
        ∧ Eqv U1 T1 ∧ Eqv U2 T1 ∧ Eqv U3 T1 ∧ Eqv U4 T1 ∧ Eqv U5 T1
        ∧ U1.validB = true ∧ U2.validB = true ∧ U3.validB = true ∧ U4.validB = true
        ∧ U5.validB = true :=
  k4_flagged hmul A B C D ab ac ad ba bc bd ca cb cd da db dc (AdmW.of hA hB hfA hfB gAB)
    (AdmW.of hA hC hfA hfC gAC) (AdmW.of hA hD hfA hfD gAD) (AdmW.of hB hC hfB hfC gBC)
    (AdmW.of hB hD hfB hfD gBD) (AdmW.of hC hD hfC hfD gCD) hnA hnB hnC hnD hd

/-! ## the named special cases -/

/-- the conclusion of `net4_bracketings` for five given programs -/
def Agree5 [Zero R] [Neg R] (r1 r2 r3 r4 r5 : Except Err (Arr R)) : Prop :=
  ∃ T1 T2 T3 T4 T5 : Arr R, r1 = .ok T1 ∧ r2 = .ok T2 ∧ r3 = .ok T3 ∧ r4 = .ok T4 ∧ r5 = .ok T5
    ∧ Eqv T2 T1 ∧ Eqv T3 T1 ∧ Eqv T4 T1 ∧ Eqv T5 T1 ∧ T1.validB = true

theorem agree5_def [Zero R] [Neg R] (r1 r2 r3 r4 r5 : Except Err (Arr R)) :
    Agree5 r1 r2 r3 r4 r5 ↔ ∃ T1 T2 T3 T4 T5 : Arr R, r1 = .ok T1 ∧ r2 = .ok T2 ∧ r3 = .ok T3
      ∧ r4 = .ok T4 ∧ r5 = .ok T5 ∧ Eqv T2 T1 ∧ Eqv T3 T1 ∧ Eqv T4 T1 ∧ Eqv T5 T1
      ∧ T1.validB = true := Iff.rfl

/-- **the 4-cycle** `A–B–C–D–A` (no bonds `A–C`, `B–D`) -/
theorem square4_bracketings [AddCommMonoid R] [Mul R] [Neg R] [SignRing R] [AssocLaws R]
    (A B C D : Arr R) (ab ad ba bc cb cd da dc : List Nat)
    (hA : A.validB = true) (hB : B.validB = true) (hC : C.validB = true) (hD : D.validB = true)
    (hfA : A.fermi = true) (hfB : B.fermi = true) (hfC : C.fermi = true) (hfD : D.fermi = true)
    (gAB : tdotAdmissibleCommonB A B ab ba = true) (gBC : tdotAdmissibleCommonB B C bc cb = true)
    (gCD : tdotAdmissibleCommonB C D cd dc = true) (gAD : tdotAdmissibleCommonB A D ad da = true)
    (hnA : (ab ++ ad).Nodup) (hnB : (ba ++ bc).Nodup) (hnC : (cb ++ cd).Nodup) (hnD : (da ++ dc).Nodup)
    (hd : (A.oddpos ++ B.oddpos ++ C.oddpos ++ D.oddpos).Pairwise (fun x y => x.1 ≠ y.1)) :
    Agree5 (route1 A B C D ab [] ad ba bc [] [] cb cd da [] dc)
      (route2 A B C D ab [] ad ba bc [] [] cb cd da [] dc)
      (route3 A B C D ab [] ad ba bc [] [] cb cd da [] dc)
      (route4 A B C D ab [] ad ba bc [] [] cb cd da [] dc)
      (route5 A B C D ab [] ad ba bc [] [] cb cd da [] dc) :=
  net4_bracketings A B C D ab [] ad ba bc [] [] cb cd da [] dc hA hB hC hD hfA hfB hfC hfD gAB
    (adm_nil A C ((adm_sym gAB).trans (adm_sym gBC))) gAD gBC
    (adm_nil B D ((adm_sym gBC).trans (adm_sym gCD))) gCD
    (by simpa using hnA) (by simpa using hnB) (by simpa using hnC) (by simpa using hnD) hd

/-- **the star** with centre `B` (bonds `A–B`, `B–C`, `B–D` only): `(A·B)·C` contracts the centre
    with `A` first, `A·(B·C)` with `C` first; `C·D`, `A·(…)` may be outer products -/
theorem star4_bracketings [AddCommMonoid R] [Mul R] [Neg R] [SignRing R] [AssocLaws R]
    (A B C D : Arr R) (ab ba bc bd cb db : List Nat)
    (hA : A.validB = true) (hB : B.validB = true) (hC : C.validB = true) (hD : D.validB = true)
    (hfA : A.fermi = true) (hfB : B.fermi = true) (hfC : C.fermi = true) (hfD : D.fermi = true)
    (gAB : tdotAdmissibleCommonB A B ab ba = true) (gBC : tdotAdmissibleCommonB B C bc cb = true)
    (gBD : tdotAdmissibleCommonB B D bd db = true)
    (hnB : (ba ++ bc ++ bd).Nodup)
    (hd : (A.oddpos ++ B.oddpos ++ C.oddpos ++ D.oddpos).Pairwise (fun x y => x.1 ≠ y.1)) :
    Agree5 (route1 A B C D ab [] [] ba bc bd [] cb [] [] db [])
      (route2 A B C D ab [] [] ba bc bd [] cb [] [] db [])
      (route3 A B C D ab [] [] ba bc bd [] cb [] [] db [])
      (route4 A B C D ab [] [] ba bc bd [] cb [] [] db [])
      (route5 A B C D ab [] [] ba bc bd [] cb [] [] db []) := by
  have nA : ab.Nodup := by
    have := gAB; unfold tdotAdmissibleCommonB at this
    simp only [Bool.and_eq_true, ValidP.allDistinct_iff] at this; exact this.1.1.1.2
  have nC : cb.Nodup := by
    have := gBC; unfold tdotAdmissibleCommonB at this
    simp only [Bool.and_eq_true, ValidP.allDistinct_iff] at this; exact this.1.1.2
  have nD : db.Nodup := by
    have := gBD; unfold tdotAdmissibleCommonB at this
    simp only [Bool.and_eq_true, ValidP.allDistinct_iff] at this; exact this.1.1.2
  exact net4_bracketings A B C D ab [] [] ba bc bd [] cb [] [] db [] hA hB hC hD hfA hfB hfC hfD gAB
    (adm_nil A C ((adm_sym gAB).trans (adm_sym gBC)))
    (adm_nil A D ((adm_sym gAB).trans (adm_sym gBD))) gBC gBD
    (adm_nil C D ((adm_sym gBC).symm.trans (adm_sym gBD)))
    (by simpa using nA) hnB (by simpa using nC) (by simpa using nD) hd

/-- **the triangle `A, B, C` with the pendant tensor `D` attached to `C`** -/
theorem pendant4_bracketings [AddCommMonoid R] [Mul R] [Neg R] [SignRing R] [AssocLaws R]
    (A B C D : Arr R) (ab ac ba bc ca cb cd dc : List Nat)
    (hA : A.validB = true) (hB : B.validB = true) (hC : C.validB = true) (hD : D.validB = true)
    (hfA : A.fermi = true) (hfB : B.fermi = true) (hfC : C.fermi = true) (hfD : D.fermi = true)
    (gAB : tdotAdmissibleCommonB A B ab ba = true) (gAC : tdotAdmissibleCommonB A C ac ca = true)
    (gBC : tdotAdmissibleCommonB B C bc cb = true) (gCD : tdotAdmissibleCommonB C D cd dc = true)
    (hnA : (ab ++ ac).Nodup) (hnB : (ba ++ bc).Nodup) (hnC : (ca ++ cb ++ cd).Nodup)
    (hd : (A.oddpos ++ B.oddpos ++ C.oddpos ++ D.oddpos).Pairwise (fun x y => x.1 ≠ y.1)) :
    Agree5 (route1 A B C D ab ac [] ba bc [] ca cb cd [] [] dc)
      (route2 A B C D ab ac [] ba bc [] ca cb cd [] [] dc)
      (route3 A B C D ab ac [] ba bc [] ca cb cd [] [] dc)
      (route4 A B C D ab ac [] ba bc [] ca cb cd [] [] dc)
      (route5 A B C D ab ac [] ba bc [] ca cb cd [] [] dc) := by
  have nD : dc.Nodup := by
    have := gCD; unfold tdotAdmissibleCommonB at this
    simp only [Bool.and_eq_true, ValidP.allDistinct_iff] at this; exact this.1.1.2
  exact net4_bracketings A B C D ab ac [] ba bc [] ca cb cd [] [] dc hA hB hC hD hfA hfB hfC hfD gAB gAC
    (adm_nil A D ((adm_sym gAC).trans (adm_sym gCD))) gBC
    (adm_nil B D ((adm_sym gBC).trans (adm_sym gCD))) gCD
    (by simpa using hnA) (by simpa using hnB) hnC (by simpa using nD) hd

/-! ## non-vacuity: the SQUARE `gA – cB – cC – cD – gA`

The chain of C04e closed by the bond `gA.i ~ cD.n` (axis 0 of `gA`, axis 1 of `cD`): all four
tensors odd, pending signs, labels `1`, `3`, `5†`, `7`; the legs `k` of `gA` and `k'` of `cB` dangle. -/

open SymmModel.C03 in
example : gA.validB = true ∧ cB.validB = true ∧ cC.validB = true ∧ cD.validB = true
    ∧ gA.fermi = true ∧ cB.fermi = true ∧ cC.fermi = true ∧ cD.fermi = true
    ∧ tdotAdmissibleCommonB gA cB [2] [0] = true ∧ tdotAdmissibleCommonB cB cC [2] [0] = true
    ∧ tdotAdmissibleCommonB cC cD [1] [0] = true ∧ tdotAdmissibleCommonB gA cD [0] [1] = true
    ∧ tdotAdmissibleCommonB gA cC [] [] = true ∧ tdotAdmissibleCommonB cB cD [] [] = true
    ∧ ([2] ++ [0] : List Nat).Nodup ∧ ([0] ++ [2] : List Nat).Nodup ∧ ([0] ++ [1] : List Nat).Nodup
    ∧ ([1] ++ [0] : List Nat).Nodup
    ∧ (gA.oddpos ++ cB.oddpos ++ cC.oddpos ++ cD.oddpos).Pairwise (fun x y => x.1 ≠ y.1)
    ∧ (∀ x y : Int, x * y = y * x) := by
  refine ⟨by decide +kernel, by decide +kernel, by decide +kernel, by decide +kernel, by decide +kernel,
    by decide +kernel, by decide +kernel, by decide +kernel, by decide +kernel, by decide +kernel,
    by decide +kernel, by decide +kernel, by decide +kernel, by decide +kernel, by decide, by decide,
    by decide, by decide, by decide +kernel, Int.mul_comm⟩

/-- a flag assignment with seven of the fifteen calls exchanged -/
def exFlags : Fin 15 → Bool := fun i => i.val % 2 == 0

open SymmModel.C03 in
/-- sanity instance of the conclusions on the square: the five plain routes and the five flagged
    ones give the same labels, rank, number of sectors and value (legs `k`, `k'` open; the pending signs
    differ between the routes) -/
example :
    ([route1 gA cB cC cD [2] [] [0] [0] [2] [] [] [0] [1] [1] [] [0],
      route2 gA cB cC cD [2] [] [0] [0] [2] [] [] [0] [1] [1] [] [0],
      route3 gA cB cC cD [2] [] [0] [0] [2] [] [] [0] [1] [1] [] [0],
      route4 gA cB cC cD [2] [] [0] [0] [2] [] [] [0] [1] [1] [] [0],
      route5 gA cB cC cD [2] [] [0] [0] [2] [] [] [0] [1] [1] [] [0],
      routeS1 gA cB cC cD [2] [] [0] [0] [2] [] [] [0] [1] [1] [] [0] (exFlags 0) (exFlags 1) (exFlags 2),
      routeS2 gA cB cC cD [2] [] [0] [0] [2] [] [] [0] [1] [1] [] [0] (exFlags 3) (exFlags 4) (exFlags 5),
      routeS3 gA cB cC cD [2] [] [0] [0] [2] [] [] [0] [1] [1] [] [0] (exFlags 6) (exFlags 7) (exFlags 8),
      routeS4 gA cB cC cD [2] [] [0] [0] [2] [] [] [0] [1] [1] [] [0] (exFlags 9) (exFlags 10) (exFlags 11),
      routeS5 gA cB cC cD [2] [] [0] [0] [2] [] [] [0] [1] [1] [] [0] (exFlags 12) (exFlags 13) (exFlags 14)].map
      (fun (t : Except Err (Arr Int)) => (C04.labelsOf t, (resOf t).indices.length, (resOf t).sectors.length,
        elemOf t [(0,0),(0,0)] [0,0])))
      = List.replicate 10 ([(5, true), (1, false), (3, false), (7, false)], 2, 1,
          some (-140)) := by
  decide +kernel

/-! ## orderings: equality up to a fermionic transpose -/

theorem teq_def [AddCommMonoid R] [Neg R] (T T' : Arr R) :
    TEq T T' ↔ ∃ P, Arr.isPerm P T.ndim = true ∧ Eqv (T.transposeF P) T' := Iff.rfl

/-- what `TEq` means at `to_dense()` level -/
theorem teq_dense [AddCommMonoid R] [Mul R] [Neg R] [SignRing R] {T T' : Arr R} (h : TEq T T')
    (hv : T.validB = true) (hf : T.fermi = true) :
    ∃ P, Arr.isPerm P T.ndim = true ∧ (T.transposeF P).toDenseF = T'.toDenseF
      ∧ T'.oddpos = T.oddpos ∧ T'.charge = T.charge ∧ T'.indices = permuted T.indices P := by
  obtain ⟨P, hP, e⟩ := h
  have TT := transOf_transposeF T P hv hf hP
  exact ⟨P, hP, e.toDenseF (transposeF_validB T P hv hf hP), e.oddpos.symm, e.charge.symm,
    by rw [← e.indices, TT.indices]⟩

theorem teq_of_eqv [AddCommMonoid R] [Mul R] [Neg R] [SignRing R] {T T' : Arr R} (h : Eqv T T')
    (hv : T.validB = true) (hf : T.fermi = true) : TEq T T' := TEq.of_eqv h hv hf

theorem teq_trans [AddCommMonoid R] [Mul R] [Neg R] [SignRing R] {T1 T2 T3 : Arr R}
    (h12 : TEq T1 T2) (h23 : TEq T2 T3) (hv1 : T1.validB = true) (hf1 : T1.fermi = true)
    (hv2 : T2.validB = true) : TEq T1 T3 := TEq.trans h12 h23 hv1 hf1 hv2

/-- `transposeF` respects `Eqv` -/
theorem transposeF_congr_eqv [AddCommMonoid R] [Mul R] [Neg R] [SignRing R] {X X' : Arr R}
    {P : List Nat} (h : Eqv X X') (hv : X.validB = true) (hv' : X'.validB = true)
    (hf : X.fermi = true) (hP : Arr.isPerm P X.ndim = true) :
    Eqv (X.transposeF P) (X'.transposeF P) := transposeF_congr h hv hv' hf hP

/-- transposing by `P` and then by `Q` is transposing by `compose P Q` -/
theorem transposeF_comp_eqv [AddCommMonoid R] [Mul R] [Neg R] [SignRing R] (X : Arr R)
    (P Q : List Nat) (hv : X.validB = true) (hf : X.fermi = true)
    (hP : Arr.isPerm P X.ndim = true) (hQ : Arr.isPerm Q X.ndim = true) :
    Eqv (X.transposeF (KoszulP.compose P Q)) ((X.transposeF P).transposeF Q) :=
  transposeF_comp X P Q hv hf hP hQ

theorem blockP_def (q : List Nat) (nL nR : Nat) :
    blockP q nL nR = q ++ (List.range nR).map (nL + ·) := rfl

/-- **S6 as an equivalence** (weak guard, distinct labels): pre-transposing the left operand by
    `p` is transposing the free legs of the result by the induced `q` (`PreT`, C04b) -/
theorem tdotF_pretranspose_eqv [AddCommMonoid R] [Mul R] [Neg R] [SignRing R] [AssocLaws R]
    (a b c : Arr R) (p xa xa' q xb : List Nat)
    (ha : a.validB = true) (hb : b.validB = true) (hfa : a.fermi = true) (hfb : b.fermi = true)
    (hadm : tdotAdmissibleCommonB a b xa xb = true) (hp : Arr.isPerm p a.ndim = true)
    (hT : PreT a.ndim p xa xa' q)
    (hd : (a.oddpos ++ b.oddpos).Pairwise (fun x y => x.1 ≠ y.1))
    (hc : tdF a b xa xb = .ok c) :
    ∃ c', tdF (a.transposeF p) b xa' xb = .ok c' ∧ c'.validB = true ∧ c.validB = true
      ∧ Arr.isPerm (blockP q (freeAxes a.ndim xa).length (freeAxes b.ndim xb).length) c.ndim = true
      ∧ Eqv (c.transposeF (blockP q (freeAxes a.ndim xa).length (freeAxes b.ndim xb).length)) c' :=
  pre_eqv a b p xa xa' q xb (AdmW.of ha hb hfa hfb hadm) hp hT hd c hc

/-- the hypothesis `PreT` is satisfiable for every permutation (`C04.preT_canonical`) -/
example : PreT 3 [1, 2, 0] [2] (positions [1, 2, 0] [2])
    (positions (freeAxes 3 [2]) (permuted [1, 2, 0] (freeAxes 3 (positions [1, 2, 0] [2])))) :=
  preT_canonical 3 [1, 2, 0] [2] (KoszulP.perm_of_isPerm (by decide)) (by decide) (by decide)

theorem exchP_def (fX fZ nY' nZ' nXY : Nat) (xa xa' : List Nat) :
    exchP fX fZ nY' nZ' nXY xa xa'
      = KoszulP.compose
          (blockP (positions (freeAxes (fX + fZ) xa) (permuted (rotB fX fZ) (freeAxes (fX + fZ) xa')))
            (freeAxes (fX + fZ) xa).length nY')
          (rotB nZ' nXY) := rfl

/-- **exchange3.**  Three valid fermionic pieces `X, Y, Z`, bonds `xy ~ yx`, `xz ~ zx`, `yz ~ zy`
    (weak guards, possibly empty), distinct labels, commutative scalars:
    `(X·Z)·Y` transposed by `exchP …` is `Eqv` to `(X·Y)·Z`. -/
theorem exchange3 [AddCommMonoid R] [Mul R] [Neg R] [SignRing R] [AssocLaws R]
    (hmul : ∀ x y : R, x * y = y * x) (X Y Z : Arr R) (xy xz yx yz zx zy : List Nat)
    (hX : X.validB = true) (hY : Y.validB = true) (hZ : Z.validB = true)
    (hfX : X.fermi = true) (hfY : Y.fermi = true) (hfZ : Z.fermi = true)
    (gXY : tdotAdmissibleCommonB X Y xy yx = true) (gXZ : tdotAdmissibleCommonB X Z xz zx = true)
    (gYZ : tdotAdmissibleCommonB Y Z yz zy = true)
    (hnX : (xy ++ xz).Nodup) (hnY : (yx ++ yz).Nodup) (hnZ : (zx ++ zy).Nodup)
    (hd : (X.oddpos ++ Y.oddpos ++ Z.oddpos).Pairwise (fun x y => x.1 ≠ y.1)) :
    ∃ XY XZ c1 c : Arr R,
      tdF X Y xy yx = .ok XY
      ∧ tdF XY Z (Assoc2P.axesAB X.ndim Y.ndim xy xz yx yz) (zx ++ zy) = .ok c1
      ∧ tdF X Z xz zx = .ok XZ
      ∧ tdF XZ Y (Assoc2P.axesAB X.ndim Z.ndim xz xy zx zy) (yx ++ yz) = .ok c
      ∧ c1.validB = true ∧ c.validB = true
      ∧ Arr.isPerm (exchP (freeAxes X.ndim xz).length (freeAxes Z.ndim zx).length
            (freeAxes Y.ndim (yz ++ yx)).length (freeAxes Z.ndim (zx ++ zy)).length
            (freeAxes XY.ndim (Assoc2P.axesAB X.ndim Y.ndim xy xz yx yz)).length
            ((positions (freeAxes Z.ndim zx) zy).map ((freeAxes X.ndim xz).length + ·)
              ++ positions (freeAxes X.ndim xz) xy)
            (Assoc2P.axesAB Z.ndim X.ndim zx zy xz xy)) c.ndim = true
      ∧ Eqv (c.transposeF (exchP (freeAxes X.ndim xz).length (freeAxes Z.ndim zx).length
            (freeAxes Y.ndim (yz ++ yx)).length (freeAxes Z.ndim (zx ++ zy)).length
            (freeAxes XY.ndim (Assoc2P.axesAB X.ndim Y.ndim xy xz yx yz)).length
            ((positions (freeAxes Z.ndim zx) zy).map ((freeAxes X.ndim xz).length + ·)
              ++ positions (freeAxes X.ndim xz) xy)
            (Assoc2P.axesAB Z.ndim X.ndim zx zy xz xy))) c1 := by
  have WXY := AdmW.of hX hY hfX hfY gXY
  have WXZ := AdmW.of hX hZ hfX hfZ gXZ
  have WYZ := AdmW.of hY hZ hfY hfZ gYZ
  have lt2 : ∀ {n : Nat} {p q : List Nat}, (∀ i ∈ p, i < n) → (∀ i ∈ q, i < n) →
      ∀ i ∈ p ++ q, i < n := by
    intro n p q hp hq i hi
    rcases List.mem_append.mp hi with h | h
    · exact hp i h
    · exact hq i h
  exact exchange hmul X Y Z xy xz yx yz zx zy WXY WXZ WYZ (Mid.of hnX (lt2 WXY.ltA WXZ.ltA))
    (Mid.of hnY (lt2 WXY.ltB WYZ.ltA)) (Mid.of hnZ (lt2 WXZ.ltB WYZ.ltB)) hd

/-! non-vacuity of `exchange3`: the chain `cD – gA – cB` (`X = gA`, `Y = cB`, `Z = cD`; no bond `Y–Z`) -/

open SymmModel.C03 in
example : gA.validB = true ∧ cB.validB = true ∧ cD.validB = true
    ∧ gA.fermi = true ∧ cB.fermi = true ∧ cD.fermi = true
    ∧ tdotAdmissibleCommonB gA cB [2] [0] = true ∧ tdotAdmissibleCommonB gA cD [0] [1] = true
    ∧ tdotAdmissibleCommonB cB cD [] [] = true
    ∧ ([2] ++ [0] : List Nat).Nodup ∧ ([0] ++ [] : List Nat).Nodup ∧ ([1] ++ [] : List Nat).Nodup
    ∧ (gA.oddpos ++ cB.oddpos ++ cD.oddpos).Pairwise (fun x y => x.1 ≠ y.1) := by
  refine ⟨by decide +kernel, by decide +kernel, by decide +kernel, by decide +kernel, by decide +kernel,
    by decide +kernel, by decide +kernel, by decide +kernel, by decide +kernel, by decide, by decide,
    by decide, by decide +kernel⟩

open SymmModel.C03 in
/-- `(gA·cB)·cD`, legs `k, k', j, m'` -/
def exXYZ : Arr Int :=
  resOf (tdF (resOf (tdF gA cB [2] [0])) cD (Assoc2P.axesAB 3 3 [2] [0] [0] []) ([1] ++ []))
open SymmModel.C03 in
/-- `(gA·cD)·cB`, legs `k, m', k', j` -/
def exXZY : Arr Int :=
  resOf (tdF (resOf (tdF gA cD [0] [1])) cB (Assoc2P.axesAB 3 2 [0] [2] [1] []) ([0] ++ []))

/-- on this instance the permutation of `exchange3` is the block move `[k, m', k', j] → [k, k', j, m']`;
    the two results have the same labels; their values differ by the Koszul sign in the two
    sectors where `m'` and `(k', j)` are both odd, and `transposeF` restores equality -/
example :
    exchP 2 1 2 1 3 [1] [2] = [0, 2, 3, 1] ∧ exXYZ.oddpos = exXZY.oddpos
    ∧ exXYZ.sectors.map (fun s => (exXYZ.elem s [0,0,0,0], (exXZY.transposeF [0,2,3,1]).elem s [0,0,0,0],
          exXZY.elem (permuted s [0,3,1,2]) [0,0,0,0]))
      = [(8, 8, 8), (20, 20, 20), (2, 2, -2), (5, 5, -5), (9, 9, 9), (38, 38, 38)] := by
  decide +kernel

/-! ### all orderings of four tensors -/

theorem net4_defs [Zero R] [Add R] [Mul R] [Neg R] (N : Net4 R) (i j k l : Fin 4) :
    N.r1 i j k l = routeS1 (N.T i) (N.T j) (N.T k) (N.T l) (N.b i j) (N.b i k) (N.b i l) (N.b j i)
      (N.b j k) (N.b j l) (N.b k i) (N.b k j) (N.b k l) (N.b l i) (N.b l j) (N.b l k)
      false false false := rfl

theorem net4_ok_def [AddCommMonoid R] [Mul R] [Neg R] [SignRing R] (N : Net4 R) :
    N.OK ↔ ((∀ i, (N.T i).validB = true) ∧ (∀ i, (N.T i).fermi = true)
      ∧ (∀ i j, i ≠ j → tdotAdmissibleCommonB (N.T i) (N.T j) (N.b i j) (N.b j i) = true)
      ∧ (∀ i j k l : Fin 4, [i, j, k, l].Nodup → (N.b i j ++ N.b i k ++ N.b i l).Nodup)
      ∧ (∀ i j k l : Fin 4, [i, j, k, l].Nodup →
          ((N.T i).oddpos ++ (N.T j).oddpos ++ (N.T k).oddpos ++ (N.T l).oddpos).Pairwise
            (fun x y => x.1 ≠ y.1))) :=
  ⟨fun h => ⟨h.valid, h.fermi, h.adm, h.nodup, h.labels⟩, fun ⟨a, b, c, d, e⟩ => ⟨a, b, c, d, e⟩⟩

/-- **net4_all_orders.**  Every ordering of the four tensors: the left-nested contraction is a
    fermionic transpose of the one in the order `0, 1, 2, 3`. -/
theorem net4_all_orders [AddCommMonoid R] [Mul R] [Neg R] [SignRing R] [AssocLaws R]
    (hmul : ∀ x y : R, x * y = y * x) (N : Net4 R) (hN : N.OK) (i j k l : Fin 4)
    (hn : [i, j, k, l].Nodup) :
    ∃ T T0 : Arr R, N.r1 i j k l = .ok T ∧ N.r1 0 1 2 3 = .ok T0 ∧ T.validB = true ∧ T.fermi = true
      ∧ T0.validB = true ∧ TEq T T0 :=
  all_orders hmul hN i j k l hn

/-- **net4_every_route.**  Any ordering, any of the five bracketings, any assignment of operand-order
    flags: a fermionic transpose of the reference contraction `((T₀·T₁)·T₂)·T₃`. -/
theorem net4_every_route [AddCommMonoid R] [Mul R] [Neg R] [SignRing R] [AssocLaws R]
    (hmul : ∀ x y : R, x * y = y * x) (N : Net4 R) (hN : N.OK) (i j k l : Fin 4)
    (hn : [i, j, k, l].Nodup) (f : Fin 15 → Bool) :
    ∃ T0 U1 U2 U3 U4 U5 : Arr R, N.r1 0 1 2 3 = .ok T0
      ∧ routeS1 (N.T i) (N.T j) (N.T k) (N.T l) (N.b i j) (N.b i k) (N.b i l) (N.b j i) (N.b j k) (N.b j l)
          (N.b k i) (N.b k j) (N.b k l) (N.b l i) (N.b l j) (N.b l k) (f 0) (f 1) (f 2) = .ok U1
      ∧ routeS2 (N.T i) (N.T j) (N.T k) (N.T l) (N.b i j) (N.b i k) (N.b i l) (N.b j i) (N.b j k) (N.b j l)
          (N.b k i) (N.b k j) (N.b k l) (N.b l i) (N.b l j) (N.b l k) (f 3) (f 4) (f 5) = .ok U2
      ∧ routeS3 (N.T i) (N.T j) (N.T k) (N.T l) (N.b i j) (N.b i k) (N.b i l) (N.b j i) (N.b j k) (N.b j l)
          (N.b k i) (N.b k j) (N.b k l) (N.b l i) (N.b l j) (N.b l k) (f 6) (f 7) (f 8) = .ok U3
      ∧ routeS4 (N.T i) (N.T j) (N.T k) (N.T l) (N.b i j) (N.b i k) (N.b i l) (N.b j i) (N.b j k) (N.b j l)
          (N.b k i) (N.b k j) (N.b k l) (N.b l i) (N.b l j) (N.b l k) (f 9) (f 10) (f 11) = .ok U4
      ∧ routeS5 (N.T i) (N.T j) (N.T k) (N.T l) (N.b i j) (N.b i k) (N.b i l) (N.b j i) (N.b j k) (N.b j l)
          (N.b k i) (N.b k j) (N.b k l) (N.b l i) (N.b l j) (N.b l k) (f 12) (f 13) (f 14) = .ok U5
      ∧ TEq U1 T0 ∧ TEq U2 T0 ∧ TEq U3 T0 ∧ TEq U4 T0 ∧ TEq U5 T0 := by
  obtain ⟨T, T0, e, e0, v, fT, v0, t⟩ := all_orders hmul hN i j k l hn
  have H := hN.k4h hn
  obtain ⟨T1, e1, v1, hall⟩ := k4_flagged hmul (N.T i) (N.T j) (N.T k) (N.T l) (N.b i j) (N.b i k)
    (N.b i l) (N.b j i) (N.b j k) (N.b j l) (N.b k i) (N.b k j) (N.b k l) (N.b l i) (N.b l j) (N.b l k)
    H.WAB H.WAC H.WAD H.WBC H.WBD H.WCD H.hnA H.hnB H.hnC H.hnD H.hd
  have e' : N.r1 i j k l = .ok T1 := e1
  rw [e] at e'
  obtain rfl := Except.ok.inj e'
  obtain ⟨U1, U2, U3, U4, U5, a1, a2, a3, a4, a5, q1, q2, q3, q4, q5, w1, w2, w3, w4, w5⟩ := hall f
  have key : ∀ U : Arr R, Eqv U T → U.validB = true → TEq U T0 := fun U q w =>
    TEq.trans (TEq.of_eqv q w (by rw [q.fermi]; exact fT)) t w (by rw [q.fermi]; exact fT) v
  exact ⟨T0, U1, U2, U3, U4, U5, e0, a1, a2, a3, a4, a5, key U1 q1 w1, key U2 q2 w2, key U3 q3 w3,
    key U4 q4 w4, key U5 q5 w5⟩

/-- `U` is a valid fermionic array of which the reference contraction `((T₀·T₁)·T₂)·T₃` is a
    fermionic transpose -/
def Ref [AddCommMonoid R] [Mul R] [Neg R] (N : Net4 R) (U : Arr R) : Prop :=
  ∃ T0 : Arr R, N.r1 0 1 2 3 = .ok T0 ∧ U.validB = true ∧ U.fermi = true ∧ TEq U T0

theorem ref_def [AddCommMonoid R] [Mul R] [Neg R] (N : Net4 R) (U : Arr R) :
    Ref N U ↔ ∃ T0 : Arr R, N.r1 0 1 2 3 = .ok T0 ∧ U.validB = true ∧ U.fermi = true ∧ TEq U T0 :=
  Iff.rfl

/-- `net4_every_route` with validity: every result is a `Ref` -/
theorem net4_every_route_ref [AddCommMonoid R] [Mul R] [Neg R] [SignRing R] [AssocLaws R]
    (hmul : ∀ x y : R, x * y = y * x) (N : Net4 R) (hN : N.OK) (i j k l : Fin 4)
    (hn : [i, j, k, l].Nodup) (f : Fin 15 → Bool) :
    ∃ U1 U2 U3 U4 U5 : Arr R,
      routeS1 (N.T i) (N.T j) (N.T k) (N.T l) (N.b i j) (N.b i k) (N.b i l) (N.b j i) (N.b j k) (N.b j l)
          (N.b k i) (N.b k j) (N.b k l) (N.b l i) (N.b l j) (N.b l k) (f 0) (f 1) (f 2) = .ok U1
      ∧ routeS2 (N.T i) (N.T j) (N.T k) (N.T l) (N.b i j) (N.b i k) (N.b i l) (N.b j i) (N.b j k) (N.b j l)
          (N.b k i) (N.b k j) (N.b k l) (N.b l i) (N.b l j) (N.b l k) (f 3) (f 4) (f 5) = .ok U2
      ∧ routeS3 (N.T i) (N.T j) (N.T k) (N.T l) (N.b i j) (N.b i k) (N.b i l) (N.b j i) (N.b j k) (N.b j l)
          (N.b k i) (N.b k j) (N.b k l) (N.b l i) (N.b l j) (N.b l k) (f 6) (f 7) (f 8) = .ok U3
      ∧ routeS4 (N.T i) (N.T j) (N.T k) (N.T l) (N.b i j) (N.b i k) (N.b i l) (N.b j i) (N.b j k) (N.b j l)
          (N.b k i) (N.b k j) (N.b k l) (N.b l i) (N.b l j) (N.b l k) (f 9) (f 10) (f 11) = .ok U4
      ∧ routeS5 (N.T i) (N.T j) (N.T k) (N.T l) (N.b i j) (N.b i k) (N.b i l) (N.b j i) (N.b j k) (N.b j l)
          (N.b k i) (N.b k j) (N.b k l) (N.b l i) (N.b l j) (N.b l k) (f 12) (f 13) (f 14) = .ok U5
      ∧ Ref N U1 ∧ Ref N U2 ∧ Ref N U3 ∧ Ref N U4 ∧ Ref N U5 := by
  obtain ⟨T, T0, e, e0, v, fT, v0, t⟩ := all_orders hmul hN i j k l hn
  have H := hN.k4h hn
  obtain ⟨T1, e1, v1, hall⟩ := k4_flagged hmul (N.T i) (N.T j) (N.T k) (N.T l) (N.b i j) (N.b i k)
    (N.b i l) (N.b j i) (N.b j k) (N.b j l) (N.b k i) (N.b k j) (N.b k l) (N.b l i) (N.b l j) (N.b l k)
    H.WAB H.WAC H.WAD H.WBC H.WBD H.WCD H.hnA H.hnB H.hnC H.hnD H.hd
  have e' : N.r1 i j k l = .ok T1 := e1
  rw [e] at e'
  obtain rfl := Except.ok.inj e'
  obtain ⟨U1, U2, U3, U4, U5, a1, a2, a3, a4, a5, q1, q2, q3, q4, q5, w1, w2, w3, w4, w5⟩ := hall f
  have key : ∀ U : Arr R, Eqv U T → U.validB = true → Ref N U := fun U q w =>
    ⟨T0, e0, w, by rw [q.fermi]; exact fT,
      TEq.trans (TEq.of_eqv q w (by rw [q.fermi]; exact fT)) t w (by rw [q.fermi]; exact fT) v⟩
  exact ⟨U1, U2, U3, U4, U5, a1, a2, a3, a4, a5, key U1 q1 w1, key U2 q2 w2, key U3 q3 w3,
    key U4 q4 w4, key U5 q5 w5⟩

/-- **net4_routes_agree.**  Two results of ANY two routes (orderings, bracketings, operand orders)
    of the same network, each brought to the leg order of the reference contraction by a fermionic
    transpose, are equivalent: same `to_dense()`, labels, charge, index tables. -/
theorem net4_routes_agree [AddCommMonoid R] [Mul R] [Neg R] [SignRing R] (N : Net4 R) (U U' : Arr R)
    (h : Ref N U) (h' : Ref N U') :
    ∃ P P', Arr.isPerm P U.ndim = true ∧ Arr.isPerm P' U'.ndim = true
      ∧ Eqv (U.transposeF P) (U'.transposeF P')
      ∧ (U.transposeF P).toDenseF = (U'.transposeF P').toDenseF
      ∧ U.oddpos = U'.oddpos ∧ U.charge = U'.charge
      ∧ permuted U.indices P = permuted U'.indices P' := by
  obtain ⟨T0, e0, v, f, P, hP, q⟩ := h
  obtain ⟨T0', e0', v', f', P', hP', q'⟩ := h'
  rw [e0] at e0'
  obtain rfl := Except.ok.inj e0'
  have TT := transOf_transposeF U P v f hP
  have TT' := transOf_transposeF U' P' v' f' hP'
  have hE := q.trans q'.symm
  exact ⟨P, P', hP, hP', hE, hE.toDenseF (transposeF_validB U P v f hP),
    q.oddpos.trans q'.oddpos.symm, q.charge.trans q'.charge.symm,
    by rw [← TT.indices, ← TT'.indices]; exact hE.indices⟩

/-! ### non-vacuity: the square as a `Net4` -/

open SymmModel.C03 in
/-- the square `gA – cB – cC – cD – gA` -/
def exNet : Net4 Int where
  T := fun i => match i with
    | 0 => gA
    | 1 => cB
    | 2 => cC
    | 3 => cD
  b := fun i j => match i, j with
    | 0, 1 => [2]
    | 1, 0 => [0]
    | 1, 2 => [2]
    | 2, 1 => [0]
    | 2, 3 => [1]
    | 3, 2 => [0]
    | 0, 3 => [0]
    | 3, 0 => [1]
    | _, _ => []

theorem exNet_ok : exNet.OK ∧ (∀ x y : Int, x * y = y * x) := by
  have hl : ∀ i j k l : Fin 4, [i, j, k, l].Nodup →
      ((exNet.T i).oddpos ++ (exNet.T j).oddpos ++ (exNet.T k).oddpos ++ (exNet.T l).oddpos).Pairwise
        (fun x y => x.1 ≠ y.1) := by decide +kernel
  exact ⟨⟨by decide +kernel, by decide +kernel, by decide +kernel, by decide +kernel, hl⟩,
    Int.mul_comm⟩

/-- sanity instance: the left-nested contraction of the square in six different orders (same
    labels; rank 2; one sector; the value up to the sign of the transposition) -/
example :
    ([exNet.r1 0 1 2 3, exNet.r1 0 2 1 3, exNet.r1 3 2 1 0, exNet.r1 1 3 0 2, exNet.r1 2 0 3 1,
      exNet.r1 0 3 2 1].map
      (fun (t : Except Err (Arr Int)) => (C04.labelsOf t, (resOf t).indices.length,
        (resOf t).sectors.length, elemOf t [(0,0),(0,0)] [0,0])))
      = List.replicate 6 ([(5, true), (1, false), (3, false), (7, false)], 2, 1, some (-140)) := by
  decide +kernel

end SymmModel.C04
