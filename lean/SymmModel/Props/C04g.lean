/-
  Property C04 (route independence) — operand order at ANY node of a chain bracketing, S5/S6 under
  the weak guard, and the label check of the norm network for symbolic labels (≤ 2 per tensor).
  MODEL: `Arr.tensordotF`, `Arr.transposeF` (Model/Fermi.lean), `resolveScan` (label sort),
  `mode = blockwise`; scalars as in C04c–f, commutative `*` where operands are exchanged.

  PROVED (no `_partial`):
  (1) contraction order AND operand order
    `tdotF_pretranspose_weak`  S6 (`C04.tdotF_pretranspose`) with `contractibleCommonB`;
    `tdotF_swap_eqv`           S5 as an equivalence: `b·a` followed by `transposeF` along the rotation
                               `rotB` (second free block in front; `transposeF` multiplies every
                               sector by the Koszul sign of the rotation) is `Eqv` to `a·b`;
    `chain_swapped_bracketing` a bracketing tree of a chain with a Boolean flag at every node
                               (`FTree`; `true` = operands exchanged, evaluated by `compS` =
                               swapped call followed by that `transposeF`): for ANY assignment of
                               flags the evaluation succeeds, is valid, and is `SegEqv` to the
                               evaluation of the unflagged bracketing — hence (`chain_bracketing`,
                               C04f) to the left-nested contraction; `chain_swapped_dense`: same
                               `to_dense()`, labels, charge, index tables.
    The explicit transposition and the Koszul rotation sign S5 prescribes are both inside
    `compS` (`compS_def`, `rotB_def`): the statement is "swap, rotate back with `transposeF`,
    continue", at every swapped node.
  (2) labels of the norm network
    `resolveScan_order_type`   the label scan commutes with every relabelling that is an order
                               embedding on the labels present (it only compares labels);
    `netLabelsB_order_type`    hence the label check `NormNet.netLabelsB` transfers along order
                               embeddings;
    `netLabelsB_two`           `netLabelsB pA pB oA oB = true` for ALL sorted ket lists with at most
                               two labels each, symbolic labels, all 19 order types, all parities
                               (each order type decided on its representative with labels `0..3`).
  NOT proved: `netLabelsB` for `k ≥ 3` labels per tensor.  The transfer principle reduces every
  fixed `(|oA|, |oB|)` to finitely many decidable instances, but a proof for all `k` still needs
  the normal-form theory of the scan (insertion sort with cancellation) — not done.
-/
import SymmModel.Proofs.Assoc5Tree
import SymmModel.Proofs.Assoc5Two
import SymmModel.Props.C04f

namespace SymmModel.C04
open SymmModel SymmModel.GradedP SymmModel.TdotP SymmModel.RoutesP SymmModel.AssocP SymmModel.Assoc3P
  SymmModel.Assoc4P SymmModel.Assoc5P

variable {R : Type}

/-! ## (1) operand order -/

theorem rotB_def (nR nL : Nat) : rotB nR nL = (List.range nL).map (nR + ·) ++ List.range nR := rfl

theorem compS_def [Zero R] [Add R] [Mul R] [Neg R] (S1 S2 : Seg R) :
    compS S1 S2 = (tdF S2.arr S1.arr S2.l S1.r).map (fun z =>
      ⟨z.transposeF (rotB (freeAxes S2.arr.ndim S2.l).length (freeAxes S1.arr.ndim S1.r).length),
        positions (freeAxes S1.arr.ndim S1.r) S1.l,
        AssocP.axesAB S1.arr.ndim S2.arr.ndim S1.r S2.l S2.r⟩) := rfl

theorem ftree_defs [Zero R] [Add R] [Mul R] [Neg R] (S : Seg R) (sw : Bool) (a b : FTree R) :
    (FTree.leaf S).eval = .ok S
    ∧ (FTree.node sw a b).eval = (match a.eval, b.eval with
        | .ok s1, .ok s2 => if sw then compS s1 s2 else s1.comp s2
        | .error e, _ => .error e
        | .ok _, .error e => .error e)
    ∧ (FTree.leaf S).strip = .leaf S ∧ (FTree.node sw a b).strip = .node a.strip b.strip :=
  ⟨rfl, rfl, rfl, rfl⟩

/-- **S6 under the weak guard** -/
theorem tdotF_pretranspose_weak [AddMonoid R] [Mul R] [Neg R] [SignRing R] (a b c : Arr R)
    (p xa xa' q xb : List Nat)
    (ha : a.validB = true) (hb : b.validB = true) (hfa : a.fermi = true) (hfb : b.fermi = true)
    (hadm : tdotAdmissibleCommonB a b xa xb = true) (hp : Arr.isPerm p a.ndim = true)
    (hT : PreT a.ndim p xa xa' q)
    (hc : a.tensordotF b (.pair (xa.map Int.ofNat) (xb.map Int.ofNat)) .blockwise = .ok c) :
    ∃ c', (a.transposeF p).tensordotF b (.pair (xa'.map Int.ofNat) (xb.map Int.ofNat)) .blockwise = .ok c'
      ∧ c'.oddpos = c.oddpos ∧ c'.charge = c.charge ∧ c'.sym = c.sym ∧ c'.fermi = c.fermi
      ∧ ∀ (L Rr : Sector) (oL oR : List Nat), L.length = (freeAxes a.ndim xa).length →
          oL.length = (freeAxes a.ndim xa).length →
          inBox (Arr.blockShapeD (without a.indices xa ++ without b.indices xb) (L ++ Rr))
            (oL ++ oR) = true →
          c'.elem (permuted L q ++ Rr) (permuted oL q ++ oR)
            = Lazy.sgnI (koszul (L.map a.sym.parity) (some q)) (c.elem (L ++ Rr) (oL ++ oR)) :=
  tdotF_pretranspose_w a b c p xa xa' q xb (AdmW.of ha hb hfa hfb hadm) hp hT hc

/-- **S5 as an equivalence** (weak guard, commutative scalars, distinct labels) -/
theorem tdotF_swap_eqv [AddCommMonoid R] [Mul R] [Neg R] [SignRing R] [AssocLaws R]
    (hmul : ∀ x y : R, x * y = y * x) (a b c : Arr R) (xa xb : List Nat)
    (ha : a.validB = true) (hb : b.validB = true) (hfa : a.fermi = true) (hfb : b.fermi = true)
    (hadm : tdotAdmissibleCommonB a b xa xb = true)
    (hd : (a.oddpos ++ b.oddpos).Pairwise (fun x y => x.1 ≠ y.1))
    (hc : tdF a b xa xb = .ok c) :
    ∃ c', tdF b a xb xa = .ok c' ∧ c'.validB = true
      ∧ (c'.transposeF (rotB (freeAxes b.ndim xb).length (freeAxes a.ndim xa).length)).validB = true
      ∧ Eqv (c'.transposeF (rotB (freeAxes b.ndim xb).length (freeAxes a.ndim xa).length)) c :=
  swap_eqv hmul (AdmW.of ha hb hfa hfb hadm) hd c hc

/-- **chain_swapped_bracketing.**  Any bracketing of a chain, any subset of its nodes evaluated
    with the operands exchanged (and rotated back): same result as the plain bracketing. -/
theorem chain_swapped_bracketing [AddCommMonoid R] [Mul R] [Neg R] [SignRing R] [AssocLaws R]
    (hmul : ∀ x y : R, x * y = y * x) (t : FTree R) (hok : t.strip.OK)
    (hd : t.strip.labels.Pairwise (fun x y => x.1 ≠ y.1)) :
    ∃ X T TL, t.eval = .ok X ∧ t.strip.eval = .ok T
      ∧ evalL t.strip.first t.strip.rest = .ok TL
      ∧ SegEqv X T ∧ SegEqv X TL ∧ X.arr.validB = true := by
  obtain ⟨X, T, e1, e2, h, v, _⟩ := ftree_eqv hmul t hok hd
  obtain ⟨T', TL, d1, _, d2, _, h'⟩ := tree_eqv_leftnested t.strip hok hd
  rw [e2] at d1
  obtain rfl := Except.ok.inj d1
  exact ⟨X, T, TL, e1, e2, d2, h, h.trans h', v⟩

/-- … at `to_dense()` level -/
theorem chain_swapped_dense [AddCommMonoid R] [Mul R] [Neg R] [SignRing R] [AssocLaws R]
    (hmul : ∀ x y : R, x * y = y * x) (t : FTree R) (X TL : Seg R) (hok : t.strip.OK)
    (hd : t.strip.labels.Pairwise (fun x y => x.1 ≠ y.1))
    (e : t.eval = .ok X) (eL : evalL t.strip.first t.strip.rest = .ok TL) :
    X.arr.toDenseF = TL.arr.toDenseF ∧ X.arr.oddpos = TL.arr.oddpos ∧ X.arr.charge = TL.arr.charge
      ∧ X.arr.indices = TL.arr.indices ∧ X.l = TL.l ∧ X.r = TL.r := by
  obtain ⟨X', T, TL', e1, _, e3, _, h, v⟩ := chain_swapped_bracketing hmul t hok hd
  rw [e] at e1
  obtain rfl := Except.ok.inj e1
  rw [eL] at e3
  obtain rfl := Except.ok.inj e3
  exact ⟨h.1.toDenseF v, h.1.oddpos, h.1.charge, h.1.indices, h.2.1, h.2.2⟩

/-! ## (2) labels -/

/-- the label scan only depends on the order type of the labels -/
theorem resolveScan_order_type {f : Int → Int} {P : Int → Prop} (hf : Emb f P) (fuel : Nat)
    (pre post : List (Int × Bool)) (ph : Int) (hP : ∀ a ∈ pre ++ post, P a.1) :
    resolveScan fuel (pre.map (relab f)) (post.map (relab f)) ph
      = (resolveScan fuel pre post ph).map (fun r => (r.1.map (relab f), r.2)) :=
  resolveScan_relab hf fuel pre post ph hP

theorem emb_def (f : Int → Int) (P : Int → Prop) :
    Emb f P ↔ ∀ x y, P x → P y → ((f x = f y ↔ x = y) ∧ (f x < f y ↔ x < y)) := Iff.rfl

theorem netLabelsB_order_type {f : Int → Int} {P : Int → Prop} (hf : Emb f P) (pA pB : Bool)
    (oA oB : List (Int × Bool)) (hP : ∀ a ∈ oA ++ oB, P a.1)
    (h : NormNet.netLabelsB pA pB oA oB = true) :
    NormNet.netLabelsB pA pB (oA.map (relab f)) (oB.map (relab f)) = true :=
  netLabelsB_relab hf pA pB oA oB hP h

/-- **the label check of the norm network for at most two sorted ket labels per tensor** -/
theorem netLabelsB_two (oA oB : List (Int × Bool)) (hA : NormNet.KetLabels oA)
    (hB : NormNet.KetLabels oB) (lA : oA.length ≤ 2) (lB : oB.length ≤ 2)
    (hd : (oA ++ oB).Pairwise (fun x y => x.1 ≠ y.1)) (pA pB : Bool) :
    NormNet.netLabelsB pA pB oA oB = true :=
  Assoc5P.netLabelsB_two oA oB hA hB lA lB hd pA pB

example : NormNet.KetLabels [((4 : Int), false), (9, false)] ∧ NormNet.KetLabels [((6 : Int), false), (11, false)]
    ∧ ([((4 : Int), false), (9, false)] ++ [(6, false), (11, false)]).Pairwise
        (fun (x y : Int × Bool) => x.1 ≠ y.1) := by
  refine ⟨⟨by decide, by decide⟩, ⟨by decide, by decide⟩, by decide⟩

/-! ## non-vacuity of (1): the chain of C04f with two of its three nodes swapped -/

/-- `(B·A)ᵗ · (C·D)` with the root swapped as well -/
def exFTree : FTree Int :=
  .node true (.node true (.leaf sA) (.leaf sB)) (.node false (.leaf sC) (.leaf sD))

example : exFTree.strip = exTree ∧ exFTree.strip.OK
    ∧ exFTree.strip.labels.Pairwise (fun x y => x.1 ≠ y.1) ∧ (∀ x y : Int, x * y = y * x) :=
  ⟨rfl, exTree_ok.1, exTree_ok.2.1, Int.mul_comm⟩

/-- sanity instance: the doubly swapped evaluation and the plain one give the same labels, open
    bonds and values -/
example :
    ([segOf exFTree.eval, segOf exTree.eval].map (fun s =>
      (s.arr.oddpos, s.l, s.r, s.arr.elem [(1,0),(0,0),(0,0),(1,0)] [0,0,0,0],
        s.arr.elem [(0,0),(1,0),(0,0),(1,0)] [1,1,0,0])))
      = List.replicate 2 ([(5, true), (1, false), (3, false), (7, false)], [], [], 140, 280) := by
  decide +kernel

end SymmModel.C04
