/-
  Property C11 — umbrella: everything in C11All4 plus C11g (eigh / solve through `tensordot` in
  every mode; the fermionic array-level isometry with its explicit sign; structure and isometry of
  `svd_truncated`'s outputs; fermionic `eigh` with dual labels).
-/
import SymmModel.Props.C11All4
import SymmModel.Props.C11g
