import SymmModel.Props.C04All4
import SymmModel.Props.C04e
