/-
  Umbrella for property C02: the blockwise theorems (C02, C02b) together with the theorems that
  carry them over to the fused and auto contraction paths (C06b: fused result = blockwise result
  at every stored element, extra blocks are zero, modes agree).
-/
import SymmModel.Props.C02All
import SymmModel.Props.C06All
