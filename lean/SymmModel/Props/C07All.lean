/-
  Property C07 — umbrella module: both parts of the property theorems.
-/
import SymmModel.Props.C07
import SymmModel.Props.C07b
