/-
  C06 (third part) — the contraction strategies agree for operands of ANY kind, and the
  fermionic contraction `tensordot_fermionic` in `mode = fused` / `auto`.

  * `tensordotA_kind_blind`: the abelian kernel `tensordotA` (every mode) does not look at the kind
    flag and the labels of its operands — it is the kernel on the operands with both erased
    (`TdotP.ab`), with the left operand's flag and labels put back on the result.
  * `tensordotA_synced_modes`: fused = blockwise (`TdotP.SameView`) for valid operands of any kind
    whose pending signs are synced (`phases = []`) — what `tensordot_fermionic` hands to the kernel
    after `phase_sync`.  Aligned blocks or not.
  * `tensordotF_modes_agree`: `Arr.tensordotF` with `mode = fused` or `auto` succeeds exactly when
    `mode = blockwise` does; same labels, charge, symmetry, kind, rank; every blockwise sector
    stored; every stored entry (pending sign included) equal to the blockwise element; hence extra
    blocks zero.  (The pending-sign TABLES are not claimed equal: an extra all-zero block also
    gets an entry when the global label sign is `-1`.)
  * transfer of the blockwise-only theorems to `mode = fused / auto`:
    `tensordotF_to_blockwise` (the general transfer step), `tensordotF_refines_graded_any_mode`
    (C03), `tdotF_axes_perm_any_mode` (C04 S4), `tdotF_pretranspose_any_mode` (S6),
    `tdotF_swap_any_mode` (S5).  They hold at every address that lies in the operands' table box
    (as in the blockwise theorems) AND in the box of the fused-mode result's own block for that
    sector (condition `OwnBox`; vacuous for sectors the result does not store).  For a valid result
    the two boxes coincide, but that coincidence is not proved here (PLANNED).

  Scope (as in `C06b.tensordotFused_obs_eq_blockwise`): a non-empty contraction in which each
  operand keeps at least one free axis.  NOT covered: an operand that is contracted completely
  (vector / scalar results) and an empty contraction in fused mode; S7 for fused mode;
  `tensordot_fuse_commute`.
-/
import SymmModel.Props.C06All
import SymmModel.Props.C04c
import SymmModel.Proofs.TdotFused9

namespace SymmModel.C06
open SymmModel SymmModel.TdotP SymmModel.GradedP SymmModel.RoutesP
open SymmModel.Lazy (sgnI)

variable {R : Type}

/-! ## the kernel is blind to kind and labels -/

/-- **tensordotA_kind_blind.** -/
theorem tensordotA_kind_blind [Zero R] [Add R] [Mul R] (a b : Arr R) (axes : AxesArg) (mode : TdotMode) :
    tensordotA (ab a) (ab b) axes mode = (tensordotA a b axes mode).map ab
    ∧ tensordotA a b axes mode = (tensordotA (ab a) (ab b) axes mode).map (relab a.fermi a.oddpos)
    ∧ ∀ c, tensordotA a b axes mode = .ok c → c.fermi = a.fermi ∧ c.oddpos = a.oddpos :=
  ⟨tensordotA_ab a b axes mode, tensordotA_via_ab a b axes mode, fun _ h => tensordotA_fields h⟩

/-- **tensordotA_synced_modes.**  Valid operands of any kind with synced signs, matching contracted
    legs, non-empty contraction, a free axis left on each side: the fused strategy succeeds and its
    result has the value view of the blockwise result. -/
theorem tensordotA_synced_modes [AddCommMonoid R] [Mul R] [Neg R]
    (hz1 : ∀ x : R, 0 * x = 0) (hz2 : ∀ x : R, x * 0 = 0) (X Y : Arr R) (xa xb : List Nat)
    (hvX : X.validB = true) (hvY : Y.validB = true) (hpX : X.phases = []) (hpY : Y.phases = [])
    (hsym : X.sym = Y.sym) (hc : ValidP.contractibleB X Y xa xb = true)
    (hnA : xa.Nodup) (hnB : xb.Nodup) (hA : ∀ x ∈ xa, x < X.ndim) (hB : ∀ x ∈ xb, x < Y.ndim)
    (hneK : xa ≠ []) (hneL : freeAxes X.ndim xa ≠ []) (hneR : freeAxes Y.ndim xb ≠ []) :
    ∃ c, tensordotViaFused X Y (freeAxes X.ndim xa) xa xb (freeAxes Y.ndim xb) = .ok c
      ∧ SameView c (tensordotBlockwise X Y (freeAxes X.ndim xa) xa xb (freeAxes Y.ndim xb))
      ∧ c.sectors.Nodup :=
  viaFused_synced_all hz1 hz2 X Y xa xb ((ValidP.validB_iff X).mp hvX) ((ValidP.validB_iff Y).mp hvY)
    hpX hpY hsym hc hnA hnB hA hB hneK hneL hneR

/-! ## `tensordot_fermionic`: fused / auto = blockwise -/

/-- **tensordotF_modes_agree.** -/
theorem tensordotF_modes_agree [AddCommMonoid R] [Mul R] [Neg R] [SignRing R]
    (hz1 : ∀ x : R, 0 * x = 0) (hz2 : ∀ x : R, x * 0 = 0) (a b : Arr R) (xa xb : List Nat)
    (h : Adm a b xa xb) (hne : xa ≠ []) (hL : xa.length < a.ndim) (hR : xb.length < b.ndim)
    (mode : TdotMode) (hmode : mode = .fused ∨ mode = .auto) :
    (∀ e, OddposP.mergeOddpos a.parity a.oddpos b.oddpos = .error e →
        a.tensordotF b (.pair (xa.map Int.ofNat) (xb.map Int.ofNat)) mode = .error e
        ∧ a.tensordotF b (.pair (xa.map Int.ofNat) (xb.map Int.ofNat)) .blockwise = .error e)
    ∧ (∀ r, OddposP.mergeOddpos a.parity a.oddpos b.oddpos = .ok r →
        ∃ rm rb, a.tensordotF b (.pair (xa.map Int.ofNat) (xb.map Int.ofNat)) mode = .ok rm
          ∧ a.tensordotF b (.pair (xa.map Int.ofNat) (xb.map Int.ofNat)) .blockwise = .ok rb
          ∧ rm.oddpos = rb.oddpos ∧ rm.charge = rb.charge ∧ rm.sym = rb.sym ∧ rm.fermi = rb.fermi
          ∧ rm.indices.length = rb.indices.length
          ∧ (∀ s ∈ rb.sectors, s ∈ rm.sectors)
          ∧ (∀ K V, alookup rm.blocks K = some V → ∀ J, inBox V.shape J = true →
              rm.elem K J = rb.elem K J)) :=
  tensordotF_modes_agree' hz1 hz2 a b xa xb h hne hL hR mode hmode

/-- `o` lies in the box of `c`'s own block for the sector `s` (no condition if `s` is not stored) -/
def OwnBox (c : Arr R) (s : Sector) (o : List Nat) : Prop :=
  ∀ V, alookup c.blocks s = some V → inBox V.shape o = true

/-- **transfer step.**  A successful fused / auto call comes with a successful blockwise call whose
    result has the same labels, charge, symmetry, kind and rank and the same element at every
    address inside the fused-mode result's own boxes. -/
theorem tensordotF_to_blockwise [AddCommMonoid R] [Mul R] [Neg R] [SignRing R]
    (hz1 : ∀ x : R, 0 * x = 0) (hz2 : ∀ x : R, x * 0 = 0) (a b rm : Arr R) (xa xb : List Nat)
    (h : Adm a b xa xb) (hne : xa ≠ []) (hL : xa.length < a.ndim) (hR : xb.length < b.ndim)
    (mode : TdotMode) (hmode : mode = .fused ∨ mode = .auto)
    (hm : a.tensordotF b (.pair (xa.map Int.ofNat) (xb.map Int.ofNat)) mode = .ok rm) :
    ∃ rb, a.tensordotF b (.pair (xa.map Int.ofNat) (xb.map Int.ofNat)) .blockwise = .ok rb
      ∧ rm.oddpos = rb.oddpos ∧ rm.charge = rb.charge ∧ rm.sym = rb.sym ∧ rm.fermi = rb.fermi
      ∧ rm.indices.length = rb.indices.length
      ∧ (∀ s ∈ rb.sectors, s ∈ rm.sectors)
      ∧ ∀ s o, OwnBox rm s o → rm.elem s o = rb.elem s o := by
  obtain ⟨he, hk⟩ := tensordotF_modes_agree' hz1 hz2 a b xa xb h hne hL hR mode hmode
  cases hmo : OddposP.mergeOddpos a.parity a.oddpos b.oddpos with
  | error e => rw [(he e hmo).1] at hm; cases hm
  | ok r =>
    obtain ⟨rm', rb, h1, h2, f1, f2, f3, f4, f5, hsec, hel⟩ := hk r hmo
    rw [h1] at hm
    cases hm
    exact ⟨rb, h2, f1, f2, f3, f4, f5, hsec, fun s o hb => elem_everywhere hsec hel s o hb⟩

/-- **C03 for fused / auto mode: tensordotF_refines_graded_any_mode.** -/
theorem tensordotF_refines_graded_any_mode [AddCommMonoid R] [Mul R] [Neg R] [SignRing R]
    (hz1 : ∀ x : R, 0 * x = 0) (hz2 : ∀ x : R, x * 0 = 0) (a b c : Arr R) (xa xb : List Nat)
    (h : Adm a b xa xb) (hne : xa ≠ []) (hL : xa.length < a.ndim) (hR : xb.length < b.ndim)
    (mode : TdotMode) (hmode : mode = .fused ∨ mode = .auto)
    (hm : a.tensordotF b (.pair (xa.map Int.ofNat) (xb.map Int.ofNat)) mode = .ok c) :
    ∃ out ph, OddposP.mergeOddpos a.parity a.oddpos b.oddpos = .ok (out, ph)
      ∧ c.oddpos = out
      ∧ c.charge = a.sym.combine [a.charge, b.charge]
      ∧ ∀ (s : Sector) (oL oR : List Nat), oL.length = (freeAxes a.ndim xa).length →
          inBox (Arr.blockShapeD (without a.indices xa ++ without b.indices xb) s) (oL ++ oR) = true →
          OwnBox c s (oL ++ oR) →
          c.elem s (oL ++ oR) = sgnI ph (gradedContract a b xa xb s oL oR) := by
  obtain ⟨rb, hb, f1, f2, _, _, _, _, hel⟩ :=
    tensordotF_to_blockwise hz1 hz2 a b c xa xb h hne hL hR mode hmode hm
  have hadm : ValidP.tdotAdmissibleB a b xa xb = true := by
    unfold ValidP.tdotAdmissibleB
    simp only [Bool.and_eq_true, decide_eq_true_eq, List.all_eq_true]
    exact ⟨⟨⟨⟨⟨h.sym, h.con⟩, allDistinct_iff_nodup.mpr h.nA⟩, allDistinct_iff_nodup.mpr h.nB⟩, h.ltA⟩, h.ltB⟩
  obtain ⟨out, ph, g1, g2, g3, g4⟩ :=
    C03.tensordotF_refines_graded_at a b rb xa xb h.va h.vb h.fa h.fb hadm hb
  exact ⟨out, ph, g1, f1.trans g2, f2.trans g3, fun s oL oR hoL ho hown => by
    rw [hel s _ hown]; exact g4 s oL oR hoL ho⟩

/-- **C04 S4 for fused / auto mode.**  Listing the contracted axis pairs in another order gives a
    result with the same value view. -/
theorem tdotF_axes_perm_any_mode [AddCommMonoid R] [Mul R] [Neg R] [SignRing R]
    (hz1 : ∀ x : R, 0 * x = 0) (hz2 : ∀ x : R, x * 0 = 0) (a b c1 c2 : Arr R) (xa xb π : List Nat)
    (h : Adm a b xa xb) (hπ : π.Perm (List.range xa.length))
    (hne : xa ≠ []) (hL : xa.length < a.ndim) (hR : xb.length < b.ndim)
    (mode : TdotMode) (hmode : mode = .fused ∨ mode = .auto)
    (h1 : a.tensordotF b (.pair ((permuted xa π).map Int.ofNat) ((permuted xb π).map Int.ofNat)) mode = .ok c1)
    (h2 : a.tensordotF b (.pair (xa.map Int.ofNat) (xb.map Int.ofNat)) mode = .ok c2) :
    c1.oddpos = c2.oddpos ∧ c1.charge = c2.charge ∧ c1.sym = c2.sym ∧ c1.fermi = c2.fermi
    ∧ c1.indices.length = c2.indices.length
    ∧ ∀ s o, OwnBox c1 s o → OwnBox c2 s o → c1.elem s o = c2.elem s o := by
  have hlenπ : (permuted xa π).length = xa.length := by
    rw [permuted_length _ _ (fun x hx => List.mem_range.mp (hπ.subset hx)), hπ.length_eq, List.length_range]
  have hlenπb : (permuted xb π).length = xb.length := by
    rw [permuted_length _ _ (fun x hx => by rw [← h.len]; exact List.mem_range.mp (hπ.subset hx)),
      hπ.length_eq, List.length_range, h.len]
  have hneπ : permuted xa π ≠ [] := by
    intro e; rw [e] at hlenπ; exact hne (List.eq_nil_of_length_eq_zero hlenπ.symm)
  obtain ⟨rb1, hb1, f1, f2, f3, f4, f5, _, hel1⟩ :=
    tensordotF_to_blockwise hz1 hz2 a b c1 _ _ (h.relist hπ) hneπ (by rw [hlenπ]; exact hL)
      (by rw [hlenπb]; exact hR) mode hmode h1
  obtain ⟨rb2, hb2, g1, g2, g3, g4, g5, _, hel2⟩ :=
    tensordotF_to_blockwise hz1 hz2 a b c2 xa xb h hne hL hR mode hmode h2
  have := C04.tdotF_axes_perm a b xa xb π h hπ
  rw [hb1, hb2] at this
  cases this
  exact ⟨f1.trans g1.symm, f2.trans g2.symm, f3.trans g3.symm, f4.trans g4.symm, f5.trans g5.symm,
    fun s o o1 o2 => (hel1 s o o1).trans (hel2 s o o2).symm⟩

/-! ### non-vacuity and sanity: the odd Z2 operands `C03.gA`, `C03.gB` (pending signs, labels) -/

open SymmModel.C03 in
example : Adm gA gB [1] [1] ∧ ([1] : List Nat) ≠ [] ∧ [1].length < gA.ndim ∧ [1].length < gB.ndim
    ∧ (∀ x : Int, 0 * x = 0) ∧ (∀ x : Int, x * 0 = 0) :=
  ⟨Adm.of (by decide +kernel) (by decide +kernel) rfl rfl (by decide +kernel), by decide, by decide,
    by decide, Int.zero_mul, Int.mul_zero⟩

-- both modes: same labels, and every block of the auto/fused result is the blockwise block of that
-- sector (the dictionary ORDER differs)
open SymmModel.C03 in
example :
    (match gA.tensordotF gB (.pair [1] [1]) .auto, gA.tensordotF gB (.pair [1] [1]) .fused,
           gA.tensordotF gB (.pair [1] [1]) .blockwise with
     | .ok c, .ok c', .ok d =>
         c.oddpos == d.oddpos && c.blocks.length == 8 && d.blocks.length == 8
         && c.blocks.all (fun p => (alookup d.blocks p.1).map (·.data) == some p.2.data
              && alookup c.phases p.1 == alookup d.phases p.1)
         && c'.blocks.map (fun p => (p.1, p.2.data)) == c.blocks.map (fun p => (p.1, p.2.data))
         && (c.blocks.map (·.1) != d.blocks.map (·.1))
     | _, _, _ => false) = true := by decide +kernel

/-- **C04 S6 for fused / auto mode.**  Pre-transposing the left operand: the value at the
    address with the left free part re-listed along `q` is the Koszul sign of `q` times the
    original value (both calls in the same mode `fused` or `auto`). -/
theorem tdotF_pretranspose_any_mode [AddCommMonoid R] [Mul R] [Neg R] [SignRing R]
    (hz1 : ∀ x : R, 0 * x = 0) (hz2 : ∀ x : R, x * 0 = 0) (a b c c' : Arr R)
    (p xa xa' q xb : List Nat) (h : Adm a b xa xb) (hp : Arr.isPerm p a.ndim = true)
    (hT : PreT a.ndim p xa xa' q) (h' : Adm (a.transposeF p) b xa' xb)
    (hne : xa ≠ []) (hL : xa.length < a.ndim) (hR : xb.length < b.ndim)
    (hne' : xa' ≠ []) (hL' : xa'.length < (a.transposeF p).ndim)
    (mode : TdotMode) (hmode : mode = .fused ∨ mode = .auto)
    (hc : a.tensordotF b (.pair (xa.map Int.ofNat) (xb.map Int.ofNat)) mode = .ok c)
    (hc' : (a.transposeF p).tensordotF b (.pair (xa'.map Int.ofNat) (xb.map Int.ofNat)) mode = .ok c') :
    c'.oddpos = c.oddpos ∧ c'.charge = c.charge ∧ c'.sym = c.sym ∧ c'.fermi = c.fermi
    ∧ ∀ (L Rr : Sector) (oL oR : List Nat), L.length = (freeAxes a.ndim xa).length →
        oL.length = (freeAxes a.ndim xa).length →
        inBox (Arr.blockShapeD (without a.indices xa ++ without b.indices xb) (L ++ Rr))
          (oL ++ oR) = true →
        OwnBox c (L ++ Rr) (oL ++ oR) → OwnBox c' (permuted L q ++ Rr) (permuted oL q ++ oR) →
        c'.elem (permuted L q ++ Rr) (permuted oL q ++ oR)
          = sgnI (koszul (L.map a.sym.parity) (some q)) (c.elem (L ++ Rr) (oL ++ oR)) := by
  obtain ⟨rb, hb, f1, f2, f3, f4, _, _, hel⟩ :=
    tensordotF_to_blockwise hz1 hz2 a b c xa xb h hne hL hR mode hmode hc
  obtain ⟨rb', hb', g1, g2, g3, g4, _, _, hel'⟩ :=
    tensordotF_to_blockwise hz1 hz2 (a.transposeF p) b c' xa' xb h' hne' hL' hR mode hmode hc'
  obtain ⟨rb'', hb'', k1, k2, k3, k4, kel⟩ := C04.tdotF_pretranspose a b rb p xa xa' q xb h hp hT hb
  rw [hb'] at hb''
  cases hb''
  refine ⟨g1.trans (k1.trans f1.symm), g2.trans (k2.trans f2.symm), g3.trans (k3.trans f3.symm),
    g4.trans (k4.trans f4.symm), ?_⟩
  intro L Rr oL oR hLl hoL hbox ho ho'
  rw [hel' _ _ ho', hel _ _ ho]
  exact kel L Rr oL oR hLl hoL hbox

/-- **C04 S5 for fused / auto mode.**  Exchanging the operands: the value at the address with the
    two free parts exchanged is the Koszul sign of the rotation times the original value. -/
theorem tdotF_swap_any_mode [AddCommMonoid R] [Mul R] [Neg R] [SignRing R]
    (hz1 : ∀ x : R, 0 * x = 0) (hz2 : ∀ x : R, x * 0 = 0) (a b c c' : Arr R) (xa xb : List Nat)
    (hmul : ∀ x y : R, x * y = y * x) (h : Adm a b xa xb) (h' : Adm b a xb xa)
    (hd : (a.oddpos ++ b.oddpos).Pairwise (fun x y => x.1 ≠ y.1))
    (hne : xa ≠ []) (hL : xa.length < a.ndim) (hR : xb.length < b.ndim)
    (mode : TdotMode) (hmode : mode = .fused ∨ mode = .auto)
    (hc : a.tensordotF b (.pair (xa.map Int.ofNat) (xb.map Int.ofNat)) mode = .ok c)
    (hc' : b.tensordotF a (.pair (xb.map Int.ofNat) (xa.map Int.ofNat)) mode = .ok c') :
    c'.oddpos = c.oddpos ∧ c'.charge = c.charge ∧ c'.sym = c.sym ∧ c'.fermi = c.fermi
    ∧ ∀ (L Rr : Sector) (oL oR : List Nat), L.length = (freeAxes a.ndim xa).length →
        Rr.length = (freeAxes b.ndim xb).length → oL.length = (freeAxes a.ndim xa).length →
        oR.length = (freeAxes b.ndim xb).length →
        inBox (Arr.blockShapeD (without a.indices xa ++ without b.indices xb) (L ++ Rr))
          (oL ++ oR) = true →
        OwnBox c (L ++ Rr) (oL ++ oR) → OwnBox c' (Rr ++ L) (oR ++ oL) →
        c'.elem (Rr ++ L) (oR ++ oL)
          = sgnI (koszul ((L ++ Rr).map a.sym.parity)
              (some ((List.range Rr.length).map (L.length + ·) ++ List.range L.length)))
              (c.elem (L ++ Rr) (oL ++ oR)) := by
  have hneb : xb ≠ [] := by
    intro e; have := h.len; rw [e] at this; exact hne (List.eq_nil_of_length_eq_zero this)
  obtain ⟨rb, hb, f1, f2, f3, f4, _, _, hel⟩ :=
    tensordotF_to_blockwise hz1 hz2 a b c xa xb h hne hL hR mode hmode hc
  obtain ⟨rb', hb', g1, g2, g3, g4, _, _, hel'⟩ :=
    tensordotF_to_blockwise hz1 hz2 b a c' xb xa h' hneb hR hL mode hmode hc'
  obtain ⟨rb'', hb'', k1, k2, k3, k4, kel⟩ := C04.tdotF_swap a b rb xa xb hmul h hd hb
  rw [hb'] at hb''
  cases hb''
  refine ⟨g1.trans (k1.trans f1.symm), g2.trans (k2.trans f2.symm), g3.trans (k3.trans f3.symm),
    g4.trans (k4.trans f4.symm), ?_⟩
  intro L Rr oL oR hLl hRl hoL hoR hbox ho ho'
  rw [hel' _ _ ho', hel _ _ ho]
  exact kel L Rr oL oR hLl hRl hoL hoR hbox

end SymmModel.C06
