/-
  Property C08 — umbrella module: both parts of the property theorems.
-/
import SymmModel.Props.C08
import SymmModel.Props.C08b
