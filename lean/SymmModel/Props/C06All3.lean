/-
  C06, all parts: C06All2 (C06, C06b, C06c) and C06d (every call shape, block shapes, transfer
  without `OwnBox`).
-/
import SymmModel.Props.C06All2
import SymmModel.Props.C06d
