/- Property C11 — umbrella incl. C11h (isometries on EVERY sector of the product, labelled solve through tensordot). -/
import SymmModel.Props.C11All5
import SymmModel.Props.C11h
