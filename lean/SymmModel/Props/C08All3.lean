/-
  Property C08 — umbrella module: all four parts of the property theorems.
-/
import SymmModel.Props.C08All2
import SymmModel.Props.C08d
