/-
  SymmModel.Props.C14c — third part of property C14.

  (1) `inplace_same_value` for the self-aliased fermionic `x ∘= x` WITH pending signs, at the level of
      VALUES: the buffer tables of the two runs differ (`C14.binaryF_self_pending_bufs_differ`), but under
      every interpretation of the kernels — in particular the free one, provenance trees — the in-place
      target and the out-of-place result denote the same array.  For all heaps.
  (2) the heap programs of the binary operators refine the VALUE model: the denotation of the target
      after `x ∘= y` is what `SymmModel.binaryBlockwise` computes from the denotations of the operands.
-/
import SymmModel.Props.C14All
import SymmModel.Proofs.Heap3Prov
import SymmModel.Proofs.Heap3Value

namespace SymmModel.C14
open SymmModel.Heap

/-- the denotation of an array's content: the block dict with every buffer id replaced by its value -/
structure SemContent (V : Type) where
  indices : Nat
  charge : Int
  blocks : SDict V
  phases : Option Dict
  oddpos : Nat

def semContent {V : Type} (I : Nat → List V → V) (d : V) (bufs : Bufs) (c : Content) : SemContent V :=
  ⟨c.indices, c.charge, semDict I d bufs c.blocks, c.phases, c.oddpos⟩

/-- provenance trees: the free interpretation of the kernels -/
inductive PTree
  | node (tag : Nat) (args : List PTree)
  | none

/-- the content with every buffer id replaced by its provenance tree -/
def provTree (bufs : Bufs) (c : Content) : SemContent PTree := semContent PTree.node PTree.none bufs c

/-- all buffers the array's block dict mentions exist -/
def BlocksOK (h : Heap) (bd : Dict) : Prop := DictOK h.bufs.length bd

/-- **`inplace_same_value` for `x ∘= x`, fermionic, pending signs or not, every heap** (`__iadd__`,
    `__isub__`, `__imul__` of a fermionic array with itself): the in-place call returns `x`, the
    out-of-place call a new object `r`, and under EVERY interpretation `I` of the kernels over EVERY value
    type the content of `x` afterwards denotes the same array (same keys in the same order, same values,
    same index tables, charge, pending signs — none —, labels) as the content of `r`. -/
theorem inplace_same_value_binaryF_self_sem (m : Heap.Missing) {h : Heap} {x : ObjId} {a : ArrObj} {bd : Dict}
    {pd : Option Dict} (wx : WFArr h x a bd pd) (hok : BlocksOK h bd) :
    ∃ r ci co, ((Op.binaryF m).run true h [x, x]).2 = [x] ∧ ((Op.binaryF m).run false h [x, x]).2 = [r] ∧
      content ((Op.binaryF m).run true h [x, x]).1 x = some ci ∧
      content ((Op.binaryF m).run false h [x, x]).1 r = some co ∧
      ∀ (V : Type) (I : Nat → List V → V) (d : V),
        semContent I d ((Op.binaryF m).run true h [x, x]).1.bufs ci =
          semContent I d ((Op.binaryF m).run false h [x, x]).1.bufs co := by
  obtain ⟨hi, ho, r, e1, e2, ci, co, ri, ro, hci, hco, vi, vo⟩ := binaryF_self_runs m wx
  refine ⟨r, ci, co, ?_, ?_, ?_, ?_, ?_⟩
  · simp [Op.run, Op.arity, Op.results, Op.targets, Op.alwaysInplace, Op.neverInplace, ri, envGet]
  · simp [Op.run, Op.arity, Op.results, Op.targets, Op.alwaysInplace, Op.neverInplace, ro, envGet]
  · simpa [Op.run, Op.arity, ri] using hci
  · simpa [Op.run, Op.arity, ro] using hco
  · intro V I d
    have hbi : ((Op.binaryF m).run true h [x, x]).1 = hi := by simp [Op.run, Op.arity, ri]
    have hbo : ((Op.binaryF m).run false h [x, x]).1 = ho := by simp [Op.run, Op.arity, ro]
    obtain ⟨s1, s2, s3, s4, s5⟩ := bodyF_self_sem I d m (cont a bd pd) h.bufs hok
    rw [← vi, ← vo] at s1 s2 s3 s4 s5
    rw [hbi, hbo]
    simp only at s1 s2 s3 s4 s5
    simp only [semContent, s1, s2, s3, s4, s5]

/-- … in particular the provenance trees agree: every block of the in-place target was computed by the
    same kernels from the same original buffers as the corresponding block of the out-of-place result -/
theorem inplace_same_value_binaryF_self_prov (m : Heap.Missing) {h : Heap} {x : ObjId} {a : ArrObj} {bd : Dict}
    {pd : Option Dict} (wx : WFArr h x a bd pd) (hok : BlocksOK h bd) :
    ∃ r ci co, ((Op.binaryF m).run true h [x, x]).2 = [x] ∧ ((Op.binaryF m).run false h [x, x]).2 = [r] ∧
      content ((Op.binaryF m).run true h [x, x]).1 x = some ci ∧
      content ((Op.binaryF m).run false h [x, x]).1 r = some co ∧
      provTree ((Op.binaryF m).run true h [x, x]).1.bufs ci =
        provTree ((Op.binaryF m).run false h [x, x]).1.bufs co := by
  obtain ⟨r, ci, co, h1, h2, h3, h4, h5⟩ := inplace_same_value_binaryF_self_sem m wx hok
  exact ⟨r, ci, co, h1, h2, h3, h4, h5 PTree PTree.node PTree.none⟩

-- non-vacuity: the array `x = 2` of `h0` (two blocks, one pending sign) meets the hypotheses
example : BlocksOK h0 [(0, 0), (1, 1)] := by unfold BlocksOK DictOK; decide


/-! ## (2) the heap programs of the binary operators refine the value model

    `R` = scalars, blocks are `Blk R`; `I` = any interpretation of the kernels in which the kernel `tFn`
    of the binary operator is `fn` (`operator.add`, `sub`, `mul`, `truediv`, `pow` on blocks); the abstract
    dict keys stand for sectors / charges.  `binaryBlockwise` is the value model of
    `_binary_blockwise_op` (`Model/Tdot.lean`, run against the real code by the harness). -/

section value
variable {R : Type} (fn : Blk R → Blk R → Blk R) (I : Nat → List (Blk R) → Blk R) (d : Blk R)

/-- **`x ∘= y`, abelian arrays and block vectors, end to end**: if the value model computes `res` from
    the VALUES of the two operands' block dicts, then the in-place call leaves `x` with a block dict
    whose value is `res`, and the out-of-place call returns an object whose block dict has value `res`
    (`y` may be `x` itself or share dicts with it) -/
theorem binaryA_value (hI : ∀ a b, I tFn [a, b] = fn a b) (m : Heap.Missing) {h : Heap} {x y : ObjId}
    {a ay : ArrObj} {bd ob : Dict} {pd : Option Dict} (wx : WFArr h x a bd pd) (hy : h.arrOf y = some ay)
    (hyb : h.get? ay.blocks = some (.dict ob)) (okx : BlocksOK h bd) (oky : BlocksOK h ob)
    (nx : (bd.map (·.1)).Nodup) (ny : (ob.map (·.1)).Nodup) {res : List (Key × Blk R)}
    (hres : binaryBlockwise fn m.val (semDict I d h.bufs bd) (semDict I d h.bufs ob) = .ok res) :
    ∃ r c, ((Op.binaryA m).run true h [x, y]).2 = [x] ∧ ((Op.binaryA m).run false h [x, y]).2 = [r] ∧
      content ((Op.binaryA m).run true h [x, y]).1 x = some c ∧
      content ((Op.binaryA m).run false h [x, y]).1 r = some c ∧
      semDict I d ((Op.binaryA m).run true h [x, y]).1.bufs c.blocks = res ∧
      semDict I d ((Op.binaryA m).run false h [x, y]).1.bufs c.blocks = res := by
  obtain ⟨r, c, h1, h2, h3, h4, h5, h6⟩ := inplace_same_value_binaryA m wx hy hyb
  obtain ⟨_, _, sem, _⟩ := binPure_abs I d m (cont a bd pd) h.bufs ob okx oky
  rw [← h6] at sem
  have hv := binSem_value fn I d hI m _ _ (by rw [keysOf_semDict]; exact nx) (by rw [keysOf_semDict]; exact ny) hres
  refine ⟨r, c, h1, h2, h3, h4, ?_, ?_⟩
  · exact sem.trans hv
  · rw [← h5]; exact sem.trans hv

/-- **`x ∘= y`, fermionic arrays sharing nothing, end to end**: the value model is applied to the
    SYNCHRONISED values of both operands (`psSem`: the block values with the pending signs multiplied in) -/
theorem binaryF_value (hI : ∀ a b, I tFn [a, b] = fn a b) (m : Heap.Missing) {h : Heap} {x y : ObjId}
    {a ay : ArrObj} {bd bo : Dict} {pd po : Option Dict} (wx : WFArr h x a bd pd) (wy : WFArr h y ay bo po)
    (hne : y ≠ x) (hdis : ∀ q ∈ dictsOf h y, q ∉ dictsOf h x) (okx : BlocksOK h bd) (oky : BlocksOK h bo)
    (nx : (bd.map (·.1)).Nodup) (ny : (bo.map (·.1)).Nodup) {res : List (Key × Blk R)}
    (hres : binaryBlockwise fn m.val (psSem I d h.bufs (cont a bd pd)) (psSem I d h.bufs (cont ay bo po)) = .ok res) :
    ∃ r c, ((Op.binaryF m).run true h [x, y]).2 = [x] ∧ ((Op.binaryF m).run false h [x, y]).2 = [r] ∧
      content ((Op.binaryF m).run true h [x, y]).1 x = some c ∧
      content ((Op.binaryF m).run false h [x, y]).1 r = some c ∧
      semDict I d ((Op.binaryF m).run true h [x, y]).1.bufs c.blocks = res ∧
      semDict I d ((Op.binaryF m).run false h [x, y]).1.bufs c.blocks = res := by
  obtain ⟨r, c, h1, h2, h3, h4, h5, h6⟩ := inplace_same_value_binaryF m wx wy hne hdis
  have sem := bodyF_value I d m (cont a bd pd) (cont ay bo po) h.bufs okx oky
  rw [← h6] at sem
  have hv := binSem_value fn I d hI m _ _ (by rw [keysOf_psSem]; exact nx) (by rw [keysOf_psSem]; exact ny) hres
  refine ⟨r, c, h1, h2, h3, h4, ?_, ?_⟩
  · exact sem.trans hv
  · rw [← h5]; exact sem.trans hv

/-- **`x ∘= x`, fermionic, pending signs or not, end to end** -/
theorem binaryF_self_value (hI : ∀ a b, I tFn [a, b] = fn a b) (m : Heap.Missing) {h : Heap} {x : ObjId}
    {a : ArrObj} {bd : Dict} {pd : Option Dict} (wx : WFArr h x a bd pd) (okx : BlocksOK h bd)
    (nx : (bd.map (·.1)).Nodup) {res : List (Key × Blk R)}
    (hres : binaryBlockwise fn m.val (psSem I d h.bufs (cont a bd pd)) (psSem I d h.bufs (cont a bd pd)) = .ok res) :
    ∃ r ci co, ((Op.binaryF m).run true h [x, x]).2 = [x] ∧ ((Op.binaryF m).run false h [x, x]).2 = [r] ∧
      content ((Op.binaryF m).run true h [x, x]).1 x = some ci ∧
      content ((Op.binaryF m).run false h [x, x]).1 r = some co ∧
      semDict I d ((Op.binaryF m).run true h [x, x]).1.bufs ci.blocks = res ∧
      semDict I d ((Op.binaryF m).run false h [x, x]).1.bufs co.blocks = res := by
  obtain ⟨hi, ho, r, e1, e2, ci, co, ri, ro, hci, hco, vi, vo⟩ := binaryF_self_runs m wx
  have hbi : ((Op.binaryF m).run true h [x, x]).1 = hi := by simp [Op.run, Op.arity, ri]
  have hbo : ((Op.binaryF m).run false h [x, x]).1 = ho := by simp [Op.run, Op.arity, ro]
  have semO := bodyF_value I d m (cont a bd pd) (cont a bd pd) h.bufs okx okx
  have semI := (bodyF_self_sem I d m (cont a bd pd) h.bufs okx).1
  rw [← vi, ← vo] at semI
  rw [← vo] at semO
  have hv := binSem_value fn I d hI m _ _ (by rw [keysOf_psSem]; exact nx) (by rw [keysOf_psSem]; exact nx) hres
  refine ⟨r, ci, co, ?_, ?_, ?_, ?_, ?_, ?_⟩
  · simp [Op.run, Op.arity, Op.results, Op.targets, Op.alwaysInplace, Op.neverInplace, ri, envGet]
  · simp [Op.run, Op.arity, Op.results, Op.targets, Op.alwaysInplace, Op.neverInplace, ro, envGet]
  · rw [hbi]; exact hci
  · rw [hbo]; exact hco
  · rw [hbi]; exact (semI.trans semO).trans hv
  · rw [hbo]; exact semO.trans hv

end value

-- an interpretation meeting `hI` exists for every `fn`; `outer` / `inner` never raise in the value model
example {R : Type} (fn : Blk R → Blk R → Blk R) (d : Blk R) :
    ∃ I : Nat → List (Blk R) → Blk R, ∀ a b, I tFn [a, b] = fn a b :=
  ⟨fun _ args => match args with | [a, b] => fn a b | _ => d, fun _ _ => rfl⟩
example {R : Type} (fn : Blk R → Blk R → Blk R) (xs os : SDict (Blk R)) :
    ∃ res, binaryBlockwise fn Heap.Missing.outer.val xs os = .ok res ∧
      ∃ res', binaryBlockwise fn Heap.Missing.inner.val xs os = .ok res' := ⟨_, rfl, _, rfl⟩

-- non-vacuity of the hypotheses of the value theorems on `h2` (x = 2, y = 5): existing buffers, unique keys
example : BlocksOK h2 [(0, 0), (1, 1)] ∧ BlocksOK h2 [(1, 2), (2, 3)] ∧
    (([(0, 0), (1, 1)] : Dict).map (·.1)).Nodup ∧ (([(1, 2), (2, 3)] : Dict).map (·.1)).Nodup := by
  refine ⟨by unfold BlocksOK DictOK; decide, by unfold BlocksOK DictOK; decide, by decide, by decide⟩

end SymmModel.C14
