/-
  Property C05, part b — the GENERAL case of targets 5–7: an arbitrary list of groups
  (single- and multi-axis groups mixed, any position, other axes present or not — in particular
  the two groups covering all axes that `tensordotViaFused` fuses), insert strategy.

  Vocabulary (namespace `FuseP`, files `Proofs/FuseMulti*.lean`):
    `multiB groups g`        group number `g` exists and has ≠ 1 axes (gets a new fused index)
    `splitAddr` / `joinAddr` the address map read from an index's own table (C05 §4)
    `pieceU`                 one slice-and-reshape piece of `unfuse`

  Proved here for ALL lists of groups accepted by `groupsOkB`:
    `fuse_elem`, `fuse_elem_onto`   (element map through `splitAddr` on every fused axis; bijection
                                     on stored addresses together with `C05.splitAddr_injective`)
    `unfuse_elem`                   (certificate form: for ANY valid array with a fused axis)
    `unfuse_fuse_blocks`            (round trip: every stored block restored exactly as the transposed
                                     block, every other block zero; `unfuseGroups` unfuses every fused
                                     axis from the last group to the first, `unfuseGroups_two` is the
                                     pattern of `tensordotViaFused`)
    `fuseA_noexpand`, `groupsOkB_filter`   (the call form of `tensordotViaFused`: empty groups dropped)
  Not proved in general: `fuseInsert_eq_fuseConcat` for several groups (C05 part a has one group).
-/
import SymmModel.Proofs.FuseMultiAll
import SymmModel.Props.C05

namespace SymmModel.C05
open SymmModel FuseP

/-! ## the call form used by the fused contraction -/

/-- `fuse(*groups, expand_empty=False)`: empty groups are dropped, nothing else happens -/
theorem fuseA_noexpand {R : Type} [Zero R] (a : Arr R) (groups : List (List Nat)) (mode : FuseMode) :
    fuseA a groups mode false
      = (if (groups.filter (fun g => !g.isEmpty)).isEmpty then .ok a
         else fuseCore a (groups.filter (fun g => !g.isEmpty)) mode) := by
  unfold fuseA
  simp only [Bool.false_and, Bool.false_eq_true, if_false]
  split
  · rfl
  · cases fuseCore a (groups.filter (fun g => !g.isEmpty)) mode <;> rfl

theorem flatten_filter_nonempty (groups : List (List Nat)) :
    (groups.filter (fun g => !g.isEmpty)).flatten = groups.flatten := by
  induction groups with
  | nil => rfl
  | cons g gs ih =>
    cases g with
    | nil => simpa using ih
    | cons x xs => simp [List.filter_cons, ih]

/-- admissible axes (in range, pairwise distinct) with at least one non-empty group: after
    dropping the empty groups the guard `groupsOkB` holds -/
theorem groupsOkB_filter (groups : List (List Nat)) (n : Nat)
    (hlt : groups.flatten.all (fun ax => decide (ax < n)) = true) (hd : allDistinct groups.flatten = true)
    (hne : (groups.filter (fun g => !g.isEmpty)).isEmpty = false) :
    groupsOkB (groups.filter (fun g => !g.isEmpty)) n = true := by
  rw [groupsOk_iff]
  refine ⟨by simpa using hne, ?_, ?_, ?_⟩
  · intro g hg
    simp only [List.mem_filter, Bool.not_eq_true', List.isEmpty_eq_false_iff] at hg
    exact hg.2
  · rw [flatten_filter_nonempty]
    simp only [List.all_eq_true, decide_eq_true_eq] at hlt
    exact hlt
  · rw [flatten_filter_nonempty]; exact (allDistinct_iff _).1 hd

example : groupsOkB ([[0, 2], [], [1]].filter (fun g => !g.isEmpty)) 3 = true := by decide

/-! ## 7 (general). every element appears exactly once, where the tables say -/

/-- **fuse_elem, arbitrary groups.**  For every block `(ns, B)` of the fused array and every
    offset vector `i` in its box there are per-group segments `segs[g] = (sub-charges, sub-offsets)`:
    for a single-axis group the charge and offset themselves, for a multi-axis group the result of
    `splitAddr` read ONLY from the fused index's own table.  Expanding every group position of
    `(ns, i)` into its segment gives `(permuted s perm, permuted offs perm)` of exactly one original
    address `(s, offs)`, and the element stored at `(ns, i)` is the original's element there. -/
theorem fuse_elem {R : Type} [Zero R] [Neg R] (a : Arr R) (groups : List (List Nat))
    (hv : a.validB = true) (hg : groupsOkB groups a.ndim = true) (hnf : a.fermi = false) :
    let gi := calcFuseGroupInfo groups a.duals
    ∃ x, fuseCore a groups .insert = .ok x ∧
      ∀ ns B, alookup x.blocks ns = some B → ∀ i, inBox B.shape i = true →
        ∃ segs : List (Sector × List Nat), segs.length = groups.length
          ∧ (∀ g gaxes, groups[g]? = some gaxes →
              (gaxes.length = 1 → segs[g]? = some ([ns.getD (gi.position + g) (0, 0)], [i.getD (gi.position + g) 0]))
              ∧ (gaxes.length ≠ 1 →
                  splitAddr (x.indices.getD (gi.position + g) default) (ns.getD (gi.position + g) (0, 0))
                    (i.getD (gi.position + g) 0) = segs[g]?))
          ∧ ∀ s offs, s.length = a.ndim → offs.length = a.ndim →
              permuted s gi.perm = ns.take gi.position ++ (segs.map (·.1)).flatten
                ++ ns.drop (gi.position + groups.length) →
              permuted offs gi.perm = i.take gi.position ++ (segs.map (·.2)).flatten
                ++ i.drop (gi.position + groups.length) →
              x.elem ns i = a.elem s offs := by
  have hva := validArr_of_validB hv
  have hok := groupsOk_iff.1 hg
  have hph : a.phases = [] := by
    simp only [Arr.validB, hnf, Bool.false_eq_true, if_false, Bool.and_eq_true, List.isEmpty_iff] at hv
    exact hv.2.1
  refine ⟨_, fuseCore_multi_eq hva hok, ?_⟩
  intro ns B hB i hi
  have hB' : alookup (fusedBlocksM a groups) ns = some B := hB
  obtain ⟨h1, h2⟩ := fused_getM hva hok hB' hi
  refine ⟨(List.range groups.length).map (segM a groups ns i), by simp, ?_, ?_⟩
  · intro g gaxes hgg
    have hgl := getElem?_lt hgg
    have hseg : ((List.range groups.length).map (segM a groups ns i))[g]? = some (segM a groups ns i g) := by
      simp [List.getElem?_map, List.getElem?_range hgl]
    constructor
    · intro hlen
      have hm : multiB groups g = false := by simp [multiB, hgg, hlen]
      rw [hseg]; simp [segM, hm]
    · intro hlen
      have hm : multiB groups g = true := multiB_iff.2 ⟨_, hgg, hlen⟩
      rw [hseg]
      exact h1 g hgl hm
  · intro s offs hs ho hK hJ
    have e1 : ((List.range groups.length).map (segM a groups ns i)).map (·.1)
        = (List.range groups.length).map (fun g => (segM a groups ns i g).1) := by simp [List.map_map]
    have e2 : ((List.range groups.length).map (segM a groups ns i)).map (·.2)
        = (List.range groups.length).map (fun g => (segM a groups ns i g).2) := by simp [List.map_map]
    rw [e1] at hK
    rw [e2] at hJ
    have hget := (h2 s offs hs ho hK hJ).1
    have he : a.elem s offs = B.get i := by
      rw [hget]
      simp only [Arr.elem, hph, alookup]
      cases alookup a.blocks s <;> simp
    rw [he]
    show (fusedArrM a groups).elem ns i = _
    simp only [Arr.elem, fusedArrM, hB', hph, alookup]
    simp

/-- **onto, arbitrary groups.**  Every stored address `(s, offs)` of the original is the image of an
    address `(ns, i)` of the fused array whose per-group segments are the original's charges and
    offsets on the group's axes. -/
theorem fuse_elem_onto {R : Type} [Zero R] (a : Arr R) (groups : List (List Nat))
    (hv : a.validB = true) (hg : groupsOkB groups a.ndim = true) :
    let gi := calcFuseGroupInfo groups a.duals
    ∃ x, fuseCore a groups .insert = .ok x ∧
      ∀ s b, (s, b) ∈ a.blocks → ∀ offs, inBox b.shape offs = true →
        ∃ ns B i, alookup x.blocks ns = some B ∧ inBox B.shape i = true
          ∧ (∀ g gaxes, groups[g]? = some gaxes → gaxes.length ≠ 1 →
              splitAddr (x.indices.getD (gi.position + g) default) (ns.getD (gi.position + g) (0, 0))
                (i.getD (gi.position + g) 0)
                = some (gaxes.map (fun ax => s.getD ax (0, 0)), gaxes.map (fun ax => offs.getD ax 0)))
          ∧ (∀ g gaxes, groups[g]? = some gaxes → gaxes.length = 1 →
              [ns.getD (gi.position + g) (0, 0)] = gaxes.map (fun ax => s.getD ax (0, 0))
              ∧ [i.getD (gi.position + g) 0] = gaxes.map (fun ax => offs.getD ax 0))
          ∧ permuted s gi.perm = ns.take gi.position
              ++ (groups.map (fun gaxes => gaxes.map (fun ax => s.getD ax (0, 0)))).flatten
              ++ ns.drop (gi.position + groups.length)
          ∧ permuted offs gi.perm = i.take gi.position
              ++ (groups.map (fun gaxes => gaxes.map (fun ax => offs.getD ax 0))).flatten
              ++ i.drop (gi.position + groups.length) := by
  have hva := validArr_of_validB hv
  have hok := groupsOk_iff.1 hg
  refine ⟨_, fuseCore_multi_eq hva hok, ?_⟩
  intro s b hsb offs ho
  obtain ⟨B, h1, h2, h3, h4, h5⟩ := fused_ontoM hva hok hsb ho
  have hsegs1 : (List.range groups.length).map (fun g => (segM a groups (planM a groups (s, b)).newSector
      (joinI a groups (s, b) offs) g).1) = groups.map (fun gaxes => gaxes.map (fun ax => s.getD ax (0, 0))) := by
    rw [map_eq_range_map groups [] (fun gaxes => gaxes.map (fun ax => s.getD ax (0, 0)))]
    apply List.map_congr_left
    intro g hgm
    rw [h3 g (List.mem_range.1 hgm)]
  have hsegs2 : (List.range groups.length).map (fun g => (segM a groups (planM a groups (s, b)).newSector
      (joinI a groups (s, b) offs) g).2) = groups.map (fun gaxes => gaxes.map (fun ax => offs.getD ax 0)) := by
    rw [map_eq_range_map groups [] (fun gaxes => gaxes.map (fun ax => offs.getD ax 0))]
    apply List.map_congr_left
    intro g hgm
    rw [h3 g (List.mem_range.1 hgm)]
  refine ⟨_, B, _, h1, h2, ?_, ?_, ?_, ?_⟩
  · intro g gaxes hgg hlen
    have hgl := getElem?_lt hgg
    have hm : multiB groups g = true := multiB_iff.2 ⟨_, hgg, hlen⟩
    have hseg := h3 g hgl
    simp only [segM, hm, if_true] at hseg
    have hgd : groups.getD g [] = gaxes := by simp [List.getD_eq_getElem?_getD, hgg]
    rw [hgd] at hseg
    obtain ⟨hs1, _⟩ := fused_getM hva hok h1 h2
    have := hs1 g hgl hm
    show splitAddr (ixM a groups g) _ _ = _
    rw [this, h3 g hgl, hgd]
  · intro g gaxes hgg hlen
    have hgl := getElem?_lt hgg
    have hm : multiB groups g = false := by simp [multiB, hgg, hlen]
    have hseg := h3 g hgl
    simp only [segM, hm, Bool.false_eq_true, if_false] at hseg
    have hgd : groups.getD g [] = gaxes := by simp [List.getD_eq_getElem?_getD, hgg]
    rw [hgd] at hseg
    simp only [Prod.mk.injEq] at hseg
    exact hseg
  · rw [h4]; simp only [expandK]; rw [hsegs1]
  · rw [h5]; simp only [expandJ]; rw [hsegs2]

/-! ## unfuse in certificate form -/

/-- **unfuse_elem.**  For ANY array with valid indices, distinct sectors and blocks of the right
    shapes whose index at `axis` is a fused index (`sub = (subs, exts)`): `unfuseA` succeeds, the
    index is replaced by its sub-indices, and
    * every block `(ns, B)` and every sub-sector `ss` of the extent of `ns[axis]` (start `st`, size
      `d`) gives the block `pieceU B axis st d subshape` under the sector `ns` with `ns[axis]`
      replaced by `ss`; its entry at `J` is `B`'s entry at `J` with the sub-offsets joined
      (`st + ravel subshape (sub-offsets)`, i.e. `joinAddr`);
    * the result has no other blocks. -/
theorem unfuse_elem {R : Type} [Zero R] (x : Arr R) (axis : Nat) (ix : Index) (subs : List Index)
    (exts : Extents) (hv : x.validB = true) (hix : x.indices[axis]? = some ix)
    (hsub : ix.sub = some (subs, exts)) :
    ∃ y, unfuseA x axis = .ok y ∧ y.indices = replaceWithSeq x.indices axis subs
      ∧ (∀ ns B, (ns, B) ∈ x.blocks → ∀ e ss st d, alookup exts (ns.getD axis (0, 0)) = some e →
          startOf e ss = some (st, d) →
          ∃ subshape, Arr.blockShape? subs ss = some subshape ∧ prod subshape = d
            ∧ alookup y.blocks (replaceWithSeq ns axis ss) = some (pieceU B axis st d subshape)
            ∧ (pieceU B axis st d subshape).shape = replaceWithSeq B.shape axis subshape
            ∧ ∀ J, inBox (replaceWithSeq B.shape axis subshape) J = true →
                joinAddr ix (ns.getD axis (0, 0)) ss ((J.drop axis).take subshape.length)
                  = some (st + ravel subshape ((J.drop axis).take subshape.length))
                ∧ (pieceU B axis st d subshape).get J
                  = B.get (J.take axis ++ [st + ravel subshape ((J.drop axis).take subshape.length)]
                      ++ J.drop (axis + subshape.length)))
      ∧ (∀ K V, alookup y.blocks K = some V →
          ∃ ns B e ss st d, (ns, B) ∈ x.blocks ∧ alookup exts (ns.getD axis (0, 0)) = some e
            ∧ startOf e ss = some (st, d) ∧ K = replaceWithSeq ns axis ss
            ∧ V = pieceU B axis st d ((Arr.blockShape? subs ss).getD [])) := by
  have hva := validArr_of_validB hv
  obtain ⟨y, h1, h2, _, _, _, _, _, hA, hB⟩ := unfuseU hva hix hsub
  refine ⟨y, h1, h2, ?_, ?_⟩
  · intro ns B hm e ss st d he hst
    obtain ⟨subshape, e1, e2, e3, e4⟩ := hA (ns, B) hm e ss st d he hst
    refine ⟨subshape, e1, e2, e3, rfl, ?_⟩
    intro J hJ
    refine ⟨?_, e4 J hJ⟩
    -- the joined offset is `joinAddr`
    have hJl := inBox_length hJ
    obtain ⟨hp, _, hBl, _⟩ := block_at_axis hva hix hsub hm
    have hpB : axis < B.shape.length := by
      have : (ns, B).2.shape.length = x.indices.length := hBl
      have hp' : axis < (ns, B).1.length := hp
      have := (block_at_axis hva hix hsub hm).2.1
      simp only at this hp' hBl
      omega
    have hseg : inBox subshape ((J.drop axis).take subshape.length) = true := by
      simp only [replaceWithSeq_split] at hJ hJl
      simp only [List.length_append, List.length_take, List.length_drop] at hJl
      have hJsplit : J = J.take axis ++ (J.drop axis).take subshape.length ++ J.drop (axis + subshape.length) := by
        rw [List.append_assoc, ← List.drop_drop, List.take_append_drop, List.take_append_drop]
      have htl : (J.take axis).length = (B.shape.take axis).length := by
        simp only [List.length_take]; omega
      have hsl : ((J.drop axis).take subshape.length).length = subshape.length := by
        simp only [List.length_take, List.length_drop]; omega
      rw [hJsplit, inBox_append (by rw [List.length_append, htl, hsl, List.length_append]),
        inBox_append htl] at hJ
      simp only [Bool.and_eq_true] at hJ
      exact hJ.1.2
    have hr := ravel_lt hseg
    rw [e2] at hr
    simp only [joinAddr, hsub, he, e1, hseg, if_true, joinOffset, hst, hr]
  · intro K V hl
    obtain ⟨nsB, hm, e, ss, st, d, h3, h4, h5, h6⟩ := hB K V hl
    exact ⟨nsB.1, nsB.2, e, ss, st, d, hm, h3, h4, h5, h6⟩

/-! ## 5 (general). unfusing restores the original exactly -/

/-- unfuse every axis that `fuse(*groups)` created, from the last group to the first
    (`position` = axis of the first group; single-axis groups created no fused axis) -/
def unfuseGroups {R : Type} [Zero R] (groups : List (List Nat)) (position : Nat) (x : Arr R) :
    Except Err (Arr R) :=
  (List.range groups.length).reverse.foldlM
    (fun x g => if multiB groups g then unfuseA x (position + g) else pure x) x

/-- **unfuse ∘ fuse, arbitrary groups.**  `fuseCore a groups .insert` succeeds, unfusing every
    fused axis succeeds, the result has the indices of `transpose a perm`, every stored block
    `(s, b)` reappears as EXACTLY `b.transposeK perm` (equal as blocks) under the sector
    `permuted s perm`, and every other block of the result is identically zero. -/
theorem unfuse_fuse_blocks {R : Type} [Zero R] (a : Arr R) (groups : List (List Nat))
    (hv : a.validB = true) (hg : groupsOkB groups a.ndim = true) :
    let gi := calcFuseGroupInfo groups a.duals
    ∃ x y, fuseCore a groups .insert = .ok x ∧ unfuseGroups groups gi.position x = .ok y
      ∧ y.indices = permuted a.indices gi.perm
      ∧ (∀ s b, (s, b) ∈ a.blocks → alookup y.blocks (permuted s gi.perm) = some (b.transposeK gi.perm))
      ∧ (∀ K V, alookup y.blocks K = some V →
          (∃ s b, (s, b) ∈ a.blocks ∧ K = permuted s gi.perm) ∨ AllZero V) := by
  have hc : ValidP.Core a := ((ValidP.validB_iff a).1 hv).core
  have hva := validArr_of_validB hv
  have hok := groupsOk_iff.1 hg
  obtain ⟨Y, h1, h2, h3, h4⟩ := round_tripM hc hok
  refine ⟨_, Y, fuseCore_multi_eq hva hok, ?_, h2, fun s b hsb => h3 (s, b) hsb,
    fun K V hl => (h4 K V hl).imp (fun ⟨sb, hsb, he⟩ => ⟨sb.1, sb.2, hsb, he⟩) id⟩
  rw [← h1, unfuseFrom_eq_foldlM]
  rfl

/-- the unfusing pattern of `tensordotViaFused` for two groups at position 0 -/
theorem unfuseGroups_two {R : Type} [Zero R] (g1 g2 : List Nat) (x : Arr R) :
    unfuseGroups [g1, g2] 0 x
      = (do let x ← (if g2.length != 1 then unfuseA x 1 else pure x)
            if g1.length != 1 then unfuseA x 0 else pure x) := by
  simp only [unfuseGroups, List.length_cons, List.length_nil, List.range_succ, List.range_zero, List.nil_append,
    List.reverse_append, List.reverse_cons, List.reverse_nil, List.foldlM_cons, List.foldlM_nil, multiB]
  simp only [List.getElem?_cons_succ, List.getElem?_cons_zero, Nat.zero_add, List.cons_append, List.nil_append,
    List.foldlM_cons, List.foldlM_nil, Nat.add_zero]
  cases (if (g2.length != 1) = true then unfuseA x 1 else pure x) with
  | error e => rfl
  | ok y =>
    simp only [bind, Except.bind, pure, Except.pure]
    cases (if (g1.length != 1) = true then unfuseA y 0 else Except.ok y) <;> rfl

example : view (do let x ← fuseCore exA [[0], [1, 2]] .insert; unfuseGroups [[0], [1, 2]] 0 x)
    = view (.ok exA) := by decide +kernel
example : view (do let x ← fuseCore exB [[1, 0], [3, 2]] .insert; unfuseGroups [[1, 0], [3, 2]] 0 x)
    = some [([(0, 0), (1, 0), (0, 0), (1, 0)], [1, 1, 1, 1], [0]), ([(1, 0), (0, 0), (0, 0), (1, 0)], [1, 1, 1, 1], [7]),
            ([(0, 0), (1, 0), (1, 0), (0, 0)], [1, 1, 1, 1], [9]), ([(1, 0), (0, 0), (1, 0), (0, 0)], [1, 1, 1, 1], [0])] := by
  decide +kernel

end SymmModel.C05
