/-
  Property C08 — umbrella module: all five parts of the property theorems.
-/
import SymmModel.Props.C08All3
import SymmModel.Props.C08e
