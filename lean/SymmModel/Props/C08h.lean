/-
  Property C08, part h — scalar extraction and `allclose` versus the dense form.

  About the literal models of Model/Sparse.lean: `Arr.item` (BlockBase.item / FermionicArray.item),
  `Arr.toFloat`, `Arr.toComplex`, `Arr.toInt`, `Arr.toBool` (`float(x)`, `complex(x)`, `int(x)`, `bool(x)`)
  and `Arr.allclose`, the value view `Arr.elem` and the dense form `Arr.toDenseA` (Model/Arr.lean).

  * `item` succeeds exactly when one block is stored and it has exactly one entry; the only error is
    `ValueError`; the result is the value view (`Arr.elem`: stored number times the pending sign) at the single
    address — for every array in which only a fermionic array carries pending signs (a clause of `validB`).
  * the scalar conversions are `item` followed by the conversion of the scalar (`TypeError` on a complex dtype
    only after `item` succeeded).
  * for valid arrays of the same class over the same index tables `x.allclose(y)` holds IFF the dense forms
    are equal (the converse of C08.allclose_toDense); no side condition: when an index has an empty charge
    table both dense forms raise the same `ValueError`, neither array stores a block, and `allclose` is true.

  Scalars: arbitrary `R` with `[Zero R] [Neg R]`, `- - x = x`, `-0 = 0` (`Lazy.LawfulNeg R`) and for `allclose`
  a lawful `==`.  Instances: `Int`, `GRat`.
-/
import SymmModel.Props.C08
import SymmModel.Props.C08g
import SymmModel.Proofs.SmallSparse

namespace SymmModel.C08
open SymmModel Arr SparseP SmallSparse

variable {R : Type}

/-! ## 1. `item` -/

section item
variable [Zero R] [Neg R] [Lazy.LawfulNeg R]

/-- **`item` = the element at the single address with the pending sign applied.**  For an array storing
    exactly one block `b` (sector `s`) with exactly one entry, `item` returns the value view at
    `(s, (0, …, 0))`.  `hab`: an abelian array has no sign table (clause of `validB`). -/
theorem item_eq_elem (a : Arr R) (hab : a.fermi = false → a.phases = []) (s : Sector) (b : Blk R)
    (hb : a.blocks = [(s, b)]) (hsz : b.data.size = 1) :
    a.item = .ok (a.elem s (List.replicate b.shape.length 0)) := by
  rw [item_eq_core]
  by_cases hc : (a.fermi && !a.phases.isEmpty) = true
  · rw [if_pos hc]
    have hb' : a.phaseSync.blocks = [(s, Lazy.syncBlk a s b)] := by
      rw [Lazy.phaseSync_blocks_eq, hb]; rfl
    have := itemCore_eq_elem a.phaseSync (Lazy.phaseSync_phases a) s _ hb'
      (by rw [syncBlk_size]; exact hsz)
    rw [this, syncBlk_shape, Lazy.phaseSync_elem]
  · rw [if_neg hc]
    have hp : a.phases = [] := by
      cases hf : a.fermi with
      | false => exact hab hf
      | true =>
        rw [hf] at hc
        simpa using hc
    exact itemCore_eq_elem a hp s b hb hsz

/-- … in terms of the stored datum: the single stored number, negated iff the block carries a pending
    sign (and the array is fermionic) -/
theorem item_eq_stored (a : Arr R) (hab : a.fermi = false → a.phases = []) (s : Sector) (b : Blk R)
    (v : R) (hb : a.blocks = [(s, b)]) (hv : b.data.toList = [v]) :
    a.item = .ok (if alookup a.phases s == some (-1) then -v else v) := by
  have hsz : b.data.size = 1 := by
    have := congrArg List.length hv
    simpa using this
  rw [item_eq_elem a hab s b hb hsz]
  unfold Arr.elem
  rw [hb]
  simp only [alookup, beq_self_eq_true, if_true, get_zeros_off b hv]

/-- **`item` succeeds exactly when one block is stored and that block has exactly one entry** (any rank,
    any class, pending signs or not) -/
theorem item_ok_iff (a : Arr R) :
    (∃ v, a.item = .ok v) ↔ ∃ s b, a.blocks = [(s, b)] ∧ b.data.size = 1 := by
  rw [item_eq_core, item_source_blocks]
  constructor
  · rintro ⟨v, hv⟩
    obtain ⟨s, b, h1, h2⟩ := (itemCore_ok_iff _ v).mp hv
    match hbl : a.blocks, h1 with
    | [(s', b')], h1 =>
      simp only [List.map_cons, List.map_nil, List.cons.injEq, Prod.mk.injEq, and_true] at h1
      refine ⟨s', b', rfl, ?_⟩
      have hsz : b.data.size = 1 := by simpa using congrArg List.length h2
      rw [← h1.2] at hsz
      split at hsz
      · rwa [syncBlk_size] at hsz
      · exact hsz
  · rintro ⟨s, b, hb, hsz⟩
    rw [hb]
    simp only [List.map_cons, List.map_nil]
    have hsz' : (if (a.fermi && !a.phases.isEmpty) = true then Lazy.syncBlk a s b else b).data.size = 1 := by
      split
      · rw [syncBlk_size]; exact hsz
      · exact hsz
    obtain ⟨v, hv⟩ := toList_singleton_of_size _ hsz'
    exact ⟨v, itemCore_single hv⟩

/-- the error cases exactly as modelled: anything else is a `ValueError`, and no other error occurs -/
theorem item_error_iff (a : Arr R) :
    a.item = .error Err.value ↔ ¬ ∃ s b, a.blocks = [(s, b)] ∧ b.data.size = 1 := by
  rw [← item_ok_iff]
  cases h : a.item with
  | ok v => simp
  | error e =>
    rw [item_eq_core] at h
    have := itemCore_error _ e h
    subst this
    simp

omit [Zero R] [Lazy.LawfulNeg R] in
theorem item_error_kind (a : Arr R) (e : Err) (h : a.item = .error e) : e = Err.value := by
  rw [item_eq_core] at h
  exact itemCore_error _ e h

omit [Lazy.LawfulNeg R] in
/-- `item` of the synchronised copy is the `item` of the array -/
theorem item_phaseSync (a : Arr R) (hab : a.fermi = false → a.phases = []) :
    a.phaseSync.item = a.item := by
  rw [item_eq_core, item_eq_core, Lazy.phaseSync_phases]
  simp only [List.isEmpty_nil, Bool.not_true, Bool.and_false, Bool.false_eq_true, if_false]
  by_cases hc : (a.fermi && !a.phases.isEmpty) = true
  · rw [if_pos hc]
  · rw [if_neg hc]
    have hp : a.phases = [] := by
      cases hf : a.fermi with
      | false => exact hab hf
      | true => rw [hf] at hc; simpa using hc
    rw [Lazy.phaseSync_blocks_eq]
    have : a.blocks.map (fun p => (p.1, Lazy.syncBlk a p.1 p.2)) = a.blocks := by
      conv => rhs; rw [← List.map_id a.blocks]
      apply List.map_congr_left
      intro p _
      simp [Lazy.syncBlk, Lazy.phOf, hp]
    rw [this]

end item

/-! ## 2. `float(x)`, `complex(x)`, `int(x)`, `bool(x)` agree with `item` -/

section conv

/-- `complex(x) = x.item()` -/
theorem toComplex_eq_item (a : Arr GRat) : a.toComplex = a.item := rfl

/-- `float(x)` of a real array is the (real part of the) item; the errors are those of `item` -/
theorem toFloat_real (a : Arr GRat) : a.toFloat false = a.item.map (·.re) := by
  unfold Arr.toFloat
  cases a.item <;> rfl

/-- `float(x)` of a complex array: the `ValueError` of `item` first, otherwise a `TypeError` whatever the
    value -/
theorem toFloat_complex (a : Arr GRat) :
    a.toFloat true = match a.item with
      | .ok _ => .error Err.type
      | .error e => .error e := by
  unfold Arr.toFloat
  cases a.item <;> rfl

/-- `int(x)` of a real array: the item truncated towards zero -/
theorem toInt_real (a : Arr GRat) :
    a.toInt false = a.item.map (fun v => v.re.num.tdiv v.re.den) := by
  unfold Arr.toInt
  cases a.item <;> rfl

/-- … in particular an integer item is returned as it is -/
theorem toInt_of_int (a : Arr GRat) (n : Int) (im : Rat) (h : a.item = .ok ⟨(n : Rat), im⟩) :
    a.toInt false = .ok n := by
  rw [toInt_real, h]
  simp [Except.map]

theorem toInt_complex (a : Arr GRat) :
    a.toInt true = match a.item with
      | .ok _ => .error Err.type
      | .error e => .error e := by
  unfold Arr.toInt
  cases a.item <;> rfl

/-- `bool(x)`: the item is non-zero -/
theorem toBool_eq_item (a : Arr GRat) : a.toBool = a.item.map (· != 0) := by
  unfold Arr.toBool
  cases a.item <;> rfl

/-- every conversion raises the `ValueError` of `item` when `item` raises -/
theorem conv_error_of_item (a : Arr GRat) (e : Err) (h : a.item = .error e) (cplx : Bool) :
    a.toFloat cplx = .error e ∧ a.toComplex = .error e ∧ a.toInt cplx = .error e
      ∧ a.toBool = .error e := by
  unfold Arr.toFloat Arr.toComplex Arr.toInt Arr.toBool
  rw [h]
  exact ⟨rfl, rfl, rfl, rfl⟩

/-- all of them through the value view: on a valid one-block one-entry array, with `v` the element at the
    single address (pending sign applied) -/
theorem conv_eq_elem (a : Arr GRat) (hab : a.fermi = false → a.phases = []) (s : Sector) (b : Blk GRat)
    (hb : a.blocks = [(s, b)]) (hsz : b.data.size = 1) :
    let v := a.elem s (List.replicate b.shape.length 0)
    a.toComplex = .ok v ∧ a.toFloat false = .ok v.re ∧ a.toInt false = .ok (v.re.num.tdiv v.re.den)
      ∧ a.toBool = .ok (v != 0) ∧ a.toFloat true = .error Err.type ∧ a.toInt true = .error Err.type := by
  have hi := item_eq_elem a hab s b hb hsz
  unfold Arr.toFloat Arr.toComplex Arr.toInt Arr.toBool
  rw [hi]
  exact ⟨rfl, rfl, rfl, rfl, rfl, rfl⟩

end conv

/-! ## 3. `allclose` ⇔ equality of the dense forms -/

section close
variable [Zero R] [Neg R] [BEq R] [LawfulBEq R] [Lazy.LawfulNeg R]

/-- the dense form determines the whole value view: two valid arrays over the same index tables (none
    with an empty charge table) with the same dense form have the same element at every address -/
theorem elem_of_toDense (a b : Arr R) (ha : a.validB = true) (hb : b.validB = true)
    (hi : a.indices = b.indices) (hne : NoEmpty a) (hd : a.toDenseA = b.toDenseA) :
    ∀ s off, a.elem s off = b.elem s off := by
  have ga := Good.of_valid ha
  have gb := (Good.of_valid hb).shaped
  rw [← hi] at gb
  exact elem_eq_of_inBox ga.shaped gb (elem_inBox_of_toDense ga.keys hi hne hd)

/-- **`allclose` decides equality of the dense forms** (converse of `allclose_toDense` included) — valid
    arrays of the same class over the same index tables; no further hypothesis -/
theorem allclose_iff_toDense (a b : Arr R) (ha : a.validB = true) (hb : b.validB = true)
    (hi : a.indices = b.indices) (hf : a.fermi = b.fermi) :
    a.allclose b = true ↔ a.toDenseA = b.toDenseA := by
  constructor
  · exact allclose_toDense a b ha hb hi hf
  · intro hd
    rw [allclose_iff_elem a b ha hb hi hf]
    by_cases hne : a.indices.any (fun ix => ix.cm.isEmpty) = true
    · have h1 := blocks_nil_of_empty_cm (Good.of_valid ha) hne
      have h2 := blocks_nil_of_empty_cm (Good.of_valid hb) (hi ▸ hne)
      intro s off
      rw [elem_none (a := a) (by rw [h1]; rfl), elem_none (a := b) (by rw [h2]; rfl)]
    · exact elem_of_toDense a b ha hb hi (by simpa using hne) hd

/-- the three views of "the same tensor" coincide: `allclose`, the value view, the dense form -/
theorem elem_iff_toDense (a b : Arr R) (ha : a.validB = true) (hb : b.validB = true)
    (hi : a.indices = b.indices) (hf : a.fermi = b.fermi) :
    (∀ s off, a.elem s off = b.elem s off) ↔ a.toDenseA = b.toDenseA := by
  rw [← allclose_iff_elem a b ha hb hi hf, allclose_iff_toDense a b ha hb hi hf]

/-- an index with an empty charge table: a valid array stores nothing, `to_dense` raises and any two such
    arrays are close -/
theorem allclose_of_empty_table (a b : Arr R) (ha : a.validB = true) (hb : b.validB = true)
    (hi : a.indices = b.indices) (hf : a.fermi = b.fermi) (he : ¬ NoEmpty a) :
    a.blocks = [] ∧ b.blocks = [] ∧ a.toDenseA = .error Err.value ∧ a.allclose b = true := by
  have he' : a.indices.any (fun ix => ix.cm.isEmpty) = true := by simpa [NoEmpty] using he
  have h1 := blocks_nil_of_empty_cm (Good.of_valid ha) he'
  have h2 := blocks_nil_of_empty_cm (Good.of_valid hb) (hi ▸ he')
  refine ⟨h1, h2, Arr.toDenseA_error a false he', ?_⟩
  rw [allclose_iff_elem a b ha hb hi hf]
  intro s off
  rw [elem_none (a := a) (by rw [h1]; rfl), elem_none (a := b) (by rw [h2]; rfl)]

end close

/-! ## 4. the hypotheses are satisfiable; the model on concrete arrays -/

section Examples

/-- a fermionic Z2 array whose only block has one entry and carries a pending sign -/
def exItemF : Arr GRat :=
  { sym := .Z2, fermi := true, charge := (0, 0),
    indices := [Index.mk [((0, 0), 2), ((1, 0), 1)] false none,
                Index.mk [((0, 0), 1), ((1, 0), 1)] true none],
    blocks := [([(1, 0), (1, 0)], ⟨[1, 1], #[⟨3, 0⟩]⟩)],
    phases := [([(1, 0), (1, 0)], -1)] }

/-- the same without the sign, and with a 2-entry block -/
def exItemA : Arr GRat := { exItemF with fermi := false, phases := [] }
def exItemBig : Arr GRat :=
  { exItemA with blocks := [([(0, 0), (0, 0)], ⟨[2, 1], #[⟨3, 0⟩, ⟨1, 0⟩]⟩)] }

example : exItemF.validB = true ∧ exItemA.validB = true ∧ exItemBig.validB = true := by decide +kernel

example : exItemF.item = .ok ⟨-3, 0⟩ ∧ exItemA.item = .ok ⟨3, 0⟩ ∧ exItemBig.item = .error Err.value
    ∧ ({ exItemA with blocks := [] } : Arr GRat).item = .error Err.value
    ∧ exItemF.toInt false = .ok (-3) ∧ exItemF.toFloat true = .error Err.type
    ∧ exItemBig.toFloat true = .error Err.value ∧ exItemF.toBool = .ok true := by
  decide +kernel

/-- `item_eq_elem` / `item_eq_stored` instantiate on the fermionic one-entry array with a pending sign -/
example : exItemF.item = .ok (exItemF.elem [(1, 0), (1, 0)] [0, 0]) :=
  item_eq_elem exItemF (by decide) [(1, 0), (1, 0)] ⟨[1, 1], #[⟨3, 0⟩]⟩ rfl rfl

example : exItemF.item = .ok (-(⟨3, 0⟩ : GRat)) :=
  item_eq_stored exItemF (by decide) [(1, 0), (1, 0)] ⟨[1, 1], #[⟨3, 0⟩]⟩ ⟨3, 0⟩ rfl rfl

/-- `allclose_iff_toDense` on the arrays of part g: same dense form, different stored sectors -/
example : exSparse.allclose exZero = true ∧ exSparse.sectors ≠ exZero.sectors := by
  decide +kernel

example : exSparse.toDenseA = exZero.toDenseA :=
  (allclose_iff_toDense exSparse exZero (by decide) (by decide) rfl rfl).mp (by decide +kernel)

end Examples

end SymmModel.C08
