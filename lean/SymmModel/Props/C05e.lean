/-
  Property C05, part e.

  * item 2 — `conj` commutes with `fuse` and with `unfuse`, EXACTLY (same dict, same order, same
    numbers, same index tables), at any depth of previously fused indices:
      `fuse_conj_comm`      fuse (conj a) groups = conj (fuse a groups)
      `conj_sub_table`      the sub-index table of a conjugated fused index: the SAME extents, every
                            sub-index conjugated (recursively) — the "documented direction flip"
      `unfuse_conj_comm`    unfuse (conj x) p = conj (unfuse x p)
      `fuse_conj_comm_depth2`  both, composed over two fuses (the mechanism behind the seeded bugs
                            "stale sub-index info on conj of a twice-fused array": an implementation
                            that flips only the outer direction violates `conj_sub_table`, and then
                            `unfuse_conj_comm` fails at the inner unfuse)
    Abelian `conjA` only.  The fermionic `conjF` is NOT covered: `fuseF` transposes and flips
    according to the direction of each group, and all group directions change under `conjF`, so the
    two sides differ by sector-dependent signs; no statement is claimed.
  * item 3 (second half) — `VEq` (equal value views), `unfuseF_respects_veq`, `unfuseF_value`:
    the value view of `unfuseF a p` is the explicit function `unfVal … a.elem` of the value view of
    `a`; hence `unfuseF` maps arrays with equal value views to arrays with equal value views.
  * item 4 — `fuse_cache_irrelevant`, `fuse_cache_irrelevant_concurrent`: the model's `fuseCore`
    has no cache parameter, it calls `calcFuseBlockInfo`; `fuseCoreWithPlan` is `fuseCore` with the
    plan handed in.  With the plan answered by the cache of C15 after ANY history / in ANY schedule
    the result is `fuseCore`'s.

  * item 3 (first half) — `unfuseAllF_eq_unfuseGroupsF`, `unfuseAllF_fuseF`: for an array with plain
    indices the scan of `unfuse_all` after `fuseF` performs exactly the `unfuseF` steps of
    `unfuseGroupsF` (an unfuse step at axis `ax` changes no index before `ax`, and the fused axes of
    `fuseF a groups` are exactly the multi-axis groups), so the whole conclusion of `unfuseF_fuseF`
    holds for `unfuseAllF (fuseF a groups)`.

  Not proved (see report): `fuseInsert_eq_fuseConcat` for several groups; commutation of two
  `unfuseF` steps on different axes.
-/
import SymmModel.Proofs.Fuse5Cache
import SymmModel.Proofs.Fuse5Veq
import SymmModel.Proofs.Fuse5Conj3
import SymmModel.Proofs.Fuse5All2
import SymmModel.Props.C05All2
import SymmModel.Props.C01

namespace SymmModel.C05
open SymmModel FuseP SymmModel.Lazy

/-! ## item 2: conj commutes with fuse / unfuse -/
section Conj
variable {R : Type} [Zero R] [Neg R] [Conj R] [LawfulNegConj R]

/-- **fuse ∘ conj = conj ∘ fuse** (insert strategy, any groups, any depth of fused indices):
    both succeed, and the fused conjugate IS the conjugated fused array — blocks, order, index
    tables and all. -/
theorem fuse_conj_comm (a : Arr R) (groups : List (List Nat)) (hv : a.validB = true) (hf : a.fermi = false)
    (hg : groupsOkB groups a.ndim = true) :
    ∃ x, fuseCore a groups .insert = .ok x ∧ fuseCore a.conjA groups .insert = .ok x.conjA
      ∧ x.conjA.indices = x.indices.map Index.conj
      ∧ x.conjA.blocks = x.blocks.map (fun sb => (sb.1, sb.2.conjK)) := by
  have hok := groupsOk_iff.1 hg
  have hokc : GroupsOk groups a.conjA.ndim := by rw [(conjA_fields a).2.2.2.2]; exact hok
  have hvc := validArr_of_validB (C01.conjA_valid a hv hf)
  refine ⟨_, fuseCore_multi_eq (validArr_of_validB hv) hok, ?_, rfl, (conjA_fields _).2.2.1⟩
  rw [fuseCore_multi_eq hvc hokc, fusedArrM_conjA hok]

/-- the sub-index table under `conj`: the direction of the index flips, the extents table is the
    SAME, and every sub-index is conjugated (recursively — `Index.conj` goes through `sub`) -/
theorem conj_sub_table (ix : Index) (subs : List Index) (exts : Extents) (h : ix.sub = some (subs, exts)) :
    ix.conj.dual = (!ix.dual) ∧ ix.conj.cm = ix.cm ∧ ix.conj.sub = some (subs.map Index.conj, exts) :=
  ⟨conj_dual' ix, LinalgLemmas.conj_cm ix, conj_sub ix h⟩

/-- **unfuse ∘ conj = conj ∘ unfuse** at a fused axis -/
theorem unfuse_conj_comm (x : Arr R) (p : Nat) (ix : Index) (subs : List Index) (exts : Extents)
    (hv : x.validB = true) (hix : x.indices[p]? = some ix) (hsub : ix.sub = some (subs, exts)) :
    unfuseA x.conjA p = (unfuseA x p).map Arr.conjA :=
  unfuseA_conjA x p ix subs exts (validArr_of_validB hv) hix hsub

/-- depth 2: fuse twice; conjugating first or last is the same array, and the twice-fused conjugate
    unfuses (at any fused axis) to the conjugate of the unfused array -/
theorem fuse_conj_comm_depth2 (a : Arr R) (g1 g2 : List (List Nat)) (hv : a.validB = true) (hf : a.fermi = false)
    (h1 : groupsOkB g1 a.ndim = true) :
    ∃ x, fuseCore a g1 .insert = .ok x ∧ fuseCore a.conjA g1 .insert = .ok x.conjA ∧
      (groupsOkB g2 x.ndim = true →
        ∃ x2, fuseCore x g2 .insert = .ok x2 ∧ fuseCore x.conjA g2 .insert = .ok x2.conjA
          ∧ x2.conjA.indices = x2.indices.map Index.conj
          ∧ ∀ p ix subs exts, x2.indices[p]? = some ix → ix.sub = some (subs, exts) →
              unfuseA x2.conjA p = (unfuseA x2 p).map Arr.conjA) := by
  obtain ⟨x, hx, hxc, _, _⟩ := fuse_conj_comm a g1 hv hf h1
  have hok := groupsOk_iff.1 h1
  have hxv := C01.fuseCore_valid a x g1 hv hf (admissible_of_groupsOk hok) hx
  have hxf : x.fermi = false := by
    have := fuseCore_multi_eq (validArr_of_validB hv) hok
    rw [hx] at this
    simp only [Except.ok.injEq] at this
    rw [this]; exact hf
  refine ⟨x, hx, hxc, fun h2 => ?_⟩
  obtain ⟨x2, hx2, hx2c, hi, _⟩ := fuse_conj_comm x g2 hxv hxf h2
  have hx2v := C01.fuseCore_valid x x2 g2 hxv hxf (admissible_of_groupsOk (groupsOk_iff.1 h2)) hx2
  exact ⟨x2, hx2, hx2c, hi, fun p ix subs exts hix hsub => unfuse_conj_comm x2 p ix subs exts hx2v hix hsub⟩

end Conj

/-- index tables down to depth 2, in three flat views: (chargemap, direction, extents) of every
    index; the same of every sub-index; the directions at depth 0 / 1 / 2 -/
def viewIx0 (x : Arr Int) : List (List (Charge × Nat) × Bool × Extents) :=
  x.indices.map (fun ix => (ix.cm, ix.dual, (ix.sub.map (·.2)).getD []))
def viewIx1 (x : Arr Int) : List (List (Charge × Nat) × Bool × Extents) :=
  x.indices.flatMap (fun ix => ((ix.sub.map (·.1)).getD []).map (fun s => (s.cm, s.dual, (s.sub.map (·.2)).getD [])))
def viewDirs (x : Arr Int) : List (Bool × List (Bool × List Bool)) :=
  x.indices.map (fun ix => (ix.dual, ((ix.sub.map (·.1)).getD []).map (fun s =>
    (s.dual, ((s.sub.map (·.1)).getD []).map (·.dual)))))
def sameIx2 (r r' : Except Err (Arr Int)) : Prop :=
  r.toOption.map viewIx0 = r'.toOption.map viewIx0 ∧ r.toOption.map viewIx1 = r'.toOption.map viewIx1
  ∧ r.toOption.map viewDirs = r'.toOption.map viewDirs ∧ r.toOption.map (·.charge) = r'.toOption.map (·.charge)
set_option synthInstance.maxSize 4096 in
instance (r r' : Except Err (Arr Int)) : Decidable (sameIx2 r r') := by unfold sameIx2; infer_instance

def twice (a : Arr Int) : Except Err (Arr Int) := do
  let x ← fuseCore a [[0, 1]] .insert
  fuseCore x [[0, 1]] .insert
def twiceBack (a : Arr Int) : Except Err (Arr Int) := do
  let x ← twice a
  let y ← unfuseA x 0
  unfuseA y 0

/-- the rank-4 example, fused twice: conj before = conj after (blocks, tables to depth 2, charge) -/
example : view (twice exB.conjA) = view ((twice exB).map Arr.conjA) := by decide +kernel
example : sameIx2 (twice exB.conjA) ((twice exB).map Arr.conjA) := by decide +kernel
/-- the inner table of the conjugate has its directions flipped, too -/
example : (twice exB).toOption.map viewDirs
      = some [(false, [(false, [false, false]), (false, [])]), (false, [])]
    ∧ (twice exB.conjA).toOption.map viewDirs
      = some [(true, [(true, [true, true]), (true, [])]), (true, [])] := by
  decide +kernel
/-- unfusing the conjugate twice = the conjugate of unfusing twice -/
example : view (twiceBack exB.conjA) = view ((twiceBack exB).map Arr.conjA) := by decide +kernel
example : sameIx2 (twiceBack exB.conjA) ((twiceBack exB).map Arr.conjA) := by decide +kernel

/-! ## item 3: value views -/
section Val
variable {R : Type} [Zero R] [Neg R] [LawfulNeg R]

/-- `ObsEq` (C03) is `VEq` plus nothing observable: it implies it -/
theorem veq_of_obsEq {a b : Arr R} (h : ObsEq a b) : VEq a b := ObsEq.toVEq h

/-- **value view of `unfuseF`** as a function of the value view of the input (on the boxes of the
    result; outside the boxes every value is `0`) -/
theorem unfuseF_value (a : Arr R) (p : Nat) (ix : Index) (subs : List Index) (exts : Extents)
    (hv : a.validB = true) (hix : a.indices[p]? = some ix) (hsub : ix.sub = some (subs, exts)) :
    ∃ y, Arr.unfuseF a p = .ok y ∧ y.indices = replaceWithSeq a.indices p subs
      ∧ ∀ K shpK, Arr.blockShape? y.indices K = some shpK → ∀ J, inBox shpK J = true →
          y.elem K J = unfVal a.sym ix subs exts p (unfuseSign a ix subs p) a.elem K J :=
  unfuseF_val a p ix subs exts hv hix hsub

/-- **`unfuseF` respects equality of value views**: arrays with the same frame and the same values
    (whatever they store: extra zero blocks, pending signs pushed or not) unfuse to arrays with the
    same frame and the same values -/
theorem unfuseF_respects_veq {a b : Arr R} (h : VEq a b) (hva : a.validB = true) (hvb : b.validB = true)
    (hfa : a.fermi = true) {p : Nat} {ix : Index} {subs : List Index} {exts : Extents}
    (hix : a.indices[p]? = some ix) (hsub : ix.sub = some (subs, exts)) :
    ∃ y y', Arr.unfuseF a p = .ok y ∧ Arr.unfuseF b p = .ok y' ∧ VEq y y' :=
  unfuseF_veq h hva hvb hfa hix hsub

/-- `unfuse_all` on a fermionic array whose fused axes are exactly the multi-axis groups at
    `pos + g` is the list of `unfuseF` steps, last group first -/
theorem unfuseAllF_eq_unfuseGroupsF (groups : List (List Nat)) (pos : Nat) (y : Arr R)
    (hv : y.validB = true) (hf : y.fermi = true) (hn : pos + groups.length ≤ y.ndim)
    (hidx : ∀ ax ix, y.indices[ax]? = some ix →
      ix.sub.isSome = (decide (pos ≤ ax) && multiB groups (ax - pos))) :
    Arr.unfuseAllF y = unfuseGroupsF groups pos y :=
  unfuseAllF_eq_groups groups pos y hv hf hn hidx

/-- **`unfuseAllF ∘ fuseF`** for arrays with plain indices: the conclusion of `unfuseF_fuseF` with
    `unfuse_all` in place of the explicit list of unfuse steps -/
theorem unfuseAllF_fuseF (a : Arr R) (groups : List (List Nat)) (e : Bool)
    (hv : a.validB = true) (hf : a.fermi = true) (hg : groupsOkB groups a.ndim = true)
    (hplain : ∀ ix ∈ a.indices, ix.sub = none) :
    let gi := calcFuseGroupInfo groups a.duals
    ∃ y z, Arr.fuseF a groups .insert e = .ok y ∧ Arr.unfuseAllF y = .ok z
      ∧ Arr.unfuseAllF y = unfuseGroupsF groups gi.position y
      ∧ z.validB = true ∧ z.fermi = true
      ∧ z.indices = (a.transposeF gi.perm).indices ∧ z.sym = a.sym ∧ z.charge = a.charge ∧ z.oddpos = a.oddpos
      ∧ (∀ s b, (s, b) ∈ a.blocks → ∃ V, alookup z.blocks (permuted s gi.perm) = some V
          ∧ V.shape = permuted b.shape gi.perm
          ∧ ∀ J, inBox V.shape J = true →
              z.elem (permuted s gi.perm) J = (a.transposeF gi.perm).elem (permuted s gi.perm) J)
      ∧ (∀ K V, alookup z.blocks K = some V → (∀ s b, (s, b) ∈ a.blocks → K ≠ permuted s gi.perm) →
          ∀ J, inBox V.shape J = true → z.elem K J = 0 ∧ (a.transposeF gi.perm).elem K J = 0) := by
  intro gi
  obtain ⟨y, z, h1, h2, rest⟩ := unfuseF_fuseF a groups e hv hf hg
  obtain ⟨y', h1', h⟩ := unfuseAllF_fuseF_eq a groups e hv hf (groupsOk_iff.1 hg) hplain
  rw [h1] at h1'
  simp only [Except.ok.injEq] at h1'
  subst h1'
  exact ⟨y, z, h1, h.trans h2, h, rest⟩

end Val

example : ∀ ix ∈ exF'.indices, ix.sub = none := by decide
/-- the fermionic example with a pending sign: `unfuse_all` after `fuseF` = the explicit round trip -/
example : view (do let x ← Arr.fuseF exF' [[2, 1], [0]] .insert true; Arr.unfuseAllF x) = view fermiTrip
    ∧ viewPh (do let x ← Arr.fuseF exF' [[2, 1], [0]] .insert true; Arr.unfuseAllF x) = viewPh fermiTrip := by
  decide +kernel

/-! ## item 4: the plan cache is irrelevant -/
section Cache
open FuseCache
variable {R : Type} [Zero R]

/-- **sequential**: whatever was asked of the cache before (any history, eviction policy, size,
    sector limit), fusing with the plan the cache answers is fusing with the plan recomputed.
    (The model's `fuseCore` recomputes; `fuseCoreWithPlan` is the same code with the plan handed in:
    `fuseCore_eq_withPlan` is `rfl`.) -/
theorem fuse_cache_irrelevant (P : Policy) (maxsize : Int) (maxsectors : Nat)
    (history : List (Arr R × List (List Nat))) (a : Arr R) (groups : List (List Nat)) (mode : FuseMode)
    (plan : Except Err FuseInfo)
    (h : lastAnswer (runCallsP P (fuseSpec R maxsectors) (FuseCache.empty maxsize) (history ++ [(a, groups)])).1
          = some plan) :
    fuseCoreWithPlan plan a mode = fuseCore a groups mode := by
  rw [cached_plan_eq] at h
  simp only [Option.some.injEq] at h
  rw [← h, fuseCore_eq_withPlan]

/-- **concurrent**: every completed cache call of every thread in every schedule -/
theorem fuse_cache_irrelevant_concurrent (P : Policy) (maxsize : Int) (maxsectors : Nat)
    (progs : List (List (Arr R × List (List Nat)))) (sched : List Nat) (mode : FuseMode) :
    ∀ t ∈ (runSched P (fuseSpec R maxsectors) ⟨FuseCache.empty maxsize, spawn progs⟩ sched).threads,
      ∀ p ∈ t.out, fuseCoreWithPlan p.2 p.1.1 mode = fuseCore p.1.1 p.1.2 mode := by
  intro t ht p hp
  rw [C15.fuse_cache_schedule_independent R P maxsize maxsectors progs sched t ht p hp, fuseCore_eq_withPlan]

/-- the plan function of `fuseCore` is the function whose memoisation key C15 proves complete:
    equal keys, equal fuse results on the same array -/
theorem fuse_key_complete (a : Arr R) (a' : Arr R) (g g' : List (List Nat)) (mode : FuseMode)
    (h : keyOfArr a g = keyOfArr a' g') :
    fuseCore a g mode = fuseCoreWithPlan (calcFuseBlockInfo a' g') a mode := by
  rw [fuseCore_eq_withPlan, C15.key_complete a a' g g' h]

end Cache

end SymmModel.C05
