/-
  Property C11 — umbrella: everything in C11All2 (C11, C11b, C11c, C11d) plus C11e
  (reconstruction through `tensordot` in every contraction mode, fermionic and abelian; `solve`
  with a labelled matrix).
-/
import SymmModel.Props.C11All2
import SymmModel.Props.C11e
