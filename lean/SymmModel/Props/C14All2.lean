/-
  SymmModel.Props.C14All2 — umbrella for property C14: `C14All` (frame / ownership theorems, two-operand
  in-place forms, second operation table) and `C14c` (value semantics of the buffer table: `x ∘= x` with
  pending signs, refinement of the binary operators to the value model).
-/
import SymmModel.Props.C14All
import SymmModel.Props.C14c
