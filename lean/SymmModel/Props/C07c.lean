/-
  Property C07, third part.

  (1) THE UNBOUNDED PLANNER THEOREM.  `calc_reshape_args` (model `calcReshapeArgs`,
      Model/ReshapePlan.lean) is verified for ALL shapes, targets and sub-sizes (any rank, any
      sizes), by induction along its four phases (Proofs/Reshape3a–g.lean).  The loop invariant is
      a list of segments `Reshape3.Seg` ("o" axis kept, "u" axis unfused, "s" axis squeezed, "g"
      run of axes fused, "x" new size-one axis) from which the label list `term`, the dicts
      `unfuse_sizes` / `fuse_sizes`, the counters i, j, k and `axs_expand` are all read off
      (`Reshape3.MInv`); the unfuse phase replaces "u" by "o"s, the squeeze phase merges every "s"
      into a neighbouring group (`Reshape3.squeezePhase_segs`), the fuse phase multiplies the
      groups out (`Reshape3.fuseLoop_segs`), the expand phase inserts the ones.
        `planner_wf_of_trailing`  if the planner returns a plan, the plan is certified
                                  (`Plan.wfB`: it executes on the symbolic shape with all axes in
                                  range, only fused axes unfused, every fuse call grouping
                                  consecutive axes in order, and the resulting shape is EXACTLY
                                  `newshape`) — provided the dimensions the first loop leaves over
                                  on either side have size one.  Every branch of the planner is
                                  covered, including the unfuse ("fused-window matching") branch.
        `planner_wf`              the same from hypotheses on the inputs only: all sizes positive,
                                  `prod shape = prod newshape`, every fused axis as large as the
                                  product of its sub-sizes (`denseB`).
        `planner_wf_unfused`      no fused axes: positive sizes and equal products suffice.
      The hypotheses are necessary — the code assumes but never checks that the left-over
      dimensions have size one:
        `planner_size_mismatch_counterexample`   (2,3) → (2,): plan fuses to (6,)   [prod differs]
        `planner_zero_size_counterexample`       (0,2,5) → (0,2): plan gives (0,10) [size zero]
        `planner_trailing_target_counterexample` (2,) → (2,3): plan gives (2,1)     [prod differs]
        `C07.reshape_self_id_fused_counterexample` (Props/C07.lean)                 [sparse fuse]
      How the two recorded findings of C07 are excluded:
        * reshape-empty-target: the planner raises, so the hypothesis `= .ok t` fails
          (`planner_empty_target_excluded`);
        * reshape-fused-window-match: a sparsely fused axis (size < product of its sub-sizes)
          violates `denseB`; for such inputs `planner_wf_of_trailing` still applies whenever the
          left-over dimensions have size one, and the finding's input (4,2) with sub-sizes (4,2)
          leaves the size-2 axis over (`window_match_excluded`).

  (2) CONTENT FOR FERMIONIC ARRAYS (Proofs/Reshape3h–j.lean).  `FermionicArray.fuse` /
      `.unfuse` and every certified plan executed by `reshape` keep the content UP TO SIGNS
      (`SameAbs`: every additive statistic of the stored entries that is even in the entry agrees;
      hence the squared norm and the multiset of magnitudes), the result is valid, has the
      requested number of axes and stays fermionic.  With (1) the certificate hypothesis of the
      array-level theorems disappears for arrays without sparsely fused axes.
      NOT proved here: the element-exact statement with the explicit sign (`C05.fuseF_elem` gives it
      for a single fuse step, `C05.unfuseF_elem` for a single unfuse step; composing them along a
      plan, and the exact round trip `reshape` ∘ `reshape` = id on the value view, need the
      inverse-sign theorem `unfuseF_fuseF`, which C05c lists as open).
-/
import SymmModel.Proofs.Reshape3j
import SymmModel.Props.C07b

namespace SymmModel.C07
open SymmModel SymmModel.Reshape SymmModel.Reshape3 ReshapeP

/-! ## 1. the planner, all shapes -/

/-- **Unbounded planner theorem (general form).**  For every shape, target and sub-sizes: a plan
    returned by the planner is certified, provided the first loop leaves only size-one dimensions
    over (on both sides). -/
theorem planner_wf_of_trailing (shape newshape : List Nat) (subsizes : List (Option (List Nat)))
    (hlen : shape.length = subsizes.length)
    (t : List Nat × List (List (List Nat)) × List Nat)
    (h : calcReshapeArgs shape newshape subsizes = .ok t)
    (htrail : ∀ st, mainLoop shape newshape subsizes (shape.length + newshape.length) {} = .ok st →
      (∀ d ∈ shape.drop st.i, d = 1) ∧ (∀ d ∈ newshape.drop st.j, d = 1)) :
    (Plan.ofTriple t).wfB shape subsizes newshape = true :=
  Reshape3.planner_wf_of_trailing shape newshape subsizes hlen t h htrail

/-- **Unbounded planner theorem (input-level form).**  All sizes positive, equal dense sizes and no
    sparsely fused axis: whatever plan the planner returns is certified. -/
theorem planner_wf (shape newshape : List Nat) (subsizes : List (Option (List Nat)))
    (hlen : shape.length = subsizes.length) (hdense : denseB shape subsizes = true)
    (hpos : ∀ d ∈ shape, 0 < d) (hprod : prod shape = prod newshape)
    (t : List Nat × List (List (List Nat)) × List Nat)
    (h : calcReshapeArgs shape newshape subsizes = .ok t) :
    (Plan.ofTriple t).wfB shape subsizes newshape = true :=
  planner_wf_of_prod shape newshape subsizes hlen hdense hpos hprod t h

/-- … and what the certificate says: the plan executes symbolically and the shape it produces is
    exactly `newshape` -/
theorem planner_shape_exact (shape newshape : List Nat) (subsizes : List (Option (List Nat)))
    (hlen : shape.length = subsizes.length) (hdense : denseB shape subsizes = true)
    (hpos : ∀ d ∈ shape, 0 < d) (hprod : prod shape = prod newshape)
    (t : List Nat × List (List (List Nat)) × List Nat)
    (h : calcReshapeArgs shape newshape subsizes = .ok t) :
    ∃ r, (Plan.ofTriple t).exec (shape.zip subsizes) = some r ∧ r.length = newshape.length
      ∧ SymShape.sizes r = newshape :=
  (plan_certificate_sound (planner_wf shape newshape subsizes hlen hdense hpos hprod t h)).2

/-- no fused axes -/
theorem planner_wf_unfused (shape newshape : List Nat) (hpos : ∀ d ∈ shape, 0 < d)
    (hprod : prod shape = prod newshape) (t : List Nat × List (List (List Nat)) × List Nat)
    (h : calcReshapeArgs shape newshape (nones shape) = .ok t) :
    (Plan.ofTriple t).wfB shape (nones shape) newshape = true :=
  planner_wf shape newshape (nones shape) (nones_length shape).symm (denseB_nones shape) hpos hprod t h

-- squeeze on the left and in the middle, a fuse, two expansions
example : calcReshapeArgs [1, 2, 1, 3, 4] [6, 1, 4, 1] (nones [1, 2, 1, 3, 4])
    = .ok ([], [[[0, 1, 2, 3]]], [2, 1]) := by decide
example := planner_wf_unfused [1, 2, 1, 3, 4] [6, 1, 4, 1] (by decide) (by decide) _ rfl
-- an unfuse (the window-matching branch) followed by a fuse, rank and sizes outside the table
example : calcReshapeArgs [35, 7, 11] [5, 7, 77] [some [5, 7], none, none] = .ok ([0], [[[2, 3]]], []) := by
  decide
example := planner_wf [35, 7, 11] [5, 7, 77] [some [5, 7], none, none] rfl (by decide) (by decide)
  (by decide) _ rfl
example := planner_shape_exact [35, 7, 11] [5, 7, 77] [some [5, 7], none, none] rfl (by decide)
  (by decide) (by decide) _ rfl

/-! ### the hypotheses are necessary -/

/-- FINDING (candidate).  The sizes are never compared: the dimensions left over after the first
    loop are labelled "s" / expanded without a check.  `(2,3).reshape((2,))` is planned as
    `fuse((0,1))`, i.e. returns a one-axis array of size 6 instead of raising. -/
theorem planner_size_mismatch_counterexample :
    calcReshapeArgs [2, 3] [2] (nones [2, 3]) = .ok ([], [[[0, 1]]], [])
    ∧ (Plan.mk [] [[[0, 1]]] []).wfB [2, 3] (nones [2, 3]) [2] = false
    ∧ (Plan.mk [] [[[0, 1]]] []).exec ([2, 3].zip (nones [2, 3])) = some [(6, some [2, 3])] := by
  decide

/-- equal dense sizes are not enough when a size is zero -/
theorem planner_zero_size_counterexample :
    prod [0, 2, 5] = prod [0, 2]
    ∧ calcReshapeArgs [0, 2, 5] [0, 2] (nones [0, 2, 5]) = .ok ([], [[[1, 2]]], [])
    ∧ (Plan.mk [] [[[1, 2]]] []).wfB [0, 2, 5] (nones [0, 2, 5]) [0, 2] = false := by
  decide

/-- left-over target dimensions are expanded as if they were ones -/
theorem planner_trailing_target_counterexample :
    calcReshapeArgs [2] [2, 3] (nones [2]) = .ok ([], [], [1])
    ∧ (Plan.mk [] [] [1]).wfB [2] (nones [2]) [2, 3] = false := by
  decide

/-- known finding reshape-empty-target: the hypotheses on the sizes hold, the planner raises, so
    `planner_wf` says nothing about these inputs -/
theorem planner_empty_target_excluded (m : Nat) :
    prod (List.replicate (m + 1) 1) = prod []
    ∧ (∀ t, calcReshapeArgs (List.replicate (m + 1) 1) [] (nones (List.replicate (m + 1) 1)) ≠ .ok t) := by
  refine ⟨?_, fun t h => ?_⟩
  · induction m with
    | zero => rfl
    | succ m ih => rw [List.replicate_succ]; simp only [prod] at ih ⊢; omega
  · rw [planner_empty_target_raises m] at h; cases h

/-- known finding reshape-fused-window-match: its input has a sparsely fused axis (`denseB` fails)
    and the first loop leaves the size-2 axis over (the hypothesis of the general form fails) -/
theorem window_match_excluded :
    denseB [4, 2] [some [4, 2], none] = false
    ∧ ∃ st, mainLoop [4, 2] [4, 2] [some [4, 2], none] 4 {} = .ok st ∧ [4, 2].drop st.i = [2] := by
  refine ⟨by decide, _, rfl, by decide⟩

/-! ## 2. content, fermionic arrays included -/

variable {R : Type}

/-- `SameAbs` ⇒ the same squared norm, for every even `nsq` with `nsq 0 = 0` -/
theorem sameAbs_normSq2 [Zero R] [Neg R] {a b : Arr R} (h : SameAbs a b) {S : Type} [AddCommMonoid S]
    (nsq : R → S) (h0 : nsq 0 = 0) (he : ∀ x, nsq (-x) = nsq x) :
    C12.normSq2 nsq a = C12.normSq2 nsq b := h.normSq2 nsq h0 he

/-- `SameAbs` ⇒ the same multiset of non-zero magnitudes, for every magnitude function `m` -/
theorem sameAbs_perm_magnitudes [Zero R] [Neg R] {S : Type} [Zero S] [DecidableEq S] (m : R → S)
    (h0 : m 0 = 0) (he : ∀ x, m (-x) = m x) {a b : Arr R} (h : SameAbs a b) :
    (magEntries m a).Perm (magEntries m b) := h.perm_mag m h0 he

/-- **`FermionicArray.fuse`** (insert strategy, any admissible groups) keeps the content up to signs -/
theorem fuseF_content [Zero R] [Neg R] (a x : Arr R) (groups : List (List Nat)) (e : Bool)
    (hv : a.validB = true) (hf : a.fermi = true) (hg : C05.groupsOkB groups a.ndim = true)
    (h : Arr.fuseF a groups .insert e = .ok x) : SameAbs a x :=
  fuseF_sameAbs a x groups e hv hf hg h

/-- **`FermionicArray.unfuse`** keeps the content up to signs -/
theorem unfuseF_content [Zero R] [Neg R] (a y : Arr R) (axis : Nat) (hv : a.validB = true)
    (h : Arr.unfuseF a axis = .ok y) : SameAbs a y :=
  unfuseF_sameAbs a y axis hv h

/-- **applyPlan_contentF.**  Executing a certified plan on ANY valid array — abelian or fermionic,
    with Python's method dispatch — keeps the content up to signs, returns a valid array of the
    same kind with `ns.length` axes. -/
theorem applyPlan_contentF [Zero R] [Neg R] (a r : Arr R)
    (t : List Nat × List (List (List Nat)) × List Nat) (ns : List Nat) (hv : a.validB = true)
    (hwf : (Plan.ofTriple t).wfB a.shape a.subsizes ns = true) (h : applyPlan a t = .ok r) :
    SameAbs a r ∧ r.validB = true ∧ r.ndim = ns.length ∧ r.fermi = a.fermi :=
  applyPlan_abs a r t ns hv hwf h

/-- **reshape_contentF.**  `reshape(newshape)` of a valid array without sparsely fused or empty
    axes whose dense size matches the (resolved) target: the certificate is a theorem, so a
    successful reshape keeps the content up to signs, is valid, has the requested number of axes
    and stays abelian / fermionic. -/
theorem reshape_contentF [Zero R] [Neg R] (a r : Arr R) (ns full : List Int) (nsN : List Nat)
    (t : List Nat × List (List (List Nat)) × List Nat) (hv : a.validB = true)
    (hdense : denseB a.shape a.subsizes = true) (hpos : ∀ d ∈ a.shape, 0 < d)
    (hprod : prod a.shape = prod nsN)
    (h1 : findFullReshape ns a.size = .ok full)
    (h2 : full.mapM (fun (d : Int) => if d < 0 then (throw Err.notimpl : Except Err Nat) else pure d.toNat)
      = .ok nsN)
    (h3 : calcReshapeArgs a.shape nsN a.subsizes = .ok t)
    (h : reshapeArr a ns = .ok r) :
    SameAbs a r ∧ r.validB = true ∧ r.ndim = nsN.length ∧ r.fermi = a.fermi :=
  reshapeArr_abs a r ns full nsN t hv h1 h2 h3
    (reshape_plan_certified a nsN t hdense hpos hprod h3) h

/-- the abelian statement of C07b without its certificate hypothesis: exact content (not only up to
    signs), validity, number and sizes of the axes -/
theorem reshape_content_abelian [Zero R] [Neg R] (a r : Arr R) (ns full : List Int) (nsN : List Nat)
    (t : List Nat × List (List (List Nat)) × List Nat) (hv : a.validB = true) (hf : a.fermi = false)
    (hdense : denseB a.shape a.subsizes = true) (hpos : ∀ d ∈ a.shape, 0 < d)
    (hprod : prod a.shape = prod nsN)
    (h1 : findFullReshape ns a.size = .ok full)
    (h2 : full.mapM (fun (d : Int) => if d < 0 then (throw Err.notimpl : Except Err Nat) else pure d.toNat)
      = .ok nsN)
    (h3 : calcReshapeArgs a.shape nsN a.subsizes = .ok t)
    (h : reshapeArr a ns = .ok r) :
    SameContent a r ∧ r.validB = true ∧ r.ndim = nsN.length
      ∧ List.Forall₂ (fun (d' d : Nat) => d' ≤ d) r.shape nsN :=
  reshape_axes_count a r ns full nsN t hv hf h1 h2 h3
    (reshape_plan_certified a nsN t hdense hpos hprod h3) h

/-- arrays without fused axes satisfy `denseB` -/
theorem dense_of_unfused (a : Arr R) (h : ∀ ix ∈ a.indices, ix.sub = none) :
    denseB a.shape a.subsizes = true := denseB_unfused a h

/-! ### examples -/

section Examples
open C05

def magOf (r : Except Err (Arr Int)) : Option (List Nat × Bool × List Nat) :=
  match r with
  | .ok x => some (x.shape, x.fermi, magEntries Int.natAbs x)
  | .error _ => none

example : exF.validB = true ∧ exF.fermi = true ∧ exF.shape = [3, 3, 2]
    ∧ denseB exF.shape exF.subsizes = true ∧ magEntries Int.natAbs exF = [1, 2, 3, 4, 5, 6] := by
  decide +kernel
-- the fermionic reshape (3,3,2) → (3,-1): signs change, magnitudes do not
example : magOf (reshapeArr exF [3, -1]) = some ([3, 3], true, [1, 3, 4, 2, 5, 6]) := by decide +kernel
-- with a pending sign on one sector (`exF'`): the stored entries of that sector are negated
example : nzEntries exF' = [1, 2, 3, 4, 5, 6]
    ∧ (match reshapeArr exF' [3, -1] with | .ok x => nzEntries x | .error _ => [])
      = [1, -3, -4, 2, -5, -6] := by decide +kernel
example := reshape_contentF (R := Int) exF' _ [3, -1] [3, 6] [3, 6] _ (by decide) (by decide) (by decide)
  (by decide) rfl rfl rfl rfl
example := reshape_contentF (R := Int) exF _ [3, -1] [3, 6] [3, 6] _ (by decide) (by decide) (by decide)
  (by decide) rfl rfl rfl rfl
example := fuseF_content (R := Int) exF _ [[0], [1, 2]] true (by decide) rfl (by decide) rfl
example := reshape_content_abelian (R := Int) exA _ [3, -1] [3, 6] [3, 6] _ (by decide) rfl (by decide)
  (by decide) (by decide) rfl rfl rfl rfl

end Examples

end SymmModel.C07
