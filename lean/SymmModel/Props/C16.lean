/-
  Property C16 — all ways of building an array agree, and dense conversion round-trips.

  About the model definitions `classSymmetry`, `construct`, `fromBlocks`, `fromDense`,
  `chargeGroups`, `fromFillFn` (Model/Construct.lean), `Arr.toDenseA`, `Arr.elem`,
  `Arr.locateAll` (Model/Arr.lean) and `Index.sortCm/plain` (Model/Index.lean); every symmetry,
  abelian and fermionic classes, arbitrary scalar type `R`, arbitrary block lists.

  The specification-level helpers used in the statements (`resolvedCharge`, `inferIndices`,
  `SizesAgree`) are defined in Proofs/DenseLemmas.lean; they are plain
  functions/predicates, each characterised here by a theorem.
-/
import SymmModel.Proofs.DenseLemmas

namespace SymmModel.C16
open SymmModel Arr

variable {R : Type}

/-! ## 4. class symmetry resolution -/

/-- `get_class_symmetry`: a fixed-symmetry class (`static = some s`) accepts no argument or its
    own symmetry and returns `s`, and raises (`ValueError`) for any other; a generic class
    (`static = none`) raises when no symmetry is given and otherwise returns the argument -/
theorem classSymmetry_spec (static arg : Option Sym) :
    classSymmetry static arg =
      match static, arg with
      | some s, none => .ok s
      | some s, some t => if s = t then .ok s else .error Err.value
      | none, none => .error Err.value
      | none, some t => .ok t := by
  cases static <;> cases arg <;> simp only [classSymmetry] <;> try rfl
  rename_i s t
  by_cases h : s = t <;> simp [h] <;> rfl

theorem classSymmetry_static_none (s : Sym) : classSymmetry (some s) none = .ok s := rfl
theorem classSymmetry_static_same (s : Sym) : classSymmetry (some s) (some s) = .ok s := by
  simp [classSymmetry]; rfl
theorem classSymmetry_static_other (s t : Sym) (h : s ≠ t) :
    classSymmetry (some s) (some t) = .error Err.value := by
  simp [classSymmetry, h]; rfl
theorem classSymmetry_generic_none : classSymmetry none none = .error Err.value := rfl
theorem classSymmetry_generic_some (t : Sym) : classSymmetry none (some t) = .ok t := rfl

/-- a fixed-symmetry class and the generic class given that symmetry resolve alike -/
theorem classSymmetry_static_eq_generic (s : Sym) :
    classSymmetry (some s) none = classSymmetry none (some s)
    ∧ classSymmetry (some s) (some s) = classSymmetry none (some s) :=
  ⟨rfl, by rw [classSymmetry_static_same]; rfl⟩

/-! ## 5. the direct constructor and its charge default -/

/-- `__init__` computed in one step: it raises (`ValueError`) exactly when the array is
    fermionic, its resolved charge is odd and no odd-position label was given; otherwise it
    stores the given data, the dict of the blocks, no pending signs, and the resolved charge -/
theorem construct_spec (sym : Sym) (fermi : Bool) (indices : List Index) (charge : Option Charge)
    (blocks : List (Sector × Blk R)) (oddpos : List (Int × Bool)) :
    construct sym fermi indices charge blocks oddpos =
      if (fermi && sym.parity (resolvedCharge sym indices charge blocks) && oddpos.isEmpty) = true
      then .error Err.value
      else .ok { sym := sym, fermi := fermi, indices := indices,
                 charge := resolvedCharge sym indices charge blocks,
                 blocks := adict blocks, phases := [], oddpos := oddpos } :=
  construct_eq sym fermi indices charge blocks oddpos

/-- the resolved charge: the given one, else the signed combination of the first block's sector
    with respect to the index directions, else (no blocks) the identity -/
theorem construct_charge_default (sym : Sym) (indices : List Index) (blocks : List (Sector × Blk R)) :
    (∀ c, resolvedCharge sym indices (some c) blocks = c)
    ∧ (blocks = [] → resolvedCharge sym indices none blocks = sym.zero)
    ∧ (∀ s b rest, blocks = (s, b) :: rest →
        resolvedCharge sym indices none blocks = sectorCharge sym (indices.map Index.dual) s) := by
  refine ⟨fun _ => rfl, ?_, ?_⟩
  · rintro rfl; rfl
  · rintro s b rest rfl; rfl

/-- the charge of the constructed array, by cases on the `charge` argument -/
theorem construct_charge (sym : Sym) (fermi : Bool) (indices : List Index) (charge : Option Charge)
    (blocks : List (Sector × Blk R)) (oddpos : List (Int × Bool)) (a : Arr R)
    (h : construct sym fermi indices charge blocks oddpos = .ok a) :
    a.charge = (match charge, blocks with
      | some c, _ => c
      | none, (s, _) :: _ => sectorCharge sym (indices.map Index.dual) s
      | none, [] => sym.zero)
    ∧ a.sym = sym ∧ a.fermi = fermi ∧ a.indices = indices ∧ a.blocks = adict blocks
    ∧ a.phases = [] ∧ a.oddpos = oddpos := by
  rw [construct_spec] at h
  split at h
  · cases h
  · injection h with h; subst h
    refine ⟨?_, rfl, rfl, rfl, rfl, rfl, rfl⟩
    cases charge with
    | some c => rfl
    | none => cases blocks with
      | nil => rfl
      | cons p ps => obtain ⟨s, b⟩ := p; rfl

/-- the first stored sector of the result is the first sector given, so the default charge is
    also the signed combination of the result's own first stored sector -/
theorem construct_first_sector (blocks : List (Sector × Blk R)) :
    ((adict blocks).head?).map (·.1) = (blocks.head?).map (·.1) := adict_head_key blocks

theorem construct_error_iff (sym : Sym) (fermi : Bool) (indices : List Index)
    (charge : Option Charge) (blocks : List (Sector × Blk R)) (oddpos : List (Int × Bool)) :
    ((∃ e, construct sym fermi indices charge blocks oddpos = .error e) ↔
      (fermi = true ∧ sym.parity (resolvedCharge sym indices charge blocks) = true ∧ oddpos = []))
    ∧ ∀ e, construct sym fermi indices charge blocks oddpos = .error e → e = Err.value := by
  rw [construct_spec]
  split
  · rename_i h
    simp only [Bool.and_eq_true, List.isEmpty_iff] at h
    exact ⟨⟨fun _ => ⟨h.1.1, h.1.2, h.2⟩, fun _ => ⟨_, rfl⟩⟩, fun e he => (Except.error.inj he).symm⟩
  · rename_i h
    simp only [Bool.and_eq_true, List.isEmpty_iff] at h
    exact ⟨⟨fun ⟨e, he⟩ => (by cases he), fun ⟨h1, h2, h3⟩ => absurd ⟨⟨h1, h2⟩, h3⟩ h⟩,
      fun e he => by cases he⟩

/-! ## 6. `from_blocks` -/

/-- `from_blocks` is the direct constructor applied to the inferred indices, with the charge
    defaulted to the identity (NOT to the first sector's charge, unlike `__init__`) -/
theorem fromBlocks_eq_construct (sym : Sym) (fermi : Bool) (blocks : List (Sector × Blk R))
    (duals : List Bool) (charge : Option Charge) (oddpos : List (Int × Bool)) :
    fromBlocks sym fermi blocks duals charge oddpos =
      match inferIndices blocks duals with
      | .error e => .error e
      | .ok indices => construct sym fermi indices (some (charge.getD sym.zero)) blocks oddpos :=
  fromBlocks_eq sym fermi blocks duals charge oddpos

/-- with no blocks `from_blocks` raises (`StopIteration` in Python) -/
theorem fromBlocks_nil (sym : Sym) (fermi : Bool) (duals : List Bool) (charge : Option Charge)
    (oddpos : List (Int × Bool)) :
    fromBlocks sym fermi ([] : List (Sector × Blk R)) duals charge oddpos = .error Err.other := rfl

/-- the inferred indices: `ValueError` iff two blocks disagree on the size of a charge on an
    axis (`¬ SizesAgree`) or `duals` has not one entry per axis; otherwise index `i` is a plain
    index of direction `duals[i]` whose chargemap is the strictly sorted list of exactly the
    `(charge, size)` pairs found at position `i` of the block keys / block shapes -/
theorem fromBlocks_indices (s0 : Sector) (b0 : Blk R) (rest : List (Sector × Blk R))
    (duals : List Bool) :
    let blocks := (s0, b0) :: rest
    (¬ SizesAgree blocks s0.length ∧ inferIndices blocks duals = .error Err.value)
    ∨ (SizesAgree blocks s0.length ∧ duals.length ≠ s0.length
        ∧ inferIndices blocks duals = .error Err.value)
    ∨ (SizesAgree blocks s0.length ∧ duals.length = s0.length ∧
        ∃ idx, inferIndices blocks duals = .ok idx ∧ idx.length = s0.length ∧
          ∀ i, i < s0.length → ∃ ix, idx[i]? = some ix ∧ some ix.dual = duals[i]? ∧ ix.sub = none
            ∧ (∀ c d, (c, d) ∈ ix.cm ↔ ∃ sb ∈ blocks, sb.1[i]? = some c ∧ sb.2.shape[i]? = some d)
            ∧ (ix.cm.map (·.1)).Pairwise (fun a b => Charge.lt a b = true)) :=
  inferIndices_spec s0 b0 rest duals

/-- when `from_blocks` raises and why -/
theorem fromBlocks_error_iff (sym : Sym) (fermi : Bool) (s0 : Sector) (b0 : Blk R)
    (rest : List (Sector × Blk R)) (duals : List Bool) (charge : Option Charge)
    (oddpos : List (Int × Bool)) :
    let blocks := (s0, b0) :: rest
    ((∃ e, fromBlocks sym fermi blocks duals charge oddpos = .error e) ↔
      (¬ SizesAgree blocks s0.length ∨ duals.length ≠ s0.length
        ∨ (fermi = true ∧ sym.parity (charge.getD sym.zero) = true ∧ oddpos = [])))
    ∧ ∀ e, fromBlocks sym fermi blocks duals charge oddpos = .error e → e = Err.value := by
  intro blocks
  rw [fromBlocks_eq_construct]
  rcases inferIndices_spec s0 b0 rest duals with ⟨h1, he⟩ | ⟨h1, h2, he⟩ | ⟨h1, h2, idx, hok, _⟩
  · simp only [blocks, he]
    exact ⟨⟨fun _ => Or.inl h1, fun _ => ⟨_, rfl⟩⟩, fun e h => (Except.error.inj h).symm⟩
  · simp only [blocks, he]
    exact ⟨⟨fun _ => Or.inr (Or.inl h2), fun _ => ⟨_, rfl⟩⟩, fun e h => (Except.error.inj h).symm⟩
  · simp only [blocks, hok]
    have := construct_error_iff sym fermi idx (some (charge.getD sym.zero)) ((s0, b0) :: rest) oddpos
    refine ⟨this.1.trans ⟨fun h => Or.inr (Or.inr h), ?_⟩, this.2⟩
    rintro (h | h | h)
    · exact absurd h1 h
    · exact absurd h2 h
    · exact h

/-- constructors agree: whenever the inferred indices are `indices`, `from_blocks` and the direct
    constructor (given those indices and the identity-defaulted charge) return the same array or
    the same error -/
theorem fromBlocks_agrees_with_construct (sym : Sym) (fermi : Bool) (blocks : List (Sector × Blk R))
    (duals : List Bool) (charge : Option Charge) (oddpos : List (Int × Bool)) (indices : List Index)
    (h : inferIndices blocks duals = .ok indices) :
    fromBlocks sym fermi blocks duals charge oddpos
      = construct sym fermi indices (some (charge.getD sym.zero)) blocks oddpos := by
  rw [fromBlocks_eq_construct, h]

/-- constructors agree on the same tensor: for an array with plain, strictly sorted index tables
    all of whose charges are used, whose blocks have the prescribed shapes and full-length keys,
    `from_blocks(blocks, duals, charge)` equals the direct constructor on the array's own indices
    (same result or same error) -/
theorem fromBlocks_of_array (a : Arr R) (hne : a.blocks ≠ [])
    (hlen : ∀ sb ∈ a.blocks, sb.1.length = a.ndim)
    (hshape : ∀ sb ∈ a.blocks, blockShape? a.indices sb.1 = some sb.2.shape)
    (hs : ∀ ix ∈ a.indices, (ix.cm.map (·.1)).Pairwise (fun a b => Charge.lt a b = true))
    (hplain : ∀ ix ∈ a.indices, ix.sub = none)
    (hused : ∀ i, i < a.ndim →
      ∀ cd ∈ (a.indices.getD i default).cm, ∃ sb ∈ a.blocks, sb.1[i]? = some cd.1) :
    inferIndices a.blocks a.duals = .ok a.indices
    ∧ fromBlocks a.sym a.fermi a.blocks a.duals (some a.charge) a.oddpos
        = construct a.sym a.fermi a.indices (some a.charge) a.blocks a.oddpos := by
  have hused' : ∀ (i : Nat) (ix : Index), a.indices[i]? = some ix →
      ∀ cd ∈ ix.cm, ∃ sb ∈ a.blocks, sb.1[i]? = some cd.1 := by
    intro i ix hix cd hcd
    have hi : i < a.ndim := by
      by_contra hn; rw [List.getElem?_eq_none (by simpa [ndim] using hn)] at hix; cases hix
    refine hused i hi cd ?_
    rw [List.getD_eq_getElem?_getD, hix]; exact hcd
  have h := inferIndices_of_array a hne hlen hshape hs hplain hused'
  exact ⟨h, by rw [fromBlocks_eq_construct, h]; rfl⟩

/-- `from_fill_fn`: given indices, identity-defaulted charge, one block `fill sector shape` per
    valid sector in `gen_valid_sectors` order; it raises like the constructor, or `KeyError`
    (unreachable for valid sectors) -/
theorem fromFillFn_blocks (sym : Sym) (fermi : Bool) (indices : List Index) (charge : Option Charge)
    (fill : Sector → List Nat → Blk R) (oddpos : List (Int × Bool)) (b : Arr R)
    (h : fromFillFn sym fermi indices charge fill oddpos = .ok b) :
    b.sym = sym ∧ b.fermi = fermi ∧ b.indices = indices ∧ b.charge = charge.getD sym.zero
    ∧ b.phases = [] ∧ b.oddpos = oddpos
    ∧ List.Forall₂ (fun s (sb : Sector × Blk R) =>
        sb.1 = s ∧ ∃ shp, blockShape? indices s = some shp ∧ sb.2 = fill s shp)
        (genValidSectors
          ({ sym := sym, fermi := fermi, indices := indices, charge := charge.getD sym.zero,
             blocks := [], phases := [], oddpos := oddpos } : Arr R))
        b.blocks :=
  let r := fromFillFn_spec sym fermi indices charge fill oddpos b h
  ⟨r.1, r.2.1, r.2.2.1, r.2.2.2.1, r.2.2.2.2.1, r.2.2.2.2.2.1, r.2.2.2.2.2.2.1⟩

/-- … and the direct constructor given those blocks returns the same array -/
theorem fromFillFn_agrees_with_construct (sym : Sym) (fermi : Bool) (indices : List Index)
    (charge : Option Charge) (fill : Sector → List Nat → Blk R) (oddpos : List (Int × Bool))
    (b : Arr R) (h : fromFillFn sym fermi indices charge fill oddpos = .ok b)
    (hnd : b.sectors.Nodup) :
    construct sym fermi indices (some (charge.getD sym.zero)) b.blocks oddpos = .ok b :=
  fromFillFn_construct sym fermi indices charge fill oddpos b h hnd

/-! ## 7. `from_dense`, and dense → blocks → dense -/

/-- `from_dense` raises `IndexError` when `index_maps`/`duals` do not have one entry per axis,
    `KeyError` when some axis has not one label per position; otherwise it is the direct
    constructor applied to the index tables `fdIndices` (= `Index.plain` of the group sizes, i.e.
    `sortCm` of them) and the blocks `fdBlocks`, with the charge defaulted to the identity -/
theorem fromDense_eq_construct [Zero R] (sym : Sym) (fermi : Bool) (dense : Blk R)
    (maps : List (List Charge)) (duals : List Bool) (charge : Option Charge)
    (oddpos : List (Int × Bool)) :
    fromDense sym fermi dense maps duals charge oddpos =
      if maps.length ≠ dense.shape.length ∨ duals.length ≠ dense.shape.length then .error Err.index
      else if (List.zipWith (fun (m : List Charge) d => m.length != d) maps dense.shape).any id = true
      then .error Err.key
      else construct sym fermi (fdIndices maps duals) (some (charge.getD sym.zero))
        (fdBlocks sym dense maps duals (charge.getD sym.zero)) oddpos := by
  by_cases h1 : maps.length ≠ dense.shape.length ∨ duals.length ≠ dense.shape.length
  · rw [if_pos h1, fromDense_error_index _ _ _ _ _ _ _ h1]
  · rw [if_neg h1]
    have h1' : maps.length = dense.shape.length ∧ duals.length = dense.shape.length := by
      constructor <;> (by_contra h; exact h1 (by simp [h]))
    by_cases h2 : (List.zipWith (fun (m : List Charge) d => m.length != d) maps dense.shape).any id = true
    · rw [if_pos h2, fromDense_error_key _ _ _ _ _ _ _ h1'.1 h1'.2 h2]
    · rw [if_neg h2, fromDense_eq _ _ _ _ _ _ _ h1'.1 h1'.2 (by simpa using h2)]

/-- the index tables: axis `i` is the plain index of direction `duals[i]` whose chargemap is the
    charge-sorted list of (charge, number of positions labelled with it) -/
theorem fromDense_indices (maps : List (List Charge)) (duals : List Bool) :
    fdIndices maps duals = List.zipWith (fun m d => Index.mk (Index.sortCm (gsizes m)) d none) maps duals
    ∧ ∀ m c d, (c, d) ∈ gsizes m ↔ ∃ l, alookup (chargeGroups m) c = some l ∧ l.length = d :=
  ⟨rfl, fun _ _ _ => mem_gsizes⟩

/-- what `chargeGroups` computes for the labels of one axis: distinct charges, and the entry of a
    charge lists in increasing order exactly the positions carrying it -/
theorem chargeGroups_spec (labels : List Charge) :
    ((chargeGroups labels).map (·.1)).Nodup
    ∧ (∀ c l, alookup (chargeGroups labels) c = some l →
        l.Pairwise (· < ·) ∧ l ≠ [] ∧ ∀ i, i ∈ l ↔ labels[i]? = some c)
    ∧ sumN ((chargeGroups labels).map (fun cl => cl.2.length)) = labels.length := by
  have inv := chargeGroups_inv labels
  refine ⟨inv.nodup, fun c l hl => ⟨inv.sorted c l hl, inv.nonempty c l hl, fun i => ⟨fun hi =>
    (inv.label c l hl i hi).1, fun hi => ?_⟩⟩, inv.total⟩
  have hlt : i < labels.length := by
    by_contra hn; rw [List.getElem?_eq_none (by omega)] at hi; cases hi
  obtain ⟨l', hl', hm⟩ := inv.cover i c hlt hi
  rw [hl] at hl'; injection hl' with hl'; subst hl'; exact hm

/-- the stored blocks: exactly the charge-conserving combinations of the charges present on the
    axes (every dropped combination is non-conserving), in `itertools.product` order, each block
    being the sub-array of the dense array at the positions of its charges -/
theorem fromDense_blocks [Zero R] (sym : Sym) (dense : Blk R) (maps : List (List Charge))
    (duals : List Bool) (c : Charge) :
    (fdBlocks sym dense maps duals c).map (·.1)
        = (fdSectors maps).filter (fun s => sectorCharge sym duals s == c)
    ∧ ((fdBlocks sym dense maps duals c).map (·.1)).Nodup
    ∧ (∀ s b, (s, b) ∈ fdBlocks sym dense maps duals c → b = fdBlock dense maps s)
    ∧ (∀ s, s ∈ fdSectors maps ↔
        List.Forall₂ (fun x (m : List Charge) => x ∈ (chargeGroups m).map (·.1)) s maps)
    ∧ ∀ s i, inBox ((fdPos maps s).map List.length) i = true →
        (fdBlock dense maps s).get i
          = dense.get (List.zipWith (fun (p : List Nat) k => p.getD k 0) (fdPos maps s) i) := by
  refine ⟨fdBlocks_keys sym dense maps duals c, fdBlocks_nodup sym dense maps duals c, ?_, ?_, ?_⟩
  · intro s b hm
    simp only [fdBlocks, List.mem_filterMap] at hm
    obtain ⟨s', _, hs'⟩ := hm
    split at hs'
    · simp only [Option.some.injEq, Prod.mk.injEq] at hs'
      obtain ⟨rfl, rfl⟩ := hs'; rfl
    · cases hs'
  · intro s
    simp only [fdSectors, mem_cartesian, List.map_map, List.forall₂_map_right_iff, Function.comp]
  · intro s i hi
    exact Blk.get_ofFn _ _ hi

/-- **dense → blocks → dense.**  For a dense array `dense`, per-axis charge labels `maps` (any
    order, interleaved), directions `duals` and total charge `charge`: `to_dense(from_dense(…))`
    has the shape of `dense`, and its entry at position `p` is the entry of `dense` at the
    ORIGINAL position `origAll maps p` if the labels there conserve the charge, and zero
    otherwise — the projection onto the charge-conserving sectors, axes reordered by charge. -/
theorem toDense_fromDense [Zero R] [Neg R] (sym : Sym) (fermi : Bool) (dense : Blk R)
    (maps : List (List Charge)) (duals : List Bool) (charge : Option Charge)
    (oddpos : List (Int × Bool))
    (hm : maps.length = dense.shape.length) (hd : duals.length = dense.shape.length)
    (hl : (List.zipWith (fun (m : List Charge) d => m.length != d) maps dense.shape).any id = false)
    (hne : ∀ m ∈ maps, m ≠ [])
    (a : Arr R) (ha : fromDense sym fermi dense maps duals charge oddpos = .ok a) :
    ∃ d', toDenseA a = .ok d' ∧ d'.shape = dense.shape ∧
      ∀ p, inBox dense.shape p = true →
        d'.get p =
          if sectorCharge sym duals (labelsAt maps (origAll maps p)) == charge.getD sym.zero
          then dense.get (origAll maps p) else 0 :=
  toDense_fromDense_main sym fermi dense maps duals charge oddpos hm hd hl hne a ha

/-- the reordering `origPos labels` of one axis is the stable sort by charge: it permutes the
    positions `0 … n-1` (into range, injective), the labels read through it are non-decreasing,
    and positions with equal labels keep their original relative order -/
theorem origPos_stable_sort (labels : List Charge) :
    (∀ q, q < labels.length → origPos labels q < labels.length)
    ∧ (∀ q q', q < labels.length → q' < labels.length → origPos labels q = origPos labels q' → q = q')
    ∧ ∀ q q', q < q' → q' < labels.length →
        Charge.lt (labels.getD (origPos labels q) (0, 0)) (labels.getD (origPos labels q') (0, 0)) = true
        ∨ (labels.getD (origPos labels q) (0, 0) = labels.getD (origPos labels q') (0, 0)
            ∧ origPos labels q < origPos labels q') :=
  ⟨fun _ hq => origPos_lt labels hq, fun _ _ hq hq' h => origPos_injective labels hq hq' h,
    fun _ _ hq hq' => origPos_sorted_stable labels hq hq'⟩

/-- `origAll` acts axis by axis -/
theorem origAll_eq (maps : List (List Charge)) (p : List Nat) :
    origAll maps p = List.zipWith origPos maps p
    ∧ labelsAt maps (origAll maps p)
        = List.zipWith (fun (m : List Charge) q => m.getD (origPos m q) (0, 0)) maps p := by
  refine ⟨rfl, ?_⟩
  induction maps generalizing p with
  | nil => rfl
  | cons m maps ih =>
    cases p with
    | nil => rfl
    | cons q p => simp only [origAll, labelsAt, List.zipWith_cons_cons, List.cons.injEq, true_and] at ih ⊢; exact ih p

/-! ## 8. blocks → dense → blocks -/

/-- **identity direction.**  Take an array without pending signs whose index tables are strictly
    sorted with positive sizes and non-empty, and whose stored sectors conserve the charge.
    Converting it to dense and back with the labels of the sorted layout (`labelsOfIdx`: charge
    `c` repeated `size c` times, charges ascending), the same directions and the same charge gives
    an array with the same charge tables, directions, charge and class data whose value view
    agrees with the original on every sector of the index tables and every offset of the block
    box.  (The result stores every conserving sector, i.e. it also materialises the zero blocks
    the original leaves out; so equality is of value views, not of block lists.) -/
theorem fromDense_toDense [Zero R] [Neg R] (a : Arr R) (hph : a.phases = [])
    (hs : ∀ ix ∈ a.indices, (ix.cm.map (·.1)).Pairwise (fun a b => Charge.lt a b = true))
    (hpos : ∀ ix ∈ a.indices, ∀ cd ∈ ix.cm, 0 < cd.2)
    (hne : a.indices.any (fun ix => ix.cm.isEmpty) = false)
    (hvalid : ∀ s ∈ a.sectors, a.isValidSector s = true)
    (d : Blk R) (hd : toDenseA a = .ok d) (b : Arr R)
    (hb : fromDense a.sym a.fermi d (labelsOfIdx a.indices) a.duals (some a.charge) a.oddpos = .ok b) :
    b.indices = a.indices.map (fun ix => Index.mk ix.cm ix.dual none)
    ∧ b.charge = a.charge ∧ b.sym = a.sym ∧ b.fermi = a.fermi ∧ b.phases = [] ∧ b.oddpos = a.oddpos
    ∧ (∀ s, s ∈ b.sectors ↔ (s ∈ fdSectors (labelsOfIdx a.indices) ∧ a.isValidSector s = true))
    ∧ ∀ s shp off, blockShape? a.indices s = some shp → inBox shp off = true →
        b.elem s off = a.elem s off :=
  fromDense_toDense_main a hph hs hpos hne hvalid d hd b hb

/-- the same for a valid (`Arr.validB`, property C01) abelian array -/
theorem fromDense_toDense_of_valid [Zero R] [Neg R] (a : Arr R) (hv : a.validB = true)
    (hab : a.fermi = false) (hne : a.indices.any (fun ix => ix.cm.isEmpty) = false)
    (d : Blk R) (hd : toDenseA a = .ok d) (b : Arr R)
    (hb : fromDense a.sym a.fermi d (labelsOfIdx a.indices) a.duals (some a.charge) a.oddpos = .ok b) :
    b.indices = a.indices.map (fun ix => Index.mk ix.cm ix.dual none) ∧ b.charge = a.charge
    ∧ ∀ s shp off, blockShape? a.indices s = some shp → inBox shp off = true →
        b.elem s off = a.elem s off := by
  obtain ⟨_, _, _, h4, h5, h6⟩ := validB_facts a hv
  obtain ⟨r1, r2, _, _, _, _, _, r8⟩ :=
    fromDense_toDense a (h6 hab) h5 (validB_pos a hv) hne h4 d hd b hb
  exact ⟨r1, r2, r8⟩

/-- the labels of the sorted layout: position `q` carries the charge `locate` finds there -/
theorem labelsOf_spec (cm : List (Charge × Nat)) (q : Nat) :
    (labelsOf cm)[q]? = (locate cm q).map (·.1) ∧ (labelsOf cm).length = sumN (cm.map (·.2)) :=
  ⟨labelsOf_getElem? cm q, length_labelsOf cm⟩

/-! ## the hypotheses are satisfiable: concrete values over `Int` -/

section Examples
namespace Ex
def ix (d : Bool) : Index := .mk [((0, 0), 1), ((1, 0), 2)] d none
def blocks : List (Sector × Blk Int) :=
  [([(1, 0), (1, 0)], ⟨[2, 2], #[1, 2, 3, 4]⟩), ([(0, 0), (0, 0)], ⟨[1, 1], #[5]⟩)]
/-- two blocks that disagree on the size of charge 1 on axis 0 -/
def badBlocks : List (Sector × Blk Int) :=
  [([(1, 0), (1, 0)], ⟨[2, 2], #[1, 2, 3, 4]⟩), ([(1, 0), (0, 0)], ⟨[3, 1], #[5, 6, 7]⟩)]
/-- a dense 3×3 matrix with interleaved labels 1,0,1 on both axes -/
def dense : Blk Int := ⟨[3, 3], #[1, 2, 3, 4, 5, 6, 7, 8, 9]⟩
def maps : List (List Charge) := [[(1, 0), (0, 0), (1, 0)], [(1, 0), (0, 0), (1, 0)]]

def cms (r : Except Err (List Index)) : Option (List (List (Charge × Nat) × Bool)) :=
  match r with | .ok l => some (l.map (fun i => (i.cm, i.dual))) | .error _ => none
def errOf {α : Type} (r : Except Err α) : Option Err :=
  match r with | .ok _ => none | .error e => some e
def dataOf (r : Except Err (Blk Int)) : Option (List Nat × List Int) :=
  match r with | .ok b => some (b.shape, b.data.toList) | .error _ => none
def chargeOf (r : Except Err (Arr Int)) : Option Charge :=
  match r with | .ok a => some a.charge | .error _ => none
end Ex
open Ex

-- 4. class symmetry
example : errOf (classSymmetry (some .Z2) (some .U1)) = some Err.value
    ∧ errOf (classSymmetry none none) = some Err.value
    ∧ errOf (classSymmetry (some .Z2) none) = none := by decide

-- 5. charge default: first sector's signed charge / identity / given; fermionic odd without label
example : chargeOf (construct .U1 false [ix false, ix false] none blocks) = some (2, 0) := by decide
example : chargeOf (construct .U1 false [ix false, ix true] none blocks) = some (0, 0) := by decide
example : chargeOf (construct .U1 false [ix false, ix true] none ([] : List (Sector × Blk Int)))
    = some (0, 0) := by decide
example : errOf (construct .U1 true [ix false] none [([(1, 0)], (⟨[2], #[1, 2]⟩ : Blk Int))])
    = some Err.value := by decide
example : errOf (construct .U1 true [ix false] none [([(1, 0)], (⟨[2], #[1, 2]⟩ : Blk Int))]
    [(0, false)]) = none := by decide

-- 6. inferred indices are sorted although the blocks list charge 1 first
example : cms (inferIndices blocks [false, true])
    = some [([((0, 0), 1), ((1, 0), 2)], false), ([((0, 0), 1), ((1, 0), 2)], true)] := by decide
example : errOf (inferIndices badBlocks [false, true]) = some Err.value := by decide
example : errOf (inferIndices blocks [false]) = some Err.value := by decide
example : errOf (fromBlocks .U1 false ([] : List (Sector × Blk Int)) [] none) = some Err.other := by
  decide
-- `from_blocks` defaults the charge to the identity, the constructor to the first sector's
example : chargeOf (fromBlocks .U1 false blocks [false, false] none) = some (0, 0)
    ∧ chargeOf (construct .U1 false [ix false, ix false] none blocks) = some (2, 0) := by decide

-- 7. dense → blocks → dense: rows/columns reordered to (1,0,2), non-conserving entries zeroed
example : origAll maps [0, 0] = [1, 1] ∧ origAll maps [1, 2] = [0, 2] ∧ origAll maps [2, 1] = [2, 0] := by
  decide
example : dataOf (fromDense .U1 false dense maps [false, true] none >>= toDenseA)
    = some ([3, 3], [5, 0, 0, 0, 1, 3, 0, 7, 9]) := by decide
example : dataOf (fromDense .U1 false dense maps [false, true] (some (1, 0)) >>= toDenseA)
    = some ([3, 3], [0, 0, 0, 2, 0, 0, 8, 0, 0]) := by decide
example : errOf (fromDense .U1 false dense maps [false] none) = some Err.index
    ∧ errOf (fromDense .U1 false dense [[(1, 0)], [(0, 0)]] [false, true] none) = some Err.key := by
  decide
example : ∃ a, fromDense .U1 false dense maps [false, true] none = .ok a :=
  ⟨_, rfl⟩
example := toDense_fromDense (R := Int) .U1 false dense maps [false, true] none [] rfl rfl
  (by decide) (by decide)

-- 8. blocks → dense → blocks on a valid array with a sector left out
namespace Ex
def x : Arr Int :=
  { sym := .U1, fermi := false, indices := [ix false, ix true], charge := (0, 0),
    blocks := [([(1, 0), (1, 0)], ⟨[2, 2], #[1, 2, 3, 4]⟩)] }
def secs (r : Except Err (Arr Int)) : Option (List Sector) :=
  match r with | .ok a => some a.sectors | .error _ => none
end Ex
example : x.validB = true ∧ labelsOfIdx x.indices = [[(0, 0), (1, 0), (1, 0)], [(0, 0), (1, 0), (1, 0)]] := by
  decide
example : dataOf (toDenseA x) = some ([3, 3], [0, 0, 0, 0, 1, 2, 0, 3, 4]) := by decide
example : secs (toDenseA x >>= fun d => fromDense x.sym x.fermi d (labelsOfIdx x.indices) x.duals
    (some x.charge) x.oddpos) = some [[(0, 0), (0, 0)], [(1, 0), (1, 0)]] := by decide
example := fromDense_toDense_of_valid (R := Int) x (by decide) rfl (by decide)

-- constructors agree on an array using all its charges
example := fromBlocks_of_array (R := Int) { x with blocks := blocks } (by decide) (by decide)
  (by decide) (validB_facts x (by decide)).2.2.2.2.1 (by decide) (by decide)
example : ∃ b, fromFillFn .U1 false [ix false, ix true] none
    (fun _ shp => (Blk.ofFn shp (fun i => (ravel shp i : Int)))) = .ok b ∧ b.sectors.Nodup :=
  ⟨_, rfl, by decide⟩

end Examples

end SymmModel.C16
